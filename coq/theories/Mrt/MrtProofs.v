From stdpp Require Import gmap.
From Coq Require Import NArith Lia.
From RV Require Import Ingress.IngressModel Ingress.IngressProofs Rib.RibModel Rib.RibProofs Bmp.BmpModel Bmp.BmpProofs Mrt.MrtModel.
Local Open Scope N_scope.

(* ------------------------------------------------------------------ *)
(* queue: files one after another, in queue order *)

Lemma queue_run_app parent fs1 : forall r fs2,
  queue_run parent r (fs1 ++ fs2) =
  let '(r1, us1) := queue_run parent r fs1 in
  let '(r2, us2) := queue_run parent r1 fs2 in
  (r2, us1 ++ us2).
Proof.
  induction fs1 as [|f fs1 IH]; intros r fs2.
  - cbn [app queue_run]. destruct (queue_run parent r fs2); reflexivity.
  - cbn [app queue_run]. destruct (process_file parent r f) as [[r1 us] st].
    rewrite IH. destruct (queue_run parent r1 fs1) as [r2 us1].
    destruct (queue_run parent r2 fs2) as [r3 us2]. rewrite app_assoc. reflexivity.
Qed.

(* the RIB after a queue = the RIB after its first part, then the updates of the rest *)
Lemma queue_rib_app parent r fs1 fs2 rb :
  fold_left rib_apply (queue_run parent r (fs1 ++ fs2)).2 rb =
  fold_left rib_apply (queue_run parent (queue_run parent r fs1).1 fs2).2
            (fold_left rib_apply (queue_run parent r fs1).2 rb).
Proof.
  rewrite queue_run_app. destruct (queue_run parent r fs1) as [r1 us1]. cbn [fst snd].
  destruct (queue_run parent r1 fs2) as [r2 us2]. cbn [snd]. apply fold_left_app.
Qed.

(* an unreadable file is as if it had not been queued *)
Lemma bad_file_local parent r fs1 fs2 :
  queue_run parent r (fs1 ++ FBad :: fs2) = queue_run parent r (fs1 ++ fs2).
Proof.
  rewrite !queue_run_app. destruct (queue_run parent r fs1) as [r1 us1].
  cbn [queue_run process_file]. destruct (queue_run parent r1 fs2); reflexivity.
Qed.

(* whatever happens to a file - error, parser stop - the files behind it are
   processed exactly as they would be after it from the register it left *)
Lemma file_then_rest parent r f fs :
  queue_run parent r (f :: fs) =
  (let '(r1, us, _) := process_file parent r f in
   ((queue_run parent r1 fs).1, us ++ (queue_run parent r1 fs).2)).
Proof.
  cbn [queue_run]. destruct (process_file parent r f) as [[r1 us] st].
  destruct (queue_run parent r1 fs); reflexivity.
Qed.

(* ------------------------------------------------------------------ *)
(* messages part: record after record, in file order *)

Lemma msgs_walk_app parent recs1 : forall r recs2,
  msgs_walk parent r (recs1 ++ recs2) =
  let '(r1, us1) := msgs_walk parent r recs1 in
  let '(r2, us2) := msgs_walk parent r1 recs2 in
  (r2, us1 ++ us2).
Proof.
  induction recs1 as [|rc recs1 IH]; intros r recs2.
  - cbn [app msgs_walk]. destruct (msgs_walk parent r recs2); reflexivity.
  - cbn [app msgs_walk]. destruct (msg_step parent r rc) as [r1 us].
    rewrite IH. destruct (msgs_walk parent r1 recs1) as [r2 us1].
    destruct (msgs_walk parent r2 recs2) as [r3 us2]. rewrite app_assoc. reflexivity.
Qed.

(* ------------------------------------------------------------------ *)
(* the state-change lookup *)

(* the defect that was repaired: a query without a parent matches nothing *)
Lemma lookup_without_parent r q : i_parent q = None -> reg_find_peers r q = [].
Proof.
  intros Hq. destruct (reg_find_peers r q) as [|x l] eqn:E; [reflexivity|exfalso].
  assert (Hin : x ∈ reg_find_peers r q) by (rewrite E; left).
  unfold reg_find_peers in Hin. apply elem_of_find_all in Hin as (i & _ & Hm).
  apply peer_match_spec in Hm. rewrite Hq in Hm. destruct Hm as ((p & a & s & Hp & _) & Hp2 & _).
  congruence.
Qed.

Lemma state_change_withdraws parent r p id :
  reg_find_peers r (mrt_query parent p) = [id] ->
  msg_step parent r (RState p 6 1) = (r, [UWithdraw id None]).
Proof. intros H. cbn [msg_step N.eqb Pos.eqb andb]. rewrite H. reflexivity. Qed.

Lemma state_change_other parent r p old new :
  (old =? 6) && (new =? 1) = false -> msg_step parent r (RState p old new) = (r, []).
Proof. intros H. cbn [msg_step]. rewrite H. reflexivity. Qed.

(* ------------------------------------------------------------------ *)
(* the register along update files = a disciplined history of IngressModel
   operations, so C14's invariants apply *)

Lemma msg_step_reg parent r rc :
  (msg_step parent r rc).1 = (run_from r (rec_ops parent rc)).1.
Proof.
  destruct rc as [ps|fam pfx es|p [u| |]|p old new|]; cbn [msg_step rec_ops run_from fst]; try reflexivity.
  - cbn [step]. destruct (find_or_register peer_match r (mrt_query parent p)) as [id r']. reflexivity.
  - destruct ((old =? 6) && (new =? 1)); [|reflexivity].
    destruct (reg_find_peers r (mrt_query parent p)); reflexivity.
Qed.

Lemma msgs_walk_reg parent recs : forall r,
  (msgs_walk parent r recs).1 = (run_from r (flat_map (rec_ops parent) recs)).1.
Proof.
  induction recs as [|rc recs IH]; intros r; [reflexivity|].
  cbn [msgs_walk flat_map]. rewrite run_from_app, <- msg_step_reg.
  destruct (msg_step parent r rc) as [r1 us]. cbn [fst]. rewrite <- IH.
  destruct (msgs_walk parent r1 recs); reflexivity.
Qed.

Lemma update_file_reg parent r f :
  update_file f = true -> (process_file parent r f).1.1 = (run_from r (file_ops parent f)).1.
Proof.
  destruct f as [name recs|]; [|reflexivity]. intros Hu. cbn [file_ops].
  rewrite <- msgs_walk_reg. cbn [process_file].
  destruct recs as [|[ps|fam pfx es|p m|p old new|] rest]; try discriminate Hu;
    destruct (msgs_walk parent r _) as [r2 us]; reflexivity.
Qed.

Lemma update_queue_reg parent fs : forall r,
  forallb update_file fs = true ->
  (queue_run parent r fs).1 = (run_from r (flat_map (file_ops parent) fs)).1.
Proof.
  induction fs as [|f fs IH]; intros r Hu; [reflexivity|].
  cbn [forallb] in Hu. apply andb_true_iff in Hu as [Hf Hu].
  cbn [queue_run flat_map]. rewrite run_from_app, <- (update_file_reg parent r f Hf).
  destruct (process_file parent r f) as [[r1 us] st]. cbn [fst]. rewrite <- (IH r1 Hu).
  destruct (queue_run parent r1 fs); reflexivity.
Qed.

Lemma rec_ops_disc parent rc : forallb disc (rec_ops parent rc) = true.
Proof. destruct rc as [ps|fam pfx es|p [u| |]|p old new|]; reflexivity. Qed.

Lemma forallb_flat_map {A B} (f : B -> bool) (g : A -> list B) l :
  (forall x, forallb f (g x) = true) -> forallb f (flat_map g l) = true.
Proof.
  intros H. induction l as [|x l IH]; [reflexivity|]. cbn [flat_map]. rewrite forallb_app, H, IH. reflexivity.
Qed.

Lemma file_ops_disc parent f : forallb disc (file_ops parent f) = true.
Proof. destruct f as [name recs|]; [|reflexivity]. apply forallb_flat_map, rec_ops_disc. Qed.

(* Over ANY queue of update files: lookups stay unambiguous (so the HashMap
   order in find_existing_peer is immaterial), and a peer that has an ingress
   id keeps exactly that id. *)
Theorem update_queue_stable parent fs r :
  forallb update_file fs = true ->
  Below r -> PeerUnique r ->
  serial r + N.of_nat (length (flat_map (file_ops parent) fs)) < two32 ->
  let r' := (queue_run parent r fs).1 in
  Below r' /\ PeerUnique r' /\
  forall p id, answers r (mrt_query parent p) id -> answers r' (mrt_query parent p) id.
Proof.
  intros Hu HB HU Hlen r'. subst r'. rewrite (update_queue_reg parent fs r Hu).
  destruct (run_invariants (flat_map (file_ops parent) fs) r) as (B & U & _ & A);
    [apply forallb_flat_map, file_ops_disc|exact Hlen|exact HB|exact HU|].
  split; [exact B|]. split; [exact U|]. intros p id. apply A.
Qed.

(* a BGP4MP UPDATE is attributed to the id that from then on answers for
   (unit, peer address, peer AS), and its routes carry that id *)
Lemma msg_update_attributed parent r p u :
  Below r -> PeerUnique r ->
  exists id r', msg_step parent r (RMsg p (BUpdate u)) = (r', [UBulk (payloads_of id u)]) /\
    answers r' (mrt_query parent p) id /\
    (forall x, x ∈ payloads_of id u -> k_mui (p_key x) = id).
Proof.
  intros HB HU. cbn [msg_step].
  pose proof (for_peer_answers r (mrt_query parent p) eq_refl HB HU) as HA.
  destruct (find_or_register peer_match r (mrt_query parent p)) as [id r'] eqn:E. cbn [fst snd] in HA.
  exists id, r'. split; [reflexivity|]. split; [exact HA|]. intros x. apply payloads_of_mui.
Qed.

(* the unit's own registration leaves the register in a state where the
   invariants hold *)
Lemma unit_start_ok : Below unit_start.2 /\ PeerUnique unit_start.2 /\ serial unit_start.2 = 2 /\ unit_start.1 = 1.
Proof.
  destruct (run_invariants [ORegister; IngressModel.OUpdate 1 unit_info] reg_new) as (B & U & _ & _);
    [reflexivity|cbn; unfold two32; lia|apply Below_new|apply PeerUnique_new|].
  split; [exact B|]. split; [exact U|]. split; reflexivity.
Qed.

(* ------------------------------------------------------------------ *)
(* the dump part *)

Lemma nseq_length s n : length (nseq s n) = n.
Proof. revert s. induction n as [|n IH]; intros s; cbn; [reflexivity|]. rewrite IH. reflexivity. Qed.

Lemma nseq_bounds n : forall s x, x ∈ nseq s n -> s <= x < s + N.of_nat n.
Proof.
  induction n as [|n IH]; intros s x Hx; cbn [nseq] in Hx; [inversion Hx|].
  rewrite Nat2N.inj_succ. apply elem_of_cons in Hx as [->|Hx]; [lia|]. apply IH in Hx. lia.
Qed.

Lemma nseq_nodup n : forall s, NoDup (nseq s n).
Proof.
  induction n as [|n IH]; intros s; cbn [nseq]; constructor; [|apply IH].
  intros Hx. apply nseq_bounds in Hx. lia.
Qed.

Lemma nseq_lookup n : forall s i, (i < n)%nat -> nseq s n !! i = Some (s + N.of_nat i).
Proof.
  induction n as [|n IH]; intros s i Hi; [lia|]. destruct i as [|i]; cbn [nseq lookup list_lookup].
  - f_equal. lia.
  - rewrite IH by lia. f_equal. lia.
Qed.

Definition names (parent : N) (inf : info) (p : mpeer) : Prop :=
  i_parent inf = Some parent /\ i_addr inf = Some p.1 /\ i_asn inf = Some p.2.

Lemma reg_peers_spec parent file ps : forall r,
  serial r + N.of_nat (length ps) < two32 ->
  (reg_peers r parent file ps).2 = nseq (serial r) (length ps) /\
  serial (reg_peers r parent file ps).1 = serial r + N.of_nat (length ps) /\
  (forall k, k < serial r -> infos (reg_peers r parent file ps).1 !! k = infos r !! k) /\
  (forall i p, ps !! i = Some p ->
     exists inf, infos (reg_peers r parent file ps).1 !! (serial r + N.of_nat i) = Some inf /\ names parent inf p).
Proof.
  induction ps as [|p ps IH]; intros r Hlen.
  - cbn. split; [reflexivity|]. split; [lia|]. split; [reflexivity|]. intros i q Hq. inversion Hq.
  - cbn [length] in Hlen. rewrite Nat2N.inj_succ in Hlen. pose proof two32_val as H32.
    cbn [reg_peers reg_register].
    set (r2 := reg_update_info (MkReg ((serial r + 1) mod two32) (infos r)) (serial r) (dump_info parent file p)).
    assert (Hs2 : serial r2 = serial r + 1) by (subst r2; rewrite update_info_serial; cbn [serial]; apply N.mod_small; lia).
    destruct (IH r2) as (Hids & Hser & Hkeep & Hnew); [lia|].
    destruct (reg_peers r2 parent file ps) as [r3 ids] eqn:E3. cbn [fst snd] in *.
    split; [cbn [length nseq]; rewrite Hids, Hs2; reflexivity|].
    split; [cbn [length]; rewrite Nat2N.inj_succ; lia|].
    assert (Hr2 : forall k, k <> serial r -> infos r2 !! k = infos r !! k).
    { intros k Hk. subst r2. rewrite update_info_others by exact Hk. reflexivity. }
    split.
    + intros k Hk. rewrite Hkeep by lia. apply Hr2. lia.
    + intros i q Hq. destruct i as [|i]; cbn in Hq.
      * injection Hq as <-. rewrite N.add_0_r, Hkeep by lia.
        subst r2. unfold reg_update_info. cbn [infos]. rewrite lookup_insert. eexists. split; [reflexivity|].
        destruct (infos r !! serial r); repeat split; reflexivity.
      * destruct (Hnew i q Hq) as (inf & Hl & Hn). exists inf. split; [|exact Hn].
        rewrite <- Hl. f_equal. rewrite Nat2N.inj_succ. lia.
Qed.

Lemma rib_singles_ok ids fam pfx es :
  forallb (entry_ok (length ids)) es = true ->
  rib_singles ids fam pfx es = (dump_singles ids (RRib fam pfx es), SOk).
Proof.
  induction es as [|e es IH]; intros Hok; [reflexivity|].
  cbn [forallb] in Hok. apply andb_true_iff in Hok as [He Hes].
  unfold entry_ok in He. apply bool_decide_eq_true in He.
  destruct (lookup_lt_is_Some_2 ids (N.to_nat e.1) He) as [id Hid].
  cbn [rib_singles dump_singles omap list_omap]. rewrite Hid, (IH Hes). reflexivity.
Qed.

Lemma dump_walk_ok ids rest :
  forallb (rib_rec_ok (length ids)) rest = true ->
  dump_walk ids rest = (flat_map (dump_singles ids) rest, SOk).
Proof.
  induction rest as [|rc rest IH]; intros Hok; [reflexivity|].
  cbn [forallb] in Hok. apply andb_true_iff in Hok as [Hrc Hrest].
  destruct rc as [ps|fam pfx [|e es]|p m|p old new|]; try discriminate Hrc.
  cbn [rib_rec_ok] in Hrc. apply andb_true_iff in Hrc as [Hfam Hes].
  cbn [dump_walk flat_map]. rewrite Hfam, (rib_singles_ok ids fam pfx (e :: es) Hes), (IH Hrest). reflexivity.
Qed.

Lemma msgs_walk_ribs parent r n rest :
  forallb (rib_rec_ok n) rest = true -> msgs_walk parent r rest = (r, []).
Proof.
  induction rest as [|rc rest IH]; intros Hok; [reflexivity|].
  cbn [forallb] in Hok. apply andb_true_iff in Hok as [Hrc Hrest].
  destruct rc as [ps|fam pfx es|p m|p old new|]; try discriminate Hrc.
  cbn [msgs_walk msg_step]. rewrite (IH Hrest). reflexivity.
Qed.

(* A dump file (table, then non-empty v4/v6 unicast RIB records indexing into
   it): every entry becomes one Single, in file order, carrying the id that
   was registered for ITS index entry; those ids are fresh and pairwise distinct and
   stand for (unit, address, AS) of the entry; nothing registered before is touched. *)
Theorem dump_attribution parent r name ps rest :
  dump_ok (RPit ps :: rest) = true ->
  serial r + N.of_nat (length ps) < two32 ->
  let ids := nseq (serial r) (length ps) in
  let r1 := (reg_peers r parent name ps).1 in
  process_file parent r (FGood name (RPit ps :: rest)) = (r1, flat_map (dump_singles ids) rest, SOk) /\
  NoDup ids /\
  (forall i p, ps !! i = Some p ->
     exists id inf, ids !! i = Some id /\ serial r <= id /\ infos r1 !! id = Some inf /\ names parent inf p) /\
  (forall k, k < serial r -> infos r1 !! k = infos r !! k).
Proof.
  intros Hok Hlen ids r1. cbn [dump_ok] in Hok.
  destruct (reg_peers_spec parent name ps r Hlen) as (Hids & _ & Hkeep & Hnew).
  split; [|split; [apply nseq_nodup|split; [|exact Hkeep]]].
  - cbn [process_file]. destruct (reg_peers r parent name ps) as [r1' ids'] eqn:E. cbn [fst snd] in *.
    subst ids' r1. assert (Hl : length ids = length ps) by apply nseq_length.
    rewrite <- Hl in Hok. fold ids. rewrite (dump_walk_ok ids rest Hok).
    change (RPit ps :: rest) with ([RPit ps] ++ rest). rewrite msgs_walk_app.
    cbn [msgs_walk msg_step]. rewrite (msgs_walk_ribs parent r1' (length ids) rest Hok).
    rewrite app_nil_r. reflexivity.
  - intros i p Hp. destruct (Hnew i p Hp) as (inf & Hl & Hn).
    exists (serial r + N.of_nat i), inf. split; [|split; [lia|split; [exact Hl|exact Hn]]].
    apply nseq_lookup. apply lookup_lt_Some in Hp. exact Hp.
Qed.

(* ------------------------------------------------------------------ *)
(* RIB level *)

(* whatever was queued: what the RIB shows for (family, prefix, ingress id) is
   the last-event reading of the update stream the queue produced, in queue
   and file order (C01's theorem; the sticky marker is known finding C03-1) *)
Lemma import_reads_history fs k :
  rib_lookup (import fs) k =
  match spec_lookup (evs_of (import_updates fs)) k with
  | Some (s, a) => Some (s && negb (downed (evs_of (import_updates fs)) k), a)
  | None => None
  end.
Proof. apply rib_lookup_spec. Qed.

Lemma singles_no_down ids rest k : downed (evs_of (flat_map (dump_singles ids) rest)) k = false.
Proof.
  unfold downed. apply not_true_is_false. intros H. apply existsb_exists in H as (e & Hin & He).
  unfold evs_of in Hin. apply in_concat in Hin as (l & Hl & Hin). apply in_map_iff in Hl as (u & <- & Hu).
  apply in_flat_map in Hu as (rc & _ & Hu). destruct rc as [ps|fam pfx es|p m|p old new|]; try (cbn in Hu; contradiction).
  cbn [dump_singles] in Hu. apply elem_of_list_In, elem_of_list_omap in Hu as (x & _ & Hx).
  destruct (ids !! N.to_nat x.1); [|discriminate]. injection Hx as <-.
  cbn in Hin. destruct Hin as [<-|[]]. discriminate He.
Qed.

(* importing one dump file into an empty RIB: the RIB holds exactly the
   dump's entries - per (family, prefix, id of the index entry) the attributes
   listed last, active; nothing else *)
Theorem dump_import_exact name ps rest k :
  dump_ok (RPit ps :: rest) = true -> N.of_nat (length ps) < two32 - 2 ->
  rib_lookup (import [FGood name (RPit ps :: rest)]) k =
  spec_lookup (evs_of (flat_map (dump_singles (nseq 2 (length ps))) rest)) k.
Proof.
  intros Hok Hlen. rewrite import_reads_history. unfold import_updates.
  destruct unit_start_ok as (_ & _ & Hs & Hp).
  cbn [queue_run]. pose proof two32_val as H32.
  destruct (dump_attribution unit_start.1 unit_start.2 name ps rest Hok) as (Hpf & _); [rewrite Hs; lia|].
  rewrite Hpf, Hs. cbn [snd]. rewrite app_nil_r, singles_no_down.
  destruct (spec_lookup _ k) as [[s a]|]; [rewrite andb_true_r|]; reflexivity.
Qed.

(* a session-wide withdrawal emitted for a state change marks exactly the
   records of that id, in every family, and nothing else *)
Lemma state_change_rib rb id k :
  rib_lookup (rib_apply rb (UWithdraw id None)) k =
  if down_hits id None k then match rib_lookup rb k with Some (_, a) => Some (false, a) | None => None end
  else rib_lookup rb k.
Proof. apply withdraw_mui_frame. Qed.

Lemma state_change_withdraws_rib parent r p id rb k :
  reg_find_peers r (mrt_query parent p) = [id] ->
  msg_step parent r (RState p 6 1) = (r, [UWithdraw id None]) /\
  rib_lookup (rib_apply rb (UWithdraw id None)) k =
    if down_hits id None k then match rib_lookup rb k with Some (_, a) => Some (false, a) | None => None end
    else rib_lookup rb k.
Proof. intros H. split; [apply state_change_withdraws, H|apply state_change_rib]. Qed.

(* ------------------------------------------------------------------ *)
(* where the faithful model departs from the property's reading *)

Definition pA : mpeer := (1, 65001).
(* the same peer named by the tables of two dump files *)
Definition two_dumps : list mfile :=
  [FGood 0 [RPit [pA]; RRib 0 5 [(0, 3)]]; FGood 1 [RPit [pA]; RRib 0 5 [(0, 4)]]].

Lemma redump_witness :
  length (reg_find_peers (queue_run unit_start.1 unit_start.2 two_dumps).1 (mrt_query unit_start.1 pA)) = 2%nat /\
  i_entries (i_import two_dumps) 0 5 = [(pA, true, 4)] /\
  length (rib_entries (import two_dumps) 0 5) = 2%nat.
Proof. vm_compute. repeat split; reflexivity. Qed.

(* RIB records followed by BGP4MP records in one file: the parser stops at the
   first BGP4MP record it meets while walking the dump *)
Definition mixed_file : mfile :=
  FGood 0 [RPit [pA]; RRib 0 5 [(0, 3)]; RMsg pA (BUpdate (URoutes 0 [6] 7 0 []))].

Lemma mixed_file_witness :
  (process_file unit_start.1 unit_start.2 mixed_file).2 = SStop /\
  (process_file unit_start.1 unit_start.2 mixed_file).1.2 = [single 0 5 2 3] /\
  i_import [mixed_file] !! (0, 6, pA) = Some (true, 7) /\
  rib_entries (import [mixed_file]) 0 6 = [].
Proof. vm_compute. repeat split; reflexivity. Qed.

(* ------------------------------------------------------------------ *)
(* dump files whose tables name only peers without an id: the registration of
   a table entry is then exactly a find-or-register that registers, i.e. a
   disciplined operation of C14's model, and uniqueness survives dumps too *)

Lemma dump_query_same parent file p r :
  reg_find_peers r (dump_info parent file p) = reg_find_peers r (mrt_query parent p).
Proof. unfold reg_find_peers. apply find_all_ext. intros i. reflexivity. Qed.

Lemma reg_peers_as_ops parent file ps : forall r,
  peers_fresh parent file r ps ->
  (reg_peers r parent file ps).1 = (run_from r (map (dump_op parent file) ps)).1.
Proof.
  induction ps as [|p ps IH]; intros r Hf; [reflexivity|].
  cbn [peers_fresh] in Hf. destruct Hf as [Hnil Hf].
  cbn [map]. rewrite run_from_cons.
  assert (Hstep : (step r (dump_op parent file p)).1 =
                  reg_update_info (reg_register r).2 (serial r) (dump_info parent file p)).
  { unfold dump_op. cbn [step]. unfold find_or_register. fold (reg_find_peers r (dump_info parent file p)).
    rewrite dump_query_same, Hnil. reflexivity. }
  rewrite Hstep in Hf |- *. cbn [reg_peers reg_register fst snd] in *.
  rewrite <- (IH _ Hf).
  destruct (reg_peers _ parent file ps); reflexivity.
Qed.

Definition is_rib (rc : mrec) : bool := match rc with RRib _ _ _ => true | _ => false end.

Lemma dump_walk_sok_ribs ids rest : forall us, dump_walk ids rest = (us, SOk) -> forallb is_rib rest = true.
Proof.
  induction rest as [|rc rest IH]; intros us H; [reflexivity|].
  destruct rc as [ps|fam pfx [|e es]|p m|p old new|]; try discriminate H.
  cbn [dump_walk] in H. destruct (fam <? 2); [|discriminate H].
  destruct (rib_singles ids fam pfx (e :: es)) as [us1 [|]]; [|discriminate H].
  destruct (dump_walk ids rest) as [us2 st2] eqn:E. injection H as _ ->.
  cbn [forallb is_rib]. apply (IH us2). reflexivity.
Qed.

Lemma msgs_walk_is_rib parent r rest : forallb is_rib rest = true -> msgs_walk parent r rest = (r, []).
Proof.
  induction rest as [|rc rest IH]; intros Hok; [reflexivity|].
  cbn [forallb] in Hok. apply andb_true_iff in Hok as [Hrc Hrest].
  destruct rc as [ps|fam pfx es|p m|p old new|]; try discriminate Hrc.
  cbn [msgs_walk msg_step]. rewrite (IH Hrest). reflexivity.
Qed.

(* whatever a file that starts with a table goes on to do - complete, or stop -
   its effect on the register is the registration of the table's entries *)
Lemma table_file_reg parent r name ps rest :
  (process_file parent r (FGood name (RPit ps :: rest))).1.1 = (reg_peers r parent name ps).1.
Proof.
  cbn [process_file]. destruct (reg_peers r parent name ps) as [r1 ids]. cbn [fst].
  destruct (dump_walk ids rest) as [us [|]] eqn:E; [|reflexivity].
  change (RPit ps :: rest) with ([RPit ps] ++ rest). rewrite msgs_walk_app. cbn [msgs_walk msg_step].
  rewrite (msgs_walk_is_rib parent r1 rest (dump_walk_sok_ribs ids rest us E)). reflexivity.
Qed.

Lemma file_reg parent r f :
  file_fresh parent r f -> (process_file parent r f).1.1 = (run_from r (all_ops parent f)).1.
Proof.
  intros Hf. destruct f as [name recs|]; [|reflexivity].
  destruct recs as [|[ps|fam pfx es|p m|p old new|] rest];
    try (apply (update_file_reg parent r (FGood name _)); reflexivity).
  rewrite table_file_reg. cbn [all_ops]. apply reg_peers_as_ops, Hf.
Qed.

Lemma queue_reg parent fs : forall r,
  queue_fresh parent r fs -> (queue_run parent r fs).1 = (run_from r (flat_map (all_ops parent) fs)).1.
Proof.
  induction fs as [|f fs IH]; intros r Hq; [reflexivity|].
  cbn [queue_fresh] in Hq. destruct Hq as [Hf Hq].
  cbn [queue_run flat_map]. rewrite run_from_app, <- (file_reg parent r f Hf).
  destruct (process_file parent r f) as [[r1 us] st]. cbn [fst] in *. rewrite <- (IH r1 Hq).
  destruct (queue_run parent r1 fs); reflexivity.
Qed.

Lemma all_ops_disc parent f : forallb disc (all_ops parent f) = true.
Proof.
  destruct f as [name recs|]; [|reflexivity].
  destruct recs as [|[ps|fam pfx es|p m|p old new|] rest]; try apply (file_ops_disc parent (FGood name _)).
  cbn [all_ops]. induction ps as [|p ps IH]; [reflexivity|]. cbn [map forallb]. rewrite IH. reflexivity.
Qed.

(* ANY queue - dump files, update files, unreadable files, files the parser
   stops in - in which every table entry names a peer that has no id at that
   moment: lookups stay unambiguous and every peer keeps its id. *)
Theorem fresh_queue_stable parent fs r :
  queue_fresh parent r fs ->
  Below r -> PeerUnique r ->
  serial r + N.of_nat (length (flat_map (all_ops parent) fs)) < two32 ->
  let r' := (queue_run parent r fs).1 in
  Below r' /\ PeerUnique r' /\
  forall p id, answers r (mrt_query parent p) id -> answers r' (mrt_query parent p) id.
Proof.
  intros Hq HB HU Hlen r'. subst r'. rewrite (queue_reg parent fs r Hq).
  destruct (run_invariants (flat_map (all_ops parent) fs) r) as (B & U & _ & A);
    [apply forallb_flat_map, all_ops_disc|exact Hlen|exact HB|exact HU|].
  split; [exact B|]. split; [exact U|]. intros p id. apply A.
Qed.

(* ------------------------------------------------------------------ *)
(* C06: a hostile file is local: its effect is that of a prefix of its records, the queue goes
   on behind it as from the register that prefix left, what was imported before stays *)

(* the dump part over the first k records: the same walk if the whole walk stops within them,
   else the Singles of those records, a prefix of the whole *)
Lemma dump_walk_take ids rest : forall k,
  (dump_walk ids (take k rest)).1 `prefix_of` (dump_walk ids rest).1 /\
  ((dump_walk ids (take k rest)).2 = SStop -> dump_walk ids (take k rest) = dump_walk ids rest).
Proof.
  induction rest as [|rc rest IH]; intros k.
  - rewrite take_nil. split; [reflexivity|discriminate].
  - destruct k as [|k].
    + cbn [take dump_walk fst snd]. split; [apply prefix_nil|discriminate].
    + cbn [take]. specialize (IH k).
      destruct rc as [ps|fam pfx [|e es]|p m|p old new|]; cbn [dump_walk]; try (split; [reflexivity|intros _; reflexivity]).
      destruct (fam <? 2); [|split; [reflexivity|intros _; reflexivity]].
      destruct (rib_singles ids fam pfx (e :: es)) as [us1 [|]]; [|split; [reflexivity|intros _; reflexivity]].
      destruct (dump_walk ids (take k rest)) as [us st]. destruct (dump_walk ids rest) as [us' st'].
      cbn [fst snd] in *. destruct IH as [Hp Hs]. split.
      * apply prefix_app. exact Hp.
      * intros ->. specialize (Hs eq_refl). injection Hs as -> ->. reflexivity.
Qed.

Lemma msgs_walk_take parent recs : forall r k,
  (msgs_walk parent r (take k recs)).2 `prefix_of` (msgs_walk parent r recs).2.
Proof.
  intros r k. rewrite <- (take_drop k recs) at 2. rewrite msgs_walk_app.
  destruct (msgs_walk parent r (take k recs)) as [r1 us1]. destruct (msgs_walk parent r1 (drop k recs)) as [r2 us2].
  cbn [snd]. apply prefix_app_r. reflexivity.
Qed.

Lemma msgs_walk_pit parent r ps rest : msgs_walk parent r (RPit ps :: rest) = msgs_walk parent r rest.
Proof. cbn [msgs_walk msg_step]. destruct (msgs_walk parent r rest); reflexivity. Qed.

Lemma process_file_take parent r name recs k :
  (process_file parent r (FGood name (take k recs))).1.2 `prefix_of` (process_file parent r (FGood name recs)).1.2.
Proof.
  destruct recs as [|rc rest]; [rewrite take_nil; reflexivity|].
  destruct k as [|k]; [cbn [take process_file msgs_walk fst snd]; apply prefix_nil|].
  cbn [take].
  destruct rc as [ps|fam pfx es|p m|p old new|].
  - cbn [process_file]. destruct (reg_peers r parent name ps) as [r1 ids].
    pose proof (dump_walk_take ids rest k) as H.
    destruct (dump_walk ids (take k rest)) as [us st] eqn:E1. destruct (dump_walk ids rest) as [us' st'] eqn:E2.
    cbn [fst snd] in H. destruct H as [Hp Hs].
    destruct st.
    + (* the prefix is a complete dump: nothing but RIB records, the message part yields nothing *)
      rewrite msgs_walk_pit, (msgs_walk_is_rib parent r1 (take k rest) (dump_walk_sok_ribs ids (take k rest) us E1)).
      cbn [fst snd]. rewrite app_nil_r.
      destruct st'.
      * rewrite msgs_walk_pit, (msgs_walk_is_rib parent r1 rest (dump_walk_sok_ribs ids rest us' E2)).
        cbn [fst snd]. rewrite app_nil_r. exact Hp.
      * cbn [fst snd]. exact Hp.
    + specialize (Hs eq_refl). injection Hs as Hu Hst. subst us' st'. reflexivity.
  - change (process_file parent r (FGood name (RRib fam pfx es :: take k rest))) with
      (let '(r2, us) := msgs_walk parent r (take (S k) (RRib fam pfx es :: rest)) in (r2, us, SOk)).
    change (process_file parent r (FGood name (RRib fam pfx es :: rest))) with
      (let '(r2, us) := msgs_walk parent r (RRib fam pfx es :: rest) in (r2, us, SOk)).
    pose proof (msgs_walk_take parent (RRib fam pfx es :: rest) r (S k)) as H.
    destruct (msgs_walk parent r (take (S k) (RRib fam pfx es :: rest))). destruct (msgs_walk parent r (RRib fam pfx es :: rest)). exact H.
  - change (process_file parent r (FGood name (RMsg p m :: take k rest))) with
      (let '(r2, us) := msgs_walk parent r (take (S k) (RMsg p m :: rest)) in (r2, us, SOk)).
    change (process_file parent r (FGood name (RMsg p m :: rest))) with
      (let '(r2, us) := msgs_walk parent r (RMsg p m :: rest) in (r2, us, SOk)).
    pose proof (msgs_walk_take parent (RMsg p m :: rest) r (S k)) as H.
    destruct (msgs_walk parent r (take (S k) (RMsg p m :: rest))). destruct (msgs_walk parent r (RMsg p m :: rest)). exact H.
  - change (process_file parent r (FGood name (RState p old new :: take k rest))) with
      (let '(r2, us) := msgs_walk parent r (take (S k) (RState p old new :: rest)) in (r2, us, SOk)).
    change (process_file parent r (FGood name (RState p old new :: rest))) with
      (let '(r2, us) := msgs_walk parent r (RState p old new :: rest) in (r2, us, SOk)).
    pose proof (msgs_walk_take parent (RState p old new :: rest) r (S k)) as H.
    destruct (msgs_walk parent r (take (S k) (RState p old new :: rest))). destruct (msgs_walk parent r (RState p old new :: rest)). exact H.
  - change (process_file parent r (FGood name (ROther :: take k rest))) with
      (let '(r2, us) := msgs_walk parent r (take (S k) (ROther :: rest)) in (r2, us, SOk)).
    change (process_file parent r (FGood name (ROther :: rest))) with
      (let '(r2, us) := msgs_walk parent r (ROther :: rest) in (r2, us, SOk)).
    pose proof (msgs_walk_take parent (ROther :: rest) r (S k)) as H.
    destruct (msgs_walk parent r (take (S k) (ROther :: rest))). destruct (msgs_walk parent r (ROther :: rest)). exact H.
Qed.

Theorem hostile_file_local parent r fs1 h fs2 rb :
  let '(r1, us1) := queue_run parent r fs1 in
  let '(rh, ush, _) := process_file parent r1 (file_of_hfile h) in
  let '(r2, us2) := queue_run parent rh fs2 in
  (* the queue: what was there before, the file's own contribution, then the files behind it
     exactly as they run on their own from the register the file left *)
  queue_run parent r (fs1 ++ file_of_hfile h :: fs2) = (r2, us1 ++ ush ++ us2) /\
  (* its contribution is that of a prefix of its records *)
  ush `prefix_of` (process_file parent r1 (whole_of_hfile h)).1.2 /\
  (* an unreadable file contributes nothing and leaves the register alone *)
  (h = HUnreadable -> ush = [] /\ rh = r1) /\
  (* and so for the RIB behind the gate *)
  fold_left rib_apply (queue_run parent r (fs1 ++ file_of_hfile h :: fs2)).2 rb =
    fold_left rib_apply us2 (fold_left rib_apply ush (fold_left rib_apply us1 rb)).
Proof.
  rewrite queue_run_app. destruct (queue_run parent r fs1) as [r1 us1].
  rewrite file_then_rest.
  pose proof (fun name recs k => process_file_take parent r1 name recs k) as Hpre.
  destruct (process_file parent r1 (file_of_hfile h)) as [[rh ush] st] eqn:Eh.
  destruct (queue_run parent rh fs2) as [r2 us2]. cbn [fst snd].
  split; [reflexivity|]. split; [|split].
  - destruct h as [|name recs k]; cbn [file_of_hfile whole_of_hfile] in *.
    + rewrite Eh. reflexivity.
    + specialize (Hpre name recs k). rewrite Eh in Hpre. exact Hpre.
  - intros ->. cbn [file_of_hfile process_file] in Eh. injection Eh as <- <- _. split; reflexivity.
  - rewrite !fold_left_app. reflexivity.
Qed.

(* a concrete hostile queue: a dump cut inside its second RIB record between two good update files *)
Definition hq_before : mfile := FGood 1 [RMsg (9, 65009) (BUpdate (URoutes 0 [60] 2 0 []))].
Definition hq_hostile : hfile := HStops 2 [RPit [(1, 65001); (2, 65002)]; RRib 0 21 [(0, 3); (1, 4)]; RRib 0 22 [(0, 7)]] 2.
Definition hq_after : mfile := FGood 3 [RMsg (7, 65007) (BUpdate (URoutes 0 [1] 9 0 []))].
Lemma hostile_example :
  (queue_run unit_start.1 unit_start.2 [hq_before; file_of_hfile hq_hostile; hq_after]).2 =
    [UBulk [MkPay (0, 60, 2) true 2];
     UBulk [MkPay (0, 21, 3) true 3]; UBulk [MkPay (0, 21, 4) true 4];
     UBulk [MkPay (0, 1, 5) true 9]].
Proof. vm_compute. reflexivity. Qed.

(* ------------------------------------------------------------------ *)
(* an UPDATE that cannot be taken apart (explode_announcements / explode_withdrawals fail): all or nothing *)

(* nothing of it leaves the gate, nothing is looked up or registered *)
Lemma bad_update_step parent r p : msg_step parent r (RMsg p BBad) = (r, []).
Proof. reflexivity. Qed.

(* the file goes on behind it exactly as if the record were not there *)
Lemma bad_update_walk parent recs1 r p recs2 :
  msgs_walk parent r (recs1 ++ RMsg p BBad :: recs2) = msgs_walk parent r (recs1 ++ recs2).
Proof.
  rewrite !msgs_walk_app. destruct (msgs_walk parent r recs1) as [r1 us1].
  cbn [msgs_walk msg_step]. destruct (msgs_walk parent r1 recs2); reflexivity.
Qed.

Lemma bad_update_file parent r name rc recs1 p recs2 :
  update_file (FGood name (rc :: recs1 ++ recs2)) = true ->
  process_file parent r (FGood name (rc :: recs1 ++ RMsg p BBad :: recs2)) =
  process_file parent r (FGood name (rc :: recs1 ++ recs2)).
Proof.
  intros Hu. change (rc :: recs1 ++ RMsg p BBad :: recs2) with ((rc :: recs1) ++ RMsg p BBad :: recs2).
  change (rc :: recs1 ++ recs2) with ((rc :: recs1) ++ recs2).
  destruct rc as [ps|fam pfx es|q m|q old new|]; try discriminate Hu;
    cbn [process_file app]; rewrite !app_comm_cons, bad_update_walk; reflexivity.
Qed.

(* ... and so do the queue, the register, the RIB behind the gate and the property's reading *)
Lemma bad_update_queue parent r fs1 name rc recs1 p recs2 fs2 :
  update_file (FGood name (rc :: recs1 ++ recs2)) = true ->
  queue_run parent r (fs1 ++ FGood name (rc :: recs1 ++ RMsg p BBad :: recs2) :: fs2) =
  queue_run parent r (fs1 ++ FGood name (rc :: recs1 ++ recs2) :: fs2).
Proof.
  intros Hu. rewrite !queue_run_app. destruct (queue_run parent r fs1) as [r1 us1].
  cbn [queue_run]. rewrite (bad_update_file parent r1 name rc recs1 p recs2 Hu). reflexivity.
Qed.

Lemma i_file_bad_update rb name rc recs1 p recs2 :
  i_file rb (FGood name (rc :: recs1 ++ RMsg p BBad :: recs2)) = i_file rb (FGood name (rc :: recs1 ++ recs2)).
Proof.
  cbn [i_file]. change (pit_of (rc :: recs1 ++ RMsg p BBad :: recs2)) with (pit_of (rc :: recs1 ++ recs2)).
  rewrite !app_comm_cons, !fold_left_app. reflexivity.
Qed.

Theorem bad_update_changes_nothing fs1 name rc recs1 p recs2 fs2 :
  update_file (FGood name (rc :: recs1 ++ recs2)) = true ->
  import_updates (fs1 ++ FGood name (rc :: recs1 ++ RMsg p BBad :: recs2) :: fs2) =
    import_updates (fs1 ++ FGood name (rc :: recs1 ++ recs2) :: fs2) /\
  import (fs1 ++ FGood name (rc :: recs1 ++ RMsg p BBad :: recs2) :: fs2) =
    import (fs1 ++ FGood name (rc :: recs1 ++ recs2) :: fs2) /\
  i_import (fs1 ++ FGood name (rc :: recs1 ++ RMsg p BBad :: recs2) :: fs2) =
    i_import (fs1 ++ FGood name (rc :: recs1 ++ recs2) :: fs2).
Proof.
  intros Hu. unfold import, import_updates, i_import.
  rewrite (bad_update_queue unit_start.1 unit_start.2 fs1 name rc recs1 p recs2 fs2 Hu).
  split; [reflexivity|]. split; [reflexivity|].
  rewrite !fold_left_app. cbn [fold_left]. rewrite i_file_bad_update. reflexivity.
Qed.

(* the defect that was repaired: with the error handed on (`?`) the file ended at that record *)
Lemma msgs_walk_old_good parent recs : forall r,
  forallb (fun rc => negb (rec_bad rc)) recs = true ->
  msgs_walk_old parent r recs = (msgs_walk parent r recs, SOk).
Proof.
  induction recs as [|rc recs IH]; intros r Hg; [reflexivity|].
  cbn [forallb] in Hg. apply andb_true_iff in Hg as [Hrc Hg].
  assert (E : msgs_walk_old parent r (rc :: recs) =
              let '(r1, us) := msg_step parent r rc in
              let '(r2, us', st) := msgs_walk_old parent r1 recs in (r2, us ++ us', st)).
  { destruct rc as [ps|fam pfx es|q [u| |]|q old new|]; try reflexivity. discriminate Hrc. }
  rewrite E. cbn [msgs_walk]. destruct (msg_step parent r rc) as [r1 us]. rewrite (IH r1 Hg).
  destruct (msgs_walk parent r1 recs); reflexivity.
Qed.

Lemma msgs_walk_old_stops parent recs1 : forall r p recs2,
  forallb (fun rc => negb (rec_bad rc)) recs1 = true ->
  msgs_walk_old parent r (recs1 ++ RMsg p BBad :: recs2) = (msgs_walk parent r recs1, SStop).
Proof.
  induction recs1 as [|rc recs1 IH]; intros r p recs2 Hg; [reflexivity|].
  cbn [forallb] in Hg. apply andb_true_iff in Hg as [Hrc Hg].
  assert (E : msgs_walk_old parent r ((rc :: recs1) ++ RMsg p BBad :: recs2) =
              let '(r1, us) := msg_step parent r rc in
              let '(r2, us', st) := msgs_walk_old parent r1 (recs1 ++ RMsg p BBad :: recs2) in (r2, us ++ us', st)).
  { destruct rc as [ps|fam pfx es|q [u| |]|q old new|]; try reflexivity. discriminate Hrc. }
  rewrite E. cbn [msgs_walk]. destruct (msg_step parent r rc) as [r1 us]. rewrite (IH r1 p recs2 Hg).
  destruct (msgs_walk parent r1 recs1); reflexivity.
Qed.

(* an update file whose first UPDATE cannot be taken apart: the announcement behind it was lost *)
Definition bad_then_good : list mrec := [RMsg pA BBad; RMsg pA (BUpdate (URoutes 0 [6] 7 0 []))].
Lemma old_walk_witness :
  (msgs_walk_old unit_start.1 unit_start.2 bad_then_good).1.2 = [] /\
  (msgs_walk unit_start.1 unit_start.2 bad_then_good).2 = [UBulk [MkPay (0, 6, 2) true 7]] /\
  i_import [FGood 0 bad_then_good] !! (0, 6, pA) = Some (true, 7) /\
  rib_entries (import [FGood 0 bad_then_good]) 0 6 = [(2, true, 7)].
Proof. vm_compute. repeat split; reflexivity. Qed.

Lemma old_walk_lost_rest :
  (forall parent recs1 r p recs2, forallb (fun rc => negb (rec_bad rc)) recs1 = true ->
     msgs_walk_old parent r (recs1 ++ RMsg p BBad :: recs2) = (msgs_walk parent r recs1, SStop)) /\
  (msgs_walk_old unit_start.1 unit_start.2 bad_then_good).1.2 = [] /\
  (msgs_walk unit_start.1 unit_start.2 bad_then_good).2 = [UBulk [MkPay (0, 6, 2) true 7]] /\
  i_import [FGood 0 bad_then_good] !! (0, 6, pA) = Some (true, 7).
Proof.
  split; [intros parent recs1 r p recs2; apply msgs_walk_old_stops|].
  destruct old_walk_witness as (H1 & H2 & H3 & _). auto.
Qed.

(* ------------------------------------------------------------------ *)
(* the queue holds names: every entry is imported, in order, whatever went through the queue before *)

Lemma entry_fold parent fsys ps : forall r rb,
  fold_left (entry_step parent fsys) ps (r, rb) =
  ((queue_run parent r (queue_files fsys ps)).1,
   fold_left rib_apply (queue_run parent r (queue_files fsys ps)).2 rb).
Proof.
  induction ps as [|p ps IH]; intros r rb; [reflexivity|].
  cbn [fold_left queue_files map queue_run]. fold (queue_files fsys ps).
  unfold entry_step at 2. cbn [fst snd].
  destruct (process_file parent r (resolve fsys p)) as [[r1 us] st].
  rewrite IH. destruct (queue_run parent r1 (queue_files fsys ps)) as [r2 us'].
  cbn [fst snd]. rewrite fold_left_app. reflexivity.
Qed.

Lemma i_import_fold fsys ps :
  i_import (queue_files fsys ps) = fold_left (fun rb p => i_file rb (resolve fsys p)) ps ∅.
Proof.
  unfold i_import, queue_files. generalize (∅ : irib).
  induction ps as [|p ps IH]; intros rb; [reflexivity|]. cbn [map fold_left]. apply IH.
Qed.

(* the register and the RIB after a queue of entries = the fold of the per-entry effects over ALL entries, a path
   that stands in the queue twice (or two paths holding the same file) included; likewise the property's reading *)
Lemma queue_entries_all_applied fsys ps :
  ((queue_run unit_start.1 unit_start.2 (queue_files fsys ps)).1, import (queue_files fsys ps)) =
    fold_left (entry_step unit_start.1 fsys) ps (unit_start.2, rib_empty) /\
  i_import (queue_files fsys ps) = fold_left (fun rb p => i_file rb (resolve fsys p)) ps ∅.
Proof.
  split; [|apply i_import_fold]. rewrite entry_fold. reflexivity.
Qed.

(* a file that comes again is processed again, from the register the queue has left by then *)
Lemma repeat_runs_again parent r f fs :
  queue_run parent r (f :: fs ++ [f]) =
  let '(r1, us1, _) := process_file parent r f in
  let '(r2, us2) := queue_run parent r1 fs in
  let '(r3, us3, _) := process_file parent r2 f in
  (r3, us1 ++ us2 ++ us3).
Proof.
  cbn [queue_run]. destruct (process_file parent r f) as [[r1 us1] st1].
  rewrite queue_run_app. destruct (queue_run parent r1 fs) as [r2 us2].
  cbn [queue_run]. destruct (process_file parent r2 f) as [[r3 us3] st3].
  rewrite app_nil_r. reflexivity.
Qed.

(* ... and every UPDATE in it leaves the gate again, from ANY register *)
Lemma msgs_walk_emits parent recs : forall r p u,
  In (RMsg p (BUpdate u)) recs -> exists id, In (UBulk (payloads_of id u)) (msgs_walk parent r recs).2.
Proof.
  induction recs as [|rc recs IH]; intros r p u Hin; [destruct Hin|].
  cbn [msgs_walk]. destruct (msg_step parent r rc) as [r1 us] eqn:E.
  destruct (msgs_walk parent r1 recs) as [r2 us'] eqn:E2. cbn [snd].
  destruct Hin as [->|Hin].
  - cbn [msg_step] in E. destruct (find_or_register peer_match r (mrt_query parent p)) as [id r'].
    injection E as _ <-. exists id. apply in_or_app. left. left. reflexivity.
  - destruct (IH r1 p u Hin) as [id Hid]. rewrite E2 in Hid. exists id. apply in_or_app. right. exact Hid.
Qed.

Lemma update_file_emits parent r name recs p u :
  update_file (FGood name recs) = true -> In (RMsg p (BUpdate u)) recs ->
  exists id, In (UBulk (payloads_of id u)) (process_file parent r (FGood name recs)).1.2.
Proof.
  intros Hu Hin. destruct (msgs_walk_emits parent recs r p u Hin) as [id Hid]. exists id.
  assert (E : process_file parent r (FGood name recs) = (let '(r2, us) := msgs_walk parent r recs in (r2, us, SOk))).
  { destruct recs as [|[ps|? ? ?|? ?|? ? ?|] rest]; try reflexivity. discriminate Hu. }
  rewrite E. destruct (msgs_walk parent r recs). exact Hid.
Qed.

(* the seeded change's witness: A = announce 10.5/16 (attributes 3), B = withdraw it; A, B, A ends with the route
   active, in the RIB and in the property's reading; what a loop that skips the repeat leaves (= A, B) has it withdrawn *)
Definition file_ann : mfile := FGood 0 [RMsg pA (BUpdate (URoutes 0 [5] 3 0 []))].
Definition file_wd : mfile := FGood 1 [RMsg pA (BUpdate (URoutes 0 [] 0 0 [5]))].
Definition file_ann_copy : mfile := FGood 2 [RMsg pA (BUpdate (URoutes 0 [5] 3 0 []))].
Definition file_down : mfile := FGood 3 [RState pA 6 1].
Lemma aba_witness :
  rib_lookup (import [file_ann; file_wd; file_ann]) (0, 5, 2) = Some (true, 3) /\
  rib_lookup (import [file_ann; file_wd; file_ann_copy]) (0, 5, 2) = Some (true, 3) /\
  rib_lookup (import [file_ann; file_wd]) (0, 5, 2) = Some (false, 3) /\
  i_import [file_ann; file_wd; file_ann] !! (0, 5, pA) = Some (true, 3) /\
  i_import [file_ann; file_down; file_ann_copy] !! (0, 5, pA) = Some (true, 3) /\
  i_import [file_ann; file_wd] !! (0, 5, pA) = Some (false, 3).
Proof. vm_compute. repeat split; reflexivity. Qed.

Lemma repeat_is_reapplied :
  (forall parent r f fs,
     queue_run parent r (f :: fs ++ [f]) =
     let '(r1, us1, _) := process_file parent r f in
     let '(r2, us2) := queue_run parent r1 fs in
     let '(r3, us3, _) := process_file parent r2 f in
     (r3, us1 ++ us2 ++ us3)) /\
  (forall parent r name recs p u,
     update_file (FGood name recs) = true -> In (RMsg p (BUpdate u)) recs ->
     exists id, In (UBulk (payloads_of id u)) (process_file parent r (FGood name recs)).1.2) /\
  rib_lookup (import [file_ann; file_wd; file_ann]) (0, 5, 2) = Some (true, 3) /\
  rib_lookup (import [file_ann; file_wd; file_ann_copy]) (0, 5, 2) = Some (true, 3) /\
  rib_lookup (import [file_ann; file_wd]) (0, 5, 2) = Some (false, 3) /\
  i_import [file_ann; file_wd; file_ann] !! (0, 5, pA) = Some (true, 3) /\
  i_import [file_ann; file_down; file_ann_copy] !! (0, 5, pA) = Some (true, 3) /\
  i_import [file_ann; file_wd] !! (0, 5, pA) = Some (false, 3).
Proof.
  split; [exact repeat_runs_again|]. split; [exact update_file_emits|]. exact aba_witness.
Qed.

(* the file that is imported is the one the entry names: what the tree holds under OTHER paths - a file of the same
   name in another directory above all - has no influence; witness: rrc01/updates and updates hold different files *)
Lemma queue_files_ext fsys fsys' ps :
  (forall p, In p ps -> resolve fsys p = resolve fsys' p) -> queue_files fsys ps = queue_files fsys' ps.
Proof.
  intros H. unfold queue_files. apply map_ext_in. exact H.
Qed.

Lemma resolve_write fsys p f q :
  resolve (store_write fsys p f) q = if bool_decide (p = q) then f else resolve fsys q.
Proof. reflexivity. Qed.

Definition tree_same_names : fstore := [([7], file_wd); ([1; 7], file_ann)].
Lemma entry_imports_named_file :
  (forall fsys fsys' ps, (forall p, In p ps -> resolve fsys p = resolve fsys' p) ->
     queue_files fsys ps = queue_files fsys' ps /\
     import (queue_files fsys ps) = import (queue_files fsys' ps) /\
     i_import (queue_files fsys ps) = i_import (queue_files fsys' ps)) /\
  (forall fsys p f q, resolve (store_write fsys p f) q = if bool_decide (p = q) then f else resolve fsys q) /\
  resolve tree_same_names [1; 7] = file_ann /\
  rib_lookup (import (queue_files tree_same_names [[1; 7]])) (0, 5, 2) = Some (true, 3) /\
  rib_lookup (import (queue_files tree_same_names [[7]])) (0, 5, 2) = None.
Proof.
  split.
  { intros fsys fsys' ps H. rewrite (queue_files_ext fsys fsys' ps H). auto. }
  split; [exact resolve_write|]. vm_compute. repeat split; reflexivity.
Qed.
