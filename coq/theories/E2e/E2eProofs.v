From stdpp Require Import gmap.
From Coq Require Import NArith Lia.
From RV Require Import Ingress.IngressModel Rib.RibModel Bmp.BmpModel Pipe.PipeModel E2e.E2eModel.

(* connections accepted = connections lost + routers connected now, after every history *)
Definition uc_balanced (u : ucount) : Prop :=
  uc_accepted u = (uc_lost u + N.of_nat (size (uc_live u)))%N.

Lemma uc_step_balanced u o : uc_balanced u -> uc_balanced (uc_step u o).
Proof.
  unfold uc_balanced. intros Hb. destruct o as [k|k m|k| | | | |]; cbn [uc_step]; try exact Hb.
  - destruct (decide (k ∈ uc_live u)) as [Hin|Hin].
    + rewrite bool_decide_true by exact Hin. exact Hb.
    + rewrite bool_decide_false by exact Hin. cbn [uc_accepted uc_lost uc_live].
      rewrite size_union by set_solver. rewrite size_singleton. lia.
  - destruct m; try exact Hb.
    destruct (decide (k ∈ uc_live u)) as [Hin|Hin];
      [rewrite bool_decide_true by exact Hin|rewrite bool_decide_false by exact Hin]; exact Hb.
  - destruct (decide (k ∈ uc_live u)) as [Hin|Hin].
    + rewrite bool_decide_true by exact Hin. cbn [uc_accepted uc_lost uc_live].
      assert (Hs : size (uc_live u) = S (size (uc_live u ∖ {[k]}))).
      { rewrite (union_difference_L {[k]} (uc_live u)) at 1 by set_solver.
        rewrite size_union by set_solver. rewrite size_singleton. reflexivity. }
      lia.
    + rewrite bool_decide_false by exact Hin. exact Hb.
Qed.

Lemma uc_dropped_balanced u : uc_balanced u -> uc_balanced (uc_dropped u).
Proof. unfold uc_balanced, uc_dropped. cbn [uc_accepted uc_lost uc_live]. lia. Qed.

Lemma uc_run_balanced l : forall u, uc_balanced u -> uc_balanced (uc_run u l).
Proof.
  induction l as [|o l IH]; intros u Hb; [exact Hb|]. cbn [uc_run fold_left].
  apply IH, uc_step_balanced, Hb.
Qed.

Theorem uc_connected_is_accepted_minus_lost l :
  uc_connected_spec (uc_run uc_init l) = (uc_accepted (uc_run uc_init l) - uc_lost (uc_run uc_init l))%N.
Proof.
  pose proof (uc_run_balanced l uc_init) as H. unfold uc_balanced in H.
  unfold uc_connected_spec. rewrite H by reflexivity. lia.
Qed.

(* the rendered gauge never goes down, whatever happens *)
Lemma uc_code_monotone_step u o : (uc_connected_code u <= uc_connected_code (uc_step u o))%N.
Proof.
  unfold uc_connected_code. destruct o as [k|k m|k| | | | |]; cbn [uc_step]; try lia.
  - destruct (bool_decide (k ∈ uc_live u)); cbn [uc_known]; lia.
  - destruct m; try lia. destruct (bool_decide (k ∈ uc_live u)); cbn [uc_known]; [|lia].
    assert (Hle : (size (uc_known u) <= size ({[k]} ∪ uc_known u))%nat) by (apply subseteq_size; set_solver).
    lia.
  - destruct (bool_decide (k ∈ uc_live u)); cbn [uc_known]; lia.
Qed.

Theorem uc_code_monotone l : forall u, (uc_connected_code u <= uc_connected_code (uc_run u l))%N.
Proof.
  induction l as [|o l IH]; intros u; [cbn; lia|]. cbn [uc_run fold_left].
  etransitivity; [apply uc_code_monotone_step|apply IH].
Qed.

(* ... so it is wrong as soon as one initiated router has gone: known finding C15-4 *)
Theorem uc_connected_refuted :
  let u := uc_run uc_init [WConnect 0; WMsg 0 MInit; WDisconnect 0] in
  uc_connected_code u = 1%N /\ uc_connected_spec u = 0%N.
Proof. vm_compute. split; reflexivity. Qed.

(* the rendered value is right exactly as long as the known routers are the connected ones *)
Lemma uc_code_right_iff u : uc_known u = uc_live u -> uc_connected_code u = uc_connected_spec u.
Proof. unfold uc_connected_code, uc_connected_spec. intros ->. reflexivity. Qed.

(* code and property agree on the series of a router unless a lost session left peers behind *)
Lemma mx_code_spec_iff c m : mx_code c m = mx_spec c m <-> (m_up c = 0 /\ m_eorcap c = 0)%N.
Proof.
  unfold mx_code, mx_spec. split.
  - intros H. injection H as H1 H2. split; lia.
  - intros [H1 H2]. rewrite H1, H2. reflexivity.
Qed.
