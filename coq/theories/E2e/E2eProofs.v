From stdpp Require Import gmap.
From Coq Require Import NArith Lia.
From RV Require Import Ingress.IngressModel Rib.RibModel Bmp.BmpModel Pipe.PipeModel E2e.E2eModel.

(* connections accepted = connections lost + routers connected now, after every history;
   and only connected routers have state-machine metrics *)
Definition uc_ok (u : ucount) : Prop :=
  uc_accepted u = (uc_lost u + N.of_nat (size (uc_live u)))%N /\ uc_known u ⊆ uc_live u.

Lemma uc_step_ok u o : uc_ok u -> uc_ok (uc_step u o).
Proof.
  unfold uc_ok. intros [Hb Hs]. destruct o as [k|k m|k| | | | |]; cbn [uc_step]; try (split; [exact Hb|exact Hs]).
  - destruct (decide (k ∈ uc_live u)) as [Hin|Hin].
    + rewrite bool_decide_true by exact Hin. split; [exact Hb|exact Hs].
    + rewrite bool_decide_false by exact Hin. cbn [uc_accepted uc_lost uc_live uc_known]. split; [|set_solver].
      rewrite size_union by set_solver. rewrite size_singleton. lia.
  - destruct (decide (k ∈ uc_live u)) as [Hin|Hin].
    + rewrite bool_decide_true by exact Hin. cbn [uc_accepted uc_lost uc_live uc_known]. split; [exact Hb|set_solver].
    + rewrite bool_decide_false by exact Hin. split; [exact Hb|exact Hs].
  - destruct (decide (k ∈ uc_live u)) as [Hin|Hin].
    + rewrite bool_decide_true by exact Hin. cbn [uc_accepted uc_lost uc_live uc_known]. split; [|set_solver].
      assert (Hsz : size (uc_live u) = S (size (uc_live u ∖ {[k]}))).
      { rewrite (union_difference_L {[k]} (uc_live u)) at 1 by set_solver.
        rewrite size_union by set_solver. rewrite size_singleton. reflexivity. }
      lia.
    + rewrite bool_decide_false by exact Hin. split; [exact Hb|exact Hs].
Qed.

Lemma uc_run_ok l : forall u, uc_ok u -> uc_ok (uc_run u l).
Proof.
  induction l as [|o l IH]; intros u Hb; [exact Hb|]. cbn [uc_run fold_left].
  apply IH, uc_step_ok, Hb.
Qed.

Lemma uc_init_ok : uc_ok uc_init.
Proof. split; [reflexivity|set_solver]. Qed.

Theorem uc_connected_is_accepted_minus_lost l :
  uc_connected_spec (uc_run uc_init l) = (uc_accepted (uc_run uc_init l) - uc_lost (uc_run uc_init l))%N.
Proof.
  destruct (uc_run_ok l uc_init uc_init_ok) as [H _].
  unfold uc_connected_spec. rewrite H. lia.
Qed.

(* the rendered gauge never exceeds the number of connected routers ... *)
Theorem uc_code_le_spec l : (uc_connected_code (uc_run uc_init l) <= uc_connected_spec (uc_run uc_init l))%N.
Proof.
  destruct (uc_run_ok l uc_init uc_init_ok) as [_ H].
  unfold uc_connected_code, uc_connected_spec.
  assert (Hle : (size (uc_known (uc_run uc_init l)) <= size (uc_live (uc_run uc_init l)))%nat) by (apply subseteq_size, H).
  lia.
Qed.

(* ... is right when every connected router has spoken ... *)
Lemma uc_code_right_iff u : uc_known u = uc_live u -> uc_connected_code u = uc_connected_spec u.
Proof. unfold uc_connected_code, uc_connected_spec. intros ->. reflexivity. Qed.

(* ... and misses a router that is connected and has not sent anything yet: known finding C15-4 *)
Theorem uc_connected_refuted :
  let u := uc_run uc_init [WConnect 0] in
  uc_connected_code u = 0%N /\ uc_connected_spec u = 1%N.
Proof. vm_compute. split; reflexivity. Qed.
