From stdpp Require Import gmap.
From Coq Require Import NArith Lia.
From RV Require Import Ingress.IngressModel Rib.RibModel Bmp.BmpModel Pipe.PipeModel E2e.E2eModel.

(* connections accepted = connections lost + routers connected now, after every history;
   and only connected routers have state-machine metrics *)
Definition uc_ok (u : ucount) : Prop :=
  uc_accepted u = (uc_lost u + N.of_nat (size (uc_live u)))%N /\ uc_known u ⊆ uc_live u.

Lemma uc_step_ok u o : uc_ok u -> uc_ok (uc_step u o).
Proof.
  unfold uc_ok. intros [Hb Hs]. destruct o as [k|k m|k| | | | |]; cbn [uc_step]; try (split; [exact Hb|exact Hs]).
  - destruct (decide (k ∈ uc_live u)) as [Hin|Hin].
    + rewrite bool_decide_true by exact Hin. split; [exact Hb|exact Hs].
    + rewrite bool_decide_false by exact Hin. cbn [uc_accepted uc_lost uc_live uc_known]. split; [|set_solver].
      rewrite size_union by set_solver. rewrite size_singleton. lia.
  - destruct (decide (k ∈ uc_live u)) as [Hin|Hin].
    + rewrite bool_decide_true by exact Hin. cbn [uc_accepted uc_lost uc_live uc_known]. split; [exact Hb|set_solver].
    + rewrite bool_decide_false by exact Hin. split; [exact Hb|exact Hs].
  - destruct (decide (k ∈ uc_live u)) as [Hin|Hin].
    + rewrite bool_decide_true by exact Hin. cbn [uc_accepted uc_lost uc_live uc_known]. split; [|set_solver].
      assert (Hsz : size (uc_live u) = S (size (uc_live u ∖ {[k]}))).
      { rewrite (union_difference_L {[k]} (uc_live u)) at 1 by set_solver.
        rewrite size_union by set_solver. rewrite size_singleton. reflexivity. }
      lia.
    + rewrite bool_decide_false by exact Hin. split; [exact Hb|exact Hs].
Qed.

Lemma uc_run_ok l : forall u, uc_ok u -> uc_ok (uc_run u l).
Proof.
  induction l as [|o l IH]; intros u Hb; [exact Hb|]. cbn [uc_run fold_left].
  apply IH, uc_step_ok, Hb.
Qed.

Lemma uc_init_ok : uc_ok uc_init.
Proof. split; [reflexivity|set_solver]. Qed.

Theorem uc_connected_is_accepted_minus_lost l :
  uc_connected_spec (uc_run uc_init l) = (uc_accepted (uc_run uc_init l) - uc_lost (uc_run uc_init l))%N.
Proof.
  destruct (uc_run_ok l uc_init uc_init_ok) as [H _].
  unfold uc_connected_spec. rewrite H. lia.
Qed.

(* the rendered gauge never exceeds the number of connected routers ... *)
Theorem uc_code_le_spec l : (uc_connected_code (uc_run uc_init l) <= uc_connected_spec (uc_run uc_init l))%N.
Proof.
  destruct (uc_run_ok l uc_init uc_init_ok) as [_ H].
  unfold uc_connected_code, uc_connected_spec.
  assert (Hle : (size (uc_known (uc_run uc_init l)) <= size (uc_live (uc_run uc_init l)))%nat) by (apply subseteq_size, H).
  lia.
Qed.

(* ... is right when every connected router has spoken ... *)
Lemma uc_code_right_iff u : uc_known u = uc_live u -> uc_connected_code u = uc_connected_spec u.
Proof. unfold uc_connected_code, uc_connected_spec. intros ->. reflexivity. Qed.

(* ... and misses a router that is connected and has not sent anything yet: known finding C15-4 *)
Theorem uc_connected_refuted :
  let u := uc_run uc_init [WConnect 0] in
  uc_connected_code u = 0%N /\ uc_connected_spec u = 1%N.
Proof. vm_compute. split; reflexivity. Qed.

(* ------------------------------------------------------------------ *)
(* The Roto script of the configuration and the units started by reloads *)

Lemma filter_true {A} (l : list A) : List.filter (fun _ => true) l = l.
Proof. induction l as [|x l IH]; [reflexivity|]. cbn [List.filter]. rewrite IH. reflexivity. Qed.

Lemma filter_update_none u : filter_update SNone u = u.
Proof. destruct u as [ps| | |]; try reflexivity. cbn [filter_update script_rejects negb]. rewrite filter_true. reflexivity. Qed.

Lemma filter_update_nofilter u : filter_update SNoRibFilter u = u.
Proof. destruct u as [ps| | |]; try reflexivity. cbn [filter_update script_rejects negb]. rewrite filter_true. reflexivity. Qed.

(* what a step of the pipeline model does to its RIB is the update it reports *)
Lemma wstep_rib w o :
  w_rib (wstep w o).1 = match upd_of (wstep w o).2 with Some u => rib_apply (w_rib w) u | None => w_rib w end.
Proof.
  destruct o as [k|k m|k|b|b u|b|af pfx|k]; cbn [wstep].
  - destruct (find_or_register _ _ _) as [rid r']. reflexivity.
  - destruct (w_routers w !! k) as [[rid s]|]; [|reflexivity].
    destruct (sm_step _ _ _ _) as [[r' s'] out]. cbn [fst snd w_rib upd_of].
    destruct out; reflexivity.
  - destruct (w_routers w !! k) as [[rid s]|]; reflexivity.
  - destruct (reg_register _) as [id r']. reflexivity.
  - destruct (w_bgp w !! b) as [[id c]|]; [|reflexivity]. destruct u; reflexivity.
  - destruct (w_bgp w !! b) as [[id c]|]; reflexivity.
  - reflexivity.
  - reflexivity.
Qed.

(* ---- which filter a unit runs ---- *)

(* every unit runs the filter of the script named by the load that started it *)
Definition filters_ok (st : estate) : Prop :=
  es_scripts st !! ru_born (es_rib st) = Some (ru_filter (es_rib st)) /\
  forall r, es_rib2 st = Some r -> es_scripts st !! ru_born r = Some (ru_filter r).

Lemma runit_see_filter r out : ru_filter (runit_see r out) = ru_filter r.
Proof. unfold runit_see. destruct (upd_of out); reflexivity. Qed.
Lemma runit_see_born r out : ru_born (runit_see r out) = ru_born r.
Proof. unfold runit_see. destruct (upd_of out); reflexivity. Qed.

Lemma e_step_filters_ok st o : filters_ok st -> filters_ok (e_step false st o).
Proof.
  intros [H1 H2]. destruct o as [wo|s|y|]; cbn [e_step].
  - destruct (wstep (es_w st) wo) as [w' out]. split; cbn [es_scripts es_rib es_rib2].
    + rewrite runit_see_filter, runit_see_born. exact H1.
    + intros r Hr. destruct (es_rib2 st) as [r0|]; [|discriminate]. cbn [option_map] in Hr.
      injection Hr as <-. rewrite runit_see_filter, runit_see_born. apply H2. reflexivity.
  - split; [exact H1|exact H2].
  - split; [exact H1|exact H2].
  - split; cbn [es_scripts es_rib es_rib2].
    + apply lookup_app_l_Some. exact H1.
    + intros r Hr.
      destruct ((es_rib2kind st =? 1)%N && (ef_rib2 (es_file st) =? 1)%N).
      * apply lookup_app_l_Some. apply H2. exact Hr.
      * destruct (ef_rib2 (es_file st) =? 1)%N; [|discriminate].
        injection Hr as <-. cbn [ru_born ru_filter].
        rewrite lookup_app_r by lia. rewrite Nat.sub_diag. reflexivity.
Qed.

Lemma e_run_filters_ok h : forall st, filters_ok st -> filters_ok (e_run false st h).
Proof.
  induction h as [|o h IH]; intros st H; [exact H|]. cbn [e_run fold_left].
  apply IH, e_step_filters_ok, H.
Qed.

Lemma e_init_filters_ok s0 : filters_ok (e_init s0).
Proof. split; [reflexivity|]. intros r Hr. discriminate. Qed.

(* the bookkeeping list is the history of the scripts the loads named *)
Lemma e_run_scripts lg h : forall st,
  es_scripts (e_run lg st h) = es_scripts st ++ scripts_named (ef_script (es_file st)) h.
Proof.
  induction h as [|o h IH]; intros st; cbn [e_run fold_left scripts_named].
  - rewrite app_nil_r. reflexivity.
  - fold (e_run lg (e_step lg st o) h). rewrite IH. destruct o as [wo|s|y|]; cbn [e_step].
    + destruct (wstep (es_w st) wo) as [w' out]. reflexivity.
    + reflexivity.
    + reflexivity.
    + cbn [es_scripts es_file]. rewrite <- app_assoc. reflexivity.
Qed.

Theorem unit_filter_is_script_of_its_load s0 h :
  let st := e_run false (e_init s0) h in
  let named := s0 :: scripts_named s0 h in
  named !! ru_born (es_rib st) = Some (ru_filter (es_rib st)) /\
  forall r, es_rib2 st = Some r -> named !! ru_born r = Some (ru_filter r).
Proof.
  cbn zeta. pose proof (e_run_filters_ok h (e_init s0) (e_init_filters_ok s0)) as H.
  unfold filters_ok in H. rewrite e_run_scripts in H. exact H.
Qed.

(* a unit started by a reload starts empty, with the script that reload named *)
Theorem reload_starts_unit_with_new_script st :
  (es_rib2kind st =? 1)%N = false -> ef_rib2 (es_file st) = 1%N ->
  es_rib2 (e_step false st EReload) = Some (MkRunit (ef_script (es_file st)) (length (es_scripts st)) rib_empty).
Proof.
  intros Hk Hw. cbn [e_step es_rib2]. rewrite Hk, Hw. reflexivity.
Qed.

(* a reload leaves a running unit of unchanged name and type alone: its filter
   and its store are what they were (what the code does; see the report for
   what that means for an edited script) *)
Theorem reload_spares_running_units lg st :
  es_rib (e_step lg st EReload) = es_rib st /\
  (es_rib2kind st = 1%N -> ef_rib2 (es_file st) = 1%N -> es_rib2 (e_step lg st EReload) = es_rib2 st).
Proof.
  split; [reflexivity|]. intros Hk Hw. cbn [e_step es_rib2]. rewrite Hk, Hw. reflexivity.
Qed.

Lemma e_step_rib_filter lg st o : ru_filter (es_rib (e_step lg st o)) = ru_filter (es_rib st).
Proof.
  destruct o as [wo|s|y|]; cbn [e_step]; try reflexivity.
  destruct (wstep (es_w st) wo) as [w' out]. cbn [es_rib]. apply runit_see_filter.
Qed.

Theorem first_unit_keeps_startup_filter lg s0 h : ru_filter (es_rib (e_run lg (e_init s0) h)) = s0.
Proof.
  assert (H : forall st, ru_filter (es_rib (e_run lg st h)) = ru_filter (es_rib st)).
  { induction h as [|o h IH]; intros st; [reflexivity|]. cbn [e_run fold_left].
    fold (e_run lg (e_step lg st o) h). rewrite IH. apply e_step_rib_filter. }
  rewrite H. reflexivity.
Qed.

(* ---- no script: the extension is the pipeline model ---- *)

Lemma e_step_w lg st wo : es_w (e_step lg st (EW wo)) = (wstep (es_w st) wo).1.
Proof. cbn [e_step]. destruct (wstep (es_w st) wo) as [w' out]. reflexivity. Qed.

Definition unfiltered (s : script) : Prop := s = SNone \/ s = SNoRibFilter.

Lemma filter_update_unfiltered s u : unfiltered s -> filter_update s u = u.
Proof. intros [->| ->]; [apply filter_update_none|apply filter_update_nofilter]. Qed.

Lemma e_step_rib_is_pipe lg st o :
  unfiltered (ru_filter (es_rib st)) -> ru_rib (es_rib st) = w_rib (es_w st) ->
  ru_rib (es_rib (e_step lg st o)) = w_rib (es_w (e_step lg st o)).
Proof.
  intros Hf Hr. destruct o as [wo|s|y|]; cbn [e_step]; try exact Hr.
  pose proof (wstep_rib (es_w st) wo) as Hw.
  destruct (wstep (es_w st) wo) as [w' out]. cbn [fst snd] in Hw. cbn [es_rib es_w].
  rewrite Hw. unfold runit_see. destruct (upd_of out) as [u|]; [|exact Hr].
  cbn [runit_apply ru_rib]. rewrite filter_update_unfiltered by exact Hf. rewrite Hr. reflexivity.
Qed.

Theorem no_filter_is_pipeline_model lg s0 h :
  unfiltered s0 ->
  ru_rib (es_rib (e_run lg (e_init s0) h)) = w_rib (es_w (e_run lg (e_init s0) h)).
Proof.
  intros Hs.
  assert (H : forall st, unfiltered (ru_filter (es_rib st)) -> ru_rib (es_rib st) = w_rib (es_w st) ->
                         ru_rib (es_rib (e_run lg st h)) = w_rib (es_w (e_run lg st h))).
  { induction h as [|o h IH]; intros st Hf Hr; [exact Hr|]. cbn [e_run fold_left].
    fold (e_run lg (e_step lg st o) h). apply IH.
    - rewrite e_step_rib_filter. exact Hf.
    - apply e_step_rib_is_pipe; assumption. }
  apply H; [exact Hs|reflexivity].
Qed.

(* the pipeline model's own world is driven by the traffic alone *)
Fixpoint traffic (h : list eop) : list wop :=
  match h with [] => [] | EW o :: t => o :: traffic t | _ :: t => traffic t end.

Lemma e_run_world lg h : forall st,
  es_w (e_run lg st h) = fold_left (fun w o => (wstep w o).1) (traffic h) (es_w st).
Proof.
  induction h as [|o h IH]; intros st; [reflexivity|]. cbn [e_run fold_left].
  fold (e_run lg (e_step lg st o) h). rewrite IH.
  destruct o as [wo|s|y|]; cbn [traffic fold_left]; try reflexivity.
  rewrite e_step_w. reflexivity.
Qed.

(* ---- a rejected route is never stored ---- *)

Definition clean (r : runit) : Prop :=
  forall k, is_Some (recs (ru_rib r) !! k) -> script_rejects (ru_filter r) (k_pfx k) = false.

Lemma insert_payload_keys s rb p :
  script_rejects s (k_pfx (p_key p)) = false ->
  (forall k, is_Some (recs rb !! k) -> script_rejects s (k_pfx k) = false) ->
  forall k, is_Some (recs (rib_insert_payload rb p) !! k) -> script_rejects s (k_pfx k) = false.
Proof.
  intros Hp Hrb k. unfold rib_insert_payload.
  destruct (p_active p).
  - cbn [recs]. destruct (decide (k = p_key p)) as [->|Hne]; [intros _; exact Hp|].
    rewrite lookup_insert_ne by (intros E; apply Hne; symmetry; exact E). apply Hrb.
  - destruct (recs rb !! p_key p) as [old|]; [|apply Hrb].
    cbn [recs]. destruct (decide (k = p_key p)) as [->|Hne]; [intros _; exact Hp|].
    rewrite lookup_insert_ne by (intros E; apply Hne; symmetry; exact E). apply Hrb.
Qed.

Lemma fold_insert_keys s ps : forall rb,
  Forall (fun p => script_rejects s (k_pfx (p_key p)) = false) ps ->
  (forall k, is_Some (recs rb !! k) -> script_rejects s (k_pfx k) = false) ->
  forall k, is_Some (recs (fold_left rib_insert_payload ps rb) !! k) -> script_rejects s (k_pfx k) = false.
Proof.
  induction ps as [|p ps IH]; intros rb Hall Hrb; [exact Hrb|].
  cbn [fold_left]. apply IH; [apply (Forall_inv_tail Hall)|].
  apply insert_payload_keys; [apply (Forall_inv Hall)|exact Hrb].
Qed.

Lemma fold_withdraw_recs ms : forall rb, recs (fold_left (fun r m => rib_withdraw_mui r m None) ms rb) = recs rb.
Proof. induction ms as [|m ms IH]; intros rb; [reflexivity|]. cbn [fold_left]. rewrite IH. reflexivity. Qed.

Lemma runit_apply_clean r u : clean r -> clean (runit_apply r u).
Proof.
  unfold clean. intros Hc k. cbn [runit_apply ru_rib ru_filter].
  destruct u as [ps|m f|ms|]; cbn [filter_update rib_apply].
  - apply fold_insert_keys; [|exact Hc].
    apply List.Forall_forall. intros p Hin. apply List.filter_In in Hin. destruct Hin as [_ Hin].
    apply negb_true_iff in Hin. exact Hin.
  - destruct f; cbn [rib_withdraw_mui recs]; apply Hc.
  - rewrite fold_withdraw_recs. apply Hc.
  - apply Hc.
Qed.

Lemma runit_see_clean r out : clean r -> clean (runit_see r out).
Proof. unfold runit_see. destruct (upd_of out); [apply runit_apply_clean|exact id]. Qed.

Definition all_clean (st : estate) : Prop := clean (es_rib st) /\ forall r, es_rib2 st = Some r -> clean r.

Lemma e_step_all_clean lg st o : all_clean st -> all_clean (e_step lg st o).
Proof.
  intros [H1 H2]. destruct o as [wo|s|y|]; cbn [e_step]; try (split; [exact H1|exact H2]).
  - destruct (wstep (es_w st) wo) as [w' out]. split; cbn [es_rib es_rib2].
    + apply runit_see_clean, H1.
    + intros r Hr. destruct (es_rib2 st) as [r0|]; [|discriminate]. cbn [option_map] in Hr.
      injection Hr as <-. apply runit_see_clean, H2. reflexivity.
  - split; cbn [es_rib es_rib2]; [exact H1|]. intros r Hr.
    destruct ((es_rib2kind st =? 1)%N && (ef_rib2 (es_file st) =? 1)%N); [apply H2, Hr|].
    destruct (ef_rib2 (es_file st) =? 1)%N; [|discriminate]. injection Hr as <-.
    intros k [x Hx]. cbn [ru_rib rib_empty recs] in Hx. rewrite lookup_empty in Hx. discriminate.
Qed.

Theorem rejected_prefix_never_stored lg s0 h :
  let st := e_run lg (e_init s0) h in
  (forall k, is_Some (recs (ru_rib (es_rib st)) !! k) -> script_rejects (ru_filter (es_rib st)) (k_pfx k) = false) /\
  (forall r k, es_rib2 st = Some r -> is_Some (recs (ru_rib r) !! k) -> script_rejects (ru_filter r) (k_pfx k) = false).
Proof.
  cbn zeta.
  assert (H : forall st, all_clean st -> all_clean (e_run lg st h)).
  { induction h as [|o h IH]; intros st Hc; [exact Hc|]. cbn [e_run fold_left].
    fold (e_run lg (e_step lg st o) h). apply IH, e_step_all_clean, Hc. }
  assert (H0 : all_clean (e_init s0)).
  { split; [|intros r Hr; discriminate]. intros k [x Hx]. cbn in Hx. rewrite lookup_empty in Hx. discriminate. }
  destruct (H _ H0) as [Ha Hb]. split; [exact Ha|]. intros r k Hr. apply (Hb r Hr).
Qed.

(* ---- the defect of the code as it was: a configuration without roto_script ---- *)
Theorem legacy_script_removed_refuted :
  let h := [EScript SNone; EUnit 1%N; EReload] in
  let st := e_run true (e_init (SRejectPfx 7)) h in
  option_map ru_filter (es_rib2 st) = Some (SRejectPfx 7%N) /\
  last (es_scripts st) = Some SNone /\
  option_map ru_filter (es_rib2 (e_run false (e_init (SRejectPfx 7)) h)) = Some SNone.
Proof. vm_compute. repeat split; reflexivity. Qed.

(* the same with the standard library's list access (for statements that do not use std++ notation) *)
Lemma lookup_nth_error {A} (l : list A) : forall i, l !! i = nth_error l i.
Proof. induction l as [|x l IH]; intros [|i]; try reflexivity. cbn. apply IH. Qed.

Theorem unit_filter_is_script_of_its_load_nth s0 h :
  let st := e_run false (e_init s0) h in
  let named := s0 :: scripts_named s0 h in
  nth_error named (ru_born (es_rib st)) = Some (ru_filter (es_rib st)) /\
  forall r, es_rib2 st = Some r -> nth_error named (ru_born r) = Some (ru_filter r).
Proof.
  cbn zeta. destruct (unit_filter_is_script_of_its_load s0 h) as [H1 H2]. split.
  - rewrite <- lookup_nth_error. exact H1.
  - intros r Hr. rewrite <- lookup_nth_error. apply H2, Hr.
Qed.

(* non-vacuity: start with a script that rejects prefix 7; the operator edits it to reject prefix 8 and adds rib2;
   after the reload rib2 filters with the new script and the first unit with the old one *)
Lemma e2e_example :
  let st := e_run false (e_init (SRejectPfx 7)) [EScript (SRejectPfx 8); EUnit 1%N; EReload] in
  ru_filter (es_rib st) = SRejectPfx 7%N /\ option_map ru_filter (es_rib2 st) = Some (SRejectPfx 8%N) /\
  option_map ru_born (es_rib2 st) = Some 1%nat /\ es_scripts st = [SRejectPfx 7%N; SRejectPfx 8%N].
Proof. vm_compute. repeat split; reflexivity. Qed.

Theorem legacy_script_removed_refuted_std :
  let h := [EScript SNone; EUnit 1%N; EReload] in
  let st := e_run true (e_init (SRejectPfx 7)) h in
  option_map ru_filter (es_rib2 st) = Some (SRejectPfx 7%N) /\
  List.last (es_scripts st) SNoRibFilter = SNone /\
  option_map ru_filter (es_rib2 (e_run false (e_init (SRejectPfx 7)) h)) = Some SNone.
Proof. vm_compute. repeat split; reflexivity. Qed.
