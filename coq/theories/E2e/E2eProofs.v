From stdpp Require Import gmap.
From Coq Require Import NArith Lia.
From RV Require Import Ingress.IngressModel Ingress.IngressProofs Rib.RibModel Rib.RibProofs Bmp.BmpModel Pipe.PipeModel E2e.E2eModel.

(* connections accepted = connections lost + routers connected now, after every history;
   and only connected routers have state-machine metrics *)
Definition uc_ok (u : ucount) : Prop :=
  uc_accepted u = (uc_lost u + N.of_nat (size (uc_live u)))%N /\ uc_known u ⊆ uc_live u.

Lemma uc_step_ok u o : uc_ok u -> uc_ok (uc_step u o).
Proof.
  unfold uc_ok. intros [Hb Hs]. destruct o as [k|k m|k| | | | |]; cbn [uc_step]; try (split; [exact Hb|exact Hs]).
  - destruct (decide (k ∈ uc_live u)) as [Hin|Hin].
    + rewrite bool_decide_true by exact Hin. split; [exact Hb|exact Hs].
    + rewrite bool_decide_false by exact Hin. cbn [uc_accepted uc_lost uc_live uc_known]. split; [|set_solver].
      rewrite size_union by set_solver. rewrite size_singleton. lia.
  - destruct (decide (k ∈ uc_live u)) as [Hin|Hin].
    + rewrite bool_decide_true by exact Hin. cbn [uc_accepted uc_lost uc_live uc_known]. split; [exact Hb|set_solver].
    + rewrite bool_decide_false by exact Hin. split; [exact Hb|exact Hs].
  - destruct (decide (k ∈ uc_live u)) as [Hin|Hin].
    + rewrite bool_decide_true by exact Hin. cbn [uc_accepted uc_lost uc_live uc_known]. split; [|set_solver].
      assert (Hsz : size (uc_live u) = S (size (uc_live u ∖ {[k]}))).
      { rewrite (union_difference_L {[k]} (uc_live u)) at 1 by set_solver.
        rewrite size_union by set_solver. rewrite size_singleton. reflexivity. }
      lia.
    + rewrite bool_decide_false by exact Hin. split; [exact Hb|exact Hs].
Qed.

Lemma uc_run_ok l : forall u, uc_ok u -> uc_ok (uc_run u l).
Proof.
  induction l as [|o l IH]; intros u Hb; [exact Hb|]. cbn [uc_run fold_left].
  apply IH, uc_step_ok, Hb.
Qed.

Lemma uc_init_ok : uc_ok uc_init.
Proof. split; [reflexivity|set_solver]. Qed.

Theorem uc_connected_is_accepted_minus_lost l :
  uc_connected_spec (uc_run uc_init l) = (uc_accepted (uc_run uc_init l) - uc_lost (uc_run uc_init l))%N.
Proof.
  destruct (uc_run_ok l uc_init uc_init_ok) as [H _].
  unfold uc_connected_spec. rewrite H. lia.
Qed.

(* the rendered gauge never exceeds the number of connected routers ... *)
Theorem uc_code_le_spec l : (uc_connected_code (uc_run uc_init l) <= uc_connected_spec (uc_run uc_init l))%N.
Proof.
  destruct (uc_run_ok l uc_init uc_init_ok) as [_ H].
  unfold uc_connected_code, uc_connected_spec.
  assert (Hle : (size (uc_known (uc_run uc_init l)) <= size (uc_live (uc_run uc_init l)))%nat) by (apply subseteq_size, H).
  lia.
Qed.

(* ... is right when every connected router has spoken ... *)
Lemma uc_code_right_iff u : uc_known u = uc_live u -> uc_connected_code u = uc_connected_spec u.
Proof. unfold uc_connected_code, uc_connected_spec. intros ->. reflexivity. Qed.

(* ... and misses a router that is connected and has not sent anything yet: known finding C15-4 *)
Theorem uc_connected_refuted :
  let u := uc_run uc_init [WConnect 0] in
  uc_connected_code u = 0%N /\ uc_connected_spec u = 1%N.
Proof. vm_compute. split; reflexivity. Qed.

(* ------------------------------------------------------------------ *)
(* The Roto script of the configuration and the units started by reloads *)

Lemma filter_true {A} (l : list A) : List.filter (fun _ => true) l = l.
Proof. induction l as [|x l IH]; [reflexivity|]. cbn [List.filter]. rewrite IH. reflexivity. Qed.

Lemma filter_update_none u : filter_update SNone u = u.
Proof. destruct u as [ps| | |]; try reflexivity. cbn [filter_update script_rejects negb]. rewrite filter_true. reflexivity. Qed.

Lemma filter_update_nofilter u : filter_update SNoRibFilter u = u.
Proof. destruct u as [ps| | |]; try reflexivity. cbn [filter_update script_rejects negb]. rewrite filter_true. reflexivity. Qed.

(* what a step of the pipeline model does to its RIB is the update it reports *)
Lemma wstep_rib w o :
  w_rib (wstep w o).1 = match upd_of (wstep w o).2 with Some u => rib_apply (w_rib w) u | None => w_rib w end.
Proof.
  destruct o as [k|k m|k|b|b u|b|af pfx|k]; cbn [wstep].
  - destruct (find_or_register _ _ _) as [rid r']. reflexivity.
  - destruct (w_routers w !! k) as [[rid s]|]; [|reflexivity].
    destruct (sm_step _ _ _ _) as [[r' s'] out]. cbn [fst snd w_rib upd_of].
    destruct out; reflexivity.
  - destruct (w_routers w !! k) as [[rid s]|]; reflexivity.
  - destruct (reg_register _) as [id r']. reflexivity.
  - destruct (w_bgp w !! b) as [[id c]|]; [|reflexivity]. destruct u; reflexivity.
  - destruct (w_bgp w !! b) as [[id c]|]; reflexivity.
  - reflexivity.
  - reflexivity.
Qed.

(* ---- which filter a unit runs ---- *)

(* every unit runs the filter of the script named by the load that started it *)
Definition filters_ok (st : estate) : Prop :=
  es_scripts st !! ru_born (es_rib st) = Some (ru_filter (es_rib st)) /\
  (forall r, es_rib2 st = Some r -> es_scripts st !! ru_born r = Some (ru_filter r)) /\
  Forall (fun v => es_scripts st !! vr_born v = Some (vr_filter v)) (es_vribs st).

Lemma runit_see_filter r out : ru_filter (runit_see r out) = ru_filter r.
Proof. unfold runit_see. destruct (upd_of out); reflexivity. Qed.
Lemma runit_see_born r out : ru_born (runit_see r out) = ru_born r.
Proof. unfold runit_see. destruct (upd_of out); reflexivity. Qed.

Lemma e_step_filters_ok st o : filters_ok st -> filters_ok (e_step false st o).
Proof.
  intros (H1 & H2 & H3). destruct o as [wo|s|y|nv|]; cbn [e_step].
  - destruct (wstep (es_w st) wo) as [w' out]. split; [|split]; cbn [es_scripts es_rib es_rib2 es_vribs].
    + rewrite runit_see_filter, runit_see_born. exact H1.
    + intros r Hr. destruct (es_rib2 st) as [r0|]; [|discriminate]. cbn [option_map] in Hr.
      injection Hr as <-. rewrite runit_see_filter, runit_see_born. apply H2. reflexivity.
    + exact H3.
  - split; [exact H1|split; [exact H2|exact H3]].
  - split; [exact H1|split; [exact H2|exact H3]].
  - split; [exact H1|split; [exact H2|exact H3]].
  - split; [|split]; cbn [es_scripts es_rib es_rib2 es_vribs].
    + apply lookup_app_l_Some. exact H1.
    + intros r Hr.
      destruct ((es_rib2kind st =? 1)%N && (ef_rib2 (es_file st) =? 1)%N).
      * apply lookup_app_l_Some. apply H2. exact Hr.
      * destruct (ef_rib2 (es_file st) =? 1)%N; [|discriminate].
        injection Hr as <-. cbn [ru_born ru_filter].
        rewrite lookup_app_r by lia. rewrite Nat.sub_diag. reflexivity.
    + apply Forall_app. split.
      * apply Forall_fmap. apply Forall_take.
        eapply Forall_impl; [exact H3|]. intros v Hv. cbn [vr_born vr_filter compose].
        apply lookup_app_l_Some. exact Hv.
      * apply Forall_replicate. cbn [vr_born vr_filter].
        rewrite lookup_app_r by lia. rewrite Nat.sub_diag. reflexivity.
Qed.

Lemma e_run_filters_ok h : forall st, filters_ok st -> filters_ok (e_run false st h).
Proof.
  induction h as [|o h IH]; intros st H; [exact H|]. cbn [e_run fold_left].
  apply IH, e_step_filters_ok, H.
Qed.

Lemma e_init_filters_ok s0 n0 : filters_ok (e_init_v s0 n0).
Proof.
  split; [reflexivity|]. split; [intros r Hr; discriminate|].
  cbn [e_init_v es_vribs es_scripts]. apply Forall_replicate. reflexivity.
Qed.

(* the bookkeeping list is the history of the scripts the loads named *)
Lemma e_run_scripts lg h : forall st,
  es_scripts (e_run lg st h) = es_scripts st ++ scripts_named (ef_script (es_file st)) h.
Proof.
  induction h as [|o h IH]; intros st; cbn [e_run fold_left scripts_named].
  - rewrite app_nil_r. reflexivity.
  - fold (e_run lg (e_step lg st o) h). rewrite IH. destruct o as [wo|s|y|nv|]; cbn [e_step].
    + destruct (wstep (es_w st) wo) as [w' out]. reflexivity.
    + reflexivity.
    + reflexivity.
    + reflexivity.
    + cbn [es_scripts es_file]. rewrite <- app_assoc. reflexivity.
Qed.

Theorem unit_filter_is_script_of_its_load s0 h :
  let st := e_run false (e_init s0) h in
  let named := s0 :: scripts_named s0 h in
  named !! ru_born (es_rib st) = Some (ru_filter (es_rib st)) /\
  forall r, es_rib2 st = Some r -> named !! ru_born r = Some (ru_filter r).
Proof.
  cbn zeta. pose proof (e_run_filters_ok h (e_init s0) (e_init_filters_ok s0 0)) as H.
  unfold filters_ok in H. rewrite e_run_scripts in H. destruct H as (H1 & H2 & _). split; [exact H1|exact H2].
Qed.

(* a unit started by a reload starts empty, with the script that reload named *)
Theorem reload_starts_unit_with_new_script st :
  (es_rib2kind st =? 1)%N = false -> ef_rib2 (es_file st) = 1%N ->
  es_rib2 (e_step false st EReload) = Some (MkRunit (ef_script (es_file st)) (length (es_scripts st)) rib_empty).
Proof.
  intros Hk Hw. cbn [e_step es_rib2]. rewrite Hk, Hw. reflexivity.
Qed.

(* a reload leaves a running unit of unchanged name and type alone: its filter
   and its store are what they were (what the code does; see the report for
   what that means for an edited script) *)
Theorem reload_spares_running_units lg st :
  es_rib (e_step lg st EReload) = es_rib st /\
  (es_rib2kind st = 1%N -> ef_rib2 (es_file st) = 1%N -> es_rib2 (e_step lg st EReload) = es_rib2 st).
Proof.
  split; [reflexivity|]. intros Hk Hw. cbn [e_step es_rib2]. rewrite Hk, Hw. reflexivity.
Qed.

Lemma e_step_rib_filter lg st o : ru_filter (es_rib (e_step lg st o)) = ru_filter (es_rib st).
Proof.
  destruct o as [wo|s|y|nv|]; cbn [e_step]; try reflexivity.
  destruct (wstep (es_w st) wo) as [w' out]. cbn [es_rib]. apply runit_see_filter.
Qed.

Theorem first_unit_keeps_startup_filter lg s0 h : ru_filter (es_rib (e_run lg (e_init s0) h)) = s0.
Proof.
  assert (H : forall st, ru_filter (es_rib (e_run lg st h)) = ru_filter (es_rib st)).
  { induction h as [|o h IH]; intros st; [reflexivity|]. cbn [e_run fold_left].
    fold (e_run lg (e_step lg st o) h). rewrite IH. apply e_step_rib_filter. }
  rewrite H. reflexivity.
Qed.

(* ---- no script: the extension is the pipeline model ---- *)

Lemma e_step_w lg st wo : es_w (e_step lg st (EW wo)) = (wstep (es_w st) wo).1.
Proof. cbn [e_step]. destruct (wstep (es_w st) wo) as [w' out]. reflexivity. Qed.

Definition unfiltered (s : script) : Prop := s = SNone \/ s = SNoRibFilter.

Lemma filter_update_unfiltered s u : unfiltered s -> filter_update s u = u.
Proof. intros [->| ->]; [apply filter_update_none|apply filter_update_nofilter]. Qed.

Lemma e_step_rib_is_pipe lg st o :
  unfiltered (ru_filter (es_rib st)) -> ru_rib (es_rib st) = w_rib (es_w st) ->
  ru_rib (es_rib (e_step lg st o)) = w_rib (es_w (e_step lg st o)).
Proof.
  intros Hf Hr. destruct o as [wo|s|y|nv|]; cbn [e_step]; try exact Hr.
  pose proof (wstep_rib (es_w st) wo) as Hw.
  destruct (wstep (es_w st) wo) as [w' out]. cbn [fst snd] in Hw. cbn [es_rib es_w].
  rewrite Hw. unfold runit_see. destruct (upd_of out) as [u|]; [|exact Hr].
  cbn [runit_apply ru_rib]. rewrite filter_update_unfiltered by exact Hf. rewrite Hr. reflexivity.
Qed.

Theorem no_filter_is_pipeline_model lg s0 h :
  unfiltered s0 ->
  ru_rib (es_rib (e_run lg (e_init s0) h)) = w_rib (es_w (e_run lg (e_init s0) h)).
Proof.
  intros Hs.
  assert (H : forall st, unfiltered (ru_filter (es_rib st)) -> ru_rib (es_rib st) = w_rib (es_w st) ->
                         ru_rib (es_rib (e_run lg st h)) = w_rib (es_w (e_run lg st h))).
  { induction h as [|o h IH]; intros st Hf Hr; [exact Hr|]. cbn [e_run fold_left].
    fold (e_run lg (e_step lg st o) h). apply IH.
    - rewrite e_step_rib_filter. exact Hf.
    - apply e_step_rib_is_pipe; assumption. }
  apply H; [exact Hs|reflexivity].
Qed.

(* the pipeline model's own world is driven by the traffic alone *)
Fixpoint traffic (h : list eop) : list wop :=
  match h with [] => [] | EW o :: t => o :: traffic t | _ :: t => traffic t end.

Lemma e_run_world lg h : forall st,
  es_w (e_run lg st h) = fold_left (fun w o => (wstep w o).1) (traffic h) (es_w st).
Proof.
  induction h as [|o h IH]; intros st; [reflexivity|]. cbn [e_run fold_left].
  fold (e_run lg (e_step lg st o) h). rewrite IH.
  destruct o as [wo|s|y|nv|]; cbn [traffic fold_left]; try reflexivity.
  rewrite e_step_w. reflexivity.
Qed.

(* ---- a rejected route is never stored ---- *)

Definition clean (r : runit) : Prop :=
  forall k, is_Some (recs (ru_rib r) !! k) -> script_rejects (ru_filter r) (k_pfx k) = false.

Lemma insert_payload_keys s rb p :
  script_rejects s (k_pfx (p_key p)) = false ->
  (forall k, is_Some (recs rb !! k) -> script_rejects s (k_pfx k) = false) ->
  forall k, is_Some (recs (rib_insert_payload rb p) !! k) -> script_rejects s (k_pfx k) = false.
Proof.
  intros Hp Hrb k. unfold rib_insert_payload.
  destruct (p_active p).
  - cbn [recs]. destruct (decide (k = p_key p)) as [->|Hne]; [intros _; exact Hp|].
    rewrite lookup_insert_ne by (intros E; apply Hne; symmetry; exact E). apply Hrb.
  - destruct (recs rb !! p_key p) as [old|]; [|apply Hrb].
    cbn [recs]. destruct (decide (k = p_key p)) as [->|Hne]; [intros _; exact Hp|].
    rewrite lookup_insert_ne by (intros E; apply Hne; symmetry; exact E). apply Hrb.
Qed.

Lemma fold_insert_keys s ps : forall rb,
  Forall (fun p => script_rejects s (k_pfx (p_key p)) = false) ps ->
  (forall k, is_Some (recs rb !! k) -> script_rejects s (k_pfx k) = false) ->
  forall k, is_Some (recs (fold_left rib_insert_payload ps rb) !! k) -> script_rejects s (k_pfx k) = false.
Proof.
  induction ps as [|p ps IH]; intros rb Hall Hrb; [exact Hrb|].
  cbn [fold_left]. apply IH; [apply (Forall_inv_tail Hall)|].
  apply insert_payload_keys; [apply (Forall_inv Hall)|exact Hrb].
Qed.

Lemma fold_withdraw_recs ms : forall rb, recs (fold_left (fun r m => rib_withdraw_mui r m None) ms rb) = recs rb.
Proof. induction ms as [|m ms IH]; intros rb; [reflexivity|]. cbn [fold_left]. rewrite IH. reflexivity. Qed.

Lemma runit_apply_clean r u : clean r -> clean (runit_apply r u).
Proof.
  unfold clean. intros Hc k. cbn [runit_apply ru_rib ru_filter].
  destruct u as [ps|m f|ms|]; cbn [filter_update rib_apply].
  - apply fold_insert_keys; [|exact Hc].
    apply List.Forall_forall. intros p Hin. apply List.filter_In in Hin. destruct Hin as [_ Hin].
    apply negb_true_iff in Hin. exact Hin.
  - destruct f; cbn [rib_withdraw_mui recs]; apply Hc.
  - rewrite fold_withdraw_recs. apply Hc.
  - apply Hc.
Qed.

Lemma runit_see_clean r out : clean r -> clean (runit_see r out).
Proof. unfold runit_see. destruct (upd_of out); [apply runit_apply_clean|exact id]. Qed.

Definition all_clean (st : estate) : Prop := clean (es_rib st) /\ forall r, es_rib2 st = Some r -> clean r.

Lemma e_step_all_clean lg st o : all_clean st -> all_clean (e_step lg st o).
Proof.
  intros [H1 H2]. destruct o as [wo|s|y|nv|]; cbn [e_step]; try (split; [exact H1|exact H2]).
  - destruct (wstep (es_w st) wo) as [w' out]. split; cbn [es_rib es_rib2].
    + apply runit_see_clean, H1.
    + intros r Hr. destruct (es_rib2 st) as [r0|]; [|discriminate]. cbn [option_map] in Hr.
      injection Hr as <-. apply runit_see_clean, H2. reflexivity.
  - split; cbn [es_rib es_rib2]; [exact H1|]. intros r Hr.
    destruct ((es_rib2kind st =? 1)%N && (ef_rib2 (es_file st) =? 1)%N); [apply H2, Hr|].
    destruct (ef_rib2 (es_file st) =? 1)%N; [|discriminate]. injection Hr as <-.
    intros k [x Hx]. cbn [ru_rib rib_empty recs] in Hx. rewrite lookup_empty in Hx. discriminate.
Qed.

Theorem rejected_prefix_never_stored lg s0 h :
  let st := e_run lg (e_init s0) h in
  (forall k, is_Some (recs (ru_rib (es_rib st)) !! k) -> script_rejects (ru_filter (es_rib st)) (k_pfx k) = false) /\
  (forall r k, es_rib2 st = Some r -> is_Some (recs (ru_rib r) !! k) -> script_rejects (ru_filter r) (k_pfx k) = false).
Proof.
  cbn zeta.
  assert (H : forall st, all_clean st -> all_clean (e_run lg st h)).
  { induction h as [|o h IH]; intros st Hc; [exact Hc|]. cbn [e_run fold_left].
    fold (e_run lg (e_step lg st o) h). apply IH, e_step_all_clean, Hc. }
  assert (H0 : all_clean (e_init s0)).
  { split; [|intros r Hr; discriminate]. intros k [x Hx]. cbn in Hx. rewrite lookup_empty in Hx. discriminate. }
  destruct (H _ H0) as [Ha Hb]. split; [exact Ha|]. intros r k Hr. apply (Hb r Hr).
Qed.

(* ---- the defect of the code as it was: a configuration without roto_script ---- *)
Theorem legacy_script_removed_refuted :
  let h := [EScript SNone; EUnit 1%N; EReload] in
  let st := e_run true (e_init (SRejectPfx 7)) h in
  option_map ru_filter (es_rib2 st) = Some (SRejectPfx 7%N) /\
  last (es_scripts st) = Some SNone /\
  option_map ru_filter (es_rib2 (e_run false (e_init (SRejectPfx 7)) h)) = Some SNone.
Proof. vm_compute. repeat split; reflexivity. Qed.

(* the same with the standard library's list access (for statements that do not use std++ notation) *)
Lemma lookup_nth_error {A} (l : list A) : forall i, l !! i = nth_error l i.
Proof. induction l as [|x l IH]; intros [|i]; try reflexivity. cbn. apply IH. Qed.

Theorem unit_filter_is_script_of_its_load_nth s0 h :
  let st := e_run false (e_init s0) h in
  let named := s0 :: scripts_named s0 h in
  nth_error named (ru_born (es_rib st)) = Some (ru_filter (es_rib st)) /\
  forall r, es_rib2 st = Some r -> nth_error named (ru_born r) = Some (ru_filter r).
Proof.
  cbn zeta. destruct (unit_filter_is_script_of_its_load s0 h) as [H1 H2]. split.
  - rewrite <- lookup_nth_error. exact H1.
  - intros r Hr. rewrite <- lookup_nth_error. apply H2, Hr.
Qed.

(* non-vacuity: start with a script that rejects prefix 7; the operator edits it to reject prefix 8 and adds rib2;
   after the reload rib2 filters with the new script and the first unit with the old one *)
Lemma e2e_example :
  let st := e_run false (e_init (SRejectPfx 7)) [EScript (SRejectPfx 8); EUnit 1%N; EReload] in
  ru_filter (es_rib st) = SRejectPfx 7%N /\ option_map ru_filter (es_rib2 st) = Some (SRejectPfx 8%N) /\
  option_map ru_born (es_rib2 st) = Some 1%nat /\ es_scripts st = [SRejectPfx 7%N; SRejectPfx 8%N].
Proof. vm_compute. repeat split; reflexivity. Qed.

Theorem legacy_script_removed_refuted_std :
  let h := [EScript SNone; EUnit 1%N; EReload] in
  let st := e_run true (e_init (SRejectPfx 7)) h in
  option_map ru_filter (es_rib2 st) = Some (SRejectPfx 7%N) /\
  List.last (es_scripts st) SNoRibFilter = SNone /\
  option_map ru_filter (es_rib2 (e_run false (e_init (SRejectPfx 7)) h)) = Some SNone.
Proof. vm_compute. repeat split; reflexivity. Qed.

(* the same for the generated vRIBs of a shorthand RIB, whatever their number at start-up and after each reload *)
Theorem vrib_filter_is_script_of_its_load s0 n0 h :
  let st := e_run false (e_init_v s0 n0) h in
  let named := s0 :: scripts_named s0 h in
  forall v, In v (es_vribs st) -> nth_error named (vr_born v) = Some (vr_filter v).
Proof.
  cbn zeta. pose proof (e_run_filters_ok h (e_init_v s0 n0) (e_init_filters_ok s0 n0)) as H.
  unfold filters_ok in H. rewrite e_run_scripts in H. destruct H as (_ & _ & H3).
  intros v Hv. rewrite List.Forall_forall in H3. specialize (H3 v Hv).
  rewrite <- lookup_nth_error. exact H3.
Qed.


(* ------------------------------------------------------------------ *)
(* Generated vRIBs: the links of a running vRIB are the ones the LATEST load made *)

Definition vribs_current (st : estate) : Prop :=
  Forall (fun v => vr_up v = es_cur st /\ vr_src v = es_cur st) (es_vribs st).

Lemma e_step_vribs_current lg st o : vribs_current st -> vribs_current (e_step lg st o).
Proof.
  unfold vribs_current, es_cur. intros H. destruct o as [wo|s|y|nv|]; cbn [e_step]; try exact H.
  - destruct (wstep (es_w st) wo) as [w' out]. exact H.
  - cbn [es_vribs es_scripts]. rewrite app_length. cbn [length]. rewrite Nat.add_1_r. cbn [pred].
    apply Forall_app. split.
    + apply Forall_fmap. apply Forall_take. eapply Forall_impl; [exact H|].
      intros v _. cbn [compose vr_up vr_src]. split; reflexivity.
    + apply Forall_replicate. split; reflexivity.
Qed.

Lemma e_run_vribs_current lg h : forall st, vribs_current st -> vribs_current (e_run lg st h).
Proof.
  induction h as [|o h IH]; intros st H; [exact H|]. cbn [e_run fold_left].
  apply IH, e_step_vribs_current, H.
Qed.

Lemma e_init_vribs_current s0 n0 : vribs_current (e_init_v s0 n0).
Proof. unfold vribs_current. cbn [e_init_v es_vribs]. apply Forall_replicate. split; reflexivity. Qed.

(* after every history of traffic, edits and reloads: the vrib_upstream link and the sources link of every running
   generated vRIB are those of the last load - the load whose gates the running units hold *)
Theorem vribs_linked_to_current lg s0 n0 h :
  let st := e_run lg (e_init_v s0 n0) h in
  forall v, In v (es_vribs st) -> vr_up v = es_cur st /\ vr_src v = es_cur st.
Proof.
  cbn zeta. pose proof (e_run_vribs_current lg h _ (e_init_vribs_current s0 n0)) as H.
  unfold vribs_current in H. rewrite List.Forall_forall in H. exact H.
Qed.

Lemma vribs_current_chain_linked st i :
  vribs_current st -> (i < length (es_vribs st))%nat -> chain_linked (es_cur st) (es_vribs st) i = true.
Proof.
  unfold vribs_current, chain_linked. intros H Hi.
  destruct (lookup_lt_is_Some_2 _ _ Hi) as [v Hv]. rewrite Hv.
  apply andb_true_intro. split.
  - rewrite Forall_forall in H. destruct (H v (elem_of_list_lookup_2 _ _ _ Hv)) as [Hu _].
    rewrite Hu. apply Nat.eqb_refl.
  - apply forallb_forall. intros x Hx.
    assert (Hin : x ∈ es_vribs st).
    { apply elem_of_list_In in Hx. apply elem_of_take in Hx. destruct Hx as (j & Hj & _).
      apply (elem_of_list_lookup_2 _ j). exact Hj. }
    rewrite Forall_forall in H. destruct (H x Hin) as [_ Hs]. rewrite Hs. apply Nat.eqb_refl.
Qed.

(* so a query of a running vRIB always reaches the physical RIB and its result comes back down the chain *)
Theorem vrib_chain_always_linked lg s0 n0 h i :
  let st := e_run lg (e_init_v s0 n0) h in
  (i < length (es_vribs st))%nat -> chain_linked (es_cur st) (es_vribs st) i = true.
Proof.
  cbn zeta. apply vribs_current_chain_linked. apply e_run_vribs_current, e_init_vribs_current.
Qed.

(* whenever the code answers, it answers what the property asks for (any state) *)
Theorem vrib_code_answer_is_spec st i af pfx l :
  vrib_query_code st i af pfx = VAnswer l -> vrib_query_spec st i af pfx = VAnswer l.
Proof.
  unfold vrib_query_code, vrib_query_spec. destruct (i <? length (es_vribs st))%nat; [|discriminate].
  destruct (chain_linked _ _ _); [|discriminate].
  destruct (rib_query (ru_rib (es_rib st)) af pfx) as [|e t]; [|discriminate].
  intros Hl. injection Hl as <-. destruct (chain_rejects _ _ _); reflexivity.
Qed.

(* a path with no vRIB behind it is not answered by one, in the code as in the spec *)
Theorem vrib_absent_agree st i af pfx :
  vrib_query_code st i af pfx = VAbsent <-> vrib_query_spec st i af pfx = VAbsent.
Proof.
  unfold vrib_query_code, vrib_query_spec. destruct (i <? length (es_vribs st))%nat.
  - split; [|discriminate]. destruct (chain_linked _ _ _); [|discriminate].
    destruct (rib_query _ _ _); discriminate.
  - split; reflexivity.
Qed.

(* the partial theorem: after every history, a query of a vRIB about a prefix the physical RIB holds nothing for
   (or a path without a vRIB) is answered as the property asks - in particular it IS answered, after any number of reloads *)
Theorem vrib_query_partial lg s0 n0 h i af pfx :
  let st := e_run lg (e_init_v s0 n0) h in
  rib_query (ru_rib (es_rib st)) af pfx = [] ->
  vrib_query_code st i af pfx = vrib_query_spec st i af pfx.
Proof.
  cbn zeta. intros Hq. unfold vrib_query_code, vrib_query_spec.
  destruct (i <? length (es_vribs (e_run lg (e_init_v s0 n0) h)))%nat eqn:Hi; [|reflexivity].
  apply Nat.ltb_lt in Hi. rewrite (vrib_chain_always_linked lg s0 n0 h i Hi). rewrite Hq.
  destruct (chain_rejects _ _ _); reflexivity.
Qed.

(* ... and the code's departure: the physical RIB holds a route of the prefix - the property asks for it, the
   request is never answered (reprocess_rib_value is `todo!()`) *)
Definition vrib_witness : list eop :=
  [EW (WConnect 0); EW (WMsg 0 MInit); EW (WMsg 0 (MPeerUp (0, 0, 0, 0, 1, 65001, 1)%N false));
   EW (WMsg 0 (MRoute (0, 0, 0, 0, 1, 65001, 1)%N (Some (URoutes 0 [1%N] 3 0 []))))].

Theorem vrib_query_refuted :
  let st := e_run false (e_init_v SNone 1) vrib_witness in
  vrib_query_code st 0 0 1 = VNever /\
  (exists e, vrib_query_spec st 0 0 1 = VAnswer [e]) /\
  vrib_query_code st 0 0 2 = VAnswer [] /\ vrib_query_spec st 0 0 2 = VAnswer [].
Proof. vm_compute. split; [reflexivity|]. split; [eexists; reflexivity|]. split; reflexivity. Qed.

(* without filters in the chain a vRIB says what the physical RIB says *)
Theorem vrib_unfiltered_answers_as_prib st i af pfx :
  (i < length (es_vribs st))%nat -> (forall v, In v (es_vribs st) -> unfiltered (vr_filter v)) ->
  vrib_query_spec st i af pfx = VAnswer (rib_query (ru_rib (es_rib st)) af pfx).
Proof.
  intros Hi Hf. unfold vrib_query_spec. apply Nat.ltb_lt in Hi. rewrite Hi.
  assert (Hr : chain_rejects (es_vribs st) i pfx = false).
  { unfold chain_rejects. apply not_true_is_false. intros Hex. apply existsb_exists in Hex.
    destruct Hex as (v & Hv & Hrej). apply elem_of_list_In, elem_of_take in Hv. destruct Hv as (j & Hj & _).
    assert (Hin : In v (es_vribs st)) by (apply elem_of_list_In, (elem_of_list_lookup_2 _ j), Hj).
    destruct (Hf v Hin) as [E|E]; rewrite E in Hrej; discriminate. }
  rewrite Hr. reflexivity.
Qed.

(* ---- what a reload does to the generated vRIBs ---- *)

(* as many as the file asks for *)
Theorem reload_vrib_count lg st :
  length (es_vribs (e_step lg st EReload)) = N.to_nat (ef_vribs (es_file st)).
Proof.
  cbn [e_step es_vribs]. rewrite app_length, fmap_length, take_length, replicate_length. lia.
Qed.

(* a vRIB the file still asks for is spared: it keeps filter and birth, and holds the links this load made *)
Theorem reload_spares_vribs lg st i v :
  es_vribs st !! i = Some v -> (i < N.to_nat (ef_vribs (es_file st)))%nat ->
  es_vribs (e_step lg st EReload) !! i =
  Some (MkVrib (vr_filter v) (vr_born v) (length (es_scripts st)) (length (es_scripts st))).
Proof.
  intros Hv Hi. cbn [e_step es_vribs].
  rewrite lookup_app_l.
  - rewrite list_lookup_fmap, lookup_take by exact Hi. rewrite Hv. reflexivity.
  - rewrite fmap_length, take_length. apply lookup_lt_Some in Hv. lia.
Qed.

(* a vRIB the file adds is started with the script the reloaded configuration names, linked to this load's gates *)
Theorem reload_starts_vribs st i :
  (length (es_vribs st) <= i)%nat -> (i < N.to_nat (ef_vribs (es_file st)))%nat ->
  es_vribs (e_step false st EReload) !! i =
  Some (MkVrib (ef_script (es_file st)) (length (es_scripts st)) (length (es_scripts st)) (length (es_scripts st))).
Proof.
  intros Hlo Hi. cbn [e_step es_vribs].
  rewrite lookup_app_r; rewrite fmap_length, take_length; [|lia].
  apply lookup_replicate_2. lia.
Qed.

(* the other operations leave the vRIBs alone *)
Theorem only_reload_touches_vribs lg st o : o <> EReload -> es_vribs (e_step lg st o) = es_vribs st.
Proof.
  intros Ho. destruct o as [wo|s|y|nv|]; cbn [e_step]; try reflexivity; [|contradiction].
  destruct (wstep (es_w st) wo) as [w' out]. reflexivity.
Qed.

(* non-vacuity: start-up with two vRIBs and a script rejecting prefix 7; the operator edits the script and asks for three
   vRIBs; after the reload vRIB 0 and 1 keep the old filter, vRIB 2 has the new one, all are linked to load 1 *)
Lemma vrib_example :
  let st := e_run false (e_init_v (SRejectPfx 7) 2) [EScript (SRejectPfx 8); EVribs 3; EReload] in
  es_vribs st = [MkVrib (SRejectPfx 7) 0 1 1; MkVrib (SRejectPfx 7) 0 1 1; MkVrib (SRejectPfx 8) 1 1 1] /\ es_cur st = 1%nat /\
  vrib_query_code st 2 0 8 = VAnswer [] /\ vrib_query_code st 3 0 8 = VAbsent.
Proof. vm_compute. repeat split; reflexivity. Qed.

(* the same with the standard library's list access *)
Theorem reload_spares_vribs_nth lg st i v :
  nth_error (es_vribs st) i = Some v -> (i < N.to_nat (ef_vribs (es_file st)))%nat ->
  nth_error (es_vribs (e_step lg st EReload)) i =
  Some (MkVrib (vr_filter v) (vr_born v) (length (es_scripts st)) (length (es_scripts st))).
Proof. rewrite <- !lookup_nth_error. apply reload_spares_vribs. Qed.

Theorem reload_starts_vribs_nth st i :
  (length (es_vribs st) <= i)%nat -> (i < N.to_nat (ef_vribs (es_file st)))%nat ->
  nth_error (es_vribs (e_step false st EReload)) i =
  Some (MkVrib (ef_script (es_file st)) (length (es_scripts st)) (length (es_scripts st)) (length (es_scripts st))).
Proof. rewrite <- lookup_nth_error. apply reload_starts_vribs. Qed.


(* ------------------------------------------------------------------ *)
(* Ingress units that a reload removes and adds *)

Definition wd_ids (w : world) (key : N) : list N :=
  match w_routers w !! key with
  | Some (rid, _) => reg_ids_for_parent (w_reg w) rid
  | None => []
  end.

Lemma removed_ids_flat w keys : removed_ids w keys = flat_map (wd_ids w) keys.
Proof. reflexivity. Qed.

Definition wdall (r : rib) (ms : list N) : rib := fold_left (fun r m => rib_withdraw_mui r m None) ms r.

Lemma wdall_app r a b : wdall r (a ++ b) = wdall (wdall r a) b.
Proof. unfold wdall. apply fold_left_app. Qed.

(* the end of one connection, as every RIB unit sees it *)
Lemma runit_see_disconnect r w key :
  runit_see r (wstep w (WDisconnect key)).2 =
  MkRunit (ru_filter r) (ru_born r) (wdall (ru_rib r) (wd_ids w key)).
Proof.
  unfold wd_ids. cbn [wstep]. destruct (w_routers w !! key) as [[rid s]|]; cbn [snd].
  - unfold runit_see. cbn [upd_of runit_apply filter_update rib_apply]. reflexivity.
  - unfold runit_see. cbn [upd_of wdall fold_left]. destruct r; reflexivity.
Qed.

Lemma wstep_disconnect_world w key :
  w_reg (wstep w (WDisconnect key)).1 = w_reg w /\
  w_routers (wstep w (WDisconnect key)).1 = delete key (w_routers w) /\
  w_unit (wstep w (WDisconnect key)).1 = w_unit w.
Proof.
  cbn [wstep]. destruct (w_routers w !! key) as [[rid s]|] eqn:E; cbn [fst w_reg w_routers w_unit].
  - repeat split.
  - repeat split. symmetry. apply delete_notin. exact E.
Qed.

Lemma e_step_disconnect st key :
  let st' := e_step false st (EW (WDisconnect key)) in
  es_rib st' = MkRunit (ru_filter (es_rib st)) (ru_born (es_rib st)) (wdall (ru_rib (es_rib st)) (wd_ids (es_w st) key)) /\
  es_rib2 st' = option_map (fun r => MkRunit (ru_filter r) (ru_born r) (wdall (ru_rib r) (wd_ids (es_w st) key))) (es_rib2 st) /\
  w_reg (es_w st') = w_reg (es_w st) /\
  w_routers (es_w st') = delete key (w_routers (es_w st)) /\
  w_unit (es_w st') = w_unit (es_w st) /\
  es_file st' = es_file st /\ es_scripts st' = es_scripts st /\ es_compiled st' = es_compiled st /\
  es_rib2kind st' = es_rib2kind st /\ es_vribs st' = es_vribs st.
Proof.
  cbn zeta. pose proof (runit_see_disconnect (es_rib st) (es_w st) key) as H1.
  pose proof (wstep_disconnect_world (es_w st) key) as (Hr & Hm & Hu).
  cbn [e_step]. destruct (wstep (es_w st) (WDisconnect key)) as [w' out] eqn:Ew.
  cbn [fst snd] in *. cbn [es_rib es_rib2 es_w es_file es_scripts es_compiled es_rib2kind es_vribs].
  split; [exact H1|]. split.
  { destruct (es_rib2 st) as [r2|]; [|reflexivity]. cbn [option_map]. f_equal.
    pose proof (runit_see_disconnect r2 (es_w st) key) as H2. rewrite Ew in H2. exact H2. }
  repeat split; assumption.
Qed.

Definition disc_ops (keys : list N) : list eop := map (fun k => EW (WDisconnect k)) keys.

Lemma wd_ids_other w w' key :
  w_reg w' = w_reg w -> w_routers w' !! key = w_routers w !! key -> wd_ids w' key = wd_ids w key.
Proof. intros Hr Hk. unfold wd_ids. rewrite Hr, Hk. reflexivity. Qed.

(* the end of the connections of a set of routers: every RIB unit applies the withdrawal of the ids registered under
   those routers, the sessions are gone, nothing else moves *)
Lemma e_run_disconnects keys : forall st, NoDup keys ->
  let st' := fold_left (e_step false) (disc_ops keys) st in
  es_rib st' = MkRunit (ru_filter (es_rib st)) (ru_born (es_rib st)) (wdall (ru_rib (es_rib st)) (removed_ids (es_w st) keys)) /\
  es_rib2 st' = option_map (fun r => MkRunit (ru_filter r) (ru_born r) (wdall (ru_rib r) (removed_ids (es_w st) keys))) (es_rib2 st) /\
  w_reg (es_w st') = w_reg (es_w st) /\
  (forall key, w_routers (es_w st') !! key = if bool_decide (key ∈ keys) then None else w_routers (es_w st) !! key) /\
  w_unit (es_w st') = w_unit (es_w st) /\
  es_file st' = es_file st /\ es_scripts st' = es_scripts st /\ es_compiled st' = es_compiled st /\
  es_rib2kind st' = es_rib2kind st /\ es_vribs st' = es_vribs st.
Proof.
  induction keys as [|a keys IH]; intros st Hnd; cbn zeta.
  - cbn [disc_ops map fold_left removed_ids flat_map wdall]. split; [destruct (es_rib st); reflexivity|].
    split; [destruct (es_rib2 st) as [[? ? ?]|]; reflexivity|].
    repeat split; try (intros key; rewrite bool_decide_false by set_solver; reflexivity).
  - apply NoDup_cons in Hnd as [Ha Hnd].
    cbn [disc_ops map fold_left]. fold (disc_ops keys).
    pose proof (e_step_disconnect st a) as (S1 & S2 & S3 & S4 & S5 & S6 & S7 & S8 & S9 & S10).
    specialize (IH (e_step false st (EW (WDisconnect a))) Hnd). cbn zeta in IH.
    destruct IH as (I1 & I2 & I3 & I4 & I5 & I6 & I7 & I8 & I9 & I10).
    assert (Hids : removed_ids (es_w (e_step false st (EW (WDisconnect a)))) keys = removed_ids (es_w st) keys).
    { rewrite !removed_ids_flat. clear -Ha S3 S4. induction keys as [|b keys IHk]; [reflexivity|].
      apply not_elem_of_cons in Ha as [Hab Ha].
      cbn [flat_map]. rewrite (IHk Ha). f_equal.
      apply wd_ids_other; [exact S3|]. rewrite S4. apply lookup_delete_ne. exact Hab. }
    rewrite Hids in I1, I2.
    split; [|split].
    + rewrite I1, S1. cbn [ru_filter ru_born ru_rib]. f_equal.
      rewrite (removed_ids_flat _ (a :: keys)). cbn [flat_map]. rewrite wdall_app, <- removed_ids_flat. reflexivity.
    + rewrite I2, S2. destruct (es_rib2 st) as [r2|]; [|reflexivity]. cbn [option_map ru_filter ru_born ru_rib]. f_equal. f_equal.
      rewrite (removed_ids_flat _ (a :: keys)). cbn [flat_map]. rewrite wdall_app, <- removed_ids_flat. reflexivity.
    + split; [rewrite I3; exact S3|]. split.
      { intros key. rewrite I4, S4. destruct (decide (key = a)) as [->|Hne].
        - rewrite lookup_delete. rewrite (bool_decide_true (a ∈ a :: keys)) by apply elem_of_list_here.
          destruct (bool_decide (a ∈ keys)); reflexivity.
        - rewrite lookup_delete_ne by congruence.
          destruct (decide (key ∈ keys)) as [Hin|Hin].
          + rewrite (bool_decide_true (key ∈ keys)) by exact Hin.
            rewrite (bool_decide_true (key ∈ a :: keys)) by (apply elem_of_list_further; exact Hin). reflexivity.
          + rewrite (bool_decide_false (key ∈ keys)) by exact Hin.
            rewrite (bool_decide_false (key ∈ a :: keys)) by (apply not_elem_of_cons; split; assumption). reflexivity. }
      split; [rewrite I5; exact S5|]. split; [rewrite I6; exact S6|]. split; [rewrite I7; exact S7|].
      split; [rewrite I8; exact S8|]. split; [rewrite I9; exact S9|]. rewrite I10; exact S10.
Qed.

Definition unit1_keys (g : N) : list N := map (src_key g) unit1_addrs.

Lemma unit1_keys_val g : unit1_keys g = [0 + 8 * g; 1 + 8 * g; 2 + 8 * g; 3 + 8 * g]%N.
Proof. reflexivity. Qed.

Lemma unit1_keys_nodup g : NoDup (unit1_keys g).
Proof.
  rewrite unit1_keys_val.
  repeat (apply NoDup_cons; split; [rewrite ?not_elem_of_cons; repeat split; try lia; apply not_elem_of_nil|]).
  apply NoDup_nil_2.
Qed.

Lemma elem_of_unit1_keys g key : key ∈ unit1_keys g <-> exists k, (k < 4)%N /\ key = (k + 8 * g)%N.
Proof.
  rewrite unit1_keys_val. rewrite !elem_of_cons, elem_of_nil. split.
  - intros [->|[->|[->|[->|[]]]]]; eexists; (split; [|reflexivity]); lia.
  - intros (k & Hk & ->).
    assert (k = 0 \/ k = 1 \/ k = 2 \/ k = 3)%N as [->|[->|[->| ->]]] by lia; auto.
Qed.

Lemma i_removal_ops_val st :
  is_run st = true -> is_want st = false -> i_removal_ops st = disc_ops (unit1_keys (is_gen st)).
Proof.
  intros Hr Hw. unfold i_removal_ops, disc_ops, unit1_keys. rewrite Hr, Hw. cbn [andb negb].
  rewrite map_map. reflexivity.
Qed.

(* e_step EReload moves neither the pipeline model's world nor unit `rib` *)
Lemma e_step_reload_keeps lg st :
  es_w (e_step lg st EReload) = es_w st /\ es_rib (e_step lg st EReload) = es_rib st /\ es_s (e_step lg st EReload) = es_s st.
Proof. repeat split. Qed.

(* What the reload that takes bmp-in out does (the code as repaired): exactly the withdrawal of the ingress ids
   registered under the routers that were connected to it - in unit `rib`, whatever it holds ... *)
Theorem removal_is_the_withdrawal_of_its_sessions st :
  is_run st = true -> is_want st = false ->
  let st' := i_step false st (IE EReload) in
  let ids := removed_ids (es_w (is_e st)) (unit1_keys (is_gen st)) in
  is_run st' = false /\
  ru_filter (es_rib (is_e st')) = ru_filter (es_rib (is_e st)) /\
  ru_rib (es_rib (is_e st')) = wdall (ru_rib (es_rib (is_e st))) ids /\
  (forall key, rib_lookup (ru_rib (es_rib (is_e st'))) key =
     if existsb (fun m => down_hits m None key) ids
     then match rib_lookup (ru_rib (es_rib (is_e st))) key with Some (_, a) => Some (false, a) | None => None end
     else rib_lookup (ru_rib (es_rib (is_e st))) key) /\
  w_reg (es_w (is_e st')) = w_reg (es_w (is_e st)) /\
  (forall key, w_routers (es_w (is_e st')) !! key =
     if bool_decide (key ∈ unit1_keys (is_gen st)) then None else w_routers (es_w (is_e st)) !! key).
Proof.
  intros Hr Hw. cbn zeta. cbn [i_step]. unfold i_remove. rewrite Hr, Hw. cbn [andb negb].
  rewrite (i_removal_ops_val st Hr Hw).
  pose proof (e_run_disconnects (unit1_keys (is_gen st)) (is_e st) (unit1_keys_nodup _)) as H. cbn zeta in H.
  destruct H as (H1 & _ & H3 & H4 & _).
  set (e1 := fold_left (e_step false) (disc_ops (unit1_keys (is_gen st))) (is_e st)) in *.
  cbn [is_run is_e andb].
  destruct (e_step_reload_keeps false e1) as (Kw & Kr & _). rewrite Kw, Kr, H1. cbn [ru_filter ru_rib].
  split; [reflexivity|]. split; [reflexivity|]. split; [reflexivity|]. split.
  - intros key. unfold wdall. apply withdraw_bulk_frame.
  - split; [exact H3|exact H4].
Qed.

(* ... and in every other RIB unit that the reload keeps (a second rib unit of unchanged type) *)
Theorem removal_reaches_second_rib st r :
  is_run st = true -> is_want st = false ->
  es_rib2 (is_e st) = Some r -> es_rib2kind (is_e st) = 1%N -> ef_rib2 (es_file (is_e st)) = 1%N ->
  es_rib2 (is_e (i_step false st (IE EReload))) =
  Some (MkRunit (ru_filter r) (ru_born r) (wdall (ru_rib r) (removed_ids (es_w (is_e st)) (unit1_keys (is_gen st))))).
Proof.
  intros Hr Hw H2 Hk Hf. cbn [i_step]. unfold i_remove. rewrite Hr, Hw. cbn [andb negb].
  rewrite (i_removal_ops_val st Hr Hw).
  pose proof (e_run_disconnects (unit1_keys (is_gen st)) (is_e st) (unit1_keys_nodup _)) as H. cbn zeta in H.
  destruct H as (_ & H2' & _ & _ & _ & H6 & _ & _ & H9 & _).
  set (e1 := fold_left (e_step false) (disc_ops (unit1_keys (is_gen st))) (is_e st)) in *.
  cbn [is_e]. cbn [e_step es_rib2]. rewrite H9, H6, Hk, Hf. cbn [N.eqb Pos.eqb andb].
  rewrite H2', H2. reflexivity.
Qed.

(* the routes of the removed unit's sessions: every record the RIB holds under an ingress id that is registered under
   a router connected to bmp-in is reported withdrawn afterwards, with the attributes it had *)
Theorem removed_unit_withdraws_its_routes st k rid s id key :
  is_run st = true -> is_want st = false ->
  (k < 4)%N -> w_routers (es_w (is_e st)) !! (k + 8 * is_gen st)%N = Some (rid, s) ->
  id ∈ reg_ids_for_parent (w_reg (es_w (is_e st))) rid ->
  k_mui key = id -> (k_fam key < 4)%N ->
  rib_lookup (ru_rib (es_rib (is_e (i_step false st (IE EReload))))) key =
  match rib_lookup (ru_rib (es_rib (is_e st))) key with Some (_, a) => Some (false, a) | None => None end.
Proof.
  intros Hr Hw Hk Hs Hid Hm Hf.
  destruct (removal_is_the_withdrawal_of_its_sessions st Hr Hw) as (_ & _ & _ & H & _). cbn zeta in H.
  rewrite H. replace (existsb _ _) with true; [reflexivity|]. symmetry.
  apply existsb_exists. exists id. split.
  - rewrite removed_ids_flat. apply in_flat_map. exists (k + 8 * is_gen st)%N. split.
    + apply elem_of_list_In, elem_of_unit1_keys. exists k. split; [exact Hk|reflexivity].
    + unfold wd_ids. rewrite Hs. apply elem_of_list_In. exact Hid.
  - unfold down_hits. rewrite bool_decide_true by exact Hm. rewrite bool_decide_true by exact Hf. reflexivity.
Qed.

(* ... and nothing else: a record whose ingress id is not registered under one of those routers is reported as
   before, the sessions of the other ingress unit (and their ids) are what they were, the register is untouched *)
Theorem removal_spares_other_ingresses st :
  is_run st = true -> is_want st = false ->
  let st' := i_step false st (IE EReload) in
  (forall key,
     (forall k rid s, (k < 4)%N -> w_routers (es_w (is_e st)) !! (k + 8 * is_gen st)%N = Some (rid, s) ->
                      k_mui key ∉ reg_ids_for_parent (w_reg (es_w (is_e st))) rid) ->
     rib_lookup (ru_rib (es_rib (is_e st'))) key = rib_lookup (ru_rib (es_rib (is_e st))) key) /\
  (forall k, on_unit1 k = false -> (k < 8)%N -> w_routers (es_w (is_e st')) !! k = w_routers (es_w (is_e st)) !! k) /\
  w_reg (es_w (is_e st')) = w_reg (es_w (is_e st)).
Proof.
  intros Hr Hw. cbn zeta.
  destruct (removal_is_the_withdrawal_of_its_sessions st Hr Hw) as (_ & _ & _ & H & Hreg & Hrt). cbn zeta in H, Hrt.
  split; [|split; [|exact Hreg]].
  - intros key Hno. rewrite H. replace (existsb _ _) with false; [reflexivity|]. symmetry.
    apply not_true_is_false. intros Hex. apply existsb_exists in Hex as (m & Hin & Hd).
    rewrite removed_ids_flat in Hin. apply in_flat_map in Hin as (kk & Hkk & Hin).
    apply elem_of_list_In, elem_of_unit1_keys in Hkk as (k & Hk & ->).
    unfold wd_ids in Hin. destruct (w_routers (es_w (is_e st)) !! (k + 8 * is_gen st)%N) as [[rid s]|] eqn:E; [|destruct Hin].
    apply (Hno k rid s Hk E). apply elem_of_list_In.
    unfold down_hits in Hd. apply andb_true_iff in Hd as [Hd _]. apply bool_decide_eq_true in Hd. rewrite Hd. exact Hin.
  - intros k Hu Hk8. rewrite Hrt. rewrite bool_decide_false; [reflexivity|].
    intros Hin. apply elem_of_unit1_keys in Hin as (k' & Hk' & ->).
    unfold on_unit1 in Hu. apply N.ltb_ge in Hu. lia.
Qed.

(* ---- the reload that puts bmp-in back ---- *)

(* it starts a NEW unit: the unit registers an ingress id of its own (the register's next), it is the next incarnation,
   and nothing else moves - the RIB units keep what they hold (the withdrawn routes of the earlier unit's sessions
   stay withdrawn), the sessions of the other ingress unit go on *)
Theorem added_unit_is_a_new_parent lg st :
  is_run st = false -> is_want st = true ->
  let st' := i_step lg st (IE EReload) in
  is_run st' = true /\ is_gen st' = (is_gen st + 1)%N /\
  is_uid st' = serial (w_reg (es_w (is_e st))) /\
  es_rib (is_e st') = es_rib (is_e st) /\
  w_routers (es_w (is_e st')) = w_routers (es_w (is_e st)) /\
  infos (w_reg (es_w (is_e st'))) = infos (w_reg (es_w (is_e st))).
Proof.
  intros Hr Hw. cbn zeta. cbn [i_step]. unfold i_remove. rewrite Hr, Hw. cbn [andb negb].
  destruct (e_step_reload_keeps false (is_e st)) as (Kw & Kr & _).
  unfold reg_register. rewrite Kw. cbn [is_run is_gen is_uid is_e es_map_w es_rib es_w w_set_reg w_routers w_reg infos].
  rewrite Kr. repeat split.
Qed.

(* ---- no unit, no sessions: over all histories ---- *)

Definition unit1_key (key : N) : bool := (key mod 8 <? 4)%N.

(* every session of a router of bmp-in belongs to the unit that runs *)
Definition sessions_ok (st : istate) : Prop :=
  forall key, is_Some (w_routers (es_w (is_e st)) !! key) -> unit1_key key = true ->
              is_run st = true /\ key ∈ unit1_keys (is_gen st).

Lemma wstep_routers_dom w o key :
  is_Some (w_routers (wstep w o).1 !! key) -> is_Some (w_routers w !! key) \/ o = WConnect key.
Proof.
  destruct o as [k|k m|k|b|b u|b|af pfx|k]; cbn [wstep].
  - destruct (find_or_register _ _ _) as [rid r']. cbn [fst w_routers].
    destruct (decide (key = k)) as [->|Hne]; [right; reflexivity|]. rewrite lookup_insert_ne by congruence. left. assumption.
  - destruct (w_routers w !! k) as [[rid s]|] eqn:E; [|left; assumption].
    destruct (sm_step _ _ _ _) as [[r' s'] out]. cbn [fst w_routers].
    destruct (decide (key = k)) as [->|Hne]; [left; rewrite E; eauto|]. rewrite lookup_insert_ne by congruence. left. assumption.
  - destruct (w_routers w !! k) as [[rid s]|] eqn:E; [|left; assumption]. cbn [fst w_routers].
    destruct (decide (key = k)) as [->|Hne]; [rewrite lookup_delete; intros [x Hx]; discriminate|].
    rewrite lookup_delete_ne by congruence. left. assumption.
  - destruct (reg_register _) as [id r']. left. assumption.
  - destruct (w_bgp w !! b) as [[id c]|]; [|left; assumption]. destruct u; left; assumption.
  - destruct (w_bgp w !! b) as [[id c]|]; left; assumption.
  - left. assumption.
  - left. assumption.
Qed.

Lemma src_key_unit1 g k : (k < 8)%N -> unit1_key (src_key g k) = on_unit1 k.
Proof.
  intros Hk. unfold unit1_key, src_key, on_unit1. destruct (k <? 4)%N eqn:E.
  - apply N.ltb_lt in E. replace ((k + 8 * g) mod 8)%N with k; [apply N.ltb_lt; exact E|].
    rewrite N.mul_comm, N.mod_add by lia. symmetry. apply N.mod_small. lia.
  - apply N.ltb_ge in E. rewrite N.mod_small by lia. apply N.ltb_ge. exact E.
Qed.

Lemma unit1_keys_unit1 g key : key ∈ unit1_keys g -> unit1_key key = true.
Proof.
  intros (k & Hk & ->)%elem_of_unit1_keys. unfold unit1_key.
  rewrite N.mul_comm, N.mod_add by lia. rewrite N.mod_small by lia. apply N.ltb_lt. exact Hk.
Qed.

Lemma i_step_sessions_ok st o : sessions_ok st -> sessions_ok (i_step false st o).
Proof.
  intros Inv. destruct o as [[wo|s|y|nv|]|b]; cbn [i_step]; try exact Inv.
  - (* traffic *)
    destruct (wop_router wo) as [k|] eqn:Ek.
    + destruct (8 <=? k)%N eqn:E8; [exact Inv|]. apply N.leb_gt in E8.
      destruct (on_unit1 k && negb (is_run st)) eqn:Eg; [exact Inv|].
      intros key Hs Hu. cbn [is_e is_run is_gen] in *. rewrite e_step_w in Hs.
      apply wstep_routers_dom in Hs as [Hs|Hc].
      * apply (Inv key); assumption.
      * assert (key = src_key (is_gen st) k) as ->.
        { destruct wo; cbn [wop_router] in Ek; try discriminate; cbn [wop_rekey] in Hc; injection Ek as ->; congruence. }
        rewrite src_key_unit1 in Hu by exact E8. rewrite Hu in Eg. cbn [andb] in Eg.
        apply negb_false_iff in Eg. split; [exact Eg|].
        apply elem_of_unit1_keys. exists k. unfold on_unit1 in Hu. apply N.ltb_lt in Hu.
        split; [exact Hu|]. unfold src_key, on_unit1. apply N.ltb_lt in Hu. rewrite Hu. reflexivity.
    + intros key Hs Hu. cbn [is_e is_run is_gen] in *. rewrite e_step_w in Hs.
      apply wstep_routers_dom in Hs as [Hs|Hc]; [apply (Inv key); assumption|].
      rewrite Hc in Ek. discriminate.
  - (* reload *)
    destruct (is_run st) eqn:Hr, (is_want st) eqn:Hw; cbn [negb andb].
    + (* runs and stays *) unfold i_remove. rewrite Hr, Hw. cbn [andb negb].
      intros key Hs Hu. cbn [is_e is_run is_gen] in *.
      destruct (Inv key Hs Hu) as [_ Hin]. split; [reflexivity|exact Hin].
    + (* taken out *)
      pose proof (removal_is_the_withdrawal_of_its_sessions st Hr Hw) as H. cbn zeta in H. cbn [i_step] in H.
      rewrite Hr, Hw in H. cbn [negb andb] in H. destruct H as (_ & _ & _ & _ & _ & Hrt). cbn [is_e] in Hrt.
      intros key Hs Hu. cbn [is_e is_run is_gen] in *. rewrite Hrt in Hs.
      destruct (bool_decide (key ∈ unit1_keys (is_gen st))) eqn:Eb; [destruct Hs as [x Hx]; discriminate|].
      apply bool_decide_eq_false in Eb. destruct (Inv key Hs Hu) as [_ Hin]. contradiction.
    + (* put back *) unfold i_remove. rewrite Hr, Hw. cbn [andb negb].
      destruct (reg_register _) as [uid r'] eqn:Er.
      intros key Hs Hu. cbn [is_e is_run is_gen es_map_w es_w w_set_reg w_routers] in *.
      destruct (Inv key Hs Hu) as [Hf _]. congruence.
    + unfold i_remove. rewrite Hr, Hw. cbn [andb negb].
      intros key Hs Hu. cbn [is_e is_run is_gen] in *.
      destruct (Inv key Hs Hu) as [Hf _]. congruence.
Qed.

Lemma i_init_sessions_ok s0 n0 : sessions_ok (i_init s0 n0).
Proof. intros key [x Hx]. cbn in Hx. rewrite lookup_empty in Hx. discriminate. Qed.

Lemma i_run_sessions_ok h : forall st, sessions_ok st -> sessions_ok (i_run false st h).
Proof.
  induction h as [|o h IH]; intros st H; [exact H|]. cbn [i_run fold_left]. apply IH, i_step_sessions_ok, H.
Qed.

(* after every history of traffic, edits and reloads (removals and returns of bmp-in among them): while no bmp-in unit
   runs, no router of bmp-in has a session - of any incarnation; and the sessions there are belong to the unit that runs *)
Theorem no_unit_no_sessions s0 n0 h key :
  let st := i_run false (i_init s0 n0) h in
  unit1_key key = true ->
  (is_run st = false -> w_routers (es_w (is_e st)) !! key = None) /\
  (is_Some (w_routers (es_w (is_e st)) !! key) -> key ∈ unit1_keys (is_gen st)).
Proof.
  cbn zeta. intros Hu. pose proof (i_run_sessions_ok h _ (i_init_sessions_ok s0 n0)) as Inv. split.
  - intros Hr. destruct (w_routers _ !! key) as [x|] eqn:E; [|reflexivity].
    destruct (Inv key (ex_intro _ x E) Hu) as [Hr' _]. congruence.
  - intros Hs. apply (Inv key Hs Hu).
Qed.

(* GET of the router list: nothing answers for a unit that does not run *)
Theorem router_list_goes_with_the_unit st : is_run st = false -> i_listed st 0 = None.
Proof. intros Hr. unfold i_listed. cbn [N.eqb]. rewrite Hr. reflexivity. Qed.

(* ---- the property's reading of the removal ---- *)

Definition wdn' (o : option (bool * N)) : option (bool * N) :=
  match o with Some v => Some (false, v.2) | None => None end.

Lemma ideal_down_lookup' (rb : gmap (N * N * wid) (bool * N)) ws key :
  ideal_down rb ws !! key = if ws key.2 then wdn' (rb !! key) else rb !! key.
Proof.
  unfold ideal_down. rewrite map_lookup_imap. destruct (rb !! key) as [v|]; cbn; [|destruct (ws key.2); reflexivity].
  destruct (ws key.2); reflexivity.
Qed.

Lemma e_step_disconnect_spec st key :
  es_s (e_step false st (EW (WDisconnect key))) = (sstep (es_s st) (WDisconnect key)).1.
Proof. cbn [e_step]. destruct (wstep (es_w st) (WDisconnect key)) as [w' out]. reflexivity. Qed.

Lemma sstep_disconnect_spec sw key :
  s_sess (sstep sw (WDisconnect key)).1 = delete key (s_sess sw) /\
  forall f p x, s_rib (sstep sw (WDisconnect key)).1 !! (f, p, x) =
                if bool_decide (x.1 = key) && bool_decide (is_Some (s_sess sw !! key))
                then wdn' (s_rib sw !! (f, p, x)) else s_rib sw !! (f, p, x).
Proof.
  cbn [sstep]. destruct (s_sess sw !! key) as [v|] eqn:E; cbn [fst s_sess s_rib].
  - split; [reflexivity|]. intros f p x. rewrite ideal_down_lookup'. cbn [snd].
    rewrite (bool_decide_true (is_Some (Some v))) by eauto. rewrite andb_true_r. reflexivity.
  - split; [symmetry; apply delete_notin; exact E|]. intros f p x.
    rewrite (bool_decide_false (is_Some None)) by (intros [? ?]; discriminate). rewrite andb_false_r. reflexivity.
Qed.

(* In the property's reading the removal is the end of every session bmp-in had: the routes of every peer of those
   routers are withdrawn, attributes kept, and no other route changes *)
Lemma spec_after_disconnects keys : forall st, NoDup keys ->
  let st' := fold_left (e_step false) (disc_ops keys) st in
  (forall key, s_sess (es_s st') !! key = if bool_decide (key ∈ keys) then None else s_sess (es_s st) !! key) /\
  forall f p x, s_rib (es_s st') !! (f, p, x) =
                if bool_decide (x.1 ∈ keys) && bool_decide (is_Some (s_sess (es_s st) !! x.1))
                then wdn' (s_rib (es_s st) !! (f, p, x)) else s_rib (es_s st) !! (f, p, x).
Proof.
  induction keys as [|a keys IH]; intros st Hnd; cbn zeta.
  - cbn [disc_ops map fold_left]. split.
    + intros key. rewrite bool_decide_false by apply not_elem_of_nil. reflexivity.
    + intros f p x. rewrite (bool_decide_false (x.1 ∈ [])) by apply not_elem_of_nil. reflexivity.
  - apply NoDup_cons in Hnd as [Ha Hnd]. cbn [disc_ops map fold_left]. fold (disc_ops keys).
    specialize (IH (e_step false st (EW (WDisconnect a))) Hnd). cbn zeta in IH. destruct IH as [I1 I2].
    rewrite e_step_disconnect_spec in I1, I2.
    destruct (sstep_disconnect_spec (es_s st) a) as [S1 S2]. split.
    + intros key. rewrite I1, S1. destruct (decide (key = a)) as [->|Hne].
      * rewrite lookup_delete. rewrite (bool_decide_true (a ∈ a :: keys)) by apply elem_of_list_here.
        destruct (bool_decide (a ∈ keys)); reflexivity.
      * rewrite lookup_delete_ne by congruence. destruct (decide (key ∈ keys)) as [Hin|Hin].
        -- rewrite (bool_decide_true (key ∈ keys)) by exact Hin.
           rewrite (bool_decide_true (key ∈ a :: keys)) by (apply elem_of_list_further; exact Hin). reflexivity.
        -- rewrite (bool_decide_false (key ∈ keys)) by exact Hin.
           rewrite (bool_decide_false (key ∈ a :: keys)) by (apply not_elem_of_cons; split; assumption). reflexivity.
    + intros f p x. rewrite I2, S1, S2. destruct (decide (x.1 = a)) as [Hxa|Hne].
      * rewrite (bool_decide_true (x.1 = a)) by exact Hxa.
        rewrite (bool_decide_true (x.1 ∈ a :: keys)) by (rewrite Hxa; apply elem_of_list_here).
        rewrite (bool_decide_false (x.1 ∈ keys)) by (rewrite Hxa; exact Ha). cbn [andb]. rewrite Hxa. reflexivity.
      * rewrite (bool_decide_false (x.1 = a)) by exact Hne. cbn [andb]. rewrite lookup_delete_ne by congruence.
        destruct (decide (x.1 ∈ keys)) as [Hin|Hin].
        -- rewrite (bool_decide_true (x.1 ∈ keys)) by exact Hin.
           rewrite (bool_decide_true (x.1 ∈ a :: keys)) by (apply elem_of_list_further; exact Hin). reflexivity.
        -- rewrite (bool_decide_false (x.1 ∈ keys)) by exact Hin.
           rewrite (bool_decide_false (x.1 ∈ a :: keys)) by (apply not_elem_of_cons; split; assumption). reflexivity.
Qed.

Theorem removal_in_the_property_reading st :
  is_run st = true -> is_want st = false ->
  let st' := i_step false st (IE EReload) in
  forall f p x, s_rib (es_s (is_e st')) !! (f, p, x) =
                if bool_decide (x.1 ∈ unit1_keys (is_gen st)) && bool_decide (is_Some (s_sess (es_s (is_e st)) !! x.1))
                then wdn' (s_rib (es_s (is_e st)) !! (f, p, x)) else s_rib (es_s (is_e st)) !! (f, p, x).
Proof.
  intros Hr Hw. cbn zeta. cbn [i_step]. unfold i_remove. rewrite Hr, Hw. cbn [andb negb].
  rewrite (i_removal_ops_val st Hr Hw).
  destruct (spec_after_disconnects (unit1_keys (is_gen st)) (is_e st) (unit1_keys_nodup _)) as [_ H]. cbn zeta in H.
  intros f p x. cbn [is_e]. rewrite <- H. reflexivity.
Qed.

(* ---- the code as it was: the defect, and the repaired code on the same history ---- *)
Definition removal_witness : list iop :=
  [IE (EW (WConnect 0)); IE (EW (WMsg 0 MInit)); IE (EW (WMsg 0 (MPeerUp (0, 0, 0, 0, 1, 65001, 1)%N false)));
   IE (EW (WMsg 0 (MRoute (0, 0, 0, 0, 1, 65001, 1)%N (Some (URoutes 0 [1%N] 3 0 [])))));
   IIngress false; IE EReload].

Theorem legacy_removal_leaves_routes_refuted :
  let stl := i_run true (i_init SNone 0) removal_witness in
  let stf := i_run false (i_init SNone 0) removal_witness in
  (exists id, rib_query (ru_rib (es_rib (is_e stl))) 0 1 = [(id, true, 3%N)]) /\
  (exists id, rib_query (ru_rib (es_rib (is_e stf))) 0 1 = [(id, false, 3%N)]) /\
  ideal_query (s_rib (es_s (is_e stl))) 0 1 = [((0%N, (0, 0, 0, 0, 1, 65001, 1)%N), false, 3%N)] /\
  ideal_query (s_rib (es_s (is_e stf))) 0 1 = [((0%N, (0, 0, 0, 0, 1, 65001, 1)%N), false, 3%N)] /\
  is_run stl = false /\ w_routers (es_w (is_e stl)) !! 0%N = None.
Proof. vm_compute. split; [eexists; reflexivity|]. split; [eexists; reflexivity|]. repeat split; reflexivity. Qed.

(* non-vacuity: a router on each ingress unit, each with a route of prefix 1; bmp-in is taken out, put back, router 0
   returns and announces again: its new session is a new source (key 8), the old route stays withdrawn, the route of
   the other unit's router was never touched *)
Definition ingress_example : list iop :=
  [IE (EW (WConnect 0)); IE (EW (WConnect 4)); IE (EW (WMsg 0 MInit)); IE (EW (WMsg 4 MInit));
   IE (EW (WMsg 0 (MPeerUp (0, 0, 0, 0, 1, 65001, 1)%N false))); IE (EW (WMsg 4 (MPeerUp (0, 0, 0, 0, 1, 65001, 1)%N false)));
   IE (EW (WMsg 0 (MRoute (0, 0, 0, 0, 1, 65001, 1)%N (Some (URoutes 0 [1%N] 3 0 [])))));
   IE (EW (WMsg 4 (MRoute (0, 0, 0, 0, 1, 65001, 1)%N (Some (URoutes 0 [1%N] 4 0 [])))));
   IIngress false; IE EReload; IIngress true; IE EReload;
   IE (EW (WConnect 0)); IE (EW (WMsg 0 MInit)); IE (EW (WMsg 0 (MPeerUp (0, 0, 0, 0, 1, 65001, 1)%N false)));
   IE (EW (WMsg 0 (MRoute (0, 0, 0, 0, 1, 65001, 1)%N (Some (URoutes 0 [1%N] 5 0 [])))))].

Lemma ingress_example_ok :
  let st := i_run false (i_init SNone 0) ingress_example in
  is_run st = true /\ is_gen st = 1%N /\ i_listed st 0 = Some 1%N /\ i_listed st 1 = Some 1%N /\
  map (fun e : N * bool * N => (e.1.2, e.2)) (rib_query (ru_rib (es_rib (is_e st))) 0 1) = [(true, 5%N); (false, 3%N); (true, 4%N)] /\
  map fst (w_ids (es_w (is_e st))) =
    [(0%N, (0, 0, 0, 0, 1, 65001, 1)%N); (4%N, (0, 0, 0, 0, 1, 65001, 1)%N); (8%N, (0, 0, 0, 0, 1, 65001, 1)%N)].
Proof. vm_compute. repeat split; reflexivity. Qed.

(* ---- the same with the standard library's list membership and the readings of E2eModel (for statements that do not
   use std++ notation) ---- *)

Theorem removed_unit_withdraws_its_routes_std st k rid s id key :
  is_run st = true -> is_want st = false ->
  (k < 4)%N -> i_session st (k + 8 * is_gen st)%N = Some (rid, s) -> In id (i_children st rid) ->
  k_mui key = id -> (k_fam key < 4)%N ->
  i_rib_lookup (i_step false st (IE EReload)) key = withdrawn_of (i_rib_lookup st key).
Proof.
  intros Hr Hw Hk Hs Hid Hm Hf. unfold i_rib_lookup, withdrawn_of.
  rewrite (removed_unit_withdraws_its_routes st k rid s id key Hr Hw Hk Hs); try assumption.
  - destruct (rib_lookup _ key) as [[? ?]|]; reflexivity.
  - apply elem_of_list_In. exact Hid.
Qed.

Theorem removal_spares_other_ingresses_std st :
  is_run st = true -> is_want st = false ->
  let st' := i_step false st (IE EReload) in
  (forall key,
     (forall k rid s, (k < 4)%N -> i_session st (k + 8 * is_gen st)%N = Some (rid, s) -> ~ In (k_mui key) (i_children st rid)) ->
     i_rib_lookup st' key = i_rib_lookup st key) /\
  (forall k, (4 <= k < 8)%N -> i_session st' k = i_session st k) /\
  (forall rid, i_children st' rid = i_children st rid).
Proof.
  intros Hr Hw. cbn zeta. destruct (removal_spares_other_ingresses st Hr Hw) as (H1 & H2 & H3). cbn zeta in H1, H2.
  split; [|split].
  - intros key Hno. apply H1. intros k rid s Hk Hs Hin. apply (Hno k rid s Hk Hs). apply elem_of_list_In. exact Hin.
  - intros k [Hlo Hhi]. apply H2; [|exact Hhi]. unfold on_unit1. apply N.ltb_ge. exact Hlo.
  - intros rid. unfold i_children. rewrite H3. reflexivity.
Qed.

Theorem removal_ends_its_sessions_std st :
  is_run st = true -> is_want st = false ->
  let st' := i_step false st (IE EReload) in
  is_run st' = false /\ i_listed st' 0 = None /\ forall k, (k < 4)%N -> i_session st' (k + 8 * is_gen st)%N = None.
Proof.
  intros Hr Hw. cbn zeta.
  destruct (removal_is_the_withdrawal_of_its_sessions st Hr Hw) as (H1 & _ & _ & _ & _ & H6). cbn zeta in H6.
  split; [exact H1|]. split; [apply router_list_goes_with_the_unit, H1|].
  intros k Hk. unfold i_session. rewrite H6. rewrite bool_decide_true; [reflexivity|].
  apply elem_of_unit1_keys. exists k. split; [exact Hk|reflexivity].
Qed.

Theorem added_unit_is_a_new_parent_std lg st :
  is_run st = false -> is_want st = true ->
  let st' := i_step lg st (IE EReload) in
  is_run st' = true /\ is_gen st' = (is_gen st + 1)%N /\
  is_uid st' = serial (w_reg (es_w (is_e st))) /\
  (forall key, i_rib_lookup st' key = i_rib_lookup st key) /\
  (forall key, i_session st' key = i_session st key) /\
  (forall rid, i_children st' rid = i_children st rid).
Proof.
  intros Hr Hw. cbn zeta. destruct (added_unit_is_a_new_parent lg st Hr Hw) as (H1 & H2 & H3 & H4 & H5 & H6). cbn zeta in *.
  split; [exact H1|]. split; [exact H2|]. split; [exact H3|]. split; [|split].
  - intros key. unfold i_rib_lookup. rewrite H4. reflexivity.
  - intros key. unfold i_session. rewrite H5. reflexivity.
  - intros rid. unfold i_children, reg_ids_for_parent. rewrite H6. reflexivity.
Qed.

Theorem no_unit_no_sessions_std s0 n0 h k g :
  let st := i_run false (i_init s0 n0) h in
  (k < 4)%N ->
  (is_run st = false -> i_session st (k + 8 * g)%N = None) /\
  (i_session st (k + 8 * g)%N <> None -> is_run st = true /\ g = is_gen st).
Proof.
  cbn zeta. intros Hk.
  assert (Hu : unit1_key (k + 8 * g) = true).
  { apply (unit1_keys_unit1 g). apply elem_of_unit1_keys. exists k. split; [exact Hk|reflexivity]. }
  pose proof (i_run_sessions_ok h _ (i_init_sessions_ok s0 n0)) as Inv. unfold i_session. split.
  - intros Hr. destruct (w_routers _ !! _) as [x|] eqn:E; [|reflexivity].
    destruct (Inv _ (ex_intro _ x E) Hu) as [Hr' _]. congruence.
  - intros Hs. destruct (w_routers _ !! _) as [x|] eqn:E; [|congruence].
    destruct (Inv _ (ex_intro _ x E) Hu) as [Hr' Hin]. split; [exact Hr'|].
    apply elem_of_unit1_keys in Hin as (k' & Hk' & Heq). nia.
Qed.

Lemma wdn'_withdrawn_of o : wdn' o = withdrawn_of o.
Proof. destruct o as [[? ?]|]; reflexivity. Qed.

Theorem removal_in_the_property_reading_std st :
  is_run st = true -> is_want st = false ->
  let st' := i_step false st (IE EReload) in
  forall f p (x : wid),
    i_spec_lookup st' f p x =
    if (existsb (N.eqb (fst x)) (map (fun k => k + 8 * is_gen st)%N [0; 1; 2; 3]%N)) && i_spec_session st (fst x)
    then withdrawn_of (i_spec_lookup st f p x) else i_spec_lookup st f p x.
Proof.
  intros Hr Hw. cbn zeta. intros f p x.
  pose proof (removal_in_the_property_reading st Hr Hw) as H. cbn zeta in H. specialize (H f p x).
  unfold i_spec_lookup, i_spec_session. etransitivity; [exact H|]. clear H.
  assert (E1 : bool_decide (x.1 ∈ unit1_keys (is_gen st)) = existsb (N.eqb (fst x)) (map (fun k => k + 8 * is_gen st)%N [0; 1; 2; 3]%N)).
  { apply bool_ext_iff. rewrite bool_decide_eq_true, existsb_exists. rewrite elem_of_unit1_keys. split.
    - intros (k & Hk & ->). exists (k + 8 * is_gen st)%N. split; [|apply N.eqb_refl].
      apply in_map_iff. exists k. split; [reflexivity|]. cbn. lia.
    - intros (y & Hy & He). apply N.eqb_eq in He. subst y. apply in_map_iff in Hy as (k & <- & Hk).
      exists k. split; [cbn in Hk; lia|reflexivity]. }
  assert (E2 : bool_decide (is_Some (s_sess (es_s (is_e st)) !! x.1)) = match s_sess (es_s (is_e st)) !! x.1 with Some _ => true | None => false end).
  { destruct (s_sess _ !! x.1); [apply bool_decide_true; eauto|apply bool_decide_false; intros [? ?]; discriminate]. }
  rewrite E1, E2.
  destruct (_ && _); [apply wdn'_withdrawn_of|reflexivity].
Qed.

(* the removal, as every RIB unit that lives through the reload takes it: ONE WithdrawBulk of the ingress ids registered
   under the routers that were connected to bmp-in (what the clean-up of each of their connections sends, together) *)
Theorem removal_is_one_bulk_withdrawal_std st :
  is_run st = true -> is_want st = false ->
  let st' := i_step false st (IE EReload) in
  let ids := removed_ids (es_w (is_e st)) (map (src_key (is_gen st)) unit1_addrs) in
  ru_rib (es_rib (is_e st')) = rib_apply (ru_rib (es_rib (is_e st))) (UWithdrawBulk ids) /\
  ru_filter (es_rib (is_e st')) = ru_filter (es_rib (is_e st)) /\
  forall r, es_rib2 (is_e st) = Some r -> es_rib2kind (is_e st) = 1%N -> ef_rib2 (es_file (is_e st)) = 1%N ->
    es_rib2 (is_e st') = Some (MkRunit (ru_filter r) (ru_born r) (rib_apply (ru_rib r) (UWithdrawBulk ids))).
Proof.
  intros Hr Hw. cbn zeta.
  destruct (removal_is_the_withdrawal_of_its_sessions st Hr Hw) as (_ & H2 & H3 & _). cbn zeta in H3.
  split; [exact H3|]. split; [exact H2|].
  intros r H Hk Hf. apply (removal_reaches_second_rib st r Hr Hw H Hk Hf).
Qed.

Theorem legacy_removal_leaves_routes_refuted_std :
  let stl := i_run true (i_init SNone 0) removal_witness in
  let stf := i_run false (i_init SNone 0) removal_witness in
  (exists id, rib_query (ru_rib (es_rib (is_e stl))) 0 1 = [(id, true, 3%N)]) /\
  (exists id, rib_query (ru_rib (es_rib (is_e stf))) 0 1 = [(id, false, 3%N)]) /\
  ideal_query (s_rib (es_s (is_e stl))) 0 1 = [((0%N, (0, 0, 0, 0, 1, 65001, 1)%N), false, 3%N)] /\
  ideal_query (s_rib (es_s (is_e stf))) 0 1 = [((0%N, (0, 0, 0, 0, 1, 65001, 1)%N), false, 3%N)] /\
  is_run stl = false /\ i_session stl 0%N = None.
Proof. exact legacy_removal_leaves_routes_refuted. Qed.

(* ---- a router of the unit that a reload has just started is a NEW source ---- *)

(* The first connection of a router address to the bmp-in unit that a reload has started: the unit looks the router
   up under ITS OWN ingress id, which no earlier source has as parent - nothing is found, the router is registered
   afresh: it gets the register's next id, an id that no source had (so none of the ids whose routes the removal
   withdrew is used again, and known finding C03-1 - the sticky withdrawn marker of a REUSED id - cannot apply to what
   it announces) *)
Theorem router_of_added_unit_is_a_new_source lg st k :
  is_run st = false -> is_want st = true -> (k < 4)%N ->
  next_id_unused (w_reg (es_w (is_e st))) ->
  let st1 := i_step lg st (IE EReload) in
  let st2 := i_step lg st1 (IE (EW (WConnect k))) in
  is_uid st1 = serial (w_reg (es_w (is_e st))) /\
  i_rid st2 k = Some (serial (w_reg (es_w (is_e st1)))).
Proof.
  intros Hr Hw Hk Hnext. cbn zeta.
  destruct (added_unit_is_a_new_parent lg st Hr Hw) as (H1 & H2 & H3 & _ & _ & H6). cbn zeta in *.
  set (st1 := i_step lg st (IE EReload)) in *. split; [exact H3|].
  assert (Hon : on_unit1 k = true) by (apply N.ltb_lt; exact Hk).
  assert (H8 : (8 <=? k)%N = false) by (apply N.leb_gt; lia).
  unfold i_rid. cbn [i_step wop_router]. rewrite H8, Hon, H1. cbn [andb negb is_e is_gen].
  cbn [wop_rekey e_step]. cbn [es_map_w es_w]. cbn [wstep w_set_unit w_reg w_unit].
  set (r1 := w_reg (es_w (is_e st1))) in *.
  set (key := src_key (is_gen st1) k).
  assert (Hnone : reg_find_all router_match r1 (router_query (is_uid st1) key) = []).
  { destruct (reg_find_all router_match r1 (router_query (is_uid st1) key)) as [|id l] eqn:E; [reflexivity|].
    assert (Hin : id ∈ reg_find_all router_match r1 (router_query (is_uid st1) key)) by (rewrite E; apply elem_of_list_here).
    apply elem_of_find_all in Hin as (inf & Hinf & Hm). apply router_match_spec in Hm as (_ & Hp & _).
    cbn [router_query i_parent] in Hp. rewrite H3 in Hp. rewrite H6 in Hinf.
    exfalso. apply (Hnext id inf Hinf Hp). }
  unfold find_or_register. rewrite Hnone. unfold reg_register. cbn [fst snd es_w w_routers].
  fold key. rewrite lookup_insert. reflexivity.
Qed.

(* ------------------------------------------------------------------ *)
(* The bgp-tcp-in unit in the pipeline (E2eModel, last part).          *)

(* what the unit holds is the file of the latest load - from the operations alone *)
Lemma b_run_cfg h : forall st,
  bs_cfg (b_run st h) = b_loaded (bs_file st) (bs_cfg st) h /\
  bs_file (b_run st h) = fold_left bcfg_edit h (bs_file st).
Proof.
  induction h as [|o h IH]; intros st; [split; reflexivity|].
  cbn [b_run fold_left]. fold (b_run (b_step st o) h).
  destruct (IH (b_step st o)) as [IH1 IH2]. rewrite IH1, IH2. clear IH IH1 IH2.
  destruct o as [e|k v|a|k|k u|k|unh]; cbn [b_loaded bcfg_edit].
  - destruct e; split; reflexivity.
  - split; reflexivity.
  - split; reflexivity.
  - cbn [b_step]. destruct (negb (is_bgp_addr k)); [split; reflexivity|].
    destruct (bs_sess st !! k); [split; reflexivity|].
    destruct (bc_peers (bs_cfg st) !! k); split; reflexivity.
  - cbn [b_step]. destruct (bs_sess st !! k); split; reflexivity.
  - cbn [b_step]. destruct (bs_sess st !! k); split; reflexivity.
  - split; reflexivity.
Qed.

(* who is accepted = the peer table of the configuration of the latest load, whatever happened before *)
Theorem bgp_accepts_by_current_peer_table st0 h k :
  let st := b_run st0 h in
  let c := b_loaded (bs_file st0) (bs_cfg st0) h in
  is_bgp_addr k = true -> bs_sess st !! k = None ->
  bs_sess (b_step st (BOpen k)) !! k = option_map (fun v => (bc_asn c, v)) (bc_peers c !! k) /\
  bs_accepted (b_step st (BOpen k)) = (bs_accepted st + 1)%N /\
  (forall j, j <> k -> bs_sess (b_step st (BOpen k)) !! j = bs_sess st !! j).
Proof.
  intros st c Hk Hnone. subst c. rewrite <- (proj1 (b_run_cfg h st0)). fold st.
  cbn [b_step]. rewrite Hk. cbn [negb]. rewrite Hnone.
  destruct (bc_peers (bs_cfg st) !! k) as [v|]; cbn [bs_sess bs_accepted option_map].
  - rewrite lookup_insert. split; [reflexivity|]. split; [reflexivity|].
    intros j Hj. rewrite lookup_insert_ne by congruence. reflexivity.
  - rewrite Hnone. split; [reflexivity|]. split; [reflexivity|]. reflexivity.
Qed.

(* the end of one session: the store of `rib` changes under that session's ingress id only; every other session is what it was *)
Lemma runit_see_withdraw r id w :
  runit_see r (WoStep (OUpdate (UWithdraw id None)) w) =
  MkRunit (ru_filter r) (ru_born r) (rib_withdraw_mui (ru_rib r) id None).
Proof. reflexivity. Qed.

Theorem bgp_session_end_spares_other_peers st k sv id c :
  bs_sess st !! k = Some sv -> w_bgp (b_world st) !! k = Some (id, c) ->
  let st' := b_step st (BClose k) in
  (forall key, k_mui key <> id -> b_rib_lookup st' key = b_rib_lookup st key) /\
  (forall key, k_mui key = id -> (k_fam key < 4)%N -> b_rib_lookup st' key = withdrawn_of (b_rib_lookup st key)) /\
  (forall j, j <> k -> w_bgp (b_world st') !! j = w_bgp (b_world st) !! j /\ bs_sess st' !! j = bs_sess st !! j) /\
  w_bgp (b_world st') !! k = None /\ bs_sess st' !! k = None.
Proof.
  intros Hs Hw st'. subst st'. unfold b_rib_lookup, b_world in *. cbn [b_step]. rewrite Hs. cbn [bs_e bs_sess].
  cbn [e_step]. cbn [wstep]. rewrite Hw. cbn [es_rib es_w w_bgp].
  rewrite runit_see_withdraw. cbn [ru_rib].
  split; [|split; [|split; [|split]]].
  - intros key Hne. rewrite withdraw_mui_frame. unfold down_hits.
    rewrite bool_decide_eq_false_2 by exact Hne. reflexivity.
  - intros key He Hf. rewrite withdraw_mui_frame. unfold down_hits.
    rewrite bool_decide_eq_true_2 by exact He. rewrite bool_decide_eq_true_2 by exact Hf. reflexivity.
  - intros j Hj. rewrite !lookup_delete_ne by congruence. split; reflexivity.
  - apply lookup_delete.
  - apply lookup_delete.
Qed.

(* a connection that is accepted gets the register's next id: no live session has it (proviso: ids are handed out in order) *)
Theorem bgp_accepted_session_has_fresh_id st k v :
  is_bgp_addr k = true -> bs_sess st !! k = None -> bc_peers (bs_cfg st) !! k = Some v -> bgp_next_id_unused st ->
  let st' := b_step st (BOpen k) in
  b_session_id st' k = Some (serial (w_reg (b_world st))) /\
  (forall j, j <> k -> b_session_id st' j = b_session_id st j /\ b_session_id st' j <> b_session_id st' k \/ b_session_id st j = None).
Proof.
  intros Hk Hn Hp Hfresh st'. subst st'. unfold b_session_id, b_world in *. cbn [b_step]. rewrite Hk. cbn [negb]. rewrite Hn, Hp.
  cbn [bs_e e_step wstep]. unfold reg_register. cbn [es_w w_bgp]. rewrite lookup_insert. split; [reflexivity|].
  intros j Hj. rewrite lookup_insert_ne by congruence.
  destruct (w_bgp (es_w (bs_e st)) !! j) as [[id c]|] eqn:E; [left|right; reflexivity].
  split; [reflexivity|]. intros Heq. inversion Heq as [H1]. exact (Hfresh j id c E H1).
Qed.

(* the race of a session that a load ends, refuted and partial *)
Definition b_refute_hist (unh : list N) : list bop :=
  [BOpen 0; BOpen 1; BUpd 0 (URoutes 0 [1%N] 3 0 []); BUpd 1 (URoutes 0 [1%N] 4 0 []); BPeer 0 None; BReload unh].

Theorem bgp_reload_end_unheard_refuted :
  let st := b_run (b_init SNone 0) (b_refute_hist [0%N]) in
  b_live st = [1%N] /\
  b_rib_lookup st (0, 1, 2)%N = Some (true, 3%N) /\
  b_spec_lookup st 0 1 (bgp_wid 0 0) = Some (false, 3%N) /\
  b_rib_lookup st (0, 1, 3)%N = Some (true, 4%N).
Proof. vm_compute. repeat split; reflexivity. Qed.

Theorem bgp_reload_heard_example :
  let st := b_run (b_init SNone 0) (b_refute_hist []) in
  b_live st = [1%N] /\
  b_rib_lookup st (0, 1, 2)%N = Some (false, 3%N) /\
  b_spec_lookup st 0 1 (bgp_wid 0 0) = Some (false, 3%N) /\
  b_rib_lookup st (0, 1, 3)%N = Some (true, 4%N) /\
  bs_disc st = 1%N /\
  b_sess_of (b_step st (BOpen 0)) 0 = None /\ bs_accepted (b_step st (BOpen 0)) = 3%N.
Proof. vm_compute. repeat split; reflexivity. Qed.

(* the statements again without std++ notation (for the Props files) *)
Theorem bgp_accepts_by_current_peer_table_std st0 h k :
  let st := b_run st0 h in
  let c := b_loaded (bs_file st0) (bs_cfg st0) h in
  is_bgp_addr k = true -> b_sess_of st k = None ->
  b_sess_of (b_step st (BOpen k)) k = option_map (fun v => (bc_asn c, v)) (b_peer_of c k) /\
  bs_accepted (b_step st (BOpen k)) = (bs_accepted st + 1)%N /\
  (forall j, j <> k -> b_sess_of (b_step st (BOpen k)) j = b_sess_of st j).
Proof. exact (bgp_accepts_by_current_peer_table st0 h k). Qed.

Theorem bgp_session_end_spares_other_peers_std st k sv id :
  b_sess_of st k = Some sv -> b_session_id st k = Some id ->
  let st' := b_step st (BClose k) in
  (forall key, k_mui key <> id -> b_rib_lookup st' key = b_rib_lookup st key) /\
  (forall key, k_mui key = id -> (k_fam key < 4)%N -> b_rib_lookup st' key = withdrawn_of (b_rib_lookup st key)) /\
  (forall j, j <> k -> b_session_id st' j = b_session_id st j /\ b_sess_of st' j = b_sess_of st j) /\
  b_session_id st' k = None /\ b_sess_of st' k = None.
Proof.
  intros Hs Hid. unfold b_session_id in Hid. destruct (w_bgp (b_world st) !! k) as [[id' c]|] eqn:E; [|discriminate].
  inversion Hid; subst id'. destruct (bgp_session_end_spares_other_peers st k sv id c Hs E) as (H1 & H2 & H3 & H4 & H5).
  split; [exact H1|]. split; [exact H2|]. split.
  - intros j Hj. destruct (H3 j Hj) as [Ha Hb]. unfold b_session_id. rewrite Ha. split; [reflexivity|exact Hb].
  - unfold b_session_id. rewrite H4. split; [reflexivity|exact H5].
Qed.

Theorem bgp_accepted_session_has_fresh_id_std st k v :
  is_bgp_addr k = true -> b_sess_of st k = None -> b_peer_of (bs_cfg st) k = Some v ->
  (forall j id, b_session_id st j = Some id -> id <> serial (w_reg (b_world st))) ->
  let st' := b_step st (BOpen k) in
  b_session_id st' k = Some (serial (w_reg (b_world st))) /\
  (forall j id, j <> k -> b_session_id st j = Some id -> b_session_id st' j = Some id /\ b_session_id st' j <> b_session_id st' k).
Proof.
  intros Hk Hn Hp Hf.
  assert (Hfresh : bgp_next_id_unused st).
  { intros j id c E. apply (Hf j id). unfold b_session_id. rewrite E. reflexivity. }
  destruct (bgp_accepted_session_has_fresh_id st k v Hk Hn Hp Hfresh) as [H1 H2].
  split; [exact H1|]. intros j id Hj Hid. destruct (H2 j Hj) as [[Ha Hb]|Hc].
  - rewrite Ha. split; [exact Hid|]. rewrite <- Ha. exact Hb.
  - rewrite Hc in Hid. discriminate.
Qed.

(* ------------------------------------------------------------------ *)
(* A second connection of a connected router (E2eModel, fifth part).   *)

(* the accept loop hands out the id the register holds for (unit, address) - whatever router_states holds *)
Theorem reconnect_keeps_id_world w k rid rest :
  reg_find_routers (w_reg w) (router_query (w_unit w) k) = rid :: rest ->
  let w' := (wstep w (WConnect k)).1 in
  w_routers w' !! k = Some (rid, sm_init) /\ w_reg w' = w_reg w /\
  (forall j, j <> k -> w_routers w' !! j = w_routers w !! j).
Proof.
  intros Hf w'. subst w'. cbn [wstep]. unfold find_or_register. unfold reg_find_routers in Hf. rewrite Hf.
  cbn [fst w_routers w_reg]. split; [apply lookup_insert|]. split; [reflexivity|].
  intros j Hj. apply lookup_insert_ne. congruence.
Qed.

Theorem reconnect_before_cleanup_keeps_id st k rid s :
  d_live st k = Some (rid, s) -> d_old st k = None ->
  reg_find_routers (w_reg (es_w (ds_e st))) (router_query (w_unit (es_w (ds_e st))) k) = [rid] ->
  let st' := d_step st (DSecond k) in
  d_rid st' k = Some rid /\ d_old st' k = Some rid /\
  w_reg (es_w (ds_e st')) = w_reg (es_w (ds_e st)) /\
  reg_find_routers (w_reg (es_w (ds_e st'))) (router_query (w_unit (es_w (ds_e st'))) k) = [rid] /\
  reg_ids_for_parent (w_reg (es_w (ds_e st'))) (w_unit (es_w (ds_e st'))) = reg_ids_for_parent (w_reg (es_w (ds_e st))) (w_unit (es_w (ds_e st))).
Proof.
  intros Hl Ho Hf st'. subst st'. unfold d_old in *. cbn [d_step]. rewrite Hl, Ho.
  unfold d_rid, d_live, d_old. cbn [ds_e ds_old]. rewrite e_step_w.
  destruct (reconnect_keeps_id_world (es_w (ds_e st)) k rid [] Hf) as (H1 & H2 & _).
  rewrite H1, H2. split; [reflexivity|]. split; [apply lookup_insert|]. split; [reflexivity|].
  assert (Hu : w_unit (wstep (es_w (ds_e st)) (WConnect k)).1 = w_unit (es_w (ds_e st))).
  { cbn [wstep]. destruct (find_or_register _ _ _). reflexivity. }
  rewrite Hu. split; [exact Hf|reflexivity].
Qed.

(* seeded change C14-c2 as a model: two ids for one (unit, address) *)
Theorem reuse_only_when_not_live_refuted :
  let w1 := (wstep world_init (WConnect 0)).1 in
  let '(id2, r2) := accept_guarded w1 0 in
  option_map fst (w_routers w1 !! 0%N) = Some 2%N /\ id2 = 3%N /\
  length (reg_find_routers r2 (router_query (w_unit w1) 0)) = 2%nat /\
  length (reg_ids_for_parent r2 (w_unit w1)) = 2%nat /\
  option_map fst (w_routers (wstep w1 (WConnect 0)).1 !! 0%N) = Some 2%N /\ w_reg (wstep w1 (WConnect 0)).1 = w_reg w1.
Proof. vm_compute. repeat split; reflexivity. Qed.

(* the unchanged code when the OLD connection ends after the new one is up: known finding C14-old-task-removes-new-session *)
Definition d_example : list dop :=
  [DE (EW (WConnect 0)); DE (EW (WMsg 0 MInit)); DE (EW (WMsg 0 (MPeerUp (0, 0, 0, 0, 1, 65001, 1)%N false)));
   DE (EW (WMsg 0 (MRoute (0, 0, 0, 0, 1, 65001, 1)%N (Some (URoutes 0 [1%N] 3 0 [])))));
   DSecond 0; DE (EW (WMsg 0 MInit)); DE (EW (WMsg 0 (MPeerUp (0, 0, 0, 0, 1, 65001, 1)%N false)));
   DE (EW (WMsg 0 (MRoute (0, 0, 0, 0, 1, 65001, 1)%N (Some (URoutes 0 [2%N] 4 0 [])))))].

Theorem old_task_removes_new_session_refuted :
  let st := d_run (d_init SNone 0) (d_example ++ [DOldEnds 0]) in
  let x := (0%N, (0, 0, 0, 0, 1, 65001, 1)%N) in
  d_rid st 0 = Some 2%N /\
  map (fun e : N * bool * N => (e.1.2, e.2)) (rib_query (ru_rib (es_rib (ds_e st))) 0 2) = [(false, 4%N)] /\
  s_rib (es_s (ds_e st)) !! (0%N, 2%N, x) = Some (true, 4%N) /\
  s_rib (es_s (ds_e st)) !! (0%N, 1%N, x) = Some (false, 3%N) /\
  d_listed_code st = 0%N /\ d_listed_spec st = 1%N.
Proof. vm_compute. repeat split; reflexivity. Qed.

Theorem second_connection_example :
  let st := d_run (d_init SNone 0) d_example in
  d_rid st 0 = Some 2%N /\ d_old st 0 = Some 2%N /\ d_listed_code st = 1%N /\
  length (reg_find_routers (w_reg (es_w (ds_e st))) (router_query 1 0)) = 1%nat /\
  map (fun e : N * bool * N => (e.1.2, e.2)) (rib_query (ru_rib (es_rib (ds_e st))) 0 1) = [(true, 3%N)] /\
  map (fun e : N * bool * N => (e.1.2, e.2)) (rib_query (ru_rib (es_rib (ds_e st))) 0 2) = [(true, 4%N)].
Proof. vm_compute. repeat split; reflexivity. Qed.
