From stdpp Require Import gmap.
From Coq Require Import NArith Lia.
From RV Require Import Ingress.IngressModel Rib.RibModel Bmp.BmpModel Pipe.PipeModel E2e.E2eModel.

(* connections accepted = connections lost + routers connected now, after every history;
   and only connected routers have state-machine metrics *)
Definition uc_ok (u : ucount) : Prop :=
  uc_accepted u = (uc_lost u + N.of_nat (size (uc_live u)))%N /\ uc_known u ⊆ uc_live u.

Lemma uc_step_ok u o : uc_ok u -> uc_ok (uc_step u o).
Proof.
  unfold uc_ok. intros [Hb Hs]. destruct o as [k|k m|k| | | | |]; cbn [uc_step]; try (split; [exact Hb|exact Hs]).
  - destruct (decide (k ∈ uc_live u)) as [Hin|Hin].
    + rewrite bool_decide_true by exact Hin. split; [exact Hb|exact Hs].
    + rewrite bool_decide_false by exact Hin. cbn [uc_accepted uc_lost uc_live uc_known]. split; [|set_solver].
      rewrite size_union by set_solver. rewrite size_singleton. lia.
  - destruct (decide (k ∈ uc_live u)) as [Hin|Hin].
    + rewrite bool_decide_true by exact Hin. cbn [uc_accepted uc_lost uc_live uc_known]. split; [exact Hb|set_solver].
    + rewrite bool_decide_false by exact Hin. split; [exact Hb|exact Hs].
  - destruct (decide (k ∈ uc_live u)) as [Hin|Hin].
    + rewrite bool_decide_true by exact Hin. cbn [uc_accepted uc_lost uc_live uc_known]. split; [|set_solver].
      assert (Hsz : size (uc_live u) = S (size (uc_live u ∖ {[k]}))).
      { rewrite (union_difference_L {[k]} (uc_live u)) at 1 by set_solver.
        rewrite size_union by set_solver. rewrite size_singleton. reflexivity. }
      lia.
    + rewrite bool_decide_false by exact Hin. split; [exact Hb|exact Hs].
Qed.

Lemma uc_run_ok l : forall u, uc_ok u -> uc_ok (uc_run u l).
Proof.
  induction l as [|o l IH]; intros u Hb; [exact Hb|]. cbn [uc_run fold_left].
  apply IH, uc_step_ok, Hb.
Qed.

Lemma uc_init_ok : uc_ok uc_init.
Proof. split; [reflexivity|set_solver]. Qed.

Theorem uc_connected_is_accepted_minus_lost l :
  uc_connected_spec (uc_run uc_init l) = (uc_accepted (uc_run uc_init l) - uc_lost (uc_run uc_init l))%N.
Proof.
  destruct (uc_run_ok l uc_init uc_init_ok) as [H _].
  unfold uc_connected_spec. rewrite H. lia.
Qed.

(* the rendered gauge never exceeds the number of connected routers ... *)
Theorem uc_code_le_spec l : (uc_connected_code (uc_run uc_init l) <= uc_connected_spec (uc_run uc_init l))%N.
Proof.
  destruct (uc_run_ok l uc_init uc_init_ok) as [_ H].
  unfold uc_connected_code, uc_connected_spec.
  assert (Hle : (size (uc_known (uc_run uc_init l)) <= size (uc_live (uc_run uc_init l)))%nat) by (apply subseteq_size, H).
  lia.
Qed.

(* ... is right when every connected router has spoken ... *)
Lemma uc_code_right_iff u : uc_known u = uc_live u -> uc_connected_code u = uc_connected_spec u.
Proof. unfold uc_connected_code, uc_connected_spec. intros ->. reflexivity. Qed.

(* ... and misses a router that is connected and has not sent anything yet: known finding C15-4 *)
Theorem uc_connected_refuted :
  let u := uc_run uc_init [WConnect 0] in
  uc_connected_code u = 0%N /\ uc_connected_spec u = 1%N.
Proof. vm_compute. split; reflexivity. Qed.

(* ------------------------------------------------------------------ *)
(* The Roto script of the configuration and the units started by reloads *)

Lemma filter_true {A} (l : list A) : List.filter (fun _ => true) l = l.
Proof. induction l as [|x l IH]; [reflexivity|]. cbn [List.filter]. rewrite IH. reflexivity. Qed.

Lemma filter_update_none u : filter_update SNone u = u.
Proof. destruct u as [ps| | |]; try reflexivity. cbn [filter_update script_rejects negb]. rewrite filter_true. reflexivity. Qed.

Lemma filter_update_nofilter u : filter_update SNoRibFilter u = u.
Proof. destruct u as [ps| | |]; try reflexivity. cbn [filter_update script_rejects negb]. rewrite filter_true. reflexivity. Qed.

(* what a step of the pipeline model does to its RIB is the update it reports *)
Lemma wstep_rib w o :
  w_rib (wstep w o).1 = match upd_of (wstep w o).2 with Some u => rib_apply (w_rib w) u | None => w_rib w end.
Proof.
  destruct o as [k|k m|k|b|b u|b|af pfx|k]; cbn [wstep].
  - destruct (find_or_register _ _ _) as [rid r']. reflexivity.
  - destruct (w_routers w !! k) as [[rid s]|]; [|reflexivity].
    destruct (sm_step _ _ _ _) as [[r' s'] out]. cbn [fst snd w_rib upd_of].
    destruct out; reflexivity.
  - destruct (w_routers w !! k) as [[rid s]|]; reflexivity.
  - destruct (reg_register _) as [id r']. reflexivity.
  - destruct (w_bgp w !! b) as [[id c]|]; [|reflexivity]. destruct u; reflexivity.
  - destruct (w_bgp w !! b) as [[id c]|]; reflexivity.
  - reflexivity.
  - reflexivity.
Qed.

(* ---- which filter a unit runs ---- *)

(* every unit runs the filter of the script named by the load that started it *)
Definition filters_ok (st : estate) : Prop :=
  es_scripts st !! ru_born (es_rib st) = Some (ru_filter (es_rib st)) /\
  (forall r, es_rib2 st = Some r -> es_scripts st !! ru_born r = Some (ru_filter r)) /\
  Forall (fun v => es_scripts st !! vr_born v = Some (vr_filter v)) (es_vribs st).

Lemma runit_see_filter r out : ru_filter (runit_see r out) = ru_filter r.
Proof. unfold runit_see. destruct (upd_of out); reflexivity. Qed.
Lemma runit_see_born r out : ru_born (runit_see r out) = ru_born r.
Proof. unfold runit_see. destruct (upd_of out); reflexivity. Qed.

Lemma e_step_filters_ok st o : filters_ok st -> filters_ok (e_step false st o).
Proof.
  intros (H1 & H2 & H3). destruct o as [wo|s|y|nv|]; cbn [e_step].
  - destruct (wstep (es_w st) wo) as [w' out]. split; [|split]; cbn [es_scripts es_rib es_rib2 es_vribs].
    + rewrite runit_see_filter, runit_see_born. exact H1.
    + intros r Hr. destruct (es_rib2 st) as [r0|]; [|discriminate]. cbn [option_map] in Hr.
      injection Hr as <-. rewrite runit_see_filter, runit_see_born. apply H2. reflexivity.
    + exact H3.
  - split; [exact H1|split; [exact H2|exact H3]].
  - split; [exact H1|split; [exact H2|exact H3]].
  - split; [exact H1|split; [exact H2|exact H3]].
  - split; [|split]; cbn [es_scripts es_rib es_rib2 es_vribs].
    + apply lookup_app_l_Some. exact H1.
    + intros r Hr.
      destruct ((es_rib2kind st =? 1)%N && (ef_rib2 (es_file st) =? 1)%N).
      * apply lookup_app_l_Some. apply H2. exact Hr.
      * destruct (ef_rib2 (es_file st) =? 1)%N; [|discriminate].
        injection Hr as <-. cbn [ru_born ru_filter].
        rewrite lookup_app_r by lia. rewrite Nat.sub_diag. reflexivity.
    + apply Forall_app. split.
      * apply Forall_fmap. apply Forall_take.
        eapply Forall_impl; [exact H3|]. intros v Hv. cbn [vr_born vr_filter compose].
        apply lookup_app_l_Some. exact Hv.
      * apply Forall_replicate. cbn [vr_born vr_filter].
        rewrite lookup_app_r by lia. rewrite Nat.sub_diag. reflexivity.
Qed.

Lemma e_run_filters_ok h : forall st, filters_ok st -> filters_ok (e_run false st h).
Proof.
  induction h as [|o h IH]; intros st H; [exact H|]. cbn [e_run fold_left].
  apply IH, e_step_filters_ok, H.
Qed.

Lemma e_init_filters_ok s0 n0 : filters_ok (e_init_v s0 n0).
Proof.
  split; [reflexivity|]. split; [intros r Hr; discriminate|].
  cbn [e_init_v es_vribs es_scripts]. apply Forall_replicate. reflexivity.
Qed.

(* the bookkeeping list is the history of the scripts the loads named *)
Lemma e_run_scripts lg h : forall st,
  es_scripts (e_run lg st h) = es_scripts st ++ scripts_named (ef_script (es_file st)) h.
Proof.
  induction h as [|o h IH]; intros st; cbn [e_run fold_left scripts_named].
  - rewrite app_nil_r. reflexivity.
  - fold (e_run lg (e_step lg st o) h). rewrite IH. destruct o as [wo|s|y|nv|]; cbn [e_step].
    + destruct (wstep (es_w st) wo) as [w' out]. reflexivity.
    + reflexivity.
    + reflexivity.
    + reflexivity.
    + cbn [es_scripts es_file]. rewrite <- app_assoc. reflexivity.
Qed.

Theorem unit_filter_is_script_of_its_load s0 h :
  let st := e_run false (e_init s0) h in
  let named := s0 :: scripts_named s0 h in
  named !! ru_born (es_rib st) = Some (ru_filter (es_rib st)) /\
  forall r, es_rib2 st = Some r -> named !! ru_born r = Some (ru_filter r).
Proof.
  cbn zeta. pose proof (e_run_filters_ok h (e_init s0) (e_init_filters_ok s0 0)) as H.
  unfold filters_ok in H. rewrite e_run_scripts in H. destruct H as (H1 & H2 & _). split; [exact H1|exact H2].
Qed.

(* a unit started by a reload starts empty, with the script that reload named *)
Theorem reload_starts_unit_with_new_script st :
  (es_rib2kind st =? 1)%N = false -> ef_rib2 (es_file st) = 1%N ->
  es_rib2 (e_step false st EReload) = Some (MkRunit (ef_script (es_file st)) (length (es_scripts st)) rib_empty).
Proof.
  intros Hk Hw. cbn [e_step es_rib2]. rewrite Hk, Hw. reflexivity.
Qed.

(* a reload leaves a running unit of unchanged name and type alone: its filter
   and its store are what they were (what the code does; see the report for
   what that means for an edited script) *)
Theorem reload_spares_running_units lg st :
  es_rib (e_step lg st EReload) = es_rib st /\
  (es_rib2kind st = 1%N -> ef_rib2 (es_file st) = 1%N -> es_rib2 (e_step lg st EReload) = es_rib2 st).
Proof.
  split; [reflexivity|]. intros Hk Hw. cbn [e_step es_rib2]. rewrite Hk, Hw. reflexivity.
Qed.

Lemma e_step_rib_filter lg st o : ru_filter (es_rib (e_step lg st o)) = ru_filter (es_rib st).
Proof.
  destruct o as [wo|s|y|nv|]; cbn [e_step]; try reflexivity.
  destruct (wstep (es_w st) wo) as [w' out]. cbn [es_rib]. apply runit_see_filter.
Qed.

Theorem first_unit_keeps_startup_filter lg s0 h : ru_filter (es_rib (e_run lg (e_init s0) h)) = s0.
Proof.
  assert (H : forall st, ru_filter (es_rib (e_run lg st h)) = ru_filter (es_rib st)).
  { induction h as [|o h IH]; intros st; [reflexivity|]. cbn [e_run fold_left].
    fold (e_run lg (e_step lg st o) h). rewrite IH. apply e_step_rib_filter. }
  rewrite H. reflexivity.
Qed.

(* ---- no script: the extension is the pipeline model ---- *)

Lemma e_step_w lg st wo : es_w (e_step lg st (EW wo)) = (wstep (es_w st) wo).1.
Proof. cbn [e_step]. destruct (wstep (es_w st) wo) as [w' out]. reflexivity. Qed.

Definition unfiltered (s : script) : Prop := s = SNone \/ s = SNoRibFilter.

Lemma filter_update_unfiltered s u : unfiltered s -> filter_update s u = u.
Proof. intros [->| ->]; [apply filter_update_none|apply filter_update_nofilter]. Qed.

Lemma e_step_rib_is_pipe lg st o :
  unfiltered (ru_filter (es_rib st)) -> ru_rib (es_rib st) = w_rib (es_w st) ->
  ru_rib (es_rib (e_step lg st o)) = w_rib (es_w (e_step lg st o)).
Proof.
  intros Hf Hr. destruct o as [wo|s|y|nv|]; cbn [e_step]; try exact Hr.
  pose proof (wstep_rib (es_w st) wo) as Hw.
  destruct (wstep (es_w st) wo) as [w' out]. cbn [fst snd] in Hw. cbn [es_rib es_w].
  rewrite Hw. unfold runit_see. destruct (upd_of out) as [u|]; [|exact Hr].
  cbn [runit_apply ru_rib]. rewrite filter_update_unfiltered by exact Hf. rewrite Hr. reflexivity.
Qed.

Theorem no_filter_is_pipeline_model lg s0 h :
  unfiltered s0 ->
  ru_rib (es_rib (e_run lg (e_init s0) h)) = w_rib (es_w (e_run lg (e_init s0) h)).
Proof.
  intros Hs.
  assert (H : forall st, unfiltered (ru_filter (es_rib st)) -> ru_rib (es_rib st) = w_rib (es_w st) ->
                         ru_rib (es_rib (e_run lg st h)) = w_rib (es_w (e_run lg st h))).
  { induction h as [|o h IH]; intros st Hf Hr; [exact Hr|]. cbn [e_run fold_left].
    fold (e_run lg (e_step lg st o) h). apply IH.
    - rewrite e_step_rib_filter. exact Hf.
    - apply e_step_rib_is_pipe; assumption. }
  apply H; [exact Hs|reflexivity].
Qed.

(* the pipeline model's own world is driven by the traffic alone *)
Fixpoint traffic (h : list eop) : list wop :=
  match h with [] => [] | EW o :: t => o :: traffic t | _ :: t => traffic t end.

Lemma e_run_world lg h : forall st,
  es_w (e_run lg st h) = fold_left (fun w o => (wstep w o).1) (traffic h) (es_w st).
Proof.
  induction h as [|o h IH]; intros st; [reflexivity|]. cbn [e_run fold_left].
  fold (e_run lg (e_step lg st o) h). rewrite IH.
  destruct o as [wo|s|y|nv|]; cbn [traffic fold_left]; try reflexivity.
  rewrite e_step_w. reflexivity.
Qed.

(* ---- a rejected route is never stored ---- *)

Definition clean (r : runit) : Prop :=
  forall k, is_Some (recs (ru_rib r) !! k) -> script_rejects (ru_filter r) (k_pfx k) = false.

Lemma insert_payload_keys s rb p :
  script_rejects s (k_pfx (p_key p)) = false ->
  (forall k, is_Some (recs rb !! k) -> script_rejects s (k_pfx k) = false) ->
  forall k, is_Some (recs (rib_insert_payload rb p) !! k) -> script_rejects s (k_pfx k) = false.
Proof.
  intros Hp Hrb k. unfold rib_insert_payload.
  destruct (p_active p).
  - cbn [recs]. destruct (decide (k = p_key p)) as [->|Hne]; [intros _; exact Hp|].
    rewrite lookup_insert_ne by (intros E; apply Hne; symmetry; exact E). apply Hrb.
  - destruct (recs rb !! p_key p) as [old|]; [|apply Hrb].
    cbn [recs]. destruct (decide (k = p_key p)) as [->|Hne]; [intros _; exact Hp|].
    rewrite lookup_insert_ne by (intros E; apply Hne; symmetry; exact E). apply Hrb.
Qed.

Lemma fold_insert_keys s ps : forall rb,
  Forall (fun p => script_rejects s (k_pfx (p_key p)) = false) ps ->
  (forall k, is_Some (recs rb !! k) -> script_rejects s (k_pfx k) = false) ->
  forall k, is_Some (recs (fold_left rib_insert_payload ps rb) !! k) -> script_rejects s (k_pfx k) = false.
Proof.
  induction ps as [|p ps IH]; intros rb Hall Hrb; [exact Hrb|].
  cbn [fold_left]. apply IH; [apply (Forall_inv_tail Hall)|].
  apply insert_payload_keys; [apply (Forall_inv Hall)|exact Hrb].
Qed.

Lemma fold_withdraw_recs ms : forall rb, recs (fold_left (fun r m => rib_withdraw_mui r m None) ms rb) = recs rb.
Proof. induction ms as [|m ms IH]; intros rb; [reflexivity|]. cbn [fold_left]. rewrite IH. reflexivity. Qed.

Lemma runit_apply_clean r u : clean r -> clean (runit_apply r u).
Proof.
  unfold clean. intros Hc k. cbn [runit_apply ru_rib ru_filter].
  destruct u as [ps|m f|ms|]; cbn [filter_update rib_apply].
  - apply fold_insert_keys; [|exact Hc].
    apply List.Forall_forall. intros p Hin. apply List.filter_In in Hin. destruct Hin as [_ Hin].
    apply negb_true_iff in Hin. exact Hin.
  - destruct f; cbn [rib_withdraw_mui recs]; apply Hc.
  - rewrite fold_withdraw_recs. apply Hc.
  - apply Hc.
Qed.

Lemma runit_see_clean r out : clean r -> clean (runit_see r out).
Proof. unfold runit_see. destruct (upd_of out); [apply runit_apply_clean|exact id]. Qed.

Definition all_clean (st : estate) : Prop := clean (es_rib st) /\ forall r, es_rib2 st = Some r -> clean r.

Lemma e_step_all_clean lg st o : all_clean st -> all_clean (e_step lg st o).
Proof.
  intros [H1 H2]. destruct o as [wo|s|y|nv|]; cbn [e_step]; try (split; [exact H1|exact H2]).
  - destruct (wstep (es_w st) wo) as [w' out]. split; cbn [es_rib es_rib2].
    + apply runit_see_clean, H1.
    + intros r Hr. destruct (es_rib2 st) as [r0|]; [|discriminate]. cbn [option_map] in Hr.
      injection Hr as <-. apply runit_see_clean, H2. reflexivity.
  - split; cbn [es_rib es_rib2]; [exact H1|]. intros r Hr.
    destruct ((es_rib2kind st =? 1)%N && (ef_rib2 (es_file st) =? 1)%N); [apply H2, Hr|].
    destruct (ef_rib2 (es_file st) =? 1)%N; [|discriminate]. injection Hr as <-.
    intros k [x Hx]. cbn [ru_rib rib_empty recs] in Hx. rewrite lookup_empty in Hx. discriminate.
Qed.

Theorem rejected_prefix_never_stored lg s0 h :
  let st := e_run lg (e_init s0) h in
  (forall k, is_Some (recs (ru_rib (es_rib st)) !! k) -> script_rejects (ru_filter (es_rib st)) (k_pfx k) = false) /\
  (forall r k, es_rib2 st = Some r -> is_Some (recs (ru_rib r) !! k) -> script_rejects (ru_filter r) (k_pfx k) = false).
Proof.
  cbn zeta.
  assert (H : forall st, all_clean st -> all_clean (e_run lg st h)).
  { induction h as [|o h IH]; intros st Hc; [exact Hc|]. cbn [e_run fold_left].
    fold (e_run lg (e_step lg st o) h). apply IH, e_step_all_clean, Hc. }
  assert (H0 : all_clean (e_init s0)).
  { split; [|intros r Hr; discriminate]. intros k [x Hx]. cbn in Hx. rewrite lookup_empty in Hx. discriminate. }
  destruct (H _ H0) as [Ha Hb]. split; [exact Ha|]. intros r k Hr. apply (Hb r Hr).
Qed.

(* ---- the defect of the code as it was: a configuration without roto_script ---- *)
Theorem legacy_script_removed_refuted :
  let h := [EScript SNone; EUnit 1%N; EReload] in
  let st := e_run true (e_init (SRejectPfx 7)) h in
  option_map ru_filter (es_rib2 st) = Some (SRejectPfx 7%N) /\
  last (es_scripts st) = Some SNone /\
  option_map ru_filter (es_rib2 (e_run false (e_init (SRejectPfx 7)) h)) = Some SNone.
Proof. vm_compute. repeat split; reflexivity. Qed.

(* the same with the standard library's list access (for statements that do not use std++ notation) *)
Lemma lookup_nth_error {A} (l : list A) : forall i, l !! i = nth_error l i.
Proof. induction l as [|x l IH]; intros [|i]; try reflexivity. cbn. apply IH. Qed.

Theorem unit_filter_is_script_of_its_load_nth s0 h :
  let st := e_run false (e_init s0) h in
  let named := s0 :: scripts_named s0 h in
  nth_error named (ru_born (es_rib st)) = Some (ru_filter (es_rib st)) /\
  forall r, es_rib2 st = Some r -> nth_error named (ru_born r) = Some (ru_filter r).
Proof.
  cbn zeta. destruct (unit_filter_is_script_of_its_load s0 h) as [H1 H2]. split.
  - rewrite <- lookup_nth_error. exact H1.
  - intros r Hr. rewrite <- lookup_nth_error. apply H2, Hr.
Qed.

(* non-vacuity: start with a script that rejects prefix 7; the operator edits it to reject prefix 8 and adds rib2;
   after the reload rib2 filters with the new script and the first unit with the old one *)
Lemma e2e_example :
  let st := e_run false (e_init (SRejectPfx 7)) [EScript (SRejectPfx 8); EUnit 1%N; EReload] in
  ru_filter (es_rib st) = SRejectPfx 7%N /\ option_map ru_filter (es_rib2 st) = Some (SRejectPfx 8%N) /\
  option_map ru_born (es_rib2 st) = Some 1%nat /\ es_scripts st = [SRejectPfx 7%N; SRejectPfx 8%N].
Proof. vm_compute. repeat split; reflexivity. Qed.

Theorem legacy_script_removed_refuted_std :
  let h := [EScript SNone; EUnit 1%N; EReload] in
  let st := e_run true (e_init (SRejectPfx 7)) h in
  option_map ru_filter (es_rib2 st) = Some (SRejectPfx 7%N) /\
  List.last (es_scripts st) SNoRibFilter = SNone /\
  option_map ru_filter (es_rib2 (e_run false (e_init (SRejectPfx 7)) h)) = Some SNone.
Proof. vm_compute. repeat split; reflexivity. Qed.

(* the same for the generated vRIBs of a shorthand RIB, whatever their number at start-up and after each reload *)
Theorem vrib_filter_is_script_of_its_load s0 n0 h :
  let st := e_run false (e_init_v s0 n0) h in
  let named := s0 :: scripts_named s0 h in
  forall v, In v (es_vribs st) -> nth_error named (vr_born v) = Some (vr_filter v).
Proof.
  cbn zeta. pose proof (e_run_filters_ok h (e_init_v s0 n0) (e_init_filters_ok s0 n0)) as H.
  unfold filters_ok in H. rewrite e_run_scripts in H. destruct H as (_ & _ & H3).
  intros v Hv. rewrite List.Forall_forall in H3. specialize (H3 v Hv).
  rewrite <- lookup_nth_error. exact H3.
Qed.


(* ------------------------------------------------------------------ *)
(* Generated vRIBs: the links of a running vRIB are the ones the LATEST load made *)

Definition vribs_current (st : estate) : Prop :=
  Forall (fun v => vr_up v = es_cur st /\ vr_src v = es_cur st) (es_vribs st).

Lemma e_step_vribs_current lg st o : vribs_current st -> vribs_current (e_step lg st o).
Proof.
  unfold vribs_current, es_cur. intros H. destruct o as [wo|s|y|nv|]; cbn [e_step]; try exact H.
  - destruct (wstep (es_w st) wo) as [w' out]. exact H.
  - cbn [es_vribs es_scripts]. rewrite app_length. cbn [length]. rewrite Nat.add_1_r. cbn [pred].
    apply Forall_app. split.
    + apply Forall_fmap. apply Forall_take. eapply Forall_impl; [exact H|].
      intros v _. cbn [compose vr_up vr_src]. split; reflexivity.
    + apply Forall_replicate. split; reflexivity.
Qed.

Lemma e_run_vribs_current lg h : forall st, vribs_current st -> vribs_current (e_run lg st h).
Proof.
  induction h as [|o h IH]; intros st H; [exact H|]. cbn [e_run fold_left].
  apply IH, e_step_vribs_current, H.
Qed.

Lemma e_init_vribs_current s0 n0 : vribs_current (e_init_v s0 n0).
Proof. unfold vribs_current. cbn [e_init_v es_vribs]. apply Forall_replicate. split; reflexivity. Qed.

(* after every history of traffic, edits and reloads: the vrib_upstream link and the sources link of every running
   generated vRIB are those of the last load - the load whose gates the running units hold *)
Theorem vribs_linked_to_current lg s0 n0 h :
  let st := e_run lg (e_init_v s0 n0) h in
  forall v, In v (es_vribs st) -> vr_up v = es_cur st /\ vr_src v = es_cur st.
Proof.
  cbn zeta. pose proof (e_run_vribs_current lg h _ (e_init_vribs_current s0 n0)) as H.
  unfold vribs_current in H. rewrite List.Forall_forall in H. exact H.
Qed.

Lemma vribs_current_chain_linked st i :
  vribs_current st -> (i < length (es_vribs st))%nat -> chain_linked (es_cur st) (es_vribs st) i = true.
Proof.
  unfold vribs_current, chain_linked. intros H Hi.
  destruct (lookup_lt_is_Some_2 _ _ Hi) as [v Hv]. rewrite Hv.
  apply andb_true_intro. split.
  - rewrite Forall_forall in H. destruct (H v (elem_of_list_lookup_2 _ _ _ Hv)) as [Hu _].
    rewrite Hu. apply Nat.eqb_refl.
  - apply forallb_forall. intros x Hx.
    assert (Hin : x ∈ es_vribs st).
    { apply elem_of_list_In in Hx. apply elem_of_take in Hx. destruct Hx as (j & Hj & _).
      apply (elem_of_list_lookup_2 _ j). exact Hj. }
    rewrite Forall_forall in H. destruct (H x Hin) as [_ Hs]. rewrite Hs. apply Nat.eqb_refl.
Qed.

(* so a query of a running vRIB always reaches the physical RIB and its result comes back down the chain *)
Theorem vrib_chain_always_linked lg s0 n0 h i :
  let st := e_run lg (e_init_v s0 n0) h in
  (i < length (es_vribs st))%nat -> chain_linked (es_cur st) (es_vribs st) i = true.
Proof.
  cbn zeta. apply vribs_current_chain_linked. apply e_run_vribs_current, e_init_vribs_current.
Qed.

(* whenever the code answers, it answers what the property asks for (any state) *)
Theorem vrib_code_answer_is_spec st i af pfx l :
  vrib_query_code st i af pfx = VAnswer l -> vrib_query_spec st i af pfx = VAnswer l.
Proof.
  unfold vrib_query_code, vrib_query_spec. destruct (i <? length (es_vribs st))%nat; [|discriminate].
  destruct (chain_linked _ _ _); [|discriminate].
  destruct (rib_query (ru_rib (es_rib st)) af pfx) as [|e t]; [|discriminate].
  intros Hl. injection Hl as <-. destruct (chain_rejects _ _ _); reflexivity.
Qed.

(* a path with no vRIB behind it is not answered by one, in the code as in the spec *)
Theorem vrib_absent_agree st i af pfx :
  vrib_query_code st i af pfx = VAbsent <-> vrib_query_spec st i af pfx = VAbsent.
Proof.
  unfold vrib_query_code, vrib_query_spec. destruct (i <? length (es_vribs st))%nat.
  - split; [|discriminate]. destruct (chain_linked _ _ _); [|discriminate].
    destruct (rib_query _ _ _); discriminate.
  - split; reflexivity.
Qed.

(* the partial theorem: after every history, a query of a vRIB about a prefix the physical RIB holds nothing for
   (or a path without a vRIB) is answered as the property asks - in particular it IS answered, after any number of reloads *)
Theorem vrib_query_partial lg s0 n0 h i af pfx :
  let st := e_run lg (e_init_v s0 n0) h in
  rib_query (ru_rib (es_rib st)) af pfx = [] ->
  vrib_query_code st i af pfx = vrib_query_spec st i af pfx.
Proof.
  cbn zeta. intros Hq. unfold vrib_query_code, vrib_query_spec.
  destruct (i <? length (es_vribs (e_run lg (e_init_v s0 n0) h)))%nat eqn:Hi; [|reflexivity].
  apply Nat.ltb_lt in Hi. rewrite (vrib_chain_always_linked lg s0 n0 h i Hi). rewrite Hq.
  destruct (chain_rejects _ _ _); reflexivity.
Qed.

(* ... and the code's departure: the physical RIB holds a route of the prefix - the property asks for it, the
   request is never answered (reprocess_rib_value is `todo!()`) *)
Definition vrib_witness : list eop :=
  [EW (WConnect 0); EW (WMsg 0 MInit); EW (WMsg 0 (MPeerUp (0, 0, 0, 0, 1, 65001, 1)%N false));
   EW (WMsg 0 (MRoute (0, 0, 0, 0, 1, 65001, 1)%N (Some (URoutes 0 [1%N] 3 0 []))))].

Theorem vrib_query_refuted :
  let st := e_run false (e_init_v SNone 1) vrib_witness in
  vrib_query_code st 0 0 1 = VNever /\
  (exists e, vrib_query_spec st 0 0 1 = VAnswer [e]) /\
  vrib_query_code st 0 0 2 = VAnswer [] /\ vrib_query_spec st 0 0 2 = VAnswer [].
Proof. vm_compute. split; [reflexivity|]. split; [eexists; reflexivity|]. split; reflexivity. Qed.

(* without filters in the chain a vRIB says what the physical RIB says *)
Theorem vrib_unfiltered_answers_as_prib st i af pfx :
  (i < length (es_vribs st))%nat -> (forall v, In v (es_vribs st) -> unfiltered (vr_filter v)) ->
  vrib_query_spec st i af pfx = VAnswer (rib_query (ru_rib (es_rib st)) af pfx).
Proof.
  intros Hi Hf. unfold vrib_query_spec. apply Nat.ltb_lt in Hi. rewrite Hi.
  assert (Hr : chain_rejects (es_vribs st) i pfx = false).
  { unfold chain_rejects. apply not_true_is_false. intros Hex. apply existsb_exists in Hex.
    destruct Hex as (v & Hv & Hrej). apply elem_of_list_In, elem_of_take in Hv. destruct Hv as (j & Hj & _).
    assert (Hin : In v (es_vribs st)) by (apply elem_of_list_In, (elem_of_list_lookup_2 _ j), Hj).
    destruct (Hf v Hin) as [E|E]; rewrite E in Hrej; discriminate. }
  rewrite Hr. reflexivity.
Qed.

(* ---- what a reload does to the generated vRIBs ---- *)

(* as many as the file asks for *)
Theorem reload_vrib_count lg st :
  length (es_vribs (e_step lg st EReload)) = N.to_nat (ef_vribs (es_file st)).
Proof.
  cbn [e_step es_vribs]. rewrite app_length, fmap_length, take_length, replicate_length. lia.
Qed.

(* a vRIB the file still asks for is spared: it keeps filter and birth, and holds the links this load made *)
Theorem reload_spares_vribs lg st i v :
  es_vribs st !! i = Some v -> (i < N.to_nat (ef_vribs (es_file st)))%nat ->
  es_vribs (e_step lg st EReload) !! i =
  Some (MkVrib (vr_filter v) (vr_born v) (length (es_scripts st)) (length (es_scripts st))).
Proof.
  intros Hv Hi. cbn [e_step es_vribs].
  rewrite lookup_app_l.
  - rewrite list_lookup_fmap, lookup_take by exact Hi. rewrite Hv. reflexivity.
  - rewrite fmap_length, take_length. apply lookup_lt_Some in Hv. lia.
Qed.

(* a vRIB the file adds is started with the script the reloaded configuration names, linked to this load's gates *)
Theorem reload_starts_vribs st i :
  (length (es_vribs st) <= i)%nat -> (i < N.to_nat (ef_vribs (es_file st)))%nat ->
  es_vribs (e_step false st EReload) !! i =
  Some (MkVrib (ef_script (es_file st)) (length (es_scripts st)) (length (es_scripts st)) (length (es_scripts st))).
Proof.
  intros Hlo Hi. cbn [e_step es_vribs].
  rewrite lookup_app_r; rewrite fmap_length, take_length; [|lia].
  apply lookup_replicate_2. lia.
Qed.

(* the other operations leave the vRIBs alone *)
Theorem only_reload_touches_vribs lg st o : o <> EReload -> es_vribs (e_step lg st o) = es_vribs st.
Proof.
  intros Ho. destruct o as [wo|s|y|nv|]; cbn [e_step]; try reflexivity; [|contradiction].
  destruct (wstep (es_w st) wo) as [w' out]. reflexivity.
Qed.

(* non-vacuity: start-up with two vRIBs and a script rejecting prefix 7; the operator edits the script and asks for three
   vRIBs; after the reload vRIB 0 and 1 keep the old filter, vRIB 2 has the new one, all are linked to load 1 *)
Lemma vrib_example :
  let st := e_run false (e_init_v (SRejectPfx 7) 2) [EScript (SRejectPfx 8); EVribs 3; EReload] in
  es_vribs st = [MkVrib (SRejectPfx 7) 0 1 1; MkVrib (SRejectPfx 7) 0 1 1; MkVrib (SRejectPfx 8) 1 1 1] /\ es_cur st = 1%nat /\
  vrib_query_code st 2 0 8 = VAnswer [] /\ vrib_query_code st 3 0 8 = VAbsent.
Proof. vm_compute. repeat split; reflexivity. Qed.

(* the same with the standard library's list access *)
Theorem reload_spares_vribs_nth lg st i v :
  nth_error (es_vribs st) i = Some v -> (i < N.to_nat (ef_vribs (es_file st)))%nat ->
  nth_error (es_vribs (e_step lg st EReload)) i =
  Some (MkVrib (vr_filter v) (vr_born v) (length (es_scripts st)) (length (es_scripts st))).
Proof. rewrite <- !lookup_nth_error. apply reload_spares_vribs. Qed.

Theorem reload_starts_vribs_nth st i :
  (length (es_vribs st) <= i)%nat -> (i < N.to_nat (ef_vribs (es_file st)))%nat ->
  nth_error (es_vribs (e_step false st EReload)) i =
  Some (MkVrib (ef_script (es_file st)) (length (es_scripts st)) (length (es_scripts st)) (length (es_scripts st))).
Proof. rewrite <- lookup_nth_error. apply reload_starts_vribs. Qed.
