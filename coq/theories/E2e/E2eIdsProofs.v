(* C14 over ALL histories of the end-to-end world with second connections
   (E2eModel.v, fifth part: d_step): one register entry - one ingress id - per
   (unit, router address) that ever connected and per (router, peer identity)
   that a Peer Up registered; every accepted connection is handed that id.
   The register is tied to the sessions through an invariant of d_step. *)
From stdpp Require Import gmap.
From Coq Require Import NArith Lia.
From RV Require Import Ingress.IngressModel Ingress.IngressProofs Rib.RibModel Bmp.BmpModel Bmp.BmpProofs
  Pipe.PipeModel Pipe.PipeCompose E2e.E2eModel E2e.E2eProofs.
Local Open Scope N_scope.
Arguments N.add : simpl never.
Arguments N.sub : simpl never.
Arguments N.eqb : simpl never.
Arguments N.ltb : simpl never.
Arguments N.leb : simpl never.

(* ------------------------------------------------------------------ *)
(* readings                                                            *)

Definition d_reg (st : dstate) : reg := w_reg (es_w (ds_e st)).
Definition d_unit (st : dstate) : N := w_unit (es_w (ds_e st)).

(* the connection the accept loop takes in a step of the pipeline, with the id it is handed
   (read off the session table after the step) *)
Definition w_accept_of (w : world) (o : wop) : list (N * N) :=
  match o with
  | WConnect k => match w_routers (wstep w o).1 !! k with Some (rid, _) => [(k, rid)] | None => [] end
  | _ => []
  end.

(* the peer a Peer Up of a step names, under the router id of its session, with the id the session's
   peer table holds for it after the step *)
Definition w_peerup_of (w : world) (o : wop) : list (N * pph * N) :=
  match o with
  | WMsg k (MPeerUp p _) =>
      match w_routers (wstep w o).1 !! k with
      | Some (rid, s') => match sm_peers s' !! p with Some pe => [(rid, p, pe_id pe)] | None => [] end
      | None => []
      end
  | _ => []
  end.

(* the operation of the pipeline a step of the d-world runs (None: the register and the sessions stay) *)
Definition d_wop (st : dstate) (o : dop) : option wop :=
  match o with
  | DE (EW (WConnect k)) => match d_live st k with Some _ => None | None => Some (WConnect k) end
  | DE (EW wo) => Some wo
  | DE _ => None
  | DSecond k => match d_live st k, ds_old st !! k with Some _, Some _ => None | _, _ => Some (WConnect k) end
  | DOldEnds _ => None
  end.

Definition d_accept_of (st : dstate) (o : dop) : list (N * N) :=
  match d_wop st o with Some wo => w_accept_of (es_w (ds_e st)) wo | None => [] end.
Definition d_peerup_of (st : dstate) (o : dop) : list (N * pph * N) :=
  match d_wop st o with Some wo => w_peerup_of (es_w (ds_e st)) wo | None => [] end.

(* every connection accepted along a history: (router address, id handed) - first, second, re-connections *)
Fixpoint d_accepts (st : dstate) (h : list dop) : list (N * N) :=
  match h with [] => [] | o :: t => d_accept_of st o ++ d_accepts (d_step st o) t end.
(* every Peer Up along a history: (router id, per-peer header, id in the session's table) *)
Fixpoint d_peerups (st : dstate) (h : list dop) : list (N * pph * N) :=
  match h with [] => [] | o :: t => d_peerup_of st o ++ d_peerups (d_step st o) t end.

(* ------------------------------------------------------------------ *)
(* the register of the e2e world: router entries and peer entries      *)

Definition wf_entry (uid : N) (i : info) : Prop :=
  (exists k, i = router_query uid k) \/ (exists rid p, rid <> uid /\ i = peer_query rid p).

Record rinv (uid : N) (r : reg) : Prop := MkRinv {
  ri_unit : uid < serial r;
  ri_nounit : infos r !! uid = None;
  ri_below : forall id i, infos r !! id = Some i -> id < serial r;
  ri_wf : forall id i, infos r !! id = Some i -> wf_entry uid i;
  ri_inj : forall id1 id2 i, infos r !! id1 = Some i -> infos r !! id2 = Some i -> id1 = id2 }.

Definition exact_on (uid : N) (m : info -> info -> bool) (q : info) : Prop :=
  forall i, wf_entry uid i -> m q i = true <-> i = q.

Lemma router_match_wf uid k : exact_on uid router_match (router_query uid k).
Proof.
  intros i [[k' ->]|(rid & p & Hne & ->)]; rewrite router_match_spec; cbn.
  - split.
    + intros (_ & _ & Ha). injection Ha as ->. reflexivity.
    + intros E. injection E as ->. eauto 8.
  - split.
    + intros (_ & Hp & _). congruence.
    + discriminate.
Qed.

Lemma peer_match_wf uid rid p : exact_on uid peer_match (peer_query rid p).
Proof.
  intros i [[k' ->]|(rid' & p' & Hne & ->)].
  - rewrite peer_match_spec; cbn. split.
    + intros ((? & ? & ? & _ & _ & Hs) & _). discriminate.
    + discriminate.
  - split.
    + rewrite peer_match_spec; cbn. intros (_ & H1 & H2 & H3 & H4). unfold peer_query. congruence.
    + intros ->. unfold peer_match, peer_query, optN_eqb, is_some. cbn. rewrite !N.eqb_refl. reflexivity.
Qed.

Lemma nodup_singleton {A} (l : list A) x : NoDup l -> x ∈ l -> (forall y, y ∈ l -> y = x) -> l = [x].
Proof.
  intros Hnd Hin Hall. destruct l as [|a l]; [inversion Hin|].
  assert (a = x) as -> by (apply Hall; left).
  destruct l as [|b l]; [reflexivity|].
  assert (b = x) as -> by (apply Hall; right; left).
  apply NoDup_cons in Hnd as [Hn _]. exfalso. apply Hn. left.
Qed.

Lemma find_all_unique m uid r q id :
  rinv uid r -> exact_on uid m q -> infos r !! id = Some q -> reg_find_all m r q = [id].
Proof.
  intros Hr Hm Hl. apply nodup_singleton.
  - apply NoDup_find_all.
  - apply elem_of_find_all. exists q. split; [exact Hl|]. apply Hm; [eapply ri_wf; eauto|reflexivity].
  - intros y Hy. apply elem_of_find_all in Hy as (i & Hi & Hmi).
    apply Hm in Hmi; [|eapply ri_wf; eauto]. subst i. eapply ri_inj; eauto.
Qed.

Lemma find_all_cases m uid r q :
  rinv uid r -> exact_on uid m q ->
  (exists id, infos r !! id = Some q /\ reg_find_all m r q = [id]) \/
  ((forall id, infos r !! id <> Some q) /\ reg_find_all m r q = []).
Proof.
  intros Hr Hm. destruct (reg_find_all m r q) as [|id l] eqn:E.
  - right. split; [|reflexivity]. intros id Hid.
    assert (Hin : id ∈ reg_find_all m r q).
    { apply elem_of_find_all. exists q. split; [exact Hid|]. apply Hm; [eapply ri_wf; eauto|reflexivity]. }
    rewrite E in Hin. inversion Hin.
  - left. exists id.
    assert (Hin : id ∈ reg_find_all m r q) by (rewrite E; left).
    apply elem_of_find_all in Hin as (i & Hi & Hmi). apply Hm in Hmi; [|eapply ri_wf; eauto]. subst i.
    split; [exact Hi|]. rewrite <- E. eapply find_all_unique; eauto.
Qed.

(* find-or-register of a well-formed query keeps the invariant, only ever adds the entry it returns *)
Lemma for_q_step m uid r q :
  rinv uid r -> wf_entry uid q -> exact_on uid m q -> serial r + 1 < two32 ->
  let res := find_or_register m r q in
  rinv uid res.2 /\ infos res.2 !! res.1 = Some q /\
  (res.2 = r \/ (infos res.2 = <[res.1 := q]> (infos r) /\ infos r !! res.1 = None)) /\
  serial r <= serial res.2 <= serial r + 1.
Proof.
  intros Hr Hq Hm Hs. cbv zeta. unfold find_or_register.
  destruct (find_all_cases m uid r q Hr Hm) as [(id & Hid & E)|[Hno E]]; rewrite E.
  - cbn [fst snd]. split; [exact Hr|]. split; [exact Hid|]. split; [left; reflexivity|lia].
  - assert (Hnone : infos r !! serial r = None).
    { destruct (infos r !! serial r) as [i|] eqn:El; [|reflexivity]. apply (ri_below _ _ Hr) in El. lia. }
    unfold reg_register, reg_update_info. cbn [fst snd infos serial]. rewrite Hnone.
    rewrite N.mod_small by lia.
    split; [|split; [apply lookup_insert|split; [right; split; reflexivity|lia]]].
    constructor; cbn [infos serial].
    + pose proof (ri_unit _ _ Hr). lia.
    + rewrite lookup_insert_ne; [apply (ri_nounit _ _ Hr)|]. pose proof (ri_unit _ _ Hr). lia.
    + intros id i Hl. apply lookup_insert_Some in Hl as [[<- _]|[_ Hl]]; [lia|]. apply (ri_below _ _ Hr) in Hl. lia.
    + intros id i Hl. apply lookup_insert_Some in Hl as [[_ <-]|[_ Hl]]; [exact Hq|]. eapply ri_wf; eauto.
    + intros id1 id2 i H1 H2.
      apply lookup_insert_Some in H1 as [[<- <-]|[Hn1 H1]]; apply lookup_insert_Some in H2 as [[<- E2]|[Hn2 H2]]; try reflexivity.
      * exfalso. apply (Hno id2). congruence.
      * exfalso. subst i. apply (Hno id1). exact H1.
      * eapply ri_inj; eauto.
Qed.

Lemma for_q_mono m r q : forall id i, infos r !! id = Some i ->
  (find_or_register m r q).2 = r \/ (infos (find_or_register m r q).2 = <[(find_or_register m r q).1 := q]> (infos r) /\ infos r !! (find_or_register m r q).1 = None) ->
  infos (find_or_register m r q).2 !! id = Some i.
Proof.
  intros id i Hl [->|[-> Hn]]; [exact Hl|]. rewrite lookup_insert_ne; [exact Hl|]. congruence.
Qed.

Lemma register_step uid r : rinv uid r -> serial r + 1 < two32 ->
  rinv uid (reg_register r).2 /\ infos (reg_register r).2 = infos r /\ serial (reg_register r).2 = serial r + 1.
Proof.
  intros Hr Hs. unfold reg_register. cbn [fst snd infos serial]. rewrite N.mod_small by lia.
  split; [|split; reflexivity]. constructor; cbn [infos serial].
  - pose proof (ri_unit _ _ Hr). lia.
  - apply (ri_nounit _ _ Hr).
  - intros id i Hl. apply (ri_below _ _ Hr) in Hl. lia.
  - apply (ri_wf _ _ Hr).
  - apply (ri_inj _ _ Hr).
Qed.

(* ------------------------------------------------------------------ *)
(* register, session table and the two records of a history            *)

Definition sess_ok (uid : N) (r : reg) (rt : gmap N (N * sm)) (acc : list (N * N)) : Prop :=
  forall k rid s, rt !! k = Some (rid, s) ->
    (k, rid) ∈ acc /\ infos r !! rid = Some (router_query uid k) /\
    forall p i, id_table s !! p = Some i -> infos r !! i = Some (peer_query rid p).

Record ginv (uid : N) (r : reg) (rt : gmap N (N * sm)) (acc : list (N * N)) (ups : list (N * pph * N)) : Prop := MkGinv {
  gi_r : rinv uid r;
  gi_sess : sess_ok uid r rt acc;
  gi_acc : forall k id, (k, id) ∈ acc -> infos r !! id = Some (router_query uid k);
  gi_ups : forall rid p id, (rid, p, id) ∈ ups -> infos r !! id = Some (peer_query rid p) /\ exists k, (k, rid) ∈ acc;
  gi_cov : forall id i, infos r !! id = Some i ->
     (exists k, i = router_query uid k /\ (k, id) ∈ acc) \/ (exists rid p, i = peer_query rid p /\ (rid, p, id) ∈ ups) }.

Lemma ginv_step uid r rt acc ups r' rt' dacc dups :
  ginv uid r rt acc ups ->
  rinv uid r' -> (forall id i, infos r !! id = Some i -> infos r' !! id = Some i) ->
  sess_ok uid r' rt' (acc ++ dacc) ->
  (forall k id, (k, id) ∈ dacc -> exists s, rt' !! k = Some (id, s)) ->
  (forall rid p id, (rid, p, id) ∈ dups -> exists k s, rt' !! k = Some (rid, s) /\ id_table s !! p = Some id) ->
  (forall id i, infos r' !! id = Some i -> infos r !! id = Some i \/
      (exists k, i = router_query uid k /\ (k, id) ∈ dacc) \/ (exists rid p, i = peer_query rid p /\ (rid, p, id) ∈ dups)) ->
  ginv uid r' rt' (acc ++ dacc) (ups ++ dups).
Proof.
  intros G Hr Hmono Hsess Hdacc Hdups Hcov. constructor.
  - exact Hr.
  - exact Hsess.
  - intros k id Hin. apply elem_of_app in Hin as [Hin|Hin].
    + apply Hmono. apply (gi_acc _ _ _ _ _ G). exact Hin.
    + destruct (Hdacc _ _ Hin) as [s Hs]. apply Hsess in Hs as (_ & Hs & _). exact Hs.
  - intros rid p id Hin. apply elem_of_app in Hin as [Hin|Hin].
    + destruct (gi_ups _ _ _ _ _ G _ _ _ Hin) as [H1 [k Hk]]. split; [apply Hmono, H1|]. exists k. apply elem_of_app. left. exact Hk.
    + destruct (Hdups _ _ _ Hin) as (k & s & Hs & Hp). apply Hsess in Hs as (Hk & _ & Hs). split; [apply Hs, Hp|]. exists k. exact Hk.
  - intros id i Hl. destruct (Hcov _ _ Hl) as [Ho|[(k & -> & Hk)|(rid & p & -> & Hp)]].
    + destruct (gi_cov _ _ _ _ _ G _ _ Ho) as [(k & -> & Hk)|(rid & p & -> & Hp)].
      * left. exists k. split; [reflexivity|]. apply elem_of_app. left. exact Hk.
      * right. exists rid, p. split; [reflexivity|]. apply elem_of_app. left. exact Hp.
    + left. exists k. split; [reflexivity|]. apply elem_of_app. right. exact Hk.
    + right. exists rid, p. split; [reflexivity|]. apply elem_of_app. right. exact Hp.
Qed.

Lemma sess_ok_mono uid r r' rt rt' acc acc' :
  sess_ok uid r rt acc ->
  (forall id i, infos r !! id = Some i -> infos r' !! id = Some i) ->
  (forall x, x ∈ acc -> x ∈ acc') ->
  (forall k v, rt' !! k = Some v -> rt !! k = Some v) ->
  sess_ok uid r' rt' acc'.
Proof.
  intros H Hm Ha Hr k rid s Hk. apply Hr in Hk. destruct (H _ _ _ Hk) as (H1 & H2 & H3).
  split; [apply Ha, H1|]. split; [apply Hm, H2|]. intros p i Hp. apply Hm, (H3 _ _ Hp).
Qed.

(* the register stays; sessions stay or go *)
Lemma ginv_shrink uid r rt rt' acc ups :
  ginv uid r rt acc ups -> (forall k v, rt' !! k = Some v -> rt !! k = Some v) -> ginv uid r rt' (acc ++ []) (ups ++ []).
Proof.
  intros G Hsub. eapply ginv_step; try exact G.
  - apply (gi_r _ _ _ _ _ G).
  - auto.
  - rewrite app_nil_r. eapply sess_ok_mono; [apply (gi_sess _ _ _ _ _ G)|auto|auto|exact Hsub].
  - intros k id Hin. inversion Hin.
  - intros rid p id Hin. inversion Hin.
  - intros id i Hl. left. exact Hl.
Qed.

Lemma id_table_init p : id_table sm_init !! p = None.
Proof. unfold id_table, sm_init. cbn [sm_peers]. rewrite fmap_empty. apply lookup_empty. Qed.

(* one Peer Up / message of a session: the ids of its table are the register's *)
Lemma sm_step_ginv uid r rid s m (k0 : N) :
  rinv uid r -> serial r + 1 < two32 -> rid <> uid ->
  (forall p i, id_table s !! p = Some i -> infos r !! i = Some (peer_query rid p)) ->
  let res := sm_step r rid s m in
  rinv uid res.1.1 /\ serial r <= serial res.1.1 <= serial r + 1 /\
  (forall id i, infos r !! id = Some i -> infos res.1.1 !! id = Some i) /\
  (forall p i, id_table res.1.2 !! p = Some i -> infos res.1.1 !! i = Some (peer_query rid p)) /\
  (forall id i, infos res.1.1 !! id = Some i -> infos r !! id = Some i \/
      exists p e, m = MPeerUp p e /\ i = peer_query rid p /\ id_table res.1.2 !! p = Some id) /\
  k0 = k0.
Proof.
  intros Hr Hs Hne Ht. cbv zeta.
  destruct (sm_istep r rid s m k0 ∅) as (_ & _ & Hsim).
  destruct (sm_step r rid s m) as [[r' s'] out]. cbn [fst snd].
  inversion Hsim as [s1 o1 Hid _ | p e id r1 s1 o1 Hm Hf _ Hid | p i s1 o1 Hp Hid _ | p i u s1 o1 Hp Hid _ | ms s1 o1 Hid _ _]; subst.
  - split; [exact Hr|]. split; [lia|]. split; [auto|]. split; [rewrite Hid; exact Ht|]. split; [auto|reflexivity].
  - assert (Hwf : wf_entry uid (peer_query rid p)) by (right; exists rid, p; split; [exact Hne|reflexivity]).
    destruct (for_q_step peer_match uid r (peer_query rid p) Hr Hwf (peer_match_wf uid rid p) Hs) as (Q1 & Q2 & Q3 & Q4).
    rewrite Hf in Q1, Q2, Q3, Q4. cbn [fst snd] in Q1, Q2, Q3, Q4.
    assert (Hmono : forall x i, infos r !! x = Some i -> infos r' !! x = Some i).
    { intros x i Hx. destruct Q3 as [->|[-> Hn]]; [exact Hx|]. rewrite lookup_insert_ne; [exact Hx|]. congruence. }
    assert (Ht' : forall p0 i, id_table s' !! p0 = Some i -> infos r' !! i = Some (peer_query rid p0)).
    { intros p0 i Hp0. destruct Hid as [[Hid _]|[Hid _]]; rewrite Hid in Hp0.
      - apply Hmono, Ht, Hp0.
      - apply lookup_insert_Some in Hp0 as [[<- <-]|[_ Hp0]]; [exact Q2|]. apply Hmono, Ht, Hp0. }
    split; [exact Q1|]. split; [exact Q4|]. split; [exact Hmono|]. split; [exact Ht'|]. split; [|reflexivity].
    intros x i Hx. destruct Q3 as [->|[Hins Hn]]; [left; exact Hx|].
    rewrite Hins in Hx. apply lookup_insert_Some in Hx as [[<- <-]|[_ Hx]]; [|left; exact Hx].
    right. exists p, e. split; [reflexivity|]. split; [reflexivity|].
    assert (Hsome : is_Some (id_table s' !! p)).
    { destruct Hid as [[Hid Hs']|[Hid _]]; rewrite Hid; [exact Hs'|]. rewrite lookup_insert. eauto. }
    destruct Hsome as [i' Hi']. rewrite Hi'. f_equal.
    apply (ri_inj _ _ Q1 i' id (peer_query rid p)); [apply Ht', Hi'|exact Q2].
  - split; [exact Hr|]. split; [lia|]. split; [auto|]. split; [|split; [auto|reflexivity]].
    intros p0 i0 Hp0. rewrite Hid in Hp0. apply lookup_delete_Some in Hp0 as [_ Hp0]. apply Ht, Hp0.
  - split; [exact Hr|]. split; [lia|]. split; [auto|]. split; [rewrite Hid; exact Ht|]. split; [auto|reflexivity].
  - split; [exact Hr|]. split; [lia|]. split; [auto|]. split; [|split; [auto|reflexivity]].
    intros p0 i0 Hp0. rewrite Hid, lookup_empty in Hp0. discriminate.
Qed.

(* ------------------------------------------------------------------ *)
(* a step of the pipeline                                              *)

Lemma wstep_ginv w o acc ups :
  ginv (w_unit w) (w_reg w) (w_routers w) acc ups -> serial (w_reg w) + 1 < two32 ->
  let w' := (wstep w o).1 in
  w_unit w' = w_unit w /\ serial (w_reg w) <= serial (w_reg w') <= serial (w_reg w) + 1 /\
  ginv (w_unit w) (w_reg w') (w_routers w') (acc ++ w_accept_of w o) (ups ++ w_peerup_of w o).
Proof.
  intros G Hs. pose proof (gi_r _ _ _ _ _ G) as Hr. cbv zeta.
  destruct o as [k|k m|k|b|b u|b|af pfx|k].
  - (* accept loop *)
    unfold w_accept_of, w_peerup_of. cbn [wstep].
    assert (Hwf : wf_entry (w_unit w) (router_query (w_unit w) k)) by (left; eauto).
    destruct (for_q_step router_match _ _ _ Hr Hwf (router_match_wf (w_unit w) k) Hs) as (Q1 & Q2 & Q3 & Q4).
    destruct (find_or_register router_match (w_reg w) (router_query (w_unit w) k)) as [rid r'] eqn:E.
    cbn [fst snd w_unit w_reg w_routers] in *. rewrite lookup_insert.
    split; [reflexivity|]. split; [exact Q4|].
    assert (Hmono : forall x i, infos (w_reg w) !! x = Some i -> infos r' !! x = Some i).
    { intros x i Hx. destruct Q3 as [->|[-> Hn]]; [exact Hx|]. rewrite lookup_insert_ne; [exact Hx|]. congruence. }
    eapply ginv_step; try exact G; try exact Q1; try exact Hmono.
    + intros k' rid' s' Hk'. apply lookup_insert_Some in Hk' as [[<- Heq]|[Hne Hk']].
      * injection Heq as <- <-. split; [apply elem_of_app; right; left|]. split; [exact Q2|].
        intros p i Hp. rewrite id_table_init in Hp. discriminate.
      * eapply (sess_ok_mono _ _ _ _ _ _ _ (gi_sess _ _ _ _ _ G) Hmono); [|intros ? ? Hv; exact Hv|exact Hk'].
        intros x Hx. apply elem_of_app. left. exact Hx.
    + intros k' id Hin. apply elem_of_list_singleton in Hin. injection Hin as -> ->. exists sm_init. apply lookup_insert.
    + intros ? ? ? Hin. inversion Hin.
    + intros x i Hx. destruct Q3 as [->|[Hins Hn]]; [left; exact Hx|].
      rewrite Hins in Hx. apply lookup_insert_Some in Hx as [[<- <-]|[_ Hx]]; [|left; exact Hx].
      right. left. exists k. split; [reflexivity|]. left.
  - (* a BMP message *)
    destruct (w_routers w !! k) as [[rid s]|] eqn:Ek.
    + assert (Hw : let res := sm_step (w_reg w) rid s m in
                   w_reg (wstep w (WMsg k m)).1 = res.1.1 /\ w_unit (wstep w (WMsg k m)).1 = w_unit w /\
                   w_routers (wstep w (WMsg k m)).1 = <[k := (rid, res.1.2)]> (w_routers w)).
      { cbv zeta. cbn [wstep]. rewrite Ek. destruct (sm_step (w_reg w) rid s m) as [[r' s'] out]. cbn. auto. }
      cbv zeta in Hw. destruct Hw as (Hw1 & Hw2 & Hw3).
      destruct (gi_sess _ _ _ _ _ G _ _ _ Ek) as (Hacc & Hrid & Ht).
      assert (Hne : rid <> w_unit w).
      { intros ->. rewrite (ri_nounit _ _ Hr) in Hrid. discriminate. }
      destruct (sm_step_ginv (w_unit w) (w_reg w) rid s m 0 Hr Hs Hne Ht) as (Q1 & Q2 & Q3 & Q4 & Q5 & _).
      assert (Hacc0 : w_accept_of w (WMsg k m) = []) by reflexivity.
      assert (Hups : w_peerup_of w (WMsg k m) =
                     match m with
                     | MPeerUp p _ => match sm_peers (sm_step (w_reg w) rid s m).1.2 !! p with Some pe => [(rid, p, pe_id pe)] | None => [] end
                     | _ => [] end).
      { unfold w_peerup_of. destruct m; try reflexivity. rewrite Hw3, lookup_insert. reflexivity. }
      rewrite Hw1, Hw2, Hw3, Hacc0, Hups. clear Hw1 Hw2 Hw3 Hacc0 Hups.
      split; [reflexivity|]. split; [exact Q2|].
      eapply ginv_step; try exact G; try exact Q1; try exact Q3.
      * intros k' rid' s' Hk'. apply lookup_insert_Some in Hk' as [[<- Heq]|[Hne' Hk']].
        -- injection Heq as <- <-. split; [apply elem_of_app; left; exact Hacc|]. split; [apply Q3, Hrid|exact Q4].
        -- eapply (sess_ok_mono _ _ _ _ _ _ _ (gi_sess _ _ _ _ _ G) Q3); [|intros ? ? Hv; exact Hv|exact Hk'].
           intros x Hx. apply elem_of_app. left. exact Hx.
      * intros ? ? Hin. inversion Hin.
      * intros rid' p id Hin. destruct m as [| |p0|p0 e|p0|p0 u]; try (inversion Hin; fail).
        destruct (sm_peers (sm_step (w_reg w) rid s (MPeerUp p0 e)).1.2 !! p0) as [pe|] eqn:Ep; [|inversion Hin].
        apply elem_of_list_singleton in Hin. injection Hin as -> -> ->.
        exists k, (sm_step (w_reg w) rid s (MPeerUp p0 e)).1.2. split; [apply lookup_insert|].
        rewrite id_table_lookup, Ep. reflexivity.
      * intros x i Hx. destruct (Q5 _ _ Hx) as [Ho|(p & e & -> & -> & Hp)]; [left; exact Ho|].
        right. right. exists rid, p. split; [reflexivity|].
        rewrite id_table_lookup in Hp. destruct (sm_peers _ !! p) as [pe|]; [|discriminate].
        injection Hp as <-. left.
    + assert (Hw : (wstep w (WMsg k m)).1 = w) by (cbn [wstep]; rewrite Ek; reflexivity).
      assert (Hups : w_peerup_of w (WMsg k m) = []).
      { unfold w_peerup_of. destruct m; try reflexivity. rewrite Hw, Ek. reflexivity. }
      rewrite Hw, Hups. split; [reflexivity|]. split; [lia|]. apply (ginv_shrink _ _ _ _ _ _ G). auto.
  - (* disconnect *)
    assert (Hw : w_unit (wstep w (WDisconnect k)).1 = w_unit w /\ w_reg (wstep w (WDisconnect k)).1 = w_reg w /\
                 forall j v, w_routers (wstep w (WDisconnect k)).1 !! j = Some v -> w_routers w !! j = Some v).
    { cbn [wstep]. destruct (w_routers w !! k) as [[rid s]|] eqn:Ek; cbn; [|auto].
      split; [reflexivity|]. split; [reflexivity|]. intros j v Hj. apply lookup_delete_Some in Hj as [_ Hj]. exact Hj. }
    destruct Hw as (-> & -> & Hsub). split; [reflexivity|]. split; [lia|]. apply (ginv_shrink _ _ _ _ _ _ G Hsub).
  - (* BGP session: a fresh id without an entry *)
    cbn [wstep]. destruct (register_step _ _ Hr Hs) as (Q1 & Q2 & Q3).
    destruct (reg_register (w_reg w)) as [id r'] eqn:E. cbn [fst snd w_unit w_reg w_routers] in *.
    split; [reflexivity|]. split; [lia|].
    unfold w_accept_of, w_peerup_of.
    eapply ginv_step; try exact G; try exact Q1.
    + intros x i. rewrite Q2. auto.
    + rewrite app_nil_r. eapply sess_ok_mono; [apply (gi_sess _ _ _ _ _ G)| |auto|auto]. intros x i. rewrite Q2. auto.
    + intros ? ? Hin. inversion Hin.
    + intros ? ? ? Hin. inversion Hin.
    + intros x i. rewrite Q2. auto.
  - cbn [wstep]. destruct (w_bgp w !! b) as [[id c]|]; destruct u; cbn [fst w_unit w_reg w_routers];
      (split; [reflexivity|]); (split; [lia|]); apply (ginv_shrink _ _ _ _ _ _ G); auto.
  - cbn [wstep]. destruct (w_bgp w !! b) as [[id c]|]; cbn [fst w_unit w_reg w_routers];
      (split; [reflexivity|]); (split; [lia|]); apply (ginv_shrink _ _ _ _ _ _ G); auto.
  - cbn [wstep fst]. split; [reflexivity|]. split; [lia|]. apply (ginv_shrink _ _ _ _ _ _ G); auto.
  - cbn [wstep fst]. split; [reflexivity|]. split; [lia|]. apply (ginv_shrink _ _ _ _ _ _ G); auto.
Qed.

(* ------------------------------------------------------------------ *)
(* what the invariant says                                             *)

Lemma ginv_facts uid r rt acc ups :
  ginv uid r rt acc ups ->
  (forall k id, (k, id) ∈ acc -> reg_find_routers r (router_query uid k) = [id] /\ id ∈ reg_ids_for_parent r uid) /\
  (forall k id k' id', (k, id) ∈ acc -> (k', id') ∈ acc -> (k = k' <-> id = id')) /\
  (forall id, id ∈ reg_ids_for_parent r uid <-> exists k, (k, id) ∈ acc) /\
  (forall k rid s, rt !! k = Some (rid, s) -> (k, rid) ∈ acc) /\
  (forall rid p id, (rid, p, id) ∈ ups ->
     (exists k, (k, rid) ∈ acc) /\ reg_find_peers r (peer_query rid p) = [id] /\ id ∈ reg_ids_for_parent r rid) /\
  (forall rid p id p' id', (rid, p, id) ∈ ups -> (rid, p', id') ∈ ups -> (id = id' <-> peer_query rid p = peer_query rid p')) /\
  (forall rid id, (exists k, (k, rid) ∈ acc) -> (id ∈ reg_ids_for_parent r rid <-> exists p, (rid, p, id) ∈ ups)) /\
  (forall k rid s p pe, rt !! k = Some (rid, s) -> sm_peers s !! p = Some pe -> reg_find_peers r (peer_query rid p) = [pe_id pe]).
Proof.
  intros G. pose proof (gi_r _ _ _ _ _ G) as Hr.
  assert (F1 : forall k id, (k, id) ∈ acc -> reg_find_routers r (router_query uid k) = [id] /\ id ∈ reg_ids_for_parent r uid).
  { intros k id Hin. pose proof (gi_acc _ _ _ _ _ G _ _ Hin) as Hl. split.
    - apply (find_all_unique router_match uid r _ id Hr (router_match_wf uid k) Hl).
    - apply elem_of_ids_for_parent. exists (router_query uid k). split; [exact Hl|reflexivity]. }
  assert (F5 : forall rid p id, (rid, p, id) ∈ ups ->
     (exists k, (k, rid) ∈ acc) /\ reg_find_peers r (peer_query rid p) = [id] /\ id ∈ reg_ids_for_parent r rid).
  { intros rid p id Hin. destruct (gi_ups _ _ _ _ _ G _ _ _ Hin) as [Hl Hk]. split; [exact Hk|]. split.
    - apply (find_all_unique peer_match uid r _ id Hr (peer_match_wf uid rid p) Hl).
    - apply elem_of_ids_for_parent. exists (peer_query rid p). split; [exact Hl|reflexivity]. }
  split; [exact F1|]. split.
  { intros k id k' id' H1 H2. pose proof (gi_acc _ _ _ _ _ G _ _ H1) as L1. pose proof (gi_acc _ _ _ _ _ G _ _ H2) as L2. split.
    - intros <-. eapply ri_inj; eauto.
    - intros <-. rewrite L1 in L2. injection L2 as <-. reflexivity. }
  split.
  { intros id. split; [|intros [k Hk]; apply (F1 _ _ Hk)].
    intros Hin. apply elem_of_ids_for_parent in Hin as (i & Hi & Hp).
    destruct (gi_cov _ _ _ _ _ G _ _ Hi) as [(k & -> & Hk)|(rid & p & -> & _)]; [eauto|].
    exfalso. cbn in Hp. injection Hp as ->.
    destruct (ri_wf _ _ Hr _ _ Hi) as [[k E]|(rid' & p' & Hne & E)]; [discriminate|].
    apply Hne. unfold peer_query in E. congruence. }
  split.
  { intros k rid s Hk. apply (gi_sess _ _ _ _ _ G) in Hk as [Hk _]. exact Hk. }
  split; [exact F5|]. split.
  { intros rid p id p' id' H1 H2. destruct (gi_ups _ _ _ _ _ G _ _ _ H1) as [L1 _]. destruct (gi_ups _ _ _ _ _ G _ _ _ H2) as [L2 _]. split.
    - intros <-. rewrite L1 in L2. injection L2 as E. unfold peer_query. congruence.
    - intros E. rewrite <- E in L2. eapply ri_inj; eauto. }
  split.
  { intros rid id [k Hk]. split; [|intros [p Hp]; apply (F5 _ _ _ Hp)].
    intros Hin. apply elem_of_ids_for_parent in Hin as (i & Hi & Hp).
    destruct (gi_cov _ _ _ _ _ G _ _ Hi) as [(k' & -> & _)|(rid' & p & -> & Hin)].
    - exfalso. cbn in Hp. injection Hp as <-.
      pose proof (gi_acc _ _ _ _ _ G _ _ Hk) as L. rewrite (ri_nounit _ _ Hr) in L. discriminate.
    - cbn in Hp. injection Hp as ->. eauto. }
  intros k rid s p pe Hk Hp. apply (gi_sess _ _ _ _ _ G) in Hk as (_ & _ & Ht).
  apply (find_all_unique peer_match uid r _ _ Hr (peer_match_wf uid rid p)). apply Ht.
  rewrite id_table_lookup, Hp. reflexivity.
Qed.

(* ------------------------------------------------------------------ *)
(* a step and a history of the world with second connections           *)

Lemma d_step_world st o :
  let w := es_w (ds_e st) in
  let w' := es_w (ds_e (d_step st o)) in
  let w1 := match d_wop st o with Some wo => (wstep w wo).1 | None => w end in
  w_reg w' = w_reg w1 /\ w_unit w' = w_unit w1 /\ w_routers w' = w_routers w1.
Proof.
  cbv zeta. destruct o as [[wo|s|y|n|]|k|k].
  - destruct wo; cbn [d_step d_wop wop_router]; try destruct (d_live st k); try destruct (ds_old st !! k);
      cbn [ds_e]; rewrite ?e_step_w; auto.
  - cbn [d_step d_wop ds_e e_step es_w]. auto.
  - cbn [d_step d_wop ds_e e_step es_w]. auto.
  - cbn [d_step d_wop ds_e e_step es_w]. auto.
  - cbn [d_step d_wop ds_e e_step es_w]. auto.
  - cbn [d_step d_wop]. destruct (d_live st k) as [[rid s]|]; destruct (ds_old st !! k); cbn [ds_e]; rewrite ?e_step_w; auto.
  - cbn [d_step d_wop]. destruct (ds_old st !! k); [|auto].
    destruct (d_live st k); cbn [ds_e e_set_s e_deliver es_w w_reg w_unit w_routers]; auto.
Qed.

Lemma d_step_old st o k rid :
  ds_old (d_step st o) !! k = Some rid -> ds_old st !! k = Some rid \/ exists s, d_live st k = Some (rid, s).
Proof.
  destruct o as [[wo|s|y|n|]|k'|k']; try (cbn [d_step ds_old]; auto; fail).
  - destruct wo; cbn [d_step]; try destruct (d_live st k0); cbn [ds_old]; auto.
  - cbn [d_step]. destruct (d_live st k') as [[rid' s]|] eqn:El; destruct (ds_old st !! k') eqn:Eo; cbn [ds_old]; auto.
    intros H. apply lookup_insert_Some in H as [[<- <-]|[_ H]]; eauto.
  - cbn [d_step]. destruct (ds_old st !! k') eqn:Eo; [|auto].
    destruct (d_live st k'); cbn [ds_old]; intros H; apply lookup_delete_Some in H as [_ H]; auto.
Qed.

Definition dinv (st : dstate) (acc : list (N * N)) (ups : list (N * pph * N)) : Prop :=
  ginv (d_unit st) (d_reg st) (w_routers (es_w (ds_e st))) acc ups /\
  forall k rid, ds_old st !! k = Some rid -> (k, rid) ∈ acc.

Lemma d_step_inv st o acc ups :
  dinv st acc ups -> serial (d_reg st) + 1 < two32 ->
  dinv (d_step st o) (acc ++ d_accept_of st o) (ups ++ d_peerup_of st o) /\
  d_unit (d_step st o) = d_unit st /\ serial (d_reg (d_step st o)) <= serial (d_reg st) + 1.
Proof.
  intros [G Ho] Hs. destruct (d_step_world st o) as (E1 & E2 & E3).
  assert (Hold : forall k rid, ds_old (d_step st o) !! k = Some rid -> (k, rid) ∈ acc ++ d_accept_of st o).
  { intros k rid H. apply elem_of_app. left. apply d_step_old in H as [H|[s H]]; [apply Ho, H|].
    apply (gi_sess _ _ _ _ _ G) in H as [H _]. exact H. }
  unfold dinv, d_reg, d_unit, d_accept_of, d_peerup_of in *. rewrite E1, E2, E3.
  destruct (d_wop st o) as [wo|].
  - destruct (wstep_ginv _ wo _ _ G Hs) as (Q1 & Q2 & Q3). rewrite Q1. split; [split; [exact Q3|exact Hold]|]. split; [reflexivity|lia].
  - split; [split; [|exact Hold]|split; [reflexivity|lia]]. apply (ginv_shrink _ _ _ _ _ _ G). auto.
Qed.

Lemma d_run_inv h : forall st acc ups,
  dinv st acc ups -> serial (d_reg st) + N.of_nat (length h) < two32 ->
  dinv (d_run st h) (acc ++ d_accepts st h) (ups ++ d_peerups st h) /\ d_unit (d_run st h) = d_unit st.
Proof.
  induction h as [|o h IH]; intros st acc ups D Hs.
  - cbn [d_run fold_left d_accepts d_peerups]. rewrite !app_nil_r. split; [exact D|reflexivity].
  - cbn [length] in Hs. rewrite Nat2N.inj_succ in Hs.
    destruct (d_step_inv st o acc ups D ltac:(lia)) as (D' & Hu & Hser).
    change (d_run st (o :: h)) with (d_run (d_step st o) h). cbn [d_accepts d_peerups]. rewrite !app_assoc.
    destruct (IH _ _ _ D' ltac:(lia)) as [D'' Hu']. split; [exact D''|]. rewrite Hu'. exact Hu.
Qed.

Lemma d_init_inv s0 n0 : dinv (d_init s0 n0) [] [] /\ serial (d_reg (d_init s0 n0)) = 2 /\ d_unit (d_init s0 n0) = 1.
Proof.
  split; [|split; reflexivity]. split; [|intros k rid H; cbn in H; rewrite lookup_empty in H; discriminate].
  change (d_unit (d_init s0 n0)) with 1. change (d_reg (d_init s0 n0)) with (MkReg 2 ∅).
  change (w_routers (es_w (ds_e (d_init s0 n0)))) with (∅ : gmap N (N * sm)).
  constructor.
  - constructor; cbn [serial infos].
    + lia.
    + apply lookup_empty.
    + intros id i H. rewrite lookup_empty in H. discriminate.
    + intros id i H. rewrite lookup_empty in H. discriminate.
    + intros id1 id2 i H. rewrite lookup_empty in H. discriminate.
  - intros k rid s H. rewrite lookup_empty in H. discriminate.
  - intros k id H. inversion H.
  - intros rid p id H. inversion H.
  - intros id i H. cbn [infos] in H. rewrite lookup_empty in H. discriminate.
Qed.

(* C14 over every history of the e2e world with second connections *)
Theorem one_id_per_router_over_histories s0 n0 h :
  N.of_nat (length h) < two32 - 2 ->
  let st0 := d_init s0 n0 in
  let st := d_run st0 h in
  let r := d_reg st in
  let u := d_unit st in
  let acc := d_accepts st0 h in
  let ups := d_peerups st0 h in
  u = 1 /\
  (forall k id, (k, id) ∈ acc -> reg_find_routers r (router_query u k) = [id] /\ id ∈ reg_ids_for_parent r u) /\
  (forall k id k' id', (k, id) ∈ acc -> (k', id') ∈ acc -> (k = k' <-> id = id')) /\
  NoDup (reg_ids_for_parent r u) /\
  (forall id, id ∈ reg_ids_for_parent r u <-> exists k, (k, id) ∈ acc) /\
  (forall k rid s, d_live st k = Some (rid, s) -> (k, rid) ∈ acc) /\
  (forall k rid, d_old st k = Some rid -> (k, rid) ∈ acc) /\
  (forall rid p id, (rid, p, id) ∈ ups ->
     (exists k, (k, rid) ∈ acc) /\ reg_find_peers r (peer_query rid p) = [id] /\ id ∈ reg_ids_for_parent r rid) /\
  (forall rid p id p' id', (rid, p, id) ∈ ups -> (rid, p', id') ∈ ups -> (id = id' <-> peer_query rid p = peer_query rid p')) /\
  (forall rid, NoDup (reg_ids_for_parent r rid)) /\
  (forall rid id, (exists k, (k, rid) ∈ acc) -> (id ∈ reg_ids_for_parent r rid <-> exists p, (rid, p, id) ∈ ups)) /\
  (forall k rid s p pe, d_live st k = Some (rid, s) -> sm_peers s !! p = Some pe -> reg_find_peers r (peer_query rid p) = [pe_id pe]).
Proof.
  intros Hlen. cbv zeta.
  destruct (d_init_inv s0 n0) as (D0 & Hs0 & Hu0).
  destruct (d_run_inv h _ _ _ D0) as [[G Hold] Hu].
  { rewrite Hs0. unfold two32 in *. lia. }
  cbn [app] in G, Hold. rewrite Hu0 in Hu.
  destruct (ginv_facts _ _ _ _ _ G) as (F1 & F2 & F3 & F4 & F5 & F6 & F7 & F8).
  split; [exact Hu|]. split; [exact F1|]. split; [exact F2|]. split; [apply NoDup_ids_for_parent|]. split; [exact F3|].
  split; [exact F4|]. split; [exact Hold|]. split; [exact F5|]. split; [exact F6|].
  split; [intros rid; apply NoDup_ids_for_parent|]. split; [exact F7|exact F8].
Qed.

(* ------------------------------------------------------------------ *)
(* the two records are not vacuous                                     *)

(* every connection the accept loop takes is recorded, with the id find-or-register gave it *)
Lemma accept_recorded w k :
  w_accept_of w (WConnect k) = [(k, (find_or_register router_match (w_reg w) (router_query (w_unit w) k)).1)].
Proof.
  unfold w_accept_of. cbn [wstep]. destruct (find_or_register _ _ _) as [rid r']. cbn [fst w_routers].
  rewrite lookup_insert. reflexivity.
Qed.

Lemma second_connection_recorded st k : d_live st k <> None -> d_old st k = None ->
  exists id, d_accept_of st (DSecond k) = [(k, id)] /\ d_rid (d_step st (DSecond k)) k = Some id.
Proof.
  intros Hl Ho. unfold d_old in Ho. unfold d_accept_of, d_rid. cbn [d_wop d_step].
  destruct (d_live st k) as [[rid s]|] eqn:El; [|congruence]. rewrite Ho, accept_recorded.
  eexists. split; [reflexivity|]. unfold d_live. cbn [ds_e]. rewrite e_step_w. cbn [wstep].
  destruct (find_or_register _ _ _) as [rid' r']. cbn [fst w_routers]. rewrite lookup_insert. reflexivity.
Qed.

(* every Peer Up that a session in its dump or update phase receives is recorded *)
Lemma peer_up_recorded w k rid s p e :
  w_routers w !! k = Some (rid, s) -> live s ->
  exists id, w_peerup_of w (WMsg k (MPeerUp p e)) = [(rid, p, id)].
Proof.
  intros Ek Hl. unfold w_peerup_of. cbn [wstep]. rewrite Ek. rewrite sm_step_live by exact Hl.
  cbn [live_step]. unfold peer_up. destruct (find_or_register _ _ _) as [id r'].
  destruct (sm_peers s !! p) as [pe|] eqn:Ep; cbn [invalid with_metrics fst snd w_routers]; rewrite lookup_insert; cbn [sm_peers].
  - unfold with_metrics. cbn [sm_peers]. rewrite Ep. eauto.
  - rewrite lookup_insert. eauto.
Qed.

(* a history with everything in it: router 0 connects, two peers come up; router 5 and a BGP session; router 0 connects a
   second time, its peers again - one of them under another BGP id / policy flag / distinguisher (C02-1: same id) -; the old
   connection ends; a reload; disconnect; reconnect; a peer again *)
Definition ids_pA : pph := (0, 0, 0, 0, 1, 65001, 1).
Definition ids_pB : pph := (0, 0, 0, 0, 2, 65002, 2).
Definition ids_pA' : pph := (0, 1, 0, 7, 1, 65001, 9).
Definition ids_example : list dop :=
  [DE (EW (WConnect 0)); DE (EW (WMsg 0 MInit)); DE (EW (WMsg 0 (MPeerUp ids_pA false))); DE (EW (WMsg 0 (MPeerUp ids_pB false)));
   DE (EW (WConnect 5)); DE (EW (WBgpOpen 3));
   DSecond 0; DE (EW (WMsg 0 MInit)); DE (EW (WMsg 0 (MPeerUp ids_pA false))); DE (EW (WMsg 0 (MPeerUp ids_pA' false)));
   DOldEnds 0; DE EReload; DE (EW (WDisconnect 0)); DE (EW (WConnect 0)); DE (EW (WMsg 0 MInit)); DE (EW (WMsg 0 (MPeerUp ids_pB true)))].

Lemma ids_example_facts :
  let st0 := d_init SNone 0 in
  let st := d_run st0 ids_example in
  N.of_nat (length ids_example) < two32 - 2 /\
  d_accepts st0 ids_example = [(0, 2); (5, 5); (0, 2); (0, 2)] /\
  d_peerups st0 ids_example = [(2, ids_pA, 3); (2, ids_pB, 4); (2, ids_pA, 3); (2, ids_pA', 3); (2, ids_pB, 4)] /\
  reg_ids_for_parent (d_reg st) 1 = [5; 2] /\ reg_ids_for_parent (d_reg st) 2 = [3; 4] /\
  serial (d_reg st) = 7 /\ d_rid st 0 = Some 2.
Proof. vm_compute. repeat split; reflexivity. Qed.

(* the hypothesis of reconnect_before_cleanup_keeps_id (E2eProofs.v) holds after every history *)
Theorem live_router_lookup_exact s0 n0 h k rid s :
  N.of_nat (length h) < two32 - 2 ->
  let st := d_run (d_init s0 n0) h in
  d_live st k = Some (rid, s) ->
  reg_find_routers (w_reg (es_w (ds_e st))) (router_query (w_unit (es_w (ds_e st))) k) = [rid].
Proof.
  intros Hlen st Hl. destruct (one_id_per_router_over_histories s0 n0 h Hlen) as (_ & F1 & _ & _ & _ & F4 & _).
  apply (F1 k rid). apply (F4 k rid s). exact Hl.
Qed.

Theorem reconnect_before_cleanup_keeps_id_over_histories s0 n0 h k rid s :
  N.of_nat (length h) < two32 - 2 ->
  let st := d_run (d_init s0 n0) h in
  d_live st k = Some (rid, s) -> d_old st k = None ->
  let st' := d_step st (DSecond k) in
  d_rid st' k = Some rid /\ d_old st' k = Some rid /\
  w_reg (es_w (ds_e st')) = w_reg (es_w (ds_e st)) /\
  reg_find_routers (w_reg (es_w (ds_e st'))) (router_query (w_unit (es_w (ds_e st'))) k) = [rid] /\
  reg_ids_for_parent (w_reg (es_w (ds_e st'))) (w_unit (es_w (ds_e st'))) = reg_ids_for_parent (w_reg (es_w (ds_e st))) (w_unit (es_w (ds_e st))).
Proof.
  intros Hlen st Hl Ho. apply (reconnect_before_cleanup_keeps_id st k rid s Hl Ho).
  apply (live_router_lookup_exact s0 n0 h k rid s Hlen Hl).
Qed.
