(* C15, the accept loops' counters: bmp-tcp-in / bgp-tcp-in `connection_accepted_count`
   (status_reporter.rs listener_connection_accepted, called by the accept loop of unit.rs for
   every connection the listener hands out) = the number of connections made, over all histories
   of the pipeline models of E2eModel.v (uc_step: BMP routers; b_step: BGP speakers). *)
From stdpp Require Import gmap.
From Coq Require Import NArith Lia.
From RV Require Import Pipe.PipeModel E2e.E2eModel.

(* ---- bmp-tcp-in ---- *)
Definition uc_accepts (u : ucount) (o : wop) : bool :=
  match o with WConnect k => negb (bool_decide (k ∈ uc_live u)) | _ => false end.
Fixpoint uc_accept_count (u : ucount) (l : list wop) : N :=
  match l with [] => 0 | o :: t => (if uc_accepts u o then 1 else 0) + uc_accept_count (uc_step u o) t end.

Lemma uc_step_accepted u o : uc_accepted (uc_step u o) = (uc_accepted u + if uc_accepts u o then 1 else 0)%N.
Proof.
  destruct o; cbn [uc_step uc_accepts]; try (cbn; lia); case_bool_decide; cbn; lia.
Qed.

Lemma uc_accepted_counts_connections l : forall u,
  uc_accepted (uc_run u l) = (uc_accepted u + uc_accept_count u l)%N.
Proof.
  induction l as [|o l IH]; intros u; cbn [uc_run fold_left uc_accept_count]; [lia|].
  fold (uc_run (uc_step u o) l). rewrite IH, uc_step_accepted. lia.
Qed.

Lemma uc_accepted_monotone l o u : (uc_accepted (uc_run u l) <= uc_accepted (uc_run u (l ++ [o])))%N.
Proof. unfold uc_run. rewrite fold_left_app. cbn [fold_left]. rewrite uc_step_accepted. lia. Qed.

(* ---- bgp-tcp-in ---- *)
Definition b_accepts (st : bstate) (o : bop) : bool :=
  match o with
  | BOpen k => is_bgp_addr k && match bs_sess st !! k with Some _ => false | None => true end
  | _ => false
  end.
Fixpoint b_accept_count (st : bstate) (h : list bop) : N :=
  match h with [] => 0 | o :: t => (if b_accepts st o then 1 else 0) + b_accept_count (b_step st o) t end.

Lemma b_step_accepted st o : bs_accepted (b_step st o) = (bs_accepted st + if b_accepts st o then 1 else 0)%N.
Proof.
  destruct o as [eo|k v|a|k|k u|k|unheard]; cbn [b_step b_accepts].
  - destruct eo; cbn [bs_accepted]; lia.
  - cbn [bs_accepted]; lia.
  - cbn [bs_accepted]; lia.
  - destruct (is_bgp_addr k); cbn [negb andb]; [|lia].
    destruct (bs_sess st !! k); [lia|]. destruct (bc_peers (bs_cfg st) !! k); cbn [bs_accepted]; lia.
  - destruct (bs_sess st !! k); cbn [bs_accepted]; lia.
  - destruct (bs_sess st !! k); cbn [bs_accepted]; lia.
  - cbn [bs_accepted]; lia.
Qed.

Lemma b_accepted_counts_connections h : forall st,
  bs_accepted (b_run st h) = (bs_accepted st + b_accept_count st h)%N.
Proof.
  induction h as [|o h IH]; intros st; cbn [b_run fold_left b_accept_count]; [lia|].
  fold (b_run (b_step st o) h). rewrite IH, b_step_accepted. lia.
Qed.

Lemma b_accepted_monotone h o st : (bs_accepted (b_run st h) <= bs_accepted (b_run st (h ++ [o])))%N.
Proof. unfold b_run. rewrite fold_left_app. cbn [fold_left]. rewrite b_step_accepted. lia. Qed.

Lemma accepted_monotone l o u h bo st :
  (uc_accepted (uc_run u l) <= uc_accepted (uc_run u (l ++ [o])))%N /\
  (bs_accepted (b_run st h) <= bs_accepted (b_run st (h ++ [bo])))%N.
Proof. split; [apply uc_accepted_monotone|apply b_accepted_monotone]. Qed.

(* a configured peer, an unconfigured one (accepted, then dropped by the handler), a second connection of a connected address
   (the engine makes none), a close, the address again, an address that is none of the engine's: three connections accepted *)
Lemma b_accept_example s0 n0 :
  b_accept_count (b_init s0 n0) [BOpen 0; BOpen 3; BOpen 0; BClose 0; BOpen 0; BOpen 9]%N = 3%N.
Proof.
  cbn [b_accept_count]. unfold b_init, b_init_with, bcfg_init. vm_compute. reflexivity.
Qed.
