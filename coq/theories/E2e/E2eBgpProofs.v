(* The bgp-tcp-in unit in the running pipeline (E2eModel.v, fourth part), the two statements E2eProofs.v left open:
   1. a reload as an equation over ALL sessions: who ends, who is untouched, what the store of `rib` reports
      afterwards - on every schedule of the known finding bgp-reload-end-unheard (`unheard`), so the heard reading
      ([]) and what the unheard reading leaves behind are instances;
   2. invariants over ALL histories of b_step: a live session's recorded settings are the ones of the configuration
      in force; live sessions have pairwise different ingress ids (histories shorter than 2^32 - 2 operations: the
      register's counter is a u32 that wraps, IngressProofs.register_wraps / C14_wrap_refuted). *)
From stdpp Require Import gmap.
From Coq Require Import NArith Lia.
From RV Require Import Ingress.IngressModel Ingress.IngressProofs Rib.RibModel Rib.RibProofs Bmp.BmpModel Pipe.PipeModel.
From RV Require Import E2e.E2eModel.
From RV Require Import E2e.E2eProofs.
Local Open Scope N_scope.
Arguments N.add : simpl never.
Arguments N.sub : simpl never.
Arguments N.eqb : simpl never.
Arguments N.ltb : simpl never.
Arguments N.leb : simpl never.

(* ------------------------------------------------------------------ *)
(* small facts                                                         *)

Lemma bgp_addr_in k : In k bgp_addrs <-> is_bgp_addr k = true.
Proof.
  unfold bgp_addrs, is_bgp_addr. rewrite N.ltb_lt. cbn [In]. split.
  - intros [<-|[<-|[<-|[<-|[<-|[]]]]]]; lia.
  - intros H. assert (k = 0 \/ k = 1 \/ k = 2 \/ k = 3 \/ k = 4) as Hk by lia.
    destruct Hk as [->|[->|[->|[->| ->]]]]; repeat (first [left; reflexivity | right]).
Qed.

Lemma sess_stays_false c k sv :
  sess_stays c k sv = false <-> (bc_asn c <> sv.1 \/ bc_peers c !! k <> Some sv.2).
Proof. unfold sess_stays. rewrite andb_false_iff, N.eqb_neq, bool_decide_eq_false. reflexivity. Qed.

Lemma sess_stays_true c k sv :
  sess_stays c k sv = true <-> (bc_asn c = sv.1 /\ bc_peers c !! k = Some sv.2).
Proof. unfold sess_stays. rewrite andb_true_iff, N.eqb_eq, bool_decide_eq_true. reflexivity. Qed.

(* the sessions a load of configuration c ends: the live sessions of the unit's addresses whose unit-level settings
   (my_asn) differ from the ones they were accepted with, or whose peer entry is gone or is another one *)
Definition b_ends (c : bcfg) (st : bstate) (k : N) : Prop :=
  is_bgp_addr k = true /\
  exists sv, b_sess_of st k = Some sv /\ (bc_asn c <> fst sv \/ b_peer_of c k <> Some (snd sv)).

Lemma b_ended_spec c st k : In k (b_ended c (bs_sess st)) <-> b_ends c st k.
Proof.
  unfold b_ended, b_ends, b_sess_of, b_peer_of. rewrite List.filter_In, bgp_addr_in. split.
  - intros [Hk H]. split; [exact Hk|]. destruct (bs_sess st !! k) as [sv|]; [|discriminate].
    exists sv. split; [reflexivity|]. apply sess_stays_false. apply negb_true_iff in H. exact H.
  - intros [Hk (sv & Hs & H)]. split; [exact Hk|]. rewrite Hs. apply negb_true_iff, sess_stays_false, H.
Qed.

Lemma fold_delete_lookup {A} (l : list N) : forall (m : gmap N A) j,
  (In j l -> fold_left (fun m k => delete k m) l m !! j = None) /\
  (~ In j l -> fold_left (fun m k => delete k m) l m !! j = m !! j).
Proof.
  induction l as [|k t IH]; intros m j; cbn [fold_left In].
  - split; [intros []|reflexivity].
  - destruct (IH (delete k m) j) as [IH1 IH2]. split.
    + intros Hin. destruct (In_dec N.eq_dec j t) as [Ht|Ht]; [exact (IH1 Ht)|].
      destruct Hin as [->|Hin]; [|contradiction]. rewrite (IH2 Ht). apply lookup_delete.
    + intros Hn. rewrite IH2 by tauto. apply lookup_delete_ne. intros ->. tauto.
Qed.

Lemma withdrawn_of_idem o : withdrawn_of (withdrawn_of o) = withdrawn_of o.
Proof. destruct o as [[? ?]|]; reflexivity. Qed.

(* ------------------------------------------------------------------ *)
(* 1. the end of the sessions a load ends, one after the other         *)

Definition e_look (e : estate) (key : rkey) : option (bool * N) := rib_lookup (ru_rib (es_rib e)) key.

(* the Withdraw of session k's end is heard and hits key *)
Definition end_hits (unh : list N) (e : estate) (key : rkey) (k : N) : bool :=
  negb (bool_decide (k ∈ unh)) &&
  match w_bgp (es_w e) !! k with Some (id, _) => down_hits id None key | None => false end.

Lemma end_hits_true unh e key k :
  end_hits unh e key k = true <->
  ~ In k unh /\ exists id c, w_bgp (es_w e) !! k = Some (id, c) /\ k_mui key = id /\ k_fam key < 4.
Proof.
  unfold end_hits. rewrite andb_true_iff, negb_true_iff, bool_decide_eq_false, elem_of_list_In.
  destruct (w_bgp (es_w e) !! k) as [[id c]|].
  - unfold down_hits. rewrite andb_true_iff, !bool_decide_eq_true. split.
    + intros [Hu [Hm Hf]]. split; [exact Hu|]. exists id, c. auto.
    + intros [Hu (id' & c' & [= <- <-] & Hm & Hf)]. auto.
  - split; [intros [_ H]; discriminate|]. intros [_ (id & c & H & _)]. discriminate.
Qed.

Lemma b_end_session_spec unh e k :
  let e' := b_end_session unh e k in
  w_reg (es_w e') = w_reg (es_w e) /\
  w_bgp (es_w e') = delete k (w_bgp (es_w e)) /\
  es_s e' = (sstep (es_s e) (WBgpClose k)).1 /\
  forall key, e_look e' key = if end_hits unh e key k then withdrawn_of (e_look e key) else e_look e key.
Proof.
  unfold b_end_session, end_hits, e_look. destruct (bool_decide (k ∈ unh)); cbn [negb andb].
  - unfold e_bgp_lose. cbn [es_w es_s es_rib w_reg w_bgp]. repeat split; reflexivity.
  - cbn [e_step]. cbn [wstep]. destruct (w_bgp (es_w e) !! k) as [[id c]|] eqn:E; cbn [es_w es_s es_rib w_reg w_bgp filter_wop].
    + split; [reflexivity|]. split; [reflexivity|]. split; [reflexivity|].
      intros key. rewrite runit_see_withdraw. cbn [ru_rib]. rewrite withdraw_mui_frame. reflexivity.
    + split; [reflexivity|]. split; [symmetry; apply delete_notin, E|]. split; [reflexivity|]. reflexivity.
Qed.

Lemma fold_end_world unh l : forall e,
  let e' := fold_left (b_end_session unh) l e in
  w_reg (es_w e') = w_reg (es_w e) /\
  (forall j, In j l -> w_bgp (es_w e') !! j = None) /\
  (forall j, ~ In j l -> w_bgp (es_w e') !! j = w_bgp (es_w e) !! j).
Proof.
  induction l as [|k t IH]; intros e; cbn [fold_left In].
  - split; [reflexivity|]. split; [intros j []|reflexivity].
  - destruct (IH (b_end_session unh e k)) as (IH0 & IH1 & IH2).
    destruct (b_end_session_spec unh e k) as (H0 & H1 & _).
    split; [rewrite IH0; exact H0|]. split.
    + intros j Hin. destruct (In_dec N.eq_dec j t) as [Ht|Ht]; [exact (IH1 j Ht)|].
      destruct Hin as [->|Hin]; [|contradiction]. rewrite (IH2 j Ht), H1. apply lookup_delete.
    + intros j Hn. rewrite IH2 by tauto. rewrite H1. apply lookup_delete_ne. intros ->. tauto.
Qed.

(* the property's reading of the end of these sessions does not depend on who hears of it *)
Lemma fold_end_spec unh l : forall e,
  es_s (fold_left (b_end_session unh) l e) = fold_left (fun s k => (sstep s (WBgpClose k)).1) l (es_s e).
Proof.
  induction l as [|k t IH]; intros e; cbn [fold_left]; [reflexivity|].
  rewrite IH. destruct (b_end_session_spec unh e k) as (_ & _ & H & _). rewrite H. reflexivity.
Qed.

Lemma existsb_false_all {A} (f : A -> bool) l : existsb f l = false -> forall x, In x l -> f x = false.
Proof.
  intros H x Hin. destruct (f x) eqn:E; [|reflexivity].
  assert (existsb f l = true) as Ht by (apply existsb_exists; exists x; auto). congruence.
Qed.

Lemma fold_end_look unh key l : forall e,
  let e' := fold_left (b_end_session unh) l e in
  ((exists k, In k l /\ end_hits unh e key k = true) -> e_look e' key = withdrawn_of (e_look e key)) /\
  ((forall k, In k l -> end_hits unh e key k = false) -> e_look e' key = e_look e key).
Proof.
  induction l as [|k t IH]; intros e; cbn [fold_left].
  - split; [intros (k & [] & _)|reflexivity].
  - set (e1 := b_end_session unh e k). destruct (IH e1) as [IH1 IH2].
    destruct (b_end_session_spec unh e k) as (_ & Hb & _ & Hl). fold e1 in Hb, Hl.
    assert (F : forall j, j <> k -> end_hits unh e1 key j = end_hits unh e key j).
    { intros j Hj. unfold end_hits. rewrite Hb, lookup_delete_ne by congruence. reflexivity. }
    assert (Fk : end_hits unh e1 key k = false).
    { unfold end_hits. rewrite Hb, lookup_delete. apply andb_false_r. }
    specialize (Hl key). split.
    + intros (j & Hin & Hj). destruct (end_hits unh e key k) eqn:Ek.
      * destruct (existsb (end_hits unh e1 key) t) eqn:Ex.
        -- apply existsb_exists in Ex. rewrite (IH1 Ex), Hl. apply withdrawn_of_idem.
        -- rewrite (IH2 (existsb_false_all _ _ Ex)). exact Hl.
      * assert (j <> k) as Hne by (intros ->; congruence).
        destruct Hin as [->|Hin]; [congruence|].
        rewrite IH1, Hl; [reflexivity|]. exists j. split; [exact Hin|]. rewrite F by exact Hne. exact Hj.
    + intros Hall. rewrite (Hall k (or_introl eq_refl)) in Hl. rewrite IH2; [exact Hl|].
      intros j Hin. destruct (N.eq_dec j k) as [->|Hne]; [exact Fk|]. rewrite F by exact Hne.
      apply Hall. right. exact Hin.
Qed.

Lemma b_session_id_some st k id : b_session_id st k = Some id <-> exists c, w_bgp (b_world st) !! k = Some (id, c).
Proof.
  unfold b_session_id. destruct (w_bgp (b_world st) !! k) as [[id' c]|].
  - split; [intros [= ->]; eauto|]. intros (c' & [= -> _]). reflexivity.
  - split; [discriminate|]. intros (c & H). discriminate.
Qed.

(* THE RELOAD AS AN EQUATION. For every state and every load (the new configuration is whatever the file says:
   any bcfg), on every schedule `unh` of the race of the known finding:
   - the sessions the load ends are exactly the live sessions whose my_asn or peer entry is not what they were
     accepted with (entry removed, or another entry);
   - they are gone; every other session is what it was: same settings, same ingress id;
   - the unit holds the file; the connection counters and the register are what they were;
   - what `rib` reports: a key under the id of an ended session whose Withdraw was HEARD (families 0..3) is reported
     withdrawn with its attributes; every key that is under no such id is reported as before - in particular the
     keys of every session that goes on and the keys of an ended session that was not heard;
   - the property's reading is the one of the schedule in which every end is heard. *)
Theorem bgp_reload_equation st unh :
  let c := bs_file st in
  let st' := b_step st (BReload unh) in
  (forall k, In k (b_ended c (bs_sess st)) <-> b_ends c st k) /\
  (forall k, b_ends c st k -> b_sess_of st' k = None /\ b_session_id st' k = None) /\
  (forall k, ~ b_ends c st k -> b_sess_of st' k = b_sess_of st k /\ b_session_id st' k = b_session_id st k) /\
  (bs_cfg st' = c /\ bs_file st' = c /\ bs_accepted st' = bs_accepted st /\ bs_lost st' = bs_lost st /\
   w_reg (b_world st') = w_reg (b_world st)) /\
  (forall key, (exists k id, b_ends c st k /\ ~ In k unh /\ b_session_id st k = Some id /\ k_mui key = id /\ k_fam key < 4) ->
               b_rib_lookup st' key = withdrawn_of (b_rib_lookup st key)) /\
  (forall key, (forall k id, b_ends c st k -> ~ In k unh -> b_session_id st k = Some id -> k_mui key = id -> ~ k_fam key < 4) ->
               b_rib_lookup st' key = b_rib_lookup st key) /\
  es_s (bs_e st') = es_s (bs_e (b_step st (BReload []))).
Proof.
  intros c st'. subst c st'. set (c := bs_file st). set (l := b_ended c (bs_sess st)).
  assert (Hspec : forall k, In k l <-> b_ends c st k) by (intros k; apply b_ended_spec).
  destruct (fold_end_world unh l (bs_e st)) as (W0 & W1 & W2).
  split; [exact Hspec|]. split; [|split; [|split; [|split; [|split]]]].
  - intros k Hk. apply Hspec in Hk. unfold b_sess_of, b_session_id, b_world. cbn [b_step bs_sess bs_e e_step es_w].
    fold c. fold l. split; [apply (fold_delete_lookup l (bs_sess st) k), Hk|]. rewrite (W1 k Hk). reflexivity.
  - intros k Hk. rewrite <- Hspec in Hk. unfold b_sess_of, b_session_id, b_world. cbn [b_step bs_sess bs_e e_step es_w].
    fold c. fold l. split; [apply (fold_delete_lookup l (bs_sess st) k), Hk|]. rewrite (W2 k Hk). reflexivity.
  - unfold b_world. cbn [b_step bs_cfg bs_file bs_accepted bs_lost bs_e e_step es_w]. fold c. fold l.
    repeat split; try reflexivity. exact W0.
  - intros key (k & id & Hk & Hu & Hid & Hm & Hf). apply Hspec in Hk.
    unfold b_rib_lookup. cbn [b_step bs_e e_step es_rib]. fold c. fold l.
    apply (fold_end_look unh key l (bs_e st)). exists k. split; [exact Hk|].
    apply end_hits_true. split; [exact Hu|]. apply b_session_id_some in Hid as (cc & Hid). exists id, cc. auto.
  - intros key Hall. unfold b_rib_lookup. cbn [b_step bs_e e_step es_rib]. fold c. fold l.
    apply (fold_end_look unh key l (bs_e st)). intros k Hk. apply Hspec in Hk.
    destruct (end_hits unh (bs_e st) key k) eqn:E; [|reflexivity]. exfalso.
    apply end_hits_true in E as (Hu & id & cc & Hw & Hm & Hf).
    apply (Hall k id Hk Hu); [|exact Hm|exact Hf]. apply b_session_id_some. exists cc. exact Hw.
  - cbn [b_step bs_e e_step es_s]. fold c. fold l. rewrite !fold_end_spec. reflexivity.
Qed.

(* the heard reading: the schedule the property needs *)
Theorem bgp_reload_ends_exactly_changed_sessions st :
  let c := bs_file st in
  let st' := b_step st (BReload []) in
  let ends k := is_bgp_addr k = true /\
                exists sv, b_sess_of st k = Some sv /\ (bc_asn c <> fst sv \/ b_peer_of c k <> Some (snd sv)) in
  (forall k, In k (b_ended c (bs_sess st)) <-> ends k) /\
  (forall k, ends k -> b_sess_of st' k = None /\ b_session_id st' k = None) /\
  (forall k, ~ ends k -> b_sess_of st' k = b_sess_of st k /\ b_session_id st' k = b_session_id st k) /\
  (bs_cfg st' = c /\ bs_file st' = c /\ bs_accepted st' = bs_accepted st /\ bs_lost st' = bs_lost st /\
   w_reg (b_world st') = w_reg (b_world st)) /\
  (forall key, (exists k id, ends k /\ b_session_id st k = Some id /\ k_mui key = id /\ k_fam key < 4) ->
               b_rib_lookup st' key = withdrawn_of (b_rib_lookup st key)) /\
  (forall key, (forall k id, ends k -> b_session_id st k = Some id -> k_mui key = id -> ~ k_fam key < 4) ->
               b_rib_lookup st' key = b_rib_lookup st key).
Proof.
  intros c st' ends. destruct (bgp_reload_equation st []) as (H1 & H2 & H3 & H4 & H5 & H6 & _).
  split; [exact H1|]. split; [exact H2|]. split; [exact H3|]. split; [exact H4|]. split.
  - intros key (k & id & Hk & Hid & Hm & Hf). apply H5. exists k, id. split; [exact Hk|]. split; [intros []|]. auto.
  - intros key Hall. apply H6. intros k id Hk _. apply Hall. exact Hk.
Qed.

(* what the unheard reading leaves behind (known finding bgp-reload-end-unheard): whoever is named in `unh`, the same
   sessions end and the same sessions go on; a key under the id of an ended session that was not heard - and under
   the id of no ended session that was heard - is reported as before the load: its routes stay, active if they
   were active, under an ingress id no session has any more; the property's reading (which has them withdrawn) is
   the one of the heard schedule. *)
Theorem bgp_reload_unheard_leaves_routes_behind st unh :
  let c := bs_file st in
  let st' := b_step st (BReload unh) in
  let ends k := is_bgp_addr k = true /\
                exists sv, b_sess_of st k = Some sv /\ (bc_asn c <> fst sv \/ b_peer_of c k <> Some (snd sv)) in
  (forall k, ends k -> b_sess_of st' k = None /\ b_session_id st' k = None) /\
  (forall k, ~ ends k -> b_sess_of st' k = b_sess_of st k /\ b_session_id st' k = b_session_id st k) /\
  (forall k id key, ends k -> In k unh -> b_session_id st k = Some id -> k_mui key = id ->
     (forall j, ends j -> ~ In j unh -> b_session_id st j <> Some id) ->
     b_rib_lookup st' key = b_rib_lookup st key) /\
  (forall key, (forall k, ends k -> In k unh) -> b_rib_lookup st' key = b_rib_lookup st key) /\
  es_s (bs_e st') = es_s (bs_e (b_step st (BReload []))).
Proof.
  intros c st' ends. destruct (bgp_reload_equation st unh) as (_ & H2 & H3 & _ & _ & H6 & H7).
  split; [exact H2|]. split; [exact H3|]. split; [|split; [|exact H7]].
  - intros k id key Hk Hin Hid Hm Hothers. apply H6. intros j id' Hj Hu Hid' Hm' _.
    apply (Hothers j Hj Hu). congruence.
  - intros key Hall. apply H6. intros k id Hk Hu. exfalso. exact (Hu (Hall k Hk)).
Qed.

(* ------------------------------------------------------------------ *)
(* 2a. a live session's recorded settings are the settings in force     *)

Definition sess_current (st : bstate) : Prop :=
  forall k sv, bs_sess st !! k = Some sv ->
    is_bgp_addr k = true /\ bc_asn (bs_cfg st) = sv.1 /\ bc_peers (bs_cfg st) !! k = Some sv.2.

Lemma b_step_sess_current st o : sess_current st -> sess_current (b_step st o).
Proof.
  intros H. destruct o as [e|k v|a|k|k u|k|unh].
  - destruct e; exact H.
  - exact H.
  - exact H.
  - cbn [b_step]. destruct (negb (is_bgp_addr k)) eqn:Ek; [exact H|]. destruct (bs_sess st !! k) eqn:Es; [exact H|].
    destruct (bc_peers (bs_cfg st) !! k) as [v|] eqn:Ep; [|exact H].
    intros j sv. cbn [bs_sess bs_cfg]. destruct (decide (j = k)) as [->|Hne].
    + rewrite lookup_insert. intros [= <-]. cbn [fst snd]. apply negb_false_iff in Ek. auto.
    + rewrite lookup_insert_ne by congruence. apply H.
  - cbn [b_step]. destruct (bs_sess st !! k); exact H.
  - cbn [b_step]. destruct (bs_sess st !! k) eqn:Es; [|exact H]. intros j sv. cbn [bs_sess bs_cfg].
    intros Hj. apply H. apply lookup_delete_Some in Hj as [_ Hj]. exact Hj.
  - intros j sv. cbn [b_step bs_sess bs_cfg]. intros Hj.
    set (l := b_ended (bs_file st) (bs_sess st)) in *.
    destruct (fold_delete_lookup l (bs_sess st) j) as [F1 F2].
    destruct (In_dec N.eq_dec j l) as [Hin|Hin]; [rewrite (F1 Hin) in Hj; discriminate|].
    rewrite (F2 Hin) in Hj. destruct (H j sv Hj) as (Hb & _). split; [exact Hb|].
    destruct (sess_stays (bs_file st) j sv) eqn:Est; [apply sess_stays_true, Est|].
    exfalso. apply Hin. apply b_ended_spec. split; [exact Hb|]. exists sv. split; [exact Hj|].
    apply sess_stays_false, Est.
Qed.

Lemma b_run_sess_current h : forall st, sess_current st -> sess_current (b_run st h).
Proof.
  induction h as [|o h IH]; intros st H; [exact H|]. cbn [b_run fold_left]. apply IH, b_step_sess_current, H.
Qed.

Lemma b_init_sess_current s0 n0 : sess_current (b_init s0 n0).
Proof. intros k sv. cbn. rewrite lookup_empty. discriminate. Qed.

(* ALL histories from start-up: every live session is a session of one of the unit's addresses, and its recorded
   settings are what the configuration in force - the one of the latest load, read off the operations alone - says
   for its peer: my_asn and the peer entry. So the load of an unchanged file ends nobody, and what a later load
   compares the file with is what is in force now. *)
Theorem bgp_live_sessions_have_current_settings s0 n0 h :
  let st := b_run (b_init s0 n0) h in
  let c := b_loaded bcfg_init bcfg_init h in
  bs_cfg st = c /\
  (forall k sv, b_sess_of st k = Some sv ->
     is_bgp_addr k = true /\ fst sv = bc_asn c /\ b_peer_of c k = Some (snd sv)) /\
  (forall k, ~ In k (b_ended c (bs_sess st))).
Proof.
  intros st c. assert (Hc : bs_cfg st = c) by (subst st c; apply (b_run_cfg h (b_init s0 n0))).
  pose proof (b_run_sess_current h _ (b_init_sess_current s0 n0)) as H. fold st in H.
  split; [exact Hc|]. rewrite <- Hc. split.
  - intros k sv Hs. destruct (H k sv Hs) as (Hb & Ha & Hp). unfold b_peer_of. auto.
  - intros k Hk. apply b_ended_spec in Hk as (_ & sv & Hs & Hne). destruct (H k sv Hs) as (_ & Ha & Hp).
    unfold b_peer_of in Hne. destruct Hne as [Hne|Hne]; [exact (Hne Ha)|exact (Hne Hp)].
Qed.

(* ------------------------------------------------------------------ *)
(* 2b. live sessions have ingress ids of their own                      *)

Definition ser_step (r r' : reg) : Prop := serial r' = serial r \/ serial r' = (serial r + 1) mod two32.

Lemma for_serial m r q : ser_step r (find_or_register m r q).2.
Proof. unfold find_or_register. destruct (reg_find_all m r q); [right|left]; reflexivity. Qed.

Lemma sm_step_serial r rid s m : ser_step r (sm_step r rid s m).1.1.
Proof.
  unfold sm_step, live_step, peer_up, peer_down, route_monitoring, terminate, invalid.
  destruct (sm_phase s); destruct m as [| |p|p e|p|p u]; try (left; reflexivity).
  all: try (pose proof (for_serial peer_match r (peer_query rid p)) as Hs;
            destruct (find_or_register peer_match r (peer_query rid p)) as [id r'];
            destruct (sm_peers s !! p); exact Hs).
  all: repeat case_match; left; reflexivity.
Qed.

Definition bgp_ids_ok (w : world) : Prop :=
  (forall k id c, w_bgp w !! k = Some (id, c) -> id < serial (w_reg w)) /\
  (forall j k id c c', w_bgp w !! j = Some (id, c) -> w_bgp w !! k = Some (id, c') -> j = k).

Lemma bgp_ids_ok_mono w w' :
  bgp_ids_ok w -> (forall k v, w_bgp w' !! k = Some v -> w_bgp w !! k = Some v) ->
  serial (w_reg w) <= serial (w_reg w') -> bgp_ids_ok w'.
Proof.
  intros [Hlt Hinj] Hsub Hs. split.
  - intros k id c Hk. apply Hsub, Hlt in Hk. lia.
  - intros j k id c c' Hj Hk. apply Hsub in Hj, Hk. exact (Hinj j k id c c' Hj Hk).
Qed.

Lemma wstep_ids w o :
  bgp_ids_ok w -> serial (w_reg w) + 1 < two32 ->
  bgp_ids_ok (wstep w o).1 /\ serial (w_reg (wstep w o).1) <= serial (w_reg w) + 1.
Proof.
  intros Hok Hs.
  assert (Hmod : (serial (w_reg w) + 1) mod two32 = serial (w_reg w) + 1) by (apply N.mod_small; exact Hs).
  destruct o as [k|k m|k|b|b u|b|af pfx|k]; cbn [wstep].
  - pose proof (for_serial router_match (w_reg w) (router_query (w_unit w) k)) as Hser.
    destruct (find_or_register router_match (w_reg w) (router_query (w_unit w) k)) as [rid r'].
    cbn [fst snd] in *. unfold ser_step in Hser. rewrite Hmod in Hser.
    split; [|cbn [w_reg]; lia]. apply (bgp_ids_ok_mono w); [exact Hok|intros ? ? H; exact H|cbn [w_reg]; lia].
  - destruct (w_routers w !! k) as [[rid s]|]; [|split; [exact Hok|cbn [fst]; lia]].
    pose proof (sm_step_serial (w_reg w) rid s m) as Hser.
    destruct (sm_step (w_reg w) rid s m) as [[r' s'] out]. cbn [fst snd] in *. unfold ser_step in Hser. rewrite Hmod in Hser.
    split; [|cbn [w_reg]; lia]. apply (bgp_ids_ok_mono w); [exact Hok|intros ? ? H; exact H|cbn [w_reg]; lia].
  - destruct (w_routers w !! k) as [[rid s]|]; cbn [fst]; (split; [|cbn [w_reg]; lia]); [|exact Hok].
    apply (bgp_ids_ok_mono w); [exact Hok|intros ? ? H; exact H|cbn [w_reg]; lia].
  - cbn [reg_register fst snd w_reg w_bgp serial]. rewrite Hmod. split; [|lia].
    destruct Hok as [Hlt Hinj]. split; cbn [w_reg w_bgp serial].
    + intros k id c. destruct (decide (k = b)) as [->|Hne].
      * rewrite lookup_insert. intros [= <- _]. lia.
      * rewrite lookup_insert_ne by congruence. intros H. apply Hlt in H. lia.
    + intros j k id c c'. destruct (decide (j = b)) as [->|Hj], (decide (k = b)) as [->|Hk];
        rewrite ?lookup_insert, ?lookup_insert_ne by congruence.
      * reflexivity.
      * intros [= <- _] H. apply Hlt in H. lia.
      * intros H [= <- _]. apply Hlt in H. lia.
      * apply Hinj.
  - destruct (w_bgp w !! b) as [[id c]|]; [destruct u|]; cbn [fst]; (split; [|cbn [w_reg]; lia]); exact Hok.
  - destruct (w_bgp w !! b) as [[id c]|]; cbn [fst]; (split; [|cbn [w_reg]; lia]); [|exact Hok].
    apply (bgp_ids_ok_mono w); [exact Hok| |cbn [w_reg]; lia].
    intros k v. cbn [w_bgp]. intros H. apply lookup_delete_Some in H as [_ H]. exact H.
  - split; [exact Hok|cbn [fst]; lia].
  - split; [exact Hok|cbn [fst]; lia].
Qed.

Lemma e_step_w lg e o :
  es_w (e_step lg e o) = match o with EW wo => (wstep (es_w e) wo).1 | _ => es_w e end.
Proof.
  destruct o; cbn [e_step]; try reflexivity. destruct (wstep (es_w e) o) as [w' out]. reflexivity.
Qed.

(* what one operation does to the pipeline's world: nothing, one wstep, or (a load) the end of some BGP sessions *)
Lemma b_step_world st o :
  b_world (b_step st o) = b_world st \/
  (exists wo, b_world (b_step st o) = (wstep (b_world st) wo).1) \/
  (w_reg (b_world (b_step st o)) = w_reg (b_world st) /\
   forall k v, w_bgp (b_world (b_step st o)) !! k = Some v -> w_bgp (b_world st) !! k = Some v).
Proof.
  unfold b_world. destruct o as [e|k v|a|k|k u|k|unh].
  - destruct e as [wo| | | |]; try (left; reflexivity). right. left. exists wo. cbn [b_step bs_e]. apply (e_step_w false (bs_e st) (EW wo)).
  - left. reflexivity.
  - left. reflexivity.
  - cbn [b_step]. destruct (negb (is_bgp_addr k)); [left; reflexivity|]. destruct (bs_sess st !! k); [left; reflexivity|].
    destruct (bc_peers (bs_cfg st) !! k); [|left; reflexivity].
    right. left. exists (WBgpOpen k). cbn [bs_e]. apply (e_step_w false (bs_e st) (EW (WBgpOpen k))).
  - cbn [b_step]. destruct (bs_sess st !! k); [|left; reflexivity].
    right. left. exists (WBgpUpdate k (Some u)). cbn [bs_e]. apply (e_step_w false (bs_e st) (EW (WBgpUpdate k (Some u)))).
  - cbn [b_step]. destruct (bs_sess st !! k); [|left; reflexivity].
    right. left. exists (WBgpClose k). cbn [bs_e]. apply (e_step_w false (bs_e st) (EW (WBgpClose k))).
  - right. right. cbn [b_step bs_e]. rewrite (e_step_w false _ EReload).
    set (l := b_ended (bs_file st) (bs_sess st)).
    destruct (fold_end_world unh l (bs_e st)) as (W0 & W1 & W2). split; [exact W0|].
    intros k v Hk. destruct (In_dec N.eq_dec k l) as [Hin|Hin].
    + rewrite (W1 k Hin) in Hk. discriminate.
    + rewrite (W2 k Hin) in Hk. exact Hk.
Qed.

Definition b_ids_inv (st : bstate) (n : N) : Prop :=
  bgp_ids_ok (b_world st) /\ serial (w_reg (b_world st)) <= n.

Lemma b_step_ids st o n : b_ids_inv st n -> n + 1 < two32 -> b_ids_inv (b_step st o) (n + 1).
Proof.
  intros [Hok Hn] Hlt. unfold b_ids_inv. destruct (b_step_world st o) as [E|[(wo & E)|(Hr & Hsub)]]; rewrite ?E.
  - split; [exact Hok|lia].
  - destruct (wstep_ids (b_world st) wo Hok) as [H1 H2]; [lia|]. split; [exact H1|lia].
  - split; [|rewrite Hr; lia]. apply (bgp_ids_ok_mono (b_world st)); [exact Hok|exact Hsub|rewrite Hr; lia].
Qed.

Lemma b_run_ids h : forall st n,
  b_ids_inv st n -> n + N.of_nat (length h) < two32 -> b_ids_inv (b_run st h) (n + N.of_nat (length h)).
Proof.
  induction h as [|o h IH]; intros st n H Hlt.
  - cbn [b_run fold_left length]. rewrite N.add_0_r. exact H.
  - cbn [b_run fold_left]. fold (b_run (b_step st o) h). cbn [length] in *. rewrite Nat2N.inj_succ in *.
    replace (n + N.succ (N.of_nat (length h))) with ((n + 1) + N.of_nat (length h)) by lia.
    apply IH; [apply b_step_ids; [exact H|lia]|lia].
Qed.

Lemma b_init_ids s0 n0 : b_ids_inv (b_init s0 n0) 2.
Proof.
  split; [split|].
  - intros k id c. cbn. rewrite lookup_empty. discriminate.
  - intros j k id c c'. cbn. rewrite lookup_empty. discriminate.
  - change (serial (w_reg world_init) <= 2). vm_compute. discriminate.
Qed.

(* ALL histories from start-up that are shorter than 2^32 - 2 operations (every operation takes at most one id from
   the register, whose counter is a u32: after 2^32 registrations it hands the same ids out again,
   IngressProofs.register_wraps): no two live sessions have one ingress id, and no live session has the id the
   register hands out next - the proviso of bgp_accepted_session_has_fresh_id. *)
Theorem bgp_live_sessions_have_distinct_ids s0 n0 h :
  N.of_nat (length h) < two32 - 2 ->
  let st := b_run (b_init s0 n0) h in
  (forall j k id, b_session_id st j = Some id -> b_session_id st k = Some id -> j = k) /\
  (forall k id, b_session_id st k = Some id -> id < serial (w_reg (b_world st))).
Proof.
  intros Hlen st. destruct (b_run_ids h _ 2 (b_init_ids s0 n0)) as [[Hlt Hinj] _]; [lia|]. fold st in Hlt, Hinj.
  split.
  - intros j k id Hj Hk. apply b_session_id_some in Hj as (c & Hj), Hk as (c' & Hk). exact (Hinj j k id c c' Hj Hk).
  - intros k id Hk. apply b_session_id_some in Hk as (c & Hk). exact (Hlt k id c Hk).
Qed.

(* ... hence, without a proviso: after such a history a connection that is accepted gets an id no live session has *)
Theorem bgp_accepted_connection_has_fresh_id_all_histories s0 n0 h k v :
  N.of_nat (length h) < two32 - 2 ->
  let st := b_run (b_init s0 n0) h in
  is_bgp_addr k = true -> b_sess_of st k = None -> b_peer_of (bs_cfg st) k = Some v ->
  let st' := b_step st (BOpen k) in
  b_session_id st' k = Some (serial (w_reg (b_world st))) /\
  (forall j id, j <> k -> b_session_id st j = Some id ->
                b_session_id st' j = Some id /\ b_session_id st' j <> b_session_id st' k).
Proof.
  intros Hlen st Hk Hn Hp. apply (bgp_accepted_session_has_fresh_id_std st k v Hk Hn Hp).
  intros j id Hj. destruct (bgp_live_sessions_have_distinct_ids s0 n0 h Hlen) as [_ H]. fold st in H. apply H in Hj. lia.
Qed.

(* ------------------------------------------------------------------ *)
(* 2c. a live session HAS an ingress id (and only a live session has one) - for histories in which BGP sessions are
   opened and closed through the unit (BOpen / BClose / BReload), not by a WBgpOpen / WBgpClose handed to the
   pipeline model directly (BE passes every pipeline operation on; the engine uses it for BMP traffic and edits) *)

Definition bop_plain (o : bop) : bool :=
  match o with
  | BE (EW (WBgpOpen _)) | BE (EW (WBgpClose _)) => false
  | _ => true
  end.

Definition sess_ided (st : bstate) : Prop :=
  forall k, bs_sess st !! k = None <-> w_bgp (b_world st) !! k = None.

Lemma wstep_bgp_same w wo :
  match wo with WBgpOpen _ | WBgpClose _ => False | _ => True end -> w_bgp (wstep w wo).1 = w_bgp w.
Proof.
  destruct wo as [k|k m|k|b|b u|b|af pfx|k]; cbn [wstep]; intros H; try contradiction; try reflexivity.
  - destruct (find_or_register router_match (w_reg w) (router_query (w_unit w) k)) as [rid r']. reflexivity.
  - destruct (w_routers w !! k) as [[rid s]|]; [|reflexivity].
    destruct (sm_step (w_reg w) rid s m) as [[r' s'] out]. reflexivity.
  - destruct (w_routers w !! k) as [[rid s]|]; reflexivity.
  - destruct (w_bgp w !! b) as [[id c]|]; [destruct u|]; reflexivity.
Qed.

Lemma wstep_bgp_close w b : w_bgp (wstep w (WBgpClose b)).1 = delete b (w_bgp w).
Proof.
  cbn [wstep]. destruct (w_bgp w !! b) as [[id c]|] eqn:E; cbn [fst w_bgp]; [reflexivity|].
  symmetry. apply delete_notin, E.
Qed.

Lemma wstep_bgp_open w b : exists v, w_bgp (wstep w (WBgpOpen b)).1 = <[b := v]> (w_bgp w).
Proof. cbn [wstep reg_register]. eexists. reflexivity. Qed.

Lemma b_step_sess_ided st o : bop_plain o = true -> sess_ided st -> sess_ided (b_step st o).
Proof.
  intros Hp H. unfold sess_ided, b_world in *. destruct o as [e|k v|a|k|k u|k|unh].
  - destruct e as [wo| | | |]; try exact H. cbn [b_step bs_e bs_sess]. rewrite (e_step_w false (bs_e st) (EW wo)).
    rewrite wstep_bgp_same; [exact H|]. destruct wo; try exact I; discriminate.
  - exact H.
  - exact H.
  - cbn [b_step]. destruct (negb (is_bgp_addr k)); [exact H|]. destruct (bs_sess st !! k); [exact H|].
    destruct (bc_peers (bs_cfg st) !! k) as [v|]; [|exact H]. cbn [bs_e bs_sess].
    rewrite (e_step_w false (bs_e st) (EW (WBgpOpen k))). destruct (wstep_bgp_open (es_w (bs_e st)) k) as [x ->].
    intros j. destruct (decide (j = k)) as [->|Hne].
    + rewrite !lookup_insert. split; discriminate.
    + rewrite !lookup_insert_ne by congruence. apply H.
  - cbn [b_step]. destruct (bs_sess st !! k); [|exact H]. cbn [bs_e bs_sess].
    rewrite (e_step_w false (bs_e st) (EW (WBgpUpdate k (Some u)))). rewrite wstep_bgp_same; [exact H|exact I].
  - cbn [b_step]. destruct (bs_sess st !! k); [|exact H]. cbn [bs_e bs_sess].
    rewrite (e_step_w false (bs_e st) (EW (WBgpClose k))), wstep_bgp_close.
    intros j. destruct (decide (j = k)) as [->|Hne].
    + rewrite !lookup_delete. tauto.
    + rewrite !lookup_delete_ne by congruence. apply H.
  - cbn [b_step bs_e bs_sess]. rewrite (e_step_w false _ EReload).
    set (l := b_ended (bs_file st) (bs_sess st)).
    destruct (fold_end_world unh l (bs_e st)) as (_ & W1 & W2). intros j.
    destruct (fold_delete_lookup l (bs_sess st) j) as [F1 F2].
    destruct (In_dec N.eq_dec j l) as [Hin|Hin].
    + rewrite (F1 Hin), (W1 j Hin). tauto.
    + rewrite (F2 Hin), (W2 j Hin). apply H.
Qed.

Lemma b_run_sess_ided h : forall st, forallb bop_plain h = true -> sess_ided st -> sess_ided (b_run st h).
Proof.
  induction h as [|o h IH]; intros st Hp H; [exact H|]. cbn [forallb] in Hp. apply andb_true_iff in Hp as [Ho Hp].
  cbn [b_run fold_left]. apply IH; [exact Hp|]. apply b_step_sess_ided; assumption.
Qed.

Theorem bgp_live_sessions_have_ids s0 n0 h k :
  forallb bop_plain h = true ->
  let st := b_run (b_init s0 n0) h in
  b_sess_of st k = None <-> b_session_id st k = None.
Proof.
  intros Hp st. assert (H : sess_ided st).
  { apply b_run_sess_ided; [exact Hp|]. intros j. cbn. rewrite !lookup_empty. tauto. }
  unfold b_sess_of, b_session_id. rewrite (H k). destruct (w_bgp (b_world st) !! k) as [[id c]|]; [|tauto].
  split; discriminate.
Qed.

(* the two together, as Props_C13 / Props_C02 state them *)
Theorem bgp_live_sessions_have_ids_of_their_own s0 n0 h :
  N.of_nat (length h) < two32 - 2 ->
  let st := b_run (b_init s0 n0) h in
  (forall j k id, b_session_id st j = Some id -> b_session_id st k = Some id -> j = k) /\
  (forall k id, b_session_id st k = Some id -> id < serial (w_reg (b_world st))) /\
  (forallb bop_plain h = true -> forall k, b_sess_of st k = None <-> b_session_id st k = None).
Proof.
  intros Hlen st. destruct (bgp_live_sessions_have_distinct_ids s0 n0 h Hlen) as [H1 H2].
  split; [exact H1|]. split; [exact H2|]. intros Hp k. apply bgp_live_sessions_have_ids, Hp.
Qed.

(* ------------------------------------------------------------------ *)
(* 2d. the bound on the length of the history cannot be dropped: the register's counter is a u32. Address 0 opens a
   session; address 1 connects and leaves 2^32 - 1 times; its next connection is given the id of the session of
   address 0, which is still there. *)

Definition b_cycle : list bop := [BOpen 1; BClose 1].
Fixpoint b_cycles (n : nat) : list bop := match n with O => [] | S n' => b_cycle ++ b_cycles n' end.

Definition cycle_ready (st : bstate) : Prop :=
  bs_sess st !! 1 = None /\ (exists v, bc_peers (bs_cfg st) !! 1 = Some v) /\ serial (w_reg (b_world st)) < two32.

Lemma b_open_close st k v :
  is_bgp_addr k = true -> bs_sess st !! k = None -> bc_peers (bs_cfg st) !! k = Some v ->
  b_run st [BOpen k; BClose k] =
  MkBs (e_step false (e_step false (bs_e st) (EW (WBgpOpen k))) (EW (WBgpClose k))) (bs_file st) (bs_cfg st)
       (delete k (<[k := (bc_asn (bs_cfg st), v)]> (bs_sess st))) (bs_accepted st + 1) (bs_lost st + 1) (bs_disc st).
Proof.
  intros Hk Hs Hv. unfold b_run. cbn [fold_left].
  assert (E1 : b_step st (BOpen k) =
               MkBs (e_step false (bs_e st) (EW (WBgpOpen k))) (bs_file st) (bs_cfg st)
                    (<[k := (bc_asn (bs_cfg st), v)]> (bs_sess st)) (bs_accepted st + 1) (bs_lost st) (bs_disc st)).
  { cbn [b_step]. rewrite Hk. cbn [negb]. rewrite Hs, Hv. reflexivity. }
  rewrite E1. cbn [b_step bs_sess]. rewrite lookup_insert. reflexivity.
Qed.

Lemma b_cycle_step st :
  cycle_ready st ->
  let st' := b_run st b_cycle in
  cycle_ready st' /\ bs_cfg st' = bs_cfg st /\
  w_bgp (b_world st') !! 0 = w_bgp (b_world st) !! 0 /\ bs_sess st' !! 0 = bs_sess st !! 0 /\
  serial (w_reg (b_world st')) = (serial (w_reg (b_world st)) + 1) mod two32.
Proof.
  intros (Hs & (v & Hv) & Hser). unfold b_cycle. rewrite (b_open_close st 1 v eq_refl Hs Hv).
  unfold cycle_ready, b_world. cbn [bs_e bs_sess bs_cfg].
  rewrite (e_step_w false _ (EW (WBgpClose 1))), (e_step_w false _ (EW (WBgpOpen 1))).
  assert (Hreg : w_reg (wstep (wstep (es_w (bs_e st)) (WBgpOpen 1)).1 (WBgpClose 1)).1 =
                 MkReg ((serial (w_reg (es_w (bs_e st))) + 1) mod two32) (infos (w_reg (es_w (bs_e st))))).
  { cbn [wstep reg_register fst w_bgp]. rewrite lookup_insert. reflexivity. }
  rewrite Hreg, wstep_bgp_close. destruct (wstep_bgp_open (es_w (bs_e st)) 1) as [x ->]. cbn [serial].
  rewrite !lookup_delete, !lookup_delete_ne, !lookup_insert_ne by discriminate.
  split; [split; [reflexivity|]; split; [exists v; exact Hv|apply N.mod_lt; unfold two32; lia]|].
  repeat split; reflexivity.
Qed.

Lemma b_cycles_run n : forall st,
  cycle_ready st ->
  let st' := b_run st (b_cycles n) in
  cycle_ready st' /\ bs_cfg st' = bs_cfg st /\
  w_bgp (b_world st') !! 0 = w_bgp (b_world st) !! 0 /\ bs_sess st' !! 0 = bs_sess st !! 0 /\
  serial (w_reg (b_world st')) = (serial (w_reg (b_world st)) + N.of_nat n) mod two32.
Proof.
  induction n as [|n IH]; intros st Hr.
  - cbn [b_cycles b_run fold_left]. repeat split; try apply Hr.
    rewrite N.add_0_r, N.mod_small; [reflexivity|apply Hr].
  - cbn [b_cycles]. unfold b_run. rewrite fold_left_app. fold (b_run st b_cycle). fold (b_run (b_run st b_cycle) (b_cycles n)).
    destruct (b_cycle_step st Hr) as (Hr1 & Hc1 & Hw1 & Hs1 & Hser1).
    destruct (IH _ Hr1) as (Hr2 & Hc2 & Hw2 & Hs2 & Hser2).
    split; [exact Hr2|]. split; [congruence|]. split; [congruence|]. split; [congruence|].
    rewrite Hser2, Hser1. rewrite N.add_mod_idemp_l by (unfold two32; lia). f_equal. lia.
Qed.

Lemma b_run_cons st o h : b_run st (o :: h) = b_run (b_step st o) h.
Proof. reflexivity. Qed.

Lemma bgp_session_ids_wrap (n : nat) :
  N.of_nat n = two32 - 1 ->
  let st := b_run (b_init SNone 0) (BOpen 0 :: b_cycles n) in
  let st' := b_step st (BOpen 1) in
  b_sess_of st' 0 <> None /\ b_sess_of st' 1 <> None /\
  b_session_id st' 0 = Some 2 /\ b_session_id st' 1 = Some 2.
Proof.
  intros Hn st st'. subst st' st. rewrite b_run_cons.
  set (st1 := b_step (b_init SNone 0) (BOpen 0)).
  assert (H1 : cycle_ready st1 /\ w_bgp (b_world st1) !! 0 = Some (2, 0) /\ bs_sess st1 !! 0 = Some (0, 1) /\
               serial (w_reg (b_world st1)) = 3).
  { subst st1. clear n Hn. vm_compute. repeat split; try reflexivity. exists 1. reflexivity. }
  destruct H1 as (Hr1 & Hw1 & Hs1 & Hser1).
  destruct (b_cycles_run n st1 Hr1) as (Hr & Hc & Hw & Hs & Hser).
  set (st2 := b_run st1 (b_cycles n)) in *. clearbody st2 st1.
  rewrite Hn, Hser1 in Hser. change ((3 + (two32 - 1)) mod two32) with 2 in Hser.
  destruct Hr as (Hnone & (v & Hv) & _).
  assert (E : b_step st2 (BOpen 1) =
              MkBs (e_step false (bs_e st2) (EW (WBgpOpen 1))) (bs_file st2) (bs_cfg st2)
                   (<[1 := (bc_asn (bs_cfg st2), v)]> (bs_sess st2)) (bs_accepted st2 + 1) (bs_lost st2) (bs_disc st2)).
  { cbn [b_step]. change (is_bgp_addr 1) with true. cbn [negb]. rewrite Hnone, Hv. reflexivity. }
  rewrite E. unfold b_sess_of, b_session_id, b_world. cbn [bs_sess bs_e].
  rewrite (e_step_w false _ (EW (WBgpOpen 1))). cbn [wstep reg_register fst w_bgp].
  rewrite lookup_insert, !lookup_insert_ne by discriminate. unfold b_world in Hw, Hw1, Hser. rewrite Hw, Hw1, Hs, Hs1, Hser.
  rewrite lookup_insert. split; [discriminate|]. split; [discriminate|]. split; reflexivity.
Qed.

Definition b_wrap_hist : list bop := BOpen 0 :: b_cycles (N.to_nat (two32 - 1)).

Theorem bgp_session_ids_wrap_refuted :
  let st := b_run (b_init SNone 0) b_wrap_hist in
  let st' := b_step st (BOpen 1) in
  b_sess_of st' 0 <> None /\ b_sess_of st' 1 <> None /\
  b_session_id st' 0 = Some 2 /\ b_session_id st' 1 = Some 2.
Proof. exact (bgp_session_ids_wrap (N.to_nat (two32 - 1)) (N2Nat.id (two32 - 1))). Qed.

(* non-vacuity of 2a-2c: two sessions; the entry of address 0 is rewritten and the file loaded (its session ends, the
   other one goes on); address 0 comes back and is accepted with the new entry and a new id; address 3 is refused *)
Definition b_inv_example : list bop := [BOpen 0; BOpen 1; BPeer 0 (Some 2); BReload []; BOpen 0; BOpen 3].

Theorem bgp_invariants_example :
  let st := b_run (b_init SNone 0) b_inv_example in
  b_live st = [0; 1] /\ b_sess_of st 0 = Some (0, 2) /\ b_sess_of st 1 = Some (0, 1) /\
  b_session_id st 0 = Some 4 /\ b_session_id st 1 = Some 3 /\
  b_peer_of (b_loaded bcfg_init bcfg_init b_inv_example) 0 = Some 2 /\
  bs_accepted st = 4 /\ forallb bop_plain b_inv_example = true.
Proof. vm_compute. repeat split; reflexivity. Qed.
