(* The glue around the BMP state machine as the end-to-end engine sees it
   (src/units/bmp_tcp_in/{unit.rs accept loop, router_handler.rs, metrics.rs,
   state_machine/metrics.rs}): the unit-level connection counters, and what the
   per-router series of GET /metrics show for a router that comes back.
   Definitions only; driven by the same operations as Pipe/PipeModel.v. *)
From stdpp Require Import gmap.
From Coq Require Import NArith.
From RV Require Import Ingress.IngressModel Rib.RibModel Bmp.BmpModel Pipe.PipeModel.

(* ---- unit level: BmpTcpInMetrics.connection_{accepted,lost}_count and the map
   BmpStateMachineMetrics.routers whose size is rendered as bmp_num_connected_routers ---- *)
Record ucount := MkUc {
  uc_live : gset N;       (* routers with an open connection *)
  uc_known : gset N;      (* routers that have an entry in BmpStateMachineMetrics.routers *)
  uc_accepted : N;        (* listener_connection_accepted *)
  uc_lost : N }.          (* router_connection_lost *)

Definition uc_init : ucount := MkUc ∅ ∅ 0 0.

(* An entry of BmpStateMachineMetrics.routers is created by the first status
   report of the state machine, which is the change of state of the accepted
   Initiation message; it is removed by remove_router_metrics only, which
   read_from_router calls on the Aborted path alone - a path no BMP message
   takes - so a lost connection leaves it behind. *)
Definition uc_step (u : ucount) (o : wop) : ucount :=
  match o with
  | WConnect k =>
      if bool_decide (k ∈ uc_live u) then u
      else MkUc ({[k]} ∪ uc_live u) (uc_known u) (uc_accepted u + 1) (uc_lost u)
  | WDisconnect k =>
      if bool_decide (k ∈ uc_live u)
      then MkUc (uc_live u ∖ {[k]}) (uc_known u) (uc_accepted u) (uc_lost u + 1)
      else u
  | WMsg k MInit =>
      if bool_decide (k ∈ uc_live u)
      then MkUc (uc_live u) ({[k]} ∪ uc_known u) (uc_accepted u) (uc_lost u)
      else u
  | _ => u
  end.

Definition uc_run (u : ucount) (l : list wop) : ucount := fold_left uc_step l u.

(* A connection made after a configuration reload (known finding C01-2): the
   accept loop counts it, the router handler's gate clone cannot attach itself
   to the reconfigured gate (Gate::process, Reconfigure: the command receiver is
   replaced, the command sender handed to clones is not), its command channel
   closes, BmpStream::next reports termination and read_from_router goes
   straight to its cleanup: accepted and lost at once, no message is read. *)
Definition uc_dropped (u : ucount) : ucount :=
  MkUc (uc_live u) (uc_known u) (uc_accepted u + 1) (uc_lost u + 1).

(* "the number of BMP routers connected to this unit" (help text of the gauge) *)
Definition uc_connected_spec (u : ucount) : N := N.of_nat (size (uc_live u)).
(* what the code renders: the size of the metrics map *)
Definition uc_connected_code (u : ucount) : N := N.of_nat (size (uc_known u)).

(* ---- per-router series of a router that reconnects. The router id is reused
   (find_existing_bmp_router), the label of its series therefore too, and the
   RouterBmpMetrics entry of the lost session is still there: counters and the
   fetch_add/fetch_sub gauges continue from where the lost session left them;
   the pending-EoR gauge is written with `store` and shows the lost session's
   value until the new session's first write. ---- *)
Definition mx_zero : metrics := MkMetrics 0 0 0 0 0 0 0 0 0.

(* what the code shows: `c` = what earlier sessions left, `m` = the current session counted from zero *)
Definition mx_code (c m : metrics) : metrics :=
  MkMetrics (m_state m) (m_prefixes c + m_prefixes m) (m_unknown_peer c + m_unknown_peer m)
            (m_unprocessable c + m_unprocessable m) (m_ann c + m_ann m) (m_wd c + m_wd m)
            (m_up c + m_up m) (m_eorcap c + m_eorcap m) (m_dumping m).

(* what C15 asks for: counters count every event of that router, gauges describe the session that exists *)
Definition mx_spec (c m : metrics) : metrics :=
  MkMetrics (m_state m) (m_prefixes c + m_prefixes m) (m_unknown_peer c + m_unknown_peer m)
            (m_unprocessable c + m_unprocessable m) (m_ann c + m_ann m) (m_wd c + m_wd m)
            (m_up m) (m_eorcap m) (m_dumping m).

(* values the pending-EoR gauge may show: within a session it equals the table
   count after every write (C15, gauges_ok) and every change of the count is a
   write, so a non-zero count is shown as it is; a zero count may still be
   hidden behind any value an earlier session left *)
Definition mx_dumping_options (stale : list N) (cur : N) : list N :=
  if N.eqb cur 0 then (if existsb (N.eqb 0) stale then stale else stale ++ [0%N]) else [cur].
