(* The glue around the BMP state machine as the end-to-end engine sees it
   (src/units/bmp_tcp_in/{unit.rs accept loop, router_handler.rs, metrics.rs,
   state_machine/metrics.rs}, src/comms.rs): the unit-level connection counters
   of GET /metrics. Definitions only; driven by the operations of Pipe/PipeModel.v. *)
From stdpp Require Import gmap.
From Coq Require Import NArith.
From RV Require Import Ingress.IngressModel Rib.RibModel Bmp.BmpModel Pipe.PipeModel.

(* BmpTcpInMetrics.connection_{accepted,lost}_count and the map
   BmpStateMachineMetrics.routers whose size is rendered as bmp_num_connected_routers *)
Record ucount := MkUc {
  uc_live : gset N;       (* routers with an open connection *)
  uc_known : gset N;      (* routers that have an entry in BmpStateMachineMetrics.routers *)
  uc_accepted : N;        (* listener_connection_accepted *)
  uc_lost : N }.          (* router_connection_lost *)

Definition uc_init : ucount := MkUc ∅ ∅ 0 0.

(* An entry of BmpStateMachineMetrics.routers is created by the first status
   report of the router's state machine: the change of state of an accepted
   Initiation message, or the hard-parse-failure count of anything else a new
   session sends (BmpState::process_msg reports every invalid message) - that is,
   by the first BMP message of the session. read_from_router's post-loop cleanup
   removes it (fix 8a86f45). A connected router that has not spoken yet has none. *)
Definition uc_step (u : ucount) (o : wop) : ucount :=
  match o with
  | WConnect k =>
      if bool_decide (k ∈ uc_live u) then u
      else MkUc ({[k]} ∪ uc_live u) (uc_known u) (uc_accepted u + 1) (uc_lost u)
  | WDisconnect k =>
      if bool_decide (k ∈ uc_live u)
      then MkUc (uc_live u ∖ {[k]}) (uc_known u ∖ {[k]}) (uc_accepted u) (uc_lost u + 1)
      else u
  | WMsg k _ =>
      if bool_decide (k ∈ uc_live u)
      then MkUc (uc_live u) ({[k]} ∪ uc_known u) (uc_accepted u) (uc_lost u)
      else u
  | _ => u
  end.

Definition uc_run (u : ucount) (l : list wop) : ucount := fold_left uc_step l u.

(* A configuration reload (ops L / H of the engine) is no operation here: the
   unit keeps its sessions and counters, and since fix fde831a (finding
   C13-reload-drops: the reconfigured gate handed the command sender of its old,
   dropped channel to new clones, so every connection made after a reload was
   accepted and lost at once) later connections are ordinary WConnect steps. *)

(* "the number of BMP routers connected to this unit" (help text of the gauge) *)
Definition uc_connected_spec (u : ucount) : N := N.of_nat (size (uc_live u)).
(* what the code renders: the size of the metrics map *)
Definition uc_connected_code (u : ucount) : N := N.of_nat (size (uc_known u)).

(* ------------------------------------------------------------------ *)
(* The Roto script of the configuration and the RIB units that fetch their
   rib-in-pre filter from it: src/manager.rs compile_roto_script (called by
   prepare on every load) and spawn_internal (hands Manager.roto_compiled to the
   Component of every unit it STARTS; a unit of unchanged name and type is sent
   Reconfigure and keeps what it has), src/units/rib_unit/unit.rs
   RibUnitRunner::new (fetches `rib-in-pre` once) and filter_payload. *)

(* What a configuration says about the script: no `roto_script`; a script
   without a rib-in-pre filter; a script whose rib-in-pre rejects the routes of
   one prefix (the engine's scripts: route.prefix_matches(p) -> reject). *)
Inductive script := SNone | SNoRibFilter | SRejectPfx (p : N).

Definition script_rejects (s : script) (pfx : N) : bool :=
  match s with SRejectPfx p => (pfx =? p)%N | _ => false end.

(* RibUnitRunner::filter_payload: every payload of an update - announcement or
   withdrawal - is shown to the filter; a rejected one is dropped, the others
   are inserted (and forwarded) in order. No filter: everything is inserted. *)
Definition filter_update (s : script) (u : update) : update :=
  match u with
  | UBulk ps => UBulk (List.filter (fun p => negb (script_rejects s (k_pfx (p_key p)))) ps)
  | _ => u
  end.

(* A RIB unit: the filter it fetched when it was started, the number of the load
   that started it (0 = start-up), its store. *)
Record runit := MkRunit { ru_filter : script; ru_born : nat; ru_rib : rib }.

Definition upd_of (out : wout) : option update :=
  match out with WoStep (OUpdate u) _ => Some u | _ => None end.
Definition runit_apply (r : runit) (u : update) : runit :=
  MkRunit (ru_filter r) (ru_born r) (rib_apply (ru_rib r) (filter_update (ru_filter r) u)).
(* every update the bmp unit's gate sends reaches every RIB unit subscribed to it *)
Definition runit_see (r : runit) (out : wout) : runit :=
  match upd_of out with Some u => runit_apply r u | None => r end.

(* The property's reading of the same filter, on the operation: the routes of a
   rejected prefix are not there. (UGen, the wire form of Pipe/PipeRaw.v, is
   not used by the end-to-end engine and is left as it is.) *)
Definition filter_upd (s : script) (u : upd) : upd :=
  match u with
  | URoutes af ann a wf wd =>
      URoutes af (List.filter (fun p => negb (script_rejects s p)) ann) a
              wf (List.filter (fun p => negb (script_rejects s p)) wd)
  | _ => u
  end.
Definition filter_wop (s : script) (o : wop) : wop :=
  match o with
  | WMsg k (MRoute p (Some u)) => WMsg k (MRoute p (Some (filter_upd s u)))
  | _ => o
  end.

(* The operator's files: the script the configuration names, and whether it
   has a second RIB unit `rib2` sourcing the bmp unit (0 absent, 1 a rib, any
   other value: a unit of that name and another type). *)
Record efile := MkEfile { ef_script : script; ef_rib2 : N }.

Record estate := MkEs {
  es_w : world;                 (* the pipeline model: sessions, register; w_rib = an unfiltered RIB *)
  es_file : efile;              (* the files as the operator left them; they take effect with the next load *)
  es_scripts : list script;     (* the script named by load 0 (start-up), 1, 2, ... *)
  es_compiled : script;         (* Manager.roto_compiled *)
  es_rib : runit;               (* unit `rib`, started by load 0 *)
  es_rib2kind : N;              (* what runs under the name rib2 *)
  es_rib2 : option runit;       (* ... its filter and store when it is a rib *)
  es_s : sworld;                (* the property's reading of what `rib` should hold *)
  es_s2 : option sworld }.      (* ... and `rib2`: sessions as es_s, routes since it was started *)

Inductive eop :=
| EW (o : wop)                  (* traffic *)
| EScript (s : script)          (* the operator edits the script / names another one / takes roto_script out *)
| EUnit (y : N)                 (* the operator adds, removes or re-types [units.rib2] *)
| EReload.                      (* SIGHUP: ConfigFile::load, Config::from_config_file, Manager::spawn *)

Definition e_init (s0 : script) : estate :=
  MkEs world_init (MkEfile s0 0) [s0] s0 (MkRunit s0 0 rib_empty) 0 None sworld_init None.

(* legacy = true: compile_roto_script as it was - a configuration WITHOUT
   roto_script left Manager.roto_compiled as it was, so a unit started by that
   load fetched its filters from a script that is no longer configured. *)
Definition e_step (legacy : bool) (st : estate) (o : eop) : estate :=
  match o with
  | EW wo =>
      let '(w', out) := wstep (es_w st) wo in
      MkEs w' (es_file st) (es_scripts st) (es_compiled st)
           (runit_see (es_rib st) out) (es_rib2kind st)
           (option_map (fun r => runit_see r out) (es_rib2 st))
           (sstep (es_s st) (filter_wop (ru_filter (es_rib st)) wo)).1
           (match es_rib2 st, es_s2 st with
            | Some r, Some s2 => Some (sstep s2 (filter_wop (ru_filter r) wo)).1
            | _, _ => None
            end)
  | EScript s =>
      MkEs (es_w st) (MkEfile s (ef_rib2 (es_file st))) (es_scripts st) (es_compiled st)
           (es_rib st) (es_rib2kind st) (es_rib2 st) (es_s st) (es_s2 st)
  | EUnit y =>
      MkEs (es_w st) (MkEfile (ef_script (es_file st)) y) (es_scripts st) (es_compiled st)
           (es_rib st) (es_rib2kind st) (es_rib2 st) (es_s st) (es_s2 st)
  | EReload =>
      let f := es_file st in
      let compiled :=
        if legacy then match ef_script f with SNone => es_compiled st | s => s end
        else ef_script f in
      let wanted := (ef_rib2 f =? 1)%N in
      let keep := (es_rib2kind st =? 1)%N && wanted in
      (* same name and type: Reconfigure, the unit keeps its filter and its store;
         otherwise a unit is started with what the manager holds now *)
      let rib2 := if keep then es_rib2 st
                  else if wanted then Some (MkRunit compiled (length (es_scripts st)) rib_empty)
                  else None in
      let s2 := if keep then es_s2 st
                else if wanted then Some (MkSWorld (s_sess (es_s st)) ∅ (s_bgp (es_s st)) (s_bgp_conns (es_s st)))
                else None in
      MkEs (es_w st) f (es_scripts st ++ [ef_script f]) compiled
           (es_rib st) (ef_rib2 f) rib2 (es_s st) s2
  end.

Definition e_run (legacy : bool) (st : estate) (h : list eop) : estate := fold_left (e_step legacy) h st.

(* the scripts named by the loads of a history, from the operations alone *)
Fixpoint scripts_named (cur : script) (h : list eop) : list script :=
  match h with
  | [] => []
  | EScript s :: t => scripts_named s t
  | EReload :: t => cur :: scripts_named cur t
  | _ :: t => scripts_named cur t
  end.
