(* The glue around the BMP state machine as the end-to-end engine sees it
   (src/units/bmp_tcp_in/{unit.rs accept loop, router_handler.rs, metrics.rs,
   state_machine/metrics.rs}, src/comms.rs): the unit-level connection counters
   of GET /metrics. Definitions only; driven by the operations of Pipe/PipeModel.v. *)
From stdpp Require Import gmap.
From Coq Require Import NArith.
From RV Require Import Ingress.IngressModel Rib.RibModel Bmp.BmpModel Pipe.PipeModel.

(* BmpTcpInMetrics.connection_{accepted,lost}_count and the map
   BmpStateMachineMetrics.routers whose size is rendered as bmp_num_connected_routers *)
Record ucount := MkUc {
  uc_live : gset N;       (* routers with an open connection *)
  uc_known : gset N;      (* routers that have an entry in BmpStateMachineMetrics.routers *)
  uc_accepted : N;        (* listener_connection_accepted *)
  uc_lost : N }.          (* router_connection_lost *)

Definition uc_init : ucount := MkUc ∅ ∅ 0 0.

(* An entry of BmpStateMachineMetrics.routers is created by the first status
   report of the router's state machine: the change of state of an accepted
   Initiation message, or the hard-parse-failure count of anything else a new
   session sends (BmpState::process_msg reports every invalid message) - that is,
   by the first BMP message of the session. read_from_router's post-loop cleanup
   removes it (fix 8a86f45). A connected router that has not spoken yet has none. *)
Definition uc_step (u : ucount) (o : wop) : ucount :=
  match o with
  | WConnect k =>
      if bool_decide (k ∈ uc_live u) then u
      else MkUc ({[k]} ∪ uc_live u) (uc_known u) (uc_accepted u + 1) (uc_lost u)
  | WDisconnect k =>
      if bool_decide (k ∈ uc_live u)
      then MkUc (uc_live u ∖ {[k]}) (uc_known u ∖ {[k]}) (uc_accepted u) (uc_lost u + 1)
      else u
  | WMsg k _ =>
      if bool_decide (k ∈ uc_live u)
      then MkUc (uc_live u) ({[k]} ∪ uc_known u) (uc_accepted u) (uc_lost u)
      else u
  | _ => u
  end.

Definition uc_run (u : ucount) (l : list wop) : ucount := fold_left uc_step l u.

(* A configuration reload (ops L / H of the engine) is no operation here: the
   unit keeps its sessions and counters, and since fix fde831a (finding
   C13-reload-drops: the reconfigured gate handed the command sender of its old,
   dropped channel to new clones, so every connection made after a reload was
   accepted and lost at once) later connections are ordinary WConnect steps. *)

(* "the number of BMP routers connected to this unit" (help text of the gauge) *)
Definition uc_connected_spec (u : ucount) : N := N.of_nat (size (uc_live u)).
(* what the code renders: the size of the metrics map *)
Definition uc_connected_code (u : ucount) : N := N.of_nat (size (uc_known u)).
