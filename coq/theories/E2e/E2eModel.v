(* The glue around the BMP state machine as the end-to-end engine sees it
   (src/units/bmp_tcp_in/{unit.rs accept loop, router_handler.rs, metrics.rs,
   state_machine/metrics.rs}, src/comms.rs): the unit-level connection counters
   of GET /metrics. Definitions only; driven by the operations of Pipe/PipeModel.v. *)
From stdpp Require Import gmap.
From Coq Require Import NArith.
From RV Require Import Ingress.IngressModel Rib.RibModel Bmp.BmpModel Pipe.PipeModel.

(* BmpTcpInMetrics.connection_{accepted,lost}_count and the map
   BmpStateMachineMetrics.routers whose size is rendered as bmp_num_connected_routers *)
Record ucount := MkUc {
  uc_live : gset N;       (* routers with an open connection *)
  uc_known : gset N;      (* routers that have an entry in BmpStateMachineMetrics.routers *)
  uc_accepted : N;        (* listener_connection_accepted *)
  uc_lost : N }.          (* router_connection_lost *)

Definition uc_init : ucount := MkUc ∅ ∅ 0 0.

(* An entry of BmpStateMachineMetrics.routers is created by the first status
   report of the router's state machine: the change of state of an accepted
   Initiation message, or the hard-parse-failure count of anything else a new
   session sends (BmpState::process_msg reports every invalid message) - that is,
   by the first BMP message of the session. read_from_router's post-loop cleanup
   removes it (fix 8a86f45). A connected router that has not spoken yet has none. *)
Definition uc_step (u : ucount) (o : wop) : ucount :=
  match o with
  | WConnect k =>
      if bool_decide (k ∈ uc_live u) then u
      else MkUc ({[k]} ∪ uc_live u) (uc_known u) (uc_accepted u + 1) (uc_lost u)
  | WDisconnect k =>
      if bool_decide (k ∈ uc_live u)
      then MkUc (uc_live u ∖ {[k]}) (uc_known u ∖ {[k]}) (uc_accepted u) (uc_lost u + 1)
      else u
  | WMsg k _ =>
      if bool_decide (k ∈ uc_live u)
      then MkUc (uc_live u) ({[k]} ∪ uc_known u) (uc_accepted u) (uc_lost u)
      else u
  | _ => u
  end.

Definition uc_run (u : ucount) (l : list wop) : ucount := fold_left uc_step l u.

(* A configuration reload (ops L / H of the engine) is no operation here: the
   unit keeps its sessions and counters, and since fix fde831a (finding
   C13-reload-drops: the reconfigured gate handed the command sender of its old,
   dropped channel to new clones, so every connection made after a reload was
   accepted and lost at once) later connections are ordinary WConnect steps. *)

(* "the number of BMP routers connected to this unit" (help text of the gauge) *)
Definition uc_connected_spec (u : ucount) : N := N.of_nat (size (uc_live u)).
(* what the code renders: the size of the metrics map *)
Definition uc_connected_code (u : ucount) : N := N.of_nat (size (uc_known u)).

(* ------------------------------------------------------------------ *)
(* The Roto script of the configuration and the RIB units that fetch their
   rib-in-pre filter from it: src/manager.rs compile_roto_script (called by
   prepare on every load) and spawn_internal (hands Manager.roto_compiled to the
   Component of every unit it STARTS; a unit of unchanged name and type is sent
   Reconfigure and keeps what it has), src/units/rib_unit/unit.rs
   RibUnitRunner::new (fetches `rib-in-pre` once) and filter_payload. *)

(* What a configuration says about the script: no `roto_script`; a script
   without a rib-in-pre filter; a script whose rib-in-pre rejects the routes of
   one prefix (the engine's scripts: route.prefix_matches(p) -> reject). *)
Inductive script := SNone | SNoRibFilter | SRejectPfx (p : N).

Definition script_rejects (s : script) (pfx : N) : bool :=
  match s with SRejectPfx p => (pfx =? p)%N | _ => false end.

(* RibUnitRunner::filter_payload: every payload of an update - announcement or
   withdrawal - is shown to the filter; a rejected one is dropped, the others
   are inserted (and forwarded) in order. No filter: everything is inserted. *)
Definition filter_update (s : script) (u : update) : update :=
  match u with
  | UBulk ps => UBulk (List.filter (fun p => negb (script_rejects s (k_pfx (p_key p)))) ps)
  | _ => u
  end.

(* A RIB unit: the filter it fetched when it was started, the number of the load
   that started it (0 = start-up), its store. *)
Record runit := MkRunit { ru_filter : script; ru_born : nat; ru_rib : rib }.

Definition upd_of (out : wout) : option update :=
  match out with WoStep (OUpdate u) _ => Some u | _ => None end.
Definition runit_apply (r : runit) (u : update) : runit :=
  MkRunit (ru_filter r) (ru_born r) (rib_apply (ru_rib r) (filter_update (ru_filter r) u)).
(* every update the bmp unit's gate sends reaches every RIB unit subscribed to it *)
Definition runit_see (r : runit) (out : wout) : runit :=
  match upd_of out with Some u => runit_apply r u | None => r end.

(* The property's reading of the same filter, on the operation: the routes of a
   rejected prefix are not there. (UGen, the wire form of Pipe/PipeRaw.v, is
   not used by the end-to-end engine and is left as it is.) *)
Definition filter_upd (s : script) (u : upd) : upd :=
  match u with
  | URoutes af ann a wf wd =>
      URoutes af (List.filter (fun p => negb (script_rejects s p)) ann) a
              wf (List.filter (fun p => negb (script_rejects s p)) wd)
  | _ => u
  end.
Definition filter_wop (s : script) (o : wop) : wop :=
  match o with
  | WMsg k (MRoute p (Some u)) => WMsg k (MRoute p (Some (filter_upd s u)))
  | _ => o
  end.

(* A generated vRIB (src/config.rs expand_shorthand_vribs: `[units.rib]` with
   `filter_names` of n+1 entries becomes the physical RIB `rib` and the units
   `rib-vRIB-0` .. `rib-vRIB-<n-1>`, rib_type = GeneratedVirtual(i), `sources` =
   the RIB before it in the chain, `vrib_upstream` = `rib`): the filter it fetched
   when it was started and the number of the load that started it, as for any RIB
   unit; and the two links a prefix query of its HTTP endpoint
   (<http_api_path>/<i>/<prefix>, rib_unit/http/request.rs handle_prefix_query)
   depends on, each identified by the number of the load that made it (every load
   makes new gates and new links, a link reaches the gate of its own load only):
   vr_up = `vrib_upstream`, through which the Trigger(MatchPrefix) is sent to the
   physical RIB; vr_src = `sources`, over which the QueryResult comes down the
   chain. rib_unit/unit.rs, arm GateStatus::Reconfiguring: both are replaced by
   the links of the new configuration (set_vrib_upstream; sources = new_sources
   + connect). *)
Record vrib := MkVrib { vr_filter : script; vr_born : nat; vr_up : nat; vr_src : nat }.

(* The operator's files: the script the configuration names, whether it
   has a second RIB unit `rib2` sourcing the bmp unit (0 absent, 1 a rib, any
   other value: a unit of that name and another type), and how many vRIBs the
   shorthand of `[units.rib]` asks for (0: a plain RIB). *)
Record efile := MkEfile { ef_script : script; ef_rib2 : N; ef_vribs : N }.

Record estate := MkEs {
  es_w : world;                 (* the pipeline model: sessions, register; w_rib = an unfiltered RIB *)
  es_file : efile;              (* the files as the operator left them; they take effect with the next load *)
  es_scripts : list script;     (* the script named by load 0 (start-up), 1, 2, ... *)
  es_compiled : script;         (* Manager.roto_compiled *)
  es_rib : runit;               (* unit `rib`, started by load 0 *)
  es_rib2kind : N;              (* what runs under the name rib2 *)
  es_rib2 : option runit;       (* ... its filter and store when it is a rib *)
  es_s : sworld;                (* the property's reading of what `rib` should hold *)
  es_s2 : option sworld;        (* ... and `rib2`: sessions as es_s, routes since it was started *)
  es_vribs : list vrib }.       (* the generated vRIBs behind `rib`, rib-vRIB-0 first *)

Inductive eop :=
| EW (o : wop)                  (* traffic *)
| EScript (s : script)          (* the operator edits the script / names another one / takes roto_script out *)
| EUnit (y : N)                 (* the operator adds, removes or re-types [units.rib2] *)
| EVribs (n : N)                (* the operator edits filter_names of [units.rib]: n generated vRIBs *)
| EReload.                      (* SIGHUP: ConfigFile::load, Config::from_config_file, Manager::spawn *)

(* start-up with the script s0 and a shorthand RIB with n0 generated vRIBs *)
Definition e_init_v (s0 : script) (n0 : N) : estate :=
  MkEs world_init (MkEfile s0 0 n0) [s0] s0 (MkRunit s0 0 rib_empty) 0 None sworld_init None
       (replicate (N.to_nat n0) (MkVrib s0 0 0 0)).
Definition e_init (s0 : script) : estate := e_init_v s0 0.

(* The number of the latest load = the load whose gates the running units hold:
   a unit that is sent Reconfigure moves to the command channel of its new gate
   (comms.rs GateCommand::Reconfigure), the channels of the earlier loads have
   no reader any more. *)
Definition es_cur (st : estate) : nat := pred (length (es_scripts st)).

(* legacy = true: compile_roto_script as it was - a configuration WITHOUT
   roto_script left Manager.roto_compiled as it was, so a unit started by that
   load fetched its filters from a script that is no longer configured. *)
Definition e_step (legacy : bool) (st : estate) (o : eop) : estate :=
  match o with
  | EW wo =>
      let '(w', out) := wstep (es_w st) wo in
      MkEs w' (es_file st) (es_scripts st) (es_compiled st)
           (runit_see (es_rib st) out) (es_rib2kind st)
           (option_map (fun r => runit_see r out) (es_rib2 st))
           (sstep (es_s st) (filter_wop (ru_filter (es_rib st)) wo)).1
           (match es_rib2 st, es_s2 st with
            | Some r, Some s2 => Some (sstep s2 (filter_wop (ru_filter r) wo)).1
            | _, _ => None
            end)
           (es_vribs st)
  | EScript s =>
      MkEs (es_w st) (MkEfile s (ef_rib2 (es_file st)) (ef_vribs (es_file st))) (es_scripts st) (es_compiled st)
           (es_rib st) (es_rib2kind st) (es_rib2 st) (es_s st) (es_s2 st) (es_vribs st)
  | EUnit y =>
      MkEs (es_w st) (MkEfile (ef_script (es_file st)) y (ef_vribs (es_file st))) (es_scripts st) (es_compiled st)
           (es_rib st) (es_rib2kind st) (es_rib2 st) (es_s st) (es_s2 st) (es_vribs st)
  | EVribs n =>
      MkEs (es_w st) (MkEfile (ef_script (es_file st)) (ef_rib2 (es_file st)) n) (es_scripts st) (es_compiled st)
           (es_rib st) (es_rib2kind st) (es_rib2 st) (es_s st) (es_s2 st) (es_vribs st)
  | EReload =>
      let f := es_file st in
      let compiled :=
        if legacy then match ef_script f with SNone => es_compiled st | s => s end
        else ef_script f in
      let wanted := (ef_rib2 f =? 1)%N in
      let keep := (es_rib2kind st =? 1)%N && wanted in
      (* same name and type: Reconfigure, the unit keeps its filter and its store;
         otherwise a unit is started with what the manager holds now *)
      let rib2 := if keep then es_rib2 st
                  else if wanted then Some (MkRunit compiled (length (es_scripts st)) rib_empty)
                  else None in
      let s2 := if keep then es_s2 st
                else if wanted then Some (MkSWorld (s_sess (es_s st)) ∅ (s_bgp (es_s st)) (s_bgp_conns (es_s st)))
                else None in
      (* generated vRIBs: rib-vRIB-i of the new file is the running unit of that name if there is one - Reconfigure:
         filter kept, both links replaced by the ones this load made - and is started otherwise, with what the
         manager holds now; running vRIBs the file no longer asks for are terminated *)
      let this := length (es_scripts st) in
      let nv := N.to_nat (ef_vribs f) in
      let vribs :=
        map (fun v => MkVrib (vr_filter v) (vr_born v) this this) (take nv (es_vribs st))
        ++ replicate (nv - length (es_vribs st)) (MkVrib compiled this this this) in
      MkEs (es_w st) f (es_scripts st ++ [ef_script f]) compiled
           (es_rib st) (ef_rib2 f) rib2 (es_s st) s2 vribs
  end.

Definition e_run (legacy : bool) (st : estate) (h : list eop) : estate := fold_left (e_step legacy) h st.

(* the scripts named by the loads of a history, from the operations alone *)
Fixpoint scripts_named (cur : script) (h : list eop) : list script :=
  match h with
  | [] => []
  | EScript s :: t => scripts_named s t
  | EReload :: t => cur :: scripts_named cur t
  | _ :: t => scripts_named cur t
  end.

(* ------------------------------------------------------------------ *)
(* A prefix query of generated vRIB i (GET <http_api_path>/<i>/<prefix>).
   PrefixesApi::handle_prefix_query of a virtual RIB registers a pending result
   under a fresh query id, sends Trigger(MatchPrefix) through its vrib_upstream
   link and waits; the physical RIB (run, arm GateStatus::Triggered) answers
   Update::QueryResult into its gate, every vRIB of the chain re-processes the
   result with its own filter (process_update -> reprocess_query_results) and
   passes it on until the one that waits for the id takes it. *)
Inductive vanswer :=
| VAbsent                              (* no vRIB of that number: nothing answers at that path *)
| VNever                               (* the request is never answered *)
| VAnswer (l : list (N * bool * N)).   (* the entries, as RibModel.rib_query gives them *)

(* some filter of rib-vRIB-0 .. rib-vRIB-i rejects the routes of the prefix *)
Definition chain_rejects (vs : list vrib) (i : nat) (pfx : N) : bool :=
  existsb (fun v => script_rejects (vr_filter v) pfx) (take (S i) vs).

(* the trigger of vRIB i reaches the physical RIB and the result comes down to it *)
Definition chain_linked (cur : nat) (vs : list vrib) (i : nat) : bool :=
  match vs !! i with Some v => (vr_up v =? cur)%nat | None => false end
  && forallb (fun v => (vr_src v =? cur)%nat) (take (S i) vs).

(* What the property asks for: vRIB i of the CURRENT configuration answers with
   the entries of the physical RIB of the current configuration that pass the
   filters of the chain up to it - without scripts: what the physical RIB says. *)
Definition vrib_query_spec (st : estate) (i : nat) (af pfx : N) : vanswer :=
  if (i <? length (es_vribs st))%nat
  then VAnswer (if chain_rejects (es_vribs st) i pfx then [] else rib_query (ru_rib (es_rib st)) af pfx)
  else VAbsent.

(* What the code does: an empty result passes the chain; for a result with
   entries reprocess_query_results calls reprocess_rib_value, whose body is
   `todo!()` (rib_unit/unit.rs): the task of the physical RIB, which delivers the
   result by DirectLink, panics, the request is never answered (and the physical
   RIB is gone). A link of an earlier load reaches nobody. *)
Definition vrib_query_code (st : estate) (i : nat) (af pfx : N) : vanswer :=
  if (i <? length (es_vribs st))%nat
  then if chain_linked (es_cur st) (es_vribs st) i
       then match rib_query (ru_rib (es_rib st)) af pfx with
            | [] => VAnswer []
            | _ => VNever
            end
       else VNever
  else VAbsent.

(* ------------------------------------------------------------------ *)
(* Ingress units that a reload removes and adds (src/manager.rs spawn_internal:
   a running unit whose block left the configuration is sent Terminate, a unit
   the configuration has and that does not run is started; src/comms.rs
   GateCommand::Terminate: the unit's gate tells its clones and the unit ends;
   src/units/bmp_tcp_in/router_handler.rs read_from_router: the 'gate
   terminated' exit of the read loop falls into the common clean-up -
   WithdrawBulk(ids_for_parent(router id)), EndOfStream - like every other exit;
   unit.rs BmpTcpInRunner::run: a unit that is started registers an ingress id
   of its own and looks its routers up under that parent).

   The pipeline of these cases has TWO bmp-tcp-in units, `bmp-in` and `bmp-in2`,
   which every RIB unit sources; the engine has eight router addresses: 0..3
   connect to bmp-in, 4..7 to bmp-in2. Only bmp-in is taken out and put back. *)

Definition on_unit1 (k : N) : bool := (k <? 4)%N.
Definition unit1_addrs : list N := [0; 1; 2; 3]%N.
Definition unit2_addrs : list N := [4; 5; 6; 7]%N.

(* the source a router address is: a router of the g-th bmp-in unit after the
   first is not the router of an earlier one - it is looked up under another
   parent (PipeModel keys sessions, register addresses and wire identities by
   one number, so the number carries the incarnation) *)
Definition src_key (g k : N) : N := if on_unit1 k then (k + 8 * g)%N else k.

Definition wop_router (o : wop) : option N :=
  match o with
  | WConnect k | WMsg k _ | WDisconnect k | WMetrics k => Some k
  | _ => None
  end.
Definition wop_rekey (f : N -> N) (o : wop) : wop :=
  match o with
  | WConnect k => WConnect (f k)
  | WMsg k m => WMsg (f k) m
  | WDisconnect k => WDisconnect (f k)
  | WMetrics k => WMetrics (f k)
  | _ => o
  end.

Definition w_set_unit (w : world) (u : N) : world :=
  MkWorld (w_reg w) u (w_routers w) (w_rib w) (w_bgp w) (w_bgp_conns w) (w_ids w).
Definition w_set_reg (w : world) (r : reg) : world :=
  MkWorld r (w_unit w) (w_routers w) (w_rib w) (w_bgp w) (w_bgp_conns w) (w_ids w).
Definition es_map_w (f : world -> world) (st : estate) : estate :=
  MkEs (f (es_w st)) (es_file st) (es_scripts st) (es_compiled st) (es_rib st) (es_rib2kind st) (es_rib2 st)
       (es_s st) (es_s2 st) (es_vribs st).

Record istate := MkIs {
  is_e : estate;         (* everything so far: sessions, register, RIB units, files, scripts *)
  is_want : bool;        (* the operator's file has [units.bmp-in] *)
  is_run : bool;         (* a bmp-in unit runs *)
  is_gen : N;            (* bmp-in units started before the one that runs (or ran last) *)
  is_uid : N;            (* the ingress id that unit registered for itself *)
  is_uid2 : N }.         (* ... and bmp-in2 *)

Inductive iop :=
| IE (o : eop)           (* traffic (router addresses 0..7), edits, reloads *)
| IIngress (b : bool).   (* the operator takes [units.bmp-in] out of the configuration / puts it back *)

Definition i_init (s0 : script) (n0 : N) : istate :=
  let e := e_init_v s0 n0 in
  let '(u2, r') := reg_register (w_reg (es_w e)) in
  MkIs (es_map_w (fun w => w_set_reg w r') e) true true 0 (w_unit (es_w e)) u2.

(* the connection of router `key` ends and nobody downstream hears of it: the
   session is gone, the RIB units keep what they have (what the property asks
   for does not change: the sessions of that router are over) *)
Definition e_lose (st : estate) (key : N) : estate :=
  let w := es_w st in
  MkEs (MkWorld (w_reg w) (w_unit w) (delete key (w_routers w)) (w_rib w) (w_bgp w) (w_bgp_conns w) (w_ids w))
       (es_file st) (es_scripts st) (es_compiled st) (es_rib st) (es_rib2kind st) (es_rib2 st)
       (sstep (es_s st) (WDisconnect key)).1
       (match es_rib2 st, es_s2 st with
        | Some _, Some s2 => Some (sstep s2 (WDisconnect key)).1
        | _, _ => None
        end)
       (es_vribs st).

(* What the termination of bmp-in is made of: the end of the connection of each
   of its routers. *)
Definition i_removal_ops (st : istate) : list eop :=
  if is_run st && negb (is_want st)
  then map (fun k => EW (WDisconnect (src_key (is_gen st) k))) unit1_addrs
  else [].

(* legacy = true: the RIB unit as it was before fix 29de9ab - its Reconfiguring
   arm dropped the links of the previous configuration at once (Link::drop
   sends Unsubscribe), so the gate of a unit that the same reload terminates
   had usually forgotten the RIB units before the unit's router handlers sent
   their WithdrawBulk: one schedule of the two, the common one, is modelled. *)
Definition i_remove (legacy : bool) (st : istate) : estate :=
  if is_run st && negb (is_want st)
  then if legacy
       then fold_left e_lose (map (src_key (is_gen st)) unit1_addrs) (is_e st)
       else fold_left (e_step false) (i_removal_ops st) (is_e st)
  else is_e st.

Definition i_step (legacy : bool) (st : istate) (o : iop) : istate :=
  match o with
  | IIngress b => MkIs (is_e st) b (is_run st) (is_gen st) (is_uid st) (is_uid2 st)
  | IE (EW wo) =>
      match wop_router wo with
      | Some k =>
          if (8 <=? k)%N then st                                   (* the engine has eight router addresses *)
          else if on_unit1 k && negb (is_run st) then st           (* nobody listens there, no session of that router *)
          else
            let e := es_map_w (fun w => w_set_unit w (if on_unit1 k then is_uid st else is_uid2 st)) (is_e st) in
            MkIs (e_step false e (EW (wop_rekey (src_key (is_gen st)) wo)))
                 (is_want st) (is_run st) (is_gen st) (is_uid st) (is_uid2 st)
      | None => MkIs (e_step false (is_e st) (EW wo)) (is_want st) (is_run st) (is_gen st) (is_uid st) (is_uid2 st)
      end
  | IE EReload =>
      (* a running bmp-in that the file no longer has is terminated: every connection of the unit ends; then what a
         reload does to the other units; then a bmp-in that the file has and that does not run is started: a NEW unit,
         which registers an ingress id of its own *)
      let e2 := e_step false (i_remove legacy st) EReload in
      if negb (is_run st) && is_want st
      then let '(uid, r') := reg_register (w_reg (es_w e2)) in
           MkIs (es_map_w (fun w => w_set_reg w r') e2) (is_want st) true (is_gen st + 1) uid (is_uid2 st)
      else MkIs e2 (is_want st) (is_run st && is_want st) (is_gen st) (is_uid st) (is_uid2 st)
  | IE o => MkIs (e_step false (is_e st) o) (is_want st) (is_run st) (is_gen st) (is_uid st) (is_uid2 st)
  end.

Definition i_run (legacy : bool) (st : istate) (h : list iop) : istate := fold_left (i_step legacy) h st.

(* GET <http_api_path of the unit>: the router list of a running unit shows its
   connected routers; nothing answers at the path of a unit that does not run
   (the HTTP resource is held weakly and goes with the unit: 404) *)
Definition live_count (w : world) (keys : list N) : N :=
  N.of_nat (length (List.filter (fun k => match w_routers w !! k with Some _ => true | None => false end) keys)).
Definition i_listed (st : istate) (u : N) : option N :=
  if (u =? 0)%N
  then if is_run st then Some (live_count (es_w (is_e st)) (map (src_key (is_gen st)) unit1_addrs)) else None
  else Some (live_count (es_w (is_e st)) unit2_addrs).

(* the ingress ids that the end of the connections of `keys` withdraws *)
Definition removed_ids (w : world) (keys : list N) : list N :=
  flat_map (fun key => match w_routers w !! key with
                       | Some (rid, _) => reg_ids_for_parent (w_reg w) rid
                       | None => []
                       end) keys.

(* the ingress id under which router address k is connected now (what the router list of its unit names) *)
Definition i_rid (st : istate) (k : N) : option N :=
  match w_routers (es_w (is_e st)) !! src_key (is_gen st) k with
  | Some (rid, _) => Some rid
  | None => None
  end.

(* readings of an istate for statements: the session of a source key, the ingress ids registered under a router,
   what unit `rib` reports for one (family, prefix, ingress id), what the property's reading holds for a route *)
Definition i_session (st : istate) (key : N) : option (N * sm) := w_routers (es_w (is_e st)) !! key.
Definition i_children (st : istate) (rid : N) : list N := reg_ids_for_parent (w_reg (es_w (is_e st))) rid.
Definition i_rib_lookup (st : istate) (k : rkey) : option (bool * N) := rib_lookup (ru_rib (es_rib (is_e st))) k.
Definition i_spec_lookup (st : istate) (f p : N) (x : wid) : option (bool * N) := s_rib (es_s (is_e st)) !! (f, p, x).
Definition i_spec_session (st : istate) (key : N) : bool :=
  match s_sess (es_s (is_e st)) !! key with Some _ => true | None => false end.
Definition withdrawn_of (o : option (bool * N)) : option (bool * N) :=
  match o with Some (_, a) => Some (false, a) | None => None end.

(* no source names the id the register hands out next as its parent (ids are handed out in order: C14) *)
Definition next_id_unused (r : reg) : Prop :=
  forall id inf, infos r !! id = Some inf -> i_parent inf <> Some (serial r).

(* ------------------------------------------------------------------ *)
(* A bgp-tcp-in unit in the pipeline (src/units/bgp_tcp_in/unit.rs
   BgpTcpInRunner::run, the accept loop: every accepted TCP connection is
   counted; the peer table of the configuration the unit holds AT THAT MOMENT
   (`arc_self.bgp.load()`, stored by the Reconfiguring arm of process_until) is
   asked for the remote address; a hit starts a session with that configuration
   and with an ingress id registered for THIS connection
   (`arc_self.ingresses.register()` in the argument list of accept_config), a
   miss drops the connection. router_handler.rs Processor::process: routes are
   stored under the connection's id; the block after the loop sends
   Update::Withdraw(that id, None); arm GateStatus::Reconfiguring: the session
   ends when the new configuration differs from the one it was ACCEPTED with in
   my_asn / my_bgp_id / listen, or no longer has its peer entry (counted as a
   disconnect), or has another remote_asn / hold_time in it.)

   The engine's speakers have the addresses 0..4 (127.0.0.30 .. 127.0.0.34);
   a peer entry is a number (1: hold_time 90, 2: hold_time 120), my_asn is a
   number (0: 64512, 1: 64513); `listen` never changes. A session's key in the
   pipeline model (WBgpOpen b ...) is its speaker's address. *)

Record bcfg := MkBcfg { bc_asn : N; bc_peers : gmap N N }.

Definition bgp_addrs : list N := [0; 1; 2; 3; 4]%N.
Definition is_bgp_addr (k : N) : bool := (k <? 5)%N.

Record bstate := MkBs {
  bs_e : estate;                 (* the pipeline: sessions and register (es_w), RIB units, files, the property's reading *)
  bs_file : bcfg;                (* [units.bgp-in] as the operator left it; effective with the next load *)
  bs_cfg : bcfg;                 (* what the unit holds (BgpTcpInRunner.bgp) *)
  bs_sess : gmap N (N * N);      (* address -> (my_asn, peer entry) its live session was accepted with (Processor.unit_cfg) *)
  bs_accepted : N;               (* bgp_tcp_in_connection_accepted_count *)
  bs_lost : N;                   (* bgp_tcp_in_connection_lost_count *)
  bs_disc : N }.                 (* bgp_tcp_in_disconnect_count *)

Inductive bop :=
| BE (o : eop)                   (* BMP traffic, edits of script / rib2 / vRIBs (a reload: BReload) *)
| BPeer (k : N) (v : option N)   (* the operator takes [peers."<k>"] out / writes entry v *)
| BAsn (a : N)                   (* the operator edits my_asn *)
| BOpen (k : N)                  (* TCP connection from address k, OPEN *)
| BUpd (k : N) (u : upd)         (* an UPDATE on the session of address k *)
| BClose (k : N)                 (* the speaker closes the connection (FIN, or NOTIFICATION and FIN) *)
| BReload (unheard : list N).    (* SIGHUP. `unheard`: see b_step *)

Definition b_init_with (e : estate) (c : bcfg) : bstate := MkBs e c c ∅ 0 0 0.
Definition bcfg_init : bcfg := MkBcfg 0 (<[0%N := 1%N]> (<[1%N := 1%N]> ∅)).
Definition b_init (s0 : script) (n0 : N) : bstate := b_init_with (e_init_v s0 n0) bcfg_init.

(* the session of address k, accepted with (my_asn, entry) = sv, goes on under configuration c *)
Definition sess_stays (c : bcfg) (k : N) (sv : N * N) : bool :=
  (bc_asn c =? sv.1)%N && bool_decide (bc_peers c !! k = Some sv.2).
(* ... or ends as `deconfigured` (the only reconfiguration exit that is counted as a disconnect) *)
Definition sess_deconfigured (c : bcfg) (k : N) (sv : N * N) : bool :=
  (bc_asn c =? sv.1)%N && bool_decide (bc_peers c !! k = None).

(* the session of address k ends and nobody downstream hears of it (what the
   property asks for does not depend on that: the session is over) *)
Definition e_bgp_lose (st : estate) (k : N) : estate :=
  let w := es_w st in
  MkEs (MkWorld (w_reg w) (w_unit w) (w_routers w) (w_rib w) (delete k (w_bgp w)) (w_bgp_conns w) (w_ids w))
       (es_file st) (es_scripts st) (es_compiled st) (es_rib st) (es_rib2kind st) (es_rib2 st)
       (sstep (es_s st) (WBgpClose k)).1
       (match es_rib2 st, es_s2 st with
        | Some _, Some s2 => Some (sstep s2 (WBgpClose k)).1
        | _, _ => None
        end)
       (es_vribs st).

(* the sessions a load of configuration c ends *)
Definition b_ended (c : bcfg) (sess : gmap N (N * N)) : list N :=
  List.filter (fun k => match sess !! k with Some sv => negb (sess_stays c k sv) | None => false end) bgp_addrs.

Definition b_end_session (unheard : list N) (e : estate) (k : N) : estate :=
  if bool_decide (k ∈ unheard) then e_bgp_lose e k else e_step false e (EW (WBgpClose k)).

(* BReload unheard. A session that the load ends sends its Withdraw through its
   clone of the unit's gate right after the gate has taken over the subscription
   table of the NEW gate (comms.rs, GateCommand::Reconfigure: `self.updates.
   replace(new_updates)`, then FollowReconfigure to the clones) - a table the
   RIB units enter only when their own Reconfigure has made them subscribe
   again. Whether the Withdraw finds the RIB unit there is a race between the
   two units; `unheard` names the sessions that lose it (known finding
   C13-bgp-reload-end-unheard). The schedule the property needs is [] . *)
Definition b_step (st : bstate) (o : bop) : bstate :=
  match o with
  | BE EReload => st
  | BE o => MkBs (e_step false (bs_e st) o) (bs_file st) (bs_cfg st) (bs_sess st) (bs_accepted st) (bs_lost st) (bs_disc st)
  | BPeer k v =>
      let f := bs_file st in
      MkBs (bs_e st) (MkBcfg (bc_asn f) (match v with Some v => <[k := v]> (bc_peers f) | None => delete k (bc_peers f) end))
           (bs_cfg st) (bs_sess st) (bs_accepted st) (bs_lost st) (bs_disc st)
  | BAsn a =>
      MkBs (bs_e st) (MkBcfg a (bc_peers (bs_file st))) (bs_cfg st) (bs_sess st) (bs_accepted st) (bs_lost st) (bs_disc st)
  | BOpen k =>
      if negb (is_bgp_addr k) then st
      else match bs_sess st !! k with
      | Some _ => st                                       (* the engine opens one connection per address *)
      | None =>
          match bc_peers (bs_cfg st) !! k with
          | Some v =>
              MkBs (e_step false (bs_e st) (EW (WBgpOpen k))) (bs_file st) (bs_cfg st)
                   (<[k := (bc_asn (bs_cfg st), v)]> (bs_sess st)) (bs_accepted st + 1) (bs_lost st) (bs_disc st)
          | None =>
              MkBs (bs_e st) (bs_file st) (bs_cfg st) (bs_sess st) (bs_accepted st + 1) (bs_lost st) (bs_disc st)
          end
      end
  | BUpd k u =>
      match bs_sess st !! k with
      | Some _ => MkBs (e_step false (bs_e st) (EW (WBgpUpdate k (Some u)))) (bs_file st) (bs_cfg st) (bs_sess st)
                       (bs_accepted st) (bs_lost st) (bs_disc st)
      | None => st
      end
  | BClose k =>
      match bs_sess st !! k with
      | Some _ => MkBs (e_step false (bs_e st) (EW (WBgpClose k))) (bs_file st) (bs_cfg st) (delete k (bs_sess st))
                       (bs_accepted st) (bs_lost st + 1) (bs_disc st)
      | None => st
      end
  | BReload unheard =>
      let c := bs_file st in
      let ended := b_ended c (bs_sess st) in
      let e1 := fold_left (b_end_session unheard) ended (bs_e st) in
      let nd := length (List.filter (fun k => match bs_sess st !! k with Some sv => sess_deconfigured c k sv | None => false end) ended) in
      MkBs (e_step false e1 EReload) c c (fold_left (fun m k => delete k m) ended (bs_sess st))
           (bs_accepted st) (bs_lost st) (bs_disc st + N.of_nat nd)
  end.

Definition b_run (st : bstate) (h : list bop) : bstate := fold_left b_step h st.

(* the configuration of the latest load, from the operations alone *)
Definition bcfg_edit (f : bcfg) (o : bop) : bcfg :=
  match o with
  | BPeer k v => MkBcfg (bc_asn f) (match v with Some v => <[k := v]> (bc_peers f) | None => delete k (bc_peers f) end)
  | BAsn a => MkBcfg a (bc_peers f)
  | _ => f
  end.
Fixpoint b_loaded (f cur : bcfg) (h : list bop) : bcfg :=
  match h with
  | [] => cur
  | BReload _ :: t => b_loaded f f t
  | o :: t => b_loaded (bcfg_edit f o) cur t
  end.

(* readings for statements *)
Definition b_world (st : bstate) : world := es_w (bs_e st).
Definition b_session_id (st : bstate) (k : N) : option N :=
  match w_bgp (b_world st) !! k with Some (id, _) => Some id | None => None end.
Definition b_rib_lookup (st : bstate) (key : rkey) : option (bool * N) := rib_lookup (ru_rib (es_rib (bs_e st))) key.
Definition b_spec_lookup (st : bstate) (f p : N) (x : wid) : option (bool * N) := s_rib (es_s (bs_e st)) !! (f, p, x).
(* no live session has the id the register hands out next (ids are handed out in order: C14; fails only after the serial wraps) *)
Definition bgp_next_id_unused (st : bstate) : Prop :=
  forall k id c, w_bgp (b_world st) !! k = Some (id, c) -> id <> serial (w_reg (b_world st)).
Definition b_sess_of (st : bstate) (k : N) : option (N * N) := bs_sess st !! k.
Definition b_live (st : bstate) : list N :=
  List.filter (fun k => match bs_sess st !! k with Some _ => true | None => false end) bgp_addrs.
Definition b_peer_of (c : bcfg) (k : N) : option N := bc_peers c !! k.

(* ------------------------------------------------------------------ *)
(* A router that connects again while its previous connection is still open
   (it rebooted; the collector's old connection is half-open) - bmp-tcp-in
   unit.rs, accept loop: the id of the new connection is whatever
   find_existing_bmp_router(unit id, address) finds, whether or not a session of
   that id is still in router_states; router_connected / router_states.insert
   then REPLACE the entries of that id by the new session's. The handler of the
   old connection keeps its own state machine and goes on reading. When the old
   connection ends at last, its task does what every task does: WithdrawBulk of
   ids_for_parent(router id) - the peers of the NEW session have those ids -
   and router_states.remove(id), router_info.remove(id) - the NEW session's
   entries (accept_config). The new session goes on, unlisted. *)

Record dstate := MkDs {
  ds_e : estate;
  ds_old : gmap N N;                 (* router address -> router id of its parked old connection *)
  ds_ghost : list N;                 (* connected routers whose entries the task of their old connection removed *)
  ds_fresh : list (N * N * wid) }.   (* routes that sessions with a parked predecessor have announced or withdrawn themselves *)

Inductive dop :=
| DE (o : eop)
| DSecond (k : N)                    (* router k opens a second connection, the first one stays open and silent *)
| DOldEnds (k : N).                  (* the parked connection of router k ends *)

Definition d_init (s0 : script) (n0 : N) : dstate := MkDs (e_init_v s0 n0) ∅ [] [].

Definition d_live (st : dstate) (k : N) : option (N * sm) := w_routers (es_w (ds_e st)) !! k.

(* the keys a route message of router k touches in the property's reading, when that reading takes the message *)
Definition touched (sw : sworld) (o : wop) : list (N * N * wid) :=
  match o with
  | WMsg k (MRoute p (Some (URoutes af ann _ wf wd))) =>
      match s_sess sw !! k with
      | Some ((PDump | PUpd), up, _) =>
          if bool_decide (p ∈ up) then map (fun x => (af, x, (k, p))) ann ++ map (fun x => (wf, x, (k, p))) wd else []
      | _ => []
      end
  | _ => []
  end.

(* every RIB unit takes the update (through its filter) *)
Definition e_deliver (st : estate) (u : update) : estate :=
  let w := es_w st in
  MkEs (MkWorld (w_reg w) (w_unit w) (w_routers w) (rib_apply (w_rib w) u) (w_bgp w) (w_bgp_conns w) (w_ids w))
       (es_file st) (es_scripts st) (es_compiled st) (runit_apply (es_rib st) u) (es_rib2kind st)
       (option_map (fun r => runit_apply r u) (es_rib2 st)) (es_s st) (es_s2 st) (es_vribs st).
Definition e_set_s (st : estate) (s : sworld) : estate :=
  MkEs (es_w st) (es_file st) (es_scripts st) (es_compiled st) (es_rib st) (es_rib2kind st) (es_rib2 st) s (es_s2 st) (es_vribs st).

(* what the property asks for when the old connection of a connected router ends: the routes learned over it - the
   router's routes that the new session has not announced or withdrawn itself - are withdrawn *)
Definition spec_old_ends (fresh : list (N * N * wid)) (k : N) (sw : sworld) : sworld :=
  MkSWorld (s_sess sw)
           (map_imap (fun key v => if bool_decide (key.2.1 = k) && negb (bool_decide (key ∈ fresh)) then Some (false, v.2) else Some v) (s_rib sw))
           (s_bgp sw) (s_bgp_conns sw).

Definition d_step (st : dstate) (o : dop) : dstate :=
  match o with
  | DE (EW (WConnect k)) =>
      match d_live st k with
      | Some _ => st                                   (* the engine's `C k` of a connected router is skipped *)
      | None => MkDs (e_step false (ds_e st) (EW (WConnect k))) (ds_old st) (ds_ghost st) (ds_fresh st)
      end
  | DE (EW (WDisconnect k)) =>
      MkDs (e_step false (ds_e st) (EW (WDisconnect k))) (ds_old st) (List.filter (fun x => negb (x =? k)%N) (ds_ghost st)) (ds_fresh st)
  | DE (EW wo) =>
      let t := match wop_router wo with
               | Some k => match ds_old st !! k with Some _ => touched (es_s (ds_e st)) wo | None => [] end
               | None => [] end in
      MkDs (e_step false (ds_e st) (EW wo)) (ds_old st) (ds_ghost st) (t ++ ds_fresh st)
  | DE o => MkDs (e_step false (ds_e st) o) (ds_old st) (ds_ghost st) (ds_fresh st)
  | DSecond k =>
      match d_live st k, ds_old st !! k with
      | Some (rid, _), None =>
          (* the accept loop again: the id the register holds for (unit, address); a fresh state machine replaces the entry *)
          MkDs (e_step false (ds_e st) (EW (WConnect k))) (<[k := rid]> (ds_old st)) (ds_ghost st)
               (List.filter (fun key => negb (key.2.1 =? k)%N) (ds_fresh st))
      | Some _, Some _ => st
      | None, _ => MkDs (e_step false (ds_e st) (EW (WConnect k))) (ds_old st) (ds_ghost st) (ds_fresh st)
      end
  | DOldEnds k =>
      match ds_old st !! k with
      | None => st
      | Some rid =>
          let e1 := e_deliver (ds_e st) (UWithdrawBulk (reg_ids_for_parent (w_reg (es_w (ds_e st))) rid)) in
          match d_live st k with
          | Some _ => MkDs (e_set_s e1 (spec_old_ends (ds_fresh st) k (es_s e1))) (delete k (ds_old st))
                           (if existsb (fun x => (x =? k)%N) (ds_ghost st) then ds_ghost st else k :: ds_ghost st) (ds_fresh st)
          | None => MkDs e1 (delete k (ds_old st)) (ds_ghost st) (ds_fresh st)
          end
      end
  end.

Definition d_run (st : dstate) (h : list dop) : dstate := fold_left d_step h st.

(* GET /routers/: what the code lists (the entries of router_info) and what is connected *)
Definition d_listed_code (st : dstate) : N :=
  N.of_nat (length (List.filter (fun kv : N * (N * sm) => negb (existsb (fun x => (x =? kv.1)%N) (ds_ghost st))) (map_to_list (w_routers (es_w (ds_e st)))))).
Definition d_listed_spec (st : dstate) : N := N.of_nat (size (w_routers (es_w (ds_e st)))).
Definition d_rid (st : dstate) (k : N) : option N := match d_live st k with Some (rid, _) => Some rid | None => None end.
Definition d_old (st : dstate) (k : N) : option N := ds_old st !! k.

(* The accept loop with the guard of seeded change C14-c2 (reuse the id found only when router_states no longer holds it),
   for the refutation: *)
Definition accept_guarded (w : world) (k : N) : N * reg :=
  let q := router_query (w_unit w) k in
  match reg_find_all router_match (w_reg w) q with
  | id :: _ =>
      if existsb (fun kv : N * (N * sm) => (kv.2.1 =? id)%N) (map_to_list (w_routers w))
      then let '(id', r') := reg_register (w_reg w) in (id', reg_update_info r' id' q)
      else (id, w_reg w)
  | [] => let '(id', r') := reg_register (w_reg w) in (id', reg_update_info r' id' q)
  end.
