(* The ingress units' own filters in a running pipeline: what a bmp-tcp-in unit
   does with the `bmp-in` filter and a bgp-tcp-in unit with the `bgp-in` filter
   of the configuration's Roto script.

   src/units/bmp_tcp_in/unit.rs BmpTcpInRunner::run: the unit fetches `bmp-in`
   from the compiled script its Component was handed (Manager.roto_compiled of
   the load that STARTED the unit) once, behind the script's mutex, before its
   accept loop; every RouterHandler gets a clone. A unit of unchanged name and
   type is sent Reconfigure by later loads and keeps what it has.
   router_handler.rs process_msg: the function is called with the message and a
   Provenance whose peer_asn is the AS of the per-peer header (Initiation and
   Termination have none); verdict Reject: the state machine is put back as it
   was - the message is not delivered to it.
   src/units/bgp_tcp_in/unit.rs BgpTcpInRunner::run / router_handler.rs
   Processor::process: the same for `bgp-in`, asked for every UPDATE with the
   remote AS of the session; Reject: process_update is not called, nothing
   reaches the gate.

   Definitions next to E2eModel's (whose script type is the rib-in-pre slot);
   the two slots here are the other two of the script. *)
From stdpp Require Import gmap.
From Coq Require Import NArith Lia.
From RV Require Import Ingress.IngressModel Rib.RibModel Bmp.BmpModel Pipe.PipeModel E2e.E2eModel.

(* the bmp-in / bgp-in slots of a script: None = no such filter (or one that
   accepts everything), Some a = `if prov.peer_asn() == a { reject } else { accept }` *)
Record ifilters := MkIf { if_bmp : option N; if_bgp : option N }.
Definition if_none : ifilters := MkIf None None.

Definition wop_pph (o : wop) : option pph :=
  match o with
  | WMsg _ (MStats p) | WMsg _ (MPeerUp p _) | WMsg _ (MPeerDown p) | WMsg _ (MRoute p _) => Some p
  | _ => None
  end.

Definition bmp_in_rejects (f : ifilters) (o : wop) : bool :=
  match if_bmp f, wop_pph o with
  | Some a, Some p => (ph_asn p =? a)%N
  | _, _ => false
  end.

(* the engine's speaker of address k opens with AS 65100 + k *)
Definition bgp_peer_asn (k : N) : N := (65100 + k)%N.
Definition bgp_in_rejects (f : ifilters) (k : N) : bool :=
  match if_bgp f with Some a => (bgp_peer_asn k =? a)%N | None => false end.

(* What the ingress units hold: the slots of the script the file names now, of
   the scripts named by load 0, 1, ...; and per ingress unit (bmp-in, bmp-in2 of
   the cases with two, bgp-in) what it fetched and the load that started it. *)
Record ing := MkIng {
  ig_file : ifilters;
  ig_named : list ifilters;
  ig_bmp : ifilters * nat;
  ig_bmp2 : ifilters * nat;
  ig_bgp : ifilters * nat }.

Definition ing_init (f0 : ifilters) : ing := MkIng f0 [f0] (f0, 0%nat) (f0, 0%nat) (f0, 0%nat).
Definition ing_edit (ig : ing) (f : ifilters) : ing := MkIng f (ig_named ig) (ig_bmp ig) (ig_bmp2 ig) (ig_bgp ig).
(* a load; restart1: it STARTS a bmp-in unit (manager.rs spawn_internal: the
   configuration has the unit and none of that name runs), which fetches from
   what the manager compiled for this load *)
Definition ing_reload (restart1 : bool) (ig : ing) : ing :=
  MkIng (ig_file ig) (ig_named ig ++ [ig_file ig])
        (if restart1 then (ig_file ig, length (ig_named ig)) else ig_bmp ig) (ig_bmp2 ig) (ig_bgp ig).

Definition ing_ok (ig : ing) : Prop :=
  ig_named ig !! (ig_bmp ig).2 = Some (ig_bmp ig).1 /\
  ig_named ig !! (ig_bmp2 ig).2 = Some (ig_bmp2 ig).1 /\
  ig_named ig !! (ig_bgp ig).2 = Some (ig_bgp ig).1.

Lemma ing_init_ok f0 : ing_ok (ing_init f0).
Proof. repeat split. Qed.
Lemma ing_edit_ok ig f : ing_ok ig -> ing_ok (ing_edit ig f).
Proof. intros H. exact H. Qed.
Lemma ing_reload_ok b ig : ing_ok ig -> ing_ok (ing_reload b ig).
Proof.
  intros (H1 & H2 & H3). unfold ing_ok, ing_reload. cbn [ig_named ig_bmp ig_bmp2 ig_bgp].
  split; [|split]; try (apply lookup_app_l_Some; assumption).
  destruct b; cbn [fst snd].
  - apply list_lookup_middle. reflexivity.
  - apply lookup_app_l_Some. exact H1.
Qed.

(* ------------------------------------------------------------------ *)
(* The pipeline with its bgp-in unit (E2eModel.bstate; without B ops: the plain
   pipeline): bmp-in and bgp-in are started by load 0 and only reconfigured by
   later loads. *)
Record gstate := MkG { g_b : bstate; g_ig : ing }.
Inductive gop :=
| GB (o : bop)                (* traffic, edits, reloads *)
| GScript (f : ifilters).     (* the operator edits the bmp-in / bgp-in filters of the script *)

Definition g_init (s0 : script) (n0 : N) (f0 : ifilters) : gstate := MkG (b_init s0 n0) (ing_init f0).

(* the unit boundary: the message is shown to the filter its unit holds *)
Definition g_rejected (ig : ing) (o : bop) : bool :=
  match o with
  | BE (EW wo) => bmp_in_rejects (ig_bmp ig).1 wo
  | BUpd k _ => bgp_in_rejects (ig_bgp ig).1 k
  | _ => false
  end.
Definition is_breload (o : bop) : bool := match o with BReload _ => true | _ => false end.

Definition g_step (st : gstate) (o : gop) : gstate :=
  match o with
  | GScript f => MkG (g_b st) (ing_edit (g_ig st) f)
  | GB o =>
      if g_rejected (g_ig st) o then st
      else MkG (b_step (g_b st) o) (if is_breload o then ing_reload false (g_ig st) else g_ig st)
  end.
Definition g_run (st : gstate) (h : list gop) : gstate := fold_left g_step h st.

(* the ingress slots of the scripts named by the loads of a history, from the operations alone *)
Fixpoint g_named (cur : ifilters) (h : list gop) : list ifilters :=
  match h with
  | [] => []
  | GScript f :: t => g_named f t
  | GB (BReload _) :: t => cur :: g_named cur t
  | _ :: t => g_named cur t
  end.

(* the history as the pipeline behind filters f sees it: edits of the ingress slots are not its business, a rejected
   message is not there *)
Definition g_survives (f : ifilters) (o : gop) : option bop :=
  match o with
  | GScript _ => None
  | GB o => if g_rejected (MkIng f [] (f, 0%nat) (f, 0%nat) (f, 0%nat)) o then None else Some o
  end.

Lemma g_rejected_not_reload ig o : g_rejected ig o = true -> is_breload o = false.
Proof. destruct o; cbn; congruence. Qed.

Lemma g_step_ok st o : ing_ok (g_ig st) -> ing_ok (g_ig (g_step st o)).
Proof.
  intros H. destruct o as [o|f]; cbn [g_step].
  - destruct (g_rejected (g_ig st) o); [exact H|]. cbn [g_ig].
    destruct (is_breload o); [apply ing_reload_ok, H|exact H].
  - apply ing_edit_ok, H.
Qed.
Lemma g_run_ok h : forall st, ing_ok (g_ig st) -> ing_ok (g_ig (g_run st h)).
Proof. induction h as [|o h IH]; intros st H; [exact H|]. apply IH, g_step_ok, H. Qed.

Lemma g_run_named h : forall st,
  ig_named (g_ig (g_run st h)) = ig_named (g_ig st) ++ g_named (ig_file (g_ig st)) h.
Proof.
  induction h as [|o h IH]; intros st; [cbn; rewrite app_nil_r; reflexivity|].
  change (g_run st (o :: h)) with (g_run (g_step st o) h). rewrite IH. destruct o as [o|f]; cbn [g_step].
  - destruct (g_rejected (g_ig st) o) eqn:Hr.
    + apply g_rejected_not_reload in Hr. destruct o; try discriminate Hr; reflexivity.
    + destruct o; cbn [is_breload g_ig g_named ing_reload ig_named ig_file]; try reflexivity.
      rewrite <- app_assoc. reflexivity.
  - reflexivity.
Qed.

(* the filter of an ingress unit is the bmp-in / bgp-in of the script that the
   configuration named when the unit was started, whatever was edited and
   loaded since *)
Theorem ingress_filter_is_script_of_its_load s0 n0 f0 h :
  let st := g_run (g_init s0 n0 f0) h in
  let named := f0 :: g_named f0 h in
  named !! (ig_bmp (g_ig st)).2 = Some (ig_bmp (g_ig st)).1 /\
  named !! (ig_bgp (g_ig st)).2 = Some (ig_bgp (g_ig st)).1.
Proof.
  cbn zeta. pose proof (g_run_ok h (g_init s0 n0 f0) (ing_init_ok f0)) as (H1 & _ & H3).
  rewrite g_run_named in H1, H3. split; [exact H1|exact H3].
Qed.

Lemma g_step_held st o :
  (ig_bmp (g_ig (g_step st o))).1 = (ig_bmp (g_ig st)).1 /\ (ig_bgp (g_ig (g_step st o))).1 = (ig_bgp (g_ig st)).1.
Proof.
  destruct o as [o|f]; cbn [g_step]; [|split; reflexivity].
  destruct (g_rejected (g_ig st) o); [split; reflexivity|]. cbn [g_ig]. destruct (is_breload o); split; reflexivity.
Qed.

(* both units run since start-up: they hold the start-up script's filters *)
Theorem ingress_units_keep_startup_filter s0 n0 f0 h :
  (ig_bmp (g_ig (g_run (g_init s0 n0 f0) h))).1 = f0 /\ (ig_bgp (g_ig (g_run (g_init s0 n0 f0) h))).1 = f0.
Proof.
  assert (G : forall h st, (ig_bmp (g_ig (g_run st h))).1 = (ig_bmp (g_ig st)).1 /\
                           (ig_bgp (g_ig (g_run st h))).1 = (ig_bgp (g_ig st)).1).
  { clear. induction h as [|o h IH]; intros st; [split; reflexivity|].
    change (g_run st (o :: h)) with (g_run (g_step st o) h). destruct (IH (g_step st o)) as [A B].
    destruct (g_step_held st o) as [C D]. split; congruence. }
  apply (G h (g_init s0 n0 f0)).
Qed.

(* a rejected message is no operation, end to end: sessions, register, RIB
   units, counters, the property's reading - everything is as it was *)
Theorem rejected_is_noop st o h : g_rejected (g_ig st) o = true -> g_run st (GB o :: h) = g_run st h.
Proof. intros H. cbn [g_run fold_left g_step]. rewrite H. reflexivity. Qed.

Lemma g_rejected_held ig f o :
  (ig_bmp ig).1 = f -> (ig_bgp ig).1 = f -> g_rejected ig o = g_rejected (MkIng f [] (f, 0%nat) (f, 0%nat) (f, 0%nat)) o.
Proof. intros H1 H2. destruct o as [[]| | | | | |]; cbn; rewrite ?H1, ?H2; reflexivity. Qed.

(* ... for whole histories: the pipeline behind start-up filters f0 is the
   pipeline (E2eModel.b_run) on the history without the messages f0 rejects,
   whatever scripts the later loads name *)
Theorem filtered_run_is_run_of_survivors s0 n0 f0 h :
  g_b (g_run (g_init s0 n0 f0) h) = b_run (b_init s0 n0) (omap (g_survives f0) h).
Proof.
  assert (G : forall h st, (ig_bmp (g_ig st)).1 = f0 -> (ig_bgp (g_ig st)).1 = f0 ->
                           g_b (g_run st h) = b_run (g_b st) (omap (g_survives f0) h)).
  { clear. induction h as [|o h IH]; intros st H1 H2; [reflexivity|].
    change (g_run st (o :: h)) with (g_run (g_step st o) h).
    destruct (g_step_held st o) as [C D]. rewrite IH by congruence.
    destruct o as [o|f]; cbn [g_step omap list_omap g_survives]; [|reflexivity].
    rewrite <- (g_rejected_held (g_ig st) f0 o H1 H2).
    destruct (g_rejected (g_ig st) o); reflexivity. }
  apply (G h (g_init s0 n0 f0)); reflexivity.
Qed.

(* ------------------------------------------------------------------ *)
(* The pipeline with two bmp-tcp-in units of which bmp-in is taken out and put
   back (E2eModel.istate): the unit a reload starts fetches from the script of
   THAT load. *)
Record jstate := MkJ { j_i : istate; j_ig : ing }.
Inductive jop :=
| JI (o : iop)
| JScript (f : ifilters).

Definition j_init (s0 : script) (n0 : N) (f0 : ifilters) : jstate := MkJ (i_init s0 n0) (ing_init f0).

Definition j_filter (ig : ing) (k : N) : ifilters := if on_unit1 k then (ig_bmp ig).1 else (ig_bmp2 ig).1.
Definition j_rejected (ig : ing) (o : iop) : bool :=
  match o with
  | IE (EW wo) => match wop_router wo with Some k => bmp_in_rejects (j_filter ig k) wo | None => false end
  | _ => false
  end.
(* this load starts a bmp-in unit *)
Definition i_starts (st : istate) (o : iop) : option bool :=
  match o with IE EReload => Some (negb (is_run st) && is_want st) | _ => None end.

Definition j_step (st : jstate) (o : jop) : jstate :=
  match o with
  | JScript f => MkJ (j_i st) (ing_edit (j_ig st) f)
  | JI o =>
      if j_rejected (j_ig st) o then st
      else MkJ (i_step false (j_i st) o)
               (match i_starts (j_i st) o with Some b => ing_reload b (j_ig st) | None => j_ig st end)
  end.
Definition j_run (st : jstate) (h : list jop) : jstate := fold_left j_step h st.

Fixpoint j_named (cur : ifilters) (h : list jop) : list ifilters :=
  match h with
  | [] => []
  | JScript f :: t => j_named f t
  | JI (IE EReload) :: t => cur :: j_named cur t
  | _ :: t => j_named cur t
  end.

Lemma j_step_ok st o : ing_ok (j_ig st) -> ing_ok (j_ig (j_step st o)).
Proof.
  intros H. destruct o as [o|f]; cbn [j_step].
  - destruct (j_rejected (j_ig st) o); [exact H|]. cbn [j_ig].
    destruct (i_starts (j_i st) o); [apply ing_reload_ok, H|exact H].
  - apply ing_edit_ok, H.
Qed.
Lemma j_run_ok h : forall st, ing_ok (j_ig st) -> ing_ok (j_ig (j_run st h)).
Proof. induction h as [|o h IH]; intros st H; [exact H|]. apply IH, j_step_ok, H. Qed.

Lemma j_run_named h : forall st,
  ig_named (j_ig (j_run st h)) = ig_named (j_ig st) ++ j_named (ig_file (j_ig st)) h.
Proof.
  induction h as [|o h IH]; intros st; [cbn; rewrite app_nil_r; reflexivity|].
  change (j_run st (o :: h)) with (j_run (j_step st o) h). rewrite IH. destruct o as [o|f]; cbn [j_step]; [|reflexivity].
  destruct o as [[wo| | | |]|b]; cbn [j_rejected i_starts j_ig j_named]; try reflexivity.
  - destruct (match wop_router wo with Some k => bmp_in_rejects (j_filter (j_ig st) k) wo | None => false end); reflexivity.
  - cbn [ing_reload ig_named ig_file]. rewrite <- app_assoc. reflexivity.
Qed.

Theorem j_ingress_filter_is_script_of_its_load s0 n0 f0 h :
  let st := j_run (j_init s0 n0 f0) h in
  let named := f0 :: j_named f0 h in
  named !! (ig_bmp (j_ig st)).2 = Some (ig_bmp (j_ig st)).1 /\
  named !! (ig_bmp2 (j_ig st)).2 = Some (ig_bmp2 (j_ig st)).1.
Proof.
  cbn zeta. pose proof (j_run_ok h (j_init s0 n0 f0) (ing_init_ok f0)) as (H1 & H2 & _).
  rewrite j_run_named in H1, H2. split; [exact H1|exact H2].
Qed.

(* a bmp-in unit started by a reload fetches the filter of the script that reload names *)
Theorem reload_starts_ingress_unit_with_new_script st :
  is_run (j_i st) = false -> is_want (j_i st) = true ->
  ig_bmp (j_ig (j_step st (JI (IE EReload)))) = (ig_file (j_ig st), length (ig_named (j_ig st))) /\
  is_run (j_i (j_step st (JI (IE EReload)))) = true.
Proof.
  intros Hr Hw. cbn [j_step j_rejected i_starts j_ig j_i]. rewrite Hr, Hw. cbn [negb andb ing_reload ig_bmp].
  split; [reflexivity|]. cbn [i_step]. rewrite Hr, Hw. cbn [negb andb].
  destruct (reg_register _). reflexivity.
Qed.

Theorem j_rejected_is_noop st o h : j_rejected (j_ig st) o = true -> j_run st (JI o :: h) = j_run st h.
Proof. intros H. cbn [j_run fold_left j_step]. rewrite H. reflexivity. Qed.

(* non-vacuity: bmp-in rejects AS 65002. The router's peers 1 (AS 65001) and 2 (AS 65002) come up and announce
   prefix 7: the RIB has the route of peer 1 only, and the session has one peer; after the operator has edited the
   filter away and reloaded, peer 2's next Peer Up is rejected all the same (the unit was not restarted) *)
Definition ex_p1 : pph := (0, 0, 0, 0, 1, 65001, 1)%N.
Definition ex_p2 : pph := (0, 0, 0, 0, 1, 65002, 1)%N.
Lemma ingress_example :
  let f0 := MkIf (Some 65002%N) None in
  let ann p := GB (BE (EW (WMsg 0 (MRoute p (Some (URoutes 0 [7%N] 1 0 [])))))) in
  let h := [GB (BE (EW (WConnect 0))); GB (BE (EW (WMsg 0 MInit)));
            GB (BE (EW (WMsg 0 (MPeerUp ex_p1 false)))); GB (BE (EW (WMsg 0 (MPeerUp ex_p2 false))));
            ann ex_p1; ann ex_p2] in
  let st := g_run (g_init SNone 0 f0) h in
  length (rib_query (ru_rib (es_rib (bs_e (g_b st)))) 0 7) = 1%nat /\
  length (rib_query (ru_rib (es_rib (bs_e (g_b (g_run (g_init SNone 0 if_none) h))))) 0 7) = 2%nat /\
  g_rejected (g_ig (g_run st [GScript if_none; GB (BReload [])])) (BE (EW (WMsg 0 (MPeerUp ex_p2 false)))) = true.
Proof. vm_compute. repeat split; reflexivity. Qed.

(* ... and the variant that is NOT the code - a unit that goes on without its filter when the script's mutex is taken
   (Filter/FilterFetch.v, tl = true) - differs: the unit then holds if_none *)
Lemma ingress_without_filter_differs :
  bmp_in_rejects (MkIf (Some 65002%N) None) (WMsg 0 (MPeerUp ex_p2 false)) = true /\
  bmp_in_rejects if_none (WMsg 0 (MPeerUp ex_p2 false)) = false /\
  bgp_in_rejects (MkIf None (Some 65101%N)) 1 = true /\ bgp_in_rejects if_none 1 = false.
Proof. vm_compute. repeat split; reflexivity. Qed.
