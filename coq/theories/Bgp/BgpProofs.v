(* C04 - proofs about the UPDATE codec of BgpModel.v. *)
From Coq Require Import List NArith Bool Lia Arith.
From RV Require Import Bgp.BgpModel.
Import ListNotations.
Local Open Scope N_scope.

(* ---------- small tools ---------- *)
Lemma lenN_app {A} (x y : list A) : lenN (x ++ y) = lenN x + lenN y.
Proof. unfold lenN. rewrite app_length. lia. Qed.

Lemma lenN_cons {A} (a : A) (x : list A) : lenN (a :: x) = 1 + lenN x.
Proof. unfold lenN. cbn [length]. lia. Qed.

Lemma take_n_app x r : take_n (lenN x) (x ++ r) = Some (x, r).
Proof.
  unfold take_n, lenN. rewrite Nat2N.id, app_length.
  replace (Nat.leb (length x) (length x + length r)) with true by (symmetry; apply Nat.leb_le; lia).
  rewrite firstn_app, Nat.sub_diag, firstn_all, skipn_app, Nat.sub_diag, skipn_all.
  cbn [firstn skipn app]. rewrite app_nil_r. reflexivity.
Qed.

Lemma take_n_inv n b x r : take_n n b = Some (x, r) -> b = x ++ r /\ lenN x = n.
Proof.
  unfold take_n. destruct (Nat.leb (N.to_nat n) (length b)) eqn:E; [|discriminate].
  intros [= <- <-]. apply Nat.leb_le in E. split.
  - symmetry. apply firstn_skipn.
  - unfold lenN. rewrite firstn_length_le by exact E. apply N2Nat.id.
Qed.

Lemma u16_enc n : u16 (n / 256) (n mod 256) = n.
Proof. unfold u16. pose proof (N.div_mod n 256). lia. Qed.

Lemma u16_inv hi lo : lo < 256 -> enc_u16 (u16 hi lo) = [hi; lo].
Proof.
  intros H. unfold enc_u16, u16.
  rewrite N.div_add_l, N.div_small, N.add_0_r by lia.
  rewrite N.add_comm, N.mod_add, N.mod_small by lia. reflexivity.
Qed.

Lemma bytes_ok_app x y : bytes_ok (x ++ y) = bytes_ok x && bytes_ok y.
Proof. apply forallb_app. Qed.

Lemma bytes_ok_u16 n : n < 65536 -> bytes_ok (enc_u16 n) = true.
Proof.
  intros H. unfold enc_u16, bytes_ok, byte_ok. cbn [forallb].
  assert (n / 256 < 256) by (apply N.div_lt_upper_bound; lia).
  assert (n mod 256 < 256) by (apply N.mod_lt; lia).
  rewrite !andb_true_iff, !N.ltb_lt. auto.
Qed.

(* ---------- prefixes ---------- *)
Lemma mask_last_id len bs : trailing_ok len bs = true -> mask_last len bs = bs.
Proof.
  unfold trailing_ok. induction bs as [|b r IH]; [reflexivity|].
  destruct r as [|b' r'].
  - cbn [last mask_last]. intros H. apply N.eqb_eq in H. unfold mask_byte. rewrite H. f_equal. lia.
  - intros H. change (mask_last len (b :: b' :: r')) with (b :: mask_last len (b' :: r')).
    f_equal. apply IH. exact H.
Qed.

Lemma pfx_wf_inv maxlen p : pfx_wf maxlen p = true ->
  p_len p <= maxlen /\ lenN (p_bytes p) = nbytes (p_len p)
  /\ bytes_ok (p_bytes p) = true /\ trailing_ok (p_len p) (p_bytes p) = true.
Proof.
  unfold pfx_wf. rewrite !andb_true_iff, N.leb_le, N.eqb_eq. tauto.
Qed.

Lemma enc_pfxs_cons p ps : enc_pfxs (p :: ps) = p_len p :: p_bytes p ++ enc_pfxs ps.
Proof. reflexivity. Qed.

Lemma dec_enc_pfxs m maxlen ps : forall fuel,
  forallb (pfx_wf maxlen) ps = true ->
  (length (enc_pfxs ps) <= fuel)%nat ->
  dec_pfxs m maxlen fuel (enc_pfxs ps) = Some ps.
Proof.
  induction ps as [|p ps IH]; intros fuel Hwf Hf.
  - destruct fuel; reflexivity.
  - cbn [forallb] in Hwf. apply andb_prop in Hwf as [Hp Hps].
    apply pfx_wf_inv in Hp as (Hl & Hn & _ & Ht).
    rewrite enc_pfxs_cons in *. cbn [length] in Hf. rewrite app_length in Hf.
    destruct fuel as [|fuel]; [lia|].
    cbn [dec_pfxs]. apply N.leb_le in Hl. rewrite Hl, <- Hn, take_n_app, Ht.
    rewrite andb_false_r, IH by (try assumption; lia).
    rewrite mask_last_id by exact Ht. destruct p; reflexivity.
Qed.

Lemma bytes_ok_enc_pfxs maxlen ps : maxlen < 256 ->
  forallb (pfx_wf maxlen) ps = true -> bytes_ok (enc_pfxs ps) = true.
Proof.
  intros Hm. induction ps as [|p ps IH]; [reflexivity|].
  cbn [forallb]. intros H. apply andb_prop in H as [Hp Hps].
  apply pfx_wf_inv in Hp as (Hl & _ & Hb & _).
  rewrite enc_pfxs_cons. change (bytes_ok (p_len p :: p_bytes p ++ enc_pfxs ps))
    with (byte_ok (p_len p) && bytes_ok (p_bytes p ++ enc_pfxs ps)).
  rewrite bytes_ok_app, Hb, IH by exact Hps. unfold byte_ok.
  replace (p_len p <? 256) with true by (symmetry; apply N.ltb_lt; lia). reflexivity.
Qed.

(* ---------- MP attributes ---------- *)
Lemma fam_of_fam f : fam_of (fam_afi f) (fam_safi f) = Some f.
Proof. destruct f; reflexivity. Qed.

Lemma fam_maxlen_lt f : fam_maxlen f < 256.
Proof. destruct f; cbn; lia. Qed.

Lemma dec_mpnlri_enc m n : mpnlri_wf n = true ->
  dec_mpnlri m (mp_afi n) (mp_safi n) (enc_mpnlri n) = Some n.
Proof.
  destruct n as [f ps|afi safi raw]; cbn [mpnlri_wf mp_afi mp_safi enc_mpnlri]; intros H; unfold dec_mpnlri.
  - rewrite fam_of_fam, dec_enc_pfxs by (try exact H; lia). reflexivity.
  - rewrite !andb_true_iff in H. destruct H as [_ H]. destruct (fam_of afi safi); [discriminate|reflexivity].
Qed.

Lemma attr_wf_inv a : attr_wf a = true ->
  a_flags a < 256 /\ a_type a < 256 /\ bytes_ok (a_value a) = true
  /\ lenN (a_value a) < (if ext_len (a_flags a) then 65536 else 256)
  /\ match a with
     | AGen _ ty _ => ty <> 14 /\ ty <> 15
     | AReach _ nh rsv n => lenN nh < 256 /\ mpnlri_wf n = true
     | AUnreach _ n => mpnlri_wf n = true
     end.
Proof.
  unfold attr_wf, byte_ok. rewrite !andb_true_iff, !N.ltb_lt. intros ((((H1 & H2) & H3) & H4) & H5).
  repeat split; try assumption.
  destruct a; [|rewrite andb_true_iff, N.ltb_lt in H5; exact H5|exact H5].
  rewrite andb_true_iff, !negb_true_iff, !N.eqb_neq in H5. exact H5.
Qed.

Lemma dec_attr_val_enc m s14 s15 a : attr_wf a = true ->
  (is_reach a = true -> s14 = false) -> (is_unreach a = true -> s15 = false) ->
  dec_attr_val m s14 s15 (a_flags a) (a_type a) (a_value a) = Some a.
Proof.
  intros H H14 H15. apply attr_wf_inv in H as (_ & _ & _ & _ & H).
  destruct a as [fl ty v|fl nh rsv n|fl n]; cbn [a_flags a_type a_value]; unfold dec_attr_val.
  - destruct H as [E14 E15]. apply N.eqb_neq in E14, E15. rewrite E14, E15. reflexivity.
  - destruct H as [_ Hn]. rewrite (H14 eq_refl). change (14 =? 14) with true. cbv iota. cbn [negb andb].
    unfold enc_afisafi, enc_u16. cbn [app].
    rewrite take_n_app, u16_enc, dec_mpnlri_enc by exact Hn. reflexivity.
  - rewrite (H15 eq_refl). change (15 =? 14) with false. change (15 =? 15) with true. cbn [negb andb].
    unfold enc_afisafi, enc_u16. cbn [app].
    rewrite u16_enc, dec_mpnlri_enc by exact H. reflexivity.
Qed.

(* bookkeeping of the "already seen" flags against the number of MP attributes still to come *)
Definition okc (s : bool) (n : nat) : Prop := if s then n = 0%nat else (n <= 1)%nat.

Lemma count_if_cons {A} (f : A -> bool) a l :
  count_if f (a :: l) = ((if f a then 1 else 0) + count_if f l)%nat.
Proof. unfold count_if. cbn [filter]. destruct (f a); reflexivity. Qed.

Lemma okc_step m s (f : attr -> bool) k a l : (forall x, f x = (a_type x =? k)) ->
  okc s (count_if f (a :: l)) ->
  (f a = true -> s = false) /\ okc (seen m s (a_type a) k) (count_if f l).
Proof.
  intros Hf. rewrite count_if_cons. unfold seen. rewrite <- Hf. destruct (f a) eqn:Ea.
  - destruct s; cbn [okc]; intros H; [lia|]. assert (count_if f l = 0%nat) as -> by lia.
    split; [reflexivity|]. destruct (strict m); cbn; lia.
  - rewrite andb_false_r, orb_false_r. cbn [Nat.add]. intros H. split; [discriminate|exact H].
Qed.

Lemma enc_attrs_cons a l : enc_attrs (a :: l) = enc_attr a ++ enc_attrs l.
Proof. reflexivity. Qed.

Lemma dec_enc_attrs m l : forall s14 s15 fuel,
  forallb attr_wf l = true ->
  okc s14 (count_if is_reach l) -> okc s15 (count_if is_unreach l) ->
  (length (enc_attrs l) <= fuel)%nat ->
  dec_attrs m s14 s15 fuel (enc_attrs l) = Some l.
Proof.
  induction l as [|a l IH]; intros s14 s15 fuel Hwf H14 H15 Hf.
  - destruct fuel; reflexivity.
  - cbn [forallb] in Hwf. apply andb_prop in Hwf as [Ha Hl].
    apply (okc_step m s14 is_reach 14) in H14 as [Ha14 H14]; [|reflexivity].
    apply (okc_step m s15 is_unreach 15) in H15 as [Ha15 H15]; [|reflexivity].
    pose proof (dec_attr_val_enc m s14 s15 a Ha Ha14 Ha15) as Hv.
    rewrite enc_attrs_cons in *. rewrite app_length in Hf.
    unfold enc_attr in *. cbn [app length] in Hf.
    destruct fuel as [|fuel]; [lia|].
    cbn [app dec_attrs]. destruct (ext_len (a_flags a)).
    + unfold enc_u16 in *. cbn [app length] in *.
      rewrite u16_enc, take_n_app, Hv, IH by (try assumption; lia). reflexivity.
    + cbn [app length] in *.
      rewrite take_n_app, Hv, IH by (try assumption; lia). reflexivity.
Qed.

Lemma bytes_ok_enc_attr a : attr_wf a = true -> bytes_ok (enc_attr a) = true.
Proof.
  intros H. apply attr_wf_inv in H as (Hf & Ht & Hv & Hl & _). unfold enc_attr.
  change (bytes_ok (?x :: ?y :: ?r)) with (byte_ok x && (byte_ok y && bytes_ok r)).
  rewrite bytes_ok_app, Hv. unfold byte_ok at 1 2.
  apply N.ltb_lt in Hf, Ht. rewrite Hf, Ht. cbn [andb]. rewrite andb_true_r.
  destruct (ext_len (a_flags a)); [apply bytes_ok_u16; exact Hl|].
  unfold bytes_ok, byte_ok. cbn [forallb]. rewrite andb_true_r. apply N.ltb_lt. exact Hl.
Qed.

Lemma bytes_ok_enc_attrs l : forallb attr_wf l = true -> bytes_ok (enc_attrs l) = true.
Proof.
  induction l as [|a l IH]; [reflexivity|]. cbn [forallb]. intros H. apply andb_prop in H as [Ha Hl].
  rewrite enc_attrs_cons, bytes_ok_app, bytes_ok_enc_attr, IH by assumption. reflexivity.
Qed.

(* ---------- the UPDATE ---------- *)
Lemma wf_inv u : wf u = true ->
  forallb (pfx_wf 32) (u_wd u) = true /\ forallb attr_wf (u_attrs u) = true
  /\ forallb (pfx_wf 32) (u_nlri u) = true /\ mp_unique (u_attrs u) = true
  /\ lenN (enc_pfxs (u_wd u)) < 65536 /\ lenN (enc_attrs (u_attrs u)) < 65536
  /\ 19 + lenN (enc_body u) < 65536.
Proof. unfold wf. rewrite !andb_true_iff, !N.ltb_lt. tauto. Qed.

Lemma dec_enc_body m u : wf u = true -> dec_body m (enc_body u) = Some u.
Proof.
  intros H. apply wf_inv in H as (Hw & Ha & Hn & Hu & _).
  unfold enc_body, dec_body, enc_u16. cbn [app].
  rewrite u16_enc, take_n_app. cbn [app]. rewrite u16_enc, take_n_app.
  pose proof Hu as Hu'. unfold mp_unique in Hu'. apply andb_prop in Hu' as [Hu1 Hu2]. apply Nat.leb_le in Hu1, Hu2.
  rewrite !dec_enc_pfxs, dec_enc_attrs by (try assumption; try exact Hu1; try exact Hu2; lia).
  rewrite Hu, orb_true_r. destruct u; reflexivity.
Qed.

Lemma bytes_ok_enc_body u : wf u = true -> bytes_ok (enc_body u) = true.
Proof.
  intros H. apply wf_inv in H as (Hw & Ha & Hn & _ & Hlw & Hla & _).
  unfold enc_body. rewrite !bytes_ok_app, !bytes_ok_u16 by assumption.
  rewrite !(bytes_ok_enc_pfxs 32), bytes_ok_enc_attrs by (try assumption; lia). reflexivity.
Qed.

Lemma roundtrip m u : wf u = true -> decode m (encode u) = Some u.
Proof.
  intros H. pose proof (bytes_ok_enc_body u H) as Hb. pose proof (dec_enc_body m u H) as Hd.
  apply wf_inv in H as (_ & _ & _ & _ & _ & _ & Hl).
  unfold decode, encode. change 16 with (lenN marker) at 1. rewrite take_n_app.
  unfold enc_u16 at 1. cbn [app]. rewrite u16_enc, N.eqb_refl.
  change (list_eqb marker marker) with true. change (2 =? 2) with true. cbn [andb].
  rewrite bytes_ok_app, bytes_ok_app, bytes_ok_u16 by exact Hl.
  change (bytes_ok marker) with true. cbn [andb].
  change (bytes_ok (2 :: enc_body u)) with (byte_ok 2 && bytes_ok (enc_body u)).
  rewrite Hb. change (byte_ok 2) with true. rewrite ?N.eqb_refl. cbn [andb]. exact Hd.
Qed.

(* ---------- events ---------- *)
Definition reach_routes (a : attr) : list (fam * pfx) :=
  match a with AReach _ _ _ n => mp_routes n | _ => [] end.
Definition unreach_routes (a : attr) : list (fam * pfx) :=
  match a with AUnreach _ n => mp_routes n | _ => [] end.

Lemma no_reach_nil l : count_if is_reach l = 0%nat -> flat_map reach_routes l = [].
Proof.
  induction l as [|a l IH]; [reflexivity|]. rewrite count_if_cons.
  destruct a; cbn [flat_map reach_routes app]; intros H.
  - apply IH. destruct (is_reach (AGen fl ty v)); simpl in H; lia.
  - change (is_reach (AReach fl nh rsv n)) with true in H. simpl in H. lia.
  - apply IH. change (is_reach (AUnreach fl n)) with false in H. exact H.
Qed.

Lemma no_unreach_nil l : count_if is_unreach l = 0%nat -> flat_map unreach_routes l = [].
Proof.
  induction l as [|a l IH]; [reflexivity|]. rewrite count_if_cons.
  destruct a; cbn [flat_map unreach_routes app]; intros H.
  - apply IH. destruct (is_unreach (AGen fl ty v)); simpl in H; lia.
  - apply IH. change (is_unreach (AReach fl nh rsv n)) with false in H. exact H.
  - change (is_unreach (AUnreach fl n)) with true in H. simpl in H. lia.
Qed.

Lemma first_reach_all l : (count_if is_reach l <= 1)%nat ->
  opt_routes (first_reach l) = flat_map reach_routes l.
Proof.
  induction l as [|a l IH]; [reflexivity|]. rewrite count_if_cons.
  destruct a; cbn [flat_map reach_routes app first_reach opt_routes]; intros H.
  - apply IH. destruct (is_reach (AGen fl ty v)); simpl in H; lia.
  - change (is_reach (AReach fl nh rsv n)) with true in H. simpl in H.
    rewrite no_reach_nil by lia. rewrite app_nil_r. reflexivity.
  - apply IH. change (is_reach (AUnreach fl n)) with false in H. exact H.
Qed.

Lemma first_unreach_all l : (count_if is_unreach l <= 1)%nat ->
  opt_routes (first_unreach l) = flat_map unreach_routes l.
Proof.
  induction l as [|a l IH]; [reflexivity|]. rewrite count_if_cons.
  destruct a; cbn [flat_map unreach_routes app first_unreach opt_routes]; intros H.
  - apply IH. destruct (is_unreach (AGen fl ty v)); simpl in H; lia.
  - apply IH. change (is_unreach (AReach fl nh rsv n)) with false in H. exact H.
  - change (is_unreach (AUnreach fl n)) with true in H. simpl in H.
    rewrite no_unreach_nil by lia. rewrite app_nil_r. reflexivity.
Qed.

Definition ann (attrs : list attr) (fp : fam * pfx) : ev := EvA (fst fp) (snd fp) attrs.
Definition wdr (fp : fam * pfx) : ev := EvW (fst fp) (snd fp).

Lemma events_spec u : mp_unique (u_attrs u) = true ->
  events u = map (ann (u_attrs u)) (reach_of u) ++ map wdr (unreach_of u).
Proof.
  unfold mp_unique. rewrite andb_true_iff, !Nat.leb_le. intros [Hr Hu].
  unfold events, reach_of, unreach_of.
  rewrite first_reach_all, first_unreach_all by assumption. reflexivity.
Qed.

Lemma events_exact m u : wf u = true ->
  events_of_bytes m (encode u) = Some (map (ann (u_attrs u)) (reach_of u) ++ map wdr (unreach_of u)).
Proof.
  intros H. unfold events_of_bytes. rewrite roundtrip by exact H.
  apply wf_inv in H as (_ & _ & _ & Hu & _). rewrite events_spec by exact Hu. reflexivity.
Qed.

Lemma events_count m u : wf u = true ->
  exists evs, events_of_bytes m (encode u) = Some evs /\
    length evs = (length (reach_of u) + length (unreach_of u))%nat.
Proof.
  intros H. eexists. split; [apply events_exact; exact H|].
  rewrite app_length, !map_length. reflexivity.
Qed.

Lemma events_attrs m u evs f p a : wf u = true ->
  events_of_bytes m (encode u) = Some evs -> In (EvA f p a) evs ->
  a = u_attrs u /\ In (f, p) (reach_of u).
Proof.
  intros H He Hin. rewrite events_exact in He by exact H. injection He as <-.
  apply in_app_or in Hin as [Hin|Hin]; apply in_map_iff in Hin as ([f' p'] & Heq & Hin').
  - unfold ann in Heq. cbn [fst snd] in Heq. injection Heq as -> -> ->. split; [reflexivity|exact Hin'].
  - discriminate Heq.
Qed.

Lemma events_withdrawn m u evs f p : wf u = true ->
  events_of_bytes m (encode u) = Some evs -> In (EvW f p) evs -> In (f, p) (unreach_of u).
Proof.
  intros H He Hin. rewrite events_exact in He by exact H. injection He as <-.
  apply in_app_or in Hin as [Hin|Hin]; apply in_map_iff in Hin as ([f' p'] & Heq & Hin').
  - discriminate Heq.
  - unfold wdr in Heq. cbn [fst snd] in Heq. injection Heq as -> ->. exact Hin'.
Qed.

(* nothing is dropped: every reachable / unreachable prefix shows up *)
Lemma events_complete m u : wf u = true ->
  exists evs, events_of_bytes m (encode u) = Some evs /\
    (forall f p, In (f, p) (reach_of u) -> In (EvA f p (u_attrs u)) evs) /\
    (forall f p, In (f, p) (unreach_of u) -> In (EvW f p) evs).
Proof.
  intros H. eexists. split; [apply events_exact; exact H|]. split; intros f p Hin; apply in_or_app.
  - left. apply in_map_iff. exists (f, p). split; [reflexivity|exact Hin].
  - right. apply in_map_iff. exists (f, p). split; [reflexivity|exact Hin].
Qed.

(* the End-of-RIB marker yields no route *)
Lemma eor_no_routes m u : wf u = true -> is_eor u = true -> events_of_bytes m (encode u) = Some [].
Proof.
  intros H He. rewrite events_exact by exact H.
  destruct u as [wd attrs nlri]. destruct wd; [|discriminate]. destruct nlri; [|destruct attrs as [|[] [|]]; try destruct n; try destruct ps; try destruct raw; discriminate].
  destruct attrs as [|a [|a' l]]; [reflexivity| |destruct a; try destruct n; try destruct ps; try destruct raw; discriminate].
  destruct a as [| |fl n]; try discriminate. destruct n as [f ps|afi safi raw]; [destruct ps|destruct raw]; try discriminate; reflexivity.
Qed.

Lemma unsupported_nothing m u : wf u = true -> forallb mp_other (u_attrs u) = true ->
  events_of_bytes m (encode u) =
    Some (map (ann (u_attrs u)) (map (pair F4U) (u_nlri u)) ++ map wdr (map (pair F4U) (u_wd u))).
Proof.
  intros H Ho. rewrite events_exact by exact H. unfold reach_of, unreach_of.
  assert (Hr : flat_map (fun a => match a with AReach _ _ _ n => mp_routes n | _ => [] end) (u_attrs u) = []
            /\ flat_map (fun a => match a with AUnreach _ n => mp_routes n | _ => [] end) (u_attrs u) = []).
  { induction (u_attrs u) as [|a l IH]; [split; reflexivity|].
    cbn [forallb] in Ho. apply andb_prop in Ho as [Ha Hl]. destruct (IH Hl) as [IH1 IH2].
    cbn [flat_map]. rewrite IH1, IH2.
    destruct a as [| ? ? ? [] | ? []]; try discriminate; split; reflexivity. }
  destruct Hr as [-> ->]. reflexivity.
Qed.

Lemma modes_agree m1 m2 u : wf u = true ->
  events_of_bytes m1 (encode u) = events_of_bytes m2 (encode u).
Proof. intros H. rewrite !events_exact by exact H. reflexivity. Qed.

(* ---------- where the implementation's mode differs from the RFCs' ---------- *)
Lemma trailing_bits_diverge :
  events_of_bytes Rfc pdu_trailing = Some [EvA F4U (MkPfx 9 [10; 128]) []]
  /\ events_of_bytes Code pdu_trailing = None.
Proof. split; vm_compute; reflexivity. Qed.

Lemma dup_mp_bad_diverge :
  events_of_bytes Rfc pdu_dup_mp_bad = None
  /\ events_of_bytes Code pdu_dup_mp_bad = Some [EvW F6U (MkPfx 8 [32])].
Proof. split; vm_compute; reflexivity. Qed.

Lemma dup_mp_diverge :
  events_of_bytes Rfc pdu_dup_mp = None
  /\ events_of_bytes Code pdu_dup_mp = Some [EvW F6U (MkPfx 8 [32])].
Proof. split; vm_compute; reflexivity. Qed.

(* ---------- soundness: what the decoder accepts is what the encoder writes ---------- *)
Lemma bytes_ok_cons a r : bytes_ok (a :: r) = true -> a < 256 /\ bytes_ok r = true.
Proof. unfold bytes_ok, byte_ok. cbn [forallb]. rewrite andb_true_iff, N.ltb_lt. tauto. Qed.

Lemma bytes_ok_app_inv x y : bytes_ok (x ++ y) = true -> bytes_ok x = true /\ bytes_ok y = true.
Proof. rewrite bytes_ok_app, andb_true_iff. tauto. Qed.

Lemma dec_pfxs_sound maxlen fuel : forall b ps,
  dec_pfxs Code maxlen fuel b = Some ps -> enc_pfxs ps = b.
Proof.
  induction fuel as [|fuel IH]; intros b ps; destruct b as [|len rest]; cbn [dec_pfxs]; try discriminate;
    try (intros [= <-]; reflexivity).
  destruct (len <=? maxlen); [|discriminate].
  destruct (take_n (nbytes len) rest) as [[bs rest']|] eqn:Et; [|discriminate].
  destruct (trailing_ok len bs) eqn:Eo; cbn [strict andb negb]; [|discriminate].
  destruct (dec_pfxs Code maxlen fuel rest') as [ps'|] eqn:Er; [|discriminate].
  intros [= <-]. apply take_n_inv in Et as [-> _]. apply IH in Er.
  rewrite enc_pfxs_cons. cbn [p_len p_bytes]. rewrite mask_last_id, Er by exact Eo. reflexivity.
Qed.

Lemma fam_of_inv afi safi f : fam_of afi safi = Some f -> fam_afi f = afi /\ fam_safi f = safi.
Proof.
  unfold fam_of. destruct afi as [|[[]|[]|]]; try discriminate;
    destruct safi as [|[[]|[]|]]; try discriminate; intros [= <-]; split; reflexivity.
Qed.

Lemma dec_mpnlri_sound afi safi body n : dec_mpnlri Code afi safi body = Some n ->
  enc_mpnlri n = body /\ mp_afi n = afi /\ mp_safi n = safi.
Proof.
  unfold dec_mpnlri. destruct (fam_of afi safi) as [f|] eqn:Ef.
  - destruct (dec_pfxs Code (fam_maxlen f) (length body) body) as [ps|] eqn:Ed; [|discriminate].
    intros [= <-]. apply dec_pfxs_sound in Ed. apply fam_of_inv in Ef. cbn. tauto.
  - intros [= <-]. cbn. tauto.
Qed.

Lemma dec_attr_val_sound s14 s15 fl ty v a : bytes_ok v = true ->
  dec_attr_val Code s14 s15 fl ty v = Some a -> a_flags a = fl /\ a_type a = ty /\ a_value a = v.
Proof.
  intros Hb. unfold dec_attr_val. destruct ((ty =? 14) && negb s14) eqn:E14.
  - apply andb_prop in E14 as [E14 _]. apply N.eqb_eq in E14; subst ty.
    destruct v as [|ah [|al [|sf [|nhl r]]]]; try discriminate.
    destruct (take_n nhl r) as [[nh [|rsv body]]|] eqn:Et; try discriminate.
    destruct (dec_mpnlri Code (u16 ah al) sf body) as [n|] eqn:Ed; [|discriminate].
    intros [= <-]. apply take_n_inv in Et as [-> <-]. apply dec_mpnlri_sound in Ed as (He & Ha & Hs).
    apply bytes_ok_cons in Hb as [_ Hb]. apply bytes_ok_cons in Hb as [Hal _].
    cbn [a_flags a_type a_value]. unfold enc_afisafi. rewrite He, Ha, Hs, u16_inv by exact Hal.
    repeat split; reflexivity.
  - destruct ((ty =? 15) && negb s15) eqn:E15;
      [|destruct (((ty =? 14) || (ty =? 15)) && Nat.ltb (length v) 3); [discriminate|intros [= <-]; repeat split; reflexivity]].
    apply andb_prop in E15 as [E15 _]. apply N.eqb_eq in E15; subst ty.
    destruct v as [|ah [|al [|sf body]]]; try discriminate.
    destruct (dec_mpnlri Code (u16 ah al) sf body) as [n|] eqn:Ed; [|discriminate].
    intros [= <-]. apply dec_mpnlri_sound in Ed as (He & Ha & Hs).
    apply bytes_ok_cons in Hb as [_ Hb]. apply bytes_ok_cons in Hb as [Hal _].
    cbn [a_flags a_type a_value]. unfold enc_afisafi. rewrite He, Ha, Hs, u16_inv by exact Hal.
    repeat split; reflexivity.
Qed.

Lemma dec_attrs_sound fuel : forall s14 s15 b l, bytes_ok b = true ->
  dec_attrs Code s14 s15 fuel b = Some l -> enc_attrs l = b.
Proof.
  induction fuel as [|fuel IH]; intros s14 s15 b l Hb; destruct b as [|fl [|ty rest]]; cbn [dec_attrs]; try discriminate;
    try (intros [= <-]; reflexivity).
  apply bytes_ok_cons in Hb as [_ Hb]. apply bytes_ok_cons in Hb as [_ Hb].
  destruct (ext_len fl) eqn:Ex.
  - destruct rest as [|hi [|lo r]]; try discriminate.
    destruct (take_n (u16 hi lo) r) as [[v rest']|] eqn:Et; [|discriminate].
    destruct (dec_attr_val Code s14 s15 fl ty v) as [a|] eqn:Ea; [|discriminate].
    destruct (dec_attrs Code (seen Code s14 ty 14) (seen Code s15 ty 15) fuel rest') as [l'|] eqn:El; [|discriminate].
    intros [= <-]. apply take_n_inv in Et as [-> Hlen].
    apply bytes_ok_cons in Hb as [_ Hb]. apply bytes_ok_cons in Hb as [Hlo Hb].
    apply bytes_ok_app_inv in Hb as [Hv Hr].
    apply dec_attr_val_sound in Ea as (Hf & Ht & Hval); [|exact Hv]. apply IH in El; [|exact Hr].
    rewrite enc_attrs_cons, El. unfold enc_attr. rewrite Hf, Ht, Hval, Ex, Hlen, u16_inv by exact Hlo.
    reflexivity.
  - destruct rest as [|n r]; try discriminate.
    destruct (take_n n r) as [[v rest']|] eqn:Et; [|discriminate].
    destruct (dec_attr_val Code s14 s15 fl ty v) as [a|] eqn:Ea; [|discriminate].
    destruct (dec_attrs Code (seen Code s14 ty 14) (seen Code s15 ty 15) fuel rest') as [l'|] eqn:El; [|discriminate].
    intros [= <-]. apply take_n_inv in Et as [-> Hlen].
    apply bytes_ok_cons in Hb as [_ Hb]. apply bytes_ok_app_inv in Hb as [Hv Hr].
    apply dec_attr_val_sound in Ea as (Hf & Ht & Hval); [|exact Hv]. apply IH in El; [|exact Hr].
    rewrite enc_attrs_cons, El. unfold enc_attr. rewrite Hf, Ht, Hval, Ex, Hlen. reflexivity.
Qed.

Lemma dec_body_sound body u : bytes_ok body = true -> dec_body Code body = Some u -> enc_body u = body.
Proof.
  intros Hb. unfold dec_body. destruct body as [|wh [|wl r1]]; try discriminate.
  destruct (take_n (u16 wh wl) r1) as [[w [|ah [|al r3]]]|] eqn:Ew; try discriminate.
  destruct (take_n (u16 ah al) r3) as [[a n]|] eqn:Ea; [|discriminate].
  destruct (dec_pfxs Code 32 (length w) w) as [wd|] eqn:Ed1; [|discriminate].
  destruct (dec_attrs Code false false (length a) a) as [attrs|] eqn:Ed2; [|discriminate].
  destruct (dec_pfxs Code 32 (length n) n) as [nlri|] eqn:Ed3; [|discriminate].
  cbn [strict orb]. intros [= <-].
  apply take_n_inv in Ew as [-> Hlw]. apply take_n_inv in Ea as [-> Hla].
  apply bytes_ok_cons in Hb as [_ Hb]. apply bytes_ok_cons in Hb as [Hwl Hb].
  apply bytes_ok_app_inv in Hb as [_ Hb].
  apply bytes_ok_cons in Hb as [_ Hb]. apply bytes_ok_cons in Hb as [Hal Hb].
  apply bytes_ok_app_inv in Hb as [Hba _].
  apply dec_pfxs_sound in Ed1, Ed3. apply dec_attrs_sound in Ed2; [|exact Hba].
  unfold enc_body. cbn [u_wd u_attrs u_nlri]. rewrite Ed1, Ed2, Ed3, Hlw, Hla, !u16_inv by assumption.
  reflexivity.
Qed.

Lemma list_eqb_eq x : forall y, list_eqb x y = true -> x = y.
Proof.
  unfold list_eqb. induction x as [|a x IH]; intros [|b y]; cbn [length combine forallb Nat.eqb fst snd];
    try discriminate; try reflexivity.
  rewrite !andb_true_iff, N.eqb_eq. intros (Hl & -> & Hf). f_equal. apply IH.
  rewrite Hl, Hf. reflexivity.
Qed.

Lemma decode_sound b u : decode Code b = Some u -> encode u = b.
Proof.
  unfold decode. destruct (take_n 16 b) as [[mk [|lh [|ll [|ty body]]]]|] eqn:Et; try discriminate.
  destruct (list_eqb mk marker) eqn:Em; [|discriminate].
  destruct (ty =? 2) eqn:Ety; [|discriminate].
  destruct (u16 lh ll =? 19 + lenN body) eqn:El; [|discriminate].
  destruct (bytes_ok b) eqn:Eb; [|discriminate]. cbn [andb].
  apply take_n_inv in Et as [-> _]. apply list_eqb_eq in Em. subst mk.
  apply N.eqb_eq in Ety, El. subst ty.
  apply bytes_ok_app_inv in Eb as [_ Eb].
  apply bytes_ok_cons in Eb as [_ Eb]. apply bytes_ok_cons in Eb as [Hll Eb]. apply bytes_ok_cons in Eb as [_ Eb].
  intros Hd. apply dec_body_sound in Hd; [|exact Eb].
  unfold encode. rewrite Hd, <- El, u16_inv by exact Hll. reflexivity.
Qed.

(* ---------- ... and it is well-formed ---------- *)
Lemma tail_mod_pos len : 0 < tail_mod len.
Proof. unfold tail_mod. apply N.neq_0_lt_0, N.pow_nonzero. lia. Qed.

Lemma mask_byte_props len b : mask_byte len b <= b /\ mask_byte len b mod tail_mod len = 0.
Proof.
  unfold mask_byte. pose proof (tail_mod_pos len) as Hp. generalize dependent (tail_mod len). intros t Hp.
  assert (Ht : t <> 0) by lia.
  pose proof (N.div_mod b t Ht) as Hd. pose proof (N.mod_lt b t Ht) as Hl.
  split; [apply N.le_sub_l|].
  replace (b - b mod t) with (b / t * t).
  - apply N.mod_mul. exact Ht.
  - rewrite N.mul_comm. set (q := t * (b / t)) in *. lia.
Qed.

Lemma mask_last_length len bs : length (mask_last len bs) = length bs.
Proof.
  induction bs as [|b [|b' r] IH]; try reflexivity.
  change (mask_last len (b :: b' :: r)) with (b :: mask_last len (b' :: r)).
  cbn [length] in *. rewrite IH. reflexivity.
Qed.

Lemma mask_last_bytes_ok len bs : bytes_ok bs = true -> bytes_ok (mask_last len bs) = true.
Proof.
  induction bs as [|b [|b' r] IH]; intros H; try reflexivity.
  - apply bytes_ok_cons in H as [Hb _]. pose proof (mask_byte_props len b) as [Hm _].
    unfold bytes_ok, byte_ok. cbn [mask_last forallb]. rewrite andb_true_r. apply N.ltb_lt. lia.
  - change (mask_last len (b :: b' :: r)) with (b :: mask_last len (b' :: r)).
    apply bytes_ok_cons in H as [Hb Hr]. change (bytes_ok (b :: ?x)) with (byte_ok b && bytes_ok x).
    rewrite IH by exact Hr. unfold byte_ok. apply N.ltb_lt in Hb. rewrite Hb. reflexivity.
Qed.

Lemma mask_last_trailing_ok len bs : trailing_ok len (mask_last len bs) = true.
Proof.
  unfold trailing_ok. induction bs as [|b [|b' r] IH].
  - cbn [mask_last last]. apply N.eqb_eq. apply N.mod_0_l. pose proof (tail_mod_pos len). lia.
  - cbn [mask_last last]. apply N.eqb_eq. apply mask_byte_props.
  - change (mask_last len (b :: b' :: r)) with (b :: mask_last len (b' :: r)).
    pose proof (mask_last_length len (b' :: r)) as Hl.
    destruct (mask_last len (b' :: r)) as [|x y] eqn:E; [discriminate Hl|]. exact IH.
Qed.

Lemma dec_pfxs_wf m maxlen fuel : forall b ps, bytes_ok b = true ->
  dec_pfxs m maxlen fuel b = Some ps -> forallb (pfx_wf maxlen) ps = true.
Proof.
  induction fuel as [|fuel IH]; intros b ps Hb; destruct b as [|len rest]; cbn [dec_pfxs]; try discriminate;
    try (intros [= <-]; reflexivity).
  destruct (len <=? maxlen) eqn:El; [|discriminate].
  destruct (take_n (nbytes len) rest) as [[bs rest']|] eqn:Et; [|discriminate].
  destruct (strict m && negb (trailing_ok len bs)); [discriminate|].
  destruct (dec_pfxs m maxlen fuel rest') as [ps'|] eqn:Er; [|discriminate].
  intros [= <-]. apply take_n_inv in Et as [-> Hn].
  apply bytes_ok_cons in Hb as [_ Hb]. apply bytes_ok_app_inv in Hb as [Hbs Hr].
  cbn [forallb]. rewrite (IH _ _ Hr Er), andb_true_r.
  unfold pfx_wf. cbn [p_len p_bytes]. rewrite El, mask_last_bytes_ok, mask_last_trailing_ok by exact Hbs.
  unfold lenN in *. rewrite mask_last_length, Hn, N.eqb_refl. reflexivity.
Qed.

Lemma u16_lt hi lo : hi < 256 -> lo < 256 -> u16 hi lo < 65536.
Proof. unfold u16. lia. Qed.

Lemma fam_of_none_wf afi safi : fam_of afi safi = None ->
  match fam_of afi safi with None => true | Some _ => false end = true.
Proof. intros ->. reflexivity. Qed.

Lemma dec_mpnlri_wf afi safi body n : afi < 65536 -> safi < 256 -> bytes_ok body = true ->
  dec_mpnlri Code afi safi body = Some n -> mpnlri_wf n = true.
Proof.
  intros Ha Hs Hb. unfold dec_mpnlri. destruct (fam_of afi safi) as [f|] eqn:Ef.
  - destruct (dec_pfxs Code (fam_maxlen f) (length body) body) as [ps|] eqn:Ed; [|discriminate].
    intros [= <-]. cbn [mpnlri_wf]. eapply dec_pfxs_wf; eassumption.
  - intros [= <-]. cbn [mpnlri_wf]. rewrite Ef, Hb. apply N.ltb_lt in Ha, Hs. rewrite Ha, Hs. reflexivity.
Qed.

Lemma dec_attr_val_wf s14 s15 fl ty v a : fl < 256 -> ty < 256 -> bytes_ok v = true ->
  lenN v < (if ext_len fl then 65536 else 256) ->
  (ty = 14 -> s14 = false) -> (ty = 15 -> s15 = false) ->
  dec_attr_val Code s14 s15 fl ty v = Some a -> attr_wf a = true.
Proof.
  intros Hfl Hty Hb Hlen H14 H15 Hd. pose proof (dec_attr_val_sound s14 s15 fl ty v a Hb Hd) as (Hf & Ht & Hv).
  unfold attr_wf. rewrite Hf, Ht, Hv, Hb. unfold byte_ok.
  apply N.ltb_lt in Hfl, Hty, Hlen. rewrite Hfl, Hty, Hlen. cbn [andb].
  unfold dec_attr_val in Hd. destruct ((ty =? 14) && negb s14) eqn:E14.
  - destruct v as [|ah [|al [|sf [|nhl r]]]]; try discriminate.
    destruct (take_n nhl r) as [[nh [|rsv body]]|] eqn:Et; try discriminate.
    destruct (dec_mpnlri Code (u16 ah al) sf body) as [n|] eqn:Ed; [|discriminate].
    injection Hd as <-. apply take_n_inv in Et as [-> Hn].
    apply bytes_ok_cons in Hb as [Hah Hb]. apply bytes_ok_cons in Hb as [Hal Hb].
    apply bytes_ok_cons in Hb as [Hsf Hb]. apply bytes_ok_cons in Hb as [Hnhl Hb].
    apply bytes_ok_app_inv in Hb as [_ Hb]. apply bytes_ok_cons in Hb as [_ Hb].
    rewrite Hn. apply N.ltb_lt in Hnhl. rewrite Hnhl. cbn [andb].
    exact (dec_mpnlri_wf (u16 ah al) sf body n (u16_lt _ _ Hah Hal) Hsf Hb Ed).
  - destruct ((ty =? 15) && negb s15) eqn:E15.
    + destruct v as [|ah [|al [|sf body]]]; try discriminate.
      destruct (dec_mpnlri Code (u16 ah al) sf body) as [n|] eqn:Ed; [|discriminate].
      injection Hd as <-.
      apply bytes_ok_cons in Hb as [Hah Hb]. apply bytes_ok_cons in Hb as [Hal Hb].
      apply bytes_ok_cons in Hb as [Hsf Hb].
      exact (dec_mpnlri_wf (u16 ah al) sf body n (u16_lt _ _ Hah Hal) Hsf Hb Ed).
    + destruct (((ty =? 14) || (ty =? 15)) && Nat.ltb (length v) 3); [discriminate|]. injection Hd as <-.
      assert (Hn14 : (ty =? 14) = false).
      { destruct (ty =? 14) eqn:E; [|reflexivity]. apply N.eqb_eq in E. rewrite (H14 E) in E14. discriminate E14. }
      assert (Hn15 : (ty =? 15) = false).
      { destruct (ty =? 15) eqn:E; [|reflexivity]. apply N.eqb_eq in E. rewrite (H15 E) in E15. discriminate E15. }
      rewrite Hn14, Hn15. reflexivity.
Qed.

Lemma dec_attrs_wf fuel : forall s14 s15 b l, bytes_ok b = true ->
  okc s14 (count_if is_reach l) -> okc s15 (count_if is_unreach l) ->
  dec_attrs Code s14 s15 fuel b = Some l -> forallb attr_wf l = true.
Proof.
  induction fuel as [|fuel IH]; intros s14 s15 b l Hb H14 H15; destruct b as [|fl [|ty rest]]; cbn [dec_attrs]; try discriminate;
    try (intros [= <-]; reflexivity).
  apply bytes_ok_cons in Hb as [Hfl Hb]. apply bytes_ok_cons in Hb as [Hty Hb].
  assert (Hstep : forall v rest' a l', bytes_ok v = true -> bytes_ok rest' = true ->
            lenN v < (if ext_len fl then 65536 else 256) -> l = a :: l' ->
            dec_attr_val Code s14 s15 fl ty v = Some a ->
            dec_attrs Code (seen Code s14 ty 14) (seen Code s15 ty 15) fuel rest' = Some l' ->
            forallb attr_wf l = true).
  { intros v rest' a l' Hv Hr Hlen -> Ea El.
    pose proof (dec_attr_val_sound _ _ _ _ _ _ Hv Ea) as (_ & Ht & _).
    apply (okc_step Code s14 is_reach 14) in H14 as [Ha14 H14]; [|reflexivity].
    apply (okc_step Code s15 is_unreach 15) in H15 as [Ha15 H15]; [|reflexivity].
    rewrite Ht in H14, H15. unfold is_reach in Ha14. unfold is_unreach in Ha15. rewrite Ht in Ha14, Ha15.
    cbn [forallb]. rewrite (IH _ _ _ _ Hr H14 H15 El), andb_true_r.
    apply (dec_attr_val_wf s14 s15 fl ty v a Hfl Hty Hv Hlen); [| |exact Ea].
    - intros ->. apply Ha14. reflexivity.
    - intros ->. apply Ha15. reflexivity. }
  destruct (ext_len fl) eqn:Ex.
  - destruct rest as [|hi [|lo r]]; try discriminate.
    destruct (take_n (u16 hi lo) r) as [[v rest']|] eqn:Et; [|discriminate].
    destruct (dec_attr_val Code s14 s15 fl ty v) as [a|] eqn:Ea; [|discriminate].
    destruct (dec_attrs Code (seen Code s14 ty 14) (seen Code s15 ty 15) fuel rest') as [l'|] eqn:El; [|discriminate].
    intros [= Hl]. apply take_n_inv in Et as [-> Hlen].
    apply bytes_ok_cons in Hb as [Hhi Hb]. apply bytes_ok_cons in Hb as [Hlo Hb].
    apply bytes_ok_app_inv in Hb as [Hv Hr].
    apply (Hstep v rest' a l' Hv Hr); [|symmetry; exact Hl|exact Ea|exact El].
    rewrite Hlen. apply u16_lt; assumption.
  - destruct rest as [|n r]; try discriminate.
    destruct (take_n n r) as [[v rest']|] eqn:Et; [|discriminate].
    destruct (dec_attr_val Code s14 s15 fl ty v) as [a|] eqn:Ea; [|discriminate].
    destruct (dec_attrs Code (seen Code s14 ty 14) (seen Code s15 ty 15) fuel rest') as [l'|] eqn:El; [|discriminate].
    intros [= Hl]. apply take_n_inv in Et as [-> Hlen].
    apply bytes_ok_cons in Hb as [Hn Hb]. apply bytes_ok_app_inv in Hb as [Hv Hr].
    apply (Hstep v rest' a l' Hv Hr); [|symmetry; exact Hl|exact Ea|exact El].
    rewrite Hlen. exact Hn.
Qed.

Lemma decode_wf b u : decode Code b = Some u -> mp_unique (u_attrs u) = true -> wf u = true.
Proof.
  intros Hd Hu. pose proof (decode_sound b u Hd) as Hs. revert Hd.
  unfold decode. destruct (take_n 16 b) as [[mk [|lh [|ll [|ty body]]]]|] eqn:Et; try discriminate.
  destruct (list_eqb mk marker) eqn:Em; [|discriminate].
  destruct (ty =? 2) eqn:Ety; [|discriminate].
  destruct (u16 lh ll =? 19 + lenN body) eqn:El; [|discriminate].
  destruct (bytes_ok b) eqn:Eb; [|discriminate]. cbn [andb].
  apply take_n_inv in Et as [-> _]. apply N.eqb_eq in El.
  apply bytes_ok_app_inv in Eb as [_ Eb].
  apply bytes_ok_cons in Eb as [Hlh Eb]. apply bytes_ok_cons in Eb as [Hll Eb]. apply bytes_ok_cons in Eb as [_ Eb].
  intros Hd. pose proof (dec_body_sound body u Eb Hd) as Hbody. revert Hd.
  unfold dec_body. destruct body as [|wh [|wl r1]]; try discriminate.
  destruct (take_n (u16 wh wl) r1) as [[w [|ah [|al r3]]]|] eqn:Ew; try discriminate.
  destruct (take_n (u16 ah al) r3) as [[a n]|] eqn:Ea; [|discriminate].
  destruct (dec_pfxs Code 32 (length w) w) as [wd|] eqn:Ed1; [|discriminate].
  destruct (dec_attrs Code false false (length a) a) as [attrs|] eqn:Ed2; [|discriminate].
  destruct (dec_pfxs Code 32 (length n) n) as [nlri|] eqn:Ed3; [|discriminate].
  cbn [strict orb]. intros [= <-]. cbn [u_attrs] in Hu.
  apply take_n_inv in Ew as [-> Hlw]. apply take_n_inv in Ea as [-> Hla].
  apply bytes_ok_cons in Eb as [Hwh Eb]. apply bytes_ok_cons in Eb as [Hwl Eb].
  apply bytes_ok_app_inv in Eb as [Hbw Eb].
  apply bytes_ok_cons in Eb as [Hah Eb]. apply bytes_ok_cons in Eb as [Hal Eb].
  apply bytes_ok_app_inv in Eb as [Hba Hbn].
  unfold wf. cbn [u_wd u_attrs u_nlri].
  pose proof Hu as Hu'. unfold mp_unique in Hu'. apply andb_prop in Hu' as [Hu1 Hu2]. apply Nat.leb_le in Hu1, Hu2.
  rewrite (dec_pfxs_wf _ _ _ _ _ Hbw Ed1), (dec_attrs_wf (length a) false false a attrs Hba Hu1 Hu2 Ed2), (dec_pfxs_wf _ _ _ _ _ Hbn Ed3), Hu.
  rewrite (dec_pfxs_sound _ _ _ _ Ed1), (dec_attrs_sound _ _ _ _ _ Hba Ed2), Hbody, Hlw, Hla, <- El.
  cbn [andb]. rewrite !andb_true_iff, !N.ltb_lt. repeat split; apply u16_lt; assumption.
Qed.

(* the decoder (implementation's mode) accepts exactly the encodings of well-formed UPDATEs *)
Lemma decode_iff b u :
  (decode Code b = Some u /\ mp_unique (u_attrs u) = true) <-> (wf u = true /\ b = encode u).
Proof.
  split.
  - intros [Hd Hu]. split; [eapply decode_wf; eassumption|symmetry; apply decode_sound; exact Hd].
  - intros [Hw ->]. split; [apply roundtrip; exact Hw|apply wf_inv in Hw; tauto].
Qed.

(* ---------- the End-of-RIB shortcut ---------- *)
Lemma lax_eor_drops :
  wf upd_eorlike = true /\ lax_eor upd_eorlike = true /\ is_eor upd_eorlike = false
  /\ events upd_eorlike = [EvA F4U (MkPfx 8 [10]) (u_attrs upd_eorlike)].
Proof. vm_compute. repeat split; reflexivity. Qed.

Lemma first_reach_none l : existsb is_reach l = false -> first_reach l = None.
Proof.
  induction l as [|a l IH]; [reflexivity|]. cbn [existsb]. rewrite orb_false_iff. intros [Ha Hl].
  destruct a; cbn [first_reach]; try (apply IH; exact Hl). discriminate Ha.
Qed.

(* guarded (the repair), it drops nothing *)
Lemma guarded_eor_drops_nothing u :
  carries_routes u = false -> lax_eor u = true -> events u = [].
Proof.
  unfold carries_routes. rewrite !orb_false_iff, !negb_false_iff. intros [[Hw Hn] Hr] He.
  destruct u as [wd attrs nlri]. cbn [u_wd u_nlri u_attrs] in *.
  destruct wd; [|discriminate]. destruct nlri; [|discriminate].
  unfold events. cbn [u_wd u_nlri u_attrs map]. rewrite first_reach_none by exact Hr.
  cbn [opt_routes app map].
  destruct attrs as [|a l]; [reflexivity|].
  unfold lax_eor, no_unreach_routes in He. cbn [u_attrs] in He.
  destruct (first_unreach (a :: l)) as [n|]; [|discriminate].
  cbn [opt_routes]. destruct (mp_routes n); [reflexivity|discriminate].
Qed.

(* ---------- the rendered form of the attributes ---------- *)
From Coq Require Import Permutation.

Lemma chunks_concat k : (0 < k)%nat -> forall fuel l, (length l <= fuel)%nat -> concat (chunks fuel k l) = l.
Proof.
  intros Hk. induction fuel as [|fuel IH]; intros l Hl.
  - destruct l; [reflexivity|cbn in Hl; lia].
  - destruct l as [|x l]; [reflexivity|].
    cbn [chunks concat]. rewrite IH.
    + apply firstn_skipn.
    + rewrite skipn_length. cbn [length] in *. lia.
Qed.

Lemma chunks_length k : (0 < k)%nat -> forall fuel l c,
  (length l <= fuel)%nat -> Nat.modulo (length l) k = 0%nat -> In c (chunks fuel k l) -> length c = k.
Proof.
  intros Hk. induction fuel as [|fuel IH]; intros l c Hl Hm Hin.
  - destruct l; contradiction.
  - destruct l as [|x l]; [contradiction|].
    assert (Hge : (k <= length (x :: l))%nat).
    { apply Nat.mod_divides in Hm as [q Hq]; [|lia]. destruct q; [cbn [length] in Hq; lia|]. rewrite Hq. nia. }
    cbn [chunks] in Hin. destruct Hin as [<-|Hin].
    + apply firstn_length_le. exact Hge.
    + apply IH in Hin; [exact Hin| |].
      * rewrite skipn_length. cbn [length] in *. lia.
      * rewrite skipn_length.
        apply Nat.mod_divides in Hm as [q Hq]; [|lia]. apply Nat.mod_divides; [lia|].
        exists (q - 1)%nat. rewrite Hq. destruct q; [cbn [length] in Hq; lia|]. nia.
Qed.

Lemma comm_size_pos ty k : comm_size ty = Some k -> (0 < k)%nat.
Proof.
  unfold comm_size. intros H.
  repeat match type of H with
         | match ?x with _ => _ end = _ => destruct x; try discriminate
         end; injection H as <-; lia.
Qed.

(* an attribute's members, put together again, are its value: no octet is lost or invented *)
Lemma attr_comms_value a cs : attr_comms a = Some cs ->
  concat (map snd cs) = a_value a /\ Forall (fun c => fst c = a_type a) cs.
Proof.
  unfold attr_comms. destruct (comm_size (a_type a)) as [k|] eqn:Ek; [|discriminate].
  destruct (Nat.eqb _ 0); [|discriminate]. intros [= <-]. split.
  - rewrite map_map. cbn [snd]. rewrite map_id. apply chunks_concat; [eapply comm_size_pos; eauto|lia].
  - apply Forall_forall. intros c Hc. apply in_map_iff in Hc as (x & <- & _). reflexivity.
Qed.

Lemma attr_comms_size a cs c : attr_comms a = Some cs -> In c cs ->
  exists k, comm_size (fst c) = Some k /\ length (snd c) = k.
Proof.
  unfold attr_comms. destruct (comm_size (a_type a)) as [k|] eqn:Ek; [|discriminate].
  destruct (Nat.eqb _ 0) eqn:Em; [|discriminate]. intros [= <-] Hc.
  apply in_map_iff in Hc as (x & <- & Hx). exists k. split; [exact Ek|]. cbn [snd].
  eapply chunks_length; eauto; [eapply comm_size_pos; eauto|apply Nat.eqb_eq, Em].
Qed.

Lemma json_comms_cons a l : json_comms (a :: l) = match attr_comms a with Some cs => cs | None => [] end ++ json_comms l.
Proof. reflexivity. Qed.
Lemma json_kinds_cons a l :
  json_kinds (a :: l) = (if is_mp a then [] else match attr_comms a with Some _ => [] | None => [a_type a] end) ++ json_kinds l.
Proof. reflexivity. Qed.

(* whatever the order of the attributes, the community list has the same members, each as
   often; so has the list of other elements *)
Lemma json_comms_perm l l' : Permutation l l' -> Permutation (json_comms l) (json_comms l').
Proof.
  induction 1 as [|a l l' _ IH|a b l|l1 l2 l3 _ IH1 _ IH2].
  - constructor.
  - rewrite !json_comms_cons. apply Permutation_app_head, IH.
  - rewrite !json_comms_cons, !app_assoc. apply Permutation_app_tail, Permutation_app_comm.
  - eapply perm_trans; eauto.
Qed.

Lemma json_kinds_perm l l' : Permutation l l' -> Permutation (json_kinds l) (json_kinds l').
Proof.
  induction 1 as [|a l l' _ IH|a b l|l1 l2 l3 _ IH1 _ IH2].
  - constructor.
  - rewrite !json_kinds_cons. apply Permutation_app_head, IH.
  - rewrite !json_kinds_cons, !app_assoc. apply Permutation_app_tail, Permutation_app_comm.
  - eapply perm_trans; eauto.
Qed.

(* membership with multiplicity: a community is listed exactly as often as the UPDATE's
   community attributes carry it *)
Definition comm_eq_dec : forall x y : comm, {x = y} + {x <> y}.
Proof. decide equality; [apply (list_eq_dec N.eq_dec)|apply N.eq_dec]. Defined.

Definition occ_in_attr (c : comm) (a : attr) : nat :=
  match attr_comms a with Some cs => count_occ comm_eq_dec cs c | None => 0%nat end.

Lemma json_comms_count l c :
  count_occ comm_eq_dec (json_comms l) c = list_sum (map (occ_in_attr c) l).
Proof.
  induction l as [|a l IH]; [reflexivity|].
  rewrite json_comms_cons, count_occ_app, IH. cbn [map list_sum]. unfold occ_in_attr.
  destruct (attr_comms a); reflexivity.
Qed.

Lemma json_comms_in l c : In c (json_comms l) <-> exists a cs, In a l /\ attr_comms a = Some cs /\ In c cs.
Proof.
  unfold json_comms. rewrite in_flat_map. split.
  - intros (a & Ha & Hc). destruct (attr_comms a) as [cs|] eqn:E; [|contradiction]. eauto.
  - intros (a & cs & Ha & E & Hc). exists a. rewrite E. auto.
Qed.

(* per community attribute type: the members listed for that type, in list order, are the
   values of the UPDATE's attributes of that type, in PDU order, octet for octet *)
Lemma filter_fst_all (ty : N) (cs : list comm) : Forall (fun c => fst c = ty) cs -> filter (fun c : comm => fst c =? ty) cs = cs.
Proof.
  induction 1 as [|c cs Hc _ IH]; [reflexivity|]. cbn [filter]. rewrite Hc, N.eqb_refl, IH. reflexivity.
Qed.
Lemma filter_fst_none (ty ty' : N) (cs : list comm) : (ty' =? ty) = false -> Forall (fun c => fst c = ty') cs ->
  filter (fun c : comm => fst c =? ty) cs = [].
Proof.
  intros Hn. induction 1 as [|c cs Hc _ IH]; [reflexivity|]. cbn [filter]. rewrite Hc, Hn, IH. reflexivity.
Qed.

Lemma json_comms_bytes ty l :
  concat (map snd (filter (fun c : comm => fst c =? ty) (json_comms l))) =
  concat (map a_value (filter (is_comm_attr ty) l)).
Proof.
  induction l as [|a l IH]; [reflexivity|].
  rewrite json_comms_cons, filter_app, map_app, concat_app. cbn [filter].
  unfold is_comm_attr at 1. destruct (attr_comms a) as [cs|] eqn:E.
  - destruct (attr_comms_value _ _ E) as [Hv Hty].
    destruct (a_type a =? ty) eqn:Et; cbn [andb map concat].
    + apply N.eqb_eq in Et. rewrite <- Et, (filter_fst_all _ _ Hty). unfold comm in *. rewrite Hv, Et. f_equal. exact IH.
    + rewrite (filter_fst_none _ _ _ Et Hty). exact IH.
  - rewrite andb_false_r. exact IH.
Qed.

Lemma json_comms_member_size l c : In c (json_comms l) -> exists k, comm_size (fst c) = Some k /\ length (snd c) = k.
Proof. rewrite json_comms_in. intros (a & cs & _ & E & Hc). eapply attr_comms_size; eauto. Qed.

(* the other elements: every attribute that is neither MP_REACH/MP_UNREACH nor a community
   attribute, once, in PDU order; the two MP attributes never *)
Lemma json_kinds_exact l : json_kinds l = map a_type (filter is_plain_attr l).
Proof.
  induction l as [|a l IH]; [reflexivity|].
  rewrite json_kinds_cons, IH. cbn [filter]. unfold is_plain_attr at 2.
  destruct (is_mp a); [reflexivity|]. destruct (attr_comms a); reflexivity.
Qed.

Lemma json_kinds_no_mp l : ~ In 14 (json_kinds l) /\ ~ In 15 (json_kinds l).
Proof.
  rewrite json_kinds_exact. split; intros H; apply in_map_iff in H as (a & Ht & Ha);
    apply filter_In in Ha as [_ Hp]; unfold is_plain_attr, is_mp, is_reach, is_unreach in Hp;
    rewrite Ht in Hp; cbn in Hp; discriminate.
Qed.

(* every attribute of the UPDATE is accounted for in exactly one way *)
Lemma json_accounting l :
  (length (json_kinds l) + count_if (fun a => match attr_comms a with Some _ => true | None => false end) l
   + count_if (fun a => is_mp a && match attr_comms a with Some _ => false | None => true end) l = length l)%nat.
Proof.
  unfold count_if. induction l as [|a l IH]; [reflexivity|].
  rewrite json_kinds_cons, app_length. cbn [filter length].
  destruct (is_mp a), (attr_comms a); cbn [andb length app]; lia.
Qed.

(* an MP attribute is never a community attribute *)
Lemma mp_not_comm a : is_mp a = true -> attr_comms a = None.
Proof.
  unfold is_mp, is_reach, is_unreach, attr_comms. intros H.
  apply orb_prop in H as [H|H]; apply N.eqb_eq in H; rewrite H; reflexivity.
Qed.

Lemma json_accounting' l :
  (length (json_kinds l) + count_if (fun a => match attr_comms a with Some _ => true | None => false end) l
   + count_if is_mp l = length l)%nat.
Proof.
  rewrite <- (json_accounting l). f_equal. unfold count_if. f_equal.
  apply filter_ext. intros a. destruct (is_mp a) eqn:E; [|reflexivity].
  rewrite (mp_not_comm _ E). reflexivity.
Qed.

(* through the bytes: what is rendered for the routes of encode u is the shape of u's attributes *)
Lemma json_of_bytes m u : wf u = true ->
  match decode m (encode u) with Some u' => json_of_update u' | None => None end = json_of_update u.
Proof. intros H. rewrite (roundtrip m u H). reflexivity. Qed.

Lemma json_example_ok :
  json_shape attrs_json_example =
  MkShape [1; 8] [(32, [0;0;253;232; 0;0;0;1; 0;0;0;2]); (16, [0;2;253;232;0;0;0;100]); (8, [253;232;0;1]); (8, [253;232;0;2])].
Proof. vm_compute. reflexivity. Qed.

Lemma json_order_irrelevant l l' : Permutation l l' ->
  Permutation (json_comms l) (json_comms l') /\ Permutation (json_kinds l) (json_kinds l').
Proof. intros H. split; [apply json_comms_perm|apply json_kinds_perm]; exact H. Qed.

Lemma json_kinds_spec l : json_kinds l = map a_type (filter is_plain_attr l) /\ ~ In 14 (json_kinds l) /\ ~ In 15 (json_kinds l).
Proof. split; [apply json_kinds_exact|apply json_kinds_no_mp]. Qed.
