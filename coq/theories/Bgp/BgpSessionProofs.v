(* Proofs about the end of a BGP session (Bgp/BgpSessionModel.v): whatever ends the loop
   of Processor::process, the block after it runs; what it sends and what it does to
   live_sessions; composition with the RIB model's frame lemmas. *)
From stdpp Require Import gmap.
From Coq Require Import NArith Lia.
From RV Require Import Rib.RibModel Rib.RibProofs Bmp.BmpModel Bgp.BgpSessionModel.

(* ---- every payload of an exploded UPDATE carries the session's ingress id ---- *)
Lemma payloads_of_own id u : forallb (fun p => bool_decide (k_mui (p_key p) = id)) (payloads_of id u) = true.
Proof.
  apply forallb_forall. intros p Hin. apply bool_decide_eq_true.
  destruct u as [f|af ann a wf wd|lax c ff ann a wd]; cbn [payloads_of] in Hin.
  - destruct Hin.
  - apply in_app_or in Hin as [Hin|Hin]; apply in_map_iff in Hin as (x & <- & _); reflexivity.
  - apply in_app_or in Hin as [Hin|Hin]; apply in_map_iff in Hin as (x & <- & _); reflexivity.
Qed.

Lemma own_trace_snoc id us u : own_trace id us -> bs_own_bulk id u = true -> own_trace id (us ++ [u]).
Proof. intros H Hu. apply Forall_app. split; [exact H|]. constructor; [exact Hu|constructor]. Qed.

(* ---- one step never sends anything but a Bulk of the session's own routes ---- *)
Lemma bs_step_out id key s e :
  own_trace id (bs_out s) -> own_trace id (bs_out (bs_step id key s e).1).
Proof.
  intros H. destruct e as [| |k| |[u|]| |b| | |[]]; cbn [bs_step]; try exact H.
  - destruct (bool_decide (key ∈ bs_live s)); exact H.
  - destruct (bs_neg s); cbn [fst bs_send bs_out]; [|exact H].
    apply own_trace_snoc; [exact H|]. cbn [bs_own_bulk]. apply payloads_of_own.
  - destruct (bs_neg s); exact H.
Qed.

Lemma bs_loop_out id key evs : forall s,
  own_trace id (bs_out s) -> own_trace id (bs_out (bs_loop id key s evs).1).
Proof.
  induction evs as [|e evs IH]; intros s H; cbn [bs_loop]; [exact H|].
  pose proof (bs_step_out id key s e H) as Hs.
  destruct (bs_step id key s e) as [s' go]. cbn [fst] in Hs.
  destruct go; [apply IH; exact Hs|exact Hs].
Qed.

(* ---- the block after the loop ---- *)
Lemma bs_cleanup_out id key s :
  bs_out (bs_cleanup id key s) =
  bs_out s ++ (if negb (bs_rej s) && bs_neg s then [UWithdraw id None] else []).
Proof. unfold bs_cleanup. destruct (negb (bs_rej s) && bs_neg s); cbn [bs_out]; [reflexivity|rewrite app_nil_r; reflexivity]. Qed.

Lemma bs_cleanup_live id key s :
  bs_live (bs_cleanup id key s) = if negb (bs_rej s) && bs_neg s then bs_live s ∖ {[key]} else bs_live s.
Proof. unfold bs_cleanup. destruct (negb (bs_rej s) && bs_neg s); reflexivity. Qed.

Lemma bs_process_unfold id key live0 evs :
  bs_process id key live0 evs =
  (bs_cleanup id key (bs_loop id key (bs_init live0) evs).1, (bs_loop id key (bs_init live0) evs).2).
Proof. unfold bs_process. destruct (bs_loop id key (bs_init live0) evs); reflexivity. Qed.

(* ---- invariant of the states in which the loop goes on, for scripts that keep the
   session's side of the contract. [seen]: SessionNegotiated was delivered. ---- *)
Record bs_inv (key : N) (live0 : gset N) (seen : bool) (s : bs_st) : Prop := MkInv {
  inv_rej : bs_rej s = false;
  inv_seen : bs_reg s = seen;
  inv_reg : bs_reg s = true -> bs_neg s = true /\ key ∉ live0 /\ bs_live s = {[key]} ∪ live0;
  inv_unreg : bs_reg s = false -> bs_live s = live0 /\ bs_out s = [] }.

(* what holds when the loop has been left *)
Record bs_final (key : N) (live0 : gset N) (s : bs_st) : Prop := MkFinal {
  fin_reg : bs_reg s = true -> bs_neg s = true /\ bs_rej s = false /\ key ∉ live0 /\ bs_live s = {[key]} ∪ live0;
  fin_unreg : bs_reg s = false -> bs_live s = live0 /\ bs_out s = [];
  fin_rej : bs_rej s = true -> bs_reg s = false /\ key ∈ live0 }.

Lemma bs_inv_final key live0 seen s : bs_inv key live0 seen s -> bs_final key live0 s.
Proof.
  intros [Hrej Hseen Hreg Hunreg]. split.
  - intros H. destruct (Hreg H) as (? & ? & ?). auto.
  - exact Hunreg.
  - intros H. congruence.
Qed.

Lemma bs_init_inv key live0 : bs_inv key live0 false (bs_init live0).
Proof. split; cbn; auto; discriminate. Qed.

Lemma bs_loop_final id key live0 evs : forall seen s,
  bs_inv key live0 seen s -> bs_wf_from seen evs = true ->
  bs_final key live0 (bs_loop id key s evs).1.
Proof.
  induction evs as [|e evs IH]; intros seen s Hinv Hwf; cbn [bs_loop fst].
  { eapply bs_inv_final; exact Hinv. }
  pose proof Hinv as [Hrej Hseen Hreg Hunreg].
  destruct e as [| |k| |u| |b| | |r]; cbn [bs_step bs_wf_from] in *.
  - (* BTick *) eapply IH; eassumption.
  - (* BNegotiate *)
    eapply IH; [|exact Hwf]. split; cbn; auto.
    intros H. destruct (Hreg H) as (_ & ? & ?). auto.
  - (* BTickErr *) cbn [fst]. eapply bs_inv_final; exact Hinv.
  - (* BMsgNegotiated *)
    apply andb_true_iff in Hwf as [Hns Hwf]. apply negb_true_iff in Hns. subst seen.
    destruct (Hunreg Hseen) as [Hlive Hout].
    cbn [bs_live]. destruct (bool_decide (key ∈ bs_live s)) eqn:Hk; cbn [fst].
    + apply bool_decide_eq_true in Hk. rewrite Hlive in Hk.
      split; cbn; try congruence; auto.
    + apply bool_decide_eq_false in Hk. rewrite Hlive in Hk.
      eapply IH; [|exact Hwf]. split; cbn; auto; try discriminate.
      intros _. rewrite Hlive. auto.
  - (* BMsgUpdate *)
    apply andb_true_iff in Hwf as [Hs Hwf]. subst seen.
    destruct (Hreg Hseen) as (Hneg & Hk & Hlive). rewrite Hneg.
    destruct u as [u|]; [|eapply IH; eassumption].
    eapply IH; [|exact Hwf]. split; cbn; auto. congruence.
  - (* BMsgNotification *) eapply IH; eassumption.
  - (* BMsgLost *) cbn [fst]. eapply bs_inv_final; exact Hinv.
  - (* BClosed *) cbn [fst]. eapply bs_inv_final; exact Hinv.
  - (* BTerminate *) eapply IH; [|exact Hwf]. split; cbn; auto.
  - (* BReconf *)
    assert (Hc : forall c, bs_inv key live0 seen (bs_command s c)) by (intros c; split; cbn; auto).
    destruct r; cbn [fst].
    + eapply bs_inv_final; apply Hc.
    + eapply IH; eassumption.
    + eapply IH; [apply Hc|exact Hwf].
    + eapply bs_inv_final; apply Hc.
    + eapply IH; eassumption.
Qed.

Lemma bs_final_loop id key live0 evs :
  bs_wf evs = true -> bs_final key live0 (bs_loop id key (bs_init live0) evs).1.
Proof. intros Hwf. eapply bs_loop_final; [apply bs_init_inv|exact Hwf]. Qed.

(* ================================================================== *)
(* C07-style: one cleanup, whatever ends the loop                       *)

(* every script, every live_sessions: what left the gate is Bulks of the session's own
   routes, then - decided by the two tests of the block after the loop only, not by the
   exit taken - the session-wide withdrawal of the session's ingress id, once *)
Theorem cleanup_shape id key live0 evs :
  let s := (bs_loop id key (bs_init live0) evs).1 in
  let f := (bs_process id key live0 evs).1 in
  own_trace id (bs_out s) /\
  bs_out f = bs_out s ++ (if negb (bs_rej s) && bs_neg s then [UWithdraw id None] else []).
Proof.
  cbn zeta. rewrite bs_process_unfold. cbn [fst]. split.
  - apply bs_loop_out. constructor.
  - apply bs_cleanup_out.
Qed.

(* a session that was registered (its SessionNegotiated was accepted): the trace ends with
   exactly one Withdraw of its id, its key is gone and live_sessions is what it was before *)
Theorem cleanup_once id key live0 evs :
  bs_wf evs = true ->
  let s := (bs_loop id key (bs_init live0) evs).1 in
  let f := (bs_process id key live0 evs).1 in
  bs_reg s = true ->
  own_trace id (bs_out s) /\ bs_out f = bs_out s ++ [UWithdraw id None] /\
  key ∉ bs_live f /\ bs_live f = live0.
Proof.
  intros Hwf. cbn zeta. intros Hreg.
  destruct (bs_final_loop id key live0 evs Hwf) as [Hfr _ _].
  destruct (Hfr Hreg) as (Hneg & Hrej & Hk & Hlive).
  pose proof (cleanup_shape id key live0 evs) as [Hown Hout]. cbn zeta in Hown, Hout.
  rewrite Hrej, Hneg in Hout. cbn [negb andb] in Hout.
  rewrite bs_process_unfold in *. cbn [fst] in *.
  rewrite bs_cleanup_live, Hrej, Hneg. cbn [negb andb]. rewrite Hlive.
  repeat split; [exact Hown|exact Hout|set_solver|set_solver].
Qed.

(* a connection that was rejected early (there is a session for that peer already) sends
   nothing and leaves live_sessions - the earlier session's entry included - alone *)
Theorem rejected_leaves_alone id key live0 evs :
  bs_wf evs = true ->
  let s := (bs_loop id key (bs_init live0) evs).1 in
  let f := (bs_process id key live0 evs).1 in
  bs_rej s = true -> bs_out f = [] /\ bs_live f = live0 /\ key ∈ bs_live f.
Proof.
  intros Hwf. cbn zeta. intros Hrej.
  destruct (bs_final_loop id key live0 evs Hwf) as [_ Hfu Hfj].
  destruct (Hfj Hrej) as [Hreg Hk]. destruct (Hfu Hreg) as [Hlive Hout].
  rewrite bs_process_unfold. cbn [fst].
  rewrite bs_cleanup_out, bs_cleanup_live, Hrej, Hout, Hlive. cbn [negb andb app]. auto.
Qed.

(* live_sessions at the end, for every script of a well-behaved session: as before the
   session - unless the session ended in the window between the FSM's negotiation and the
   handling of SessionNegotiated, where the key is removed whoever owns it *)
Theorem live_at_end id key live0 evs :
  bs_wf evs = true ->
  let s := (bs_loop id key (bs_init live0) evs).1 in
  let f := (bs_process id key live0 evs).1 in
  bs_live f = if bs_window s then live0 ∖ {[key]} else live0.
Proof.
  intros Hwf. cbn zeta.
  destruct (bs_final_loop id key live0 evs Hwf) as [Hfr Hfu Hfj].
  rewrite bs_process_unfold. cbn [fst]. rewrite bs_cleanup_live. unfold bs_window.
  destruct (bs_reg _) eqn:Hreg.
  - destruct (Hfr eq_refl) as (Hneg & Hrej & Hk & Hlive). rewrite Hneg, Hrej, Hlive. cbn. set_solver.
  - destruct (Hfu eq_refl) as [Hlive _]. rewrite Hlive.
    destruct (bs_rej _), (bs_neg _); reflexivity.
Qed.

Corollary live_untouched_partial id key live0 evs :
  bs_wf evs = true ->
  bs_window (bs_loop id key (bs_init live0) evs).1 = false ->
  bs_live (bs_process id key live0 evs).1 = live0.
Proof. intros Hwf Hw. pose proof (live_at_end id key live0 evs Hwf) as H. cbn zeta in H. rewrite Hw in H. exact H. Qed.

(* the refutation: an earlier session of the peer is live, the new connection negotiates
   and fails before its SessionNegotiated is handled - the EARLIER session's entry is gone *)
Lemma window_removes_other_entry :
  bs_wf bs_window_witness = true /\
  bs_reg (bs_process 7 5 {[5%N; 6%N]} bs_window_witness).1 = false /\
  bs_live (bs_process 7 5 {[5%N; 6%N]} bs_window_witness).1 = {[6%N]} /\
  bs_out (bs_process 7 5 {[5%N; 6%N]} bs_window_witness).1 = [UWithdraw 7 None].
Proof.
  repeat split; try reflexivity.
  rewrite bs_process_unfold. cbn [fst]. rewrite bs_cleanup_live. cbn. set_solver.
Qed.

(* model and the property's reading differ exactly in that class *)
Theorem spec_agrees id key live0 evs :
  bs_known_window id key live0 evs = false ->
  bs_live (bs_process_spec id key live0 evs).1 = bs_live (bs_process id key live0 evs).1 /\
  bs_out (bs_process_spec id key live0 evs).1 = bs_out (bs_process id key live0 evs).1 /\
  bs_cmds (bs_process_spec id key live0 evs).1 = bs_cmds (bs_process id key live0 evs).1 /\
  (bs_process_spec id key live0 evs).2 = (bs_process id key live0 evs).2.
Proof.
  unfold bs_process_spec, bs_known_window. intros Hk.
  destruct (bs_wf evs) eqn:Hwf; [|auto].
  destruct (bs_final_loop id key live0 evs Hwf) as [Hfr Hfu Hfj].
  rewrite bs_process_unfold.
  destruct (bs_loop id key (bs_init live0) evs) as [s rest] eqn:Hl. cbn [fst snd] in *.
  unfold bs_cleanup_spec. cbn [bs_live bs_out bs_cmds]. repeat split.
  rewrite bs_cleanup_live. unfold bs_window in Hk.
  destruct (bs_reg s) eqn:Hreg.
  - destruct (Hfr eq_refl) as (Hneg & Hrej & _). rewrite Hneg, Hrej. reflexivity.
  - destruct (Hfu eq_refl) as [Hlive _]. rewrite Hlive in *.
    destruct (bs_rej s), (bs_neg s); cbn [negb andb] in *; try reflexivity.
    apply bool_decide_eq_false in Hk. set_solver.
Qed.

(* ================================================================== *)
(* C02-style: the routes of the session are withdrawn, and nothing else *)

Lemma own_bulk_frame id u r k :
  bs_own_bulk id u = true -> k_mui k <> id -> rib_lookup (rib_apply r u) k = rib_lookup r k.
Proof.
  destruct u as [ps| | |]; cbn [bs_own_bulk]; try discriminate. intros Hown Hk.
  cbn [rib_apply]. revert r. induction ps as [|p ps IH]; intros r; cbn [fold_left]; [reflexivity|].
  cbn [forallb] in Hown. apply andb_true_iff in Hown as [Hp Hps]. apply bool_decide_eq_true in Hp.
  rewrite (IH Hps). apply insert_payload_frame. intros ->. contradiction.
Qed.

Lemma own_trace_frame id us : forall r k,
  own_trace id us -> k_mui k <> id -> rib_lookup (bs_rib_after r us) k = rib_lookup r k.
Proof.
  unfold bs_rib_after. induction us as [|u us IH]; intros r k Hown Hk; cbn [fold_left]; [reflexivity|].
  inversion Hown as [|? ? Hu Hus]; subst. rewrite (IH (rib_apply r u) k Hus Hk). apply (own_bulk_frame id); assumption.
Qed.

(* nothing else: whatever the script and however the session ends, every RIB entry of
   every OTHER ingress id reads after the session's whole trace as it read before *)
Theorem session_touches_only_own id key live0 evs r0 k :
  k_mui k <> id ->
  rib_lookup (bs_rib_after r0 (bs_out (bs_process id key live0 evs).1)) k = rib_lookup r0 k.
Proof.
  intros Hk. pose proof (cleanup_shape id key live0 evs) as [Hown Hout]. cbn zeta in Hown, Hout.
  rewrite Hout. unfold bs_rib_after. rewrite fold_left_app.
  fold (bs_rib_after r0 (bs_out (bs_loop id key (bs_init live0) evs).1)).
  destruct (negb _ && _); cbn [fold_left rib_apply].
  - rewrite withdraw_mui_frame.
    replace (down_hits id None k) with false.
    + apply (own_trace_frame id); assumption.
    + symmetry. unfold down_hits. rewrite bool_decide_false by exact Hk. reflexivity.
  - apply (own_trace_frame id); assumption.
Qed.

(* exactly that session's routes: after the trace of a registered session, whatever ended
   it, every entry under its ingress id is what its updates made of it, withdrawn *)
Theorem session_end_withdraws_own id key live0 evs r0 k :
  bs_wf evs = true -> bs_reg (bs_loop id key (bs_init live0) evs).1 = true ->
  k_mui k = id -> (k_fam k < 4)%N ->
  rib_lookup (bs_rib_after r0 (bs_out (bs_process id key live0 evs).1)) k =
  match rib_lookup (bs_rib_after r0 (bs_out (bs_loop id key (bs_init live0) evs).1)) k with
  | Some (_, a) => Some (false, a) | None => None end.
Proof.
  intros Hwf Hreg Hk Hf.
  destruct (cleanup_once id key live0 evs Hwf Hreg) as (_ & Hout & _).
  rewrite Hout. unfold bs_rib_after. rewrite fold_left_app. cbn [fold_left rib_apply].
  rewrite withdraw_mui_frame.
  replace (down_hits id None k) with true; [reflexivity|].
  symmetry. unfold down_hits. rewrite bool_decide_true by exact Hk. rewrite bool_decide_true by exact Hf. reflexivity.
Qed.

Corollary session_end_none_active id key live0 evs r0 k a :
  bs_wf evs = true -> bs_reg (bs_loop id key (bs_init live0) evs).1 = true ->
  k_mui k = id -> (k_fam k < 4)%N ->
  rib_lookup (bs_rib_after r0 (bs_out (bs_process id key live0 evs).1)) k <> Some (true, a).
Proof.
  intros Hwf Hreg Hk Hf. rewrite (session_end_withdraws_own id key live0 evs r0 k Hwf Hreg Hk Hf).
  destruct (rib_lookup _ k) as [[? ?]|]; discriminate.
Qed.

(* ---- the exits, one by one: a registered session that announced a route, ended by each
   of the ways the loop can be left (non-vacuity of the theorems above, and the list the
   engine's corpus follows) ---- *)
Local Open Scope N_scope.
Definition bs_exits : list (list bs_ev) :=
  [ [BMsgLost false]; [BMsgLost true]; [BClosed]; []; [BTickErr 0]; [BTickErr 1]; [BTickErr 2];
    [BReconf BRUnit]; [BReconf BRGone]; [BTerminate; BMsgLost false]; [BReconf BRPeer; BTickErr 0] ].

Lemma every_exit_cleans_up :
  Forall (fun ex =>
    let evs := [BNegotiate; BMsgNegotiated; BMsgUpdate (Some (URoutes 0 [1; 2] 3 0 []))] ++ ex in
    bs_wf evs = true /\
    bs_reg (bs_loop 7 5 (bs_init {[6]}) evs).1 = true /\
    bs_out (bs_process 7 5 {[6]} evs).1 =
      [UBulk [MkPay (0, 1, 7) true 3; MkPay (0, 2, 7) true 3]; UWithdraw 7 None]) bs_exits.
Proof. repeat constructor. Qed.

(* ================================================================== *)
(* C13-style: a reconfiguration of the unit that concerns neither its main settings
   nor this peer is no event for the session                                        *)

(* one such reconfiguration: no command to the session, nothing sent, live_sessions
   untouched, the loop goes on - the state is what it was *)
Theorem reconf_spares_session id key s e : bs_spared e = true -> bs_step id key s e = (s, true).
Proof. destruct e as [| | | | | | | | |r]; try discriminate. destruct r; try discriminate; reflexivity. Qed.

(* ... and exactly those: every other reconfiguration tells the session to disconnect *)
Theorem reconf_not_spared_disconnects id key s r :
  bs_spared (BReconf r) = false ->
  exists c go, bs_step id key s (BReconf r) = (bs_command s c, go) /\ (c = BCReconfiguration \/ c = BCDeconfigured).
Proof.
  destruct r; try discriminate; intros _; cbn [bs_step]; do 2 eexists; (split; [reflexivity|]); auto.
Qed.

Lemma bs_loop_drop_spared id key evs : forall s,
  (bs_loop id key s evs).1 = (bs_loop id key s (List.filter (fun e => negb (bs_spared e)) evs)).1.
Proof.
  induction evs as [|e evs IH]; intros s; [reflexivity|].
  destruct (bs_spared e) eqn:He.
  - cbn [List.filter]. rewrite He. cbn [negb]. cbn [bs_loop].
    rewrite (reconf_spares_session id key s e He). apply IH.
  - cbn [List.filter]. rewrite He. cbn [negb bs_loop].
    destruct (bs_step id key s e) as [s' go]. destruct go; [apply IH|reflexivity].
Qed.

Lemma bs_process_fst id key live0 evs :
  (bs_process id key live0 evs).1 = bs_cleanup id key (bs_loop id key (bs_init live0) evs).1.
Proof. unfold bs_process. destruct (bs_loop id key (bs_init live0) evs) as [s rest]. reflexivity. Qed.

(* whatever the script: taking the spared reconfigurations out of it changes nothing of what
   the session does - the updates it sends, live_sessions, the commands, the final withdrawal *)
Theorem spared_reconfs_invisible id key live0 evs :
  (bs_process id key live0 evs).1 =
  (bs_process id key live0 (List.filter (fun e => negb (bs_spared e)) evs)).1.
Proof. rewrite !bs_process_fst. f_equal. apply bs_loop_drop_spared. Qed.

(* non-vacuity: an established session that announced a route sees another peer's entry change, twice, and an
   unchanged reload; it goes on taking routes and ends with the connection, having been told nothing *)
Lemma spared_example :
  let evs := [BNegotiate; BMsgNegotiated; BMsgUpdate (Some (URoutes 0 [1] 3 0 [])); BReconf BROthers; BReconf BRSame;
              BMsgUpdate (Some (URoutes 0 [2] 4 0 [])); BReconf BROthers; BMsgLost false] in
  bs_out (bs_process 7 5 {[6]} evs).1 =
    [UBulk [MkPay (0, 1, 7) true 3]; UBulk [MkPay (0, 2, 7) true 4]; UWithdraw 7 None] /\
  bs_cmds (bs_process 7 5 {[6]} evs).1 = [] /\ (bs_process 7 5 {[6]} evs).2 = [].
Proof. repeat split; reflexivity. Qed.

(* ==== C15: the unit's own counters on the session loop (bm_step / bsm_loop / bsm_process) ==== *)

(* the loop with counters is the loop: same state, same events left over *)
Lemma bsm_loop_refines id key evs : forall s m,
  (bsm_loop id key s m evs).1.1 = (bs_loop id key s evs).1 /\ (bsm_loop id key s m evs).2 = (bs_loop id key s evs).2.
Proof.
  induction evs as [|e evs IH]; intros s m; cbn [bsm_loop bs_loop]; [split; reflexivity|].
  destruct (bs_step id key s e) as [s' go]. destruct go; [apply IH|split; reflexivity].
Qed.

Lemma bsm_process_refines id key live0 m0 evs :
  ((bsm_process id key live0 m0 evs).1.1, (bsm_process id key live0 m0 evs).2) = bs_process id key live0 evs.
Proof.
  unfold bsm_process, bs_process.
  pose proof (bsm_loop_refines id key evs (bs_init live0) m0) as [H1 H2].
  destruct (bsm_loop id key (bs_init live0) m0 evs) as [[s m] rest].
  destruct (bs_loop id key (bs_init live0) evs) as [s2 rest2]. cbn [fst snd] in *. subst. reflexivity.
Qed.

(* the counters after the loop = the status reporter calls of the events the loop handled *)
Lemma bsm_loop_taken id key evs : forall s m,
  (bsm_loop id key s m evs).1.2 = fold_left bm_step (bs_taken id key s evs) m.
Proof.
  induction evs as [|e evs IH]; intros s m; cbn [bsm_loop bs_taken]; [reflexivity|].
  destruct (bs_step id key s e) as [s' go]. destruct go; cbn [fold_left fst snd]; [apply IH|reflexivity].
Qed.

(* the handled events are the script without what the loop did not get to *)
Lemma bs_taken_prefix id key evs : forall s,
  bs_taken id key s evs ++ (bs_loop id key s evs).2 = evs.
Proof.
  induction evs as [|e evs IH]; intros s; cbn [bs_taken bs_loop]; [reflexivity|].
  destruct (bs_step id key s e) as [s' go]. destruct go; cbn [snd app]; [f_equal; apply IH|reflexivity].
Qed.

Lemma bs_count_cons f e evs : bs_count f (e :: evs) = ((if f e then 1 else 0) + bs_count f evs)%N.
Proof. unfold bs_count. cbn [List.filter]. destruct (f e); cbn [length]; lia. Qed.

Lemma bm_fold_counts evs : forall m,
  bm_lost (fold_left bm_step evs m) = (bm_lost m + bs_count bs_is_lost evs)%N /\
  bm_disc (fold_left bm_step evs m) = (bm_disc m + bs_count bs_is_disc evs)%N.
Proof.
  induction evs as [|e evs IH]; intros m; cbn [fold_left].
  - unfold bs_count; cbn; split; lia.
  - destruct (IH (bm_step m e)) as [Hl Hd]. rewrite Hl, Hd, !bs_count_cons.
    destruct e as [| |k| |u| |b| | |[]]; cbn [bm_step bm_lost bm_disc bs_is_lost bs_is_disc]; split; lia.
Qed.

(* every counter equals the number of matching events among those the loop handled, whatever
   the script and whatever the counters were when the session started *)
Theorem bgp_counters_count id key live0 m0 evs :
  let taken := bs_taken id key (bs_init live0) evs in
  let m := (bsm_process id key live0 m0 evs).1.2 in
  bm_lost m = (bm_lost m0 + bs_count bs_is_lost taken)%N /\
  bm_disc m = (bm_disc m0 + bs_count bs_is_disc taken)%N.
Proof.
  cbn zeta. unfold bsm_process.
  pose proof (bsm_loop_taken id key evs (bs_init live0) m0) as Ht.
  destruct (bsm_loop id key (bs_init live0) m0 evs) as [[s m] rest]. cbn [fst snd] in *. subst m.
  apply bm_fold_counts.
Qed.

(* a ConnectionLost - with or without a socket address - always ends the loop: it is the last
   event the loop handles, and no handled script holds two *)
Lemma bs_taken_loss_last id key evs : forall s,
  bs_count bs_is_lost (bs_taken id key s evs) =
  match last (bs_taken id key s evs) with Some e => if bs_is_lost e then 1%N else 0%N | None => 0%N end.
Proof.
  induction evs as [|e evs IH]; intros s; cbn [bs_taken]; [reflexivity|].
  destruct (bs_step id key s e) as [s' go] eqn:Hs. destruct go.
  - rewrite bs_count_cons.
    assert (He : bs_is_lost e = false).
    { destruct e as [| |k| |u| |b| | |[]]; try reflexivity. cbn [bs_step] in Hs. discriminate. }
    rewrite He, IH. rewrite last_cons.
    destruct (last (bs_taken id key s' evs)) as [e'|]; [lia|]. rewrite He. reflexivity.
  - rewrite bs_count_cons. unfold bs_count at 1. cbn [List.filter length last].
    change (last [e]) with (Some e). destruct (bs_is_lost e); reflexivity.
Qed.

Theorem bgp_lost_count_counts_every_loss id key live0 m0 evs :
  bm_lost (bsm_process id key live0 m0 evs).1.2 =
  (bm_lost m0 + if bs_ended_by_loss id key live0 evs then 1 else 0)%N.
Proof.
  destruct (bgp_counters_count id key live0 m0 evs) as [Hl _]. cbn zeta in Hl. rewrite Hl.
  rewrite bs_taken_loss_last. unfold bs_ended_by_loss.
  destruct (last (bs_taken id key (bs_init live0) evs)) as [e|]; [destruct (bs_is_lost e)|]; reflexivity.
Qed.

(* the unit's counter over the sessions it serves = the number of sessions that ended by a
   lost connection; accepted - lost can only be right if this holds *)
Theorem bgp_unit_lost_counts_sessions id key sessions : forall m,
  bm_lost (bsm_unit id key m sessions) =
  (bm_lost m + N.of_nat (length (List.filter (fun x => bs_ended_by_loss id key x.1 x.2) sessions)))%N.
Proof.
  induction sessions as [|[live0 evs] rest IH]; intros m; cbn [bsm_unit List.filter fst snd].
  - cbn. lia.
  - rewrite IH, bgp_lost_count_counts_every_loss.
    destruct (bs_ended_by_loss id key live0 evs); cbn [length]; lia.
Qed.

Theorem bgp_counters_monotone id key live0 m0 evs :
  (bm_lost m0 <= bm_lost (bsm_process id key live0 m0 evs).1.2)%N /\
  (bm_disc m0 <= bm_disc (bsm_process id key live0 m0 evs).1.2)%N.
Proof. destruct (bgp_counters_count id key live0 m0 evs) as [Hl Hd]. cbn zeta in *. rewrite Hl, Hd. split; lia. Qed.

(* the seeded variant: an established session whose writer task notices the dead peer first *)
Definition bgp_lost_witness : list bs_ev := [BNegotiate; BMsgNegotiated; BMsgLost false].
Theorem bgp_lost_early_return_refuted :
  bs_ended_by_loss 7 5 ∅ bgp_lost_witness = true /\
  bm_lost (bsm_loop_with bm_step_early_return 7 5 (bs_init ∅) (MkMet 0 0) bgp_lost_witness) = 0%N /\
  bm_lost (bsm_process 7 5 ∅ (MkMet 0 0) bgp_lost_witness).1.2 = 1%N.
Proof. repeat split; vm_compute; reflexivity. Qed.

Lemma bgp_counters_example :
  let evs := [BNegotiate; BMsgNegotiated; BTerminate; BTick; BReconf BRPeer; BMsgLost false; BMsgLost true] in
  (bsm_process 7 5 {[6]} (MkMet 3 1) evs).1.2 = MkMet 4 2 /\ (bsm_process 7 5 {[6]} (MkMet 3 1) evs).2 = [BMsgLost true] /\
  bsm_unit 7 5 (MkMet 0 0) [(∅, evs); (∅, [BNegotiate; BTickErr 0]); (∅, [BReconf BRGone]); (∅, [BMsgLost true])] = MkMet 2 2.
Proof. repeat split; vm_compute; reflexivity. Qed.
