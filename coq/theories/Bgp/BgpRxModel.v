(* C06, BGP receiver: the octets of a BGP connection, from the socket to the gate.

   `handle_connection` (src/units/bgp_tcp_in/router_handler.rs) hands the read half of the
   TCP stream to routecore's `Session` and runs `Processor::process`: a `select!` loop over
   `session.tick()`, the session's message channel and the gate (BgpSessionModel.v), then the
   block after the loop. This file adds what lies between the octets and that loop:

   - the framing, as routecore's `Connection::read_frame` / `parse_frame` do it
     (routecore-0.5.1 src/bgp/fsm/session.rs 1894-1930): 18 octets of header, the 16-bit
     length at offset 16, `remaining >= len - 18` computed in `usize` (a length field below 18
     wraps around when the dependency is built without overflow checks, as a release build
     does: the frame is never complete), the first `len` octets are the frame;
   - routecore's parser and finite state machine as ONE FUNCTION ARGUMENT `handle`: what a
     call of `tick()` that got a complete frame does, as far as rotonda can tell - it returns
     Ok (and may have stored the negotiated configuration, may have pushed messages on the
     session channel), it returns Ok having let go of the connection (`disconnect()`: FSM
     error), it returns Err (the parser refuses the frame, `handle_msg` fails), or it panics
     (`todo!()`, `unwrap()` inside routecore);
   - how the stream ends: FIN, RST, or a peer that stays connected and silent;
   - the order in which the `select!` loop sees ticks and queued messages: every
     interleaving that respects the channel (a relation), and the drained one (a function);
   - rotonda's own part: the arms of the loop (BgpSessionModel.bs_step), `process_update` on
     the octets of an UPDATE the session handed over (Pipe/PipeRaw.raw_upd: C04's decoder),
     the `unimplemented!()` of the `Message::Attributes` arm as an explicit panic site, the
     block after the loop (bs_cleanup), and - `fixed` - the repair: after a tick that left the
     session without a connection the channel is closed, so that the loop ends when it has
     handled what was queued (before the repair it waited for ever).

   No gate event (Terminate, Reconfiguring) happens during a run: those exits are covered by
   the scripts of BgpSessionModel.v. Timers do not fire. Definitions only; proofs in
   BgpRxProofs.v. *)
From stdpp Require Import gmap.
From Coq Require Import NArith.
From RV Require Import Rib.RibModel Bmp.BmpModel Bgp.BgpSessionModel Pipe.PipeRaw.
From RV Require Bgp.BgpModel.

(* ------------------------------------------------------------------ framing *)
Definition be16 (hi lo : N) : N := (hi * 256 + lo)%N.

Inductive rx_cut :=
| RcFrame (f rest : list N)      (* a complete frame and what is behind it *)
| RcMore.                        (* parse_frame = Ok(None): read more *)

Definition rx_frame (buf : list N) : rx_cut :=
  match drop 16 buf with
  | hi :: lo :: _ =>
      let len := be16 hi lo in
      if (len <? 18)%N then RcMore                              (* (len as usize) - 18 wraps: never enough octets *)
      else if (N.of_nat (length buf) <? len)%N then RcMore
      else RcFrame (take (N.to_nat len) buf) (drop (N.to_nat len) buf)
  | _ => RcMore
  end.

(* how the peer ends the stream, as the read half sees it *)
Inductive rx_end :=
| EFin       (* read_buf = Ok(0) *)
| ERst       (* read_buf = Err *)
| ESilent.   (* read_buf stays pending: connected, nothing more comes *)

(* ------------------------------------------------------------------ routecore's Session: an argument *)
(* what the session pushes on its channel (routecore Message) *)
Inductive rx_msg :=
| RmNegotiated
| RmUpdate (frame : list N)      (* the octets of the UPDATE that Message::from_octets accepted *)
| RmNotification
| RmLost (sock : bool)
| RmAttributes.                  (* Message::Attributes: never constructed by routecore 0.5.1 *)

Inductive rx_hres (St : Type) :=
| HOk (s : St) (neg : bool) (out : list rx_msg)     (* tick() = Ok(()); neg: the negotiated configuration was stored in this call *)
| HDrop (s : St) (neg : bool) (out : list rx_msg)   (* tick() = Ok(()), and the FSM let go of the connection *)
| HErr (kind : N)                                  (* tick() = Err(_) *)
| HPanic.                                          (* a panic inside routecore *)
Arguments HOk {St}. Arguments HDrop {St}. Arguments HErr {St}. Arguments HPanic {St}.

(* one call of tick() as the loop sees it *)
Inductive rx_tick :=
| TkEv (e : bs_ev) (out : list rx_msg)    (* it returned: the loop sees e (BTick, BNegotiate, BTickErr); out was queued during the call *)
| TkDie.                                  (* it panicked: the connection task is gone *)

(* the state the session is in when it has no more ticks to offer *)
Inductive rx_tail :=
| TlErr        (* the last tick was an Err *)
| TlLost       (* end of stream on a frame boundary: ConnectionLost is queued, the connection is gone *)
| TlDropped    (* the FSM let go of the connection: nothing is queued about it *)
| TlSilent     (* connected, waiting for the peer *)
| TlDead.      (* routecore panicked *)

Definition tick_ev (neg : bool) : bs_ev := if neg then BNegotiate else BTick.

(* the ticks of a connection whose unread octets are buf. One unit of fuel per frame; a frame
   has at least 18 octets, so the length of the stream is always enough (rx_ticks_of). *)
Fixpoint rx_ticks {St : Type} (handle : St -> list N -> rx_hres St) (fuel : nat) (s : St) (buf : list N) (e : rx_end)
  : list rx_tick * rx_tail :=
  match fuel with
  | O => ([], TlSilent)
  | S fuel' =>
      match rx_frame buf with
      | RcFrame f rest =>
          match handle s f with
          | HOk s' neg out => let '(ts, tl) := rx_ticks handle fuel' s' rest e in (TkEv (tick_ev neg) out :: ts, tl)
          | HDrop s' neg out => ([TkEv (tick_ev neg) out], TlDropped)
          | HErr k => ([TkEv (BTickErr k) []], TlErr)
          | HPanic => ([TkDie], TlDead)
          end
      | RcMore =>
          match e with
          | EFin => match buf with
                    | [] => ([TkEv BTick [RmLost true]], TlLost)       (* Ok(None): ConnectionLost(Some(addr)), connection = None *)
                    | _ => ([TkEv (BTickErr 0) []], TlErr)             (* "connection reset by peer" *)
                    end
          | ERst => ([TkEv (BTickErr 0) []], TlErr)
          | ESilent => ([], TlSilent)
          end
      end
  end.

Definition rx_ticks_of {St : Type} (handle : St -> list N -> rx_hres St) (s : St) (buf : list N) (e : rx_end) :=
  rx_ticks handle (S (length buf)) s buf e.

(* ------------------------------------------------------------------ the loop *)
(* what one iteration of the select! loop gets *)
Inductive rx_ev :=
| XEv (e : bs_ev)     (* an event of BgpSessionModel *)
| XAttr               (* Message::Attributes: `unimplemented!()` *)
| XDie.               (* tick() panicked inside routecore *)

Definition ev_of_msg (m : rx_msg) : rx_ev :=
  match m with
  | RmNegotiated => XEv BMsgNegotiated
  | RmUpdate f => XEv (BMsgUpdate (raw_upd f))      (* process_update: explode_withdrawals / explode_announcements *)
  | RmNotification => XEv BMsgNotification
  | RmLost b => XEv (BMsgLost b)
  | RmAttributes => XAttr
  end.

Definition ev_of_tick (t : rx_tick) : rx_ev := match t with TkEv e _ => XEv e | TkDie => XDie end.
Definition out_of_tick (t : rx_tick) : list rx_msg := match t with TkEv _ out => out | TkDie => [] end.

(* every order in which the loop can see the ticks (in order) and the messages (first in,
   first out; a message is there once the tick that pushed it has returned) *)
Inductive rx_sched : list rx_tick -> list rx_msg -> list rx_ev -> Prop :=
| RsEnd : rx_sched [] [] []
| RsTick t ts chan evs : rx_sched ts (chan ++ out_of_tick t) evs -> rx_sched (t :: ts) chan (ev_of_tick t :: evs)
| RsRecv m chan ts evs : rx_sched ts chan evs -> rx_sched ts (m :: chan) (ev_of_msg m :: evs).

(* the order in which the channel is emptied before the next tick *)
Fixpoint rx_drained (ts : list rx_tick) : list rx_ev :=
  match ts with
  | [] => []
  | t :: ts' => ev_of_tick t :: map ev_of_msg (out_of_tick t) ++ rx_drained ts'
  end.

Inductive rx_outcome :=
| RxEnded (st : bs_st) (rest : list rx_ev)   (* the loop was left; st is the state after the block behind it *)
| RxOpen (st : bs_st)                        (* the events ran out inside the loop *)
| RxPanicOwn                                 (* unimplemented!() *)
| RxDead (st : bs_st).                       (* the task died inside routecore; st is what it left behind *)

Fixpoint rx_loop (id key : N) (s : bs_st) (evs : list rx_ev) : rx_outcome :=
  match evs with
  | [] => RxOpen s
  | XDie :: _ => RxDead s
  | XAttr :: _ => RxPanicOwn
  | XEv e :: rest =>
      let '(s', go) := bs_step id key s e in
      if go then rx_loop id key s' rest else RxEnded (bs_cleanup id key s') rest
  end.

Inductive rx_result :=
| REnded (st : bs_st)      (* handle_connection returned *)
| RWaiting (st : bs_st)    (* connected, the peer is silent: the loop waits for it *)
| RWedged (st : bs_st)     (* the loop waits for ever for a session that has no connection *)
| RPanicOwn                (* a panic in rotonda's own code *)
| RDead (st : bs_st)       (* the connection task died inside routecore *)
| RImpossible.             (* the events ran out although the session still owed the loop its end *)

(* fixed = true: the code with the repair (`rx_sess.close()` after a tick that left the session
   without a connection: recv() answers None once the queue is empty, `None => break`) *)
Definition rx_finish (fixed : bool) (id key : N) (tl : rx_tail) (o : rx_outcome) : rx_result :=
  match o with
  | RxEnded st _ => REnded st
  | RxPanicOwn => RPanicOwn
  | RxDead st => RDead st
  | RxOpen st =>
      match tl with
      | TlSilent => RWaiting st
      | TlDropped => if fixed then REnded (bs_cleanup id key st) else RWedged st
      | TlErr | TlLost | TlDead => RImpossible
      end
  end.

Definition rx_run {St : Type} (fixed : bool) (handle : St -> list N -> rx_hres St) (s0 : St) (id key : N) (live0 : gset N)
  (buf : list N) (e : rx_end) (evs : list rx_ev) : rx_result :=
  rx_finish fixed id key (rx_ticks_of handle s0 buf e).2 (rx_loop id key (bs_init live0) evs).

Definition rx_run_drained {St : Type} (fixed : bool) (handle : St -> list N -> rx_hres St) (s0 : St) (id key : N) (live0 : gset N)
  (buf : list N) (e : rx_end) : rx_result :=
  rx_run fixed handle s0 id key live0 buf e (rx_drained (rx_ticks_of handle s0 buf e).1).

(* the bs_ev events of a script, up to the first thing that is not one *)
Fixpoint rx_plain (evs : list rx_ev) : list bs_ev :=
  match evs with XEv e :: r => e :: rx_plain r | _ => [] end.

(* hypotheses on the argument *)
Definition sends_no_attributes {St : Type} (handle : St -> list N -> rx_hres St) : Prop :=
  forall s f, match handle s f with HOk _ _ out | HDrop _ _ out => RmAttributes ∉ out | _ => True end.
Definition never_panics {St : Type} (handle : St -> list N -> rx_hres St) : Prop := forall s f, handle s f <> HPanic.

(* the state of a result, where there is one *)
Definition rx_state (r : rx_result) : option bs_st :=
  match r with REnded st | RWaiting st | RWedged st | RDead st => Some st | _ => None end.

(* ------------------------------------------------------------------ routecore 0.5.1, as read and observed *)
(* A reference instance of the argument for the frame classes the engine generates in full
   mode. It is NOT used by any theorem about all FSMs; it is the witness of the refutations and
   what the oracle runs; the engine compares it with the real FSM on every full-mode case.
   States: waiting for the peer's OPEN (Active with DelayOpen, or OpenSent), OpenConfirm,
   Established, Idle with the connection still attached (Active gives up without dropping it).
   open_ok / upd_ok: Message::from_octets accepts this OPEN / UPDATE (the oracle answers upd_ok
   with C04's decoder, open_ok with the generator's own OPEN). *)
Inductive rc_state := RcWait | RcOpenConfirm | RcEstablished | RcIdle.

Definition rc_ref (delay_open : bool) (open_ok upd_ok : list N -> bool) (s : rc_state) (f : list N) : rx_hres rc_state :=
  let ty := nth 18 f 0%N in
  let n := length f in
  if (n <? 19)%nat then HErr 0                                       (* no room for the type octet *)
  else if (ty =? 1)%N then
    if open_ok f then
      match s with
      | RcWait => HOk RcOpenConfirm true [RmNegotiated]
      | RcIdle => HOk RcIdle false []                                (* "non-event in state Idle" *)
      | RcOpenConfirm | RcEstablished => HPanic                      (* todo!() session.rs 1504 / 1679 *)
      end
    else HErr 0
  else if (ty =? 4)%N then
    if (n =? 19)%nat then
      match s with
      | RcOpenConfirm => HOk RcEstablished false []
      | RcEstablished => HOk RcEstablished false []
      | RcIdle => HOk RcIdle false []
      | RcWait => if delay_open then HOk RcIdle false [] else HDrop RcIdle false []
      end
    else HErr 0
  else if (ty =? 2)%N then
    if upd_ok f then
      match s with
      | RcEstablished => HOk RcEstablished false [RmUpdate f]
      | RcOpenConfirm => HDrop RcIdle false [RmUpdate f]             (* FSM error: disconnect(), and the UPDATE is still handed over *)
      | RcIdle => HOk RcIdle false [RmUpdate f]
      | RcWait => if delay_open then HOk RcIdle false [RmUpdate f] else HDrop RcIdle false [RmUpdate f]
      end
    else HErr 0
  else if (ty =? 3)%N then HOk s false [RmNotification]                (* any length: handed over; the FSM is not told *)
  else HErr 0.                                                        (* ROUTE-REFRESH and unknown types: ParseError::Unsupported *)

(* witnesses *)
Definition rx_hdr (len ty : N) : list N := repeat 255%N 16 ++ [len / 256; len mod 256; ty]%N.
Definition rx_keepalive : list N := rx_hdr 19 4.
Definition rx_open_min : list N := rx_hdr 29 1 ++ [4; 253; 233; 0; 90; 10; 0; 0; 9; 0]%N.
Definition rx_update_empty : list N := rx_hdr 23 2 ++ [0; 0; 0; 0]%N.
Definition rc_any (f : list N) : bool := true.
(* an FSM that hands over Message::Attributes on its first frame *)
Definition attr_fsm (s : unit) (f : list N) : rx_hres unit := HOk tt false [RmAttributes].
