(* C04 - an independent decoder for the BGP UPDATE PDU (RFC 4271 section 4.3,
   RFC 4760 MP_REACH_NLRI / MP_UNREACH_NLRI) and the route events it yields.
   Definitions only; proofs are in BgpProofs.v.

   This is NOT a model of routecore's parser: it is a second decoder written
   from the RFCs. It is tied to rotonda (UpdateMessage::from_octets +
   roto_runtime::types::explode_announcements / explode_withdrawals) by the
   correspondence engine c04.

   The decoder has two modes:
     Rfc  - what the RFCs say: trailing bits of a prefix are irrelevant
            (RFC 4271 4.3: masked), a second MP_REACH / MP_UNREACH is an error
            (RFC 7606 3.g);
     Code - the two places where the implementation is known to differ:
            non-zero trailing bits are rejected (inetnum Prefix::new), only the
            first MP_REACH / MP_UNREACH attribute is looked at.
   On canonical PDUs (trailing bits zero, MP attributes unique) - the domain of
   the theorems - both modes coincide. *)
From Coq Require Import List NArith Bool.
Import ListNotations.
Local Open Scope N_scope.

(* ---------- bytes ---------- *)
Definition byte_ok (b : N) : bool := b <? 256.
Definition bytes_ok (l : list N) : bool := forallb byte_ok l.
Definition lenN {A} (l : list A) : N := N.of_nat (length l).

Definition enc_u16 (n : N) : list N := [n / 256; n mod 256].
Definition u16 (hi lo : N) : N := hi * 256 + lo.

(* cut the first n bytes off; None when there are fewer *)
Definition take_n (n : N) (b : list N) : option (list N * list N) :=
  let k := N.to_nat n in
  if Nat.leb k (length b) then Some (firstn k b, skipn k b) else None.

(* ---------- address families rotonda turns into routes ---------- *)
Inductive fam := F4U | F4M | F6U | F6M.

Definition fam_afi (f : fam) : N := match f with F4U | F4M => 1 | F6U | F6M => 2 end.
Definition fam_safi (f : fam) : N := match f with F4U | F6U => 1 | F4M | F6M => 2 end.
Definition fam_maxlen (f : fam) : N := match f with F4U | F4M => 32 | F6U | F6M => 128 end.
Definition fam_of (afi safi : N) : option fam :=
  match afi, safi with
  | 1, 1 => Some F4U | 1, 2 => Some F4M | 2, 1 => Some F6U | 2, 2 => Some F6M
  | _, _ => None
  end.

(* ---------- prefixes in wire form ---------- *)
Record pfx := MkPfx { p_len : N; p_bytes : list N }.

Definition nbytes (len : N) : N := (len + 7) / 8.
(* 2^(number of trailing bits in the last byte); 1 when the length is a multiple of 8 *)
Definition tail_mod (len : N) : N := 2 ^ ((8 - len mod 8) mod 8).
Definition mask_byte (len b : N) : N := b - b mod tail_mod len.
Fixpoint mask_last (len : N) (bs : list N) : list N :=
  match bs with
  | [] => []
  | [b] => [mask_byte len b]
  | b :: r => b :: mask_last len r
  end.
Definition trailing_ok (len : N) (bs : list N) : bool := last bs 0 mod tail_mod len =? 0.

Definition pfx_wf (maxlen : N) (p : pfx) : bool :=
  (p_len p <=? maxlen) && (lenN (p_bytes p) =? nbytes (p_len p))
  && bytes_ok (p_bytes p) && trailing_ok (p_len p) (p_bytes p).

Definition enc_pfx (p : pfx) : list N := p_len p :: p_bytes p.
Definition enc_pfxs (ps : list pfx) : list N := flat_map enc_pfx ps.

Inductive mode := Rfc | Code.
Definition strict (m : mode) : bool := match m with Code => true | Rfc => false end.

(* a region holding nothing but prefixes; fuel = number of bytes is enough *)
Fixpoint dec_pfxs (m : mode) (maxlen : N) (fuel : nat) (b : list N) : option (list pfx) :=
  match b with
  | [] => Some []
  | len :: rest =>
      match fuel with
      | O => None
      | S fuel' =>
          if len <=? maxlen then
            match take_n (nbytes len) rest with
            | Some (bs, rest') =>
                if strict m && negb (trailing_ok len bs) then None
                else match dec_pfxs m maxlen fuel' rest' with
                     | Some ps => Some (MkPfx len (mask_last len bs) :: ps)
                     | None => None
                     end
            | None => None
            end
          else None
      end
  end.

(* ---------- path attributes ---------- *)
(* NLRI part of an MP attribute: prefixes for the four supported families,
   opaque bytes for every other AFI/SAFI *)
Inductive mpnlri :=
| MpPfx (f : fam) (ps : list pfx)
| MpOther (afi safi : N) (raw : list N).

Inductive attr :=
| AGen (fl ty : N) (v : list N)                        (* any type but 14 / 15 *)
| AReach (fl : N) (nh : list N) (rsv : N) (n : mpnlri)  (* type 14 *)
| AUnreach (fl : N) (n : mpnlri).                       (* type 15 *)

Definition a_flags (a : attr) : N :=
  match a with AGen fl _ _ => fl | AReach fl _ _ _ => fl | AUnreach fl _ => fl end.
Definition a_type (a : attr) : N :=
  match a with AGen _ ty _ => ty | AReach _ _ _ _ => 14 | AUnreach _ _ => 15 end.

Definition mp_afi (n : mpnlri) : N := match n with MpPfx f _ => fam_afi f | MpOther a _ _ => a end.
Definition mp_safi (n : mpnlri) : N := match n with MpPfx f _ => fam_safi f | MpOther _ s _ => s end.
Definition enc_mpnlri (n : mpnlri) : list N :=
  match n with MpPfx _ ps => enc_pfxs ps | MpOther _ _ raw => raw end.
Definition enc_afisafi (n : mpnlri) : list N := enc_u16 (mp_afi n) ++ [mp_safi n].

Definition a_value (a : attr) : list N :=
  match a with
  | AGen _ _ v => v
  | AReach _ nh rsv n => enc_afisafi n ++ lenN nh :: nh ++ rsv :: enc_mpnlri n
  | AUnreach _ n => enc_afisafi n ++ enc_mpnlri n
  end.

(* attribute flag 0x10: the length field has two octets *)
Definition ext_len (fl : N) : bool := N.testbit fl 4.

Definition enc_attr (a : attr) : list N :=
  let v := a_value a in
  a_flags a :: a_type a :: (if ext_len (a_flags a) then enc_u16 (lenN v) else [lenN v]) ++ v.
Definition enc_attrs (l : list attr) : list N := flat_map enc_attr l.

Definition dec_mpnlri (m : mode) (afi safi : N) (body : list N) : option mpnlri :=
  match fam_of afi safi with
  | Some f =>
      match dec_pfxs m (fam_maxlen f) (length body) body with
      | Some ps => Some (MpPfx f ps)
      | None => None
      end
  | None => Some (MpOther afi safi body)
  end.

(* [s14] / [s15]: an MP_REACH_NLRI / MP_UNREACH_NLRI has been seen earlier in this UPDATE and the
   mode is Code: the implementation only ever looks at the first one (routecore find()), later
   ones stay uninterpreted. In Rfc mode the flags are never set: every MP attribute is decoded. *)
Definition dec_attr_val (m : mode) (s14 s15 : bool) (fl ty : N) (v : list N) : option attr :=
  if (ty =? 14) && negb s14 then
    match v with
    | ah :: al :: sf :: nhl :: r =>
        match take_n nhl r with
        | Some (nh, rsv :: body) =>
            match dec_mpnlri m (u16 ah al) sf body with
            | Some n => Some (AReach fl nh rsv n)
            | None => None
            end
        | _ => None
        end
    | _ => None
    end
  else if (ty =? 15) && negb s15 then
    match v with
    | ah :: al :: sf :: body =>
        match dec_mpnlri m (u16 ah al) sf body with
        | Some n => Some (AUnreach fl n)
        | None => None
        end
    | _ => None
    end
  else if ((ty =? 14) || (ty =? 15)) && Nat.ltb (length v) 3 then None
       (* a later MP attribute stays uninterpreted, but routecore's from_octets still reads the AFI/SAFI of every one *)
  else Some (AGen fl ty v).

Definition seen (m : mode) (s : bool) (ty k : N) : bool := s || (strict m && (ty =? k)).

Fixpoint dec_attrs (m : mode) (s14 s15 : bool) (fuel : nat) (b : list N) : option (list attr) :=
  match b with
  | [] => Some []
  | fl :: ty :: rest =>
      match fuel with
      | O => None
      | S fuel' =>
          let hdr := if ext_len fl
                     then match rest with hi :: lo :: r => Some (u16 hi lo, r) | _ => None end
                     else match rest with l :: r => Some (l, r) | _ => None end in
          match hdr with
          | Some (n, r) =>
              match take_n n r with
              | Some (v, rest') =>
                  match dec_attr_val m s14 s15 fl ty v,
                        dec_attrs m (seen m s14 ty 14) (seen m s15 ty 15) fuel' rest' with
                  | Some a, Some l => Some (a :: l)
                  | _, _ => None
                  end
              | None => None
              end
          | None => None
          end
      end
  | _ => None
  end.

(* ---------- the UPDATE message ---------- *)
Record update := MkUpd { u_wd : list pfx; u_attrs : list attr; u_nlri : list pfx }.

Definition marker : list N := repeat 255 16.

Definition enc_body (u : update) : list N :=
  let w := enc_pfxs (u_wd u) in
  let a := enc_attrs (u_attrs u) in
  enc_u16 (lenN w) ++ w ++ enc_u16 (lenN a) ++ a ++ enc_pfxs (u_nlri u).

Definition encode (u : update) : list N :=
  let body := enc_body u in
  marker ++ enc_u16 (19 + lenN body) ++ 2 :: body.

(* by type code: an uninterpreted later duplicate counts as well *)
Definition is_reach (a : attr) : bool := a_type a =? 14.
Definition is_unreach (a : attr) : bool := a_type a =? 15.
Definition count_if {A} (f : A -> bool) (l : list A) : nat := length (filter f l).
(* RFC 7606 3.g: MP_REACH_NLRI / MP_UNREACH_NLRI appear at most once *)
Definition mp_unique (l : list attr) : bool :=
  Nat.leb (count_if is_reach l) 1 && Nat.leb (count_if is_unreach l) 1.

Definition list_eqb (x y : list N) : bool :=
  Nat.eqb (length x) (length y) && forallb (fun p => fst p =? snd p) (combine x y).

Definition dec_body (m : mode) (body : list N) : option update :=
  match body with
  | wh :: wl :: r1 =>
      match take_n (u16 wh wl) r1 with
      | Some (w, ah :: al :: r3) =>
          match take_n (u16 ah al) r3 with
          | Some (a, n) =>
              match dec_pfxs m 32 (length w) w, dec_attrs m false false (length a) a, dec_pfxs m 32 (length n) n with
              | Some wd, Some attrs, Some nlri =>
                  if strict m || mp_unique attrs then Some (MkUpd wd attrs nlri) else None
              | _, _, _ => None
              end
          | None => None
          end
      | _ => None
      end
  | _ => None
  end.

Definition decode (m : mode) (b : list N) : option update :=
  match take_n 16 b with
  | Some (mk, lh :: ll :: ty :: body) =>
      if list_eqb mk marker && (ty =? 2) && (u16 lh ll =? 19 + lenN body) && bytes_ok b
      then dec_body m body else None
  | _ => None
  end.

(* ---------- route events ---------- *)
Inductive ev :=
| EvA (f : fam) (p : pfx) (attrs : list attr)   (* announcement: carries the UPDATE's attributes *)
| EvW (f : fam) (p : pfx).                      (* withdrawal *)

Definition mp_routes (n : mpnlri) : list (fam * pfx) :=
  match n with MpPfx f ps => map (pair f) ps | MpOther _ _ _ => [] end.

(* executable, the way a decoder walks the PDU: the first MP attribute, then the conventional field *)
Fixpoint first_reach (l : list attr) : option mpnlri :=
  match l with [] => None | AReach _ _ _ n :: _ => Some n | _ :: r => first_reach r end.
Fixpoint first_unreach (l : list attr) : option mpnlri :=
  match l with [] => None | AUnreach _ n :: _ => Some n | _ :: r => first_unreach r end.
Definition opt_routes (o : option mpnlri) : list (fam * pfx) :=
  match o with Some n => mp_routes n | None => [] end.

Definition events (u : update) : list ev :=
  map (fun fp => EvA (fst fp) (snd fp) (u_attrs u))
      (opt_routes (first_reach (u_attrs u)) ++ map (pair F4U) (u_nlri u))
  ++ map (fun fp => EvW (fst fp) (snd fp))
      (opt_routes (first_unreach (u_attrs u)) ++ map (pair F4U) (u_wd u)).

Definition events_of_bytes (m : mode) (b : list N) : option (list ev) :=
  match decode m b with Some u => Some (events u) | None => None end.

(* declarative reading of the property: every reachable / unreachable prefix of a
   supported family that occurs anywhere in the UPDATE *)
Definition reach_of (u : update) : list (fam * pfx) :=
  flat_map (fun a => match a with AReach _ _ _ n => mp_routes n | _ => [] end) (u_attrs u)
  ++ map (pair F4U) (u_nlri u).
Definition unreach_of (u : update) : list (fam * pfx) :=
  flat_map (fun a => match a with AUnreach _ n => mp_routes n | _ => [] end) (u_attrs u)
  ++ map (pair F4U) (u_wd u).

(* ---------- well-formedness: exactly the decoder's checks ---------- *)
Definition mpnlri_wf (n : mpnlri) : bool :=
  match n with
  | MpPfx f ps => forallb (pfx_wf (fam_maxlen f)) ps
  | MpOther afi safi raw =>
      (afi <? 65536) && (safi <? 256) && bytes_ok raw
      && match fam_of afi safi with None => true | Some _ => false end
  end.

Definition attr_wf (a : attr) : bool :=
  byte_ok (a_flags a) && byte_ok (a_type a) && bytes_ok (a_value a)
  && (lenN (a_value a) <? (if ext_len (a_flags a) then 65536 else 256))
  && match a with
     | AGen _ ty _ => negb (ty =? 14) && negb (ty =? 15)
     | AReach _ nh rsv n => (lenN nh <? 256) && mpnlri_wf n
     | AUnreach _ n => mpnlri_wf n
     end.

Definition wf (u : update) : bool :=
  forallb (pfx_wf 32) (u_wd u) && forallb attr_wf (u_attrs u) && forallb (pfx_wf 32) (u_nlri u)
  && mp_unique (u_attrs u)
  && (lenN (enc_pfxs (u_wd u)) <? 65536) && (lenN (enc_attrs (u_attrs u)) <? 65536)
  && (19 + lenN (enc_body u) <? 65536).

(* the two End-of-RIB markers of RFC 4724: the empty UPDATE, and an UPDATE whose
   only content is an MP_UNREACH_NLRI without prefixes *)
Definition is_eor (u : update) : bool :=
  match u with
  | MkUpd [] [] [] => true
  | MkUpd [] [AUnreach _ (MpPfx _ [])] [] => true
  | MkUpd [] [AUnreach _ (MpOther _ _ [])] [] => true
  | _ => false
  end.

(* ---------- the End-of-RIB shortcut of the BMP dump phase ---------- *)
(* routecore's UpdateMessage::is_eor as used by bmp_tcp_in (states/dumping.rs):
   the empty UPDATE, or the (first) MP_UNREACH_NLRI yields no prefix - whatever
   else the UPDATE carries. A message so classified ends the dump phase and is
   not exploded. *)
Definition no_unreach_routes (l : list attr) : bool :=
  match first_unreach l with
  | Some n => match mp_routes n with [] => true | _ => false end
  | None => false
  end.
Definition lax_eor (u : update) : bool :=
  match u with
  | MkUpd [] [] [] => true
  | _ => no_unreach_routes (u_attrs u)
  end.
(* the guard added by the repair: the UPDATE announces or withdraws something *)
Definition carries_routes (u : update) : bool :=
  negb (match u_wd u with [] => true | _ => false end)
  || negb (match u_nlri u with [] => true | _ => false end)
  || existsb is_reach (u_attrs u).

(* ---------- named values used in the statements of Props_C04.v ---------- *)
(* MP attributes of an unsupported AFI/SAFI contribute nothing *)
Definition mp_other (a : attr) : bool :=
  match a with AReach _ _ _ (MpPfx _ _) | AUnreach _ (MpPfx _ _) => false | _ => true end.


Definition hex_pdu (body : list N) : list N := marker ++ enc_u16 (19 + lenN body) ++ 2 :: body.

(* 10.128.0.0/8 written with a non-zero trailing bit: legal per RFC 4271 4.3 *)
Definition pdu_trailing : list N := hex_pdu [0;0; 0;0; 9; 10; 129].
(* two MP_UNREACH_NLRI attributes: malformed per RFC 7606 3.g; the code's mode uses the first *)
Definition pdu_dup_mp : list N :=
  hex_pdu ([0;0; 0;16] ++ [128; 15; 5; 0;2;1; 8; 32] ++ [128; 15; 5; 0;2;1; 8; 48]).
(* the same with a third attribute whose NLRI does not parse (prefix length 200): never looked at in Code mode *)
Definition pdu_dup_mp_bad : list N :=
  hex_pdu ([0;0; 0;21] ++ [128; 15; 5; 0;2;1; 8; 32] ++ [128; 15; 3; 0;2;1] ++ [128; 15; 4; 0;2;1; 200]).
(* unguarded, the shortcut drops routes: 10.0.0.0/8 next to an empty MP_UNREACH_NLRI for IPv6 unicast *)
Definition upd_eorlike : update := MkUpd [] [AGen 64 1 [0]; AUnreach 128 (MpPfx F6U [])] [MkPfx 8 [10]].

(* ---------- the rendered form of a route's attributes ---------- *)
(* What a user sees of a route ("HTTP GET <rib>/<prefix>", mqtt-out, file-out): the JSON
   array serde makes of the route's attribute map (src/payload.rs, Serialize for
   RotondaPaMap), as far as the property speaks about it: MP_REACH_NLRI / MP_UNREACH_NLRI
   are left out, the members of the four community attributes (COMMUNITIES 8, EXTENDED
   COMMUNITIES 16, IPv6 address specific extended communities 25, LARGE_COMMUNITY 32) are
   collected in ONE list, every other attribute is one element of its own, in PDU order.
   A community attribute whose length is not a multiple of its member size is not a list
   of communities (routecore: `invalid`); it is shown as an element of its own. *)
Definition comm_size (ty : N) : option nat :=
  match ty with 8 => Some 4%nat | 16 => Some 8%nat | 25 => Some 20%nat | 32 => Some 12%nat | _ => None end.

(* cut a value into members of k octets; fuel = number of octets is enough *)
Fixpoint chunks (fuel k : nat) (l : list N) : list (list N) :=
  match fuel, l with
  | S fuel', _ :: _ => firstn k l :: chunks fuel' k (skipn k l)
  | _, _ => []
  end.

Definition comm := (N * list N)%type.     (* attribute type it came in, its octets *)

(* the communities an attribute contributes; None: the attribute is not a (valid) community attribute *)
Definition attr_comms (a : attr) : option (list comm) :=
  match comm_size (a_type a) with
  | Some k => if Nat.eqb (Nat.modulo (length (a_value a)) k) 0
              then Some (map (pair (a_type a)) (chunks (length (a_value a)) k (a_value a)))
              else None
  | None => None
  end.

Definition is_mp (a : attr) : bool := is_reach a || is_unreach a.

(* the elements that are path attributes, by type code, in order *)
Definition json_kinds (l : list attr) : list N :=
  flat_map (fun a => if is_mp a then [] else match attr_comms a with Some _ => [] | None => [a_type a] end) l.
(* the one community list *)
Definition json_comms (l : list attr) : list comm :=
  flat_map (fun a => match attr_comms a with Some cs => cs | None => [] end) l.

Record jshape := MkShape { j_kinds : list N; j_comms : list comm }.
Definition json_shape (l : list attr) : jshape := MkShape (json_kinds l) (json_comms l).

(* the rendered attributes of the routes an UPDATE announces (every route of an UPDATE
   carries the same list, C04_events_exact); None: no route is announced *)
Definition announces (u : update) : bool :=
  existsb (fun e => match e with EvA _ _ _ => true | EvW _ _ => false end) (events u).
Definition json_of_update (u : update) : option jshape :=
  if announces u then Some (json_shape (u_attrs u)) else None.

(* declarative reading used in the statements: the valid community attributes of a type,
   the plain attributes *)
Definition is_comm_attr (ty : N) (a : attr) : bool :=
  (a_type a =? ty) && match attr_comms a with Some _ => true | None => false end.
Definition is_plain_attr (a : attr) : bool :=
  negb (is_mp a) && match attr_comms a with Some _ => false | None => true end.

(* named value of Props_C04.v: COMMUNITIES after LARGE_COMMUNITY and EXTENDED COMMUNITIES,
   an odd-sized COMMUNITIES attribute, an MP_UNREACH_NLRI in between *)
Definition attrs_json_example : list attr :=
  [AGen 192 32 [0;0;253;232; 0;0;0;1; 0;0;0;2]; AGen 64 1 [0]; AGen 192 16 [0;2;253;232;0;0;0;100];
   AUnreach 128 (MpPfx F6U []); AGen 192 8 [253;232;0;1; 253;232;0;2]; AGen 192 8 [1;2;3]].
