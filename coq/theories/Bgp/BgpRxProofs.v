(* Proofs about the octets of a BGP connection (Bgp/BgpRxModel.v): for every parser/FSM that
   is put in for routecore, every stream of octets, every way the stream ends and every
   order in which the select! loop sees ticks and messages. *)
From stdpp Require Import gmap.
From Coq Require Import NArith Lia.
From RV Require Import Rib.RibModel Bmp.BmpModel Bgp.BgpSessionModel Bgp.BgpSessionProofs Pipe.PipeRaw Pipe.PipeRawProofs
  Bgp.BgpRxModel.
From RV Require Bgp.BgpModel.

(* ------------------------------------------------------------------ framing *)
Lemma rx_frame_spec buf f rest :
  rx_frame buf = RcFrame f rest ->
  exists hi lo, drop 16 buf !! 0%nat = Some hi /\ drop 16 buf !! 1%nat = Some lo /\
    (18 <= be16 hi lo)%N /\ (be16 hi lo <= N.of_nat (length buf))%N /\
    f = take (N.to_nat (be16 hi lo)) buf /\ rest = drop (N.to_nat (be16 hi lo)) buf.
Proof.
  unfold rx_frame. destruct (drop 16 buf) as [|hi [|lo tl]] eqn:Hd; try discriminate.
  destruct (N.ltb_spec (be16 hi lo) 18) as [|H18]; [discriminate|].
  destruct (N.ltb_spec (N.of_nat (length buf)) (be16 hi lo)) as [|Hlen]; [discriminate|].
  intros [= <- <-]. exists hi, lo. repeat split; try reflexivity; assumption.
Qed.

Lemma rx_frame_shorter buf f rest : rx_frame buf = RcFrame f rest -> (length rest < length buf)%nat.
Proof.
  intros H. apply rx_frame_spec in H as (hi & lo & _ & _ & H18 & Hlen & _ & ->).
  rewrite drop_length. lia.
Qed.

Lemma rx_frame_length buf f rest : rx_frame buf = RcFrame f rest -> (18 <= length f)%nat /\ buf = f ++ rest.
Proof.
  intros H. apply rx_frame_spec in H as (hi & lo & _ & _ & H18 & Hlen & -> & ->).
  split; [rewrite take_length; lia|symmetry; apply take_drop].
Qed.

(* a complete frame in front of anything is cut off as it is *)
Lemma rx_frame_app hdr hi lo body rest :
  length hdr = 16%nat -> (18 <= be16 hi lo)%N ->
  N.to_nat (be16 hi lo) = (18 + length body)%nat ->
  rx_frame (hdr ++ hi :: lo :: body ++ rest) = RcFrame (hdr ++ hi :: lo :: body) rest.
Proof.
  intros Hh H18 Hlen. unfold rx_frame.
  rewrite (drop_app_alt hdr _ 16) by (symmetry; exact Hh).
  destruct (N.ltb_spec (be16 hi lo) 18) as [|_]; [lia|].
  destruct (N.ltb_spec (N.of_nat (length (hdr ++ hi :: lo :: body ++ rest))) (be16 hi lo)) as [Hlt|_].
  - rewrite app_length in Hlt. cbn [length] in Hlt. rewrite app_length in Hlt. lia.
  - assert (Hn : N.to_nat (be16 hi lo) = length (hdr ++ hi :: lo :: body)).
    { rewrite app_length. cbn [length]. lia. }
    replace (hdr ++ hi :: lo :: body ++ rest) with ((hdr ++ hi :: lo :: body) ++ rest)
      by (rewrite <- app_assoc; reflexivity).
    rewrite Hn, take_app, drop_app. reflexivity.
Qed.

(* a length field below 18: whatever follows, no frame is ever cut *)
Lemma rx_frame_short hdr hi lo more :
  length hdr = 16%nat -> (be16 hi lo < 18)%N -> rx_frame (hdr ++ hi :: lo :: more) = RcMore.
Proof.
  intros Hh Hs. unfold rx_frame. rewrite (drop_app_alt hdr _ 16) by (symmetry; exact Hh).
  destruct (N.ltb_spec (be16 hi lo) 18); [reflexivity|lia].
Qed.

(* ------------------------------------------------------------------ ticks *)
Lemma rx_ticks_tail {St : Type} (handle : St -> list N -> rx_hres St) fuel : forall s buf e,
  (length buf < fuel)%nat ->
  match (rx_ticks handle fuel s buf e).2 with
  | TlErr => exists k, TkEv (BTickErr k) [] ∈ (rx_ticks handle fuel s buf e).1
  | TlLost => exists e', TkEv e' [RmLost true] ∈ (rx_ticks handle fuel s buf e).1
  | TlDead => TkDie ∈ (rx_ticks handle fuel s buf e).1
  | TlSilent => e = ESilent
  | TlDropped => True
  end.
Proof.
  induction fuel as [|fuel IH]; intros s buf e Hf; [lia|].
  cbn [rx_ticks]. destruct (rx_frame buf) as [f rest|] eqn:Hfr.
  - pose proof (rx_frame_shorter _ _ _ Hfr) as Hsh.
    destruct (handle s f) as [s' neg out|s' neg out|k|] eqn:Hh.
    + specialize (IH s' rest e ltac:(lia)).
      destruct (rx_ticks handle fuel s' rest e) as [ts tl]. cbn [fst snd] in *.
      destruct tl; try exact IH.
      * destruct IH as (k & Hk). exists k. apply elem_of_cons. right. exact Hk.
      * destruct IH as (e' & Hk). exists e'. apply elem_of_cons. right. exact Hk.
      * apply elem_of_cons. right. exact IH.
    + exact I.
    + exists k. apply elem_of_list_singleton. reflexivity.
    + apply elem_of_list_singleton. reflexivity.
  - destruct e.
    + destruct buf; cbn [fst snd].
      * exists BTick. apply elem_of_list_singleton. reflexivity.
      * exists 0%N. apply elem_of_list_singleton. reflexivity.
    + exists 0%N. apply elem_of_list_singleton. reflexivity.
    + reflexivity.
Qed.

(* the messages the ticks push, and whether a tick dies, come from the argument *)
Lemma rx_ticks_out {St : Type} (handle : St -> list N -> rx_hres St) fuel : forall s buf e m t,
  t ∈ (rx_ticks handle fuel s buf e).1 -> m ∈ out_of_tick t ->
  m = RmLost true \/ exists s f, match handle s f with HOk _ _ out | HDrop _ _ out => m ∈ out | _ => False end.
Proof.
  induction fuel as [|fuel IH]; intros s buf e m t Ht Hm; [cbn in Ht; apply elem_of_nil in Ht; destruct Ht|].
  cbn [rx_ticks] in Ht. destruct (rx_frame buf) as [f rest|] eqn:Hfr.
  - destruct (handle s f) as [s' neg out|s' neg out|k|] eqn:Hh.
    + destruct (rx_ticks handle fuel s' rest e) as [ts tl] eqn:Hr. cbn [fst] in Ht.
      apply elem_of_cons in Ht as [->|Ht].
      * right. exists s, f. rewrite Hh. exact Hm.
      * apply (IH s' rest e m t); [rewrite Hr; exact Ht|exact Hm].
    + cbn [fst] in Ht. apply elem_of_list_singleton in Ht as ->. right. exists s, f. rewrite Hh. exact Hm.
    + cbn [fst] in Ht. apply elem_of_list_singleton in Ht as ->. cbn in Hm. apply elem_of_nil in Hm. destruct Hm.
    + cbn [fst] in Ht. apply elem_of_list_singleton in Ht as ->. cbn in Hm. apply elem_of_nil in Hm. destruct Hm.
  - destruct e; [destruct buf|..]; cbn [fst] in Ht.
    + apply elem_of_list_singleton in Ht as ->. cbn in Hm. apply elem_of_list_singleton in Hm. left. exact Hm.
    + apply elem_of_list_singleton in Ht as ->. cbn in Hm. apply elem_of_nil in Hm. destruct Hm.
    + apply elem_of_list_singleton in Ht as ->. cbn in Hm. apply elem_of_nil in Hm. destruct Hm.
    + apply elem_of_nil in Ht. destruct Ht.
Qed.

Lemma rx_ticks_die {St : Type} (handle : St -> list N -> rx_hres St) fuel : forall s buf e,
  TkDie ∈ (rx_ticks handle fuel s buf e).1 -> exists s f, handle s f = HPanic.
Proof.
  induction fuel as [|fuel IH]; intros s buf e Ht; [cbn in Ht; apply elem_of_nil in Ht; destruct Ht|].
  cbn [rx_ticks] in Ht. destruct (rx_frame buf) as [f rest|] eqn:Hfr.
  - destruct (handle s f) as [s' neg out|s' neg out|k|] eqn:Hh.
    + destruct (rx_ticks handle fuel s' rest e) as [ts tl] eqn:Hr. cbn [fst] in Ht.
      apply elem_of_cons in Ht as [Ht|Ht]; [discriminate|].
      apply (IH s' rest e). rewrite Hr. exact Ht.
    + cbn [fst] in Ht. apply elem_of_list_singleton in Ht. discriminate.
    + cbn [fst] in Ht. apply elem_of_list_singleton in Ht. discriminate.
    + exists s, f. exact Hh.
  - destruct e; [destruct buf|..]; cbn [fst] in Ht;
      first [apply elem_of_list_singleton in Ht; discriminate|apply elem_of_nil in Ht; destruct Ht].
Qed.

(* a frame the parser / FSM refuses is the last thing the session looks at: whatever lies
   behind it in the stream and however the stream ends *)
Lemma rx_refused_frame_ends {St} (handle : St -> list N -> rx_hres St) s buf f rest k e :
  rx_frame buf = RcFrame f rest -> handle s f = HErr k ->
  rx_ticks_of handle s buf e = ([TkEv (BTickErr k) []], TlErr).
Proof. intros Hf Hh. unfold rx_ticks_of. cbn [rx_ticks]. rewrite Hf, Hh. reflexivity. Qed.

(* a header whose length field is below 18 parks the session: no octet behind it is ever
   looked at, and the end of the stream is an error (never a frame boundary) *)
Lemma rx_short_length_parks {St} (handle : St -> list N -> rx_hres St) s hdr hi lo more :
  length hdr = 16%nat -> (be16 hi lo < 18)%N ->
  rx_ticks_of handle s (hdr ++ hi :: lo :: more) EFin = ([TkEv (BTickErr 0) []], TlErr) /\
  rx_ticks_of handle s (hdr ++ hi :: lo :: more) ERst = ([TkEv (BTickErr 0) []], TlErr) /\
  rx_ticks_of handle s (hdr ++ hi :: lo :: more) ESilent = ([], TlSilent).
Proof.
  intros Hh Hs. unfold rx_ticks_of. cbn [rx_ticks]. rewrite (rx_frame_short _ _ _ _ Hh Hs).
  destruct hdr; [discriminate|]. repeat split.
Qed.

(* ------------------------------------------------------------------ schedules *)
Lemma rx_sched_elem ts chan evs : rx_sched ts chan evs ->
  forall x, x ∈ evs <-> (exists t, t ∈ ts /\ x = ev_of_tick t) \/ (exists m, (m ∈ chan \/ exists t, t ∈ ts /\ m ∈ out_of_tick t) /\ x = ev_of_msg m).
Proof.
  induction 1 as [|t ts chan evs _ IH|m chan ts evs _ IH]; intros x.
  - split.
    + intros Hx. apply elem_of_nil in Hx. destruct Hx.
    + intros [(t & Ht & _)|(m & [Hm|(t & Ht & _)] & _)]; (apply elem_of_nil in Ht || apply elem_of_nil in Hm); contradiction.
  - rewrite elem_of_cons, IH. split.
    + intros [->|[(t' & Ht' & ->)|(m & [Hm|(t' & Ht' & Hm)] & ->)]].
      * left. exists t. split; [apply elem_of_cons; left; reflexivity|reflexivity].
      * left. exists t'. split; [apply elem_of_cons; right; exact Ht'|reflexivity].
      * apply elem_of_app in Hm as [Hm|Hm].
        -- right. exists m. split; [left; exact Hm|reflexivity].
        -- right. exists m. split; [right; exists t; split; [apply elem_of_cons; left; reflexivity|exact Hm]|reflexivity].
      * right. exists m. split; [right; exists t'; split; [apply elem_of_cons; right; exact Ht'|exact Hm]|reflexivity].
    + intros [(t' & Ht' & ->)|(m & [Hm|(t' & Ht' & Hm)] & ->)].
      * apply elem_of_cons in Ht' as [->|Ht']; [left; reflexivity|right; left; exists t'; split; [exact Ht'|reflexivity]].
      * right. right. exists m. split; [left; apply elem_of_app; left; exact Hm|reflexivity].
      * apply elem_of_cons in Ht' as [->|Ht'].
        -- right. right. exists m. split; [left; apply elem_of_app; right; exact Hm|reflexivity].
        -- right. right. exists m. split; [right; exists t'; split; [exact Ht'|exact Hm]|reflexivity].
  - rewrite elem_of_cons, IH. split.
    + intros [->|[Hx|(m' & [Hm|Hm] & ->)]].
      * right. exists m. split; [left; apply elem_of_cons; left; reflexivity|reflexivity].
      * left. exact Hx.
      * right. exists m'. split; [left; apply elem_of_cons; right; exact Hm|reflexivity].
      * right. exists m'. split; [right; exact Hm|reflexivity].
    + intros [Hx|(m' & [Hm|Hm] & ->)].
      * right. left. exact Hx.
      * apply elem_of_cons in Hm as [->|Hm]; [left; reflexivity|right; right; exists m'; split; [left; exact Hm|reflexivity]].
      * right. right. exists m'. split; [right; exact Hm|reflexivity].
Qed.

(* the drained order is one of the orders *)
Lemma rx_sched_recv_all ts evs : forall chan, rx_sched ts [] evs -> rx_sched ts chan (map ev_of_msg chan ++ evs).
Proof.
  intros chan H. induction chan as [|m chan IH]; [exact H|]. cbn [map app]. apply RsRecv. exact IH.
Qed.

Lemma rx_drained_sched ts : rx_sched ts [] (rx_drained ts).
Proof.
  induction ts as [|t ts IH]; [constructor|].
  cbn [rx_drained]. apply RsTick. cbn [app]. apply rx_sched_recv_all. exact IH.
Qed.

(* ------------------------------------------------------------------ the loop *)
Definition stopper (x : rx_ev) : bool :=
  match x with
  | XEv (BTickErr _) | XEv (BMsgLost _) | XEv BClosed | XDie | XAttr => true
  | _ => false
  end.

Lemma rx_loop_open id key evs : forall s st, rx_loop id key s evs = RxOpen st -> forall x, x ∈ evs -> stopper x = false.
Proof.
  induction evs as [|x evs IH]; intros s st H y Hy; [apply elem_of_nil in Hy; destruct Hy|].
  destruct x as [e| |]; cbn [rx_loop] in H; try discriminate.
  destruct (bs_step id key s e) as [s' go] eqn:Hs. destruct go; [|discriminate].
  apply elem_of_cons in Hy as [->|Hy]; [|exact (IH s' st H y Hy)].
  destruct e as [| |k| |u| |b| | |r]; try reflexivity; cbn [bs_step] in Hs; try discriminate.
Qed.

Lemma rx_loop_panic id key evs : forall s, rx_loop id key s evs = RxPanicOwn -> XAttr ∈ evs.
Proof.
  induction evs as [|x evs IH]; intros s H; [discriminate|].
  destruct x as [e| |]; cbn [rx_loop] in H; try discriminate.
  - destruct (bs_step id key s e) as [s' go]. destruct go; [|discriminate].
    apply elem_of_cons. right. exact (IH s' H).
  - apply elem_of_cons. left. reflexivity.
Qed.

Lemma rx_loop_dead id key evs : forall s st, rx_loop id key s evs = RxDead st -> XDie ∈ evs.
Proof.
  induction evs as [|x evs IH]; intros s st H; [discriminate|].
  destruct x as [e| |]; cbn [rx_loop] in H; try discriminate.
  - destruct (bs_step id key s e) as [s' go]. destruct go; [|discriminate].
    apply elem_of_cons. right. exact (IH s' st H).
  - apply elem_of_cons. left. reflexivity.
Qed.

(* the state of every outcome is the state of the loop of BgpSessionModel over the events
   that came before anything else, after the block behind the loop if the loop was left *)
Lemma rx_loop_state id key evs : forall s,
  match rx_loop id key s evs with
  | RxEnded st _ => st = bs_cleanup id key (bs_loop id key s (rx_plain evs)).1
  | RxOpen st => st = (bs_loop id key s (rx_plain evs)).1 /\ (bs_loop id key s (rx_plain evs)).2 = []
  | RxDead st => st = (bs_loop id key s (rx_plain evs)).1
  | RxPanicOwn => True
  end.
Proof.
  induction evs as [|x evs IH]; intros s; [cbn; split; reflexivity|].
  destruct x as [e| |]; cbn [rx_loop rx_plain bs_loop]; try (reflexivity || exact I).
  destruct (bs_step id key s e) as [s' go]. destruct go; [apply IH|reflexivity].
Qed.

(* ------------------------------------------------------------------ the theorems *)
Lemma no_attr_in_sched {St : Type} (handle : St -> list N -> rx_hres St) s0 buf e evs :
  sends_no_attributes handle -> rx_sched (rx_ticks_of handle s0 buf e).1 [] evs -> XAttr ∉ evs.
Proof.
  intros Hna Hs Hin. apply (rx_sched_elem _ _ _ Hs) in Hin as [(t & _ & Ht)|(m & Hm & Hx)].
  - destruct t; discriminate.
  - destruct m; try discriminate. destruct Hm as [Hm|(t & Ht & Hm)]; [apply elem_of_nil in Hm; destruct Hm|].
    destruct (rx_ticks_out handle _ _ _ _ _ _ Ht Hm) as [?|(s & f & Hh)]; [discriminate|].
    specialize (Hna s f). destruct (handle s f); try contradiction; exact (Hna Hh).
Qed.

Lemma no_die_in_sched {St : Type} (handle : St -> list N -> rx_hres St) s0 buf e evs :
  never_panics handle -> rx_sched (rx_ticks_of handle s0 buf e).1 [] evs -> XDie ∉ evs.
Proof.
  intros Hnp Hs Hin. apply (rx_sched_elem _ _ _ Hs) in Hin as [(t & Ht & Hx)|(m & _ & Hx)].
  - destruct t; [discriminate|]. destruct (rx_ticks_die handle _ _ _ _ Ht) as (s & f & Hh). exact (Hnp s f Hh).
  - destruct m; discriminate.
Qed.

(* no panic in rotonda's own code, whatever the octets, the end, the FSM (that sends no
   Message::Attributes), the order of events; old code and repaired code *)
Theorem rx_no_own_panic {St : Type} (handle : St -> list N -> rx_hres St) fixed s0 id key live0 buf e evs :
  sends_no_attributes handle -> rx_sched (rx_ticks_of handle s0 buf e).1 [] evs ->
  rx_run fixed handle s0 id key live0 buf e evs <> RPanicOwn.
Proof.
  intros Hna Hs. unfold rx_run, rx_finish.
  destruct (rx_loop id key (bs_init live0) evs) as [st r|st| |st] eqn:Hl; try discriminate.
  - destruct ((rx_ticks_of handle s0 buf e).2); try discriminate. destruct fixed; discriminate.
  - apply rx_loop_panic in Hl. exfalso. exact (no_attr_in_sched handle _ _ _ _ Hna Hs Hl).
Qed.

(* progress: the events never run out while the session still owes the loop its end *)
Theorem rx_progress {St : Type} (handle : St -> list N -> rx_hres St) fixed s0 id key live0 buf e evs :
  rx_sched (rx_ticks_of handle s0 buf e).1 [] evs ->
  rx_run fixed handle s0 id key live0 buf e evs <> RImpossible.
Proof.
  intros Hs. unfold rx_run, rx_finish.
  destruct (rx_loop id key (bs_init live0) evs) as [st r|st| |st] eqn:Hl; try discriminate.
  pose proof (rx_loop_open _ _ _ _ _ Hl) as Hopen.
  pose proof (rx_ticks_tail handle (S (length buf)) s0 buf e ltac:(lia)) as Ht.
  fold (rx_ticks_of handle s0 buf e) in Ht.
  destruct ((rx_ticks_of handle s0 buf e).2) eqn:Htl; try discriminate.
  - destruct Ht as (k & Hk). exfalso.
    assert (Hin : XEv (BTickErr k) ∈ evs).
    { apply (rx_sched_elem _ _ _ Hs). left. exists (TkEv (BTickErr k) []). split; [exact Hk|reflexivity]. }
    specialize (Hopen _ Hin). discriminate.
  - destruct Ht as (e' & Hk). exfalso.
    assert (Hin : XEv (BMsgLost true) ∈ evs).
    { apply (rx_sched_elem _ _ _ Hs). right. exists (RmLost true). split; [|reflexivity].
      right. exists (TkEv e' [RmLost true]). split; [exact Hk|apply elem_of_list_singleton; reflexivity]. }
    specialize (Hopen _ Hin). discriminate.
  - destruct fixed; discriminate.
  - exfalso.
    assert (Hin : XDie ∈ evs).
    { apply (rx_sched_elem _ _ _ Hs). left. exists TkDie. split; [exact Ht|reflexivity]. }
    specialize (Hopen _ Hin). discriminate.
Qed.

(* the repaired code: a peer that ends the connection (FIN or RST) gets the block after the
   loop, whatever it sent before - unless routecore itself panics *)
Theorem rx_every_run_ends {St : Type} (handle : St -> list N -> rx_hres St) s0 id key live0 buf e evs :
  sends_no_attributes handle -> never_panics handle -> e <> ESilent ->
  rx_sched (rx_ticks_of handle s0 buf e).1 [] evs ->
  rx_run true handle s0 id key live0 buf e evs = REnded (bs_process id key live0 (rx_plain evs)).1.
Proof.
  intros Hna Hnp He Hs.
  pose proof (rx_no_own_panic handle true s0 id key live0 buf e evs Hna Hs) as Hp.
  pose proof (rx_progress handle true s0 id key live0 buf e evs Hs) as Hi.
  unfold rx_run, rx_finish in *.
  pose proof (rx_loop_state id key evs (bs_init live0)) as Hst.
  rewrite bs_process_unfold. cbn [fst].
  destruct (rx_loop id key (bs_init live0) evs) as [st r|st| |st] eqn:Hl.
  - rewrite Hst. reflexivity.
  - destruct Hst as [-> _].
    pose proof (rx_ticks_tail handle (S (length buf)) s0 buf e ltac:(lia)) as Ht.
    fold (rx_ticks_of handle s0 buf e) in Ht.
    destruct ((rx_ticks_of handle s0 buf e).2); try contradiction; try reflexivity.
  - contradiction.
  - apply rx_loop_dead in Hl. exfalso. exact (no_die_in_sched handle _ _ _ _ Hnp Hs Hl).
Qed.

(* a peer that stays connected and silent: the session either ended already or waits for it *)
Theorem rx_silent_peer {St : Type} (handle : St -> list N -> rx_hres St) s0 id key live0 buf evs :
  sends_no_attributes handle -> never_panics handle ->
  rx_sched (rx_ticks_of handle s0 buf ESilent).1 [] evs ->
  rx_run true handle s0 id key live0 buf ESilent evs = REnded (bs_process id key live0 (rx_plain evs)).1 \/
  rx_run true handle s0 id key live0 buf ESilent evs = RWaiting (bs_loop id key (bs_init live0) (rx_plain evs)).1.
Proof.
  intros Hna Hnp Hs.
  pose proof (rx_no_own_panic handle true s0 id key live0 buf ESilent evs Hna Hs) as Hp.
  pose proof (rx_progress handle true s0 id key live0 buf ESilent evs Hs) as Hi.
  unfold rx_run, rx_finish in *.
  pose proof (rx_loop_state id key evs (bs_init live0)) as Hst.
  rewrite bs_process_unfold. cbn [fst].
  destruct (rx_loop id key (bs_init live0) evs) as [st r|st| |st] eqn:Hl.
  - left. rewrite Hst. reflexivity.
  - destruct Hst as [-> _].
    destruct ((rx_ticks_of handle s0 buf ESilent).2); try contradiction; [left|right]; reflexivity.
  - contradiction.
  - apply rx_loop_dead in Hl. exfalso. exact (no_die_in_sched handle _ _ _ _ Hnp Hs Hl).
Qed.

(* the code before the repair: it differs only where the FSM let go of the connection without
   a word and the loop had handled everything that was queued - there it waits for ever *)
Theorem rx_old_code_partial {St : Type} (handle : St -> list N -> rx_hres St) s0 id key live0 buf e evs :
  match rx_run false handle s0 id key live0 buf e evs with
  | RWedged st => (rx_ticks_of handle s0 buf e).2 = TlDropped /\
                  rx_run true handle s0 id key live0 buf e evs = REnded (bs_cleanup id key st)
  | r => rx_run true handle s0 id key live0 buf e evs = r
  end.
Proof.
  unfold rx_run, rx_finish.
  destruct (rx_loop id key (bs_init live0) evs) as [st r|st| |st]; try reflexivity.
  destruct ((rx_ticks_of handle s0 buf e).2); try reflexivity. split; reflexivity.
Qed.

(* what the end looks like (BgpSessionProofs.cleanup_shape through rx_every_run_ends) *)
Theorem rx_ends_in_cleanup {St} (handle : St -> list N -> rx_hres St) s0 id key live0 buf e evs :
  sends_no_attributes handle -> never_panics handle -> e <> ESilent ->
  rx_sched (rx_ticks_of handle s0 buf e).1 [] evs ->
  exists st, rx_run true handle s0 id key live0 buf e evs = REnded st /\
    let s := (bs_loop id key (bs_init live0) (rx_plain evs)).1 in
    own_trace id (bs_out s) /\
    bs_out st = bs_out s ++ (if negb (bs_rej s) && bs_neg s then [UWithdraw id None] else []) /\
    bs_live st = (if negb (bs_rej s) && bs_neg s then bs_live s ∖ {[key]} else bs_live s).
Proof.
  intros Hna Hnp He Hs. eexists. split; [apply (rx_every_run_ends handle); assumption|].
  pose proof (cleanup_shape id key live0 (rx_plain evs)) as Hc. cbn zeta in *.
  destruct Hc as [Ho Hout]. split; [exact Ho|]. split; [exact Hout|].
  rewrite bs_process_unfold. cbn [fst]. apply bs_cleanup_live.
Qed.

(* an UPDATE the session hands over yields exactly the route events of C04's decoder, the
   withdrawals first, all under the session's ingress id; one that does not decode yields nothing *)
Theorem rx_accepted_update_events id key s f u :
  bs_neg s = true -> BgpModel.decode BgpModel.Code f = Some u ->
  bs_step id key s (BMsgUpdate (raw_upd f)) =
  (bs_send s (UBulk (map (pay_of_ev id)
     (List.filter is_evw (BgpModel.events u) ++ List.filter (fun e => negb (is_evw e)) (BgpModel.events u)))), true).
Proof.
  intros Hn Hd. unfold raw_upd. rewrite Hd. cbn [bs_step]. rewrite Hn, raw_payloads. reflexivity.
Qed.

Theorem rx_undecodable_update_noop id key s f :
  BgpModel.decode BgpModel.Code f = None -> bs_neg s = true ->
  bs_step id key s (BMsgUpdate (raw_upd f)) = (s, true).
Proof. intros Hd Hn. unfold raw_upd. rewrite Hd. cbn [bs_step]. rewrite Hn. reflexivity. Qed.

(* ------------------------------------------------------------------ witnesses *)
Local Open Scope N_scope.

(* Message::Attributes reaches `unimplemented!()` *)
Lemma attributes_panic :
  rx_run_drained true attr_fsm tt 7 5 {[6]} rx_keepalive EFin = RPanicOwn.
Proof. vm_compute. reflexivity. Qed.

(* routecore as observed. OPEN, KEEPALIVE, an UPDATE, FIN: Bulk, Withdraw, key gone *)
Definition rx_ex_session : list N := rx_open_min ++ rx_keepalive ++ rx_update_empty.
Lemma example_session :
  exists st, rx_run_drained true (rc_ref true rc_any rc_any) RcWait 7 5 {[6]} rx_ex_session EFin = REnded st /\
    bs_out st = [UBulk []; UWithdraw 7 None] /\ bool_decide (5 ∈ bs_live st) = false /\ bool_decide (6 ∈ bs_live st) = true.
Proof. eexists. split; [vm_compute; reflexivity|]. repeat split. Qed.

(* a refused frame in the middle: what lies behind it is never looked at *)
Lemma example_refused :
  exists st, rx_run_drained true (rc_ref true rc_any rc_any) RcWait 7 5 {[6]}
               (rx_open_min ++ rx_keepalive ++ rx_hdr 19 9 ++ rx_update_empty) ESilent = REnded st /\
    bs_out st = [UWithdraw 7 None] /\ bool_decide (5 ∈ bs_live st) = false.
Proof. eexists. split; [vm_compute; reflexivity|]. repeat split. Qed.

(* an UPDATE in OpenConfirm: the FSM lets go of the connection. Before the repair the loop
   waits for ever - the key stays in live_sessions, no Withdraw; after it the block after the loop runs *)
Definition rx_ex_drop : list N := rx_open_min ++ rx_update_empty.
Lemma drop_wedges_old_code :
  (exists st, rx_run_drained false (rc_ref true rc_any rc_any) RcWait 7 5 {[6]} rx_ex_drop EFin = RWedged st /\
     bool_decide (5 ∈ bs_live st) = true /\ bs_out st = [UBulk []]) /\
  (exists st, rx_run_drained true (rc_ref true rc_any rc_any) RcWait 7 5 {[6]} rx_ex_drop EFin = REnded st /\
     bool_decide (5 ∈ bs_live st) = false /\ bs_out st = [UBulk []; UWithdraw 7 None]).
Proof. split; eexists; (split; [vm_compute; reflexivity|]); repeat split. Qed.

(* a second OPEN: routecore's todo!() kills the task; the key stays, nothing is withdrawn *)
Definition rx_ex_open2 : list N := rx_open_min ++ rx_keepalive ++ rx_update_empty ++ rx_open_min.
Lemma second_open_kills_task :
  exists st, rx_run_drained true (rc_ref true rc_any rc_any) RcWait 7 5 {[6]} rx_ex_open2 EFin = RDead st /\
    bool_decide (5 ∈ bs_live st) = true /\ bs_out st = [UBulk []].
Proof. eexists. split; [vm_compute; reflexivity|]. repeat split. Qed.

(* a header with length field 5 after the handshake: parked while the peer is silent, an error at FIN *)
Lemma example_short_length :
  (exists st, rx_run_drained true (rc_ref true rc_any rc_any) RcWait 7 5 {[6]}
               (rx_open_min ++ rx_keepalive ++ rx_hdr 5 2 ++ rx_keepalive) ESilent = RWaiting st /\ bool_decide (5 ∈ bs_live st) = true) /\
  (exists st, rx_run_drained true (rc_ref true rc_any rc_any) RcWait 7 5 {[6]}
               (rx_open_min ++ rx_keepalive ++ rx_hdr 5 2 ++ rx_keepalive) EFin = REnded st /\ bs_out st = [UWithdraw 7 None]).
Proof. split; eexists; (split; [vm_compute; reflexivity|]); repeat split. Qed.
