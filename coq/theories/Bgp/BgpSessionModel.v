(* Model of the END of a BGP session: the loop of `Processor::process`
   (src/units/bgp_tcp_in/router_handler.rs 144-547) as far as the way it is left and
   what happens then are concerned. Definitions only; proofs in BgpSessionProofs.v.

   The loop is a `select!` over three sources; an event of the script is what one
   iteration sees:
     session.tick()        Ok (nothing | the FSM handled the OPEN: negotiated() is Some from
                           now on) | Err (read error / reset / truncated frame, unparsable
                           message, failed timer event: all `error from fsm` + break)
     rx_sess.recv()        SessionNegotiated | UpdateMessage | NotificationMessage |
                           ConnectionLost | None (all senders dropped)
     self.gate.process()   Err(Terminated) | Reconfiguring (main config changed | nothing
                           changed | this peer's config changed | this peer removed |
                           only other peers' entries changed)
   After the loop (`// Done, for whatever reason`): unless the connection was rejected
   early, and if session.negotiated() is Some, the (address, AS) key leaves live_sessions and
   Update::Withdraw(session ingress id, None) is sent.

   Outputs: the updates sent to the gate (RibModel.update), live_sessions (a set of peer
   keys), the Disconnect commands sent to the session. No Roto filter is installed (the
   bgp-in call site in front of the UPDATE arm is C10's). *)
From stdpp Require Import gmap.
From Coq Require Import NArith.
From RV Require Import Rib.RibModel Bmp.BmpModel.

Inductive bs_reconf := BRUnit | BRSame | BRPeer | BRGone
| BROthers.   (* main settings and this peer's entry unchanged, other peers' entries changed / added / removed *)

Inductive bs_ev :=
| BTick                          (* tick() = Ok(()) *)
| BNegotiate                     (* tick() = Ok(()), session.negotiated() is Some from now on *)
| BTickErr (kind : N)            (* tick() = Err(_) *)
| BMsgNegotiated                 (* Message::SessionNegotiated; the session stores the negotiated
                                    configuration before it sends the message (routecore session.rs
                                    973-981, 1279-1280), so negotiated() is Some by now *)
| BMsgUpdate (u : option upd)    (* Message::UpdateMessage; None = process_update answers Err *)
| BMsgNotification
| BMsgLost (sock : bool)         (* Message::ConnectionLost(Some _ | None) *)
| BClosed                        (* rx_sess.recv() = None *)
| BTerminate                     (* gate.process() = Err(Terminated) *)
| BReconf (r : bs_reconf).       (* gate.process() = Ok(Reconfiguring { BgpTcpIn(new_unit) }) *)

(* Command::Disconnect(reason) sent to the session *)
Inductive bs_cmd := BCRejected | BCShutdown | BCReconfiguration | BCDeconfigured.

Record bs_st := MkBs {
  bs_neg : bool;            (* session.negotiated().is_some() *)
  bs_reg : bool;            (* ghost: this processor inserted its key into live_sessions *)
  bs_rej : bool;            (* the local `rejected` *)
  bs_live : gset N;         (* live_sessions, by peer key *)
  bs_out : list update;     (* sent to the gate, in order *)
  bs_cmds : list bs_cmd }.

Definition bs_init (live0 : gset N) : bs_st := MkBs false false false live0 [] [].

Definition bs_send (s : bs_st) (u : update) : bs_st :=
  MkBs (bs_neg s) (bs_reg s) (bs_rej s) (bs_live s) (bs_out s ++ [u]) (bs_cmds s).
Definition bs_command (s : bs_st) (c : bs_cmd) : bs_st :=
  MkBs (bs_neg s) (bs_reg s) (bs_rej s) (bs_live s) (bs_out s) (bs_cmds s ++ [c]).

(* one iteration; the boolean says whether the loop goes on *)
Definition bs_step (id key : N) (s : bs_st) (e : bs_ev) : bs_st * bool :=
  match e with
  | BTick => (s, true)
  | BNegotiate => (MkBs true (bs_reg s) (bs_rej s) (bs_live s) (bs_out s) (bs_cmds s), true)
  | BTickErr _ => (s, false)
  | BMsgNegotiated =>
      if bool_decide (key ∈ bs_live s)
      then (MkBs true (bs_reg s) true (bs_live s) (bs_out s) (bs_cmds s ++ [BCRejected]), false)
      else (MkBs true true (bs_rej s) ({[key]} ∪ bs_live s) (bs_out s) (bs_cmds s), true)
  | BMsgUpdate u =>
      if bs_neg s
      then match u with
           | Some u => (bs_send s (UBulk (payloads_of id u)), true)
           | None => (s, true)                       (* "unexpected state: {e}", nothing sent *)
           end
      else (s, false)                                (* "no NegotiatedConfig for session", break *)
  | BMsgNotification => (s, true)
  | BMsgLost _ => (s, false)
  | BClosed => (s, false)
  | BTerminate => (bs_command s BCShutdown, true)    (* Disconnect(Shutdown); the `break` is commented out *)
  | BReconf BRUnit => (bs_command s BCReconfiguration, false)
  | BReconf BRSame => (s, true)
  | BReconf BRPeer => (bs_command s BCReconfiguration, true)
  | BReconf BRGone => (bs_command s BCDeconfigured, false)
  | BReconf BROthers => (s, true)                  (* BgpTcpIn's PartialEq compares listen, my_asn, my_bgp_id only;
                                                      then this peer's own entry is looked at: unchanged, "noop" *)
  end.

(* reconfigurations that concern neither the unit's main settings nor this peer *)
Definition bs_spared (e : bs_ev) : bool :=
  match e with BReconf BRSame | BReconf BROthers => true | _ => false end.

(* the loop: state when it is left, and the events it did not get to. A script that
   runs out stands for a session channel that is closed then (`None => break`). *)
Fixpoint bs_loop (id key : N) (s : bs_st) (evs : list bs_ev) : bs_st * list bs_ev :=
  match evs with
  | [] => (s, [])
  | e :: rest =>
      let '(s', go) := bs_step id key s e in
      if go then bs_loop id key s' rest else (s', rest)
  end.

(* the block after the loop *)
Definition bs_cleanup (id key : N) (s : bs_st) : bs_st :=
  if negb (bs_rej s) && bs_neg s
  then MkBs (bs_neg s) (bs_reg s) (bs_rej s) (bs_live s ∖ {[key]}) (bs_out s ++ [UWithdraw id None]) (bs_cmds s)
  else s.

Definition bs_process (id key : N) (live0 : gset N) (evs : list bs_ev) : bs_st * list bs_ev :=
  let '(s, rest) := bs_loop id key (bs_init live0) evs in (bs_cleanup id key s, rest).

(* ---- the session's side of the contract (routecore's FSM): SessionNegotiated is sent at
   most once, and UPDATEs are handed over only after it (one FIFO channel, Established) ---- *)
Fixpoint bs_wf_from (seen : bool) (evs : list bs_ev) : bool :=
  match evs with
  | [] => true
  | BMsgNegotiated :: r => negb seen && bs_wf_from true r
  | BMsgUpdate _ :: r => seen && bs_wf_from seen r
  | _ :: r => bs_wf_from seen r
  end.
Definition bs_wf (evs : list bs_ev) : bool := bs_wf_from false evs.

(* ---- THE PROPERTY's reading of the block after the loop: the key leaves live_sessions
   iff THIS session put it there; the withdrawal is sent as the code sends it ---- *)
Definition bs_cleanup_spec (id key : N) (s : bs_st) : bs_st :=
  let s' := bs_cleanup id key s in
  MkBs (bs_neg s') (bs_reg s') (bs_rej s')
       (if bs_reg s then bs_live s ∖ {[key]} else bs_live s) (bs_out s') (bs_cmds s').

Definition bs_process_spec (id key : N) (live0 : gset N) (evs : list bs_ev) : bs_st * list bs_ev :=
  if bs_wf evs
  then let '(s, rest) := bs_loop id key (bs_init live0) evs in (bs_cleanup_spec id key s, rest)
  else bs_process id key live0 evs.

(* the class of the recorded finding: the session ended after the FSM had negotiated but
   before the processor handled SessionNegotiated (and was not rejected) *)
Definition bs_window (s : bs_st) : bool := bs_neg s && negb (bs_rej s) && negb (bs_reg s).
Definition bs_known_window (id key : N) (live0 : gset N) (evs : list bs_ev) : bool :=
  bs_window (bs_loop id key (bs_init live0) evs).1 && bool_decide (key ∈ live0).

(* an update of the session itself: a Bulk whose payloads all carry its ingress id *)
Definition bs_own_bulk (id : N) (u : update) : bool :=
  match u with UBulk ps => forallb (fun p => bool_decide (k_mui (p_key p) = id)) ps | _ => false end.

Definition own_trace (id : N) (us : list update) : Prop := Forall (fun u => bs_own_bulk id u = true) us.

(* the RIB after the updates of a trace *)
Definition bs_rib_after (r0 : rib) (us : list update) : rib := fold_left rib_apply us r0.

(* for the oracle driver: live_sessions from / as a list of keys *)
Definition bs_live_of (l : list N) : gset N := list_to_set l.
Definition bs_live_list (s : bs_st) : list N := elements (bs_live s).

(* the witness of the refutation: an earlier session of the same peer is live (key 5);
   the new connection's FSM negotiates, then its read fails before the processor got to the
   SessionNegotiated message *)
Definition bs_window_witness : list bs_ev := [BNegotiate; BTickErr 0].

(* ---- the bgp-tcp-in unit's own metrics, as far as `Processor::process` moves them
   (src/units/bgp_tcp_in/status_reporter.rs, metrics.rs; C15). The status reporter of a
   session is a child of the unit's (`add_child`): all sessions of a unit share ONE
   `BgpTcpInMetrics`, so a session starts from whatever the unit's counters are.
     bgp_tcp_in_connection_lost_count   peer_connection_lost(socket), called in the
                                        ConnectionLost arm for `Some(addr)` AND for `None`
                                        (None = the PDU writer task of handle_connection could
                                        not write to the peer; it does not know the address)
     bgp_tcp_in_disconnect_count        disconnect(addr), called in the Terminated arm and in the
                                        "this peer is no longer configured" arm when
                                        session.connected_addr() is Some (it always is for a
                                        session the loop still serves)
   `listener_bound_count` / `connection_accepted_count` are moved by the accept loop of
   unit.rs, not by the session; `established_session_count` is never written.
   The counters are a second component next to [bs_st] (the arms of [bs_step] and the
   status reporter calls sit in the same `match`; they do not read each other). ---- *)
Record bs_met := MkMet { bm_lost : N; bm_disc : N }.

Definition bm_step (m : bs_met) (e : bs_ev) : bs_met :=
  match e with
  | BMsgLost _ => MkMet (bm_lost m + 1) (bm_disc m)          (* both arms of the `if let Some(socket)` count *)
  | BTerminate => MkMet (bm_lost m) (bm_disc m + 1)
  | BReconf BRGone => MkMet (bm_lost m) (bm_disc m + 1)
  | _ => m
  end.

(* the loop with the counters *)
Fixpoint bsm_loop (id key : N) (s : bs_st) (m : bs_met) (evs : list bs_ev) : bs_st * bs_met * list bs_ev :=
  match evs with
  | [] => (s, m, [])
  | e :: rest =>
      let '(s', go) := bs_step id key s e in
      if go then bsm_loop id key s' (bm_step m e) rest else (s', bm_step m e, rest)
  end.

(* the block after the loop touches no counter *)
Definition bsm_process (id key : N) (live0 : gset N) (m0 : bs_met) (evs : list bs_ev) : bs_st * bs_met * list bs_ev :=
  let '(s, m, rest) := bsm_loop id key (bs_init live0) m0 evs in (bs_cleanup id key s, m, rest).

(* the events the loop handled: the script up to and including the one that ended it *)
Fixpoint bs_taken (id key : N) (s : bs_st) (evs : list bs_ev) : list bs_ev :=
  match evs with
  | [] => []
  | e :: rest =>
      let '(s', go) := bs_step id key s e in
      if go then e :: bs_taken id key s' rest else [e]
  end.

Definition bs_is_lost (e : bs_ev) : bool := match e with BMsgLost _ => true | _ => false end.
Definition bs_is_disc (e : bs_ev) : bool := match e with BTerminate | BReconf BRGone => true | _ => false end.
Definition bs_count (f : bs_ev -> bool) (evs : list bs_ev) : N := N.of_nat (length (List.filter f evs)).

(* the sessions of one unit, one after the other, on the unit's shared counters (each with its
   own live_sessions view: the counters do not depend on it) *)
Fixpoint bsm_unit (id key : N) (m : bs_met) (sessions : list (gset N * list bs_ev)) : bs_met :=
  match sessions with
  | [] => m
  | (live0, evs) :: rest => bsm_unit id key (bsm_process id key live0 m evs).1.2 rest
  end.

(* the loop of this session was left through the ConnectionLost arm *)
Definition bs_ended_by_loss (id key : N) (live0 : gset N) (evs : list bs_ev) : bool :=
  match last (bs_taken id key (bs_init live0) evs) with Some e => bs_is_lost e | None => false end.

(* the seeded variant (C15-c2): `None` leaves peer_connection_lost before the counter *)
Definition bm_step_early_return (m : bs_met) (e : bs_ev) : bs_met :=
  match e with
  | BMsgLost false => m
  | _ => bm_step m e
  end.
Fixpoint bsm_loop_with (step : bs_met -> bs_ev -> bs_met) (id key : N) (s : bs_st) (m : bs_met) (evs : list bs_ev) : bs_met :=
  match evs with
  | [] => m
  | e :: rest =>
      let '(s', go) := bs_step id key s e in
      if go then bsm_loop_with step id key s' (step m e) rest else step m e
  end.
