(* Model of the output-stream side of rotonda's targets (property C17):
     src/targets/file/target.rs   FileRunner::run  (the Update::OutputStream arm, lines 150-190)
     src/targets/mqtt/target.rs   MqttRunner::output_stream_message_to_msg, direct_update,
                                  the publish arm of process_events, reconfigure
     src/ingress.rs               Register::get / update_info as the shared state the
                                  mqtt target reads once per message
   Definitions only; proofs are in TargetsProofs.v.

   What is NOT modelled (exercised by the correspondence harness only): the
   bytes that serde_json / csv print for a record. A rendered record is the
   opaque symbol [SRec fmt record]: it stands for the rendering WITHOUT its
   final newline, and the harness parses every such line back to the record.
   Text is a list of Unicode code points (UTF-8 keeps U+000A as the byte 10
   and never produces byte 10 otherwise, so lines of code points = lines of
   bytes). *)
From Coq Require Import List NArith Bool.
Import ListNotations.
Local Open Scope N_scope.

Definition str := list N.
Definition NL : N := 10.

Fixpoint str_eqb (a b : str) : bool :=
  match a, b with
  | [], [] => true
  | x :: a', y :: b' => N.eqb x y && str_eqb a' b'
  | _, _ => false
  end.

(* ------------------------------------------------------------------ records *)

Inductive fmt := FCsv | FJson | FJsonMin.

(* A route is opaque to the targets. [rt_csv_ok] is a fact about the csv crate
   the model takes as part of the input: whether its serializer accepts the
   route's attributes (it rejects e.g. extended communities and malformed
   attributes). *)
Record route := MkRoute { rt_id : N; rt_csv_ok : bool }.

(* roto_runtime::types::LogEntry *)
Record entry := MkEntry {
  en_ts : N; en_origin : option N; en_peer : option N; en_hops : option N;
  en_reach : N; en_unreach : N;
  en_mp_reach : option N; en_mp_reach_af : option N;
  en_mp_unreach : option N; en_mp_unreach_af : option N;
  en_custom : option str }.

(* OutputStreamMessageRecord *)
Inductive record :=
| RRoute (r : option route)
| RPeerdown (ip asn : N)
| RCustom (id value : N)
| REntry (e : entry).

(* OutputStreamMessage *)
Record osm := MkOsm { m_name : str; m_topic : str; m_rec : record; m_ing : option N }.

(* payload::Update; only the shape matters for the targets *)
Inductive update :=
| USingle (r : route)
| UBulk (rs : list route)
| UWithdraw (ing : N) (af : option N)
| UWithdrawBulk (ings : list N)
| UQuery
| UStatus (ing : N)
| UOutput (ms : list osm).

Definition is_output (u : update) : bool :=
  match u with UOutput _ => true | _ => false end.

Definition msgs_of (u : update) : list osm :=
  match u with UOutput ms => ms | _ => [] end.

(* the messages of a history, in emission order *)
Definition messages (us : list update) : list osm := flat_map msgs_of us.
Definition records (us : list update) : list record := map m_rec (messages us).

(* ------------------------------------------------------------------ file-out *)

(* what ends up in the file: characters written verbatim, and rendered records *)
Inductive sym :=
| SChar (c : N)
| SRec (f : fmt) (r : record).

Definition is_nl (s : sym) : bool :=
  match s with SChar c => N.eqb c NL | SRec _ _ => false end.

(* does the serializer of the format accept the record? serde_json accepts
   every record; csv rejects some routes. *)
Definition renderable (f : fmt) (r : record) : bool :=
  match f, r with
  | FCsv, RRoute (Some rt) => rt_csv_ok rt
  | _, _ => true
  end.

(* target.rs: one message. An Entry with custom text is written verbatim and
   a newline appended; everything else is serialised in the configured format
   (json-min: the minimal form of an Entry, which [SRec FJsonMin (REntry _)]
   stands for) and newline-terminated; a record the serializer rejects is
   logged and skipped. *)
Definition write_record (f : fmt) (r : record) : list sym :=
  match r with
  | REntry (MkEntry _ _ _ _ _ _ _ _ _ _ (Some s)) => map SChar s ++ [SChar NL]
  | _ => if renderable f r then [SRec f r; SChar NL] else []
  end.

(* one iteration of the loop: only OutputStream updates write anything *)
Definition file_step (f : fmt) (buf : list sym) (u : update) : list sym :=
  match u with
  | UOutput ms => fold_left (fun b m => b ++ write_record f (m_rec m)) ms buf
  | _ => buf
  end.

(* the loop over a history of updates; the buffer is flushed on termination *)
Definition file_out (f : fmt) (us : list update) : list sym :=
  fold_left (file_step f) us [].

(* physical lines: (newline-terminated lines, unterminated rest) *)
Fixpoint lines_of (l : list sym) : list (list sym) * list sym :=
  match l with
  | [] => ([], [])
  | s :: l' =>
      let '(ls, rest) := lines_of l' in
      if is_nl s then ([] :: ls, rest)
      else match ls with
           | [] => ([], s :: rest)
           | l1 :: ls' => ((s :: l1) :: ls', rest)
           end
  end.

(* what a reader of the file gets out of one line *)
Inductive lineval :=
| LText (s : str)
| LRecord (f : fmt) (r : record)
| LGarbage.

Fixpoint chars_of (l : list sym) : option str :=
  match l with
  | [] => Some []
  | SChar c :: l' => match chars_of l' with Some s => Some (c :: s) | None => None end
  | SRec _ _ :: _ => None
  end.

Definition decode_line (l : list sym) : lineval :=
  match l with
  | [SRec f r] => LRecord f r
  | _ => match chars_of l with Some s => LText s | None => LGarbage end
  end.

Definition file_lines (f : fmt) (us : list update) : list lineval :=
  map decode_line (fst (lines_of (file_out f us))).

(* THE PROPERTY's demand for one message: one line that parses back to it *)
Definition expected_line (f : fmt) (r : record) : lineval :=
  match r with
  | REntry (MkEntry _ _ _ _ _ _ _ _ _ _ (Some s)) => LText s
  | _ => LRecord f r
  end.

(* records for which the code meets the demand *)
Definition no_nl (s : str) : bool := forallb (fun c => negb (N.eqb c NL)) s.

Definition clean (f : fmt) (r : record) : bool :=
  match r with
  | REntry (MkEntry _ _ _ _ _ _ _ _ _ _ (Some s)) => no_nl s
  | _ => renderable f r
  end.

(* number of lines the code writes for a record *)
Definition count_nl (s : str) : nat := length (filter (fun c => N.eqb c NL) s).

Definition line_count (f : fmt) (r : record) : nat :=
  match r with
  | REntry (MkEntry _ _ _ _ _ _ _ _ _ _ (Some s)) => S (count_nl s)
  | _ => if renderable f r then 1%nat else 0%nat
  end.

(* ------------------------------------------------------------------ mqtt-out *)

(* str::replace(pat, rep): non-overlapping matches, left to right; the
   replacement is not rescanned. [skip] = characters of a match still to be
   dropped. (pat is the constant "{id}"; for an empty pat this differs from
   Rust at the end of the string.) *)
Fixpoint starts_with (pat s : str) : bool :=
  match pat, s with
  | [], _ => true
  | p :: pat', c :: s' => N.eqb p c && starts_with pat' s'
  | _ :: _, [] => false
  end.

Fixpoint replace_go (pat rep : str) (skip : nat) (s : str) : str :=
  match s with
  | [] => []
  | c :: s' =>
      match skip with
      | S k => replace_go pat rep k s'
      | O => if starts_with pat s
             then rep ++ replace_go pat rep (pred (length pat)) s'
             else c :: replace_go pat rep O s'
      end
  end.

(* "{id}" *)
Definition id_pat : str := [123; 105; 100; 125].
Definition LBRACE : N := 123.

Definition topic_of (template topic : str) : str := replace_go id_pat topic O template.

(* ------------------------------------------------------------------ the ingress register *)

(* ingress::IngressInfo: every field optional. Strings, addresses and paths are
   numbers (the harness maps a number to a concrete value injectively). *)
Record info := MkInfo {
  i_unit : option N; i_parent : option N; i_addr : option N; i_asn : option N;
  i_rib : option N; i_file : option N; i_name : option N; i_desc : option N }.

(* ingress.rs, macro update_field!: a field the new info sets replaces the old
   one, a field it leaves unset keeps the old value *)
Definition upd_field (old new : option N) : option N :=
  match new with Some _ => new | None => old end.

Definition info_merge (old new : info) : info :=
  MkInfo (upd_field (i_unit old) (i_unit new)) (upd_field (i_parent old) (i_parent new))
         (upd_field (i_addr old) (i_addr new)) (upd_field (i_asn old) (i_asn new))
         (upd_field (i_rib old) (i_rib new)) (upd_field (i_file old) (i_file new))
         (upd_field (i_name old) (i_name new)) (upd_field (i_desc old) (i_desc new)).

Definition info_fields : list (info -> option N) :=
  [i_unit; i_parent; i_addr; i_asn; i_rib; i_file; i_name; i_desc].

(* ingress::Register as the targets see it: id -> info. It is SHARED state: the
   ingress units write it (update_info), the targets only read it (get). The
   first entry for an id is the current one. An id handed out by
   Register::register() has no entry until the first update_info for it. *)
Definition register := list (N * info).

Fixpoint reg_get (r : register) (id : N) : option info :=
  match r with
  | [] => None
  | (k, i) :: r' => if N.eqb k id then Some i else reg_get r' id
  end.

(* Register::update_info(id, new): merge into the existing entry, or insert *)
Definition merged (o : option info) (new : info) : info :=
  match o with Some old => info_merge old new | None => new end.

Definition merge_opt (o : option info) (new : info) : option info := Some (merged o new).

Definition reg_update (r : register) (id : N) (new : info) : register :=
  (id, merged (reg_get r id) new) :: r.

(* ------------------------------------------------------------------ mqtt-out: one message *)

(* the configuration values the output path reads; the component's name is
   fixed when the target is created, template and QoS are replaced by a
   Reconfigure command *)
Record mqtt_cfg := MkCfg { mc_name : str; mc_template : str; mc_qos : N }.

Definition reconf (c : mqtt_cfg) (tpl : str) (qos : N) : mqtt_cfg := MkCfg (mc_name c) tpl qos.

(* SenderMsg, what direct_update puts on pub_q: the topic and the content, the
   content being the JSON text of the pair (ingress info, record). Both are
   FINAL at this point: nothing is looked up again when the message is
   published. *)
Record sendmsg := MkSend { s_topic : str; s_ing : option info; s_rec : record }.

(* what the MQTT client is handed: client.publish(topic, qos, false, content) *)
Record pubmsg := MkPub { p_qos : N; p_msg : sendmsg }.

(* output_stream_message_to_msg: a message is selected iff its name is the
   component's name; ingress info = what the register holds for the message's
   ingress id NOW (self.ingresses.get(id), one read per message, no copy kept);
   topic from the template the configuration holds NOW *)
Definition addressed (c : mqtt_cfg) (m : osm) : bool := str_eqb (m_name m) (mc_name c).

Definition lookup_info (r : register) (m : osm) : option info :=
  match m_ing m with Some id => reg_get r id | None => None end.

Definition mk_send (c : mqtt_cfg) (r : register) (m : osm) : sendmsg :=
  MkSend (topic_of (mc_template c) (m_topic m)) (lookup_info r m) (m_rec m).

Definition to_msg (c : mqtt_cfg) (r : register) (m : osm) : option sendmsg :=
  if addressed c m then Some (mk_send c r m) else None.

Fixpoint select (c : mqtt_cfg) (r : register) (ms : list osm) : list sendmsg :=
  match ms with
  | [] => []
  | m :: ms' => match to_msg c r m with
                | Some p => p :: select c r ms'
                | None => select c r ms'
                end
  end.

(* direct_update: what one update appends to pub_q *)
Definition mqtt_enqueue (c : mqtt_cfg) (r : register) (u : update) : list sendmsg :=
  match u with UOutput ms => select c r ms | _ => [] end.

(* ------------------------------------------------------------------ mqtt-out: histories *)

(* a history of the target and of the shared state it reads:
     MUpdate    an update arrives: direct_update runs synchronously in the sender
                (Gate::update_data awaits it), turns every addressed message into
                a SenderMsg - THIS is where the register and the topic template
                are read - and puts it on pub_q
     MPublish   the publish loop takes one message off pub_q and hands it to the
                client with the QoS the configuration holds at THAT moment
     MInfo      some ingress unit calls Register::update_info(id, new): a new id
                gets its first entry, a known one has fields added or replaced
                (bmp Initiation adds sysName, a reconnecting router refreshes its
                details)
     MClient    the MQTT client becomes available (connection.process() hands it
                over) or goes away (connection stopped, until the next one is set up)
     MReconf    a Reconfigure command has been processed: self.config.store(new)
   Any interleaving of these is a history.
   Taking a message off the queue while there is no client DISCARDS it:
   publish_msg is called with connection.client() = None and do_publish then
   returns Ok(()) (target.rs, last branch of do_publish). *)
Inductive mev :=
| MUpdate (u : update)
| MPublish
| MInfo (id : N) (new : info)
| MClient (up : bool)
| MReconf (tpl : str) (qos : N).

Record mstate := MkMs { ms_cfg : mqtt_cfg; ms_reg : register; ms_client : bool;
                        ms_queue : list sendmsg; ms_published : list pubmsg }.

Definition mqtt_init (c : mqtt_cfg) : mstate := MkMs c [] false [] [].

Definition mqtt_step (s : mstate) (e : mev) : mstate :=
  match e with
  | MUpdate u => MkMs (ms_cfg s) (ms_reg s) (ms_client s)
                      (ms_queue s ++ mqtt_enqueue (ms_cfg s) (ms_reg s) u) (ms_published s)
  | MPublish => match ms_queue s with
                | [] => s
                | p :: q => MkMs (ms_cfg s) (ms_reg s) (ms_client s) q
                                 (if ms_client s then ms_published s ++ [MkPub (mc_qos (ms_cfg s)) p]
                                  else ms_published s)
                end
  | MInfo id new => MkMs (ms_cfg s) (reg_update (ms_reg s) id new) (ms_client s) (ms_queue s) (ms_published s)
  | MClient up => MkMs (ms_cfg s) (ms_reg s) up (ms_queue s) (ms_published s)
  | MReconf tpl qos => MkMs (reconf (ms_cfg s) tpl qos) (ms_reg s) (ms_client s) (ms_queue s) (ms_published s)
  end.

Definition mqtt_run_from (s : mstate) (h : list mev) : mstate := fold_left mqtt_step h s.
Definition mqtt_run (c : mqtt_cfg) (h : list mev) : mstate := mqtt_run_from (mqtt_init c) h.

(* the publish loop, with a client, runs until pub_q is empty *)
Definition mqtt_drain (s : mstate) : mstate :=
  MkMs (ms_cfg s) (ms_reg s) true [] (ms_published s ++ map (MkPub (mc_qos (ms_cfg s))) (ms_queue s)).

(* what the client was handed, without the QoS *)
Definition sent (s : mstate) : list sendmsg := map p_msg (ms_published s).

(* histories in which the publish loop only takes messages while a client exists
   ([up] = is there one at the start) *)
Fixpoint publishes_connected (up : bool) (h : list mev) : bool :=
  match h with
  | [] => true
  | MPublish :: h' => up && publishes_connected up h'
  | MClient up' :: h' => publishes_connected up' h'
  | _ :: h' => publishes_connected up h'
  end.

(* the shared state as the history drives it, independently of the target: the
   register is the result of the update_info calls so far, the configuration
   that of the Reconfigure commands so far *)
Definition reg_step (r : register) (e : mev) : register :=
  match e with MInfo id new => reg_update r id new | _ => r end.
Definition reg_after (r : register) (h : list mev) : register := fold_left reg_step h r.

Definition cfg_step (c : mqtt_cfg) (e : mev) : mqtt_cfg :=
  match e with MReconf tpl qos => reconf c tpl qos | _ => c end.
Definition cfg_after (c : mqtt_cfg) (h : list mev) : mqtt_cfg := fold_left cfg_step h c.

(* THE PROPERTY's demand: every message addressed to the target, in emission
   order, with the topic of the template configured and the ingress metadata
   the register holds WHEN THE MESSAGE IS EMITTED (= when direct_update is
   called for its update): not what the register held at some earlier time
   (a remembered copy), not what it will hold when the message is published *)
Fixpoint mqtt_spec (c : mqtt_cfg) (r : register) (h : list mev) : list sendmsg :=
  match h with
  | [] => []
  | e :: h' =>
      (match e with MUpdate u => mqtt_enqueue c r u | _ => [] end)
      ++ mqtt_spec (cfg_step c e) (reg_step r e) h'
  end.

(* the same demand said message by message: every emitted message paired with
   the configuration and the register of its moment *)
Fixpoint stamped (c : mqtt_cfg) (r : register) (h : list mev) : list (mqtt_cfg * register * osm) :=
  match h with
  | [] => []
  | e :: h' =>
      (match e with MUpdate u => map (pair (c, r)) (msgs_of u) | _ => [] end)
      ++ stamped (cfg_step c e) (reg_step r e) h'
  end.

Definition demanded (x : mqtt_cfg * register * osm) : list sendmsg :=
  let '(c, r, m) := x in if addressed c m then [mk_send c r m] else [].

(* the update_info calls of a history that concern one id, in order *)
Definition updates_for (id : N) (h : list mev) : list info :=
  flat_map (fun e => match e with
                     | MInfo k new => if N.eqb k id then [new] else []
                     | _ => []
                     end) h.

Definition fld (p : info -> option N) (o : option info) : option N :=
  match o with Some i => p i | None => None end.

(* order-preserving sub-sequence: [sub a b] = a is b with some elements left out *)
Inductive sub {A : Type} : list A -> list A -> Prop :=
| sub_nil : forall l, sub [] l
| sub_keep : forall x l1 l2, sub l1 l2 -> sub (x :: l1) (x :: l2)
| sub_skip : forall x l1 l2, sub l1 l2 -> sub l1 (x :: l2).

(* entry points for the correspondence oracle *)
Definition file_observe (f : fmt) (us : list update) : list lineval * list sym :=
  (file_lines f us, snd (lines_of (file_out f us))).
Definition file_expect (f : fmt) (us : list update) : list lineval :=
  map (expected_line f) (records us).
Definition mqtt_observe (c : mqtt_cfg) (h : list mev) : list pubmsg :=
  ms_published (mqtt_drain (mqtt_run c h)).
