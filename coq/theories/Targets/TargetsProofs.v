(* Proofs about the targets model (property C17). *)
From Coq Require Import List NArith Bool Lia.
From RV Require Import Targets.TargetsModel.
Import ListNotations.
Local Open Scope N_scope.

(* ------------------------------------------------------------------ file-out: the loop *)

Definition wr (f : fmt) (m : osm) : list sym := write_record f (m_rec m).

Lemma fold_write_app : forall f ms buf,
  fold_left (fun b m => b ++ write_record f (m_rec m)) ms buf = buf ++ flat_map (wr f) ms.
Proof.
  intros f ms. induction ms as [|m ms IH]; intros buf; cbn [fold_left flat_map].
  - now rewrite app_nil_r.
  - rewrite IH. unfold wr at 2. now rewrite app_assoc.
Qed.

Lemma file_step_app : forall f buf u,
  file_step f buf u = buf ++ flat_map (wr f) (msgs_of u).
Proof.
  intros f buf u. destruct u; cbn [file_step msgs_of flat_map]; try now rewrite app_nil_r.
  apply fold_write_app.
Qed.

Lemma file_loop_from : forall f us buf,
  fold_left (file_step f) us buf = buf ++ flat_map (wr f) (messages us).
Proof.
  intros f us. induction us as [|u us IH]; intros buf; cbn [fold_left].
  - cbn. now rewrite app_nil_r.
  - rewrite IH, file_step_app. unfold messages. cbn [flat_map].
    rewrite flat_map_app. now rewrite app_assoc.
Qed.

Lemma file_once_in_order : forall f us,
  file_out f us = flat_map (fun m => write_record f (m_rec m)) (messages us).
Proof. intros f us. unfold file_out. now rewrite file_loop_from. Qed.

Lemma messages_app : forall us1 us2, messages (us1 ++ us2) = messages us1 ++ messages us2.
Proof. intros. unfold messages. apply flat_map_app. Qed.

Lemma file_out_app : forall f us1 us2,
  file_out f (us1 ++ us2) = file_out f us1 ++ file_out f us2.
Proof. intros. rewrite !file_once_in_order, messages_app. apply flat_map_app. Qed.

Lemma msgs_of_not_output : forall u, is_output u = false -> msgs_of u = [].
Proof. intros u H. destruct u; try reflexivity. discriminate H. Qed.

Lemma messages_filter : forall us, messages (filter is_output us) = messages us.
Proof.
  induction us as [|u us IH]; [reflexivity|]. cbn [filter].
  destruct (is_output u) eqn:E; unfold messages in *; cbn [flat_map].
  - now rewrite IH.
  - now rewrite (msgs_of_not_output u E), IH.
Qed.

Lemma file_out_filter : forall f us, file_out f (filter is_output us) = file_out f us.
Proof. intros. now rewrite !file_once_in_order, messages_filter. Qed.

Lemma routes_produce_nothing : forall f us,
  (forall u, In u us -> is_output u = false) -> file_out f us = [].
Proof.
  intros f us H. rewrite file_once_in_order.
  assert (E : messages us = []).
  { induction us as [|u us IH]; [reflexivity|]. unfold messages in *. cbn [flat_map].
    rewrite (msgs_of_not_output u) by (apply H; now left).
    apply IH. intros v Hv. apply H. now right. }
  now rewrite E.
Qed.

Lemma file_out_insert : forall f us1 u us2,
  is_output u = false -> file_out f (us1 ++ u :: us2) = file_out f (us1 ++ us2).
Proof.
  intros f us1 u us2 H. rewrite !file_once_in_order, !messages_app.
  unfold messages at 2. cbn [flat_map]. now rewrite (msgs_of_not_output u H).
Qed.

(* ------------------------------------------------------------------ file-out: lines *)

Lemma lines_of_app_terminated : forall a b,
  snd (lines_of a) = [] ->
  lines_of (a ++ b) = (fst (lines_of a) ++ fst (lines_of b), snd (lines_of b)).
Proof.
  induction a as [|s a IH]; intros b H.
  - cbn. now destruct (lines_of b).
  - cbn [app lines_of] in *. destruct (lines_of a) as [ls rest] eqn:Ea.
    destruct (is_nl s).
    + cbn [snd] in H. subst rest. rewrite (IH b eq_refl). reflexivity.
    + destruct ls as [|l1 ls'].
      * cbn [snd] in H. discriminate H.
      * cbn [snd] in H. subst rest. rewrite (IH b eq_refl). reflexivity.
Qed.

Lemma lines_of_flat_map : forall (A : Type) (g : A -> list sym) xs,
  (forall x, snd (lines_of (g x)) = []) ->
  lines_of (flat_map g xs) = (flat_map (fun x => fst (lines_of (g x))) xs, []).
Proof.
  intros A g xs H. induction xs as [|x xs IH]; [reflexivity|].
  cbn [flat_map]. rewrite lines_of_app_terminated by apply H. now rewrite IH.
Qed.

(* a line body without newline, followed by the newline *)
Lemma lines_of_one : forall l,
  forallb (fun s => negb (is_nl s)) l = true ->
  lines_of (l ++ [SChar NL]) = ([l], []).
Proof.
  induction l as [|s l IH]; intros H.
  - reflexivity.
  - cbn [forallb] in H. apply andb_true_iff in H as [Hs Hl].
    cbn [app lines_of]. rewrite (IH Hl).
    apply negb_true_iff in Hs. now rewrite Hs.
Qed.

Lemma text_lines : forall s,
  snd (lines_of (map SChar s ++ [SChar NL])) = [] /\
  length (fst (lines_of (map SChar s ++ [SChar NL]))) = S (count_nl s).
Proof.
  induction s as [|c s [IH1 IH2]].
  - split; reflexivity.
  - cbn [map app lines_of]. destruct (lines_of (map SChar s ++ [SChar NL])) as [ls rest].
    cbn [fst snd] in *. subst rest. unfold count_nl in *. cbn [is_nl filter].
    destruct (N.eqb c NL).
    + cbn [fst snd length]. split; [reflexivity | now rewrite IH2].
    + destruct ls as [|l1 ls']; [discriminate IH2|]. cbn [fst snd length] in *. now split.
Qed.

Lemma write_record_terminated : forall f r, snd (lines_of (write_record f r)) = [].
Proof.
  intros f r. unfold write_record.
  destruct r as [rt|ip asn|id v|e]; try (destruct (renderable f _); reflexivity).
  destruct e as [? ? ? ? ? ? ? ? ? ? [s|]].
  - apply text_lines.
  - destruct (renderable f _); reflexivity.
Qed.

(* the lines of the file are the lines of each message's output, message after
   message, in emission order, and the file ends with a newline *)
Lemma file_lines_per_message : forall f us,
  lines_of (file_out f us) =
  (flat_map (fun r => fst (lines_of (write_record f r))) (records us), []).
Proof.
  intros f us. rewrite file_once_in_order. unfold records.
  rewrite lines_of_flat_map by (intros; apply write_record_terminated).
  f_equal. induction (messages us) as [|m ms IH]; [reflexivity|].
  cbn [flat_map map]. now rewrite IH.
Qed.

Lemma record_line_count : forall f r,
  length (fst (lines_of (write_record f r))) = line_count f r.
Proof.
  intros f r. unfold write_record, line_count.
  destruct r as [rt|ip asn|id v|e]; try (destruct (renderable f _); reflexivity).
  destruct e as [? ? ? ? ? ? ? ? ? ? [s|]].
  - apply text_lines.
  - destruct (renderable f _); reflexivity.
Qed.

Fixpoint sum_nat (l : list nat) : nat := match l with [] => 0%nat | x :: l' => (x + sum_nat l')%nat end.

Lemma file_line_count : forall f us,
  length (fst (lines_of (file_out f us))) = sum_nat (map (line_count f) (records us)) /\
  snd (lines_of (file_out f us)) = [].
Proof.
  intros f us. rewrite file_lines_per_message. cbn [fst snd]. split; [|reflexivity].
  induction (records us) as [|r rs IH]; [reflexivity|].
  cbn [flat_map map sum_nat]. now rewrite app_length, record_line_count, IH.
Qed.

Lemma chars_of_map : forall s, chars_of (map SChar s) = Some s.
Proof. induction s as [|c s IH]; [reflexivity|]. cbn [map chars_of]. now rewrite IH. Qed.

Lemma decode_text : forall s, decode_line (map SChar s) = LText s.
Proof.
  intros s. destruct s as [|c s]; [reflexivity|].
  unfold decode_line. cbn [map]. now rewrite <- (map_cons SChar c s), chars_of_map.
Qed.

Lemma no_nl_syms : forall s, no_nl s = true -> forallb (fun x => negb (is_nl x)) (map SChar s) = true.
Proof.
  induction s as [|c s IH]; intros H; [reflexivity|].
  unfold no_nl in *. cbn [forallb map is_nl] in *. apply andb_true_iff in H as [H1 H2].
  now rewrite H1, (IH H2).
Qed.

Lemma clean_record_line : forall f r,
  clean f r = true ->
  map decode_line (fst (lines_of (write_record f r))) = [expected_line f r].
Proof.
  intros f r H. unfold write_record, clean, expected_line in *.
  destruct r as [rt|ip asn|id v|e]; try (rewrite H; reflexivity).
  destruct e as [? ? ? ? ? ? ? ? ? ? [s|]].
  - rewrite lines_of_one by now apply no_nl_syms. cbn [fst map]. now rewrite decode_text.
  - rewrite H. reflexivity.
Qed.

Lemma one_line_each_partial : forall f us,
  forallb (clean f) (records us) = true ->
  file_lines f us = map (expected_line f) (records us) /\
  snd (lines_of (file_out f us)) = [].
Proof.
  intros f us H. unfold file_lines. rewrite file_lines_per_message. cbn [fst snd].
  split; [|reflexivity].
  induction (records us) as [|r rs IH]; [reflexivity|].
  cbn [forallb] in H. apply andb_true_iff in H as [Hr Hrs].
  cbn [flat_map map]. rewrite map_app, (clean_record_line f r Hr), (IH Hrs). reflexivity.
Qed.

(* a record that is not clean never gets exactly its one line *)
Lemma unclean_record_line : forall f r,
  clean f r = false -> line_count f r <> 1%nat.
Proof.
  intros f r H. unfold clean, line_count in *.
  destruct r as [rt|ip asn|id v|e]; try (rewrite H; discriminate).
  destruct e as [? ? ? ? ? ? ? ? ? ? [s|]].
  - unfold no_nl, count_nl in *. intros E. injection E as E.
    induction s as [|c s IH]; [discriminate H|].
    cbn [forallb filter] in *. destruct (N.eqb c NL); cbn [negb andb length] in *.
    + discriminate E.
    + auto.
  - rewrite H. discriminate.
Qed.

Definition mk_text_entry (s : str) : entry :=
  MkEntry 0 None None None 0 0 None None None None (Some s).

Lemma one_line_each_refuted_newline :
  exists f us, file_lines f us <> map (expected_line f) (records us).
Proof.
  exists FJson, [UOutput [MkOsm [] [] (REntry (mk_text_entry [104; 10; 105])) None]].
  vm_compute. discriminate.
Qed.

Lemma one_line_each_refuted_csv :
  exists us, file_lines FCsv us <> map (expected_line FCsv) (records us).
Proof.
  exists [UOutput [MkOsm [] [] (RRoute (Some (MkRoute 1 false))) None]].
  vm_compute. discriminate.
Qed.

(* ------------------------------------------------------------------ mqtt-out *)

Lemma str_eqb_eq : forall a b, str_eqb a b = true <-> a = b.
Proof.
  induction a as [|x a IH]; intros [|y b]; cbn [str_eqb]; split; intros H;
    try reflexivity; try discriminate H.
  - apply andb_true_iff in H as [H1 H2]. apply N.eqb_eq in H1. apply IH in H2. now subst.
  - injection H as -> ->. rewrite N.eqb_refl. cbn. now apply IH.
Qed.

Lemma select_filter : forall c r ms,
  select c r ms = map (mk_pub c r) (filter (addressed c) ms).
Proof.
  intros c r ms. induction ms as [|m ms IH]; [reflexivity|].
  cbn [select filter]. unfold to_msg. destruct (addressed c m); cbn [map]; now rewrite IH.
Qed.

Lemma addressed_iff : forall c m, addressed c m = true <-> m_name m = mc_name c.
Proof. intros. apply str_eqb_eq. Qed.

Lemma mqtt_ignores_non_output : forall c r u, is_output u = false -> mqtt_enqueue c r u = [].
Proof. intros c r u H. destruct u; try reflexivity. discriminate H. Qed.

Lemma mqtt_invariant : forall c h s,
  publishes_connected (ms_client s) h = true ->
  let s' := fold_left (mqtt_step c) h s in
  ms_published s' ++ ms_queue s' = ms_published s ++ ms_queue s ++ mqtt_spec c (ms_reg s) h.
Proof.
  intros c h. induction h as [|e h IH]; intros s Hc; cbn [fold_left mqtt_spec].
  - cbn. now rewrite app_nil_r.
  - cbn zeta in IH. destruct e as [u| |id info|up]; cbn [publishes_connected] in Hc.
    + rewrite IH by exact Hc. cbn [mqtt_step ms_published ms_queue ms_reg]. now rewrite <- !app_assoc.
    + apply andb_true_iff in Hc as [Hup Hc]. cbn [mqtt_step].
      destruct (ms_queue s) as [|p q] eqn:Eq.
      * rewrite IH by exact Hc. now rewrite Eq.
      * rewrite Hup in *. rewrite IH by (cbn [ms_client]; exact Hc).
        cbn [ms_published ms_queue ms_reg]. now rewrite <- !app_assoc.
    + rewrite IH by exact Hc. reflexivity.
    + rewrite IH by exact Hc. reflexivity.
Qed.

Lemma mqtt_once_in_order : forall c h,
  publishes_connected false h = true ->
  ms_published (mqtt_drain (mqtt_run c h)) = mqtt_spec c [] h.
Proof.
  intros c h Hc. unfold mqtt_drain, mqtt_run, mqtt_run_from. cbn [ms_published].
  pose proof (mqtt_invariant c h mqtt_init Hc) as H. cbn zeta in H. rewrite H. reflexivity.
Qed.

(* at every moment what has been published is a prefix of what the property
   demands: nothing is ever published twice, out of order, or invented *)
Lemma mqtt_published_prefix : forall c h,
  publishes_connected false h = true ->
  exists rest, mqtt_spec c [] h = ms_published (mqtt_run c h) ++ rest.
Proof.
  intros c h Hc. exists (ms_queue (mqtt_run c h)). unfold mqtt_run, mqtt_run_from.
  pose proof (mqtt_invariant c h mqtt_init Hc) as H. cbn zeta in H. now rewrite H.
Qed.

(* a message taken off the queue while there is no client is lost *)
Lemma mqtt_publish_without_client_refuted :
  exists c h, ms_published (mqtt_drain (mqtt_run c h)) <> mqtt_spec c [] h.
Proof.
  exists (MkCfg [109] [123; 105; 100; 125] 2),
         [MUpdate (UOutput [MkOsm [109] [116] (RCustom 1 2) None]); MPublish; MClient true].
  vm_compute. discriminate.
Qed.

(* whatever the client state: what is published (plus what is still queued) is
   the demanded sequence with some messages left out - never a duplicate, never
   out of order, never a message nobody emitted *)
Lemma sub_refl : forall (A : Type) (l : list A), sub l l.
Proof. induction l as [|x l IH]; [apply sub_nil | now apply sub_keep]. Qed.

Lemma sub_app_l : forall (A : Type) (a l1 l2 : list A), sub l1 l2 -> sub (a ++ l1) (a ++ l2).
Proof. induction a as [|x a IH]; intros l1 l2 H; [exact H|]. cbn [app]. apply sub_keep. now apply IH. Qed.

Lemma sub_trans : forall (A : Type) (l2 l3 : list A), sub l2 l3 -> forall l1, sub l1 l2 -> sub l1 l3.
Proof.
  intros A l2 l3 H. induction H as [l|x l2 l3 H IH|x l2 l3 H IH]; intros l1 H1.
  - inversion H1; subst. apply sub_nil.
  - inversion H1; subst.
    + apply sub_nil.
    + apply sub_keep. now apply IH.
    + apply sub_skip. now apply IH.
  - apply sub_skip. now apply IH.
Qed.

Lemma mqtt_never_invents : forall c h s,
  let s' := fold_left (mqtt_step c) h s in
  sub (ms_published s' ++ ms_queue s') (ms_published s ++ ms_queue s ++ mqtt_spec c (ms_reg s) h).
Proof.
  intros c h. induction h as [|e h IH]; intros s; cbn [fold_left mqtt_spec].
  - cbn. rewrite app_nil_r. apply sub_refl.
  - cbn zeta in IH. destruct e as [u| |id info|up].
    + specialize (IH (mqtt_step c s (MUpdate u))). cbn [mqtt_step ms_published ms_queue ms_reg] in IH.
      now rewrite <- !app_assoc in IH.
    + specialize (IH (mqtt_step c s MPublish)). cbn [mqtt_step] in *.
      destruct (ms_queue s) as [|p q] eqn:Eq.
      * now rewrite Eq in IH.
      * cbn [ms_published ms_queue ms_reg] in IH. destruct (ms_client s).
        -- now rewrite <- !app_assoc in IH.
        -- eapply sub_trans; [|exact IH]. apply sub_app_l. cbn [app]. apply sub_skip. apply sub_refl.
    + exact (IH (mqtt_step c s (MRegister id info))).
    + exact (IH (mqtt_step c s (MClient up))).
Qed.

Lemma mqtt_published_sub_spec : forall c h,
  sub (ms_published (mqtt_drain (mqtt_run c h))) (mqtt_spec c [] h).
Proof.
  intros c h. unfold mqtt_drain, mqtt_run, mqtt_run_from. cbn [ms_published].
  exact (mqtt_never_invents c h mqtt_init).
Qed.

(* topic template *)
Lemma replace_go_skip : forall pat rep l1 l2,
  replace_go pat rep (length l1) (l1 ++ l2) = replace_go pat rep O l2.
Proof.
  intros pat rep l1. induction l1 as [|c l1 IH]; intros l2; [reflexivity|].
  cbn [length app replace_go]. apply IH.
Qed.

Lemma replace_no_brace : forall rep pre s,
  ~ In LBRACE pre ->
  replace_go id_pat rep O (pre ++ s) = pre ++ replace_go id_pat rep O s.
Proof.
  intros rep pre. induction pre as [|c pre IH]; intros s H; [reflexivity|].
  cbn [app replace_go].
  assert (Hc : N.eqb 123 c = false).
  { apply N.eqb_neq. intros E. apply H. left. symmetry. exact E. }
  unfold id_pat at 1. cbn [starts_with]. rewrite Hc. cbn [andb].
  f_equal. apply IH. intros Hin. apply H. now right.
Qed.

Lemma replace_at_pat : forall rep post,
  replace_go id_pat rep O (id_pat ++ post) = rep ++ replace_go id_pat rep O post.
Proof. intros rep post. reflexivity. Qed.

Lemma topic_template : forall pre post topic,
  ~ In LBRACE pre ->
  topic_of (pre ++ id_pat ++ post) topic = pre ++ topic ++ topic_of post topic.
Proof.
  intros pre post topic H. unfold topic_of.
  rewrite replace_no_brace by exact H. now rewrite replace_at_pat.
Qed.

Lemma topic_no_placeholder : forall tpl topic, ~ In LBRACE tpl -> topic_of tpl topic = tpl.
Proof.
  intros tpl topic H. unfold topic_of.
  rewrite <- (app_nil_r tpl) at 1. rewrite replace_no_brace by exact H.
  cbn. now rewrite app_nil_r.
Qed.
