(* Proofs about the targets model (property C17). *)
From Coq Require Import List NArith Bool Lia.
From RV Require Import Targets.TargetsModel.
Import ListNotations.
Local Open Scope N_scope.

(* ------------------------------------------------------------------ file-out: the loop *)

Definition wr (f : fmt) (m : osm) : list sym := write_record f (m_rec m).

Lemma fold_write_app : forall f ms buf,
  fold_left (fun b m => b ++ write_record f (m_rec m)) ms buf = buf ++ flat_map (wr f) ms.
Proof.
  intros f ms. induction ms as [|m ms IH]; intros buf; cbn [fold_left flat_map].
  - now rewrite app_nil_r.
  - rewrite IH. unfold wr at 2. now rewrite app_assoc.
Qed.

Lemma file_step_app : forall f buf u,
  file_step f buf u = buf ++ flat_map (wr f) (msgs_of u).
Proof.
  intros f buf u. destruct u; cbn [file_step msgs_of flat_map]; try now rewrite app_nil_r.
  apply fold_write_app.
Qed.

Lemma file_loop_from : forall f us buf,
  fold_left (file_step f) us buf = buf ++ flat_map (wr f) (messages us).
Proof.
  intros f us. induction us as [|u us IH]; intros buf; cbn [fold_left].
  - cbn. now rewrite app_nil_r.
  - rewrite IH, file_step_app. unfold messages. cbn [flat_map].
    rewrite flat_map_app. now rewrite app_assoc.
Qed.

Lemma file_once_in_order : forall f us,
  file_out f us = flat_map (fun m => write_record f (m_rec m)) (messages us).
Proof. intros f us. unfold file_out. now rewrite file_loop_from. Qed.

Lemma messages_app : forall us1 us2, messages (us1 ++ us2) = messages us1 ++ messages us2.
Proof. intros. unfold messages. apply flat_map_app. Qed.

Lemma file_out_app : forall f us1 us2,
  file_out f (us1 ++ us2) = file_out f us1 ++ file_out f us2.
Proof. intros. rewrite !file_once_in_order, messages_app. apply flat_map_app. Qed.

Lemma msgs_of_not_output : forall u, is_output u = false -> msgs_of u = [].
Proof. intros u H. destruct u; try reflexivity. discriminate H. Qed.

Lemma messages_filter : forall us, messages (filter is_output us) = messages us.
Proof.
  induction us as [|u us IH]; [reflexivity|]. cbn [filter].
  destruct (is_output u) eqn:E; unfold messages in *; cbn [flat_map].
  - now rewrite IH.
  - now rewrite (msgs_of_not_output u E), IH.
Qed.

Lemma file_out_filter : forall f us, file_out f (filter is_output us) = file_out f us.
Proof. intros. now rewrite !file_once_in_order, messages_filter. Qed.

Lemma routes_produce_nothing : forall f us,
  (forall u, In u us -> is_output u = false) -> file_out f us = [].
Proof.
  intros f us H. rewrite file_once_in_order.
  assert (E : messages us = []).
  { induction us as [|u us IH]; [reflexivity|]. unfold messages in *. cbn [flat_map].
    rewrite (msgs_of_not_output u) by (apply H; now left).
    apply IH. intros v Hv. apply H. now right. }
  now rewrite E.
Qed.

Lemma file_out_insert : forall f us1 u us2,
  is_output u = false -> file_out f (us1 ++ u :: us2) = file_out f (us1 ++ us2).
Proof.
  intros f us1 u us2 H. rewrite !file_once_in_order, !messages_app.
  unfold messages at 2. cbn [flat_map]. now rewrite (msgs_of_not_output u H).
Qed.

(* ------------------------------------------------------------------ file-out: lines *)

Lemma lines_of_app_terminated : forall a b,
  snd (lines_of a) = [] ->
  lines_of (a ++ b) = (fst (lines_of a) ++ fst (lines_of b), snd (lines_of b)).
Proof.
  induction a as [|s a IH]; intros b H.
  - cbn. now destruct (lines_of b).
  - cbn [app lines_of] in *. destruct (lines_of a) as [ls rest] eqn:Ea.
    destruct (is_nl s).
    + cbn [snd] in H. subst rest. rewrite (IH b eq_refl). reflexivity.
    + destruct ls as [|l1 ls'].
      * cbn [snd] in H. discriminate H.
      * cbn [snd] in H. subst rest. rewrite (IH b eq_refl). reflexivity.
Qed.

Lemma lines_of_flat_map : forall (A : Type) (g : A -> list sym) xs,
  (forall x, snd (lines_of (g x)) = []) ->
  lines_of (flat_map g xs) = (flat_map (fun x => fst (lines_of (g x))) xs, []).
Proof.
  intros A g xs H. induction xs as [|x xs IH]; [reflexivity|].
  cbn [flat_map]. rewrite lines_of_app_terminated by apply H. now rewrite IH.
Qed.

(* a line body without newline, followed by the newline *)
Lemma lines_of_one : forall l,
  forallb (fun s => negb (is_nl s)) l = true ->
  lines_of (l ++ [SChar NL]) = ([l], []).
Proof.
  induction l as [|s l IH]; intros H.
  - reflexivity.
  - cbn [forallb] in H. apply andb_true_iff in H as [Hs Hl].
    cbn [app lines_of]. rewrite (IH Hl).
    apply negb_true_iff in Hs. now rewrite Hs.
Qed.

Lemma text_lines : forall s,
  snd (lines_of (map SChar s ++ [SChar NL])) = [] /\
  length (fst (lines_of (map SChar s ++ [SChar NL]))) = S (count_nl s).
Proof.
  induction s as [|c s [IH1 IH2]].
  - split; reflexivity.
  - cbn [map app lines_of]. destruct (lines_of (map SChar s ++ [SChar NL])) as [ls rest].
    cbn [fst snd] in *. subst rest. unfold count_nl in *. cbn [is_nl filter].
    destruct (N.eqb c NL).
    + cbn [fst snd length]. split; [reflexivity | now rewrite IH2].
    + destruct ls as [|l1 ls']; [discriminate IH2|]. cbn [fst snd length] in *. now split.
Qed.

Lemma write_record_terminated : forall f r, snd (lines_of (write_record f r)) = [].
Proof.
  intros f r. unfold write_record.
  destruct r as [rt|ip asn|id v|e]; try (destruct (renderable f _); reflexivity).
  destruct e as [? ? ? ? ? ? ? ? ? ? [s|]].
  - apply text_lines.
  - destruct (renderable f _); reflexivity.
Qed.

(* the lines of the file are the lines of each message's output, message after
   message, in emission order, and the file ends with a newline *)
Lemma file_lines_per_message : forall f us,
  lines_of (file_out f us) =
  (flat_map (fun r => fst (lines_of (write_record f r))) (records us), []).
Proof.
  intros f us. rewrite file_once_in_order. unfold records.
  rewrite lines_of_flat_map by (intros; apply write_record_terminated).
  f_equal. induction (messages us) as [|m ms IH]; [reflexivity|].
  cbn [flat_map map]. now rewrite IH.
Qed.

Lemma record_line_count : forall f r,
  length (fst (lines_of (write_record f r))) = line_count f r.
Proof.
  intros f r. unfold write_record, line_count.
  destruct r as [rt|ip asn|id v|e]; try (destruct (renderable f _); reflexivity).
  destruct e as [? ? ? ? ? ? ? ? ? ? [s|]].
  - apply text_lines.
  - destruct (renderable f _); reflexivity.
Qed.

Fixpoint sum_nat (l : list nat) : nat := match l with [] => 0%nat | x :: l' => (x + sum_nat l')%nat end.

Lemma file_line_count : forall f us,
  length (fst (lines_of (file_out f us))) = sum_nat (map (line_count f) (records us)) /\
  snd (lines_of (file_out f us)) = [].
Proof.
  intros f us. rewrite file_lines_per_message. cbn [fst snd]. split; [|reflexivity].
  induction (records us) as [|r rs IH]; [reflexivity|].
  cbn [flat_map map sum_nat]. now rewrite app_length, record_line_count, IH.
Qed.

Lemma chars_of_map : forall s, chars_of (map SChar s) = Some s.
Proof. induction s as [|c s IH]; [reflexivity|]. cbn [map chars_of]. now rewrite IH. Qed.

Lemma decode_text : forall s, decode_line (map SChar s) = LText s.
Proof.
  intros s. destruct s as [|c s]; [reflexivity|].
  unfold decode_line. cbn [map]. now rewrite <- (map_cons SChar c s), chars_of_map.
Qed.

Lemma no_nl_syms : forall s, no_nl s = true -> forallb (fun x => negb (is_nl x)) (map SChar s) = true.
Proof.
  induction s as [|c s IH]; intros H; [reflexivity|].
  unfold no_nl in *. cbn [forallb map is_nl] in *. apply andb_true_iff in H as [H1 H2].
  now rewrite H1, (IH H2).
Qed.

Lemma clean_record_line : forall f r,
  clean f r = true ->
  map decode_line (fst (lines_of (write_record f r))) = [expected_line f r].
Proof.
  intros f r H. unfold write_record, clean, expected_line in *.
  destruct r as [rt|ip asn|id v|e]; try (rewrite H; reflexivity).
  destruct e as [? ? ? ? ? ? ? ? ? ? [s|]].
  - rewrite lines_of_one by now apply no_nl_syms. cbn [fst map]. now rewrite decode_text.
  - rewrite H. reflexivity.
Qed.

Lemma one_line_each_partial : forall f us,
  forallb (clean f) (records us) = true ->
  file_lines f us = map (expected_line f) (records us) /\
  snd (lines_of (file_out f us)) = [].
Proof.
  intros f us H. unfold file_lines. rewrite file_lines_per_message. cbn [fst snd].
  split; [|reflexivity].
  induction (records us) as [|r rs IH]; [reflexivity|].
  cbn [forallb] in H. apply andb_true_iff in H as [Hr Hrs].
  cbn [flat_map map]. rewrite map_app, (clean_record_line f r Hr), (IH Hrs). reflexivity.
Qed.

(* a record that is not clean never gets exactly its one line *)
Lemma unclean_record_line : forall f r,
  clean f r = false -> line_count f r <> 1%nat.
Proof.
  intros f r H. unfold clean, line_count in *.
  destruct r as [rt|ip asn|id v|e]; try (rewrite H; discriminate).
  destruct e as [? ? ? ? ? ? ? ? ? ? [s|]].
  - unfold no_nl, count_nl in *. intros E. injection E as E.
    induction s as [|c s IH]; [discriminate H|].
    cbn [forallb filter] in *. destruct (N.eqb c NL); cbn [negb andb length] in *.
    + discriminate E.
    + auto.
  - rewrite H. discriminate.
Qed.

Definition mk_text_entry (s : str) : entry :=
  MkEntry 0 None None None 0 0 None None None None (Some s).

Lemma one_line_each_refuted_newline :
  exists f us, file_lines f us <> map (expected_line f) (records us).
Proof.
  exists FJson, [UOutput [MkOsm [] [] (REntry (mk_text_entry [104; 10; 105])) None]].
  vm_compute. discriminate.
Qed.

Lemma one_line_each_refuted_csv :
  exists us, file_lines FCsv us <> map (expected_line FCsv) (records us).
Proof.
  exists [UOutput [MkOsm [] [] (RRoute (Some (MkRoute 1 false))) None]].
  vm_compute. discriminate.
Qed.

(* ------------------------------------------------------------------ mqtt-out *)

Lemma str_eqb_eq : forall a b, str_eqb a b = true <-> a = b.
Proof.
  induction a as [|x a IH]; intros [|y b]; cbn [str_eqb]; split; intros H;
    try reflexivity; try discriminate H.
  - apply andb_true_iff in H as [H1 H2]. apply N.eqb_eq in H1. apply IH in H2. now subst.
  - injection H as -> ->. rewrite N.eqb_refl. cbn. now apply IH.
Qed.

Lemma select_filter : forall c r ms,
  select c r ms = map (mk_send c r) (filter (addressed c) ms).
Proof.
  intros c r ms. induction ms as [|m ms IH]; [reflexivity|].
  cbn [select filter]. unfold to_msg. destruct (addressed c m); cbn [map]; now rewrite IH.
Qed.

Lemma addressed_iff : forall c m, addressed c m = true <-> m_name m = mc_name c.
Proof. intros. apply str_eqb_eq. Qed.

Lemma mqtt_ignores_non_output : forall c r u, is_output u = false -> mqtt_enqueue c r u = [].
Proof. intros c r u H. destruct u; try reflexivity. discriminate H. Qed.

(* a reconfiguration cannot change the name the target answers to *)
Lemma cfg_after_name : forall h c, mc_name (cfg_after c h) = mc_name c.
Proof.
  induction h as [|e h IH]; intros c; [reflexivity|].
  unfold cfg_after in *. cbn [fold_left]. rewrite IH. now destruct e.
Qed.

Lemma addressed_cfg_after : forall h c m, addressed (cfg_after c h) m = addressed c m.
Proof. intros. unfold addressed. now rewrite cfg_after_name. Qed.

(* the shared state inside the target's state is exactly what the history made
   of it: the target never writes the register, and keeps no second copy *)
Lemma run_shared_state : forall h s,
  ms_reg (fold_left mqtt_step h s) = reg_after (ms_reg s) h /\
  ms_cfg (fold_left mqtt_step h s) = cfg_after (ms_cfg s) h.
Proof.
  induction h as [|e h IH]; intros s; [split; reflexivity|].
  unfold reg_after, cfg_after in *. cbn [fold_left].
  destruct (IH (mqtt_step s e)) as [IHr IHc]. rewrite IHr, IHc.
  destruct e as [u| |id new|up|tpl q]; cbn [mqtt_step reg_step cfg_step ms_reg ms_cfg]; try (split; reflexivity).
  destruct (ms_queue s); split; reflexivity.
Qed.

Definition pending (s : mstate) : list sendmsg := sent s ++ ms_queue s.

Lemma sent_drain : forall s, sent (mqtt_drain s) = pending s.
Proof.
  intros s. unfold sent, pending, mqtt_drain. cbn [ms_published].
  rewrite map_app, map_map. cbn [p_msg]. now rewrite map_id.
Qed.

Lemma mqtt_invariant : forall h s,
  publishes_connected (ms_client s) h = true ->
  pending (fold_left mqtt_step h s) = pending s ++ mqtt_spec (ms_cfg s) (ms_reg s) h.
Proof.
  induction h as [|e h IH]; intros s Hc; cbn [fold_left mqtt_spec].
  - now rewrite app_nil_r.
  - destruct e as [u| |id new|up|tpl q]; cbn [publishes_connected] in Hc.
    + rewrite IH by exact Hc. unfold pending, sent.
      cbn [mqtt_step ms_published ms_queue ms_reg ms_cfg cfg_step reg_step]. now rewrite <- !app_assoc.
    + apply andb_true_iff in Hc as [Hup Hc]. cbn [mqtt_step cfg_step reg_step app].
      destruct (ms_queue s) as [|p q] eqn:Eq.
      * now rewrite IH by exact Hc.
      * rewrite Hup in *. rewrite IH by (cbn [ms_client]; exact Hc).
        unfold pending, sent. cbn [ms_published ms_queue ms_reg ms_cfg]. rewrite Eq.
        rewrite map_app. cbn [map p_msg app]. now rewrite <- !app_assoc.
    + rewrite IH by exact Hc. reflexivity.
    + rewrite IH by exact Hc. reflexivity.
    + rewrite IH by exact Hc. reflexivity.
Qed.

Lemma mqtt_once_in_order : forall c h,
  publishes_connected false h = true ->
  sent (mqtt_drain (mqtt_run c h)) = mqtt_spec c [] h.
Proof.
  intros c h Hc. rewrite sent_drain. unfold mqtt_run, mqtt_run_from.
  now rewrite (mqtt_invariant h (mqtt_init c) Hc).
Qed.

(* at every moment what has been published is a prefix of what the property
   demands: nothing is ever published twice, out of order, or invented *)
Lemma mqtt_published_prefix : forall c h,
  publishes_connected false h = true ->
  exists rest, mqtt_spec c [] h = sent (mqtt_run c h) ++ rest.
Proof.
  intros c h Hc. exists (ms_queue (mqtt_run c h)). unfold mqtt_run, mqtt_run_from.
  pose proof (mqtt_invariant h (mqtt_init c) Hc) as H. unfold pending in H. now rewrite H.
Qed.

(* a message taken off the queue while there is no client is lost *)
Lemma mqtt_publish_without_client_refuted :
  exists c h, sent (mqtt_drain (mqtt_run c h)) <> mqtt_spec c [] h.
Proof.
  exists (MkCfg [109] [123; 105; 100; 125] 2),
         [MUpdate (UOutput [MkOsm [109] [116] (RCustom 1 2) None]); MPublish; MClient true].
  vm_compute. discriminate.
Qed.

(* whatever the client state: what is published (plus what is still queued) is
   the demanded sequence with some messages left out - never a duplicate, never
   out of order, never a message nobody emitted *)
Lemma sub_refl : forall (A : Type) (l : list A), sub l l.
Proof. induction l as [|x l IH]; [apply sub_nil | now apply sub_keep]. Qed.

Lemma sub_app_l : forall (A : Type) (a l1 l2 : list A), sub l1 l2 -> sub (a ++ l1) (a ++ l2).
Proof. induction a as [|x a IH]; intros l1 l2 H; [exact H|]. cbn [app]. apply sub_keep. now apply IH. Qed.

Lemma sub_trans : forall (A : Type) (l2 l3 : list A), sub l2 l3 -> forall l1, sub l1 l2 -> sub l1 l3.
Proof.
  intros A l2 l3 H. induction H as [l|x l2 l3 H IH|x l2 l3 H IH]; intros l1 H1.
  - inversion H1; subst. apply sub_nil.
  - inversion H1; subst.
    + apply sub_nil.
    + apply sub_keep. now apply IH.
    + apply sub_skip. now apply IH.
  - apply sub_skip. now apply IH.
Qed.

Lemma sub_In : forall (A : Type) (l1 l2 : list A), sub l1 l2 -> forall x, In x l1 -> In x l2.
Proof.
  intros A l1 l2 H. induction H as [l|y l1 l2 H IH|y l1 l2 H IH]; intros x Hx.
  - destruct Hx.
  - destruct Hx as [->|Hx]; [now left | right; now apply IH].
  - right. now apply IH.
Qed.

Lemma mqtt_never_invents : forall h s,
  sub (pending (fold_left mqtt_step h s)) (pending s ++ mqtt_spec (ms_cfg s) (ms_reg s) h).
Proof.
  induction h as [|e h IH]; intros s; cbn [fold_left mqtt_spec].
  - rewrite app_nil_r. apply sub_refl.
  - destruct e as [u| |id new|up|tpl q].
    + specialize (IH (mqtt_step s (MUpdate u))). unfold pending, sent in *.
      cbn [mqtt_step ms_published ms_queue ms_reg ms_cfg cfg_step reg_step] in *.
      now rewrite <- !app_assoc in *.
    + specialize (IH (mqtt_step s MPublish)). cbn [mqtt_step cfg_step reg_step app] in *.
      destruct (ms_queue s) as [|p q] eqn:Eq.
      * exact IH.
      * unfold pending, sent in *. cbn [ms_published ms_queue ms_reg ms_cfg] in IH. rewrite Eq.
        destruct (ms_client s).
        -- rewrite map_app in IH. cbn [map p_msg] in IH. rewrite <- !app_assoc in IH.
           rewrite <- !app_assoc. exact IH.
        -- eapply sub_trans; [|exact IH]. rewrite <- !app_assoc. apply sub_app_l. cbn [app].
           apply sub_skip. apply sub_refl.
    + exact (IH (mqtt_step s (MInfo id new))).
    + exact (IH (mqtt_step s (MClient up))).
    + exact (IH (mqtt_step s (MReconf tpl q))).
Qed.

Lemma mqtt_published_sub_spec : forall c h,
  sub (sent (mqtt_drain (mqtt_run c h))) (mqtt_spec c [] h).
Proof.
  intros c h. rewrite sent_drain. unfold mqtt_run, mqtt_run_from.
  exact (mqtt_never_invents h (mqtt_init c)).
Qed.

(* ---- the demand, message by message: configuration and register of ITS moment *)

Lemma select_demanded : forall c r ms,
  select c r ms = flat_map demanded (map (pair (c, r)) ms).
Proof.
  intros c r ms. induction ms as [|m ms IH]; [reflexivity|].
  cbn [select map flat_map demanded]. unfold to_msg. destruct (addressed c m); cbn [app]; now rewrite IH.
Qed.

Lemma mqtt_spec_stamped : forall h c r,
  mqtt_spec c r h = flat_map demanded (stamped c r h).
Proof.
  induction h as [|e h IH]; intros c r; [reflexivity|].
  cbn [mqtt_spec stamped]. rewrite flat_map_app, <- IH. f_equal.
  destruct e as [u| | | |]; try reflexivity.
  destruct u; try reflexivity. cbn [mqtt_enqueue msgs_of]. apply select_demanded.
Qed.

Lemma stamped_app : forall h1 h2 c r,
  stamped c r (h1 ++ h2) = stamped c r h1 ++ stamped (cfg_after c h1) (reg_after r h1) h2.
Proof.
  induction h1 as [|e h1 IH]; intros h2 c r; [reflexivity|].
  cbn [app stamped]. rewrite IH. unfold cfg_after, reg_after. cbn [fold_left]. now rewrite app_assoc.
Qed.

(* a message emitted after the prefix [h1] of the history is stamped with the
   register all the update_info calls of [h1] - and no others - have produced *)
Lemma stamped_at : forall h1 ms h2 c r,
  stamped c r (h1 ++ MUpdate (UOutput ms) :: h2) =
  stamped c r h1 ++ map (pair (cfg_after c h1, reg_after r h1)) ms
  ++ stamped (cfg_after c h1) (reg_after r h1) h2.
Proof. intros. rewrite stamped_app. reflexivity. Qed.

Lemma stamped_In : forall h c r c' r' m,
  In (c', r', m) (stamped c r h) ->
  exists h1 u h2, h = h1 ++ MUpdate u :: h2 /\ In m (msgs_of u) /\
                  c' = cfg_after c h1 /\ r' = reg_after r h1.
Proof.
  induction h as [|e h IH]; intros c r c' r' m H; [destruct H|].
  cbn [stamped] in H. apply in_app_or in H as [H|H].
  - destruct e as [u| | | |]; try destruct H.
    apply in_map_iff in H as [m0 [E Hm]]. injection E as <- <- <-.
    exists [], u, h. repeat split. exact Hm.
  - apply IH in H as [h1 [u [h2 [-> [Hm [-> ->]]]]]].
    exists (e :: h1), u, h2. repeat split. exact Hm.
Qed.

(* EVERY history, EVERY moment: a message the client was handed is an emitted,
   addressed message, with the topic of the template and the ingress metadata of
   the register AS THEY WERE WHEN THE MESSAGE WAS EMITTED *)
Lemma published_In_pending : forall h s x,
  In x (sent (fold_left mqtt_step h s)) -> In x (sent (mqtt_drain (fold_left mqtt_step h s))).
Proof. intros h s x H. rewrite sent_drain. unfold pending. apply in_or_app. now left. Qed.

Lemma mqtt_published_metadata : forall c h p,
  In p (ms_published (mqtt_run c h)) ->
  exists h1 u h2 m,
    h = h1 ++ MUpdate u :: h2 /\ In m (msgs_of u) /\ m_name m = mc_name c /\
    p_msg p = mk_send (cfg_after c h1) (reg_after [] h1) m.
Proof.
  intros c h p Hp.
  assert (Hs : In (p_msg p) (sent (mqtt_run c h))) by (unfold sent; now apply in_map).
  unfold mqtt_run, mqtt_run_from in Hs. apply published_In_pending in Hs.
  apply (sub_In _ _ _ (mqtt_published_sub_spec c h)) in Hs.
  rewrite mqtt_spec_stamped in Hs. apply in_flat_map in Hs as [[[c' r'] m] [Hst Hd]].
  apply stamped_In in Hst as [h1 [u [h2 [-> [Hm [-> ->]]]]]].
  cbn [demanded] in Hd. destruct (addressed (cfg_after c h1) m) eqn:Ea; [|destruct Hd].
  destruct Hd as [Hd|[]]. exists h1, u, h2, m. repeat split; try assumption.
  - rewrite addressed_cfg_after in Ea. now apply addressed_iff.
  - now symmetry.
Qed.

Lemma mqtt_spec_app : forall h1 h2 c r,
  mqtt_spec c r (h1 ++ h2) = mqtt_spec c r h1 ++ mqtt_spec (cfg_after c h1) (reg_after r h1) h2.
Proof.
  intros. rewrite !mqtt_spec_stamped, stamped_app. apply flat_map_app.
Qed.

Definition is_mupdate (e : mev) : bool := match e with MUpdate _ => true | _ => false end.

Lemma mqtt_spec_no_updates : forall h c r,
  forallb (fun e => negb (is_mupdate e)) h = true -> mqtt_spec c r h = [].
Proof.
  induction h as [|e h IH]; intros c r H; [reflexivity|].
  cbn [forallb] in H. apply andb_true_iff in H as [He H]. cbn [mqtt_spec].
  rewrite IH by exact H. destruct e; try reflexivity. discriminate He.
Qed.

(* what happens to the register AFTER a message was emitted - while it waits on
   pub_q, while it is published - does not reach it: an update_info that no
   emission follows changes nothing of what is demanded (and so, by the
   theorems above, of what is published) *)
Lemma later_update_info_invisible : forall c h1 id new h2,
  forallb (fun e => negb (is_mupdate e)) h2 = true ->
  mqtt_spec c [] (h1 ++ MInfo id new :: h2) = mqtt_spec c [] (h1 ++ h2).
Proof.
  intros c h1 id new h2 H. rewrite !mqtt_spec_app. f_equal.
  cbn [mqtt_spec app]. now rewrite !mqtt_spec_no_updates by exact H.
Qed.

(* ---- what the register holds for an id *)

Lemma reg_get_update : forall r id new id',
  reg_get (reg_update r id new) id' =
  if N.eqb id id' then merge_opt (reg_get r id) new else reg_get r id'.
Proof.
  intros r id new id'. unfold reg_update. cbn [reg_get].
  destruct (N.eqb id id') eqn:E; reflexivity.
Qed.

(* the entry of an id is the merge of the update_info calls for THAT id, in
   order; calls for other ids, and everything the target does, leave it alone *)
Lemma reg_get_after : forall h r id,
  reg_get (reg_after r h) id = fold_left merge_opt (updates_for id h) (reg_get r id).
Proof.
  induction h as [|e h IH]; intros r id; [reflexivity|].
  unfold reg_after in *. cbn [fold_left]. rewrite IH. unfold updates_for. cbn [flat_map].
  rewrite fold_left_app. f_equal.
  destruct e as [u| |k new|up|tpl q]; try reflexivity.
  cbn [reg_step]. rewrite reg_get_update. destruct (N.eqb k id) eqn:E; [|reflexivity].
  apply N.eqb_eq in E. now subst.
Qed.

Lemma fld_merge : forall p, In p info_fields ->
  forall o new, fld p (merge_opt o new) = upd_field (fld p o) (p new).
Proof.
  intros p Hp o new. unfold merge_opt, merged, fld.
  destruct o as [old|].
  - unfold info_fields in Hp. cbn [In] in Hp.
    repeat (destruct Hp as [<-|Hp]; [reflexivity|]). destruct Hp.
  - now destruct (p new).
Qed.

(* field by field: the value of a field is the last one any update_info for the
   id supplied; a call that leaves the field unset does not touch it *)
Lemma field_after : forall p, In p info_fields -> forall h id,
  fld p (reg_get (reg_after [] h) id) = fold_left upd_field (map p (updates_for id h)) None.
Proof.
  intros p Hp h id. rewrite reg_get_after. cbn [reg_get].
  change (@None N) with (fld p None).
  generalize (@None info) as o. induction (updates_for id h) as [|new l IH]; intros o; [reflexivity|].
  cbn [fold_left map]. rewrite IH. now rewrite fld_merge.
Qed.

(* the QoS: every publication uses the QoS of the configuration in force at
   that moment; if no reconfiguration changes it, the configured one *)
Definition keeps_qos (q : N) (e : mev) : bool :=
  match e with MReconf _ q' => N.eqb q' q | _ => true end.

Lemma qos_invariant : forall q h s,
  forallb (keeps_qos q) h = true -> mc_qos (ms_cfg s) = q ->
  Forall (fun p => p_qos p = q) (ms_published s) ->
  let s' := fold_left mqtt_step h s in
  mc_qos (ms_cfg s') = q /\ Forall (fun p => p_qos p = q) (ms_published s').
Proof.
  intros q h. induction h as [|e h IH]; intros s Hk Hq Hp; [now split|].
  cbn [forallb] in Hk. apply andb_true_iff in Hk as [He Hk]. cbn [fold_left].
  apply IH; [exact Hk| |].
  - destruct e as [u| |id new|up|tpl q']; cbn [mqtt_step ms_cfg]; try exact Hq.
    + now destruct (ms_queue s).
    + cbn [keeps_qos] in He. apply N.eqb_eq in He. now subst.
  - destruct e as [u| |id new|up|tpl q']; cbn [mqtt_step ms_published]; try exact Hp.
    destruct (ms_queue s) as [|x xs]; [exact Hp|]. cbn [ms_published].
    destruct (ms_client s); [|exact Hp].
    apply Forall_app. split; [exact Hp|]. constructor; [exact Hq|constructor].
Qed.

Lemma qos_configured : forall c h,
  forallb (keeps_qos (mc_qos c)) h = true ->
  Forall (fun p => p_qos p = mc_qos c) (ms_published (mqtt_drain (mqtt_run c h))).
Proof.
  intros c h Hk. unfold mqtt_run, mqtt_run_from.
  destruct (qos_invariant (mc_qos c) h (mqtt_init c) Hk eq_refl (Forall_nil _)) as [Hq Hp].
  cbn zeta in Hq, Hp. unfold mqtt_drain. cbn [ms_published]. apply Forall_app. split; [exact Hp|].
  rewrite Hq. induction (ms_queue _) as [|x xs IH]; constructor; [reflexivity|exact IH].
Qed.

(* topic template *)
Lemma replace_go_skip : forall pat rep l1 l2,
  replace_go pat rep (length l1) (l1 ++ l2) = replace_go pat rep O l2.
Proof.
  intros pat rep l1. induction l1 as [|c l1 IH]; intros l2; [reflexivity|].
  cbn [length app replace_go]. apply IH.
Qed.

Lemma replace_no_brace : forall rep pre s,
  ~ In LBRACE pre ->
  replace_go id_pat rep O (pre ++ s) = pre ++ replace_go id_pat rep O s.
Proof.
  intros rep pre. induction pre as [|c pre IH]; intros s H; [reflexivity|].
  cbn [app replace_go].
  assert (Hc : N.eqb 123 c = false).
  { apply N.eqb_neq. intros E. apply H. left. symmetry. exact E. }
  unfold id_pat at 1. cbn [starts_with]. rewrite Hc. cbn [andb].
  f_equal. apply IH. intros Hin. apply H. now right.
Qed.

Lemma replace_at_pat : forall rep post,
  replace_go id_pat rep O (id_pat ++ post) = rep ++ replace_go id_pat rep O post.
Proof. intros rep post. reflexivity. Qed.

Lemma topic_template : forall pre post topic,
  ~ In LBRACE pre ->
  topic_of (pre ++ id_pat ++ post) topic = pre ++ topic ++ topic_of post topic.
Proof.
  intros pre post topic H. unfold topic_of.
  rewrite replace_no_brace by exact H. now rewrite replace_at_pat.
Qed.

Lemma topic_no_placeholder : forall tpl topic, ~ In LBRACE tpl -> topic_of tpl topic = tpl.
Proof.
  intros tpl topic H. unfold topic_of.
  rewrite <- (app_nil_r tpl) at 1. rewrite replace_no_brace by exact H.
  cbn. now rewrite app_nil_r.
Qed.
