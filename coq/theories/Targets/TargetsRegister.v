(* The register the C17 model reads IS the register of property C14: the list
   model of TargetsModel.v and the gmap model of Ingress/IngressModel.v (which
   the C14 engine ties to src/ingress.rs) answer every `get` alike after every
   history of register / update_info calls. Proofs only. *)
From stdpp Require Import gmap.
From Coq Require Import List NArith.
From RV Require Import Ingress.IngressModel Targets.TargetsModel.
Import ListNotations.

Definition to_c14 (i : TargetsModel.info) : IngressModel.info :=
  IngressModel.MkInfo (TargetsModel.i_unit i) (TargetsModel.i_parent i) (TargetsModel.i_addr i)
                      (TargetsModel.i_asn i) (TargetsModel.i_rib i) (TargetsModel.i_file i)
                      (TargetsModel.i_name i) (TargetsModel.i_desc i).

Definition agrees (r : TargetsModel.register) (R : IngressModel.reg) : Prop :=
  forall id, option_map to_c14 (TargetsModel.reg_get r id) = IngressModel.reg_get R id.

Lemma agrees_new : agrees [] IngressModel.reg_new.
Proof. intros id. reflexivity. Qed.

Lemma to_c14_merge : forall old new,
  to_c14 (TargetsModel.info_merge old new) = IngressModel.info_merge (to_c14 old) (to_c14 new).
Proof. intros [] []. reflexivity. Qed.

(* Register::register() hands out an id and leaves every entry alone *)
Lemma agrees_register : forall r R, agrees r R -> agrees r (snd (IngressModel.reg_register R)).
Proof. intros r R H id. exact (H id). Qed.

(* Register::update_info *)
Lemma agrees_update : forall r R id new,
  agrees r R ->
  agrees (TargetsModel.reg_update r id new) (IngressModel.reg_update_info R id (to_c14 new)).
Proof.
  intros r R id new H id'. unfold TargetsModel.reg_update, IngressModel.reg_update_info, IngressModel.reg_get.
  cbn [TargetsModel.reg_get infos].
  destruct (N.eqb id id') eqn:E.
  - apply N.eqb_eq in E. subst id'. rewrite lookup_insert. cbn [option_map]. f_equal.
    specialize (H id). unfold IngressModel.reg_get in H. rewrite <- H.
    unfold TargetsModel.merged. destruct (TargetsModel.reg_get r id) as [old|]; cbn [option_map].
    + apply to_c14_merge.
    + reflexivity.
  - apply N.eqb_neq in E. rewrite lookup_insert_ne by exact E. exact (H id').
Qed.

(* every history of calls of the ingress units *)
Inductive rcall := CRegister | CUpdate (id : N) (new : TargetsModel.info).

Definition t_step (r : TargetsModel.register) (c : rcall) : TargetsModel.register :=
  match c with CRegister => r | CUpdate id new => TargetsModel.reg_update r id new end.

Definition c14_step (R : IngressModel.reg) (c : rcall) : IngressModel.reg :=
  match c with
  | CRegister => snd (IngressModel.reg_register R)
  | CUpdate id new => IngressModel.reg_update_info R id (to_c14 new)
  end.

Lemma registers_agree : forall cs r R,
  agrees r R -> agrees (fold_left t_step cs r) (fold_left c14_step cs R).
Proof.
  induction cs as [|c cs IH]; intros r R H; [exact H|].
  cbn [fold_left]. apply IH. destruct c as [|id new]; [now apply agrees_register | now apply agrees_update].
Qed.

Lemma registers_agree_from_new : forall cs id,
  option_map to_c14 (TargetsModel.reg_get (fold_left t_step cs []) id)
  = IngressModel.reg_get (fold_left c14_step cs IngressModel.reg_new) id.
Proof. intros cs id. exact (registers_agree cs [] IngressModel.reg_new agrees_new id). Qed.
