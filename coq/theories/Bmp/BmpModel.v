(* Model of the BMP session state machine
   (src/units/bmp_tcp_in/state_machine/{machine.rs,states/*.rs,status_reporter.rs}).
   One router session: phase, table of peers that are up, and the per-router
   metrics the state machine maintains. Definitions only. *)
From stdpp Require Import gmap.
From Coq Require Import NArith.
From RV Require Import Ingress.IngressModel Rib.RibModel.

(* per-peer header identity as routecore compares it (PartialEq/Hash):
   peer type, L flag (post-policy), O flag (Adj-RIB-Out), distinguisher,
   address, AS, BGP id *)
Definition pph := (N * N * N * N * N * N * N)%type.
Definition ph_type (p : pph) : N := p.1.1.1.1.1.1.
Definition ph_post (p : pph) : N := p.1.1.1.1.1.2.
Definition ph_out (p : pph) : N := p.1.1.1.1.2.
Definition ph_dist (p : pph) : N := p.1.1.1.2.
Definition ph_addr (p : pph) : N := p.1.1.2.
Definition ph_asn (p : pph) : N := p.1.2.
Definition ph_bgpid (p : pph) : N := p.2.

(* PerPeerHeader::rib_type(): LocRib for peer type 3, else Adj-RIB-Out iff O flag *)
Definition ph_rib_type (p : pph) : N :=
  if N.eqb (ph_type p) 3 then 2%N else if N.eqb (ph_out p) 0 then 0%N else 1%N.

(* the ingress query of PeerStates::add_peer_config *)
Definition peer_query (rid : N) (p : pph) : info :=
  MkInfo None (Some rid) (Some (ph_addr p)) (Some (ph_asn p)) (Some (ph_rib_type p)) None None None.

Inductive phase := PInit | PDump | PUpd | PTerm.
Definition phase_idx (p : phase) : N :=
  match p with PInit => 0 | PDump => 1 | PUpd => 2 | PTerm => 3 end%N.

Record peer := MkPeer { pe_eor : bool; pe_pending : gset N; pe_id : N }.

(* RouterBmpMetrics, the fields the state machine writes *)
Record metrics := MkMetrics {
  m_state : N;            (* bmp_state_machine_state, as a phase index *)
  m_prefixes : N;         (* bmp_state_num_received_prefixes *)
  m_unknown_peer : N;     (* ..._route_monitoring_msgs_with_unknown_peer *)
  m_unprocessable : N;    (* bmp_state_num_unprocessable_bmp_messages *)
  m_ann : N; m_wd : N;    (* announcements / withdrawals *)
  m_up : N; m_eorcap : N; m_dumping : N }.
(* metrics are created on first use with the state gauge at Dumping *)
Definition metrics_init : metrics := MkMetrics 1 0 0 0 0 0 0 0 0.

Record sm := MkSm { sm_phase : phase; sm_peers : gmap pph peer; sm_metrics : metrics }.
Definition sm_init : sm := MkSm PInit ∅ metrics_init.

(* a parsed BGP UPDATE as far as the state machine looks at it *)
Inductive upd :=
| UEor (fam : N)                                      (* End-of-RIB marker for a family *)
| URoutes (afam : N) (ann : list N) (attrs : N) (wfam : N) (wd : list N)
(* the general form (an UPDATE taken from the wire, Pipe/PipeRaw.v): routes of several
   families, and the three things the state machine asks routecore about the message:
     lax     - UpdateMessage::is_eor(): Some f = the empty UPDATE (f = IPv4 unicast) or the first
               MP_UNREACH_NLRI (of family f) yields no NLRI - whatever else the UPDATE carries;
     carries - the guard of the dump phase (states/dumping.rs): withdrawn routes, NLRI or an
               MP_REACH_NLRI attribute are present;
     ffam    - the family of the first entry of announcements_vec() (conventional NLRI first) *)
| UGen (lax : option N) (carries : bool) (ffam : N) (ann : list (N * N)) (attrs : N) (wd : list (N * N)).

Inductive msg :=
| MInit | MTerm
| MStats (p : pph)
| MPeerUp (p : pph) (eor : bool)
| MPeerDown (p : pph)
| MRoute (p : pph) (u : option upd).     (* None: the BGP UPDATE does not parse *)

Inductive outcome := OInvalid | OOther | OTransition | OUpdate (u : update).

Definition is_eor (u : upd) : option N :=
  match u with
  | UEor f => Some f
  | URoutes _ [] _ _ [] => Some 0%N      (* an empty conventional UPDATE is the IPv4 unicast marker *)
  | _ => None
  end.

Definition no_routes {A} (l : list A) : bool := match l with [] => true | _ => false end.

(* the End-of-RIB test of route_monitoring_preprocessing: the dump phase (states/dumping.rs) only
   accepts the marker on an UPDATE that carries nothing, the updating phase (states/updating.rs)
   takes routecore's answer as it is (and goes on to process the routes) *)
Definition eor_in (ph : phase) (u : upd) : option N :=
  match u with
  | UGen lax carries _ ann _ wd =>
      match ph with
      | PDump => if carries || negb (no_routes ann) || negb (no_routes wd) then None else lax
      | _ => lax
      end
  | _ => is_eor u
  end.

Definition payloads_of (id : N) (u : upd) : list payload :=
  match u with
  | UEor _ => []
  | URoutes af ann attrs wf wd =>
      (* withdrawals first, then announcements: a prefix listed in both ends up announced (RFC 4271 4.3) *)
      map (fun p => MkPay (wf, p, id) false 0%N) wd ++ map (fun p => MkPay (af, p, id) true attrs) ann
  | UGen _ _ _ ann attrs wd =>
      map (fun fp : N * N => MkPay (fp.1, fp.2, id) false 0%N) wd ++ map (fun fp : N * N => MkPay (fp.1, fp.2, id) true attrs) ann
  end.
Definition n_ann (u : upd) : N :=
  match u with URoutes _ ann _ _ _ => N.of_nat (length ann) | UGen _ _ _ ann _ _ => N.of_nat (length ann) | _ => 0%N end.
Definition n_wd (u : upd) : N :=
  match u with URoutes _ _ _ _ wd => N.of_nat (length wd) | UGen _ _ _ _ _ wd => N.of_nat (length wd) | _ => 0%N end.
Definition first_ann_fam (u : upd) : option N :=
  match u with URoutes af (_ :: _) _ _ _ => Some af | UGen _ _ ff (_ :: _) _ _ => Some ff | _ => None end.

Definition all_pending_empty (ps : gmap pph peer) : bool :=
  forallb (fun kv : pph * peer => bool_decide (pe_pending kv.2 = ∅)) (map_to_list ps).
(* number of peers that still wait for an End-of-RIB *)
Definition n_dumping (ps : gmap pph peer) : N :=
  N.of_nat (length (filter (fun kv : pph * peer => pe_pending kv.2 <> ∅) (map_to_list ps))).
Definition n_eorcap (ps : gmap pph peer) : N :=
  N.of_nat (length (filter (fun kv : pph * peer => pe_eor kv.2 = true) (map_to_list ps))).
Definition n_up (ps : gmap pph peer) : N := N.of_nat (size ps).

Definition set_state (m : metrics) (p : phase) : metrics :=
  MkMetrics (phase_idx p) (m_prefixes m) (m_unknown_peer m) (m_unprocessable m) (m_ann m) (m_wd m) (m_up m) (m_eorcap m) (m_dumping m).
(* the three peer gauges follow the peer table (peer_up / peer_down /
   pending_eors_update are called at every change of the table) *)
Definition set_gauges (m : metrics) (ps : gmap pph peer) : metrics :=
  MkMetrics (m_state m) (m_prefixes m) (m_unknown_peer m) (m_unprocessable m) (m_ann m) (m_wd m) (n_up ps) (n_eorcap ps) (n_dumping ps).
Definition add_routes (m : metrics) (a w : N) : metrics :=
  MkMetrics (m_state m) (m_prefixes m + a) (m_unknown_peer m) (m_unprocessable m) (m_ann m + a) (m_wd m + w) (m_up m) (m_eorcap m) (m_dumping m).
Definition inc_unknown (m : metrics) : metrics :=
  MkMetrics (m_state m) (m_prefixes m) (m_unknown_peer m + 1) (m_unprocessable m) (m_ann m) (m_wd m) (m_up m) (m_eorcap m) (m_dumping m).
Definition inc_unprocessable (m : metrics) : metrics :=
  MkMetrics (m_state m) (m_prefixes m) (m_unknown_peer m) (m_unprocessable m + 1) (m_ann m) (m_wd m) (m_up m) (m_eorcap m) (m_dumping m).

Definition with_metrics (s : sm) (m : metrics) : sm := MkSm (sm_phase s) (sm_peers s) m.

(* BmpState::process_msg wrapper: every InvalidMessage result is counted *)
Definition invalid (r : reg) (s : sm) : reg * sm * outcome :=
  (r, with_metrics s (inc_unprocessable (sm_metrics s)), OInvalid).

Definition peer_up (r : reg) (rid : N) (s : sm) (p : pph) (eor : bool) : reg * sm * outcome :=
  (* add_peer_config looks the ingress id up (or registers one) before it checks the table *)
  let '(id, r') := find_or_register peer_match r (peer_query rid p) in
  match sm_peers s !! p with
  | Some _ => invalid r' s
  | None =>
      let ps := <[ p := MkPeer eor ∅ id ]> (sm_peers s) in
      (r', MkSm (sm_phase s) ps (set_gauges (sm_metrics s) ps), OOther)
  end.

Definition peer_down (r : reg) (s : sm) (p : pph) : reg * sm * outcome :=
  match sm_peers s !! p with
  | Some pe =>
      let ps := delete p (sm_peers s) in
      (r, MkSm (sm_phase s) ps (set_gauges (sm_metrics s) ps), OUpdate (UWithdraw (pe_id pe) None))
  | None => invalid r s
  end.

Definition route_monitoring (r : reg) (s : sm) (p : pph) (u : option upd) : reg * sm * outcome :=
  match sm_peers s !! p with
  | None => invalid r (with_metrics s (inc_unknown (sm_metrics s)))
  | Some pe =>
      match u with
      | None => invalid r s
      | Some u =>
          (* state specific pre-processing: End-of-RIB bookkeeping *)
          let ps1 := match eor_in (sm_phase s) u with
                     | Some f => <[ p := MkPeer (pe_eor pe) (pe_pending pe ∖ {[ f ]}) (pe_id pe) ]> (sm_peers s)
                     | None => sm_peers s
                     end in
          let last := match eor_in (sm_phase s) u with Some _ => all_pending_empty ps1 | None => false end in
          let m1 := set_gauges (sm_metrics s) ps1 in
          match sm_phase s, last with
          | PDump, true => (r, MkSm PUpd ps1 (set_state m1 PUpd), OTransition)
          | _, _ =>
              let pe1 := match ps1 !! p with Some x => x | None => pe end in
              let ps2 := match first_ann_fam u with
                         | Some f => if pe_eor pe1
                                     then <[ p := MkPeer (pe_eor pe1) ({[ f ]} ∪ pe_pending pe1) (pe_id pe1) ]> ps1
                                     else ps1
                         | None => ps1
                         end in
              (r, MkSm (sm_phase s) ps2 (add_routes (set_gauges m1 ps2) (n_ann u) (n_wd u)),
               OUpdate (UBulk (payloads_of (pe_id pe) u)))
          end
      end
  end.

Definition terminate (r : reg) (s : sm) : reg * sm * outcome :=
  let ids := map (fun kv : pph * peer => pe_id kv.2) (map_to_list (sm_peers s)) in
  let m := set_gauges (set_state (sm_metrics s) PTerm) ∅ in
  (r, MkSm PTerm ∅ m, match ids with [] => OTransition | _ => OUpdate (UWithdrawBulk ids) end).

(* Dumping::process_msg / Updating::process_msg *)
Definition live_step (r : reg) (rid : N) (s : sm) (m : msg) : reg * sm * outcome :=
  match m with
  | MInit => (r, s, OOther)
  | MStats _ => (r, s, OOther)
  | MPeerUp p e => peer_up r rid s p e
  | MPeerDown p => peer_down r s p
  | MRoute p u => route_monitoring r s p u
  | MTerm => terminate r s
  end.

Definition sm_step (r : reg) (rid : N) (s : sm) (m : msg) : reg * sm * outcome :=
  match sm_phase s with
  | PInit => match m with
             | MInit => (r, MkSm PDump (sm_peers s) (set_state (sm_metrics s) PDump), OTransition)
             | _ => invalid r s
             end
  | PTerm => invalid r s
  | PDump | PUpd => live_step r rid s m
  end.

Fixpoint sm_run (r : reg) (rid : N) (s : sm) (ms : list msg) : reg * sm * list outcome :=
  match ms with
  | [] => (r, s, [])
  | m :: ms' =>
      let '(r1, s1, o) := sm_step r rid s m in
      let '(r2, s2, os) := sm_run r1 rid s1 ms' in
      (r2, s2, o :: os)
  end.

(* what the gauges must read at any quiescent point (C15) *)
Definition gauges_ok (s : sm) : bool :=
  N.eqb (m_up (sm_metrics s)) (n_up (sm_peers s)) &&
  N.eqb (m_eorcap (sm_metrics s)) (n_eorcap (sm_peers s)) &&
  N.eqb (m_dumping (sm_metrics s)) (n_dumping (sm_peers s)).
