(* What the session state machine makes of a BMP message taken from the wire
   (src/units/bmp_tcp_in/state_machine/{machine.rs,states/*.rs}): the octets of a frame go
   through the codec of BmpWire.v and become a message of BmpModel - the way Pipe/PipeRaw.v
   turns the octets of an UPDATE into BmpModel.upd. Definitions only.

   Which fields are read:
     per-peer header  - `PerPeerHeader` is the key of the peer table; its PartialEq / Hash compare
                        peer type, the WHOLE flags octet, distinguisher, address(), asn(), bgp_id().
                        address() reads the last four octets when V = 0 and all sixteen when V = 1;
                        the timestamps are never read.
     Peer Up          - `eor_capable` = the RECEIVED OPEN lists capability 64 (graceful restart);
                        `session_config()` = both OPENs list capability 65 (four-octet AS) - kept
                        with the peer and handed to routecore when an UPDATE is parsed, where it does
                        not decide acceptance (BgpUpdate::parse checks the attributes with the
                        default PduParseInfo). Local address, ports, information TLVs: not read.
     Peer Down        - the per-peer header only; the reason and its data are not read.
     Route Monitoring - the per-peer header and ONE PDU: `BgpUpdate::parse` takes as many octets as
                        the BGP header says and leaves the rest of the frame alone.
     Statistics Report, Route Mirroring - `_ => mk_other_result()`: nothing is read.
     Initiation       - sysName / sysDescr go to the ingress register (BmpWire.sys_name, sys_descr);
                        the state machine's transition does not depend on them.
     Termination      - nothing is read. *)
From stdpp Require Import gmap.
From Coq Require Import NArith.
From RV Require Import Ingress.IngressModel Rib.RibModel Bmp.BmpModel Pipe.PipeModel Pipe.PipeRaw.
From RV Require Bgp.BgpModel Bmp.BmpWire.

Local Open Scope N_scope.

(* ---------- the per-peer header as the peer table's key ---------- *)
Definition bit (fl k : N) : N := if N.testbit fl k then 1 else 0.
(* BmpModel.pph keeps the O flag (it decides the RIB type) apart from "post"; everything else of the
   flags octet goes there: L as bit 0 - so that the headers of the abstract ops (L and O only) keep
   their numbers -, then V, A and the four reserved bits *)
Definition abs_flags (fl : N) : N := bit fl 6 + 2 * bit fl 7 + 4 * bit fl 5 + 8 * (fl mod 16).
(* PerPeerHeader::address(): the last four octets when V = 0, all sixteen when V = 1 *)
Definition addr_read (p : BmpWire.wpph) : list N :=
  if N.testbit (BmpWire.wp_flags p) 7 then BmpWire.wp_addr p else drop 12 (BmpWire.wp_addr p).
(* IpAddr: an IPv4 and an IPv6 address are never equal *)
Definition abs_addr (p : BmpWire.wpph) : N := 2 * bytes_code (addr_read p) + bit (BmpWire.wp_flags p) 7.
Definition abs_pph (p : BmpWire.wpph) : pph :=
  (BmpWire.wp_type p, abs_flags (BmpWire.wp_flags p), bit (BmpWire.wp_flags p) 4,
   bytes_code (BmpWire.wp_dist p), abs_addr p, BmpWire.wp_as p, bytes_code (BmpWire.wp_id p)).

(* what routecore's PartialEq for PerPeerHeader compares *)
Definition ident (p : BmpWire.wpph) : N * N * list N * list N * N * list N :=
  (BmpWire.wp_type p, BmpWire.wp_flags p, BmpWire.wp_dist p, addr_read p, BmpWire.wp_as p, BmpWire.wp_id p).

(* ---------- Route Monitoring: the one PDU the BGP header delimits ---------- *)
Definition route_pdu (d : list N) : option (list N) :=
  match BgpModel.take_n 16 d with
  | Some (_, lh :: ll :: _) =>
      match BgpModel.take_n (BgpModel.u16 lh ll) d with
      | Some (pdu, _) => Some pdu
      | None => None
      end
  | _ => None
  end.
Definition route_upd (d : list N) : option upd :=
  match route_pdu d with Some pdu => raw_upd pdu | None => None end.

(* ---------- the message ---------- *)
Definition eor_capable (rcvd : BmpWire.open) : bool := BmpWire.has_cap 64 rcvd.
Definition four_octet (sent rcvd : BmpWire.open) : bool := BmpWire.has_cap 65 sent && BmpWire.has_cap 65 rcvd.

Definition abstract (m : BmpWire.wmsg) : msg :=
  match m with
  | BmpWire.WInit _ => MInit
  | BmpWire.WTerm _ => MTerm
  | BmpWire.WStats p _ _ => MStats (abs_pph p)
  | BmpWire.WMirror p _ => MStats (abs_pph p)      (* treated exactly as a Statistics Report (BmpStreamModel.msg_type_code) *)
  | BmpWire.WPeerUp p _ _ _ _ rcvd _ => MPeerUp (abs_pph p) (eor_capable rcvd)
  | BmpWire.WPeerDown p _ _ => MPeerDown (abs_pph p)
  | BmpWire.WRoute p d => MRoute (abs_pph p) (route_upd d)
  end.

(* RFC 7854 type code of a frame that parses: the index of the per-type counter (C15) *)
Definition wire_type_code (m : BmpWire.wmsg) : N := BmpWire.msg_code m.

(* ---------- a frame, a session over frames, a session over an octet stream ---------- *)
(* None = what the engines call `unparsable`: routecore's Message::from_octets refuses the frame,
   the state machine is not entered *)
Definition wire_msg (frame : list N) : option msg :=
  match BmpWire.decode frame with Some m => Some (abstract m) | None => None end.

Definition wire_step (r : reg) (rid : N) (s : sm) (frame : list N) : option (reg * sm * outcome) :=
  match wire_msg frame with Some m => Some (sm_step r rid s m) | None => None end.

(* a session over what the read loop hands on: a message, or a frame that was refused (skipped) *)
Fixpoint sess_run (r : reg) (rid : N) (s : sm) (items : list (option msg)) : reg * sm * list (option outcome) :=
  match items with
  | [] => (r, s, [])
  | None :: rest => let '(r2, s2, os) := sess_run r rid s rest in (r2, s2, None :: os)
  | Some m :: rest =>
      let '(r1, s1, o) := sm_step r rid s m in
      let '(r2, s2, os) := sess_run r1 rid s1 rest in
      (r2, s2, Some o :: os)
  end.

Definition item_msg (i : BmpWire.sitem) : option msg :=
  match i with BmpWire.SMsg m => Some (abstract m) | BmpWire.SBad _ => None end.

Definition wire_frames (r : reg) (rid : N) (s : sm) (frames : list (list N)) : reg * sm * list (option outcome) :=
  sess_run r rid s (map wire_msg frames).
Definition wire_session (r : reg) (rid : N) (s : sm) (octets : list N) : reg * sm * list (option outcome) :=
  sess_run r rid s (map item_msg (BmpWire.stream octets).1).

(* ---------- the pipeline fed with BMP frames (in the style of PipeRaw.raw_bmp) ---------- *)
Definition wire_bmp (k : N) (frame : list N) : option wop :=
  match wire_msg frame with Some m => Some (WMsg k m) | None => None end.

(* the phase of router k's session, for the observation of a refused frame *)
Definition router_phase (w : world) (k : N) : option N :=
  match w_routers w !! k with Some (_, s) => Some (phase_idx (sm_phase s)) | None => None end.

(* ---------- named values of Props_C05.v ---------- *)
Definition ex_pph (flags : N) (sec : N) : BmpWire.wpph :=
  BmpWire.MkWpph 0 flags [0;0;0;0;0;0;0;0] [0;0;0;0;0;0;0;0;0;0;0;0;10;0;0;1] 65001 [10;0;0;1] sec 0.
(* an OPEN with 4-octet AS and graceful restart in one capability parameter / an OPEN without capabilities *)
Definition ex_open_gr : BmpWire.open :=
  BmpWire.MkOpen 1 4 65001 180 [10;0;0;1]
    [BmpWire.OCaps [BmpWire.MkCap 1 [0;1;0;1]; BmpWire.MkCap 65 [0;0;253;233]; BmpWire.MkCap 64 [0;120]]].
Definition ex_open_plain : BmpWire.open := BmpWire.MkOpen 1 4 65001 180 [10;0;0;1] [].
Definition ex_update : list N :=
  BgpModel.encode (BgpModel.MkUpd [] [BgpModel.AGen 64 1 [0]; BgpModel.AGen 64 2 []; BgpModel.AGen 64 3 [10;0;0;1]] [BgpModel.MkPfx 16 [10;9]]).
Definition ex_session : list BmpWire.wmsg :=
  [BmpWire.WInit [BmpWire.MkTlv 2 [114]; BmpWire.MkTlv 1 [100]];
   BmpWire.WPeerUp (ex_pph 0 1) [0;0;0;0;0;0;0;0;0;0;0;0;10;0;0;2] 179 4567 ex_open_plain ex_open_gr [];
   BmpWire.WRoute (ex_pph 0 2) ex_update;
   BmpWire.WPeerUp (ex_pph 0 3) [0;0;0;0;0;0;0;0;0;0;0;0;10;0;0;2] 179 4567 ex_open_gr ex_open_gr [0;0;0;1;65];
   BmpWire.WRoute (ex_pph 64 4) ex_update;
   BmpWire.WPeerDown (ex_pph 0 5) 2 [0;7];
   BmpWire.WPeerDown (ex_pph 0 6) 4 [];
   BmpWire.WTerm [BmpWire.MkTlv 1 [0;0]];
   BmpWire.WStats (ex_pph 0 7) [] []].
