(* Proofs about the reading of BMP frames by the session state machine (BmpWireAbs.v):
   which fields matter, the malformed classes are the unparsable frames, sessions over
   encoded messages are sessions over the messages (C05's theorems on octets), a Route
   Monitoring frame that carries an encoded UPDATE is PipeRaw's operation, and the frames
   io.rs bmp_read (BmpStreamModel) cuts off a stream of encodings are the encodings. *)
From stdpp Require Import gmap.
From Coq Require Import NArith Lia.
From RV Require Import Ingress.IngressModel Rib.RibModel Bmp.BmpModel Bmp.BmpProofs Pipe.PipeModel Pipe.PipeRaw Pipe.PipeRawProofs
  Bmp.BmpStreamModel Bmp.BmpWireAbs.
From RV Require Bgp.BgpModel Bgp.BgpProofs Bmp.BmpWire Bmp.BmpWireProofs.

Local Open Scope N_scope.

(* ---------- the flags octet ---------- *)
Definition unflags (a o : N) : N := 64 * (a mod 2) + 128 * ((a / 2) mod 2) + 32 * ((a / 4) mod 2) + 16 * o + a / 8.

Lemma unflags_all : List.forallb (fun k => unflags (abs_flags (N.of_nat k)) (bit (N.of_nat k) 4) =? N.of_nat k) (seq 0 256) = true.
Proof. vm_compute. reflexivity. Qed.

Lemma unflags_abs fl : fl < 256 -> unflags (abs_flags fl) (bit fl 4) = fl.
Proof.
  intros H. pose proof unflags_all as A. rewrite List.forallb_forall in A.
  specialize (A (N.to_nat fl)). rewrite N2Nat.id in A. apply N.eqb_eq, A, in_seq. lia.
Qed.

Lemma abs_flags_inj fl fl' : fl < 256 -> fl' < 256 -> abs_flags fl = abs_flags fl' -> bit fl 4 = bit fl' 4 -> fl = fl'.
Proof. intros H H' E1 E2. rewrite <- (unflags_abs fl H), <- (unflags_abs fl' H'), E1, E2. reflexivity. Qed.

Lemma bit_7_of_abs fl fl' : fl < 256 -> fl' < 256 -> abs_flags fl = abs_flags fl' -> bit fl 4 = bit fl' 4 -> bit fl 7 = bit fl' 7.
Proof. intros H H' E1 E2. rewrite (abs_flags_inj fl fl' H H' E1 E2). reflexivity. Qed.

(* ---------- the per-peer header: the model's key is equal exactly when routecore's PartialEq holds ---------- *)
Lemma bytes_ok_drop k l : BgpModel.bytes_ok l = true -> BgpModel.bytes_ok (drop k l) = true.
Proof.
  unfold BgpModel.bytes_ok. rewrite !List.forallb_forall. intros H x Hx. apply H.
  apply elem_of_list_In. apply elem_of_list_In in Hx. eapply elem_of_list_lookup in Hx as [i Hi].
  rewrite lookup_drop in Hi. eapply elem_of_list_lookup_2, Hi.
Qed.

Lemma addr_read_ok p : BmpWire.pph_wf p = true -> BgpModel.bytes_ok (addr_read p) = true.
Proof.
  intros H. apply BmpWireProofs.pph_wf_inv in H as (_ & _ & _ & _ & _ & Ha & _).
  unfold addr_read. destruct (N.testbit _ 7); [exact Ha|apply bytes_ok_drop, Ha].
Qed.

Theorem abs_pph_ident p q : BmpWire.pph_wf p = true -> BmpWire.pph_wf q = true ->
  (abs_pph p = abs_pph q <-> ident p = ident q).
Proof.
  intros Hp Hq. pose proof (addr_read_ok p Hp) as Hap. pose proof (addr_read_ok q Hq) as Haq.
  apply BmpWireProofs.pph_wf_inv in Hp as (_ & Hfp & _ & Hdp & _ & _ & _ & _ & Hip & _).
  apply BmpWireProofs.pph_wf_inv in Hq as (_ & Hfq & _ & Hdq & _ & _ & _ & _ & Hiq & _).
  unfold abs_pph, ident, abs_addr. split.
  - intros [= Ht Hf Ho Hd Ha Has Hi].
    pose proof (abs_flags_inj _ _ Hfp Hfq Hf Ho) as Efl.
    apply bytes_code_inj in Hd; [|assumption..]. apply bytes_code_inj in Hi; [|assumption..].
    rewrite Efl in Ha.
    assert (Ha' : 2 * bytes_code (addr_read p) + bit (BmpWire.wp_flags q) 7 = 2 * bytes_code (addr_read q) + bit (BmpWire.wp_flags q) 7) by exact Ha.
    assert (Hc : bytes_code (addr_read p) = bytes_code (addr_read q)) by lia.
    apply bytes_code_inj in Hc; [|assumption..]. congruence.
  - intros [= Ht Hf Hd Ha Has Hi]. rewrite Ht, Hf, Hd, Ha, Has, Hi. reflexivity.
Qed.

(* the timestamps are never read; with V = 0 the first twelve address octets are not read either *)
Corollary abs_pph_ignores_timestamp ty fl d a asn id s u s' u' :
  abs_pph (BmpWire.MkWpph ty fl d a asn id s u) = abs_pph (BmpWire.MkWpph ty fl d a asn id s' u').
Proof. reflexivity. Qed.

Corollary abs_pph_v4_ignores_high_octets ty fl d hi hi' lo asn id s u : N.testbit fl 7 = false ->
  length hi = 12%nat -> length hi' = 12%nat ->
  abs_pph (BmpWire.MkWpph ty fl d (hi ++ lo) asn id s u) = abs_pph (BmpWire.MkWpph ty fl d (hi' ++ lo) asn id s u).
Proof.
  intros Hv H H'. unfold abs_pph, abs_addr, addr_read. cbn [BmpWire.wp_flags BmpWire.wp_addr]. rewrite Hv.
  rewrite !drop_app_alt by (symmetry; assumption). reflexivity.
Qed.

(* ---------- one theorem per message type: exactly the fields that matter ---------- *)
Theorem abstract_initiation ts ts' : abstract (BmpWire.WInit ts) = abstract (BmpWire.WInit ts').
Proof. reflexivity. Qed.
Theorem abstract_termination ts ts' : abstract (BmpWire.WTerm ts) = abstract (BmpWire.WTerm ts').
Proof. reflexivity. Qed.
Theorem abstract_statistics p p' st st' tr tr' : abs_pph p = abs_pph p' ->
  abstract (BmpWire.WStats p st tr) = abstract (BmpWire.WStats p' st' tr').
Proof. cbn [abstract]. intros ->. reflexivity. Qed.
Theorem abstract_mirroring p p' d d' st tr : abs_pph p = abs_pph p' ->
  abstract (BmpWire.WMirror p d) = abstract (BmpWire.WMirror p' d') /\
  abstract (BmpWire.WMirror p d) = abstract (BmpWire.WStats p st tr).
Proof. cbn [abstract]. intros ->. auto. Qed.
Theorem abstract_peer_down p p' rs rs' d d' : abs_pph p = abs_pph p' ->
  abstract (BmpWire.WPeerDown p rs d) = abstract (BmpWire.WPeerDown p' rs' d').
Proof. cbn [abstract]. intros ->. reflexivity. Qed.
Theorem abstract_peer_up p p' la la' lp lp' rp rp' s s' rc rc' i i' :
  abs_pph p = abs_pph p' -> BmpWire.has_cap 64 rc = BmpWire.has_cap 64 rc' ->
  abstract (BmpWire.WPeerUp p la lp rp s rc i) = abstract (BmpWire.WPeerUp p' la' lp' rp' s' rc' i').
Proof. cbn [abstract]. unfold eor_capable. intros -> ->. reflexivity. Qed.
Theorem abstract_route_monitoring p p' d d' : abs_pph p = abs_pph p' -> route_pdu d = route_pdu d' ->
  abstract (BmpWire.WRoute p d) = abstract (BmpWire.WRoute p' d').
Proof. cbn [abstract]. unfold route_upd. intros -> ->. reflexivity. Qed.

(* the PDU is delimited by its own length field: what follows it in the frame is not read *)
Lemma route_pdu_app pdu tr lh ll mk rest :
  BgpModel.take_n 16 pdu = Some (mk, lh :: ll :: rest) -> BgpModel.u16 lh ll = BgpModel.lenN pdu ->
  route_pdu (pdu ++ tr) = Some pdu.
Proof.
  intros Ht Hl. apply BgpProofs.take_n_inv in Ht as [-> Hm]. unfold route_pdu.
  rewrite <- app_assoc. rewrite <- Hm at 1. rewrite BgpProofs.take_n_app. cbn [app].
  rewrite Hl. replace (mk ++ lh :: ll :: rest ++ tr) with ((mk ++ lh :: ll :: rest) ++ tr) by (rewrite <- app_assoc; reflexivity).
  rewrite BgpProofs.take_n_app. reflexivity.
Qed.

Lemma route_pdu_encoded u tr : route_pdu (BgpModel.encode u ++ tr) = Some (BgpModel.encode u).
Proof.
  apply (route_pdu_app _ tr ((19 + BgpModel.lenN (BgpModel.enc_body u)) / 256) ((19 + BgpModel.lenN (BgpModel.enc_body u)) mod 256)
           BgpModel.marker (2 :: BgpModel.enc_body u)).
  - unfold BgpModel.encode. change 16 with (BgpModel.lenN BgpModel.marker). apply BgpProofs.take_n_app.
  - rewrite BgpProofs.u16_enc. unfold BgpModel.encode, BgpModel.enc_u16.
    rewrite BgpProofs.lenN_app. cbn [app]. rewrite !BgpProofs.lenN_cons. change (BgpModel.lenN BgpModel.marker) with 16. lia.
Qed.

Theorem route_upd_encoded u tr : BgpModel.wf u = true -> route_upd (BgpModel.encode u ++ tr) = Some (upd_of_update u).
Proof. intros H. unfold route_upd, raw_upd. rewrite route_pdu_encoded, BgpProofs.roundtrip by exact H. reflexivity. Qed.

(* ---------- the malformed classes are the unparsable frames ---------- *)
Theorem unparsable_classes :
  (forall b, BgpModel.lenN b < 6 -> wire_msg b = None) /\
  (forall ver r, ver <> 3 -> wire_msg (ver :: r) = None) /\
  (forall ver l3 l2 l1 l0 r, BmpWire.u32 l3 l2 l1 l0 <> BgpModel.lenN (ver :: l3 :: l2 :: l1 :: l0 :: r) ->
      wire_msg (ver :: l3 :: l2 :: l1 :: l0 :: r) = None) /\
  (forall ver l3 l2 l1 l0 ty body, 6 < ty -> wire_msg (ver :: l3 :: l2 :: l1 :: l0 :: ty :: body) = None) /\
  (forall ver l3 l2 l1 l0 ty pt r, ty <> 4 -> ty <> 5 -> 3 < pt -> wire_msg (ver :: l3 :: l2 :: l1 :: l0 :: ty :: pt :: r) = None) /\
  (forall m k, (k < length (BmpWire.encode m))%nat -> wire_msg (take k (BmpWire.encode m)) = None) /\
  (forall m x, x <> [] -> wire_msg (BmpWire.encode m ++ x) = None).
Proof.
  unfold wire_msg. repeat split; intros.
  - rewrite BmpWireProofs.decode_short by assumption. reflexivity.
  - rewrite BmpWireProofs.decode_bad_version by assumption. reflexivity.
  - rewrite BmpWireProofs.decode_bad_length by assumption. reflexivity.
  - rewrite BmpWireProofs.decode_unknown_type by assumption. reflexivity.
  - rewrite BmpWireProofs.decode_bad_peer_type by assumption. reflexivity.
  - rewrite BmpWireProofs.decode_truncated by assumption. reflexivity.
  - rewrite BmpWireProofs.decode_extended by assumption. reflexivity.
Qed.

(* a refused frame never reaches the state machine *)
Lemma wire_step_unparsable r rid s frame : wire_msg frame = None -> wire_step r rid s frame = None.
Proof. unfold wire_step. intros ->. reflexivity. Qed.

Lemma wire_msg_encoded m : BmpWire.wf m = true -> wire_msg (BmpWire.encode m) = Some (abstract m).
Proof. intros H. unfold wire_msg. rewrite BmpWireProofs.roundtrip by exact H. reflexivity. Qed.

Lemma wire_step_encoded r rid s m : BmpWire.wf m = true ->
  wire_step r rid s (BmpWire.encode m) = Some (sm_step r rid s (abstract m)).
Proof. intros H. unfold wire_step. rewrite wire_msg_encoded by exact H. reflexivity. Qed.

(* ---------- sessions ---------- *)
Lemma sess_run_some r rid s ms :
  sess_run r rid s (map Some ms) =
  let '(r', s', os) := sm_run r rid s ms in (r', s', map Some os).
Proof.
  revert r s. induction ms as [|m ms IH]; intros r s; [reflexivity|].
  cbn [map sess_run sm_run]. destruct (sm_step r rid s m) as [[r1 s1] o]. rewrite IH.
  destruct (sm_run r1 rid s1 ms) as [[r2 s2] os]. reflexivity.
Qed.

(* the state after a run is the state after the run over the messages that were let through *)
Lemma sess_run_state r rid s items :
  (sess_run r rid s items).1 = (sm_run r rid s (omap id items)).1.
Proof.
  revert r s. induction items as [|[m|] items IH]; intros r s; [reflexivity| |].
  - change (omap id (Some m :: items)) with (m :: omap id items). cbn [sess_run sm_run]. destruct (sm_step r rid s m) as [[r1 s1] o]. specialize (IH r1 s1).
    destruct (sess_run r1 rid s1 items) as [[r2 s2] os]. destruct (sm_run r1 rid s1 (omap id items)) as [[r3 s3] os']. exact IH.
  - change (omap id (None :: items)) with (omap id items). cbn [sess_run]. specialize (IH r s). destruct (sess_run r rid s items) as [[r2 s2] os]. exact IH.
Qed.

Lemma map_wire_msg_encoded ms : List.forallb BmpWire.wf ms = true -> map wire_msg (map BmpWire.encode ms) = map Some (map abstract ms).
Proof.
  induction ms as [|m ms IH]; [reflexivity|]. cbn [List.forallb map]. intros H. apply andb_prop in H as [Hm Hms].
  rewrite wire_msg_encoded, IH by assumption. reflexivity.
Qed.

Theorem wire_frames_encoded r rid s ms : List.forallb BmpWire.wf ms = true ->
  wire_frames r rid s (map BmpWire.encode ms) =
  let '(r', s', os) := sm_run r rid s (map abstract ms) in (r', s', map Some os).
Proof. intros H. unfold wire_frames. rewrite map_wire_msg_encoded by exact H. apply sess_run_some. Qed.

(* the octet stream of a session: the encodings one after the other, cut by the length fields *)
Theorem wire_session_encoded r rid s ms : List.forallb BmpWire.wf ms = true ->
  wire_session r rid s (concat (map BmpWire.encode ms)) =
  let '(r', s', os) := sm_run r rid s (map abstract ms) in (r', s', map Some os).
Proof.
  intros H. unfold wire_session.
  replace (mjoin (map BmpWire.encode ms)) with (List.concat (List.map BmpWire.encode ms)) by reflexivity.
  rewrite BmpWireProofs.stream_of_encodings by exact H. cbn [fst].
  rewrite <- list_fmap_compose. change (item_msg ∘ BmpWire.SMsg) with (fun m => Some (abstract m)).
  rewrite (list_fmap_compose abstract Some). apply sess_run_some.
Qed.

(* ---------- C05 on octets ---------- *)
Theorem wire_invalid_iff_violation r rid s m : BmpWire.wf m = true ->
  exists res, wire_step r rid s (BmpWire.encode m) = Some res /\ (res.2 = OInvalid <-> violates s (abstract m) = true).
Proof.
  intros H. exists (sm_step r rid s (abstract m)). split; [apply wire_step_encoded, H|apply step_invalid_iff].
Qed.

(* the phase only moves forward over any sequence of frames, refused ones included *)
Theorem wire_phase_monotone r rid s items1 items2 :
  phase_idx (sm_phase (sess_run r rid s items1).1.2) <= phase_idx (sm_phase (sess_run r rid s (items1 ++ items2)).1.2).
Proof. rewrite !sess_run_state, omap_app. apply run_phase_prefix. Qed.

Corollary wire_frames_phase_monotone r rid s f1 f2 :
  phase_idx (sm_phase (wire_frames r rid s f1).1.2) <= phase_idx (sm_phase (wire_frames r rid s (f1 ++ f2)).1.2).
Proof. unfold wire_frames. rewrite fmap_app. apply wire_phase_monotone. Qed.

(* ---------- the pipeline ---------- *)
Theorem wire_bmp_encoded k m : BmpWire.wf m = true -> wire_bmp k (BmpWire.encode m) = Some (WMsg k (abstract m)).
Proof. intros H. unfold wire_bmp. rewrite wire_msg_encoded by exact H. reflexivity. Qed.

(* a Route Monitoring frame around an encoded UPDATE is PipeRaw's operation on that UPDATE *)
Theorem wire_bmp_route_monitoring k p u tr : BgpModel.wf u = true ->
  BmpWire.wf (BmpWire.WRoute p (BgpModel.encode u ++ tr)) = true ->
  wire_bmp k (BmpWire.encode (BmpWire.WRoute p (BgpModel.encode u ++ tr))) = Some (raw_bmp k (abs_pph p) (BgpModel.encode u)) /\
  raw_bmp k (abs_pph p) (BgpModel.encode u) = WMsg k (MRoute (abs_pph p) (Some (upd_of_update u))).
Proof.
  intros Hu Hw. rewrite wire_bmp_encoded by exact Hw. cbn [abstract]. rewrite route_upd_encoded by exact Hu.
  unfold raw_bmp, raw_upd. rewrite BgpProofs.roundtrip by exact Hu. auto.
Qed.

(* ---------- io.rs bmp_read (BmpStreamModel) cuts a stream of encodings into the encodings ---------- *)
Lemma read_exact_bytes x : forall evs acc, read_exact (map EByte x ++ evs) (BgpModel.lenN x) acc = RxOk (acc ++ x) evs.
Proof.
  induction x as [|b x IH]; intros evs acc.
  - cbn [map app]. rewrite app_nil_r. destruct evs; reflexivity.
  - cbn [map app read_exact]. replace (BgpModel.lenN (b :: x) =? 0) with false by (symmetry; apply N.eqb_neq; rewrite BgpProofs.lenN_cons; lia).
    replace (N.pred (BgpModel.lenN (b :: x))) with (BgpModel.lenN x) by (rewrite BgpProofs.lenN_cons; lia).
    rewrite IH, <- app_assoc. reflexivity.
Qed.

Theorem bmp_read_encoded m evs : bmp_read (map EByte (BmpWire.encode m) ++ evs) = RdFrame (BmpWire.encode m) evs.
Proof.
  destruct (BmpWireProofs.encode_shape m) as (a & b & c & d & He & Hu & Hl). rewrite He in *.
  unfold bmp_read.
  change (map EByte (3 :: a :: b :: c :: d :: BmpWire.msg_code m :: BmpWire.enc_body m) ++ evs)
    with (map EByte [3; a; b; c; d] ++ (map EByte (BmpWire.msg_code m :: BmpWire.enc_body m) ++ evs)).
  change 5 with (BgpModel.lenN [3; a; b; c; d]) at 1. rewrite read_exact_bytes. cbn [app hdr_len].
  change (be32 a b c d) with (BmpWire.u32 a b c d). rewrite Hu.
  replace (_ <? 5) with false by (symmetry; apply N.ltb_ge; rewrite !BgpProofs.lenN_cons; lia).
  replace (BgpModel.lenN (3 :: a :: b :: c :: d :: BmpWire.msg_code m :: BmpWire.enc_body m) - 5)
    with (BgpModel.lenN (BmpWire.msg_code m :: BmpWire.enc_body m)) by (rewrite !BgpProofs.lenN_cons; lia).
  rewrite read_exact_bytes. reflexivity.
Qed.

(* ---------- C06 / C07 with the parser instantiated: real octet streams ---------- *)
(* process_msg never refuses a message (its type code is below 7) *)
Lemma process_msg_some rid s m : exists s', process_msg rid s m = Some s'.
Proof.
  unfold process_msg. replace (msg_type_code m <? 7) with true by (symmetry; apply N.ltb_lt; destruct m; cbn; lia).
  destruct (sm_step (s_reg s) rid (s_sm s) m) as [[r' sm'] o]. eauto.
Qed.

(* the session state after a list of messages went through process_msg *)
Fixpoint msgs_run (rid : N) (s : sess) (ms : list msg) : sess :=
  match ms with
  | [] => s
  | m :: r => match process_msg rid s m with Some s' => msgs_run rid s' r | None => s end
  end.

(* one iteration of the read loop on the octets of an encoded message: the frame is cut off by
   its length field, decoded, abstracted and handed to process_msg *)
Lemma loop_encoded f fixed tl rid m evs s : BmpWire.wf m = true ->
  loop (S f) wire_msg fixed tl rid (map EByte (BmpWire.encode m) ++ evs) s =
  match process_msg rid s (abstract m) with
  | Some s' => loop f wire_msg fixed tl rid evs s'
  | None => Panic PMetricsIndex evs s
  end.
Proof. intros H. cbn [loop]. rewrite bmp_read_encoded, wire_msg_encoded by exact H. reflexivity. Qed.

Lemma loop_encoded_stream ms : forall f fixed rid s, List.forallb BmpWire.wf ms = true -> (length ms < f)%nat ->
  loop f wire_msg fixed TEof rid (map EByte (concat (map BmpWire.encode ms))) s =
  Done EndEof [] (msgs_run rid s (map abstract ms)) (cleanup rid (msgs_run rid s (map abstract ms))).
Proof.
  induction ms as [|m ms IH]; intros f fixed rid s Hw Hf.
  - destruct f as [|f]; [inversion Hf|]. reflexivity.
  - cbn [List.forallb] in Hw. apply andb_prop in Hw as [Hm Hms]. cbn [length] in Hf.
    destruct f as [|f]; [inversion Hf|]. cbn [map concat mjoin]. rewrite fmap_app, loop_encoded by exact Hm.
    cbn [msgs_run]. destruct (process_msg_some rid s (abstract m)) as [s' ->]. apply IH; [exact Hms|lia].
Qed.

(* a connection that delivers the encodings of any well-formed messages and then closes: every
   message reaches the state machine, in order, and the session ends in the cleanup at end of file *)
Theorem run_from_encoded_stream fixed rid ms s : List.forallb BmpWire.wf ms = true ->
  run_from wire_msg fixed TEof rid (map EByte (concat (map BmpWire.encode ms))) s =
  Done EndEof [] (msgs_run rid s (map abstract ms)) (cleanup rid (msgs_run rid s (map abstract ms))).
Proof.
  intros H. unfold run_from. apply loop_encoded_stream; [exact H|].
  rewrite map_length. clear H. induction ms as [|m ms IH]; [cbn; lia|].
  cbn [map concat mjoin length]. rewrite app_length.
  pose proof (BmpWireProofs.encode_len_ge m) as Hge. unfold BgpModel.lenN in Hge. lia.
Qed.
