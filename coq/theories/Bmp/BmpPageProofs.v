(* Proofs about the recent-parse-errors buffer (BmpPageModel.v): for EVERY history
   of pushes, get() returns (never panics) and what the page lists is the last
   ring_max entries of the history, oldest first. *)
From stdpp Require Import gmap.
From Coq Require Import NArith Lia.
From RV Require Import Ingress.IngressModel Rib.RibModel Bmp.BmpModel Bmp.BmpStreamModel Bmp.BmpPageModel.

(* the invariant: not yet full - the Vec is the history and the index its
   length; full - ring_max entries, the index inside, and the Vec rotated at the
   index is the last ring_max entries of the history *)
Definition ring_inv {A} (h : list A) (r : ring A) : Prop :=
  (length h < ring_max /\ rg_buf r = h /\ rg_next r = length h) \/
  (ring_max <= length h /\ length (rg_buf r) = ring_max /\ rg_next r < ring_max /\
   drop (rg_next r) (rg_buf r) ++ take (rg_next r) (rg_buf r) = last_n ring_max h).

Lemma ring_inv_new {A} : ring_inv (@nil A) ring_new.
Proof. left. cbn. unfold ring_max. repeat split; lia. Qed.

Lemma last_n_all {A} n (l : list A) : length l <= n -> last_n n l = l.
Proof. intros H. unfold last_n. replace (length l - n) with 0 by lia. reflexivity. Qed.

Lemma last_n_snoc {A} n (l : list A) x y t :
  last_n (S n) l = x :: t -> length l >= S n -> last_n (S n) (l ++ [y]) = t ++ [y].
Proof.
  unfold last_n. intros Hl Hlen. rewrite app_length. cbn [length].
  replace (length l + 1 - S n) with (S (length l - S n)) by lia.
  rewrite drop_app_le by lia.
  assert (Hd : drop (S (length l - S n)) l = t).
  { replace (S (length l - S n)) with ((length l - S n) + 1) by lia.
    rewrite <- drop_drop. rewrite Hl. reflexivity. }
  rewrite Hd. reflexivity.
Qed.

Lemma ring_inv_push {A} (d : A) h r e : ring_inv h r -> ring_inv (h ++ [e]) (ring_push d r e).
Proof.
  unfold ring_inv, ring_push, ring_max. intros [(Hlt & Hbuf & Hnext)|(Hge & Hlen & Hnext & Hrot)].
  - (* not full yet: the Vec grows by one default entry, which is overwritten *)
    destruct r as [buf nx]. cbn [rg_buf rg_next] in *. subst buf nx.
    assert (Hl : Nat.ltb (length h) (length h + 1) = true) by (apply Nat.ltb_lt; lia).
    rewrite Hl. replace (length h + 1 - length h) with 1 by lia. cbn [replicate].
    assert (Hins : <[ length h := e ]> (h ++ [d]) = h ++ [e]).
    { rewrite insert_app_r_alt by lia. replace (length h - length h) with 0 by lia. reflexivity. }
    rewrite Hins. cbn [rg_buf rg_next]. rewrite app_length. cbn [length].
    destruct (Nat.leb_spec (10 - 1) (length h)) as [H9|H9].
    + right. assert (length h = 9) by lia. repeat split; try lia.
      rewrite take_0, drop_0, app_nil_r. symmetry. apply last_n_all. rewrite app_length. cbn [length]. lia.
    + left. repeat split; lia.
  - (* full: one slot is overwritten, the index moves on *)
    destruct r as [buf nx]. cbn [rg_buf rg_next] in *.
    assert (Hl : Nat.ltb (length buf) (nx + 1) = false) by (apply Nat.ltb_ge; lia).
    rewrite Hl. right. cbn [rg_buf rg_next]. rewrite app_length. cbn [length].
    rewrite insert_length.
    assert (Hnx : nx < length buf) by lia.
    destruct (lookup_lt_is_Some_2 buf nx Hnx) as [x Hx].
    pose proof (take_drop_middle buf nx x Hx) as Hmid.
    assert (Hdrop : drop nx buf = x :: drop (S nx) buf).
    { rewrite <- Hmid at 1. rewrite drop_app_alt; [reflexivity|]. rewrite take_length. lia. }
    rewrite Hdrop in Hrot. cbn [app] in Hrot.
    pose proof (last_n_snoc 9 h x e _ (eq_sym Hrot) ltac:(lia)) as Hsn.
    assert (Hins : <[ nx := e ]> buf = take nx buf ++ e :: drop (S nx) buf) by (apply insert_take_drop; lia).
    destruct (Nat.leb_spec (10 - 1) nx) as [H9|H9].
    + (* the index wraps *)
      assert (nx = 9) by lia. subst nx. repeat split; try lia.
      rewrite take_0, drop_0, app_nil_r. rewrite Hsn, Hins.
      assert (Hnil : drop 10 buf = []) by (apply drop_ge; lia).
      rewrite Hnil. cbn [app]. reflexivity.
    + repeat split; try lia.
      rewrite Hsn, Hins.
      assert (Hd2 : drop (S nx) (take nx buf ++ e :: drop (S nx) buf) = drop (S nx) buf).
      { change (e :: drop (S nx) buf) with ([e] ++ drop (S nx) buf). rewrite app_assoc.
        rewrite drop_app_alt; [reflexivity|]. rewrite app_length, take_length. cbn [length]. lia. }
      assert (Ht2 : take (S nx) (take nx buf ++ e :: drop (S nx) buf) = take nx buf ++ [e]).
      { change (e :: drop (S nx) buf) with ([e] ++ drop (S nx) buf). rewrite app_assoc.
        rewrite take_app_alt; [reflexivity|]. rewrite app_length, take_length. cbn [length]. lia. }
      rewrite Hd2, Ht2. rewrite app_assoc. reflexivity.
Qed.

Lemma ring_of_snoc {A} (d : A) h e : ring_of d (h ++ [e]) = ring_push d (ring_of d h) e.
Proof. unfold ring_of. rewrite fold_left_app. reflexivity. Qed.

Lemma ring_inv_of {A} (d : A) h : ring_inv h (ring_of d h).
Proof.
  induction h as [|e h IH] using rev_ind.
  - apply ring_inv_new.
  - rewrite ring_of_snoc. apply ring_inv_push. exact IH.
Qed.

(* get() never panics, and start ++ end is the last ring_max entries in arrival order *)
Lemma ring_get_exact {A} (d : A) h :
  exists a b, ring_get (ring_of d h) = Some (a, b) /\ a ++ b = last_n ring_max h.
Proof.
  pose proof (ring_inv_of d h) as [(Hlt & Hbuf & Hnext)|(Hge & Hlen & Hnext & Hrot)]; unfold ring_get.
  - rewrite Hbuf. assert (Hl : Nat.ltb (length h) ring_max = true) by (apply Nat.ltb_lt; lia).
    rewrite Hl. exists h, []. split; [reflexivity|]. rewrite app_nil_r. symmetry. apply last_n_all. lia.
  - assert (Hl : Nat.ltb (length (rg_buf (ring_of d h))) ring_max = false) by (apply Nat.ltb_ge; lia).
    rewrite Hl. assert (Hle : Nat.leb (rg_next (ring_of d h)) (length (rg_buf (ring_of d h))) = true) by (apply Nat.leb_le; lia).
    rewrite Hle. eexists _, _. split; [reflexivity|]. exact Hrot.
Qed.

Lemma ring_shown_exact {A} (d : A) h : ring_shown (ring_of d h) = Some (last_n ring_max h).
Proof.
  unfold ring_shown. destruct (ring_get_exact d h) as (a & b & -> & Hab). rewrite Hab. reflexivity.
Qed.

Lemma last_n_length {A} n (l : list A) : length (last_n n l) <= n.
Proof. unfold last_n. rewrite drop_length. lia. Qed.

Lemma last_n_suffix {A} n (l : list A) : exists pre, l = pre ++ last_n n l.
Proof. exists (take (length l - n) l). unfold last_n. symmetry. apply take_drop. Qed.

(* the statement of the property: for every history the page part is there, has at
   most ring_max entries, and they are the most recent ones, oldest first *)
Lemma ring_page_total {A} (d : A) h :
  exists l, ring_shown (ring_of d h) = Some l /\ length l <= ring_max /\
            (exists older, h = older ++ l) /\ (length h <= ring_max -> l = h).
Proof.
  exists (last_n ring_max h). split; [apply ring_shown_exact|]. split; [apply last_n_length|].
  split; [apply last_n_suffix|]. apply last_n_all.
Qed.

(* what a wrong index does: the buffer the seeded variant reaches (ten entries, the
   index a running counter) makes get() panic - the hypothesis-free form of "get is
   total" therefore needs the invariant above, it does not hold for arbitrary rings *)
Lemma ring_get_index_past_end : ring_get (MkRing (replicate 10 0%N) 11) = None.
Proof. reflexivity. Qed.

(* ---------- on the connection model ---------- *)
Lemma page_errors_total s :
  exists l, page_errors s = Some l /\ length l <= ring_max /\ (exists older, errs_of s = older ++ l).
Proof.
  unfold page_errors. destruct (ring_page_total 0%N (errs_of s)) as (l & H1 & H2 & H3 & _). eauto.
Qed.

Lemma page_at_never_panics parse rid evs k s0 : page_at parse rid evs k s0 <> Some None.
Proof.
  unfold page_at. destruct (run_from parse true THang rid (take k evs) s0) as [e r s out| |]; try discriminate.
  destruct e; try discriminate. destruct (page_errors_total s) as (l & -> & _). discriminate.
Qed.

Lemma page_at_shape parse rid evs k s0 :
  page_at parse rid evs k s0 = None \/
  exists l, page_at parse rid evs k s0 = Some (Some l) /\ length l <= ring_max.
Proof.
  unfold page_at. destruct (run_from parse true THang rid (take k evs) s0) as [e r s out| |]; auto.
  destruct e; auto. right. destruct (page_errors_total s) as (l & -> & Hl & _). eauto.
Qed.
