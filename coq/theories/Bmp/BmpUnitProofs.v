(* Proofs about the unit level metrics of the BMP connection (BmpStreamModel.v,
   second part): C15, "per-type BMP message counts, invalid-message counts, ...
   connections ... lost". *)
From stdpp Require Import gmap.
From Coq Require Import NArith Lia.
From RV Require Import Ingress.IngressModel Rib.RibModel Bmp.BmpModel Bmp.BmpProofs Bmp.BmpStreamModel Bmp.BmpStreamProofs.
Local Open Scope N_scope.

Notation RM u := (router_metrics u) (only parsing).

(* ---------- the status reporter's operations ---------- *)
Lemma wf_recv_length u : um_wf u -> length (rm_recv (router_metrics u)) = n_types.
Proof. unfold um_wf, router_metrics. destruct (um_router u) as [r|]; cbn; auto. Qed.

Lemma receive_io_error_spec u :
  let u' := receive_io_error u in
  rm_recv (RM u') = rm_recv (RM u) /\ rm_processed (RM u') = rm_processed (RM u) /\
  rm_invalid (RM u') = rm_invalid (RM u) /\ rm_ioerr (RM u') = rm_ioerr (RM u) + 1 /\
  um_lost u' = um_lost u /\ (um_wf u -> um_wf u').
Proof. cbn. repeat split; auto. intros H. unfold um_wf. cbn. apply wf_recv_length, H. Qed.

Lemma message_processed_spec u :
  let u' := message_processed u in
  rm_recv (RM u') = rm_recv (RM u) /\ rm_processed (RM u') = rm_processed (RM u) + 1 /\
  rm_invalid (RM u') = rm_invalid (RM u) /\ rm_ioerr (RM u') = rm_ioerr (RM u) /\
  um_lost u' = um_lost u /\ (um_wf u -> um_wf u').
Proof. cbn. repeat split; auto. intros H. unfold um_wf. cbn. apply wf_recv_length, H. Qed.

Lemma message_processing_failure_spec u :
  let u' := message_processing_failure u in
  rm_recv (RM u') = rm_recv (RM u) /\ rm_processed (RM u') = rm_processed (RM u) /\
  rm_invalid (RM u') = rm_invalid (RM u) + 1 /\ rm_ioerr (RM u') = rm_ioerr (RM u) /\
  um_lost u' = um_lost u /\ (um_wf u -> um_wf u').
Proof. cbn. repeat split; auto. intros H. unfold um_wf. cbn. apply wf_recv_length, H. Qed.

Lemma message_received_spec u code : um_wf u -> code < 7 ->
  exists u' c, message_received u code = Some u' /\ rm_recv (RM u) !! N.to_nat code = Some c /\
    rm_recv (RM u') = <[ N.to_nat code := c + 1 ]> (rm_recv (RM u)) /\
    rm_processed (RM u') = rm_processed (RM u) /\ rm_invalid (RM u') = rm_invalid (RM u) /\
    rm_ioerr (RM u') = rm_ioerr (RM u) /\ um_lost u' = um_lost u /\ um_wf u'.
Proof.
  intros Hw Hc. unfold message_received.
  assert (Hl : (N.to_nat code < length (rm_recv (router_metrics u)))%nat).
  { rewrite (wf_recv_length u Hw). unfold n_types. lia. }
  apply lookup_lt_is_Some_2 in Hl as [c Hc']. rewrite Hc'.
  eexists _, c. split; [reflexivity|]. split; [reflexivity|]. cbn. repeat split; auto.
  unfold um_wf. cbn. rewrite insert_length. apply wf_recv_length, Hw.
Qed.

(* looking at the router's page changes no counter *)
Lemma page_visit_spec u :
  router_metrics (page_visit u) = router_metrics u /\ um_lost (page_visit u) = um_lost u /\
  (forall t, recv_of (page_visit u) t = recv_of u t) /\ (um_wf u -> um_wf (page_visit u)).
Proof. repeat split; auto. intros H. unfold um_wf. cbn. apply wf_recv_length, H. Qed.

(* an index outside the seven slots is the panic *)
Lemma message_received_out_of_range u code : um_wf u -> 7 <= code -> message_received u code = None.
Proof.
  intros Hw Hc. unfold message_received.
  rewrite (lookup_ge_None_2 (rm_recv (router_metrics u)) (N.to_nat code)); [reflexivity|].
  rewrite (wf_recv_length u Hw). unfold n_types. lia.
Qed.

Lemma sumN_cons x l : sumN (x :: l) = x + sumN l.
Proof. reflexivity. Qed.

Lemma sumN_insert (l : list N) i c : l !! i = Some c -> sumN (<[ i := c + 1 ]> l) = sumN l + 1.
Proof.
  revert i. induction l as [|x l IH]; intros [|i] H; try discriminate.
  - injection H as ->. change (<[0%nat := c + 1]> (c :: l)) with (c + 1 :: l). rewrite !sumN_cons. lia.
  - change (<[S i := c + 1]> (x :: l)) with (x :: <[i := c + 1]> l). rewrite !sumN_cons, (IH i H). lia.
Qed.

(* ---------- process_msg with its three reports ---------- *)
Definition is_type (fr : list N) (t : nat) : N := if N.eqb (frame_type fr) (N.of_nat t) then 1 else 0.

Lemma process_msg_m_spec rid s fr m u : um_wf u -> frame_type fr < 7 ->
  let st := sm_step (s_reg s) rid (s_sm s) m in
  exists s' u', process_msg_m rid s fr m u = Some (s', u') /\ process_msg rid s m = Some s' /\
    s_reg s' = st.1.1 /\ s_sm s' = st.1.2 /\
    um_wf u' /\ um_lost u' = um_lost u /\
    (forall t, (t < n_types)%nat -> recv_of u' t = recv_of u t + is_type fr t) /\
    sumN (rm_recv (RM u')) = sumN (rm_recv (RM u)) + 1 /\
    rm_processed (RM u') = rm_processed (RM u) + 1 /\
    rm_invalid (RM u') = rm_invalid (RM u) + inval st.2 /\
    rm_ioerr (RM u') = rm_ioerr (RM u).
Proof.
  intros Hw Hc. cbv zeta. unfold process_msg_m, process_msg.
  destruct (message_received_spec u (frame_type fr) Hw Hc) as (u1 & c & -> & Hl & Hr1 & Hp1 & Hi1 & He1 & Hlo1 & Hw1).
  pose proof (msg_type_code_lt m) as Hm. apply N.ltb_lt in Hm. rewrite Hm.
  destruct (sm_step (s_reg s) rid (s_sm s) m) as [[r' sm'] o]. cbn [fst snd].
  destruct (message_processed_spec u1) as (Hr2 & Hp2 & Hi2 & He2 & Hlo2 & Hw2). cbv zeta in *.
  set (u2 := message_processed u1) in *.
  assert (Hrecv : forall u3, rm_recv (RM u3) = rm_recv (RM u2) ->
            (forall t, (t < n_types)%nat -> recv_of u3 t = recv_of u t + is_type fr t) /\
            sumN (rm_recv (RM u3)) = sumN (rm_recv (RM u)) + 1).
  { intros u3 H3. split.
    - intros t Ht. unfold recv_of, is_type. rewrite H3, Hr2, Hr1.
      destruct (N.eqb_spec (frame_type fr) (N.of_nat t)) as [E|E].
      + rewrite E, Nat2N.id in *. rewrite list_lookup_insert by (apply lookup_lt_is_Some_1; eauto). rewrite Hl. reflexivity.
      + rewrite list_lookup_insert_ne by lia. cbn. lia.
    - rewrite H3, Hr2, Hr1. apply sumN_insert, Hl. }
  destruct o as [| | |x].
  - destruct (message_processing_failure_spec u2) as (Hr3 & Hp3 & Hi3 & He3 & Hlo3 & Hw3). cbv zeta in *.
    destruct (Hrecv _ Hr3) as [Ha Hb].
    eexists _, _. split; [reflexivity|]. split; [reflexivity|]. cbn [s_reg s_sm inval].
    repeat split; auto; try congruence; lia.
  - destruct (Hrecv u2 eq_refl) as [Ha Hb].
    eexists _, _. split; [reflexivity|]. split; [reflexivity|]. cbn [s_reg s_sm inval].
    repeat split; auto; try congruence; lia.
  - destruct (Hrecv u2 eq_refl) as [Ha Hb].
    eexists _, _. split; [reflexivity|]. split; [reflexivity|]. cbn [s_reg s_sm inval].
    repeat split; auto; try congruence; lia.
  - destruct (Hrecv u2 eq_refl) as [Ha Hb].
    eexists _, _. split; [reflexivity|]. split; [reflexivity|]. cbn [s_reg s_sm inval].
    repeat split; auto; try congruence; lia.
Qed.

(* forgetting the counters *)
Lemma process_msg_m_fst rid s fr m u s' u' :
  process_msg_m rid s fr m u = Some (s', u') -> process_msg rid s m = Some s'.
Proof.
  unfold process_msg_m, process_msg. destruct (message_received u (frame_type fr)) as [u1|]; [|discriminate].
  pose proof (msg_type_code_lt m) as Hm. apply N.ltb_lt in Hm. rewrite Hm.
  destruct (sm_step (s_reg s) rid (s_sm s) m) as [[r' sm'] o]. intros [= <- _]. reflexivity.
Qed.

(* ---------- [loopm] is [loop] with counters ---------- *)
(* without any premise: it is [loop] unless the metrics index panics *)
Lemma loopm_fst_or_index parse tl rid : forall fuel evs s u,
  (exists r s' u', loopm fuel parse tl rid evs s u = (Panic PMetricsIndex r s', u')) \/
  (loopm fuel parse tl rid evs s u).1 = loop fuel parse true tl rid evs s.
Proof.
  induction fuel as [|f IH]; intros evs s u; [right; reflexivity|].
  cbn [loopm loop]. destruct (bmp_read evs) as [fr r|k r|r|].
  - destruct (parse fr) as [m|].
    + destruct (process_msg_m rid s fr m u) as [[s' u']|] eqn:E.
      * rewrite (process_msg_m_fst _ _ _ _ _ _ _ E). apply IH.
      * left. eauto.
    + cbn. apply IH.
  - destruct (is_fatal k); [right; reflexivity|apply IH].
  - cbn. right. reflexivity.
  - destruct tl; cbn; right; reflexivity.
Qed.

Lemma loopm_fst parse tl rid : parse_types_ok parse -> forall fuel evs s u, um_wf u ->
  (loopm fuel parse tl rid evs s u).1 = loop fuel parse true tl rid evs s.
Proof.
  intros Hp. induction fuel as [|f IH]; intros evs s u Hw; [reflexivity|].
  cbn [loopm loop]. destruct (bmp_read evs) as [fr r|k r|r|].
  - destruct (parse fr) as [m|] eqn:Epa.
    + destruct (process_msg_m_spec rid s fr m u Hw (Hp _ _ Epa)) as (s' & u' & -> & -> & _ & _ & Hw' & _). apply IH, Hw'.
    + cbn. apply IH. apply receive_io_error_spec, Hw.
  - destruct (is_fatal k); [reflexivity|]. apply IH. apply receive_io_error_spec, Hw.
  - reflexivity.
  - destruct tl; reflexivity.
Qed.

(* a parser that lets a type octet above 6 through: the index panics (the premise is needed) *)
Definition parse_any (f : list N) : option msg := Some MInit.
Lemma index_needs_parser_guarantee :
  exists s u, run_from_m parse_any TEof 1 (map EByte [3; 0; 0; 0; 6; 7]) (conn_init 1).2 um_init = (Panic PMetricsIndex [] s, u).
Proof. vm_compute. eexists _, _. reflexivity. Qed.

(* ---------- the script-level trace ---------- *)
Lemma iters_fuel_irrelevant parse tl : forall f1 f2 evs,
  (length evs < f1)%nat -> (length evs < f2)%nat -> iters f1 parse tl evs = iters f2 parse tl evs.
Proof.
  induction f1 as [|f1 IH]; intros f2 evs H1 H2; [lia|].
  destruct f2 as [|f2]; [lia|]. cbn [iters].
  pose proof (bmp_read_shorter evs) as Hs. unfold shorter in Hs.
  destruct (bmp_read evs) as [fr r|k r|r|]; try reflexivity.
  - destruct (parse fr); f_equal; apply IH; lia.
  - destruct (is_fatal k); [reflexivity|]. f_equal. apply IH; lia.
Qed.

Lemma loopm_fuel_irrelevant parse tl rid : forall f1 f2 evs s u,
  (length evs < f1)%nat -> (length evs < f2)%nat ->
  loopm f1 parse tl rid evs s u = loopm f2 parse tl rid evs s u.
Proof.
  induction f1 as [|f1 IH]; intros f2 evs s u H1 H2; [lia|].
  destruct f2 as [|f2]; [lia|]. cbn [loopm].
  pose proof (bmp_read_shorter evs) as Hs. unfold shorter in Hs.
  destruct (bmp_read evs) as [fr r|k r|r|].
  - destruct (parse fr) as [m|].
    + destruct (process_msg_m rid s fr m u) as [[s' u']|]; [apply IH; lia|reflexivity].
    + cbn. apply IH; lia.
  - destruct (is_fatal k); [reflexivity|apply IH; lia].
  - reflexivity.
  - destruct tl; reflexivity.
Qed.

Lemma countb_app {A} (f : A -> bool) l1 l2 : countb f (l1 ++ l2) = countb f l1 + countb f l2.
Proof. induction l1 as [|x l IH]; cbn; [reflexivity|]. rewrite IH. lia. Qed.

(* ---------- the counters are the counts ---------- *)
(* what a run does to the session and to the counters, in terms of the script-level trace
   and of BmpModel.sm_run over the accepted messages *)
Record run_ok (rid : N) (its : list iter) (s s' : sess) (u u' : umetrics) : Prop := {
  ro_reg : s_reg s' = (sm_run (s_reg s) rid (s_sm s) (it_msgs its)).1.1;
  ro_sm : s_sm s' = (sm_run (s_reg s) rid (s_sm s) (it_msgs its)).1.2;
  ro_wf : um_wf u';
  ro_lost : um_lost u' = um_lost u;
  ro_recv : forall t, (t < n_types)%nat -> recv_of u' t = recv_of u t + countb (it_type (N.of_nat t)) its;
  ro_sum : sumN (rm_recv (RM u')) = sumN (rm_recv (RM u)) + countb it_accepted its;
  ro_processed : rm_processed (RM u') = rm_processed (RM u) + countb it_accepted its;
  ro_invalid : rm_invalid (RM u') = rm_invalid (RM u) + sumN (map inval (sm_run (s_reg s) rid (s_sm s) (it_msgs its)).2);
  ro_ioerr : rm_ioerr (RM u') = rm_ioerr (RM u) + countb it_failed its }.

Lemma run_ok_nil rid its s u : it_msgs its = [] -> (forall t, countb (it_type t) its = 0) -> countb it_accepted its = 0 ->
  forall u', um_wf u' -> um_lost u' = um_lost u -> rm_recv (RM u') = rm_recv (RM u) -> rm_processed (RM u') = rm_processed (RM u) ->
  rm_invalid (RM u') = rm_invalid (RM u) -> rm_ioerr (RM u') = rm_ioerr (RM u) + countb it_failed its ->
  run_ok rid its s s u u'.
Proof.
  intros Hm Ht Ha u' Hw Hl Hr Hp Hi He. split; rewrite ?Hm, ?Ha; cbn; auto; try lia.
  all: try (intros t _; unfold recv_of; rewrite Hr, Ht; lia).
  all: try (rewrite Hr; lia).
Qed.

(* prepending one failed iteration *)
Lemma run_ok_failed rid i its s s' u u' : it_failed i = true -> (forall fr m, i <> ItMsg fr m) ->
  um_wf u -> run_ok rid its s s' (receive_io_error u) u' -> run_ok rid (i :: its) s s' u u'.
Proof.
  intros Hf Hn Hw [A B C D E F G H I].
  destruct (receive_io_error_spec u) as (Hr & Hp & Hi & He & Hl & _). cbv zeta in *.
  assert (Hm : it_msgs (i :: its) = it_msgs its) by (destruct i; try reflexivity; exfalso; eapply Hn; reflexivity).
  assert (Hty : forall t, it_type t i = false) by (intros t; destruct i; try reflexivity; exfalso; eapply Hn; reflexivity).
  assert (Hac : it_accepted i = false) by (destruct i; try reflexivity; exfalso; eapply Hn; reflexivity).
  split; rewrite ?Hm; cbn [countb]; rewrite ?Hf, ?Hac; auto; try lia; try congruence.
  all: try (intros t Ht; rewrite Hty, (E t Ht); unfold recv_of; rewrite Hr; lia).
  all: try (rewrite F, Hr; lia).
Qed.

Lemma loopm_spec parse tl rid : parse_types_ok parse -> forall fuel evs s u, (length evs < fuel)%nat -> um_wf u ->
  exists e rest s' u',
    loopm fuel parse tl rid evs s u = (Done e rest s' (cleanup rid s'), u') /\
    run_ok rid (iters fuel parse tl evs) s s' u u'.
Proof.
  intros Hp. induction fuel as [|f IH]; intros evs s u Hf Hw; [lia|].
  cbn [loopm iters]. pose proof (bmp_read_shorter evs) as Hs. unfold shorter in Hs.
  destruct (receive_io_error_spec u) as (Hr & Hpr & Hi & He & Hl & Hw1). cbv zeta in *. specialize (Hw1 Hw).
  destruct (bmp_read evs) as [fr r|k r|r|].
  - destruct (parse fr) as [m|] eqn:Epa.
    + destruct (process_msg_m_spec rid s fr m u Hw (Hp _ _ Epa)) as (s1 & u1 & -> & _ & Hreg & Hsm & Hw' & Hlo & Hrecv & Hsum & Hproc & Hinv & Hio).
      cbv zeta in *.
      destruct (IH r s1 u1 ltac:(lia) Hw') as (e & rest & s' & u' & -> & [A B C D E F G H I]).
      exists e, rest, s', u'. split; [reflexivity|].
      assert (Hms : it_msgs (ItMsg fr m :: iters f parse tl r) = m :: it_msgs (iters f parse tl r)) by reflexivity.
      split; rewrite ?Hms, ?sm_run_cons; cbn [fst snd map countb it_accepted it_failed it_type]; auto; try congruence.
      * intros t Ht. rewrite (E t Ht), (Hrecv t Ht). unfold is_type. lia.
      * rewrite F, Hsum. lia.
      * rewrite G, Hproc. lia.
      * rewrite H, Hinv, Hreg, Hsm, sumN_cons. lia.
      * rewrite I, Hio. lia.
    + cbn. destruct (IH r s (receive_io_error u) ltac:(lia) Hw1) as (e & rest & s' & u' & -> & Hok).
      exists e, rest, s', u'. split; [reflexivity|]. apply run_ok_failed; auto; try discriminate.
  - destruct (is_fatal k).
    + exists (EndErr k), r, s, (receive_io_error u). split; [reflexivity|].
      apply run_ok_nil; auto; cbn; try lia.
    + destruct (IH r s (receive_io_error u) ltac:(lia) Hw1) as (e & rest & s' & u' & -> & Hok).
      exists e, rest, s', u'. split; [reflexivity|]. apply run_ok_failed; auto; try discriminate.
  - cbn. exists EndShort, r, s, (receive_io_error u). split; [reflexivity|].
    apply run_ok_nil; auto; cbn; try lia.
  - destruct tl; cbn.
    + exists EndEof, [], s, (receive_io_error u). split; [reflexivity|]. apply run_ok_nil; auto; cbn; try lia.
    + exists EndTerm, [], s, u. split; [reflexivity|]. apply run_ok_nil; auto; cbn; try lia.
Qed.

(* ---------- top level forms ---------- *)
Theorem run_counts parse tl rid evs s u : parse_types_ok parse -> um_wf u ->
  exists e rest s' u',
    run_from_m parse tl rid evs s u = (Done e rest s' (cleanup rid s'), u') /\
    run_from parse true tl rid evs s = Done e rest s' (cleanup rid s') /\
    run_ok rid (iters_of parse tl evs) s s' u u'.
Proof.
  intros Hp Hw. destruct (loopm_spec parse tl rid Hp (S (length evs)) evs s u ltac:(lia) Hw) as (e & rest & s' & u' & E & Hok).
  exists e, rest, s', u'. split; [exact E|]. split; [|exact Hok].
  unfold run_from. rewrite <- (loopm_fst parse tl rid Hp (S (length evs)) evs s u Hw). fold (run_from_m parse tl rid evs s u) in E.
  unfold run_from_m in E. rewrite E. reflexivity.
Qed.

(* counters only grow along a run *)
Corollary run_monotone parse tl rid evs s u res u' : parse_types_ok parse -> um_wf u ->
  run_from_m parse tl rid evs s u = (res, u') ->
  (forall t, (t < n_types)%nat -> recv_of u t <= recv_of u' t) /\
  rm_processed (RM u) <= rm_processed (RM u') /\ rm_invalid (RM u) <= rm_invalid (RM u') /\
  rm_ioerr (RM u) <= rm_ioerr (RM u') /\ um_lost u <= um_lost (unit_final (res, u')).
Proof.
  intros Hp Hw E. destruct (run_counts parse tl rid evs s u Hp Hw) as (e & rest & s' & u2 & E2 & _ & [A B C D F G H I J]).
  rewrite E in E2. injection E2 as -> ->. repeat split; try lia.
  - intros t Ht. rewrite (F t Ht). lia.
  - unfold unit_final. cbn. lia.
Qed.

(* received = sum over the types: the per-type counters add up to the processed counter (without a filter every
   accepted message is handed to the state machine) *)
Corollary run_received_is_sum parse tl rid evs s u res u' : parse_types_ok parse -> um_wf u ->
  sumN (rm_recv (RM u)) = rm_processed (RM u) ->
  run_from_m parse tl rid evs s u = (res, u') -> sumN (rm_recv (RM u')) = rm_processed (RM u').
Proof.
  intros Hp Hw H0 E. destruct (run_counts parse tl rid evs s u Hp Hw) as (e & rest & s' & u2 & E2 & _ & [A B C D F G H I J]).
  rewrite E in E2. injection E2 as -> ->. lia.
Qed.

(* the session ends: the post-loop block counts the lost connection once and drops the router's entry *)
Corollary run_end_counts_lost_once parse tl rid evs s u : parse_types_ok parse -> um_wf u ->
  let uf := unit_final (run_from_m parse tl rid evs s u) in
  um_lost uf = um_lost u + 1 /\ um_router uf = None.
Proof.
  intros Hp Hw. destruct (run_counts parse tl rid evs s u Hp Hw) as (e & rest & s' & u2 & E2 & _ & [A B C D F G H I J]).
  cbv zeta. rewrite E2. unfold unit_final. cbn. split; [lia|reflexivity].
Qed.

(* the invalid counter is the state machine's own count of unprocessable messages *)
Corollary run_invalid_is_unprocessable parse tl rid evs s u e rest s' out u' : parse_types_ok parse -> um_wf u ->
  run_from_m parse tl rid evs s u = (Done e rest s' out, u') ->
  rm_invalid (RM u') - rm_invalid (RM u) = m_unprocessable (sm_metrics (s_sm s')) - m_unprocessable (sm_metrics (s_sm s)).
Proof.
  intros Hp Hw E. destruct (run_counts parse tl rid evs s u Hp Hw) as (e2 & rest2 & s2 & u2 & E2 & _ & [A B C D F G H I J]).
  rewrite E in E2. injection E2 as -> -> -> _ ->.
  destruct (run_counters (it_msgs (iters_of parse tl evs)) (s_reg s) rid (s_sm s)) as (K & _). cbv zeta in K.
  rewrite B, K, I. lia.
Qed.

(* ---------- a quiescent moment: the first k events handed out ---------- *)
Theorem conn_at_counts parse rid evs k s u sk uk : parse_types_ok parse -> um_wf u ->
  conn_at parse rid evs k s u = Some (sk, uk) ->
  run_ok rid (iters_of parse THang (take k evs)) s sk u uk.
Proof.
  intros Hp Hw. unfold conn_at.
  destruct (run_counts parse THang rid (take k evs) s u Hp Hw) as (e & rest & s' & u' & -> & _ & Hok).
  destruct e; try discriminate. intros [= <- <-]. exact Hok.
Qed.

(* the trace of a longer script extends the trace of a shorter one: what was counted stays counted *)
Lemma read_exact_app a b : forall n acc,
  match read_exact a n acc with
  | RxOk bs r => read_exact (a ++ b) n acc = RxOk bs (r ++ b)
  | RxErr k r => read_exact (a ++ b) n acc = RxErr k (r ++ b)
  | RxEnd => True
  end.
Proof.
  induction a as [|e a IH]; intros n acc; cbn [read_exact app].
  - destruct (N.eqb_spec n 0) as [->|Hn]; [|exact I]. destruct b; reflexivity.
  - destruct (N.eqb n 0); [reflexivity|]. destruct e as [x|k]; [apply IH|reflexivity].
Qed.

Lemma bmp_read_app a b :
  match bmp_read a with
  | RdFrame f r => bmp_read (a ++ b) = RdFrame f (r ++ b)
  | RdErr k r => bmp_read (a ++ b) = RdErr k (r ++ b)
  | RdShort r => bmp_read (a ++ b) = RdShort (r ++ b)
  | RdEnd => True
  end.
Proof.
  unfold bmp_read. pose proof (read_exact_app a b 5 []) as H1.
  destruct (read_exact a 5 []) as [h r|k r|]; [|rewrite H1; reflexivity|exact I].
  rewrite H1. destruct (N.ltb (hdr_len h) 5); [reflexivity|].
  pose proof (read_exact_app r b (hdr_len h - 5) h) as H2.
  destruct (read_exact r (hdr_len h - 5) h) as [f r'|k r'|]; [rewrite H2; reflexivity|rewrite H2; reflexivity|exact I].
Qed.

(* the iterations completed before the reader went silent *)
Definition is_term (i : iter) : bool := match i with ItTerm => true | _ => false end.
Fixpoint completed (its : list iter) : list iter :=
  match its with [] => [] | i :: l => if is_term i then completed l else i :: completed l end.

Lemma iters_app parse tl b : forall f1 a f2, (length a < f1)%nat -> (length (a ++ b) < f2)%nat ->
  exists more, iters f2 parse tl (a ++ b) = completed (iters f1 parse THang a) ++ more.
Proof.
  induction f1 as [|f1 IH]; intros a f2 H1 H2; [lia|].
  destruct f2 as [|f2]; [lia|]. cbn [iters].
  pose proof (bmp_read_shorter a) as Hs. unfold shorter in Hs. pose proof (bmp_read_app a b) as Ha.
  rewrite app_length in H2.
  destruct (bmp_read a) as [fr r|k r|r|].
  - rewrite Ha.
    destruct (IH r f2 ltac:(lia) ltac:(rewrite app_length; lia)) as [more Hm].
    destruct (parse fr) as [m|]; cbn [completed is_term]; rewrite Hm; eauto.
  - rewrite Ha. cbn [completed is_term].
    destruct (is_fatal k); [exists []; reflexivity|].
    destruct (IH r f2 ltac:(lia) ltac:(rewrite app_length; lia)) as [more Hm]. rewrite Hm. eauto.
  - rewrite Ha. exists []. reflexivity.
  - destruct (bmp_read (a ++ b)); cbn; eauto.
Qed.

Lemma completed_counts its :
  (forall t, countb (it_type t) (completed its) = countb (it_type t) its) /\
  countb it_accepted (completed its) = countb it_accepted its /\
  countb it_failed (completed its) = countb it_failed its /\
  it_msgs (completed its) = it_msgs its.
Proof.
  induction its as [|i its (A & B & C & D)]; [repeat split|].
  assert (Hm : forall j l, it_msgs (j :: l) = match j with ItMsg _ m => m :: it_msgs l | _ => it_msgs l end)
    by (intros [] l; reflexivity).
  destruct i; cbn [completed is_term]; rewrite ?Hm; cbn [countb it_type it_accepted it_failed];
    rewrite ?B, ?C, ?D; repeat split; auto; intros t; rewrite ?A; reflexivity.
Qed.

Lemma countb_le_app {A} (f : A -> bool) l more : countb f l <= countb f (l ++ more).
Proof. rewrite countb_app. lia. Qed.

Lemma sumN_app l1 l2 : sumN (l1 ++ l2) = sumN l1 + sumN l2.
Proof. unfold sumN. induction l1 as [|x l IH]; cbn; [reflexivity|]. rewrite IH. lia. Qed.

Lemma sm_run_app ms1 ms2 : forall r rid s,
  (sm_run r rid s (ms1 ++ ms2)).2 =
  (sm_run r rid s ms1).2 ++ (sm_run (sm_run r rid s ms1).1.1 rid (sm_run r rid s ms1).1.2 ms2).2.
Proof.
  induction ms1 as [|m ms1 IH]; intros r rid s; [reflexivity|].
  rewrite <- app_comm_cons, !sm_run_cons. cbn [fst snd]. rewrite IH. reflexivity.
Qed.

Lemma it_msgs_app l1 l2 : it_msgs (l1 ++ l2) = it_msgs l1 ++ it_msgs l2.
Proof. unfold it_msgs. apply omap_app. Qed.

Lemma take_split {A} (l : list A) : forall k1 k2, (k1 <= k2)%nat -> take k2 l = take k1 l ++ take (k2 - k1) (drop k1 l).
Proof.
  induction l as [|x l IH]; intros k1 k2 Hk.
  - rewrite drop_nil, !take_nil. reflexivity.
  - destruct k1 as [|k1]; [cbn; rewrite Nat.sub_0_r; reflexivity|].
    destruct k2 as [|k2]; [lia|]. cbn. f_equal. apply IH. lia.
Qed.

(* two quiescent moments of the same connection, the second later: no counter went down *)
Theorem conn_at_monotone parse rid evs k1 k2 s u s1 u1 s2 u2 : parse_types_ok parse -> um_wf u -> (k1 <= k2)%nat ->
  conn_at parse rid evs k1 s u = Some (s1, u1) -> conn_at parse rid evs k2 s u = Some (s2, u2) ->
  (forall t, (t < n_types)%nat -> recv_of u1 t <= recv_of u2 t) /\
  rm_processed (RM u1) <= rm_processed (RM u2) /\ rm_invalid (RM u1) <= rm_invalid (RM u2) /\
  rm_ioerr (RM u1) <= rm_ioerr (RM u2).
Proof.
  intros Hp Hw Hk E1 E2.
  apply (conn_at_counts parse rid evs k1 s u s1 u1 Hp Hw) in E1 as [_ _ _ _ F1 _ H1 I1 J1].
  apply (conn_at_counts parse rid evs k2 s u s2 u2 Hp Hw) in E2 as [_ _ _ _ F2 _ H2 I2 J2].
  pose proof (take_split evs k1 k2 Hk) as Ht.
  unfold iters_of in *.
  destruct (iters_app parse THang (take (k2 - k1) (drop k1 evs)) (S (length (take k1 evs))) (take k1 evs) (S (length (take k2 evs)))
              ltac:(lia) ltac:(rewrite <- Ht; lia)) as [more Hm].
  rewrite <- Ht in Hm.
  destruct (completed_counts (iters (S (length (take k1 evs))) parse THang (take k1 evs))) as (CA & CB & CC & CD).
  repeat split.
  - intros t Ht'. rewrite (F1 t Ht'), (F2 t Ht'), Hm, countb_app, CA. lia.
  - rewrite H1, H2, Hm, countb_app, CB. lia.
  - rewrite I1, I2, Hm, it_msgs_app, CD, sm_run_app, map_app, sumN_app. lia.
  - rewrite J1, J2, Hm, countb_app, CC. lia.
Qed.

(* ---------- the statements of Props_C15.v, spelled out ---------- *)
Lemma accepted_is_msgs its : countb it_accepted its = N.of_nat (length (it_msgs its)).
Proof.
  induction its as [|i its IH]; [reflexivity|]. destruct i; cbn [countb it_accepted]; rewrite IH;
    try (change (it_msgs (?x :: its)) with (it_msgs its); lia).
  change (it_msgs (ItMsg fr m :: its)) with (m :: it_msgs its). cbn [length]. lia.
Qed.

(* every counter is the count of the matching iterations of the read loop, for every script *)
Theorem unit_counters_count parse tl rid evs s u : parse_types_ok parse -> um_wf u ->
  let its := iters_of parse tl evs in
  let run := sm_run (s_reg s) rid (s_sm s) (it_msgs its) in
  exists e rest s' u',
    run_from_m parse tl rid evs s u = (Done e rest s' (cleanup rid s'), u') /\
    (forall t, (t < 7)%nat -> recv_of u' t = recv_of u t + countb (it_type (N.of_nat t)) its) /\
    rm_processed (router_metrics u') = rm_processed (router_metrics u) + N.of_nat (length (it_msgs its)) /\
    rm_invalid (router_metrics u') = rm_invalid (router_metrics u) + sumN (map inval run.2) /\
    rm_ioerr (router_metrics u') = rm_ioerr (router_metrics u) + countb it_failed its /\
    s_reg s' = run.1.1 /\ s_sm s' = run.1.2.
Proof.
  intros Hp Hw. cbv zeta.
  destruct (run_counts parse tl rid evs s u Hp Hw) as (e & rest & s' & u' & E & _ & [A B C D F G H I J]).
  exists e, rest, s', u'. rewrite <- accepted_is_msgs. repeat split; auto.
Qed.

Theorem unit_counters_same_session parse tl rid evs s u : parse_types_ok parse -> um_wf u ->
  (run_from_m parse tl rid evs s u).1 = run_from parse true tl rid evs s.
Proof. intros Hp Hw. apply loopm_fst; assumption. Qed.

Lemma recv_of_init t : recv_of um_init t = 0.
Proof. unfold recv_of. cbn. do 7 (destruct t as [|t]; [reflexivity|]). reflexivity. Qed.
Lemma um_wf_init : um_wf um_init. Proof. exact I. Qed.

(* a fresh connection (unit.rs accept loop: conn_init), nothing counted yet *)
Theorem unit_counters_fresh parse tl addr evs : parse_types_ok parse ->
  let rid := (conn_init addr).1 in
  let s0 := (conn_init addr).2 in
  let its := iters_of parse tl evs in
  let run := sm_run (s_reg s0) rid sm_init (it_msgs its) in
  exists e rest s' u',
    run_from_m parse tl rid evs s0 um_init = (Done e rest s' (cleanup rid s'), u') /\
    (forall t, (t < 7)%nat -> recv_of u' t = countb (it_type (N.of_nat t)) its) /\
    rm_processed (router_metrics u') = N.of_nat (length (it_msgs its)) /\
    sumN (rm_recv (router_metrics u')) = rm_processed (router_metrics u') /\
    rm_invalid (router_metrics u') = sumN (map inval run.2) /\
    rm_invalid (router_metrics u') = m_unprocessable (sm_metrics (s_sm s')) /\
    rm_ioerr (router_metrics u') = countb it_failed its /\
    um_lost u' = 0 /\ unit_final (Done e rest s' (cleanup rid s'), u') = MkUM None 1.
Proof.
  intros Hp. cbv zeta.
  assert (Hs0 : s_sm (conn_init addr).2 = sm_init).
  { unfold conn_init. destruct (reg_register reg_new) as [uid r0]. destruct (find_or_register router_match r0 _) as [rid r1]. reflexivity. }
  destruct (run_counts parse tl (conn_init addr).1 evs (conn_init addr).2 um_init Hp um_wf_init)
    as (e & rest & s' & u' & E & _ & [A B C D F G H I J]).
  rewrite Hs0 in *.
  exists e, rest, s', u'. rewrite <- accepted_is_msgs. repeat split; auto.
  - intros t Ht. rewrite (F t Ht), recv_of_init. lia.
  - rewrite G, H. cbn. lia.
  - destruct (run_counters (it_msgs (iters_of parse tl evs)) (s_reg (conn_init addr).2) (conn_init addr).1 sm_init) as (K & _).
    cbv zeta in K. rewrite B, K, I. cbn. lia.
  - unfold unit_final. cbn [fst snd]. unfold router_connection_lost. rewrite D. reflexivity.
Qed.

(* at a quiescent moment (the first k events handed out, the connection asked for more) *)
Theorem unit_counters_at_quiescent_point parse rid evs k s u sk uk : parse_types_ok parse -> um_wf u ->
  conn_at parse rid evs k s u = Some (sk, uk) ->
  let its := iters_of parse THang (take k evs) in
  let run := sm_run (s_reg s) rid (s_sm s) (it_msgs its) in
  (forall t, (t < 7)%nat -> recv_of uk t = recv_of u t + countb (it_type (N.of_nat t)) its) /\
  rm_processed (router_metrics uk) = rm_processed (router_metrics u) + N.of_nat (length (it_msgs its)) /\
  rm_invalid (router_metrics uk) = rm_invalid (router_metrics u) + sumN (map inval run.2) /\
  rm_ioerr (router_metrics uk) = rm_ioerr (router_metrics u) + countb it_failed its /\
  um_lost uk = um_lost u /\ s_sm sk = run.1.2.
Proof.
  intros Hp Hw E. cbv zeta. apply (conn_at_counts parse rid evs k s u sk uk Hp Hw) in E as [A B C D F G H I J].
  rewrite <- accepted_is_msgs. repeat split; auto.
Qed.

Theorem unit_index_in_range parse tl rid evs s u p r s' u' : parse_types_ok parse -> um_wf u ->
  run_from_m parse tl rid evs s u <> (Panic p r s', u').
Proof.
  intros Hp Hw E. destruct (run_counts parse tl rid evs s u Hp Hw) as (e & rest & s2 & u2 & E2 & _).
  rewrite E in E2. discriminate.
Qed.
