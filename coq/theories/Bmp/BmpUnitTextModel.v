(* What the per-router series of the BMP unit look like in the Prometheus text
   (C15: "the Prometheus text parses"): the label sets BmpTcpInMetrics::append
   (src/units/bmp_tcp_in/metrics.rs) hands to Records::label_value
   (src/metrics.rs), which writes `component="<unit>"` first and then the
   labels given, without escaping (Http/EscapeModel.v prom_labels).
   Definitions only; proofs are in BmpUnitTextProofs.v. *)
From Coq Require Import NArith List Bool String Ascii.
From RV Require Import Http.EscapeModel.
Import ListNotations.
Local Open Scope N_scope.

(* BMP_RFC_7854_MSG_TYPE_NAMES, indexed by the RFC 7854 message type code *)
Definition msg_type_names : list str :=
  [ $ "Route Monitoring"; $ "Statistics Report"; $ "Peer Down Notification"; $ "Peer Up Notification";
    $ "Initiation Message"; $ "Termination Message"; $ "Route Mirroring Message" ].

(* the label values that can occur in a series of this unit:
     component  the unit's name in the configuration file           (configuration)
     router     format_source_id(template, _, ingress id of router) (configuration + a number; util.rs)
     msg_type   one of the seven names above                        (constant) *)
Definition unit_router_labels (unit tpl : str) (id : N) : list (str * str) :=
  [ ($ "component", unit); ($ "router", format_source_id tpl [] id) ].

(* bmp_tcp_in_num_bmp_messages_received: one series per slot of the array *)
Definition unit_received_labels (unit tpl : str) (id : N) (code : nat) : list (str * str) :=
  unit_router_labels unit tpl id ++ [ ($ "msg_type", nth code msg_type_names []) ].

(* the series of one router, as label sets: seven of the per-type counter, then
   num_receive_io_errors, num_bmp_messages_processed, num_invalid_bmp_messages *)
Definition unit_router_series (unit tpl : str) (id : N) : list (list (str * str)) :=
  map (unit_received_labels unit tpl id) (seq 0 7) ++ repeat (unit_router_labels unit tpl id) 3.
