(* Proofs about the BMP wire codec of BmpWire.v: round trip, framing of a stream of
   encodings, the malformed classes. *)
From Coq Require Import List NArith Bool Lia Arith.
From RV Require Import Bgp.BgpModel Bgp.BgpProofs Bmp.BmpWire.
Import ListNotations.
Local Open Scope N_scope.

(* ---------- small tools ---------- *)
Lemma take_n_len n x r : lenN x = n -> take_n n (x ++ r) = Some (x, r).
Proof. intros <-. apply take_n_app. Qed.

Lemma u32_enc n : u32 (n / 16777216) ((n / 65536) mod 256) ((n / 256) mod 256) (n mod 256) = n.
Proof.
  unfold u32.
  pose proof (N.div_mod n 256) as H1. pose proof (N.div_mod (n / 256) 256) as H2.
  pose proof (N.div_mod (n / 65536) 256) as H3.
  replace (n / 256 / 256) with (n / 65536) in H2 by (rewrite N.div_div by lia; reflexivity).
  replace (n / 65536 / 256) with (n / 16777216) in H3 by (rewrite N.div_div by lia; reflexivity).
  lia.
Qed.

Lemma bytes_ok_u32 n : n < 4294967296 -> bytes_ok (enc_u32 n) = true.
Proof.
  intros H. unfold enc_u32, bytes_ok, byte_ok. cbn [forallb].
  assert (n / 16777216 < 256) by (apply N.div_lt_upper_bound; lia).
  assert ((n / 65536) mod 256 < 256) by (apply N.mod_lt; lia).
  assert ((n / 256) mod 256 < 256) by (apply N.mod_lt; lia).
  assert (n mod 256 < 256) by (apply N.mod_lt; lia).
  rewrite !andb_true_iff, !N.ltb_lt. auto.
Qed.

Lemma lenN_u32 n : lenN (enc_u32 n) = 4.
Proof. reflexivity. Qed.
Lemma lenN_u16 n : lenN (enc_u16 n) = 2.
Proof. reflexivity. Qed.

Lemma bytes_ok_one b : bytes_ok [b] = byte_ok b.
Proof. unfold bytes_ok. cbn [forallb]. apply andb_true_r. Qed.
Lemma bytes_ok_cons_eq a r : bytes_ok (a :: r) = byte_ok a && bytes_ok r.
Proof. reflexivity. Qed.

Lemma lenN_nat {A} (l : list A) : N.to_nat (lenN l) = length l.
Proof. unfold lenN. apply Nat2N.id. Qed.

(* ---------- per-peer header ---------- *)
Lemma pph_wf_inv p : pph_wf p = true ->
  wp_type p <= 3 /\ wp_flags p < 256 /\ lenN (wp_dist p) = 8 /\ bytes_ok (wp_dist p) = true
  /\ lenN (wp_addr p) = 16 /\ bytes_ok (wp_addr p) = true /\ wp_as p < 4294967296
  /\ lenN (wp_id p) = 4 /\ bytes_ok (wp_id p) = true /\ wp_sec p < 4294967296 /\ wp_usec p < 4294967296.
Proof. unfold pph_wf, byte_ok. rewrite !andb_true_iff, !N.ltb_lt, !N.eqb_eq, N.leb_le. tauto. Qed.

Lemma dec_enc_pph p r : pph_wf p = true -> dec_pph (enc_pph p ++ r) = Some (p, r).
Proof.
  intros H. apply pph_wf_inv in H as (Ht & _ & Hd & _ & Ha & _ & _ & Hi & _).
  unfold enc_pph, dec_pph. cbn [app]. apply N.leb_le in Ht. rewrite Ht.
  rewrite <- !app_assoc. rewrite (take_n_len 8) by exact Hd. rewrite (take_n_len 16) by exact Ha.
  unfold enc_u32 at 1. cbn [app]. rewrite (take_n_len 4) by exact Hi.
  unfold enc_u32. cbn [app]. rewrite !u32_enc. destruct p; reflexivity.
Qed.

Lemma bytes_ok_enc_pph p : pph_wf p = true -> bytes_ok (enc_pph p) = true.
Proof.
  intros H. apply pph_wf_inv in H as (Ht & Hf & _ & Hd & _ & Ha & Has & _ & Hi & Hs & Hu).
  unfold enc_pph. rewrite !bytes_ok_cons_eq, !bytes_ok_app, Hd, Ha, Hi, !bytes_ok_u32 by assumption.
  unfold byte_ok. replace (wp_type p <? 256) with true by (symmetry; apply N.ltb_lt; lia).
  replace (wp_flags p <? 256) with true by (symmetry; apply N.ltb_lt; lia). reflexivity.
Qed.

Lemma lenN_enc_pph p : pph_wf p = true -> lenN (enc_pph p) = 42.
Proof.
  intros H. apply pph_wf_inv in H as (_ & _ & Hd & _ & Ha & _ & _ & Hi & _).
  unfold enc_pph. rewrite !lenN_cons, !lenN_app, Hd, Ha, Hi, !lenN_u32. reflexivity.
Qed.

(* ---------- TLVs ---------- *)
Lemma tlv_wf_inv t : tlv_wf t = true -> t_type t < 65536 /\ lenN (t_val t) < 65536 /\ bytes_ok (t_val t) = true.
Proof. unfold tlv_wf. rewrite !andb_true_iff, !N.ltb_lt. tauto. Qed.

Lemma enc_tlvs_cons t l : enc_tlvs (t :: l) = enc_tlv t ++ enc_tlvs l.
Proof. reflexivity. Qed.

Lemma length_enc_tlv t : (4 + length (t_val t) = length (enc_tlv t))%nat.
Proof. unfold enc_tlv. rewrite !app_length. reflexivity. Qed.

Lemma dec_enc_tlvs l : forall fuel, forallb tlv_wf l = true -> (length (enc_tlvs l) <= fuel)%nat ->
  dec_tlvs fuel (enc_tlvs l) = Some l.
Proof.
  induction l as [|t l IH]; intros fuel Hw Hf; [destruct fuel; reflexivity|].
  cbn [forallb] in Hw. apply andb_prop in Hw as [Ht Hl]. rewrite enc_tlvs_cons in *.
  rewrite app_length in Hf. pose proof (length_enc_tlv t) as Hlen.
  destruct fuel as [|fuel]; [lia|].
  unfold enc_tlv, enc_u16. cbn [app dec_tlvs]. rewrite u16_enc, u16_enc, <- ?app_assoc, take_n_app.
  rewrite IH by (try assumption; lia). destruct t; reflexivity.
Qed.

Lemma length_enc_tlvs l : (length l <= length (enc_tlvs l))%nat.
Proof.
  induction l as [|t l IH]; [reflexivity|]. rewrite enc_tlvs_cons, app_length. pose proof (length_enc_tlv t). cbn [length]. lia.
Qed.

Lemma dec_enc_ntlvs l : forall fuel r, forallb tlv_wf l = true -> (length l <= fuel)%nat ->
  dec_ntlvs fuel (lenN l) (enc_tlvs l ++ r) = Some (l, r).
Proof.
  induction l as [|t l IH]; intros fuel r Hw Hf; [destruct fuel; reflexivity|].
  cbn [forallb] in Hw. apply andb_prop in Hw as [Ht Hl]. cbn [length] in Hf.
  destruct fuel as [|fuel]; [lia|]. cbn [dec_ntlvs].
  replace (lenN (t :: l) =? 0) with false by (symmetry; apply N.eqb_neq; rewrite lenN_cons; lia).
  rewrite enc_tlvs_cons. unfold enc_tlv at 1, enc_u16. cbn [app]. rewrite u16_enc, u16_enc, <- ?app_assoc, take_n_app.
  replace (N.pred (lenN (t :: l))) with (lenN l) by (rewrite lenN_cons; lia).
  rewrite IH by (try assumption; lia). destruct t; reflexivity.
Qed.

Lemma bytes_ok_enc_tlv t : tlv_wf t = true -> bytes_ok (enc_tlv t) = true.
Proof.
  intros H. apply tlv_wf_inv in H as (Ht & Hl & Hv). unfold enc_tlv.
  rewrite !bytes_ok_app, !bytes_ok_u16, Hv by assumption. reflexivity.
Qed.
Lemma bytes_ok_enc_tlvs l : forallb tlv_wf l = true -> bytes_ok (enc_tlvs l) = true.
Proof.
  induction l as [|t l IH]; [reflexivity|]. cbn [forallb]. intros H. apply andb_prop in H as [Ht Hl].
  rewrite enc_tlvs_cons, bytes_ok_app, bytes_ok_enc_tlv, IH by assumption. reflexivity.
Qed.

(* ---------- the OPEN PDU ---------- *)
Lemma cap_wf_inv c : cap_wf c = true -> c_code c < 256 /\ lenN (c_val c) < 256 /\ bytes_ok (c_val c) = true.
Proof. unfold cap_wf, byte_ok. rewrite !andb_true_iff, !N.ltb_lt. tauto. Qed.

Lemma enc_caps_cons c l : enc_caps (c :: l) = enc_cap c ++ enc_caps l.
Proof. reflexivity. Qed.
Lemma enc_params_cons p l : enc_params (p :: l) = enc_param p ++ enc_params l.
Proof. reflexivity. Qed.

Lemma dec_enc_caps l : forall fuel, forallb cap_wf l = true -> (length (enc_caps l) <= fuel)%nat ->
  dec_caps fuel (enc_caps l) = Some l.
Proof.
  induction l as [|c l IH]; intros fuel Hw Hf; [destruct fuel; reflexivity|].
  cbn [forallb] in Hw. apply andb_prop in Hw as [Hc Hl]. rewrite enc_caps_cons in *.
  rewrite app_length in Hf. unfold enc_cap in *. cbn [length app] in *.
  destruct fuel as [|fuel]; [lia|]. cbn [dec_caps]. rewrite take_n_app.
  rewrite IH by (try assumption; lia). destruct c; reflexivity.
Qed.

Lemma bytes_ok_enc_caps l : forallb cap_wf l = true -> lenN (enc_caps l) < 256 -> bytes_ok (enc_caps l) = true.
Proof.
  induction l as [|c l IH]; [reflexivity|]. cbn [forallb]. intros H Hlen. apply andb_prop in H as [Hc Hl].
  rewrite enc_caps_cons in *. rewrite lenN_app in Hlen. apply cap_wf_inv in Hc as (H1 & H2 & H3).
  unfold enc_cap. cbn [app]. rewrite !bytes_ok_cons_eq, bytes_ok_app, H3, IH by (try assumption; lia).
  unfold byte_ok. replace (c_code c <? 256) with true by (symmetry; apply N.ltb_lt; lia).
  replace (lenN (c_val c) <? 256) with true by (symmetry; apply N.ltb_lt; lia). reflexivity.
Qed.

Lemma param_wf_inv p : param_wf p = true ->
  match p with
  | OCaps cs => forallb cap_wf cs = true /\ lenN (enc_caps cs) < 256
  | ORaw ty v => ty < 256 /\ ty <> 2 /\ lenN v < 256 /\ bytes_ok v = true
  end.
Proof.
  destruct p as [cs|ty v]; unfold param_wf, byte_ok; rewrite !andb_true_iff, ?negb_true_iff, !N.ltb_lt, ?N.eqb_neq; tauto.
Qed.

Lemma length_enc_param p : (2 <= length (enc_param p))%nat.
Proof. destruct p; cbn [enc_param length]; lia. Qed.

Lemma dec_enc_params l : forall fuel, forallb param_wf l = true -> (length (enc_params l) <= fuel)%nat ->
  dec_params fuel (enc_params l) = Some l.
Proof.
  induction l as [|p l IH]; intros fuel Hw Hf; [destruct fuel; reflexivity|].
  cbn [forallb] in Hw. apply andb_prop in Hw as [Hp Hl]. rewrite enc_params_cons in *.
  rewrite app_length in Hf. pose proof (length_enc_param p) as H2.
  destruct fuel as [|fuel]; [lia|]. apply param_wf_inv in Hp.
  destruct p as [cs|ty v]; cbn [enc_param app dec_params].
  - destruct Hp as [Hcs _]. rewrite take_n_app. change (2 =? 2) with true. cbv iota.
    rewrite dec_enc_caps by (try assumption; lia). rewrite IH by (try assumption; cbn [enc_param length] in Hf; lia). reflexivity.
  - destruct Hp as (_ & Hne & _). rewrite take_n_app. apply N.eqb_neq in Hne. rewrite Hne.
    rewrite IH by (try assumption; cbn [enc_param length] in Hf; lia). reflexivity.
Qed.

Lemma bytes_ok_enc_params l : forallb param_wf l = true -> lenN (enc_params l) < 256 -> bytes_ok (enc_params l) = true.
Proof.
  induction l as [|p l IH]; [reflexivity|]. cbn [forallb]. intros H Hlen. apply andb_prop in H as [Hp Hl].
  rewrite enc_params_cons in *. rewrite lenN_app in Hlen. rewrite bytes_ok_app, IH by (try assumption; lia).
  apply param_wf_inv in Hp. destruct p as [cs|ty v]; cbn [enc_param].
  - destruct Hp as [Hcs Hn]. rewrite !bytes_ok_cons_eq, bytes_ok_enc_caps by assumption.
    unfold byte_ok. replace (lenN (enc_caps cs) <? 256) with true by (symmetry; apply N.ltb_lt; lia). reflexivity.
  - destruct Hp as (Ht & _ & Hn & Hv). rewrite !bytes_ok_cons_eq, Hv. unfold byte_ok.
    replace (ty <? 256) with true by (symmetry; apply N.ltb_lt; lia).
    replace (lenN v <? 256) with true by (symmetry; apply N.ltb_lt; lia). reflexivity.
Qed.

Lemma open_wf_inv o : open_wf o = true ->
  o_type o < 256 /\ o_ver o < 256 /\ o_as o < 65536 /\ o_hold o < 65536 /\ lenN (o_id o) = 4 /\ bytes_ok (o_id o) = true
  /\ forallb param_wf (o_params o) = true /\ lenN (enc_params (o_params o)) < 256.
Proof. unfold open_wf, byte_ok. rewrite !andb_true_iff, !N.ltb_lt, N.eqb_eq. tauto. Qed.

Lemma list_eqb_refl x : list_eqb x x = true.
Proof.
  unfold list_eqb. rewrite Nat.eqb_refl. cbn [andb]. induction x as [|a x IH]; [reflexivity|].
  cbn [combine forallb fst snd]. rewrite N.eqb_refl. exact IH.
Qed.

Lemma dec_enc_open o r : open_wf o = true -> dec_open (enc_open o ++ r) = Some (o, r).
Proof.
  intros H. apply open_wf_inv in H as (_ & _ & _ & _ & Hi & _ & Hp & Hl).
  unfold enc_open, dec_open. rewrite <- app_assoc. change 16 with (lenN marker) at 1. rewrite take_n_app.
  unfold enc_u16. cbn [app]. rewrite <- !app_assoc. rewrite (take_n_len 4) by exact Hi. cbn [app].
  rewrite take_n_app, list_eqb_refl, !u16_enc, N.eqb_refl. cbn [andb].
  rewrite dec_enc_params by (try assumption; lia). destruct o; reflexivity.
Qed.

Lemma bytes_ok_enc_open o : open_wf o = true -> bytes_ok (enc_open o) = true.
Proof.
  intros H. apply open_wf_inv in H as (Ht & Hv & Ha & Hh & _ & Hi & Hp & Hl).
  unfold enc_open. rewrite !bytes_ok_app, !bytes_ok_cons_eq, !bytes_ok_app, !bytes_ok_cons_eq, !bytes_ok_u16, Hi, bytes_ok_enc_params by (try assumption; lia).
  unfold byte_ok. change (bytes_ok marker) with true.
  replace (o_type o <? 256) with true by (symmetry; apply N.ltb_lt; lia).
  replace (o_ver o <? 256) with true by (symmetry; apply N.ltb_lt; lia).
  replace (lenN (enc_params (o_params o)) <? 256) with true by (symmetry; apply N.ltb_lt; lia). reflexivity.
Qed.

(* ---------- messages ---------- *)
Lemma wf_bound m : wf m = true -> 6 + lenN (enc_body m) < 4294967296.
Proof. unfold wf. rewrite andb_true_iff, N.ltb_lt. tauto. Qed.

Lemma dec_enc_body m : wf m = true -> dec_body (msg_code m) (enc_body m) = Some m.
Proof.
  unfold wf. rewrite andb_true_iff. intros [_ H].
  destruct m as [p d|p st tr|p rs d|p la lp rp s rc i|ts|ts|p d]; cbn [msg_code enc_body dec_body].
  - apply andb_prop in H as [Hp _]. rewrite dec_enc_pph by exact Hp. reflexivity.
  - rewrite !andb_true_iff in H. destruct H as [[[Hp Hst] _] _]. rewrite dec_enc_pph by exact Hp.
    unfold enc_u32. cbn [app]. rewrite u32_enc. rewrite dec_enc_ntlvs; [reflexivity|exact Hst|].
    rewrite app_length. pose proof (length_enc_tlvs st). lia.
  - rewrite !andb_true_iff in H. destruct H as [[[Hp _] _] Hd]. rewrite dec_enc_pph by exact Hp. rewrite Hd. reflexivity.
  - rewrite !andb_true_iff, !N.ltb_lt, N.eqb_eq in H. destruct H as [[[[[[[[Hp Hla] _] _] _] Hs] Hr] _] Hi].
    rewrite dec_enc_pph by exact Hp. rewrite (take_n_len 16) by exact Hla.
    unfold enc_u16. cbn [app]. rewrite dec_enc_open by exact Hs. rewrite dec_enc_open by exact Hr.
    rewrite Hi, !u16_enc. reflexivity.
  - rewrite dec_enc_tlvs by (try assumption; lia). reflexivity.
  - rewrite dec_enc_tlvs by (try assumption; lia). reflexivity.
  - apply andb_prop in H as [Hp _]. rewrite dec_enc_pph by exact Hp. reflexivity.
Qed.

Lemma bytes_ok_enc_body m : wf m = true -> bytes_ok (enc_body m) = true.
Proof.
  unfold wf. rewrite andb_true_iff. intros [_ H].
  destruct m as [p d|p st tr|p rs d|p la lp rp s rc i|ts|ts|p d]; cbn [enc_body].
  - apply andb_prop in H as [Hp Hd]. rewrite bytes_ok_app, bytes_ok_enc_pph, Hd by assumption. reflexivity.
  - rewrite !andb_true_iff, N.ltb_lt in H. destruct H as [[[Hp Hst] Hn] Htr].
    rewrite !bytes_ok_app, bytes_ok_enc_pph, bytes_ok_u32, bytes_ok_enc_tlvs, Htr by assumption. reflexivity.
  - rewrite !andb_true_iff in H. destruct H as [[[Hp Hr] Hd] _].
    rewrite bytes_ok_app, bytes_ok_cons_eq, bytes_ok_enc_pph, Hr, Hd by assumption. reflexivity.
  - rewrite !andb_true_iff, !N.ltb_lt, N.eqb_eq in H. destruct H as [[[[[[[[Hp _] Hla] Hlp] Hrp] Hs] Hr] Hi] _].
    rewrite !bytes_ok_app, bytes_ok_enc_pph, Hla, !bytes_ok_u16, !bytes_ok_enc_open, Hi by assumption. reflexivity.
  - apply bytes_ok_enc_tlvs, H.
  - apply bytes_ok_enc_tlvs, H.
  - apply andb_prop in H as [Hp Hd]. rewrite bytes_ok_app, bytes_ok_enc_pph, Hd by assumption. reflexivity.
Qed.

Lemma msg_code_lt m : msg_code m < 256.
Proof. destruct m; cbn; lia. Qed.

(* the shape of an encoding: the length field holds the length of the whole *)
Lemma encode_shape m : exists a b c d,
  encode m = 3 :: a :: b :: c :: d :: msg_code m :: enc_body m /\ u32 a b c d = lenN (encode m)
  /\ lenN (encode m) = 6 + lenN (enc_body m).
Proof.
  unfold encode, enc_u32. cbn [app]. do 4 eexists. split; [reflexivity|]. rewrite u32_enc.
  rewrite !lenN_cons. split; lia.
Qed.

Lemma bytes_ok_encode m : wf m = true -> bytes_ok (encode m) = true.
Proof.
  intros H. pose proof (bytes_ok_enc_body m H) as Hb. pose proof (wf_bound m H) as Hl.
  unfold encode. rewrite bytes_ok_cons_eq, bytes_ok_app, bytes_ok_u32, bytes_ok_cons_eq, Hb by exact Hl.
  unfold byte_ok. pose proof (msg_code_lt m). replace (msg_code m <? 256) with true by (symmetry; apply N.ltb_lt; lia). reflexivity.
Qed.

Theorem roundtrip m : wf m = true -> decode (encode m) = Some m.
Proof.
  intros H. pose proof (bytes_ok_encode m H) as Hb. pose proof (dec_enc_body m H) as Hd.
  destruct (encode_shape m) as (a & b & c & d & He & Hu & _). rewrite He in *.
  cbn [decode]. rewrite Hu, !N.eqb_refl, Hb. cbn [andb]. exact Hd.
Qed.

(* encoding is injective on well-formed messages *)
Lemma encode_inj m m' : wf m = true -> wf m' = true -> encode m = encode m' -> m = m'.
Proof.
  intros H H' E. pose proof (roundtrip m H) as R. rewrite E, (roundtrip m' H') in R. congruence.
Qed.

(* ---------- the stream ---------- *)
Lemma encode_len_ge m : 6 <= lenN (encode m).
Proof. destruct (encode_shape m) as (a & b & c & d & _ & _ & ->). lia. Qed.

Lemma length_concat_cons {A} (x : list A) l : length (concat (x :: l)) = (length x + length (concat l))%nat.
Proof. cbn [concat]. apply app_length. Qed.

Lemma dec_stream_frame fuel fr rest v l3 l2 l1 l0 r :
  fr = v :: l3 :: l2 :: l1 :: l0 :: r -> u32 l3 l2 l1 l0 = lenN fr ->
  dec_stream (S fuel) (fr ++ rest) =
  let '(items, e) := dec_stream fuel rest in ((match decode fr with Some m => SMsg m | None => SBad fr end) :: items, e).
Proof.
  intros Hfr Hu. assert (Hge : 5 <= lenN fr) by (rewrite Hfr, !lenN_cons; lia).
  cbn [dec_stream]. remember (fr ++ rest) as b eqn:Eb. pose proof Eb as Eb'. rewrite Hfr in Eb. cbn [app] in Eb.
  rewrite Eb at 1. rewrite Hu. replace (lenN fr <? 5) with false by (symmetry; apply N.ltb_ge; lia).
  rewrite Eb'. replace (lenN (fr ++ rest) <? lenN fr) with false by (symmetry; apply N.ltb_ge; rewrite lenN_app; lia).
  rewrite take_n_app. reflexivity.
Qed.

Lemma dec_stream_app_frame m rest fuel : wf m = true ->
  dec_stream (S fuel) (encode m ++ rest) = let '(items, e) := dec_stream fuel rest in (SMsg m :: items, e).
Proof.
  intros Hm. destruct (encode_shape m) as (a & b & c & d & He & Hu & Hl).
  rewrite (dec_stream_frame fuel (encode m) rest 3 a b c d (msg_code m :: enc_body m) He Hu), roundtrip by exact Hm. reflexivity.
Qed.

Lemma dec_stream_encodings ms : forall fuel, forallb wf ms = true ->
  (length (concat (map encode ms)) < fuel)%nat ->
  dec_stream fuel (concat (map encode ms)) = (map SMsg ms, SEnd).
Proof.
  induction ms as [|m ms IH]; intros fuel Hw Hf; [destruct fuel; [inversion Hf|reflexivity]|].
  cbn [forallb] in Hw. apply andb_prop in Hw as [Hm Hms]. cbn [map] in *. rewrite length_concat_cons in Hf.
  destruct fuel as [|fuel]; [inversion Hf|]. cbn [concat].
  rewrite dec_stream_app_frame by exact Hm. rewrite IH; [reflexivity|exact Hms|].
  pose proof (encode_len_ge m) as Hge. assert (6 <= length (encode m))%nat by (unfold lenN in Hge; lia). lia.
Qed.

Theorem stream_of_encodings ms : forallb wf ms = true -> stream (concat (map encode ms)) = (map SMsg ms, SEnd).
Proof. intros H. unfold stream. apply dec_stream_encodings; [exact H|lia]. Qed.

(* ---------- the malformed classes ---------- *)
Theorem decode_short b : lenN b < 6 -> decode b = None.
Proof.
  intros H. do 6 (destruct b as [|? b]; [reflexivity|]). rewrite !lenN_cons in H. lia.
Qed.

Theorem decode_bad_version ver r : ver <> 3 -> decode (ver :: r) = None.
Proof.
  intros H. unfold decode. do 5 (destruct r as [|? r]; [reflexivity|]).
  apply N.eqb_neq in H. rewrite H. reflexivity.
Qed.

Theorem decode_bad_length ver l3 l2 l1 l0 r : u32 l3 l2 l1 l0 <> lenN (ver :: l3 :: l2 :: l1 :: l0 :: r) ->
  decode (ver :: l3 :: l2 :: l1 :: l0 :: r) = None.
Proof.
  intros H. unfold decode. destruct r as [|ty body]; [reflexivity|].
  apply N.eqb_neq in H. rewrite H, andb_false_r. reflexivity.
Qed.

Lemma dec_body_unknown ty body : 6 < ty -> dec_body ty body = None.
Proof.
  intros H. destruct ty as [|p]; [lia|].
  destruct p as [[[q|q|]|[q|q|]|]|[[q|q|]|[q|q|]|]|]; try lia;
    cbn [dec_body]; destruct (dec_pph body) as [[? ?]|]; reflexivity.
Qed.

Theorem decode_unknown_type ver l3 l2 l1 l0 ty body : 6 < ty -> decode (ver :: l3 :: l2 :: l1 :: l0 :: ty :: body) = None.
Proof.
  intros H. unfold decode. rewrite dec_body_unknown by exact H. destruct (_ && _); reflexivity.
Qed.

Theorem decode_bad_octet b : bytes_ok b = false -> decode b = None.
Proof.
  intros H. unfold decode. do 6 (destruct b as [|? b]; [reflexivity|]). rewrite H, andb_false_r. reflexivity.
Qed.

Theorem decode_bad_peer_type ver l3 l2 l1 l0 ty pt r : ty <> 4 -> ty <> 5 -> 3 < pt ->
  decode (ver :: l3 :: l2 :: l1 :: l0 :: ty :: pt :: r) = None.
Proof.
  intros H4 H5 Hp. unfold decode. destruct (_ && _); [|reflexivity].
  assert (Hd : dec_pph (pt :: r) = None).
  { unfold dec_pph. destruct r as [|fl r0]; [reflexivity|]. replace (pt <=? 3) with false by (symmetry; apply N.leb_gt; exact Hp). reflexivity. }
  destruct ty as [|p]; [cbn [dec_body]; rewrite Hd; reflexivity|].
  destruct p as [[[q|q|]|[q|q|]|]|[[q|q|]|[q|q|]|]|]; try congruence; cbn [dec_body]; rewrite Hd; reflexivity.
Qed.

(* a message cut short anywhere does not decode *)
Theorem decode_truncated m k : (k < length (encode m))%nat -> decode (firstn k (encode m)) = None.
Proof.
  intros Hk. destruct (encode_shape m) as (a & b & c & d & He & Hu & Hl).
  destruct (Nat.lt_ge_cases k 6) as [Hs|Hs].
  - apply decode_short. unfold lenN. rewrite firstn_length. lia.
  - rewrite He. do 6 (destruct k as [|k]; [lia|]). cbn [firstn].
    apply decode_bad_length. rewrite Hu, He.
    change (a :: b :: c :: d :: msg_code m :: firstn k (enc_body m)) with ([a; b; c; d; msg_code m] ++ firstn k (enc_body m)).
    rewrite He in Hk. cbn [length] in Hk. rewrite !lenN_cons, lenN_app. unfold lenN. rewrite firstn_length.
    cbn [length]. lia.
Qed.

(* ... and so does one with octets added at the end *)
Theorem decode_extended m x : x <> [] -> decode (encode m ++ x) = None.
Proof.
  intros Hx. destruct (encode_shape m) as (a & b & c & d & He & Hu & Hl). rewrite He. cbn [app].
  apply decode_bad_length. rewrite Hu, He.
  change (3 :: a :: b :: c :: d :: msg_code m :: enc_body m ++ x) with ((3 :: a :: b :: c :: d :: msg_code m :: enc_body m) ++ x).
  rewrite lenN_app. destruct x; [congruence|]. rewrite (lenN_cons n x). lia.
Qed.

(* the stream loop gives up on a length field below 5 and waits on an incomplete message *)
Theorem stream_short_length v l3 l2 l1 l0 r : u32 l3 l2 l1 l0 < 5 -> stream (v :: l3 :: l2 :: l1 :: l0 :: r) = ([], SShort).
Proof. intros H. unfold stream. cbn [dec_stream]. apply N.ltb_lt in H. rewrite H. reflexivity. Qed.

Theorem stream_cut m k : wf m = true -> (k < length (encode m))%nat -> fst (stream (firstn k (encode m))) = [].
Proof.
  intros Hm Hk. destruct (encode_shape m) as (a & b & c & d & He & Hu & Hl). unfold stream.
  pose proof (encode_len_ge m) as Hge.
  rewrite He in *. do 5 (destruct k as [|k]; [reflexivity|]). cbn [firstn length dec_stream]. rewrite Hu.
  replace (lenN (3 :: a :: b :: c :: d :: msg_code m :: enc_body m) <? 5) with false by (symmetry; apply N.ltb_ge; lia).
  match goal with |- context [lenN ?x <? lenN ?y] => replace (lenN x <? lenN y) with true; [reflexivity|] end.
  symmetry. apply N.ltb_lt. unfold lenN. cbn [length] in *. rewrite firstn_length. lia.
Qed.

(* ---------- helpers for the RFC view of the raw tails ---------- *)
Lemma info_ok_tlvs l : forallb tlv_wf l = true -> info_ok (enc_tlvs l) = true.
Proof.
  destruct l as [|t l]; [reflexivity|]. cbn [forallb]. intros _.
  rewrite enc_tlvs_cons. unfold enc_tlv, enc_u16. cbn [app info_ok]. rewrite u16_enc, <- ?app_assoc, lenN_app.
  apply N.leb_le. lia.
Qed.

Lemma first_tlv_spec ty l v : first_tlv ty l = Some v <->
  exists l1 t l2, l = l1 ++ t :: l2 /\ t_type t = ty /\ t_val t = v /\ forallb (fun x => negb (t_type x =? ty)) l1 = true.
Proof.
  induction l as [|t l IH]; cbn [first_tlv].
  - split; [discriminate|]. intros (l1 & t & l2 & H & _). destruct l1; discriminate.
  - destruct (t_type t =? ty) eqn:E.
    + split.
      * intros [= <-]. exists [], t, l. apply N.eqb_eq in E. auto.
      * intros (l1 & t' & l2 & H & Ht & Hv & Hn). destruct l1 as [|x l1]; cbn [app] in H.
        -- injection H as -> ->. congruence.
        -- injection H as -> ->. cbn [forallb] in Hn. rewrite E in Hn. discriminate.
    + rewrite IH. split.
      * intros (l1 & t' & l2 & -> & Ht & Hv & Hn). exists (t :: l1), t', l2. cbn [forallb app]. rewrite E. auto.
      * intros (l1 & t' & l2 & H & Ht & Hv & Hn). destruct l1 as [|x l1]; cbn [app] in H.
        -- injection H as -> ->. apply N.eqb_neq in E. congruence.
        -- injection H as -> ->. cbn [forallb] in Hn. apply andb_prop in Hn as [_ Hn]. exists l1, t', l2. auto.
Qed.
