(* Proofs about the BMP connection model (BmpStreamModel.v): C06 and C07. *)
From stdpp Require Import gmap.
From Coq Require Import NArith Lia.
From RV Require Import Ingress.IngressModel Ingress.IngressProofs Rib.RibModel Bmp.BmpModel Bmp.BmpProofs Bmp.BmpStreamModel.
Local Open Scope N_scope.

(* ---------- framing: what a read leaves behind is a suffix of the script ---------- *)
Lemma read_exact_suffix evs : forall n acc,
  match read_exact evs n acc with
  | RxOk bs r => exists pre, evs = pre ++ r /\ (n <> 0 -> pre <> []) /\ bs = acc ++ omap (fun e => match e with EByte b => Some b | _ => None end) pre
                            /\ N.of_nat (length pre) = n
  | RxErr k r => exists pre, evs = pre ++ EErr k :: r
  | RxEnd => True
  end.
Proof.
  induction evs as [|e evs IH]; intros n acc; cbn [read_exact].
  - destruct (N.eqb_spec n 0) as [->|Hn]; [|exact I].
    exists []. repeat split; try congruence. cbn. rewrite app_nil_r. reflexivity.
  - destruct (N.eqb_spec n 0) as [->|Hn].
    + exists []. repeat split; try congruence. cbn. rewrite app_nil_r. reflexivity.
    + destruct e as [b|k].
      * specialize (IH (N.pred n) (acc ++ [b])). destruct (read_exact evs (N.pred n) (acc ++ [b])) as [bs r|k r|].
        -- destruct IH as (pre & -> & _ & -> & Hl). exists (EByte b :: pre). repeat split.
           ++ discriminate.
           ++ cbn. rewrite <- app_assoc. reflexivity.
           ++ cbn [length]. lia.
        -- destruct IH as (pre & ->). exists (EByte b :: pre). reflexivity.
        -- exact I.
      * exists []. reflexivity.
Qed.

Definition shorter (r evs : list ev) : Prop := (length r < length evs)%nat.

Lemma bmp_read_shorter evs :
  match bmp_read evs with
  | RdFrame _ r | RdErr _ r | RdShort r => shorter r evs
  | RdEnd => True
  end.
Proof.
  unfold bmp_read, shorter.
  pose proof (read_exact_suffix evs 5 []) as H1.
  destruct (read_exact evs 5 []) as [h r|k r|]; [|destruct H1 as (pre & ->); rewrite app_length; cbn; lia|exact I].
  destruct H1 as (pre & -> & Hne & _ & Hl).
  assert (Hp : (length pre = 5)%nat) by lia.
  destruct (N.ltb (hdr_len h) 5); [rewrite app_length; lia|].
  pose proof (read_exact_suffix r (hdr_len h - 5) h) as H2.
  destruct (read_exact r (hdr_len h - 5) h) as [f r'|k r'|]; [| |exact I].
  - destruct H2 as (pre2 & -> & _). rewrite !app_length. lia.
  - destruct H2 as (pre2 & ->). rewrite !app_length. cbn. lia.
Qed.

(* where the rest of the script starts, for the statement of "why a session ends" *)
Lemma bmp_read_suffix evs :
  match bmp_read evs with
  | RdFrame _ r | RdShort r => exists pre, evs = pre ++ r
  | RdErr k r => exists pre, evs = pre ++ EErr k :: r
  | RdEnd => True
  end.
Proof.
  unfold bmp_read.
  pose proof (read_exact_suffix evs 5 []) as H1.
  destruct (read_exact evs 5 []) as [h r|k r|]; [|exact H1|exact I].
  destruct H1 as (pre & -> & _).
  destruct (N.ltb (hdr_len h) 5); [eauto|].
  pose proof (read_exact_suffix r (hdr_len h - 5) h) as H2.
  destruct (read_exact r (hdr_len h - 5) h) as [f r'|k r'|]; [| |exact I].
  - destruct H2 as (pre2 & -> & _). exists (pre ++ pre2). rewrite app_assoc. reflexivity.
  - destruct H2 as (pre2 & ->). exists (pre ++ pre2). rewrite app_assoc. reflexivity.
Qed.

(* ---------- process_msg never hits the metrics index ---------- *)
Lemma msg_type_code_lt m : msg_type_code m < 7.
Proof. destruct m; cbn; lia. Qed.

Lemma process_msg_some rid s m : exists s', process_msg rid s m = Some s'.
Proof.
  unfold process_msg. pose proof (msg_type_code_lt m) as H. apply N.ltb_lt in H. rewrite H.
  destruct (sm_step (s_reg s) rid (s_sm s) m) as [[r' sm'] o]. eauto.
Qed.

(* ---------- C06: progress (the loop always terminates) ---------- *)
Lemma loop_fuel_enough parse fixed tl rid : forall fuel evs s,
  (length evs < fuel)%nat -> loop fuel parse fixed tl rid evs s <> OutOfFuel.
Proof.
  induction fuel as [|f IH]; intros evs s Hf; [lia|].
  cbn [loop]. pose proof (bmp_read_shorter evs) as Hs. unfold shorter in Hs.
  destruct (bmp_read evs) as [fr r|k r|r|].
  - destruct (parse fr) as [m|].
    + destruct (process_msg_some rid s m) as [s' ->]. apply IH. lia.
    + cbn. apply IH. lia.
  - destruct (is_fatal k); [discriminate|apply IH; lia].
  - destruct fixed; [cbn; discriminate|discriminate].
  - destruct tl; cbn; discriminate.
Qed.

Lemma run_from_progress parse fixed tl rid evs s : run_from parse fixed tl rid evs s <> OutOfFuel.
Proof. apply loop_fuel_enough. lia. Qed.

(* any two sufficient amounts of fuel give the same result *)
Lemma loop_fuel_irrelevant parse fixed tl rid : forall f1 f2 evs s,
  (length evs < f1)%nat -> (length evs < f2)%nat ->
  loop f1 parse fixed tl rid evs s = loop f2 parse fixed tl rid evs s.
Proof.
  induction f1 as [|f1 IH]; intros f2 evs s H1 H2; [lia|].
  destruct f2 as [|f2]; [lia|]. cbn [loop].
  pose proof (bmp_read_shorter evs) as Hs. unfold shorter in Hs.
  destruct (bmp_read evs) as [fr r|k r|r|].
  - destruct (parse fr) as [m|].
    + destruct (process_msg rid s m) as [s'|]; [apply IH; lia|reflexivity].
    + cbn. apply IH; lia.
  - destruct (is_fatal k); [reflexivity|apply IH; lia].
  - destruct fixed; reflexivity.
  - destruct tl; reflexivity.
Qed.

(* ---------- C06: no panic in the repaired code ---------- *)
Lemma loop_no_panic parse tl rid : forall fuel evs s p r s',
  loop fuel parse true tl rid evs s <> Panic p r s'.
Proof.
  induction fuel as [|f IH]; intros evs s p r0 s0; [discriminate|].
  cbn [loop]. destruct (bmp_read evs) as [fr r|k r|r|].
  - destruct (parse fr) as [m|].
    + destruct (process_msg_some rid s m) as [s' ->]. apply IH.
    + cbn. apply IH.
  - destruct (is_fatal k); [discriminate|apply IH].
  - cbn. discriminate.
  - destruct tl; cbn; discriminate.
Qed.

Lemma run_from_total parse tl rid evs s :
  exists e rest s' out, run_from parse true tl rid evs s = Done e rest s' out.
Proof.
  destruct (run_from parse true tl rid evs s) as [e rest s' out|p r s'|] eqn:E.
  - eauto.
  - exfalso. eapply loop_no_panic. exact E.
  - exfalso. eapply run_from_progress. exact E.
Qed.

(* the code before the repair: the same, except that it dies where the repaired code reports InvalidData *)
Lemma loop_old_partial parse tl rid : forall fuel evs s,
  (exists r s', loop fuel parse false tl rid evs s = Panic PSliceShortLen r s') \/
  loop fuel parse false tl rid evs s = loop fuel parse true tl rid evs s.
Proof.
  induction fuel as [|f IH]; intros evs s; [right; reflexivity|].
  cbn [loop]. destruct (bmp_read evs) as [fr r|k r|r|].
  - destruct (parse fr) as [m|].
    + destruct (process_msg rid s m) as [s'|]; [apply IH|right; reflexivity].
    + cbn. apply IH.
  - destruct (is_fatal k); [right; reflexivity|apply IH].
  - left. eauto.
  - destruct tl; cbn; right; reflexivity.
Qed.

(* ---------- C06: why a session ends ---------- *)
Definition end_reason_ok (tl : tail) (evs : list ev) (e : ending) (rest : list ev) : Prop :=
  match e with
  | EndEof => tl = TEof /\ rest = []
  | EndTerm => tl = THang /\ rest = []
  | EndErr k => is_fatal k = true /\ exists pre, evs = pre ++ EErr k :: rest
  | EndShort => exists pre, evs = pre ++ rest
  end.

Lemma end_reason_suffix tl pre evs e rest :
  end_reason_ok tl evs e rest -> end_reason_ok tl (pre ++ evs) e rest.
Proof.
  destruct e; cbn; auto.
  - intros [Hk (p & ->)]. split; [exact Hk|]. exists (pre ++ p). rewrite app_assoc. reflexivity.
  - intros (p & ->). exists (pre ++ p). rewrite app_assoc. reflexivity.
Qed.

Lemma loop_end_reason parse fixed tl rid : forall fuel evs s e rest s' out,
  loop fuel parse fixed tl rid evs s = Done e rest s' out -> end_reason_ok tl evs e rest.
Proof.
  induction fuel as [|f IH]; intros evs s e rest s' out; [discriminate|].
  cbn [loop]. pose proof (bmp_read_suffix evs) as Hs.
  destruct (bmp_read evs) as [fr r|k r|r|].
  - destruct Hs as (pre & ->). destruct (parse fr) as [m|].
    + destruct (process_msg rid s m) as [s1|]; [|discriminate].
      intros H. apply end_reason_suffix. eapply IH. exact H.
    + cbn. intros H. apply end_reason_suffix. eapply IH. exact H.
  - destruct Hs as (pre & ->). destruct (is_fatal k) eqn:Ek.
    + intros [= <- <- <- <-]. cbn. split; [exact Ek|eauto].
    + intros H. apply IH in H. apply (end_reason_suffix tl (pre ++ [EErr k])) in H.
      rewrite <- app_assoc in H. exact H.
  - destruct Hs as (pre & ->). destruct fixed; [cbn|discriminate].
    intros [= <- <- <- <-]. cbn. eauto.
  - destruct tl; cbn; intros [= <- <- <- <-]; cbn; auto.
Qed.

(* a non-fatal error between frames is skipped: the next read starts a new frame *)
Lemma nonfatal_error_skipped parse fixed tl rid k evs s :
  is_fatal k = false ->
  run_from parse fixed tl rid (EErr k :: evs) s = run_from parse fixed tl rid evs s.
Proof.
  intros Hk. unfold run_from. cbn [length]. remember (S (length evs)) as f eqn:Ef. cbn [loop].
  change (bmp_read (EErr k :: evs)) with (RdErr k evs). cbv iota. rewrite Hk. reflexivity.
Qed.

(* ---------- C07: ids ---------- *)
Definition is_child (r : reg) (rid i : N) : Prop :=
  exists inf, infos r !! i = Some inf /\ i_parent inf = Some rid.
Definition ids_tbl (ps : gmap pph peer) (i : N) : Prop :=
  exists p pe, ps !! p = Some pe /\ pe_id pe = i.

Lemma is_child_ids r rid i : is_child r rid i <-> i ∈ reg_ids_for_parent r rid.
Proof. symmetry. apply elem_of_ids_for_parent. Qed.

(* the find-or-register of add_peer_config: the id it answers is a child of the
   router, and no child of the router stops being one *)
Lemma for_peer_child r rid p id r' :
  find_or_register peer_match r (peer_query rid p) = (id, r') ->
  is_child r' rid id /\ (forall i, is_child r rid i -> is_child r' rid i).
Proof.
  unfold find_or_register. destruct (reg_find_all peer_match r (peer_query rid p)) as [|x l] eqn:E.
  - cbn [reg_register]. intros [= <- <-]. unfold is_child, reg_update_info. cbn [infos serial]. split.
    + rewrite lookup_insert. eexists. split; [reflexivity|].
      destruct (infos r !! serial r); reflexivity.
    + intros i (inf & Hl & Hp). destruct (decide (i = serial r)) as [->|Hne].
      * rewrite lookup_insert, Hl. eexists. split; [reflexivity|]. reflexivity.
      * rewrite lookup_insert_ne by congruence. eauto.
  - intros [= <- <-]. split; [|auto].
    assert (Hx : x ∈ reg_find_all peer_match r (peer_query rid p)) by (rewrite E; left).
    apply elem_of_find_all in Hx as (i & Hl & Hm). apply peer_match_spec in Hm as (_ & Hp & _).
    exists i. split; [exact Hl|]. rewrite Hp. reflexivity.
Qed.

Lemma ids_tbl_insert_same ps p pe pe' i :
  ps !! p = Some pe -> pe_id pe' = pe_id pe -> ids_tbl (<[p := pe']> ps) i -> ids_tbl ps i.
Proof.
  intros Hl He (q & x & Hq & <-). destruct (decide (q = p)) as [->|Hne].
  - rewrite lookup_insert in Hq. injection Hq as <-. exists p, pe. split; [exact Hl|congruence].
  - rewrite lookup_insert_ne in Hq by congruence. exists q, x. auto.
Qed.

Definition step_ids_ok (r : reg) (rid : N) (s : sm) (res : reg * sm * outcome) : Prop :=
  (forall i, is_child r rid i -> is_child res.1.1 rid i) /\
  (forall i, ids_tbl (sm_peers res.1.2) i -> ids_tbl (sm_peers s) i \/ is_child res.1.1 rid i) /\
  (forall u i, res.2 = OUpdate u -> i ∈ ids_of (GUpd u) -> ids_tbl (sm_peers s) i).

Lemma ids_ok_same r rid s m o : (forall u, o <> OUpdate u) -> step_ids_ok r rid s (r, MkSm (sm_phase s) (sm_peers s) m, o).
Proof. intros Ho. split; [auto|]. split; [cbn; auto|]. intros u i E. exfalso. eapply Ho. exact E. Qed.

Lemma invalid_ids_ok r rid s : step_ids_ok r rid s (invalid r s).
Proof. unfold invalid, with_metrics. split; [auto|]. split; [cbn; auto|]. cbn. discriminate. Qed.

Lemma peer_up_ids_ok r rid s p e : step_ids_ok r rid s (peer_up r rid s p e).
Proof.
  unfold peer_up. destruct (find_or_register peer_match r (peer_query rid p)) as [id r'] eqn:Ef.
  apply for_peer_child in Ef as [Hid Hmono].
  destruct (sm_peers s !! p) as [pe|] eqn:E.
  - unfold invalid, with_metrics. split; [exact Hmono|]. split; [cbn; auto|]. cbn. discriminate.
  - split; [exact Hmono|]. split; [|cbn; discriminate]. cbn [fst snd sm_peers].
    intros i (q & x & Hq & <-). destruct (decide (q = p)) as [->|Hne].
    + rewrite lookup_insert in Hq. injection Hq as <-. right. exact Hid.
    + rewrite lookup_insert_ne in Hq by congruence. left. exists q, x. auto.
Qed.

Lemma peer_down_ids_ok r rid s p : step_ids_ok r rid s (peer_down r s p).
Proof.
  unfold peer_down. destruct (sm_peers s !! p) as [pe|] eqn:E; [|apply invalid_ids_ok].
  split; [auto|]. split; cbn [fst snd sm_peers].
  - intros i (q & x & Hq & <-). apply lookup_delete_Some in Hq as [_ Hq]. left. exists q, x. auto.
  - intros u i [= <-]. cbn. rewrite elem_of_list_singleton. intros ->. exists p, pe. auto.
Qed.

Lemma route_monitoring_ids_ok r rid s p u : step_ids_ok r rid s (route_monitoring r s p u).
Proof.
  unfold route_monitoring. destruct (sm_peers s !! p) as [pe|] eqn:E.
  2:{ unfold invalid, with_metrics. split; [auto|]. split; [cbn; auto|]. cbn. discriminate. }
  destruct u as [u|]; [|apply invalid_ids_ok]. cbv zeta.
  set (ps1 := match eor_in (sm_phase s) u with
              | Some f => <[p := MkPeer (pe_eor pe) (pe_pending pe ∖ {[f]}) (pe_id pe)]> (sm_peers s)
              | None => sm_peers s end).
  assert (H1 : forall i, ids_tbl ps1 i -> ids_tbl (sm_peers s) i).
  { subst ps1. destruct (eor_in (sm_phase s) u); [|auto]. intros i. eapply ids_tbl_insert_same; [exact E|reflexivity]. }
  set (pe1 := match ps1 !! p with Some x => x | None => pe end).
  assert (Hp1 : exists y, ps1 !! p = Some y /\ pe_id y = pe_id pe).
  { subst ps1. destruct (eor_in (sm_phase s) u); [rewrite lookup_insert; eauto|eauto]. }
  assert (Hpe1 : pe_id pe1 = pe_id pe).
  { subst pe1. destruct Hp1 as (y & -> & Hy). exact Hy. }
  set (ps2 := match first_ann_fam u with
              | Some f => if pe_eor pe1 then <[p := MkPeer (pe_eor pe1) ({[f]} ∪ pe_pending pe1) (pe_id pe1)]> ps1 else ps1
              | None => ps1 end).
  assert (H2 : forall i, ids_tbl ps2 i -> ids_tbl (sm_peers s) i).
  { subst ps2. destruct (first_ann_fam u); [|exact H1]. destruct (pe_eor pe1); [|exact H1].
    intros i Hi. apply H1. destruct Hp1 as (y & Hy & Hyid).
    eapply ids_tbl_insert_same; [exact Hy| |exact Hi]. cbn. congruence. }
  assert (Hout : forall i, i ∈ ids_of (GUpd (UBulk (payloads_of (pe_id pe) u))) -> ids_tbl (sm_peers s) i).
  { cbn [ids_of]. intros i Hi. apply elem_of_list_fmap in Hi as (x & -> & Hx).
    apply payloads_of_mui in Hx. exists p, pe. auto. }
  assert (Hr : step_ids_ok r rid s (r, MkSm (sm_phase s) ps2
                 (add_routes (set_gauges (set_gauges (sm_metrics s) ps1) ps2) (n_ann u) (n_wd u)),
                 OUpdate (UBulk (payloads_of (pe_id pe) u)))).
  { split; [auto|]. split; [cbn; auto|]. cbn [snd]. intros u0 i [= <-]. apply Hout. }
  destruct (sm_phase s) eqn:Ep; try (rewrite <- Ep; exact Hr).
  rewrite <- Ep.
  destruct (match eor_in (sm_phase s) u with Some _ => all_pending_empty ps1 | None => false end); [|exact Hr].
  split; [auto|]. split; [cbn; auto|]. cbn. discriminate.
Qed.

Lemma terminate_ids_ok r rid s : step_ids_ok r rid s (terminate r s).
Proof.
  unfold terminate. cbv zeta. split; [auto|]. split; cbn [fst snd sm_peers].
  - intros i (q & x & Hq & _). rewrite lookup_empty in Hq. discriminate.
  - intros u i Ho Hi.
    assert (Hin : i ∈ map (fun kv : pph * peer => pe_id kv.2) (map_to_list (sm_peers s))).
    { destruct (map (fun kv : pph * peer => pe_id kv.2) (map_to_list (sm_peers s))) as [|a l]; [discriminate|].
      injection Ho as <-. exact Hi. }
    apply elem_of_list_fmap in Hin as ([q x] & -> & Hx). apply elem_of_map_to_list in Hx. exists q, x. auto.
Qed.

Lemma sm_step_ids_ok r rid s m : step_ids_ok r rid s (sm_step r rid s m).
Proof.
  unfold sm_step. destruct (sm_phase s) eqn:Ep.
  - destruct m; try apply invalid_ids_ok.
    split; [auto|]. split; [cbn; auto|]. cbn. discriminate.
  - destruct m; cbn [live_step].
    + destruct s. apply ids_ok_same. discriminate.
    + apply terminate_ids_ok.
    + destruct s. apply ids_ok_same. discriminate.
    + apply peer_up_ids_ok.
    + apply peer_down_ids_ok.
    + apply route_monitoring_ids_ok.
  - destruct m; cbn [live_step].
    + destruct s. apply ids_ok_same. discriminate.
    + apply terminate_ids_ok.
    + destruct s. apply ids_ok_same. discriminate.
    + apply peer_up_ids_ok.
    + apply peer_down_ids_ok.
    + apply route_monitoring_ids_ok.
  - apply invalid_ids_ok.
Qed.

(* ---------- C07: the session invariant ---------- *)
Record SInv (rid : N) (s : sess) : Prop := {
  inv_noeos : forall g, g ∈ s_out s -> is_eos g = false;
  inv_out : forall g i, g ∈ s_out s -> i ∈ ids_of g -> is_child (s_reg s) rid i;
  inv_tbl : forall i, ids_tbl (sm_peers (s_sm s)) i -> is_child (s_reg s) rid i }.

Lemma SInv_init rid r : SInv rid (MkSess r sm_init []).
Proof.
  split; cbn.
  - intros g Hg. inversion Hg.
  - intros g i Hg. inversion Hg.
  - intros i (p & pe & Hl & _). rewrite lookup_empty in Hl. discriminate.
Qed.

Lemma process_msg_inv rid s m s' : SInv rid s -> process_msg rid s m = Some s' -> SInv rid s'.
Proof.
  intros [Hn Ho Ht]. unfold process_msg. destruct (N.ltb (msg_type_code m) 7); [|discriminate].
  pose proof (sm_step_ids_ok (s_reg s) rid (s_sm s) m) as (Hmono & Htbl & Hout).
  destruct (sm_step (s_reg s) rid (s_sm s) m) as [[r' sm'] o]. cbn [fst snd] in *.
  intros [= <-]. split; cbn [s_out s_reg s_sm].
  - intros g Hg. apply elem_of_app in Hg as [Hg|Hg]; [auto|].
    destruct o; try (inversion Hg; fail). apply elem_of_list_singleton in Hg as ->. reflexivity.
  - intros g i Hg Hi. apply elem_of_app in Hg as [Hg|Hg]; [eauto|].
    destruct o as [| | |u]; try (inversion Hg; fail). apply elem_of_list_singleton in Hg as ->.
    apply Hmono, Ht. eapply Hout; [reflexivity|exact Hi].
  - intros i Hi. destruct (Htbl i Hi) as [H|H]; [apply Hmono, Ht, H|exact H].
Qed.

Lemma loop_done_inv parse fixed tl rid : forall fuel evs s e rest s' out,
  SInv rid s -> loop fuel parse fixed tl rid evs s = Done e rest s' out ->
  SInv rid s' /\ out = cleanup rid s'.
Proof.
  induction fuel as [|f IH]; intros evs s e rest s' out Hi; [discriminate|].
  cbn [loop]. destruct (bmp_read evs) as [fr r|k r|r|].
  - destruct (parse fr) as [m|].
    + destruct (process_msg rid s m) as [s1|] eqn:Ep; [|discriminate].
      apply IH. eapply process_msg_inv; eauto.
    + cbn. apply IH. exact Hi.
  - destruct (is_fatal k); [intros [= <- <- <- <-]; auto|apply IH; exact Hi].
  - destruct fixed; [cbn; intros [= <- <- <- <-]; auto|discriminate].
  - destruct tl; cbn; intros [= <- <- <- <-]; auto.
Qed.

Lemma memN_elem i l : memN i l = true <-> i ∈ l.
Proof.
  unfold memN. rewrite existsb_exists. split.
  - intros (x & Hx & He). apply N.eqb_eq in He as ->. apply elem_of_list_In. exact Hx.
  - intros Hi. exists i. split; [apply elem_of_list_In, Hi|apply N.eqb_refl].
Qed.

Lemma cleanup_ok_of_inv rid s : SInv rid s -> cleanup_ok rid (cleanup rid s) = true.
Proof.
  intros [Hn Ho Ht]. unfold cleanup_ok, cleanup. rewrite rev_app_distr. cbn [rev app].
  rewrite N.eqb_refl. cbn [andb]. apply andb_true_iff. split.
  - apply negb_true_iff. destruct (existsb is_eos (rev (s_out s))) eqn:E; [|reflexivity].
    apply existsb_exists in E as (g & Hg & He). apply in_rev, elem_of_list_In in Hg.
    rewrite (Hn g Hg) in He. discriminate.
  - apply forallb_forall. intros g Hg. apply in_rev, elem_of_list_In in Hg.
    apply forallb_forall. intros i Hi. apply elem_of_list_In in Hi.
    apply memN_elem, is_child_ids. eapply Ho; eauto.
Qed.

(* C07, the repaired code: whatever the stream and however it ends, the trace
   that left the gate is [pre ++ WithdrawBulk (all children of the router) ::
   EndOfStream router], pre has no EndOfStream and speaks only about ids that
   are in that WithdrawBulk; so are the ids of the peers still up. *)
Theorem cleanup_once parse tl rid evs s0 : SInv rid s0 ->
  exists e rest s,
    run_from parse true tl rid evs s0 =
      Done e rest s (s_out s ++ [GUpd (UWithdrawBulk (reg_ids_for_parent (s_reg s) rid)); GEos rid]) /\
    (forall g, g ∈ s_out s -> is_eos g = false) /\
    (forall g i, g ∈ s_out s -> i ∈ ids_of g -> i ∈ reg_ids_for_parent (s_reg s) rid) /\
    (forall p pe, sm_peers (s_sm s) !! p = Some pe -> pe_id pe ∈ reg_ids_for_parent (s_reg s) rid).
Proof.
  intros Hi. destruct (run_from_total parse tl rid evs s0) as (e & rest & s & out & E).
  destruct (loop_done_inv _ _ _ _ _ _ _ _ _ _ _ Hi E) as [[Hn Ho Ht] ->].
  exists e, rest, s. split; [exact E|]. split; [exact Hn|]. split.
  - intros g i Hg Hx. apply is_child_ids. eauto.
  - intros p pe Hl. apply is_child_ids, Ht. exists p, pe. auto.
Qed.

Theorem cleanup_once_bool parse tl rid evs s0 : SInv rid s0 ->
  exists e rest s out, run_from parse true tl rid evs s0 = Done e rest s out /\ cleanup_ok rid out = true.
Proof.
  intros Hi. destruct (run_from_total parse tl rid evs s0) as (e & rest & s & out & E).
  destruct (loop_done_inv _ _ _ _ _ _ _ _ _ _ _ Hi E) as [Hs ->].
  exists e, rest, s, (cleanup rid s). split; [exact E|apply cleanup_ok_of_inv, Hs].
Qed.

(* the code before the repair: complete cleanup whenever the task survives *)
Theorem cleanup_once_old_partial parse tl rid evs s0 e rest s out : SInv rid s0 ->
  run_from parse false tl rid evs s0 = Done e rest s out -> cleanup_ok rid out = true.
Proof.
  intros Hi E. destruct (loop_done_inv _ _ _ _ _ _ _ _ _ _ _ Hi E) as [Hs ->].
  apply cleanup_ok_of_inv, Hs.
Qed.

(* conn_init's session satisfies the invariant *)
Lemma conn_init_inv addr : SInv (conn_init addr).1 (conn_init addr).2.
Proof.
  unfold conn_init. destruct (reg_register reg_new) as [uid r0].
  destruct (find_or_register router_match r0 _) as [rid r1]. apply SInv_init.
Qed.

(* ---------- the framing observable does not depend on the parser ---------- *)
Definition shape (x : result) : option (ending * list ev) :=
  match x with Done e rest _ _ => Some (e, rest) | _ => None end.

Lemma loop_shape_parse_indep parse1 parse2 tl rid1 rid2 : forall fuel evs s1 s2,
  shape (loop fuel parse1 true tl rid1 evs s1) = shape (loop fuel parse2 true tl rid2 evs s2).
Proof.
  induction fuel as [|f IH]; intros evs s1 s2; [reflexivity|].
  cbn [loop]. destruct (bmp_read evs) as [fr r|k r|r|].
  - assert (H1 : exists s1', shape (match parse1 fr with
        | Some m => match process_msg rid1 s1 m with Some s' => loop f parse1 true tl rid1 r s' | None => Panic PMetricsIndex r s1 end
        | None => if is_fatal KOther then Done (EndErr KOther) r s1 (cleanup rid1 s1) else loop f parse1 true tl rid1 r s1 end)
        = shape (loop f parse1 true tl rid1 r s1')).
    { destruct (parse1 fr) as [m|]; [|cbn; eauto]. destruct (process_msg_some rid1 s1 m) as [s' ->]. eauto. }
    assert (H2 : exists s2', shape (match parse2 fr with
        | Some m => match process_msg rid2 s2 m with Some s' => loop f parse2 true tl rid2 r s' | None => Panic PMetricsIndex r s2 end
        | None => if is_fatal KOther then Done (EndErr KOther) r s2 (cleanup rid2 s2) else loop f parse2 true tl rid2 r s2 end)
        = shape (loop f parse2 true tl rid2 r s2')).
    { destruct (parse2 fr) as [m|]; [|cbn; eauto]. destruct (process_msg_some rid2 s2 m) as [s' ->]. eauto. }
    destruct H1 as [s1' ->], H2 as [s2' ->]. apply IH.
  - destruct (is_fatal k); [reflexivity|apply IH].
  - reflexivity.
  - destruct tl; reflexivity.
Qed.

(* ---------- witnesses for the code before the repair ---------- *)
Definition pW : pph := (0, 0, 0, 0, 1, 65001, 1).
(* a stand-in parser: looks at the type byte only *)
Definition parse_w (f : list N) : option msg :=
  match f with
  | [_; _; _; _; _; 4] => Some MInit
  | [_; _; _; _; _; 3] => Some (MPeerUp pW true)
  | _ => None
  end.
Definition short_frame : list ev := map EByte [3; 0; 0; 0; 4].
Definition c07_witness : list ev := map EByte [3; 0; 0; 0; 6; 4; 3; 0; 0; 0; 6; 3; 3; 0; 0; 0; 0].

Lemma short_length_panics :
  exists s, run_stream (fun _ => None) false TEof 1 short_frame = Panic PSliceShortLen [] s.
Proof. vm_compute. eexists. reflexivity. Qed.

Lemma short_length_skips_cleanup :
  exists s pe, run_stream parse_w false TEof 1 c07_witness = Panic PSliceShortLen [] s /\
    s_out s = [] /\ sm_peers (s_sm s) !! pW = Some pe /\ pe_id pe ∈ reg_ids_for_parent (s_reg s) 2.
Proof.
  eexists. eexists. split; [vm_compute; reflexivity|]. split; [reflexivity|]. split; [vm_compute; reflexivity|].
  apply elem_of_ids_for_parent. eexists. split; vm_compute; reflexivity.
Qed.

(* ---------- run_from forms ---------- *)
Lemma run_from_no_panic parse tl rid evs s p r s' : run_from parse true tl rid evs s <> Panic p r s'.
Proof. apply loop_no_panic. Qed.

Lemma run_from_end_reason parse fixed tl rid evs s e rest s' out :
  run_from parse fixed tl rid evs s = Done e rest s' out -> end_reason_ok tl evs e rest.
Proof. apply loop_end_reason. Qed.

Lemma run_from_shape_parse_indep parse1 parse2 tl rid1 rid2 evs s1 s2 :
  shape (run_from parse1 true tl rid1 evs s1) = shape (run_from parse2 true tl rid2 evs s2).
Proof. apply loop_shape_parse_indep. Qed.

Lemma run_from_old_partial parse tl rid evs s :
  (exists r s', run_from parse false tl rid evs s = Panic PSliceShortLen r s') \/
  run_from parse false tl rid evs s = run_from parse true tl rid evs s.
Proof. apply loop_old_partial. Qed.

(* bytes of an incomplete header that a non-fatal error interrupts are dropped:
   the read after the error starts a new header at the next byte *)
Lemma read_exact_bytes_then_err bs k evs : forall n acc,
  N.of_nat (length bs) < n -> read_exact (map EByte bs ++ EErr k :: evs) n acc = RxErr k evs.
Proof.
  induction bs as [|b bs IH]; intros n acc Hn; cbn [map app read_exact length] in *.
  - destruct (N.eqb_spec n 0); [lia|reflexivity].
  - destruct (N.eqb_spec n 0); [lia|]. apply IH. lia.
Qed.

Lemma partial_header_dropped parse fixed tl rid bs k evs s :
  (length bs < 5)%nat -> is_fatal k = false ->
  run_from parse fixed tl rid (map EByte bs ++ EErr k :: evs) s = run_from parse fixed tl rid evs s.
Proof.
  intros Hl Hk. unfold run_from. rewrite app_length, map_length. cbn [length].
  remember (S (length evs)) as f2 eqn:Ef2.
  remember (length bs + f2)%nat as f eqn:Ef. cbn [loop]. unfold bmp_read at 1.
  rewrite read_exact_bytes_then_err by lia. rewrite Hk.
  apply loop_fuel_irrelevant; lia.
Qed.

(* ---------- C07: back-pressure from downstream ---------- *)
(* delayed, never dropped: whatever the receiving end makes the sender wait, update by
   update, it ends up with exactly the updates the session handed over, in order *)
Lemma deliver_snd : forall out waits t, map snd (deliver waits t out) = out.
Proof.
  induction out as [|g out IH]; intros waits t; [reflexivity|].
  cbn [deliver map snd]. f_equal. apply IH.
Qed.

Theorem received_same waits out : received waits out = out.
Proof. apply deliver_snd. Qed.

Lemma deliver_ge : forall out waits t tg g, (tg, g) ∈ deliver waits t out -> t <= tg.
Proof.
  induction out as [|g0 out IH]; intros waits t tg g Hin; [inversion Hin|].
  cbn [deliver] in Hin. apply elem_of_cons in Hin as [[= -> ->]|Hin]; [lia|].
  apply IH in Hin. lia.
Qed.

(* ... and each one no earlier than the receiving end was prepared to take it *)
Lemma deliver_lookup : forall out waits t i tg g,
  deliver waits t out !! i = Some (tg, g) -> out !! i = Some g /\ t + default 0 (waits !! i) <= tg.
Proof.
  induction out as [|g0 out IH]; intros waits t i tg g Hl; [discriminate|].
  cbn [deliver] in Hl. destruct i as [|i].
  - cbn in Hl. injection Hl as <- <-. split; [reflexivity|]. destruct waits; cbn; lia.
  - cbn [lookup list_lookup] in Hl. apply IH in Hl as [Ho Ht]. split; [exact Ho|].
    destruct waits as [|w ws].
    + rewrite lookup_nil in *. cbn in *. lia.
    + change ((w :: ws) !! S i) with (ws !! i). lia.
Qed.

Lemma deliver_last : forall out waits t i tg g,
  deliver waits t out !! i = Some (tg, g) ->
  exists tl gl, last (deliver waits t out) = Some (tl, gl) /\ tg <= tl.
Proof.
  induction out as [|g0 out IH]; intros waits t i tg g Hl; [discriminate|].
  cbn [deliver] in *.
  set (w := match waits with [] => 0 | w :: _ => w end) in *.
  set (ws := match waits with [] => [] | _ :: ws => ws end) in *.
  rewrite last_cons. destruct i as [|i].
  - cbn in Hl. injection Hl as <- <-.
    destruct (last (deliver ws (t + w) out)) as [[tl gl]|] eqn:El.
    + exists tl, gl. split; [reflexivity|].
      apply last_Some in El as [l' El]. eapply (deliver_ge out ws (t + w) tl gl).
      rewrite El. apply elem_of_app. right. apply elem_of_list_singleton. reflexivity.
    + exists (t + w), g0. split; [reflexivity|lia].
  - cbn [lookup list_lookup] in Hl. destruct (IH ws (t + w) i tg g Hl) as (tl & gl & -> & Hle).
    exists tl, gl. split; [reflexivity|exact Hle].
Qed.

(* the session's task does not get past its last hand-over before every update has been taken *)
Lemma finished_at_ge waits out i :
  (i < length out)%nat -> default 0 (waits !! i) <= finished_at waits out.
Proof.
  intros Hi. unfold finished_at.
  assert (Hlen : length (deliver waits 0 out) = length out).
  { rewrite <- (map_length snd), deliver_snd. reflexivity. }
  destruct (lookup_lt_is_Some_2 (deliver waits 0 out) i) as [[tg g] Hl]; [lia|].
  destruct (deliver_lookup _ _ _ _ _ _ Hl) as [_ Ht].
  destruct (deliver_last _ _ _ _ _ _ Hl) as (tl & gl & -> & Hle). lia.
Qed.

(* C07 under back-pressure: every script, every end, every schedule of waits at the
   receiving end (each update, any length of time): what the receiving end has got
   when the task returns is the trace of the run without any wait - one complete
   cleanup, last - and the task has not returned before the longest wait was over. *)
Theorem cleanup_under_backpressure parse tl rid evs s0 : SInv rid s0 ->
  exists e rest s out, run_from parse true tl rid evs s0 = Done e rest s out /\
    forall waits,
      received waits out = received [] out /\ received [] out = out /\
      cleanup_ok rid (received waits out) = true /\
      (forall i, (i < length out)%nat -> default 0 (waits !! i) <= finished_at waits out).
Proof.
  intros Hi. destruct (cleanup_once_bool parse tl rid evs s0 Hi) as (e & rest & s & out & E & Hok).
  exists e, rest, s, out. split; [exact E|]. intros waits.
  rewrite !received_same. repeat split; [exact Hok|]. intros i Hlt. apply finished_at_ge, Hlt.
Qed.

(* the statement would notice a time limit: Initiation, Peer Up, the stream cut inside
   the next header; the receiving end holds from the moment the reader is asked for the
   16th event, i.e. the first update it is handed after that - the WithdrawBulk of the
   cleanup - for an hour. The code delivers the cleanup; a sender that gives up after 5 s
   would deliver nothing. *)
Lemma time_limit_would_lose_cleanup :
  let evs := map EByte [3; 0; 0; 0; 6; 4; 3; 0; 0; 0; 6; 3; 3; 0; 0] in
  let h := MkHold 15 0 3600000 in
  let idx := hold_index parse_w 2 evs h (conn_init 1).2 in
  exists s out, run_stream parse_w true TEof 1 evs = Done EndEof [] s out /\
    idx = Some 0%nat /\
    received (waits_of idx (h_for h)) out = [GUpd (UWithdrawBulk [3]); GEos 2] /\
    finished_at (waits_of idx (h_for h)) out = 3600000 /\
    received_limited 5000 (waits_of idx (h_for h)) out = [GEos 2] /\
    cleanup_ok 2 (received_limited 5000 (waits_of idx (h_for h)) out) = false.
Proof. vm_compute. eexists _, _. repeat split; reflexivity. Qed.
