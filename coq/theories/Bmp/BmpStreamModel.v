(* Model of one BMP connection as the receiving side handles it:
     src/units/bmp_tcp_in/io.rs          FatalError::is_fatal, bmp_read (framing), BmpStream::next
     src/units/bmp_tcp_in/router_handler.rs   read_from_router (read loop, post-loop cleanup), process_msg
   composed with the session state machine (BmpModel.sm_step) and the ingress
   register (IngressModel). Definitions only; proofs are in BmpStreamProofs.v.

   What the reader (the socket) does is a script: a list of read events - a
   byte arrives, or a read fails once with some io::ErrorKind - and what
   happens when the script is exhausted: end of file, or nothing ever arrives
   and the unit's gate is terminated (unit shutdown).
   routecore's BMP parser is NOT modelled: it is the argument [parse] of every
   function, and every theorem holds for every [parse]. *)
From stdpp Require Import gmap.
From Coq Require Import NArith.
From RV Require Import Ingress.IngressModel Rib.RibModel Bmp.BmpModel.
Local Open Scope N_scope.

(* ---------- io.rs: FatalError::is_fatal ---------- *)
Inductive ekind :=
| KTimedOut | KInterrupted
| KNotFound | KPermissionDenied | KConnectionRefused | KConnectionReset | KConnectionAborted
| KNotConnected | KAddrInUse | KAddrNotAvailable | KBrokenPipe | KAlreadyExists | KWouldBlock
| KInvalidInput | KInvalidData | KWriteZero | KUnsupported | KUnexpectedEof | KOutOfMemory
| KOther
| KUnlisted.     (* any kind the table does not list (its `_` arm) *)

Definition is_fatal (k : ekind) : bool :=
  match k with
  | KTimedOut => false
  | KInterrupted => false
  | KNotFound => true
  | KPermissionDenied => true
  | KConnectionRefused => true
  | KConnectionReset => true
  | KConnectionAborted => true
  | KNotConnected => true
  | KAddrInUse => true
  | KAddrNotAvailable => true
  | KBrokenPipe => true
  | KAlreadyExists => true
  | KWouldBlock => true
  | KInvalidInput => true
  | KInvalidData => true
  | KWriteZero => true
  | KUnsupported => true
  | KUnexpectedEof => true
  | KOutOfMemory => true
  | KOther => false
  | KUnlisted => true
  end.

(* ---------- the reader's script ---------- *)
Inductive ev := EByte (b : N) | EErr (k : ekind).
Inductive tail := TEof | THang.

(* tokio read_exact(n): polls the reader until n bytes are in; any error is
   returned as is (Interrupted included - unlike std's read_exact) and the bytes
   read so far are in a buffer the caller drops; 0 bytes = UnexpectedEof.
   n = 0 completes without touching the reader. *)
Inductive rx :=
| RxOk (bs : list N) (rest : list ev)
| RxErr (k : ekind) (rest : list ev)
| RxEnd.      (* script exhausted: what happens is decided by the tail *)

Fixpoint read_exact (evs : list ev) (n : N) (acc : list N) : rx :=
  if N.eqb n 0 then RxOk acc evs else
  match evs with
  | [] => RxEnd
  | EByte b :: r => read_exact r (N.pred n) (acc ++ [b])
  | EErr k :: r => RxErr k r
  end.

Definition be32 (a b c d : N) : N := ((a * 256 + b) * 256 + c) * 256 + d.
(* u32::from_be_bytes(msg_buf[1..5]) *)
Definition hdr_len (h : list N) : N :=
  match h with [_; a; b; c; d] => be32 a b c d | _ => 0 end.

(* ---------- io.rs: bmp_read ---------- *)
Inductive rd :=
| RdFrame (f : list N) (rest : list ev)   (* `len` bytes read: the 5 header bytes and len-5 more *)
| RdErr (k : ekind) (rest : list ev)      (* a read failed *)
| RdShort (rest : list ev)                (* the length field is smaller than the 5 bytes already read *)
| RdEnd.

Definition bmp_read (evs : list ev) : rd :=
  match read_exact evs 5 [] with
  | RxErr k r => RdErr k r
  | RxEnd => RdEnd
  | RxOk h r =>
      let len := hdr_len h in
      if N.ltb len 5 then RdShort r
      else match read_exact r (len - 5) h with
           | RxOk f r' => RdFrame f r'
           | RxErr k r' => RdErr k r'
           | RxEnd => RdEnd
           end
  end.

(* ---------- router_handler.rs ---------- *)
(* what leaves the gate *)
Inductive gupd := GUpd (u : update) | GEos (id : N).

Record sess := MkSess { s_reg : reg; s_sm : sm; s_out : list gupd }.

(* every unwrap / index / slice on a wire-derived value on this path *)
Inductive site :=
| PSliceShortLen     (* io.rs: `&mut msg_buf[5..]` after `msg_buf.resize(len)` *)
| PMetricsIndex.     (* status_reporter.rs message_received: num_bmp_messages_received[msg type code], 7 slots *)

(* RFC 7854 message type code (Route Mirroring, type 6, is treated by the
   state machine exactly as a Statistics Report and is represented by MStats) *)
Definition msg_type_code (m : msg) : N :=
  match m with
  | MRoute _ _ => 0 | MStats _ => 1 | MPeerDown _ => 2 | MPeerUp _ _ => 3 | MInit => 4 | MTerm => 5
  end.

(* process_msg without a roto filter: count the message by type, step the
   state machine, pass a RoutingUpdate on to the gate. (MessageType::Aborted is
   never produced by the state machine: BmpState::_Aborted is never built.) *)
Definition process_msg (rid : N) (s : sess) (m : msg) : option sess :=
  if N.ltb (msg_type_code m) 7 then
    let '(r', sm', o) := sm_step (s_reg s) rid (s_sm s) m in
    Some (MkSess r' sm' (s_out s ++ match o with OUpdate u => [GUpd u] | _ => [] end))
  else None.

Inductive ending :=
| EndEof                 (* read_exact met end of file: UnexpectedEof *)
| EndErr (k : ekind)     (* the reader returned a fatal error *)
| EndShort               (* framing error: length field < 5 (repaired code: InvalidData) *)
| EndTerm.               (* the gate was terminated while the read was pending *)

Inductive result :=
| Done (e : ending) (rest : list ev) (s : sess) (out : list gupd)
| Panic (p : site) (rest : list ev) (s : sess)      (* the task dies: nothing after the loop runs *)
| OutOfFuel.

(* the post-loop block: WithdrawBulk of every child of the router's ingress id, then EndOfStream *)
Definition cleanup (rid : N) (s : sess) : list gupd :=
  s_out s ++ [GUpd (UWithdrawBulk (reg_ids_for_parent (s_reg s) rid)); GEos rid].

(* read_from_router's loop. [fixed] = false is the code before the repair of
   the short-length panic, true the repaired code. One unit of fuel per
   iteration; BmpStreamProofs shows that [S (length evs)] is always enough. *)
Fixpoint loop (fuel : nat) (parse : list N -> option msg) (fixed : bool) (tl : tail) (rid : N)
         (evs : list ev) (s : sess) : result :=
  match fuel with
  | O => OutOfFuel
  | S f =>
      match bmp_read evs with
      | RdEnd =>
          match tl with
          | TEof => if is_fatal KUnexpectedEof then Done EndEof [] s (cleanup rid s)
                    else loop f parse fixed tl rid [] s
          | THang => Done EndTerm [] s (cleanup rid s)
          end
      | RdErr k r =>
          if is_fatal k then Done (EndErr k) r s (cleanup rid s) else loop f parse fixed tl rid r s
      | RdShort r =>
          if fixed then
            (if is_fatal KInvalidData then Done EndShort r s (cleanup rid s) else loop f parse fixed tl rid r s)
          else Panic PSliceShortLen r s
      | RdFrame fr r =>
          match parse fr with
          | None => (* BmpMsg::from_octets failed: ErrorKind::Other *)
              if is_fatal KOther then Done (EndErr KOther) r s (cleanup rid s) else loop f parse fixed tl rid r s
          | Some m =>
              match process_msg rid s m with
              | Some s' => loop f parse fixed tl rid r s'
              | None => Panic PMetricsIndex r s
              end
          end
      end
  end.

Definition run_from (parse : list N -> option msg) (fixed : bool) (tl : tail) (rid : N) (evs : list ev) (s : sess) : result :=
  loop (S (length evs)) parse fixed tl rid evs s.

(* a new connection as bmp unit.rs sets it up: the unit has an ingress id, the
   accept loop finds or registers the router by (unit, remote address) *)
Definition conn_init (addr : N) : N * sess :=
  let '(uid, r0) := reg_register reg_new in
  let '(rid, r1) := find_or_register router_match r0 (MkInfo None (Some uid) (Some addr) None None None None None) in
  (rid, MkSess r1 sm_init []).

Definition run_stream (parse : list N -> option msg) (fixed : bool) (tl : tail) (addr : N) (evs : list ev) : result :=
  let '(rid, s) := conn_init addr in run_from parse fixed tl rid evs s.

(* ---------- what the property looks at ---------- *)
Definition is_eos (g : gupd) : bool := match g with GEos _ => true | _ => false end.

(* ingress ids a gate update speaks about *)
Definition ids_of (g : gupd) : list N :=
  match g with
  | GUpd (UBulk ps) => map (fun p => k_mui (p_key p)) ps
  | GUpd (UWithdraw id _) => [id]
  | GUpd (UWithdrawBulk ids) => ids
  | _ => []
  end.

Definition memN (x : N) (l : list N) : bool := existsb (N.eqb x) l.

(* the trace ends with WithdrawBulk ids; EndOfStream rid, there is no other
   EndOfStream, and every id the session ever spoke about is in ids *)
Definition cleanup_ok (rid : N) (out : list gupd) : bool :=
  match rev out with
  | GEos id :: GUpd (UWithdrawBulk ids) :: pre =>
      N.eqb id rid && negb (existsb is_eos pre)
      && forallb (fun g => forallb (fun i => memN i ids) (ids_of g)) pre
  | _ => false
  end.

Definition events_consumed (evs rest : list ev) : N := N.of_nat (length evs - length rest).

(* ====================================================================== *)
(* Back-pressure from downstream (C07).
     src/comms.rs  Gate::update_data, direct-update mode: `direct.direct_update(update.clone()).await`
   hands the update to the receiving unit and suspends the sender until that unit
   returns. read_from_router (the two sends of the post-loop block) and process_msg
   await the call as it is: no time limit, no select!, nothing that could drop the
   future. So an update the receiving end does not take at once is taken later; the
   sender does nothing in between.

   [waits]: for the i-th update the session hands over, for how long (ms on the
   sender's clock) the receiving end sits on it before it takes it; positions past
   the end of the list wait 0 ms. [deliver] is what the receiving end has got, each
   update with the sender's clock at the moment it was taken. *)
Fixpoint deliver (waits : list N) (t : N) (out : list gupd) : list (N * gupd) :=
  match out with
  | [] => []
  | g :: out' =>
      let w := match waits with [] => 0 | w :: _ => w end in
      (t + w, g) :: deliver (match waits with [] => [] | _ :: ws => ws end) (t + w) out'
  end.
Definition received (waits : list N) (out : list gupd) : list gupd := map snd (deliver waits 0 out).
(* the sender's clock when the last update has been taken: the task does not return earlier *)
Definition finished_at (waits : list N) (out : list gupd) : N :=
  match last (deliver waits 0 out) with Some (t, _) => t | None => 0 end.

(* The receiving end of the check (StreamFixture::hold_updates_after): when the reader
   has handed out exactly [h_pos] read events and is asked for more, it decides to take
   [h_more] further updates and then to sit on the next one for [h_for] ms. *)
Record hold := MkHold { h_pos : nat; h_more : nat; h_for : N }.

(* which update that is, counted over everything the session hands over; None = the
   session ended within the first [h_pos] events (the reader is not asked again) *)
Definition hold_index (parse : list N -> option msg) (rid : N) (evs : list ev) (h : hold) (s0 : sess) : option nat :=
  match run_from parse true THang rid (take (h_pos h) evs) s0 with
  | Done EndTerm _ s _ => Some (length (s_out s) + h_more h)%nat
  | _ => None
  end.
Definition waits_of (idx : option nat) (d : N) : list N :=
  match idx with Some i => replicate i 0 ++ [d] | None => [] end.

(* NOT the code - what a time limit on the hand-over would do (the sender gives up on an
   update the receiving end holds for more than [limit] ms); only there to show that the
   statements about [received] would notice one. *)
Fixpoint received_limited (limit : N) (waits : list N) (out : list gupd) : list gupd :=
  match out with
  | [] => []
  | g :: out' =>
      let w := match waits with [] => 0 | w :: _ => w end in
      (if N.ltb limit w then [] else [g])
        ++ received_limited limit (match waits with [] => [] | _ :: ws => ws end) out'
  end.

(* ====================================================================== *)
(* Unit level metrics of the connection (C15): a second record, next to the
   state machine's [metrics] of BmpModel, for what the connection handler
   itself counts.
     src/units/bmp_tcp_in/metrics.rs          RouterMetrics, BmpTcpInMetrics::{router_metrics, remove_router}
     src/units/bmp_tcp_in/status_reporter.rs  receive_io_error, message_received, message_processed,
                                              message_processing_failure, router_connection_lost
     src/units/bmp_tcp_in/router_handler.rs   where read_from_router / process_msg call them
   [loop] above is left as it is (C06 / C07 are stated about it); [loopm] is the
   same loop of the repaired code with the counters threaded through, and
   BmpUnitProofs.loopm_fst shows that forgetting the counters gives [loop]. *)

(* RouterMetrics: per router; `[AtomicUsize; 7]`, one slot per RFC 7854 message type code *)
Record rmetrics := MkRM {
  rm_recv : list N;        (* bmp_tcp_in_num_bmp_messages_received{msg_type} *)
  rm_processed : N;        (* bmp_tcp_in_num_bmp_messages_processed *)
  rm_invalid : N;          (* bmp_in_num_invalid_bmp_messages *)
  rm_ioerr : N }.          (* bmp_tcp_in_num_receive_io_errors *)
Definition n_types : nat := 7.
Definition rm_zero : rmetrics := MkRM (replicate n_types 0) 0 0 0.      (* Default::default() *)

(* BmpTcpInMetrics as far as one connection touches it: the entry of its router in
   `routers` (made by router_metrics() on first use, dropped by remove_router()) and
   connection_lost_count *)
Record umetrics := MkUM { um_router : option rmetrics; um_lost : N }.
Definition um_init : umetrics := MkUM None 0.

(* `self.metrics.router_metrics(router_id)`: entry(..).or_insert_with(Default::default) *)
Definition router_metrics (u : umetrics) : rmetrics := default rm_zero (um_router u).

Definition receive_io_error (u : umetrics) : umetrics :=
  let r := router_metrics u in
  MkUM (Some (MkRM (rm_recv r) (rm_processed r) (rm_invalid r) (rm_ioerr r + 1))) (um_lost u).

(* `.num_bmp_messages_received[rfc_7854_msg_type_code as usize].fetch_add(1)`: an index past
   the slots is a panic (None) *)
Definition message_received (u : umetrics) (code : N) : option umetrics :=
  let r := router_metrics u in
  match rm_recv r !! N.to_nat code with
  | Some c => Some (MkUM (Some (MkRM (<[ N.to_nat code := c + 1 ]> (rm_recv r)) (rm_processed r) (rm_invalid r) (rm_ioerr r))) (um_lost u))
  | None => None
  end.

Definition message_processed (u : umetrics) : umetrics :=
  let r := router_metrics u in
  MkUM (Some (MkRM (rm_recv r) (rm_processed r + 1) (rm_invalid r) (rm_ioerr r))) (um_lost u).

Definition message_processing_failure (u : umetrics) : umetrics :=
  let r := router_metrics u in
  MkUM (Some (MkRM (rm_recv r) (rm_processed r) (rm_invalid r + 1) (rm_ioerr r))) (um_lost u).

(* connection_lost_count += 1; remove_router(router_id) *)
Definition router_connection_lost (u : umetrics) : umetrics := MkUM None (um_lost u + 1).

(* an HTTP client looks at the router's page while the connection is up
   (http/router_info/response.rs build_response starts with `conn_metrics.router_metrics(router_id)`):
   the router's entry is made if it is not there yet - all zeros; no counter changes *)
Definition page_visit (u : umetrics) : umetrics := MkUM (Some (router_metrics u)) (um_lost u).

(* `msg.common_header().msg_type().into()`: the sixth octet of the frame (version, four
   length octets, type) - a value from the wire *)
Definition frame_type (fr : list N) : N := nth 5 fr 0.

(* process_msg (no roto filter) with its three status reports: message_received before
   anything else, message_processed before the state machine runs, message_processing_failure
   on an InvalidMessage answer. None = the index panic. *)
Definition process_msg_m (rid : N) (s : sess) (fr : list N) (m : msg) (u : umetrics) : option (sess * umetrics) :=
  match message_received u (frame_type fr) with
  | None => None
  | Some u1 =>
      let u2 := message_processed u1 in
      let '(r', sm', o) := sm_step (s_reg s) rid (s_sm s) m in
      let u3 := match o with OInvalid => message_processing_failure u2 | _ => u2 end in
      Some (MkSess r' sm' (s_out s ++ match o with OUpdate x => [GUpd x] | _ => [] end), u3)
  end.

(* read_from_router's loop (repaired code): every Err of BmpStream::next - a failed read,
   end of file, the short length field, a frame the parser rejects - is one
   receive_io_error, fatal or not; gate termination is not. The counters returned are
   those at the moment the loop is left. *)
Fixpoint loopm (fuel : nat) (parse : list N -> option msg) (tl : tail) (rid : N)
         (evs : list ev) (s : sess) (u : umetrics) : result * umetrics :=
  match fuel with
  | O => (OutOfFuel, u)
  | S f =>
      match bmp_read evs with
      | RdEnd =>
          match tl with
          | TEof => let u1 := receive_io_error u in
                    if is_fatal KUnexpectedEof then (Done EndEof [] s (cleanup rid s), u1)
                    else loopm f parse tl rid [] s u1
          | THang => (Done EndTerm [] s (cleanup rid s), u)
          end
      | RdErr k r =>
          let u1 := receive_io_error u in
          if is_fatal k then (Done (EndErr k) r s (cleanup rid s), u1) else loopm f parse tl rid r s u1
      | RdShort r =>
          let u1 := receive_io_error u in
          if is_fatal KInvalidData then (Done EndShort r s (cleanup rid s), u1) else loopm f parse tl rid r s u1
      | RdFrame fr r =>
          match parse fr with
          | None =>
              let u1 := receive_io_error u in
              if is_fatal KOther then (Done (EndErr KOther) r s (cleanup rid s), u1) else loopm f parse tl rid r s u1
          | Some m =>
              match process_msg_m rid s fr m u with
              | Some (s', u') => loopm f parse tl rid r s' u'
              | None => (Panic PMetricsIndex r s, u)
              end
          end
      end
  end.

Definition run_from_m (parse : list N -> option msg) (tl : tail) (rid : N) (evs : list ev) (s : sess) (u : umetrics)
  : result * umetrics :=
  loopm (S (length evs)) parse tl rid evs s u.

(* the post-loop block starts with router_connection_lost; a task that died never gets there *)
Definition unit_final (x : result * umetrics) : umetrics :=
  match x.1 with Done _ _ _ _ => router_connection_lost x.2 | _ => x.2 end.

(* the connection at a quiescent moment: it has handed out exactly the first k read events
   and is asked for more (cf. BmpPageModel.page_at). None = the session ended within them. *)
Definition conn_at (parse : list N -> option msg) (rid : N) (evs : list ev) (k : nat) (s0 : sess) (u0 : umetrics)
  : option (sess * umetrics) :=
  match run_from_m parse THang rid (take k evs) s0 u0 with
  | (Done EndTerm _ s _, u) => Some (s, u)
  | _ => None
  end.

(* ---------- what happened, read off the script alone ---------- *)
(* one entry per iteration of the read loop; no session state, no counters *)
Inductive iter :=
| ItMsg (fr : list N) (m : msg)      (* a frame the parser accepted *)
| ItReject (fr : list N)             (* a frame the parser rejected (ErrorKind::Other) *)
| ItErr (k : ekind)                  (* the read failed *)
| ItShort                            (* length field below 5 (InvalidData) *)
| ItEof                              (* end of file (UnexpectedEof) *)
| ItTerm.                            (* the gate was terminated while the read was pending *)

Fixpoint iters (fuel : nat) (parse : list N -> option msg) (tl : tail) (evs : list ev) : list iter :=
  match fuel with
  | O => []
  | S f =>
      match bmp_read evs with
      | RdEnd => match tl with TEof => [ItEof] | THang => [ItTerm] end
      | RdErr k r => ItErr k :: (if is_fatal k then [] else iters f parse tl r)
      | RdShort r => [ItShort]
      | RdFrame fr r =>
          match parse fr with
          | None => ItReject fr :: iters f parse tl r
          | Some m => ItMsg fr m :: iters f parse tl r
          end
      end
  end.
Definition iters_of (parse : list N -> option msg) (tl : tail) (evs : list ev) : list iter :=
  iters (S (length evs)) parse tl evs.

Fixpoint countb {A} (f : A -> bool) (l : list A) : N :=
  match l with [] => 0 | x :: l' => (if f x then 1 else 0) + countb f l' end.

(* BmpStream::next returned Err *)
Definition it_failed (i : iter) : bool := match i with ItMsg _ _ | ItTerm => false | _ => true end.
(* an accepted frame of type t *)
Definition it_type (t : N) (i : iter) : bool := match i with ItMsg fr _ => N.eqb (frame_type fr) t | _ => false end.
Definition it_accepted (i : iter) : bool := match i with ItMsg _ _ => true | _ => false end.
(* the messages handed to the state machine, in order *)
Definition it_msgs (l : list iter) : list msg := omap (fun i => match i with ItMsg _ m => Some m | _ => None end) l.

Definition recv_of (u : umetrics) (t : nat) : N := default 0 (rm_recv (router_metrics u) !! t).

(* what routecore's Message::from_octets guarantees about the type octet of a frame it
   accepts (MessageType::Unimplemented(_) => Err): the premise that keeps the metrics index in range *)
Definition parse_types_ok (parse : list N -> option msg) : Prop :=
  forall fr m, parse fr = Some m -> frame_type fr < 7.
Definition um_wf (u : umetrics) : Prop :=
  match um_router u with Some r => length (rm_recv r) = n_types | None => True end.
