From stdpp Require Import gmap.
From Coq Require Import NArith Lia.
From RV Require Import Ingress.IngressModel Ingress.IngressProofs Rib.RibModel Bmp.BmpModel.

Local Open Scope N_scope.

Notation rank := phase_idx (only parsing).
Definition live (s : sm) : Prop := sm_phase s = PDump \/ sm_phase s = PUpd.

Lemma sm_step_live r rid s m : live s -> sm_step r rid s m = live_step r rid s m.
Proof. unfold sm_step. intros [-> | ->]; reflexivity. Qed.

(* ---------- the four sub-steps, characterised ---------- *)
Inductive up_spec (r : reg) (rid : N) (s : sm) (p : pph) (e : bool) : reg * sm * outcome -> Prop :=
| up_dup pe id r' : sm_peers s !! p = Some pe -> find_or_register peer_match r (peer_query rid p) = (id, r') ->
    up_spec r rid s p e (invalid r' s)
| up_new id r' : sm_peers s !! p = None -> find_or_register peer_match r (peer_query rid p) = (id, r') ->
    up_spec r rid s p e (r', MkSm (sm_phase s) (<[p := MkPeer e ∅ id]> (sm_peers s))
                               (set_gauges (sm_metrics s) (<[p := MkPeer e ∅ id]> (sm_peers s))), OOther).
Lemma peer_up_spec r rid s p e : up_spec r rid s p e (peer_up r rid s p e).
Proof.
  unfold peer_up. destruct (find_or_register peer_match r (peer_query rid p)) as [id r'] eqn:Ef.
  destruct (sm_peers s !! p) as [pe|] eqn:E; [eapply up_dup|eapply up_new]; eauto.
Qed.

Inductive down_spec (r : reg) (s : sm) (p : pph) : reg * sm * outcome -> Prop :=
| down_known pe : sm_peers s !! p = Some pe ->
    down_spec r s p (r, MkSm (sm_phase s) (delete p (sm_peers s)) (set_gauges (sm_metrics s) (delete p (sm_peers s))),
                     OUpdate (UWithdraw (pe_id pe) None))
| down_unknown : sm_peers s !! p = None -> down_spec r s p (invalid r s).
Lemma peer_down_spec r s p : down_spec r s p (peer_down r s p).
Proof. unfold peer_down. destruct (sm_peers s !! p) as [pe|] eqn:E; [apply down_known|apply down_unknown]; auto. Qed.

Inductive rm_spec (r : reg) (s : sm) (p : pph) (u : option upd) : reg * sm * outcome -> Prop :=
| rm_unknown : sm_peers s !! p = None ->
    rm_spec r s p u (invalid r (with_metrics s (inc_unknown (sm_metrics s))))
| rm_bad pe : sm_peers s !! p = Some pe -> u = None -> rm_spec r s p u (invalid r s)
| rm_last pe u' ps : sm_peers s !! p = Some pe -> u = Some u' -> sm_phase s = PDump -> is_Some (eor_in PDump u') ->
    rm_spec r s p u (r, MkSm PUpd ps (set_state (set_gauges (sm_metrics s) ps) PUpd), OTransition)
| rm_routes pe u' ps ps1 : sm_peers s !! p = Some pe -> u = Some u' ->
    rm_spec r s p u (r, MkSm (sm_phase s) ps (add_routes (set_gauges (set_gauges (sm_metrics s) ps1) ps) (n_ann u') (n_wd u')),
                     OUpdate (UBulk (payloads_of (pe_id pe) u'))).
Lemma route_monitoring_spec r s p u : rm_spec r s p u (route_monitoring r s p u).
Proof.
  unfold route_monitoring. destruct (sm_peers s !! p) as [pe|] eqn:E; [|apply rm_unknown; auto].
  destruct u as [u|]; [|eapply rm_bad; eauto]. cbv zeta.
  destruct (eor_in (sm_phase s) u) as [f|] eqn:He.
  - destruct (all_pending_empty _) eqn:Ha.
    + destruct (sm_phase s) eqn:Ep; try (rewrite <- Ep; eapply rm_routes; eauto; fail).
      eapply rm_last; eauto.
    + destruct (sm_phase s) eqn:Ep; rewrite <- Ep; eapply rm_routes; eauto.
  - destruct (sm_phase s) eqn:Ep; rewrite <- Ep; eapply rm_routes; eauto.
Qed.

Lemma terminate_spec r s :
  exists o, terminate r s = (r, MkSm PTerm ∅ (set_gauges (set_state (sm_metrics s) PTerm) ∅), o) /\
    ((o = OTransition /\ map (fun kv : pph * peer => pe_id kv.2) (map_to_list (sm_peers s)) = []) \/
     (exists ids, ids <> [] /\ o = OUpdate (UWithdrawBulk ids) /\
                  ids = map (fun kv : pph * peer => pe_id kv.2) (map_to_list (sm_peers s)))).
Proof.
  unfold terminate. cbv zeta. destruct (map _ (map_to_list (sm_peers s))) as [|i ids] eqn:E.
  - eexists; split; [reflexivity|left; auto].
  - eexists; split; [reflexivity|right]. exists (i :: ids). split; [discriminate|auto].
Qed.

(* ---------- lifecycle violations = Invalid outcomes ---------- *)
Definition violates (s : sm) (m : msg) : bool :=
  match sm_phase s with
  | PInit => match m with MInit => false | _ => true end     (* anything but Initiation first *)
  | PTerm => true                                            (* anything after Termination *)
  | _ => match m with
         | MPeerUp p _ => bool_decide (is_Some (sm_peers s !! p))      (* second Peer Up for an up peer *)
         | MPeerDown p => bool_decide (sm_peers s !! p = None)         (* Peer Down for a peer that is not up *)
         | MRoute p u => bool_decide (sm_peers s !! p = None)          (* Route Monitoring for a peer that is not up *)
                         || match u with None => true | Some _ => false end  (* or an UPDATE that does not parse *)
         | _ => false
         end
  end.

Lemma live_invalid_iff r rid s m : live s -> (live_step r rid s m).2 = OInvalid <-> violates s m = true.
Proof.
  intros Hl. unfold violates.
  assert (Hv : forall X (a b : X), match sm_phase s with PInit => a | PTerm => a | _ => b end = b)
    by (intros; destruct Hl as [-> | ->]; reflexivity).
  replace (match sm_phase s with PInit => match m with MInit => false | _ => true end | PTerm => true | _ => _ end)
    with (match m with
          | MPeerUp p _ => bool_decide (is_Some (sm_peers s !! p))
          | MPeerDown p => bool_decide (sm_peers s !! p = None)
          | MRoute p u => bool_decide (sm_peers s !! p = None) || match u with None => true | Some _ => false end
          | _ => false end) by (destruct Hl as [-> | ->]; reflexivity).
  destruct m as [| |p|p e|p|p u]; cbn [live_step].
  - cbn. split; congruence.
  - destruct (terminate_spec r s) as (o & -> & [[-> _]|(ids & _ & -> & _)]); cbn; split; congruence.
  - cbn. split; congruence.
  - destruct (peer_up_spec r rid s p e) as [pe id r' E _|id r' E _]; cbn.
    + rewrite bool_decide_true by eauto. tauto.
    + rewrite bool_decide_false by (rewrite E; intros [? ?]; congruence). split; congruence.
  - destruct (peer_down_spec r s p) as [pe E|E]; cbn.
    + rewrite bool_decide_false by congruence. split; congruence.
    + rewrite bool_decide_true by exact E. tauto.
  - destruct (route_monitoring_spec r s p u) as [E|pe E ->|pe u' ps E -> _ _|pe u' ps m0 E ->]; cbn.
    + rewrite bool_decide_true by exact E. tauto.
    + rewrite orb_true_r. tauto.
    + rewrite bool_decide_false by congruence. cbn. split; congruence.
    + rewrite bool_decide_false by congruence. cbn. split; congruence.
Qed.

Lemma step_invalid_iff r rid s m : (sm_step r rid s m).2 = OInvalid <-> violates s m = true.
Proof.
  destruct (sm_phase s) eqn:Ep.
  - unfold sm_step, violates. rewrite Ep. destruct m; cbn; split; congruence.
  - rewrite sm_step_live by (left; exact Ep). apply live_invalid_iff. left; exact Ep.
  - rewrite sm_step_live by (right; exact Ep). apply live_invalid_iff. right; exact Ep.
  - unfold sm_step, violates. rewrite Ep. cbn. tauto.
Qed.

(* an invalid message changes neither the phase nor the peer table *)
Lemma live_invalid_noop r rid s m :
  (live_step r rid s m).2 = OInvalid ->
  sm_phase (live_step r rid s m).1.2 = sm_phase s /\ sm_peers (live_step r rid s m).1.2 = sm_peers s.
Proof.
  destruct m as [| |p|p e|p|p u]; cbn [live_step]; try (cbn; auto; fail).
  - destruct (terminate_spec r s) as (o & -> & [[-> _]|(ids & _ & -> & _)]); cbn; discriminate.
  - destruct (peer_up_spec r rid s p e); cbn; [auto|discriminate].
  - destruct (peer_down_spec r s p); cbn; [discriminate|auto].
  - destruct (route_monitoring_spec r s p u); cbn; auto; discriminate.
Qed.

Lemma step_invalid_noop r rid s m :
  (sm_step r rid s m).2 = OInvalid ->
  sm_phase (sm_step r rid s m).1.2 = sm_phase s /\ sm_peers (sm_step r rid s m).1.2 = sm_peers s.
Proof.
  destruct (sm_phase s) eqn:Ep.
  - unfold sm_step. rewrite Ep. destruct m; cbn; try discriminate; auto.
  - rewrite sm_step_live by (left; exact Ep). rewrite <- Ep. apply live_invalid_noop.
  - rewrite sm_step_live by (right; exact Ep). rewrite <- Ep. apply live_invalid_noop.
  - unfold sm_step. rewrite Ep. cbn. auto.
Qed.

(* ---------- phases only move forward ---------- *)
Lemma live_phase_monotone r rid s m : live s -> rank (sm_phase s) <= rank (sm_phase (live_step r rid s m).1.2).
Proof.
  intros Hl. destruct m as [| |p|p e|p|p u]; cbn [live_step]; try (cbn; lia).
  - destruct (terminate_spec r s) as (o & -> & _). cbn. destruct Hl as [-> | ->]; cbn; lia.
  - destruct (peer_up_spec r rid s p e); cbn; lia.
  - destruct (peer_down_spec r s p); cbn; lia.
  - destruct (route_monitoring_spec r s p u) as [E|pe E ->|pe u' ps E -> Hp _|pe u' ps m0 E ->]; cbn; try lia.
    rewrite Hp. cbn. lia.
Qed.

Lemma step_phase_monotone r rid s m : rank (sm_phase s) <= rank (sm_phase (sm_step r rid s m).1.2).
Proof.
  destruct (sm_phase s) eqn:Ep.
  - unfold sm_step. rewrite Ep. destruct m; cbn; rewrite ?Ep; cbn; lia.
  - rewrite sm_step_live by (left; exact Ep). rewrite <- Ep. apply live_phase_monotone. left; exact Ep.
  - rewrite sm_step_live by (right; exact Ep). rewrite <- Ep. apply live_phase_monotone. right; exact Ep.
  - unfold sm_step. rewrite Ep. unfold invalid, with_metrics. cbn. rewrite Ep. cbn. lia.
Qed.

Lemma sm_run_cons r rid s m ms :
  sm_run r rid s (m :: ms) =
  let st := sm_step r rid s m in
  let rest := sm_run st.1.1 rid st.1.2 ms in (rest.1.1, rest.1.2, st.2 :: rest.2).
Proof.
  cbn [sm_run]. destruct (sm_step r rid s m) as [[r1 s1] o]. cbn.
  destruct (sm_run r1 rid s1 ms) as [[r2 s2] os]. reflexivity.
Qed.

Lemma run_phase_monotone ms : forall r rid s, rank (sm_phase s) <= rank (sm_phase (sm_run r rid s ms).1.2).
Proof.
  induction ms as [|m ms IH]; intros r rid s; [cbn; lia|].
  rewrite sm_run_cons. cbn.
  pose proof (step_phase_monotone r rid s m). pose proof (IH (sm_step r rid s m).1.1 rid (sm_step r rid s m).1.2). lia.
Qed.

(* phases along a run never go back: the phase after any prefix is below the phase after the whole *)
Lemma run_phase_prefix ms1 ms2 r rid s :
  rank (sm_phase (sm_run r rid s ms1).1.2) <= rank (sm_phase (sm_run r rid s (ms1 ++ ms2)).1.2).
Proof.
  revert r s. induction ms1 as [|m ms1 IH]; intros r s.
  - cbn [app]. apply run_phase_monotone.
  - rewrite <- app_comm_cons, !sm_run_cons. cbn. apply IH.
Qed.

(* ---------- what goes downstream ---------- *)
Definition id_table (s : sm) : gmap pph N := pe_id <$> sm_peers s.

Inductive effect := ENothing | ERoutes (ps : list payload) | EWithdraw (id : N) | EWithdrawAll (ids : list N).

Definition effect_of (o : outcome) : effect :=
  match o with
  | OUpdate (UBulk []) => ENothing
  | OUpdate (UBulk ps) => ERoutes ps
  | OUpdate (UWithdraw id _) => EWithdraw id
  | OUpdate (UWithdrawBulk ids) => EWithdrawAll ids
  | _ => ENothing
  end.

(* the downstream effect as a function of the message and the up set only *)
Definition effect_spec (t : gmap pph N) (m : msg) : effect :=
  match m with
  | MPeerDown p => match t !! p with Some id => EWithdraw id | None => ENothing end
  | MRoute p (Some u) =>
      match t !! p with
      | Some id => match payloads_of id u with [] => ENothing | ps => ERoutes ps end
      | None => ENothing
      end
  | MTerm => match map snd (map_to_list t) with [] => ENothing | ids => EWithdrawAll ids end
  | _ => ENothing
  end.

Lemma payloads_eor id u : is_Some (eor_in PDump u) -> payloads_of id u = [].
Proof.
  destruct u as [|af [|? ?] a wf [|? ?]|lax c ff [|? ?] a [|? ?]]; cbn; intros [? ?]; try congruence;
    rewrite ?orb_true_r in *; cbn in *; congruence.
Qed.

Lemma id_table_list s :
  map (fun kv : pph * peer => pe_id kv.2) (map_to_list (sm_peers s)) ≡ₚ map snd (map_to_list (id_table s)).
Proof.
  unfold id_table. rewrite map_to_list_fmap.
  induction (map_to_list (sm_peers s)) as [|[k v] l IH]; [reflexivity|]. cbn. apply Permutation_skip. exact IH.
Qed.

(* the order in which Termination lists the ids is HashMap order in the code: compared as multisets *)
Definition effect_eq (a b : effect) : Prop :=
  match a, b with EWithdrawAll x, EWithdrawAll y => x ≡ₚ y | _, _ => a = b end.
Lemma effect_eq_refl a : effect_eq a a. Proof. destruct a; cbn; reflexivity. Qed.
Lemma effect_eq_sym a b : effect_eq a b -> effect_eq b a.
Proof. destruct a, b; cbn; intros H; try congruence. symmetry; exact H. Qed.
Lemma effect_eq_trans a b c : effect_eq a b -> effect_eq b c -> effect_eq a c.
Proof. destruct a, b, c; cbn; intros H1 H2; try congruence; try discriminate. etransitivity; eassumption. Qed.

Lemma step_effect r rid s m : live s -> effect_eq (effect_of (sm_step r rid s m).2) (effect_spec (id_table s) m).
Proof.
  intros Hl. rewrite sm_step_live by exact Hl. unfold effect_spec.
  destruct m as [| |p|p e|p|p u]; cbn [live_step]; try apply effect_eq_refl.
  - pose proof (id_table_list s) as Hperm.
    destruct (terminate_spec r s) as (o & -> & [[-> E]|(ids & Hne & -> & Hids)]); cbn [snd effect_of].
    + rewrite E in Hperm. apply Permutation_nil_l in Hperm. rewrite <- Hperm. reflexivity.
    + rewrite <- Hids in Hperm. destruct (map snd (map_to_list (id_table s))) as [|i l] eqn:E.
      * apply Permutation_nil_r in Hperm. congruence.
      * destruct ids; [congruence|]. exact Hperm.
  - destruct (peer_up_spec r rid s p e); apply effect_eq_refl.
  - unfold id_table. rewrite lookup_fmap. destruct (peer_down_spec r s p) as [pe E|E]; rewrite E; apply effect_eq_refl.
  - unfold id_table. rewrite lookup_fmap.
    destruct (route_monitoring_spec r s p u) as [E|pe E ->|pe u' ps E -> _ He|pe u' ps m0 E ->]; rewrite ?E; cbn.
    + destruct u; reflexivity.
    + reflexivity.
    + rewrite (payloads_eor _ _ He). reflexivity.
    + destruct (payloads_of (pe_id pe) u'); reflexivity.
Qed.

(* two sessions with the same up set (and ids) send the same thing downstream for the same message *)
Corollary effect_depends_on_up_set r1 r2 rid1 rid2 s1 s2 m :
  live s1 -> live s2 -> id_table s1 = id_table s2 ->
  effect_eq (effect_of (sm_step r1 rid1 s1 m).2) (effect_of (sm_step r2 rid2 s2 m).2).
Proof.
  intros H1 H2 Ht. eapply effect_eq_trans; [apply step_effect, H1|].
  rewrite Ht. apply effect_eq_sym, step_effect, H2.
Qed.

(* routes are only ever taken from a peer that is up, under that peer's id *)
Lemma step_routes_from_up_peer r rid s m ps :
  (sm_step r rid s m).2 = OUpdate (UBulk ps) ->
  exists p u pe, m = MRoute p (Some u) /\ sm_peers s !! p = Some pe /\ ps = payloads_of (pe_id pe) u /\ live s.
Proof.
  destruct (sm_phase s) eqn:Ep.
  - unfold sm_step. rewrite Ep. destruct m; cbn; discriminate.
  - assert (Hl : live s) by (left; exact Ep). rewrite sm_step_live by exact Hl.
    destruct m as [| |p|p e|p|p u]; cbn [live_step]; try (cbn; discriminate).
    + destruct (terminate_spec r s) as (o & -> & [[-> _]|(ids & _ & -> & _)]); cbn; discriminate.
    + destruct (peer_up_spec r rid s p e); cbn; discriminate.
    + destruct (peer_down_spec r s p); cbn; discriminate.
    + destruct (route_monitoring_spec r s p u) as [E|pe E ->|pe u' ps' E -> _ He|pe u' ps' m0 E ->]; cbn; try discriminate.
      intros [= <-]. eauto 10.
  - assert (Hl : live s) by (right; exact Ep). rewrite sm_step_live by exact Hl.
    destruct m as [| |p|p e|p|p u]; cbn [live_step]; try (cbn; discriminate).
    + destruct (terminate_spec r s) as (o & -> & [[-> _]|(ids & _ & -> & _)]); cbn; discriminate.
    + destruct (peer_up_spec r rid s p e); cbn; discriminate.
    + destruct (peer_down_spec r s p); cbn; discriminate.
    + destruct (route_monitoring_spec r s p u) as [E|pe E ->|pe u' ps' E -> _ He|pe u' ps' m0 E ->]; cbn; try discriminate.
      intros [= <-]. eauto 10.
  - unfold sm_step. rewrite Ep. cbn. discriminate.
Qed.

Lemma payloads_of_mui id u p : p ∈ payloads_of id u -> k_mui (p_key p) = id.
Proof.
  destruct u as [f|af ann a wf wd|lax c ff ann a wd]; cbn; [intros H; inversion H| |];
  rewrite elem_of_app, !elem_of_list_fmap; intros [(x & -> & _)|(x & -> & _)]; reflexivity.
Qed.

(* a Peer Down withdraws exactly the id of that peer; Termination exactly the ids of the up peers *)
Lemma step_peer_down_withdraws r rid s p : live s ->
  (sm_step r rid s (MPeerDown p)).2 =
  match sm_peers s !! p with Some pe => OUpdate (UWithdraw (pe_id pe) None) | None => OInvalid end.
Proof.
  intros Hl. rewrite sm_step_live by exact Hl. cbn [live_step].
  destruct (peer_down_spec r s p) as [pe E|E]; rewrite E; reflexivity.
Qed.

(* ---------- metrics ---------- *)
Lemma gauges_ok_set ph ps m : gauges_ok (MkSm ph ps (set_gauges m ps)) = true.
Proof. unfold gauges_ok. cbn. rewrite !N.eqb_refl. reflexivity. Qed.

Lemma live_gauges_ok r rid s m : gauges_ok s = true -> gauges_ok (live_step r rid s m).1.2 = true.
Proof.
  intros H0. destruct m as [| |p|p e|p|p u]; cbn [live_step]; try exact H0.
  - destruct (terminate_spec r s) as (o & -> & _). apply gauges_ok_set.
  - destruct (peer_up_spec r rid s p e); [exact H0|apply gauges_ok_set].
  - destruct (peer_down_spec r s p); [apply gauges_ok_set|exact H0].
  - destruct (route_monitoring_spec r s p u); try exact H0; unfold gauges_ok; cbn; rewrite !N.eqb_refl; reflexivity.
Qed.

Lemma step_gauges_ok r rid s m : gauges_ok s = true -> gauges_ok (sm_step r rid s m).1.2 = true.
Proof.
  intros H0. destruct (sm_phase s) eqn:Ep.
  - unfold sm_step. rewrite Ep. destruct m; exact H0.
  - rewrite sm_step_live by (left; exact Ep). apply live_gauges_ok, H0.
  - rewrite sm_step_live by (right; exact Ep). apply live_gauges_ok, H0.
  - unfold sm_step. rewrite Ep. exact H0.
Qed.

Lemma gauges_ok_init : gauges_ok sm_init = true. Proof. reflexivity. Qed.

Lemma run_gauges_ok ms : forall r rid s, gauges_ok s = true -> gauges_ok (sm_run r rid s ms).1.2 = true.
Proof.
  induction ms as [|m ms IH]; intros r rid s H; [exact H|].
  rewrite sm_run_cons. cbn. apply IH, step_gauges_ok, H.
Qed.

(* counters: each one grows by exactly what the step's outcome says *)
Definition inval (o : outcome) : N := match o with OInvalid => 1 | _ => 0 end.
Definition anns_in (o : outcome) : N :=
  match o with OUpdate (UBulk ps) => N.of_nat (length (filter (fun p => p_active p = true) ps)) | _ => 0 end.
Definition wds_in (o : outcome) : N :=
  match o with OUpdate (UBulk ps) => N.of_nat (length (filter (fun p => p_active p = false) ps)) | _ => 0 end.

Lemma counts_wd_ann (W A : list payload) :
  Forall (fun p => p_active p = false) W -> Forall (fun p => p_active p = true) A ->
  length (filter (fun p => p_active p = true) (W ++ A)) = length A /\
  length (filter (fun p => p_active p = false) (W ++ A)) = length W.
Proof.
  intros HW HA. rewrite !filter_app, !app_length.
  assert (E1 : filter (fun p => p_active p = true) W = []).
  { clear HA. induction HW as [|x l Hx _ IH]; [reflexivity|]. rewrite filter_cons_False by (rewrite Hx; discriminate). exact IH. }
  assert (E2 : filter (fun p => p_active p = false) W = W).
  { clear HA E1. induction HW as [|x l Hx _ IH]; [reflexivity|]. rewrite filter_cons_True by exact Hx. f_equal. exact IH. }
  assert (E3 : filter (fun p => p_active p = true) A = A).
  { clear HW E1 E2. induction HA as [|x l Hx _ IH]; [reflexivity|]. rewrite filter_cons_True by exact Hx. f_equal. exact IH. }
  assert (E4 : filter (fun p => p_active p = false) A = []).
  { clear HW E1 E2 E3. induction HA as [|x l Hx _ IH]; [reflexivity|]. rewrite filter_cons_False by (rewrite Hx; discriminate). exact IH. }
  rewrite E1, E2, E3, E4. cbn. lia.
Qed.

Lemma payloads_counts id u :
  N.of_nat (length (filter (fun p => p_active p = true) (payloads_of id u))) = n_ann u /\
  N.of_nat (length (filter (fun p => p_active p = false) (payloads_of id u))) = n_wd u.
Proof.
  destruct u as [f|af ann a wf wd|lax c ff ann a wd]; cbn [payloads_of n_ann n_wd]; [split; reflexivity| |].
  - destruct (counts_wd_ann (map (fun p => MkPay (wf, p, id) false 0) wd) (map (fun p => MkPay (af, p, id) true a) ann)) as [-> ->];
      [apply Forall_forall; intros x Hx; apply elem_of_list_fmap in Hx as (y & -> & _); reflexivity..|].
    rewrite !map_length. auto.
  - destruct (counts_wd_ann (map (fun fp : N * N => MkPay (fp.1, fp.2, id) false 0) wd) (map (fun fp : N * N => MkPay (fp.1, fp.2, id) true a) ann)) as [-> ->];
      [apply Forall_forall; intros x Hx; apply elem_of_list_fmap in Hx as (y & -> & _); reflexivity..|].
    rewrite !map_length. auto.
Qed.

Definition counters_step (s : sm) (st : reg * sm * outcome) : Prop :=
  m_unprocessable (sm_metrics st.1.2) = m_unprocessable (sm_metrics s) + inval st.2 /\
  m_ann (sm_metrics st.1.2) = m_ann (sm_metrics s) + anns_in st.2 /\
  m_wd (sm_metrics st.1.2) = m_wd (sm_metrics s) + wds_in st.2 /\
  m_prefixes (sm_metrics st.1.2) = m_prefixes (sm_metrics s) + anns_in st.2.

Lemma live_counters r rid s m : counters_step s (live_step r rid s m).
Proof.
  unfold counters_step. destruct m as [| |p|p e|p|p u]; cbn [live_step]; try (cbn; lia).
  - destruct (terminate_spec r s) as (o & -> & [[-> _]|(ids & _ & -> & _)]); cbn; lia.
  - destruct (peer_up_spec r rid s p e); cbn; lia.
  - destruct (peer_down_spec r s p); cbn; lia.
  - destruct (route_monitoring_spec r s p u) as [E|pe E ->|pe u' ps E -> _ He|pe u' ps m0 E ->]; try (cbn; lia).
    cbn [fst snd sm_metrics]. unfold inval, anns_in, wds_in.
    destruct (payloads_counts (pe_id pe) u') as [-> ->]. cbn. lia.
Qed.

Lemma step_counters r rid s m : counters_step s (sm_step r rid s m).
Proof.
  destruct (sm_phase s) eqn:Ep.
  - unfold sm_step. rewrite Ep. unfold counters_step. destruct m; cbn; lia.
  - rewrite sm_step_live by (left; exact Ep). apply live_counters.
  - rewrite sm_step_live by (right; exact Ep). apply live_counters.
  - unfold sm_step. rewrite Ep. unfold counters_step. cbn. lia.
Qed.

Definition sumN (l : list N) : N := fold_right N.add 0 l.

(* every counter equals the number of matching events of the history *)
Lemma run_counters ms : forall r rid s,
  let res := sm_run r rid s ms in
  m_unprocessable (sm_metrics res.1.2) = m_unprocessable (sm_metrics s) + sumN (map inval res.2) /\
  m_ann (sm_metrics res.1.2) = m_ann (sm_metrics s) + sumN (map anns_in res.2) /\
  m_wd (sm_metrics res.1.2) = m_wd (sm_metrics s) + sumN (map wds_in res.2) /\
  m_prefixes (sm_metrics res.1.2) = m_prefixes (sm_metrics s) + sumN (map anns_in res.2).
Proof.
  induction ms as [|m ms IH]; intros r rid s; cbv zeta.
  - cbn. lia.
  - rewrite sm_run_cons. cbn [fst snd map sumN fold_right].
    destruct (step_counters r rid s m) as (A & B & C & D).
    destruct (IH (sm_step r rid s m).1.1 rid (sm_step r rid s m).1.2) as (A' & B' & C' & D'). cbv zeta in *.
    rewrite A', B', C', D', A, B, C, D. unfold sumN. lia.
Qed.

(* counters never decrease *)
Lemma step_counters_monotone r rid s m :
  let s' := (sm_step r rid s m).1.2 in
  m_unprocessable (sm_metrics s) <= m_unprocessable (sm_metrics s') /\
  m_ann (sm_metrics s) <= m_ann (sm_metrics s') /\ m_wd (sm_metrics s) <= m_wd (sm_metrics s') /\
  m_prefixes (sm_metrics s) <= m_prefixes (sm_metrics s').
Proof. cbv zeta. destruct (step_counters r rid s m) as (A & B & C & D). lia. Qed.

(* the exported state gauge follows the phase once the session is initiated *)
Definition state_ok (s : sm) : Prop := sm_phase s = PInit \/ m_state (sm_metrics s) = phase_idx (sm_phase s).

Lemma live_state_ok r rid s m : live s -> state_ok s -> state_ok (live_step r rid s m).1.2.
Proof.
  intros Hl [H|H]; [destruct Hl; congruence|]. unfold state_ok.
  destruct m as [| |p|p e|p|p u]; cbn [live_step]; try (cbn; right; exact H).
  - destruct (terminate_spec r s) as (o & -> & _). cbn. auto.
  - destruct (peer_up_spec r rid s p e); cbn; auto.
  - destruct (peer_down_spec r s p); cbn; auto.
  - destruct (route_monitoring_spec r s p u); cbn; auto.
Qed.

Lemma step_state_ok r rid s m : state_ok s -> state_ok (sm_step r rid s m).1.2.
Proof.
  intros H. destruct (sm_phase s) eqn:Ep.
  - unfold sm_step. rewrite Ep. unfold state_ok. destruct m; cbn; rewrite ?Ep; auto.
  - rewrite sm_step_live by (left; exact Ep). apply live_state_ok; [left; exact Ep|exact H].
  - rewrite sm_step_live by (right; exact Ep). apply live_state_ok; [right; exact Ep|exact H].
  - unfold sm_step. rewrite Ep. unfold state_ok in *. cbn. rewrite Ep in *. exact H.
Qed.

Lemma run_state_ok ms : forall r rid s, state_ok s -> state_ok (sm_run r rid s ms).1.2.
Proof.
  induction ms as [|m ms IH]; intros r rid s H; [exact H|].
  rewrite sm_run_cons. cbn. apply IH, step_state_ok, H.
Qed.
