(* The recent-parse-errors buffer of a BMP router and what the router's HTTP
   page shows of it:
     src/units/bmp_tcp_in/state_machine/metrics.rs   ParseErrorsRingBuffer::{push, get}
     src/units/bmp_tcp_in/state_machine/machine.rs   BmpState::process_msg (every InvalidMessage result is
                                                     reported through bgp_update_parse_hard_fail -> push)
     src/units/bmp_tcp_in/http/router_info/response.rs  build_response_body (`parse_errors.get()`, start then end)
   Definitions only; proofs are in BmpPageProofs.v.

   The buffer is a Vec and an index, exactly as in the code: the index is where
   the next entry goes; `get` cuts the Vec at the index once it is full. A cut
   past the end of the Vec is a panic (`split_at`: "mid > len"): [ring_get]
   returns None there - that it never does is a theorem, not a definition. *)
From stdpp Require Import gmap.
From Coq Require Import NArith.
From RV Require Import Ingress.IngressModel Rib.RibModel Bmp.BmpModel Bmp.BmpStreamModel.

(* MAX_RECENT_PARSE_ERRORS *)
Definition ring_max : nat := 10.

Record ring (A : Type) := MkRing { rg_buf : list A; rg_next : nat }.
Arguments MkRing {A} _ _.
Arguments rg_buf {A} _.
Arguments rg_next {A} _.

Definition ring_new {A} : ring A := MkRing [] 0.

(* push: `if next_idx + 1 > len { resize(next_idx + 1, default) }; buf[next_idx] = e;`
   then the index moves on, back to 0 from MAX - 1 (or anything above) *)
Definition ring_push {A} (d : A) (r : ring A) (e : A) : ring A :=
  let i := rg_next r in
  let buf := if Nat.ltb (length (rg_buf r)) (i + 1)
             then rg_buf r ++ replicate (i + 1 - length (rg_buf r)) d
             else rg_buf r in
  MkRing (<[ i := e ]> buf) (if Nat.leb (ring_max - 1) i then 0 else S i).

(* get: `if len < MAX { (buf, []) } else { let (start, end) = buf.split_at(next_idx); (end, start) }` *)
Definition ring_get {A} (r : ring A) : option (list A * list A) :=
  if Nat.ltb (length (rg_buf r)) ring_max then Some (rg_buf r, [])
  else if Nat.leb (rg_next r) (length (rg_buf r))
       then Some (drop (rg_next r) (rg_buf r), take (rg_next r) (rg_buf r))
       else None.                      (* slice::split_at panics: mid > len *)

Definition ring_of {A} (d : A) (h : list A) : ring A := fold_left (ring_push d) h ring_new.

(* the last n entries of a history, oldest first *)
Definition last_n {A} (n : nat) (l : list A) : list A := drop (length l - n) l.

(* build_response_body walks `start.iter().chain(end.iter())` of what get() returned *)
Definition ring_shown {A} (r : ring A) : option (list A) :=
  match ring_get r with Some (a, b) => Some (a ++ b) | None => None end.

(* ---------- on the connection model ---------- *)
(* The parse errors of a session, named by arrival number 1, 2, ...: one per
   message the state machine answered with InvalidMessage (BmpModel.invalid
   counts them in m_unprocessable, as bgp_update_parse_hard_fail does). *)
Definition errs_of (s : sess) : list N :=
  map N.of_nat (seq 1 (N.to_nat (m_unprocessable (sm_metrics (s_sm s))))).

(* the "recent parse errors" part of the router's page: None = the request handler panics *)
Definition page_errors (s : sess) : option (list N) := ring_shown (ring_of 0%N (errs_of s)).

(* An HTTP client asks for the router's page at a moment when the connection has
   handed out exactly the first k read events and is being asked for more: that is
   the run over those k events whose reader then stays silent (THang); the page is
   served from the session state of that moment.
     None            the session ended within those k events (nothing is asked)
     Some None       the request handler panics
     Some (Some l)   a page, listing the errors l *)
Definition page_at (parse : list N -> option msg) (rid : N) (evs : list ev) (k : nat) (s0 : sess) : option (option (list N)) :=
  match run_from parse true THang rid (take k evs) s0 with
  | Done EndTerm _ s _ => Some (page_errors s)
  | _ => None
  end.
