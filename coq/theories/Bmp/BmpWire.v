(* BMP on the wire (RFC 7854, RFC 8671 O flag, RFC 9069 Loc-RIB peer type): an encoder and a
   decoder for the messages a monitored router sends, over lists of octets, in the conventions
   of Bgp/BgpModel.v. Definitions only; proofs are in BmpWireProofs.v; what the session state
   machine makes of a decoded message is Bmp/BmpWireAbs.v.

   The decoder is written from the RFC and then ALIGNED WITH THE CODE wherever routecore 0.5.1
   (bmp/message.rs, `Message::from_octets` = the per-type `check` functions; bgp/message/open.rs
   `OpenMessage::parse`; bgp/message/notification.rs `parse`) accepts more than the RFC's
   grammar - every such place keeps the octets the code does not look at as an opaque field of
   the message, so that encode/decode stay inverse to each other on everything the code accepts:
     - Statistics Report: `count` TLVs are walked, whatever follows them is not looked at   [trail]
     - Peer Up: after the two OPEN PDUs at most ONE information TLV is walked (`if`, not
       `while`), the rest is not looked at                                                  [info, raw]
     - Peer Down: reason 1 / 3 - nothing, or something that starts with a NOTIFICATION PDU;
       reason 2 - two octets; any other reason octet (0, 4, 5, 6 of RFC 9069, unassigned)
       is let through; whatever follows is not looked at                                    [data, raw]
     - Route Monitoring / Route Mirroring: only the two headers are checked; the UPDATE is
       parsed when the state machine asks for it (BmpWireAbs.route_pdu)                     [data, raw]
     - OPEN PDU inside a Peer Up: the marker and the lengths are checked, the BGP message
       type octet is not                                                                    [o_type]
   The frame handed to the decoder is what io.rs `bmp_read` cuts off the stream: exactly
   `length field` octets (dec_stream below is that loop). *)
From Coq Require Import List NArith Bool.
From RV Require Import Bgp.BgpModel.
Import ListNotations.
Local Open Scope N_scope.

(* ---------- numbers ---------- *)
Definition enc_u32 (n : N) : list N := [n / 16777216; (n / 65536) mod 256; (n / 256) mod 256; n mod 256].
Definition u32 (a b c d : N) : N := ((a * 256 + b) * 256 + c) * 256 + d.

(* ---------- per-peer header (42 octets) ---------- *)
Record wpph := MkWpph {
  wp_type : N;            (* 0 global, 1 RD, 2 local, 3 Loc-RIB instance; routecore refuses > 3 *)
  wp_flags : N;           (* V L A O and four reserved bits *)
  wp_dist : list N;       (* 8 octets *)
  wp_addr : list N;       (* 16 octets; an IPv4 address sits in the last four *)
  wp_as : N;              (* 32 bits *)
  wp_id : list N;         (* 4 octets *)
  wp_sec : N; wp_usec : N (* timestamp *) }.

Definition enc_pph (p : wpph) : list N :=
  wp_type p :: wp_flags p :: wp_dist p ++ wp_addr p ++ enc_u32 (wp_as p) ++ wp_id p
  ++ enc_u32 (wp_sec p) ++ enc_u32 (wp_usec p).

Definition dec_pph (b : list N) : option (wpph * list N) :=
  match b with
  | ty :: fl :: r0 =>
      if ty <=? 3 then
        match take_n 8 r0 with
        | Some (d, r1) =>
            match take_n 16 r1 with
            | Some (a, a3 :: a2 :: a1 :: a0 :: r2) =>
                match take_n 4 r2 with
                | Some (id, s3 :: s2 :: s1 :: s0 :: u3 :: u2 :: u1 :: u0 :: rest) =>
                    Some (MkWpph ty fl d a (u32 a3 a2 a1 a0) id (u32 s3 s2 s1 s0) (u32 u3 u2 u1 u0), rest)
                | _ => None
                end
            | _ => None
            end
        | None => None
        end
      else None
  | _ => None
  end.

Definition pph_wf (p : wpph) : bool :=
  (wp_type p <=? 3) && byte_ok (wp_flags p)
  && (lenN (wp_dist p) =? 8) && bytes_ok (wp_dist p)
  && (lenN (wp_addr p) =? 16) && bytes_ok (wp_addr p)
  && (wp_as p <? 4294967296)
  && (lenN (wp_id p) =? 4) && bytes_ok (wp_id p)
  && (wp_sec p <? 4294967296) && (wp_usec p <? 4294967296).

(* ---------- TLVs (information, statistics, termination) ---------- *)
Record tlv := MkTlv { t_type : N; t_val : list N }.

Definition enc_tlv (t : tlv) : list N := enc_u16 (t_type t) ++ enc_u16 (lenN (t_val t)) ++ t_val t.
Definition enc_tlvs (l : list tlv) : list N := flat_map enc_tlv l.

Definition tlv_wf (t : tlv) : bool := (t_type t <? 65536) && (lenN (t_val t) <? 65536) && bytes_ok (t_val t).

(* a region that holds nothing but TLVs; fuel = number of octets is enough *)
Fixpoint dec_tlvs (fuel : nat) (b : list N) : option (list tlv) :=
  match b with
  | [] => Some []
  | th :: tl :: lh :: ll :: r =>
      match fuel with
      | O => None
      | S fuel' =>
          match take_n (u16 lh ll) r with
          | Some (v, r') =>
              match dec_tlvs fuel' r' with
              | Some l => Some (MkTlv (u16 th tl) v :: l)
              | None => None
              end
          | None => None
          end
      end
  | _ => None
  end.

(* exactly n TLVs, then whatever (Statistics Report: `for _ in 0..count`) *)
Fixpoint dec_ntlvs (fuel : nat) (n : N) (b : list N) : option (list tlv * list N) :=
  if n =? 0 then Some ([], b) else
  match fuel with
  | O => None
  | S fuel' =>
      match b with
      | th :: tl :: lh :: ll :: r =>
          match take_n (u16 lh ll) r with
          | Some (v, r') =>
              match dec_ntlvs fuel' (N.pred n) r' with
              | Some (l, rest) => Some (MkTlv (u16 th tl) v :: l, rest)
              | None => None
              end
          | None => None
          end
      | _ => None
      end
  end.

(* ---------- the BGP OPEN PDU of a Peer Up ---------- *)
Record cap := MkCap { c_code : N; c_val : list N }.
Inductive oparam :=
| OCaps (cs : list cap)          (* optional parameter 2: capabilities *)
| ORaw (ty : N) (v : list N).    (* any other optional parameter *)
Record open := MkOpen {
  o_type : N;       (* BGP message type octet: 1 for an OPEN - routecore does not look *)
  o_ver : N; o_as : N; o_hold : N;
  o_id : list N;    (* 4 octets *)
  o_params : list oparam }.

Definition enc_cap (c : cap) : list N := c_code c :: lenN (c_val c) :: c_val c.
Definition enc_caps (cs : list cap) : list N := flat_map enc_cap cs.
Definition enc_param (p : oparam) : list N :=
  match p with
  | OCaps cs => 2 :: lenN (enc_caps cs) :: enc_caps cs
  | ORaw ty v => ty :: lenN v :: v
  end.
Definition enc_params (ps : list oparam) : list N := flat_map enc_param ps.
Definition enc_open (o : open) : list N :=
  let ps := enc_params (o_params o) in
  marker ++ enc_u16 (29 + lenN ps) ++ o_type o :: o_ver o :: enc_u16 (o_as o) ++ enc_u16 (o_hold o)
  ++ o_id o ++ lenN ps :: ps.

Fixpoint dec_caps (fuel : nat) (b : list N) : option (list cap) :=
  match b with
  | [] => Some []
  | code :: len :: r =>
      match fuel with
      | O => None
      | S fuel' =>
          match take_n len r with
          | Some (v, r') =>
              match dec_caps fuel' r' with
              | Some l => Some (MkCap code v :: l)
              | None => None
              end
          | None => None
          end
      end
  | _ => None
  end.

Fixpoint dec_params (fuel : nat) (b : list N) : option (list oparam) :=
  match b with
  | [] => Some []
  | ty :: len :: r =>
      match fuel with
      | O => None
      | S fuel' =>
          match take_n len r with
          | Some (v, r') =>
              let p := if ty =? 2
                       then match dec_caps (length v) v with Some cs => Some (OCaps cs) | None => None end
                       else Some (ORaw ty v) in
              match p, dec_params fuel' r' with
              | Some p, Some l => Some (p :: l)
              | _, _ => None
              end
          | None => None
          end
      end
  | _ => None
  end.

Definition dec_open (b : list N) : option (open * list N) :=
  match take_n 16 b with
  | Some (mk, lh :: ll :: ty :: ver :: ah :: al :: hh :: hl :: r1) =>
      match take_n 4 r1 with
      | Some (id, pl :: r2) =>
          match take_n pl r2 with
          | Some (ps, rest) =>
              if list_eqb mk marker && (u16 lh ll =? 29 + pl) then
                match dec_params (length ps) ps with
                | Some params => Some (MkOpen ty ver (u16 ah al) (u16 hh hl) id params, rest)
                | None => None
                end
              else None
          | None => None
          end
      | _ => None
      end
  | _ => None
  end.

Definition cap_wf (c : cap) : bool := byte_ok (c_code c) && (lenN (c_val c) <? 256) && bytes_ok (c_val c).
Definition param_wf (p : oparam) : bool :=
  match p with
  | OCaps cs => forallb cap_wf cs && (lenN (enc_caps cs) <? 256)
  | ORaw ty v => byte_ok ty && negb (ty =? 2) && (lenN v <? 256) && bytes_ok v
  end.
Definition open_wf (o : open) : bool :=
  byte_ok (o_type o) && byte_ok (o_ver o) && (o_as o <? 65536) && (o_hold o <? 65536)
  && (lenN (o_id o) =? 4) && bytes_ok (o_id o)
  && forallb param_wf (o_params o) && (lenN (enc_params (o_params o)) <? 256).

(* the capabilities of an OPEN, in order, across all capability parameters (OpenMessage::capabilities) *)
Definition open_caps (o : open) : list cap :=
  flat_map (fun p => match p with OCaps cs => cs | ORaw _ _ => [] end) (o_params o).
Definition has_cap (code : N) (o : open) : bool := existsb (fun c => c_code c =? code) (open_caps o).

(* ---------- what routecore asks of the variable tails ---------- *)
(* Peer Up: `if parser.remaining() > 0 { type u16; len u16; advance(len) }` *)
Definition info_ok (info : list N) : bool :=
  match info with
  | [] => true
  | _ :: _ :: lh :: ll :: r => u16 lh ll <=? lenN r
  | _ => false
  end.
(* NotificationMessage::parse: marker, length, type, then code and subcode are read, then `length` octets are taken *)
Definition notif_ok (d : list N) : bool :=
  match take_n 16 d with
  | Some (mk, lh :: ll :: _ :: _ :: _ :: _) => list_eqb mk marker && (u16 lh ll <=? lenN d)
  | _ => false
  end.
Definition down_data_ok (reason : N) (d : list N) : bool :=
  if (reason =? 1) || (reason =? 3) then match d with [] => true | _ => notif_ok d end
  else if reason =? 2 then 2 <=? lenN d
  else true.

(* ---------- messages ---------- *)
Inductive wmsg :=
| WRoute (p : wpph) (data : list N)                       (* 0: one BGP UPDATE PDU (and whatever follows it) *)
| WStats (p : wpph) (st : list tlv) (trail : list N)      (* 1: count = number of TLVs *)
| WPeerDown (p : wpph) (reason : N) (data : list N)       (* 2 *)
| WPeerUp (p : wpph) (laddr : list N) (lport rport : N) (sent rcvd : open) (info : list N)   (* 3 *)
| WInit (ts : list tlv)                                   (* 4 *)
| WTerm (ts : list tlv)                                   (* 5 *)
| WMirror (p : wpph) (data : list N).                     (* 6 *)

Definition msg_code (m : wmsg) : N :=
  match m with
  | WRoute _ _ => 0 | WStats _ _ _ => 1 | WPeerDown _ _ _ => 2 | WPeerUp _ _ _ _ _ _ _ => 3
  | WInit _ => 4 | WTerm _ => 5 | WMirror _ _ => 6
  end.

Definition enc_body (m : wmsg) : list N :=
  match m with
  | WRoute p d => enc_pph p ++ d
  | WStats p st tr => enc_pph p ++ enc_u32 (lenN st) ++ enc_tlvs st ++ tr
  | WPeerDown p r d => enc_pph p ++ r :: d
  | WPeerUp p la lp rp s r i => enc_pph p ++ la ++ enc_u16 lp ++ enc_u16 rp ++ enc_open s ++ enc_open r ++ i
  | WInit ts => enc_tlvs ts
  | WTerm ts => enc_tlvs ts
  | WMirror p d => enc_pph p ++ d
  end.

(* common header: version 3, length of the whole message, type *)
Definition encode (m : wmsg) : list N :=
  let body := enc_body m in 3 :: enc_u32 (6 + lenN body) ++ msg_code m :: body.

Definition dec_body (ty : N) (body : list N) : option wmsg :=
  match ty with
  | 4 => match dec_tlvs (length body) body with Some ts => Some (WInit ts) | None => None end
  | 5 => match dec_tlvs (length body) body with Some ts => Some (WTerm ts) | None => None end
  | _ =>
      match dec_pph body with
      | Some (p, r) =>
          match ty with
          | 0 => Some (WRoute p r)
          | 6 => Some (WMirror p r)
          | 1 => match r with
                 | c3 :: c2 :: c1 :: c0 :: r1 =>
                     match dec_ntlvs (length r1) (u32 c3 c2 c1 c0) r1 with
                     | Some (st, tr) => Some (WStats p st tr)
                     | None => None
                     end
                 | _ => None
                 end
          | 2 => match r with
                 | reason :: d => if down_data_ok reason d then Some (WPeerDown p reason d) else None
                 | [] => None
                 end
          | 3 => match take_n 16 r with
                 | Some (la, ph :: pl :: qh :: ql :: r1) =>
                     match dec_open r1 with
                     | Some (s, r2) =>
                         match dec_open r2 with
                         | Some (rc, i) => if info_ok i then Some (WPeerUp p la (u16 ph pl) (u16 qh ql) s rc i) else None
                         | None => None
                         end
                     | None => None
                     end
                 | _ => None
                 end
          | _ => None
          end
      | None => None
      end
  end.

(* one frame, as bmp_read hands it to the parser *)
Definition decode (b : list N) : option wmsg :=
  match b with
  | ver :: l3 :: l2 :: l1 :: l0 :: ty :: body =>
      if (ver =? 3) && (u32 l3 l2 l1 l0 =? lenN b) && bytes_ok b then dec_body ty body else None
  | _ => None
  end.

(* ---------- well-formedness: exactly the decoder's checks ---------- *)
Definition wf (m : wmsg) : bool :=
  (6 + lenN (enc_body m) <? 4294967296) &&
  match m with
  | WRoute p d => pph_wf p && bytes_ok d
  | WMirror p d => pph_wf p && bytes_ok d
  | WStats p st tr => pph_wf p && forallb tlv_wf st && (lenN st <? 4294967296) && bytes_ok tr
  | WPeerDown p r d => pph_wf p && byte_ok r && bytes_ok d && down_data_ok r d
  | WPeerUp p la lp rp s r i =>
      pph_wf p && (lenN la =? 16) && bytes_ok la && (lp <? 65536) && (rp <? 65536)
      && open_wf s && open_wf r && bytes_ok i && info_ok i
  | WInit ts => forallb tlv_wf ts
  | WTerm ts => forallb tlv_wf ts
  end.

(* ---------- the stream: io.rs bmp_read, then the parser, message after message ---------- *)
Inductive sitem :=
| SMsg (m : wmsg)
| SBad (frame : list N).     (* a frame the parser refuses: an io error of kind Other, the read loop goes on *)
Inductive send :=
| SEnd                       (* the octets end at a message boundary *)
| SShort                     (* length field < 5: InvalidData, the connection is given up *)
| SCut.                      (* the octets end inside a message *)

Fixpoint dec_stream (fuel : nat) (b : list N) : list sitem * send :=
  match fuel with
  | O => ([], SCut)
  | S fuel' =>
      match b with
      | [] => ([], SEnd)
      | _ :: l3 :: l2 :: l1 :: l0 :: _ =>
          let len := u32 l3 l2 l1 l0 in
          if len <? 5 then ([], SShort)
          else if lenN b <? len then ([], SCut)      (* compared as binary numbers: the declared length may be 2^32 - 1 *)
          else match take_n len b with
               | Some (fr, rest) =>
                   let '(items, e) := dec_stream fuel' rest in
                   ((match decode fr with Some m => SMsg m | None => SBad fr end) :: items, e)
               | None => ([], SCut)
               end
      | _ => ([], SCut)
      end
  end.
Definition stream (b : list N) : list sitem * send := dec_stream (S (length b)) b.

(* ---------- information TLVs of an Initiation message as the state machine reads them ---------- *)
(* states/initiating.rs: `information_tlvs().find(|t| t.typ() == SysName)` - the first one;
   2 = sysName, 1 = sysDescr, 0 = string *)
Fixpoint first_tlv (ty : N) (l : list tlv) : option (list N) :=
  match l with
  | [] => None
  | t :: r => if t_type t =? ty then Some (t_val t) else first_tlv ty r
  end.
Definition sys_name (m : wmsg) : option (list N) := match m with WInit ts => first_tlv 2 ts | _ => None end.
Definition sys_descr (m : wmsg) : option (list N) := match m with WInit ts => first_tlv 1 ts | _ => None end.

(* ---------- the capabilities routecore's OPEN parser takes apart (correspondence domain) ---------- *)
(* OpenMessage::parse reads the VALUE of every capability code it knows by that code's own grammar,
   whatever the capability's length octet says, and the iterator the state machine uses later
   (`capabilities()`) unwraps the same parse on the parameter alone: an untidy capability is a
   panic there (known findings of C06). [tidy] is the class on which the generic reading above
   and routecore's agree: the codes below in their RFC form, and codes routecore does not know. *)
Definition cap_known (code : N) : bool :=
  existsb (N.eqb code) [0; 1; 2; 3; 5; 6; 8; 9; 64; 65; 66; 67; 68; 69; 70; 71; 73; 75; 76; 128; 130; 131].
Definition cap_tidy (c : cap) : bool :=
  let n := lenN (c_val c) in
  match c_code c with
  | 1 => n =? 4                          (* multiprotocol *)
  | 2 | 6 | 70 => n =? 0                 (* route refresh, extended message, enhanced route refresh *)
  | 9 => n =? 1                          (* role *)
  | 64 => (2 <=? n) && ((n - 2) mod 4 =? 0)   (* graceful restart *)
  | 65 => n =? 4                         (* four-octet AS *)
  | code => negb (cap_known code)
  end.
Definition open_tidy (o : open) : bool := forallb cap_tidy (open_caps o).
Definition tidy (m : wmsg) : bool :=
  match m with WPeerUp _ _ _ _ s r _ => open_tidy s && open_tidy r | _ => true end.
