(* The label sets of the BMP unit's per-router series are read back exactly by a
   consumer of the exposition format, whenever the two configured strings (unit
   name, router id template) are free of quote, backslash and newline. *)
From Coq Require Import NArith List Bool String Ascii Lia.
From RV Require Import Http.EscapeModel Http.EscapeProofs Http.PagesProofs Bmp.BmpUnitTextModel.
Import ListNotations.
Local Open Scope N_scope.

Lemma msg_type_names_safe : forallb prom_value_ok msg_type_names = true.
Proof. vm_compute. reflexivity. Qed.

Lemma msg_type_name_safe code : prom_value_ok (nth code msg_type_names []) = true.
Proof. do 7 (destruct code as [|code]; [vm_compute; reflexivity|]). destruct code; reflexivity. Qed.

Lemma unit_router_labels_ok unit tpl id :
  prom_value_ok unit = true -> prom_value_ok tpl = true ->
  forallb label_ok (unit_router_labels unit tpl id) = true.
Proof.
  intros Hu Ht. unfold unit_router_labels. cbn [forallb]. unfold label_ok. cbn [fst snd].
  rewrite Hu, (router_label_safe tpl [] id Ht). vm_compute. reflexivity.
Qed.

Lemma unit_received_labels_ok unit tpl id code :
  prom_value_ok unit = true -> prom_value_ok tpl = true ->
  forallb label_ok (unit_received_labels unit tpl id code) = true.
Proof.
  intros Hu Ht. unfold unit_received_labels. rewrite forallb_app, (unit_router_labels_ok unit tpl id Hu Ht).
  cbn [forallb]. unfold label_ok. cbn [fst snd]. rewrite (msg_type_name_safe code). vm_compute. reflexivity.
Qed.

(* every label set of a router's series is well formed and parses back to itself *)
Theorem unit_series_roundtrip unit tpl id ls :
  prom_value_ok unit = true -> prom_value_ok tpl = true ->
  In ls (unit_router_series unit tpl id) ->
  forallb label_ok ls = true /\ prom_parse (prom_labels ls) = Some ls.
Proof.
  intros Hu Ht Hin.
  assert (Hok : forallb label_ok ls = true).
  { unfold unit_router_series in Hin. apply in_app_or in Hin as [Hin|Hin].
    - apply in_map_iff in Hin as (code & <- & _). apply unit_received_labels_ok; assumption.
    - apply repeat_spec in Hin as ->. apply unit_router_labels_ok; assumption. }
  split; [exact Hok|].
  destruct ls as [|nv ls]; [|apply prom_labels_roundtrip, Hok].
  exfalso. unfold unit_router_series in Hin. apply in_app_or in Hin as [Hin|Hin].
  - apply in_map_iff in Hin as (code & E & _). discriminate.
  - apply repeat_spec in Hin. discriminate.
Qed.

(* distinct type codes give distinct series: no duplicate series within a router *)
Lemma msg_type_names_nodup : NoDup msg_type_names.
Proof.
  repeat (constructor; [cbn; intros H; repeat (destruct H as [H|H]; [discriminate|]); exact H|]). constructor.
Qed.
