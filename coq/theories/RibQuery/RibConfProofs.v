(* Proofs about RibConfModel: what the file says is what the unit enforces. *)
From stdpp Require Import gmap.
From Coq Require Import NArith ZArith List Bool Lia.
From RV Require Import Rib.RibModel PathConf.PathConfModel RibQuery.RibQueryModel RibQuery.RibQueryProofs RibQuery.RibConfModel.
Import ListNotations.
Local Open Scope N_scope.

(* ---------------------------------------------------------------- one key *)
Lemma rc_u8_spec dflt v n :
  rc_u8 dflt v = Some n <->
  match v with
  | None => n = dflt
  | Some (VInt z) => (0 <= z <= 255)%Z /\ Z.of_N n = z
  | Some VOther => False
  end.
Proof.
  destruct v as [[z|]|]; cbn [rc_u8].
  - destruct (0 <=? z)%Z eqn:E0; destruct (z <=? 255)%Z eqn:E1; cbn [andb];
      try apply Z.leb_le in E0; try apply Z.leb_le in E1;
      try apply Z.leb_gt in E0; try apply Z.leb_gt in E1.
    + split.
      * intros H. injection H as <-. split; [lia|]. apply Z2N.id. exact E0.
      * intros [_ H]. f_equal. rewrite <- H. apply N2Z.id.
    + split; [discriminate|]. intros [H _]. lia.
    + split; [discriminate|]. intros [H _]. lia.
    + split; [discriminate|]. intros [H _]. lia.
  - split; [discriminate|tauto].
  - split; [intros H; injection H as <-; reflexivity|intros ->; reflexivity].
Qed.

Lemma rc_u8_accepts dflt v : rc_u8 dflt v <> None <-> rc_val_ok v.
Proof.
  destruct v as [[z|]|]; cbn [rc_u8 rc_val_ok].
  - destruct (0 <=? z)%Z eqn:E0; destruct (z <=? 255)%Z eqn:E1; cbn [andb];
      try apply Z.leb_le in E0; try apply Z.leb_le in E1;
      try apply Z.leb_gt in E0; try apply Z.leb_gt in E1;
      (split; [intros H; try lia; exfalso; apply H; reflexivity | intros H; try discriminate; lia]).
  - tauto.
  - split; [tauto|discriminate].
Qed.

(* ---------------------------------------------------------------- the table *)
(* which files are accepted: it depends on each key alone *)
Theorem more_limits_accepts m :
  rc_more_limits m <> None <-> rc_val_ok (ms_v4 m) /\ rc_val_ok (ms_v6 m).
Proof.
  unfold rc_more_limits. rewrite <- (rc_u8_accepts rc_default_v4), <- (rc_u8_accepts rc_default_v6).
  destruct (rc_u8 rc_default_v4 (ms_v4 m)), (rc_u8 rc_default_v6 (ms_v6 m)); split;
    try (intros [H1 H2]); try (intros H); try split; try discriminate; try congruence; tauto.
Qed.

(* THE KEY SEMANTICS: in an accepted table, the limit of a family is the key's value if
   the key is set and the documented default if it is not - whatever the other key says,
   whether it is set or not, and whatever else is in the table *)
Theorem config_key_semantics m l :
  rc_more_limits m = Some l ->
  forall v6,
    match rc_stated v6 m with
    | None => rq_limit l v6 = rc_default_limit v6
    | Some (VInt z) => Z.of_N (rq_limit l v6) = z
    | Some VOther => False
    end.
Proof.
  unfold rc_more_limits. intros H.
  destruct (rc_u8 rc_default_v4 (ms_v4 m)) as [a|] eqn:Ea; [|discriminate].
  destruct (rc_u8 rc_default_v6 (ms_v6 m)) as [b|] eqn:Eb; [|discriminate].
  injection H as <-. apply rc_u8_spec in Ea. apply rc_u8_spec in Eb.
  intros [|]; cbn [rc_stated rq_limit lim_v4 lim_v6 rc_default_limit].
  - destruct (ms_v6 m) as [[z|]|]; [exact (proj2 Eb)|exact Eb|exact Eb].
  - destruct (ms_v4 m) as [[z|]|]; [exact (proj2 Ea)|exact Ea|exact Ea].
Qed.

(* independence: two accepted tables that agree on a family's key (both unset, or the same
   value) give that family the same limit, however they differ elsewhere *)
Theorem config_keys_independent m m' l l' v6 :
  rc_more_limits m = Some l -> rc_more_limits m' = Some l' ->
  rc_stated v6 m = rc_stated v6 m' -> rq_limit l v6 = rq_limit l' v6.
Proof.
  intros H H' E. pose proof (config_key_semantics m l H v6) as K.
  pose proof (config_key_semantics m' l' H' v6) as K'. rewrite <- E in K'.
  destruct (rc_stated v6 m) as [[z|]|]; [|contradiction|congruence].
  apply N2Z.inj. congruence.
Qed.

(* absent table, table with an empty more_specifics: both documented defaults *)
Theorem config_defaults unknown :
  rc_limits QlAbsent = Some (MkLim 8 19) /\
  rc_limits (QlMore (MkMore None None unknown)) = Some (MkLim 8 19) /\
  rc_limits QlEmpty = None.
Proof. repeat split. Qed.

(* the whole `query_limits` key, all presence patterns at once *)
Theorem config_limits_spec q l :
  rc_limits q = Some l <->
  match q with
  | QlAbsent => l = MkLim 8 19
  | QlEmpty => False
  | QlMore m =>
    rc_val_ok (ms_v4 m) /\ rc_val_ok (ms_v6 m) /\
    lim_v4 l = match ms_v4 m with Some (VInt z) => Z.to_N z | _ => 8 end /\
    lim_v6 l = match ms_v6 m with Some (VInt z) => Z.to_N z | _ => 19 end
  end.
Proof.
  destruct q as [| |m]; cbn [rc_limits].
  - split; [intros H; injection H as <-; reflexivity|intros ->; reflexivity].
  - split; [discriminate|tauto].
  - split.
    + intros H. pose proof (proj1 (more_limits_accepts m)) as A. rewrite H in A.
      destruct (A ltac:(discriminate)) as [A4 A6]. split; [exact A4|]. split; [exact A6|].
      pose proof (config_key_semantics m l H false) as K4. pose proof (config_key_semantics m l H true) as K6.
      cbn [rc_stated rq_limit rc_default_limit] in K4, K6.
      split.
      * destruct (ms_v4 m) as [[z|]|]; [rewrite <- K4; symmetry; apply N2Z.id|contradiction|exact K4].
      * destruct (ms_v6 m) as [[z|]|]; [rewrite <- K6; symmetry; apply N2Z.id|contradiction|exact K6].
    + intros (A4 & A6 & E4 & E6). unfold rc_more_limits.
      destruct l as [a b]. cbn [lim_v4 lim_v6] in E4, E6. subst a b.
      destruct (ms_v4 m) as [[z4|]|]; cbn [rc_val_ok] in A4; try contradiction;
        destruct (ms_v6 m) as [[z6|]|]; cbn [rc_val_ok] in A6; try contradiction; cbn [rc_u8];
        repeat match goal with
               | H : (0 <= ?z <= 255)%Z |- context [(0 <=? ?z)%Z] =>
                 rewrite (proj2 (Z.leb_le 0 z) (proj1 H)), (proj2 (Z.leb_le z 255) (proj2 H)); cbn [andb]
               end; reflexivity.
Qed.

(* ---------------------------------------------------------------- the path *)
Lemma rc_drop_slashes_nf p : match rc_drop_slashes p with [] => True | c :: _ => c <> 47 end.
Proof.
  induction p as [|c r IH]; cbn [rc_drop_slashes]; [exact I|].
  destruct (c =? 47) eqn:E; [exact IH|]. apply N.eqb_neq in E. exact E.
Qed.

(* normalising is idempotent, ends in exactly one '/', and does not see trailing '/'s *)
Theorem norm_path_spec p :
  rc_norm_path (rc_norm_path p) = rc_norm_path p /\
  rc_norm_path (p ++ [47]) = rc_norm_path p /\
  exists q, rc_norm_path p = q ++ [47] /\ (forall q', q <> q' ++ [47]).
Proof.
  unfold rc_norm_path. split; [|split].
  - rewrite rev_app_distr. cbn [rev app rc_drop_slashes N.eqb Pos.eqb]. rewrite rev_involutive.
    pose proof (rc_drop_slashes_nf (rev p)) as H.
    destruct (rc_drop_slashes (rev p)) as [|c r] eqn:E; [reflexivity|].
    cbn [rc_drop_slashes]. apply N.eqb_neq in H. rewrite H. reflexivity.
  - rewrite rev_app_distr. reflexivity.
  - eexists. split; [reflexivity|]. intros q' E.
    pose proof (rc_drop_slashes_nf (rev p)) as H. apply (f_equal (@rev N)) in E.
    rewrite rev_involutive, rev_app_distr in E. cbn [rev app] in E. rewrite E in H. apply H. reflexivity.
Qed.

(* ---------------------------------------------------------------- the unit over time *)
Lemma rc_run_app answer tbl reg xs : forall s ys,
  rc_run_with answer tbl reg s (xs ++ ys) =
  rc_run_with answer tbl reg s xs ++
  rc_run_with answer tbl reg (fold_left (fun s o => fst (rc_step_with answer tbl reg s o)) xs s) ys.
Proof.
  induction xs as [|o xs IH]; intros s ys; [reflexivity|].
  cbn [app rc_run_with fold_left].
  destruct (rc_step_with answer tbl reg s o) as [s' [r|]] eqn:E; cbn [fst]; rewrite IH; reflexivity.
Qed.

(* a refused file changes nothing and is not answered: the unit goes on as it was *)
Theorem refused_load_is_noop answer tbl reg s u :
  rc_limits (u_ql u) = None -> rc_step_with answer tbl reg s (KLoad u) = (s, None).
Proof. intros H. destruct s as [k|]; cbn [rc_step_with]; rewrite H; reflexivity. Qed.

(* an accepted file: the unit runs with the file's limits - at the file's path if this is
   the start, at the path it already answers at otherwise; the RIB content is kept *)
Theorem accepted_load_sets_limits answer tbl reg s u l :
  rc_limits (u_ql u) = Some l ->
  exists k', rc_step_with answer tbl reg s (KLoad u) = (Some k', None) /\
    st_lim (k_st k') = l /\
    match s with
    | None => k_path k' = rc_path_of u /\ st_rib (k_st k') = rib_empty
    | Some k => k_path k' = k_path k /\ st_rib (k_st k') = st_rib (k_st k)
    end.
Proof.
  intros H. destruct s as [k|]; cbn [rc_step_with]; rewrite H; eexists; (split; [reflexivity|]); cbn; tauto.
Qed.

(* REFINEMENT: a running unit is RibQueryModel's unit on the lowered history - accepted files
   are its OLimits, refused files and requests below other paths are invisible to it *)
Theorem run_refines answer tbl reg h : forall k,
  rc_hits (rc_run_with answer tbl reg (Some k) h) =
  rq_run_with answer tbl reg (k_st k) (rc_lower (k_path k) h).
Proof.
  induction h as [|o h IH]; intros k; [reflexivity|].
  unfold rc_lower. cbn [flat_map rc_run_with]. fold (rc_lower (k_path k) h).
  destruct o as [u|u|base rq]; cbn [rc_step_with rc_lower_op].
  - destruct (rc_limits (u_ql u)) as [l|]; cbn [app rq_run_with rq_step_with fst].
    + rewrite IH. reflexivity.
    + apply IH.
  - cbn [app rq_run_with rq_step_with fst]. rewrite IH. reflexivity.
  - destruct (pc_bytes_eqb base (k_path k)); cbn [app rq_run_with rq_step_with snd option_map].
    + cbn [rc_hits flat_map app]. fold (rc_hits (rc_run_with answer tbl reg (Some k) h)).
      rewrite IH. destruct k as [p [l r]]. reflexivity.
    + cbn [rc_hits flat_map app]. fold (rc_hits (rc_run_with answer tbl reg (Some k) h)). apply IH.
Qed.

(* the first accepted file starts the unit; before it nothing answers *)
Theorem start_refines answer tbl reg u l h :
  rc_limits (u_ql u) = Some l ->
  rc_hits (rc_run_with answer tbl reg None (KLoad u :: h)) =
  rq_run_with answer tbl reg (MkSt l rib_empty) (rc_lower (rc_path_of u) h).
Proof.
  intros H. cbn [rc_run_with rc_step_with]. rewrite H. apply (run_refines answer tbl reg h (MkK (rc_path_of u) (MkSt l rib_empty))).
Qed.

Lemma pc_bytes_eqb_refl a : pc_bytes_eqb a a = true.
Proof. induction a as [|x a IH]; [reflexivity|]. cbn [pc_bytes_eqb]. rewrite N.eqb_refl. exact IH. Qed.

(* WHAT A CLIENT SEES: right after a file was loaded (start-up: s = None; reload: s = a
   running unit), a moreSpecifics request for a prefix of a family whose key the file leaves
   unset is refused iff the prefix is shorter than the documented default (/8, /19); if the file
   sets the key to z, iff it is shorter than /z.  Whatever the other key says. *)
Theorem config_decides tbl reg s u m rq q inc :
  u_ql u = QlMore m -> rc_more_limits m <> None ->
  rq_prefix_of rq = Some q ->
  rq_parse_include (rq_params (rq_raw rq)) = Some inc -> i_more inc = true ->
  let base := match s with None => rc_path_of u | Some k => k_path k end in
  let bound := match rc_stated (rq_v6 rq) m with Some (VInt z) => z | _ => Z.of_N (rc_default_limit (rq_v6 rq)) end in
  let resp := rc_run tbl reg s [KLoad u; KRequest base rq] in
  ((Z.of_N (rq_len q) < bound)%Z -> resp = [KResp RBad]) /\
  ((bound <= Z.of_N (rq_len q))%Z -> exists r, resp = [KResp r] /\
     r = rq_handle (MkLim 0 0) (match s with None => rib_empty | Some k => st_rib (k_st k) end) tbl reg rq).
Proof.
  intros Hq Hacc Hp Hinc Hm base bound resp.
  destruct (rc_more_limits m) as [l|] eqn:El; [clear Hacc|contradiction Hacc; reflexivity].
  assert (Hb : bound = Z.of_N (rq_limit l (rq_v6 rq))).
  { subst bound. pose proof (config_key_semantics m l El (rq_v6 rq)) as K.
    destruct (rc_stated (rq_v6 rq) m) as [[z|]|]; [symmetry; exact K|contradiction|rewrite K; reflexivity]. }
  assert (Hl : rc_limits (u_ql u) = Some l) by (rewrite Hq; exact El).
  assert (Hresp : resp = [KResp (rq_handle l (match s with None => rib_empty | Some k => st_rib (k_st k) end) tbl reg rq)]).
  { subst resp base. unfold rc_run. destruct s as [k|]; cbn [rc_run_with rc_step_with]; rewrite Hl;
      cbn [rc_run_with rc_step_with k_path k_st]; rewrite pc_bytes_eqb_refl; reflexivity. }
  rewrite Hresp, Hb. split.
  - intros Hlt. do 2 f_equal.
    assert (Hn : rq_len q < rq_limit l (rq_v6 rq)) by lia.
    exact (proj1 (limit_refuses l _ tbl reg rq q inc Hp Hinc Hm Hn)).
  - intros Hge. eexists. split; [reflexivity|].
    assert (Hn : rq_limit l (rq_v6 rq) <= rq_len q) by lia.
    unfold rq_handle, rq_handle_with. rewrite Hp, (limit_only_shorter l _ _ _ Hn). reflexivity.
Qed.

(* ---------------------------------------------------------------- a concrete history *)
(* start-up with only the IPv6 key in the file (32): the IPv4 limit is the documented /8 -
   moreSpecifics of 0.0.0.0/0 and 10.0.0.0/7 refused, of 10.0.0.0/8 answered, of 2001:db8::/31
   refused; a reload with only the IPv4 key (16): IPv6 back to /19 - 2001::/16 refused,
   10.0.0.0/8 refused now; a reload the deserialiser refuses (`[query_limits]` without
   more_specifics; a limit of 256) changes nothing; the unit keeps answering at its first path *)
Definition w_conf_rq (v6 : bool) (len : N) : rq_request :=
  MkRequest v6 (repeat false (if v6 then 128 else 32)) len (Some w_raw_more).

Lemma config_history_example :
  let only6 := MkUnit (QlMore (MkMore None (Some (VInt 32)) false)) None in
  let only4 := MkUnit (QlMore (MkMore (Some (VInt 16)) None true)) (Some [47; 120; 47]) in
  let empty := MkUnit QlEmpty None in
  let big := MkUnit (QlMore (MkMore (Some (VInt 256)) None false)) None in
  let p := rc_default_path in
  let a := RJson (MkAns [] None (Some [])) in
  rc_run w_attrs w_reg None
    [KRequest p (w_conf_rq false 0); KLoad empty; KLoad only6;
     KRequest p (w_conf_rq false 0); KRequest p (w_conf_rq false 7); KRequest p (w_conf_rq false 8);
     KRequest p (w_conf_rq true 31); KRequest p (w_conf_rq true 32);
     KLoad only4;
     KRequest p (w_conf_rq true 16); KRequest p (w_conf_rq true 19); KRequest p (w_conf_rq false 8); KRequest p (w_conf_rq false 16);
     KLoad empty; KLoad big;
     KRequest p (w_conf_rq false 15); KRequest p (w_conf_rq false 16); KRequest [47; 120; 47] (w_conf_rq false 16)]
  = [KDown; KResp RBad; KResp RBad; KResp a; KResp RBad; KResp a;
     KResp RBad; KResp a; KResp RBad; KResp a;
     KResp RBad; KResp a; KNoUnit].
Proof. vm_compute. reflexivity. Qed.
