(* Proofs about RibQueryModel (property C11). *)
From stdpp Require Import gmap.
From Coq Require Import NArith Lia List Bool.
From RV Require Import Rib.RibModel Rib.RibProofs PathConf.PathConfModel PathConf.PathConfProofs RibQuery.RibQueryModel.
Import ListNotations.
Local Open Scope N_scope.

(* ---------------------------------------------------------------- prefixes *)
Lemma rq_bits_code_pos bs : forall acc, rq_bits_pos (rq_code_pos acc bs) = rq_bits_pos acc ++ bs.
Proof.
  induction bs as [|b bs IH]; intros acc; cbn [rq_code_pos].
  - rewrite app_nil_r. reflexivity.
  - rewrite IH. destruct b; cbn [rq_bits_pos]; rewrite <- app_assoc; reflexivity.
Qed.

Lemma rq_bits_code bs : rq_bits (rq_code bs) = bs.
Proof. unfold rq_bits, rq_code. rewrite rq_bits_code_pos. reflexivity. Qed.

Lemma rq_code_inj a b : rq_code a = rq_code b -> a = b.
Proof. intros H. rewrite <- (rq_bits_code a), <- (rq_bits_code b), H. reflexivity. Qed.

Lemma rq_covers_spec p : forall q, rq_covers p q = true <-> exists k, q = p ++ k.
Proof.
  induction p as [|a p IH]; intros q; cbn [rq_covers].
  - split; [intros _; exists q; reflexivity|reflexivity].
  - destruct q as [|b q].
    + split; [discriminate|intros [k Hk]; discriminate].
    + rewrite andb_true_iff, Bool.eqb_true_iff, IH. split.
      * intros [-> [k ->]]. exists k. reflexivity.
      * intros [k Hk]. cbn in Hk. injection Hk as -> ->. split; [reflexivity|exists k; reflexivity].
Qed.

Lemma rq_pfx_eqb_spec p : forall q, rq_pfx_eqb p q = true <-> p = q.
Proof.
  induction p as [|a p IH]; intros [|b q]; cbn [rq_pfx_eqb]; try (split; [discriminate|discriminate]); [tauto|].
  rewrite andb_true_iff, Bool.eqb_true_iff, IH. split; [intros [-> ->]; reflexivity|intros [= -> ->]; tauto].
Qed.

Lemma rq_strictly_covers_spec p q :
  rq_strictly_covers p q = true <-> exists k, k <> [] /\ q = p ++ k.
Proof.
  unfold rq_strictly_covers. rewrite andb_true_iff, negb_true_iff, rq_covers_spec. split.
  - intros [[k ->] Hne]. exists k. split; [|reflexivity]. intros ->. rewrite app_nil_r in Hne.
    assert (rq_pfx_eqb p p = true) by (apply rq_pfx_eqb_spec; reflexivity). congruence.
  - intros [k [Hk ->]]. split; [exists k; reflexivity|].
    destruct (rq_pfx_eqb p (p ++ k)) eqn:E; [|reflexivity].
    apply rq_pfx_eqb_spec in E. rewrite <- (app_nil_r p) in E at 1. apply app_inv_head in E. congruence.
Qed.

Lemma rq_covers_specs p q :
  (rq_covers p q = true <-> exists k, q = p ++ k) /\
  (rq_strictly_covers p q = true <-> exists k, k <> [] /\ q = p ++ k).
Proof. split; [apply rq_covers_spec|apply rq_strictly_covers_spec]. Qed.

Lemma rq_covers_firstn n : forall q p, rq_covers q p = true -> rq_covers (firstn n q) p = true.
Proof.
  induction n as [|n IH]; intros q p H; [reflexivity|].
  destruct q as [|a q]; [reflexivity|]. destruct p as [|b p]; [discriminate|].
  cbn [firstn rq_covers] in *. apply andb_true_iff in H as [H1 H2]. rewrite H1, (IH _ _ H2). reflexivity.
Qed.

Lemma rq_strictly_covers_covers q p : rq_strictly_covers q p = true -> rq_covers q p = true.
Proof. unfold rq_strictly_covers. intros H. apply andb_true_iff in H as [H _]. exact H. Qed.

(* ---------------------------------------------------------------- the filter *)
Lemma rq_match_as_path_spec actual : forall wanted,
  rq_match_as_path actual wanted = true <-> actual = map HAsn wanted.
Proof.
  induction actual as [|h actual IH]; intros [|w wanted]; cbn [rq_match_as_path map].
  - tauto.
  - split; discriminate.
  - destruct h; split; discriminate.
  - destruct h as [a|].
    + rewrite andb_true_iff, N.eqb_eq, IH. split; [intros [-> ->]; reflexivity|intros [= -> ->]; tauto].
    + split; discriminate.
Qed.

(* the AS path filter looks at the whole path, however it is cut into segments: it matches
   iff every segment is an AS_SEQUENCE and their concatenation is the wanted list *)
Lemma rq_hops_seqs ls : rq_hops (map SegSeq ls) = map HAsn (concat ls).
Proof.
  unfold rq_hops. induction ls as [|l ls IH]; [reflexivity|].
  cbn [map flat_map concat]. rewrite IH, map_app. reflexivity.
Qed.

Lemma rq_match_as_path_segments segs : forall wanted,
  rq_match_as_path (rq_hops segs) wanted = true <-> exists ls, segs = map SegSeq ls /\ concat ls = wanted.
Proof.
  intros wanted. rewrite rq_match_as_path_spec. split.
  - revert wanted. induction segs as [|sg segs IH]; intros wanted H.
    + exists []. destruct wanted; [split; reflexivity|discriminate].
    + destruct sg as [l|]; unfold rq_hops in H; cbn [flat_map] in H; fold (rq_hops segs) in H.
      * symmetry in H. apply map_eq_app in H as (w1 & w2 & -> & H1 & H2).
        symmetry in H2. apply IH in H2 as (ls & -> & <-).
        exists (l :: ls). cbn [map concat]. split; [reflexivity|]. f_equal.
        clear -H1. revert l H1. induction w1 as [|a w1 IHw]; intros [|b l] H1; try discriminate; [reflexivity|].
        cbn [map] in H1. injection H1 as -> H1. f_equal. apply IHw. exact H1.
      * destruct wanted; discriminate.
  - intros (ls & -> & <-). apply rq_hops_seqs.
Qed.

(* ---- the community filter *)
Lemma rq_ckind_eqb_spec a b : rq_ckind_eqb a b = true <-> a = b.
Proof. destruct a, b; cbn; split; congruence. Qed.

Lemma rq_comm_eqb_spec (a b : rq_comm) : rq_comm_eqb a b = true <-> a = b.
Proof.
  destruct a as [ka va], b as [kb vb]. unfold rq_comm_eqb. cbn [fst snd].
  rewrite andb_true_iff, rq_ckind_eqb_spec, N.eqb_eq. split; [intros [-> ->]; reflexivity|intros [= -> ->]; tauto].
Qed.

(* the communities of a route = the union over its community-carrying attributes *)
Lemma rq_route_comms_in l (c : rq_comm) :
  In c (rq_route_comms l) <-> exists vs, In (fst c, vs) l /\ In (snd c) vs.
Proof.
  unfold rq_route_comms, rq_attr_comms. rewrite in_flat_map. split.
  - intros ([k vs] & Ha & Hc). cbn [fst snd] in Hc. apply in_map_iff in Hc as (v & <- & Hv).
    exists vs. cbn [fst snd]. tauto.
  - intros (vs & Ha & Hv). exists (fst c, vs). split; [exact Ha|]. cbn [fst snd].
    apply in_map_iff. exists (snd c). split; [destruct c; reflexivity|exact Hv].
Qed.

Lemma rq_route_comms_app l1 l2 : rq_route_comms (l1 ++ l2) = rq_route_comms l1 ++ rq_route_comms l2.
Proof. unfold rq_route_comms. apply flat_map_app. Qed.

(* the code's walk over the attributes decides membership in that union *)
Lemma rq_match_community_spec cattrs c :
  rq_match_community cattrs c = true <-> In c (rq_route_comms cattrs).
Proof.
  unfold rq_match_community. rewrite existsb_exists, rq_route_comms_in. split.
  - intros ([k vs] & Ha & Hx). cbn [fst snd] in Hx. apply existsb_exists in Hx as (v & Hv & He).
    apply rq_comm_eqb_spec in He. subst c. exists vs. cbn [fst snd]. tauto.
  - intros (vs & Ha & Hv). exists (fst c, vs). split; [exact Ha|]. cbn [fst snd].
    apply existsb_exists. exists (snd c). split; [exact Hv|]. apply rq_comm_eqb_spec. destruct c; reflexivity.
Qed.

Lemma rq_match_community_union cattrs c :
  rq_match_community cattrs c = true <-> exists vs, In (fst c, vs) cattrs /\ In (snd c) vs.
Proof. rewrite rq_match_community_spec. apply rq_route_comms_in. Qed.

(* no attribute ends the walk: whatever stands before or behind an attribute (other
   community-carrying attributes included), its members are seen *)
Lemma rq_match_community_app l1 l2 c :
  rq_match_community (l1 ++ l2) c = rq_match_community l1 c || rq_match_community l2 c.
Proof. unfold rq_match_community. apply existsb_app. Qed.

Lemma rq_match_community_everywhere pre k vs post v :
  In v vs -> rq_match_community (pre ++ (k, vs) :: post) (k, v) = true.
Proof.
  intros Hv. apply rq_match_community_union. exists vs. cbn [fst snd]. split; [|exact Hv].
  apply in_or_app. right. left. reflexivity.
Qed.

(* the truth value depends on the SET of communities only: not on the attribute a
   community lives in relative to the others, not on the order of the attributes, not on
   the order or multiplicity of the members *)
Lemma rq_match_community_set l l' c :
  (forall x, In x (rq_route_comms l) <-> In x (rq_route_comms l')) ->
  rq_match_community l c = rq_match_community l' c.
Proof.
  intros H. apply eq_true_iff_eq. rewrite !rq_match_community_spec. apply H.
Qed.

Lemma rq_match_community_perm l l' c :
  Permutation l l' -> rq_match_community l c = rq_match_community l' c.
Proof.
  intros H. apply rq_match_community_set. intros x. rewrite !rq_route_comms_in.
  split; intros (vs & Ha & Hv); exists vs; (split; [|exact Hv]).
  - eapply Permutation_in; eauto.
  - eapply Permutation_in; [apply Permutation_sym|]; eauto.
Qed.

Lemma rq_match_community_no_early_stop l1 l2 c pre k vs post v :
  rq_match_community (l1 ++ l2) c = rq_match_community l1 c || rq_match_community l2 c /\
  (In v vs -> rq_match_community (pre ++ (k, vs) :: post) (k, v) = true).
Proof. split; [apply rq_match_community_app|apply rq_match_community_everywhere]. Qed.

Lemma rq_match_community_order_irrelevant l l' c :
  (Permutation l l' -> rq_match_community l c = rq_match_community l' c) /\
  ((forall x, In x (rq_route_comms l) <-> In x (rq_route_comms l')) -> rq_match_community l c = rq_match_community l' c).
Proof. split; [apply rq_match_community_perm|apply rq_match_community_set]. Qed.

(* a route with COMMUNITIES [NO_EXPORT; 65000:100], LARGE_COMMUNITY [65000:1:2] and
   EXTENDED COMMUNITIES [rt:65000:100], in this and in another order: the filter text of a
   member of each attribute selects it, a community it does not carry (or the same octets
   under another kind) does not *)
Definition w_cattrs : list rq_cattr :=
  [(CStd, [4294967041; 4259840100]); (CLarge, [(65000 * 4294967296 + 1) * 4294967296 + 2]); (CExt, [rq_ext_as2 2 65000 100])].
Lemma community_example :
  let sel (cattrs : list rq_cattr) (txt : list N) :=
    match rq_parse_community txt with
    | Some c => Some (rq_pass (MkFilters OpAny [FCommunity c] []) (MkAttrs [] cattrs) None)
    | None => None
    end in
  let texts := [[110;111;95;101;120;112;111;114;116] (* "no_export" *); [54;53;48;48;48;58;49;48;48] (* "65000:100" *);
                [54;53;48;48;48;58;49;58;50] (* "65000:1:2" *); [114;116;58;54;53;48;48;48;58;49;48;48] (* "rt:65000:100" *)] in
  map (sel w_cattrs) texts = [Some true; Some true; Some true; Some true] /\
  map (sel (rev w_cattrs)) texts = [Some true; Some true; Some true; Some true] /\
  sel w_cattrs [54;53;48;48;48;58;49;58;51] (* "65000:1:3" *) = Some false /\
  sel w_cattrs [114;111;58;54;53;48;48;48;58;49;48;48] (* "ro:65000:100" *) = Some false /\
  sel w_cattrs [48;120;70;68;69;56;48;48;54;52] (* "0xFDE80064" = 65000:100 *) = Some true /\
  sel [(CExt, [4259840100])] [54;53;48;48;48;58;49;48;48] (* "65000:100" *) = Some false.
Proof. vm_compute. repeat split; reflexivity. Qed.

(* a community of another kind never matches, whatever its octets *)
Lemma rq_match_community_kind l c :
  rq_match_community l c = true -> exists vs, In (fst c, vs) l.
Proof. rewrite rq_match_community_union. intros (vs & H & _). eauto. Qed.

(* well-known communities: the name (any case, with or without '_'), the AS:tag form and
   the hexadecimal form denote the same community; the other three kinds by example *)
Lemma community_spellings :
  rq_parse_community [78;79;95;69;88;80;79;82;84] (* "NO_EXPORT" *) = Some (CStd, 4294967041) /\
  rq_parse_community [110;111;101;120;112;111;114;116] (* "noexport" *) = Some (CStd, 4294967041) /\
  rq_parse_community [54;53;53;51;53;58;54;53;50;56;49] (* "65535:65281" *) = Some (CStd, 4294967041) /\
  rq_parse_community [48;120;70;70;70;70;70;70;48;49] (* "0xFFFFFF01" *) = Some (CStd, 4294967041) /\
  rq_parse_community [66;76;65;67;75;72;79;76;69] (* "BLACKHOLE" *) = Some (CStd, 4294902426) /\
  rq_parse_community [54;53;53;51;53;58;54;54;54] (* "65535:666" *) = Some (CStd, 4294902426) /\
  rq_parse_community [54;53;48;48;48;58;49;58;50] (* "65000:1:2" *) = Some (CLarge, (65000 * 4294967296 + 1) * 4294967296 + 2) /\
  rq_parse_community [114;116;58;54;53;48;48;48;58;49;48;48] (* "rt:65000:100" *) = Some (CExt, rq_ext_as2 2 65000 100) /\
  rq_parse_community [114;111;58;52;50;48;48;48;48;48;48;48;49;58;55] (* "ro:4200000001:7" *) = Some (CExt, rq_ext_as4 3 4200000001 7) /\
  rq_parse_community [48;120;48;48;48;50;70;68;69;56;48;48;48;48;48;48;54;52] (* "0x0002FDE800000064" *) = Some (CExt, rq_ext_as2 2 65000 100).
Proof. vm_compute. repeat split; reflexivity. Qed.

Lemma rq_match_peer_as_spec info a : rq_match_peer_as info a = true <-> info = Some (Some a).
Proof.
  destruct info as [[x|]|]; cbn [rq_match_peer_as]; [|split; discriminate|split; discriminate].
  rewrite N.eqb_eq. split; [intros ->; reflexivity|intros [= ->]; reflexivity].
Qed.

(* "any of" / "all of" a filter list *)
Definition rq_quant (op : rq_fop) (P : rq_fkind -> Prop) (l : list rq_fkind) : Prop :=
  match op with
  | OpAny => exists k, In k l /\ P k
  | OpAll => forall k, In k l -> P k
  end.

Lemma rq_is_nil_spec {A} (l : list A) : rq_is_nil l = true <-> l = [].
Proof. destruct l; cbn; split; congruence. Qed.

(* the truth table of select / discard x any / all *)
Lemma rq_pass_spec f at_ info :
  rq_pass f at_ info = true <->
  (f_selects f = [] \/ rq_quant (f_op f) (fun k => rq_matches at_ info k = true) (f_selects f)) /\
  (f_discards f = [] \/ ~ rq_quant (f_op f) (fun k => rq_matches at_ info k = true) (f_discards f)).
Proof.
  unfold rq_pass.
  destruct (rq_is_nil (f_selects f)) eqn:Es; destruct (rq_is_nil (f_discards f)) eqn:Ed;
    cbn [andb orb].
  - apply rq_is_nil_spec in Es. apply rq_is_nil_spec in Ed. tauto.
  - apply rq_is_nil_spec in Es.
    assert (Hd : f_discards f <> []) by (intros H; apply rq_is_nil_spec in H; congruence).
    destruct (f_op f); cbn [rq_quant]; rewrite negb_true_iff.
    + rewrite <- not_true_iff_false, existsb_exists. tauto.
    + rewrite <- not_true_iff_false, forallb_forall. tauto.
  - apply rq_is_nil_spec in Ed.
    assert (Hs : f_selects f <> []) by (intros H; apply rq_is_nil_spec in H; congruence).
    destruct (f_op f); cbn [rq_quant]; rewrite andb_true_r.
    + rewrite existsb_exists. tauto.
    + rewrite forallb_forall. tauto.
  - assert (Hd : f_discards f <> []) by (intros H; apply rq_is_nil_spec in H; congruence).
    assert (Hs : f_selects f <> []) by (intros H; apply rq_is_nil_spec in H; congruence).
    destruct (f_op f); cbn [rq_quant]; rewrite andb_true_iff, negb_true_iff, <- not_true_iff_false.
    + rewrite !existsb_exists. tauto.
    + rewrite !forallb_forall. tauto.
Qed.

(* select[community]=c keeps exactly the routes that carry c in ANY of their community
   attributes, discard[community]=c exactly the others - for either filter_op *)
Lemma community_select_discard op c at_ info :
  (rq_pass (MkFilters op [FCommunity c] []) at_ info = true <-> In c (rq_route_comms (pa_cattrs at_))) /\
  (rq_pass (MkFilters op [] [FCommunity c]) at_ info = true <-> ~ In c (rq_route_comms (pa_cattrs at_))).
Proof.
  rewrite <- rq_match_community_spec.
  unfold rq_pass. cbn [f_selects f_discards f_op rq_is_nil andb orb existsb forallb rq_matches].
  destruct op; rewrite ?orb_false_r, ?andb_true_r; (split; [tauto|]);
    rewrite negb_true_iff, not_true_iff_false; tauto.
Qed.

(* ---------------------------------------------------------------- selections from the store *)
Definition rq_stored (r : rib) (fam : N) (e : rq_entry) : Prop :=
  rib_lookup r (fam, e_pfx e, e_mui e) = Some (e_active e, e_attrs e).

Lemma elem_of_rq_select r fam sel e :
  e ∈ rq_select r fam sel <-> rq_stored r fam e /\ sel (rq_bits (e_pfx e)) = true.
Proof.
  unfold rq_select, rq_stored. rewrite elem_of_list_omap. split.
  - intros ([k rc] & Hin & Hx). cbv zeta in Hx. cbn [fst] in Hx.
    destruct (bool_decide (k_fam k = fam)) eqn:Hb; cbn [andb] in Hx; [|discriminate].
    destruct (sel (rq_bits (k_pfx k))) eqn:Hs; [|discriminate].
    apply bool_decide_eq_true in Hb.
    destruct (rib_lookup r k) as [[s a]|] eqn:El; [|discriminate].
    injection Hx as <-. cbn [e_pfx e_mui e_active e_attrs].
    destruct k as [[f p] m]. unfold k_fam, k_pfx, k_mui in *. cbn in *. subst f. tauto.
  - intros [Hl Hs]. destruct (rib_lookup_some _ _ _ Hl) as [rc E].
    exists ((fam, e_pfx e, e_mui e), rc). split; [apply elem_of_map_to_list, E|].
    cbn [fst]. unfold k_fam, k_pfx, k_mui. cbn [fst snd].
    rewrite bool_decide_true by reflexivity. cbn [andb]. rewrite Hs, Hl. destruct e; reflexivity.
Qed.

Lemma omap_nil_all {A B} (f : A -> option B) (l : list A) :
  (forall x, x ∈ l -> f x = None) -> omap f l = [].
Proof.
  induction l as [|x l IH]; intros H; [reflexivity|]. cbn [omap list_omap].
  rewrite (H x) by constructor. apply IH. intros y Hy. apply H. constructor. exact Hy.
Qed.

Lemma omap_ext_in {A B} (f g : A -> option B) (l : list A) :
  (forall x, x ∈ l -> f x = g x) -> omap f l = omap g l.
Proof.
  induction l as [|x l IH]; intros H; [reflexivity|]. cbn [omap list_omap].
  rewrite (H x) by constructor. rewrite IH; [reflexivity|]. intros y Hy. apply H. constructor. exact Hy.
Qed.

(* no record of family [fam] at all *)
Definition rq_no_family (r : rib) (fam : N) : Prop :=
  forall k rc, recs r !! k = Some rc -> k_fam k <> fam.

Lemma rq_select_no_family r fam sel : rq_no_family r fam -> rq_select r fam sel = [].
Proof.
  intros H. unfold rq_select. apply omap_nil_all. intros [k rc] Hin.
  apply elem_of_map_to_list in Hin. cbn [fst].
  rewrite bool_decide_false by (apply (H _ _ Hin)). reflexivity.
Qed.

Lemma rq_select_ext r fam sel1 sel2 :
  (forall k rc, recs r !! k = Some rc -> k_fam k = fam -> sel1 (rq_bits (k_pfx k)) = sel2 (rq_bits (k_pfx k))) ->
  rq_select r fam sel1 = rq_select r fam sel2.
Proof.
  intros H. unfold rq_select. apply omap_ext_in. intros [k rc] Hin.
  apply elem_of_map_to_list in Hin. cbn [fst].
  destruct (bool_decide (k_fam k = fam)) eqn:Hb; [|reflexivity].
  apply bool_decide_eq_true in Hb. rewrite (H _ _ Hin Hb). reflexivity.
Qed.

Lemma elem_of_rq_tree r fam p :
  p ∈ rq_tree r fam <-> exists k rc, recs r !! k = Some rc /\ k_fam k = fam /\ p = rq_bits (k_pfx k).
Proof.
  unfold rq_tree. rewrite elem_of_list_omap. split.
  - intros ([k rc] & Hin & Hx). cbn [fst] in Hx.
    destruct (bool_decide (k_fam k = fam)) eqn:Hb; [|discriminate].
    apply bool_decide_eq_true in Hb. injection Hx as <-.
    exists k, rc. split; [apply elem_of_map_to_list in Hin; exact Hin|tauto].
  - intros (k & rc & Hin & Hf & ->). exists (k, rc). split; [apply elem_of_map_to_list; exact Hin|].
    cbn [fst]. rewrite bool_decide_true by exact Hf. reflexivity.
Qed.

Lemma elem_of_filter_bool {A} (f : A -> bool) (l : list A) x :
  x ∈ List.filter f l <-> x ∈ l /\ f x = true.
Proof. rewrite !elem_of_list_In. apply filter_In. Qed.

(* ---------------------------------------------------------------- what the property demands (the spec answer) *)
Definition rq_stored_any (r : rib) (v6 : bool) (e : rq_entry) : Prop :=
  rq_stored r (rq_fam v6 false) e \/ rq_stored r (rq_fam v6 true) e.

Lemma elem_of_rq_both r v6 sel e :
  e ∈ rq_both r v6 sel <-> rq_stored_any r v6 e /\ sel (rq_bits (e_pfx e)) = true.
Proof. unfold rq_both, rq_stored_any. rewrite elem_of_app, !elem_of_rq_select. tauto. Qed.

Lemma spec_data_exact r tbl reg v6 q qu e :
  e ∈ a_data (rq_answer_spec r tbl reg v6 q qu) <->
  rq_stored_any r v6 e /\ rq_bits (e_pfx e) = q /\ rq_keep (q_filters qu) tbl reg e = true.
Proof.
  unfold rq_answer_spec. cbn [a_data]. rewrite elem_of_filter_bool, elem_of_rq_both, rq_pfx_eqb_spec.
  split; [intros [[H1 H2] H3]; auto|intros (H1 & H2 & H3); auto].
Qed.

Lemma spec_less_exact r tbl reg v6 q qu e :
  i_less (q_inc qu) = true ->
  (exists l, a_less (rq_answer_spec r tbl reg v6 q qu) = Some l /\
     (e ∈ l <-> rq_stored_any r v6 e /\ rq_strictly_covers (rq_bits (e_pfx e)) q = true /\
                rq_keep (q_filters qu) tbl reg e = true)).
Proof.
  intros Hi. unfold rq_answer_spec. cbn [a_less]. rewrite Hi. eexists. split; [reflexivity|].
  rewrite elem_of_filter_bool, elem_of_rq_both. tauto.
Qed.

Lemma spec_more_exact r tbl reg v6 q qu e :
  i_more (q_inc qu) = true ->
  (exists l, a_more (rq_answer_spec r tbl reg v6 q qu) = Some l /\
     (e ∈ l <-> rq_stored_any r v6 e /\ rq_strictly_covers q (rq_bits (e_pfx e)) = true /\
                rq_keep (q_filters qu) tbl reg e = true)).
Proof.
  intros Hi. unfold rq_answer_spec. cbn [a_more]. rewrite Hi. eexists. split; [reflexivity|].
  rewrite elem_of_filter_bool, elem_of_rq_both. tauto.
Qed.

Lemma spec_sections_follow_include r tbl reg v6 q qu :
  (a_less (rq_answer_spec r tbl reg v6 q qu) = None <-> i_less (q_inc qu) = false) /\
  (a_more (rq_answer_spec r tbl reg v6 q qu) = None <-> i_more (q_inc qu) = false).
Proof.
  unfold rq_answer_spec. cbn [a_less a_more].
  destruct (i_less (q_inc qu)), (i_more (q_inc qu)); split; split; congruence.
Qed.

(* ---------------------------------------------------------------- the code's answer *)
(* data: the unicast entries of the prefix; the multicast ones only when
   there is no unicast entry and nothing was included *)
Lemma model_data_exact r tbl reg v6 q qu e :
  e ∈ a_data (rq_answer_of r tbl reg v6 q qu) <->
  rq_bits (e_pfx e) = q /\ rq_keep (q_filters qu) tbl reg e = true /\
  (rq_stored r (rq_fam v6 false) e \/
   (rq_store_data r (rq_fam v6 false) q = [] /\ i_less (q_inc qu) = false /\ i_more (q_inc qu) = false /\
    rq_stored r (rq_fam v6 true) e)).
Proof.
  unfold rq_answer_of, rq_answer_gen. cbn [a_data]. rewrite elem_of_filter_bool.
  destruct (rq_store_data r (rq_fam v6 false) q) as [|x l] eqn:Eu.
  - cbn [rq_is_nil andb]. destruct (i_less (q_inc qu)), (i_more (q_inc qu)); cbn [negb andb].
    1-3: rewrite <- Eu; unfold rq_store_data; rewrite elem_of_rq_select, rq_pfx_eqb_spec;
         split; [intros [[H1 H2] H3]; auto|intros (H1 & H2 & [H3|(_ & H4 & H5 & _)]); [auto|discriminate]].
    unfold rq_store_data at 1. rewrite elem_of_rq_select, rq_pfx_eqb_spec. split.
    + intros [[H1 H2] H3]. auto 10.
    + intros (H1 & H2 & [H3|(_ & _ & _ & H4)]); [|auto].
      assert (He : e ∈ rq_store_data r (rq_fam v6 false) q)
        by (unfold rq_store_data; apply elem_of_rq_select; split; [exact H3|apply rq_pfx_eqb_spec; symmetry; exact H1]).
      rewrite Eu in He. inversion He.
  - cbn [rq_is_nil andb]. rewrite <- Eu. unfold rq_store_data at 1. rewrite elem_of_rq_select, rq_pfx_eqb_spec.
    split; [intros [[H1 H2] H3]; auto|].
    intros (H1 & H2 & [H3|(H4 & _)]); [auto|]. rewrite Eu in H4. discriminate.
Qed.

Lemma model_less_exact r tbl reg v6 q qu e :
  i_less (q_inc qu) = true ->
  (exists l, a_less (rq_answer_of r tbl reg v6 q qu) = Some l /\
     (e ∈ l <-> rq_stored r (rq_fam v6 false) e /\ rq_strictly_covers (rq_bits (e_pfx e)) q = true /\
                rq_keep (q_filters qu) tbl reg e = true)).
Proof.
  intros Hi. unfold rq_answer_of, rq_answer_gen. cbn [a_less]. rewrite Hi. eexists. split; [reflexivity|].
  unfold rq_store_less. rewrite elem_of_filter_bool, elem_of_rq_select. tauto.
Qed.

(* the store's more-specifics selection is exact for this query *)
Definition rq_store_more_ok (r : rib) (v6 : bool) (q : rq_pfx) : Prop :=
  forall k rc, recs r !! k = Some rc -> k_fam k = rq_fam v6 false ->
    rq_store_more_sel v6 (rq_tree r (rq_fam v6 false)) q (rq_bits (k_pfx k)) = rq_strictly_covers q (rq_bits (k_pfx k)).

Lemma store_more_ok_eq r v6 q :
  rq_store_more_ok r v6 q ->
  rq_store_more r (rq_fam v6 false) v6 q = rq_select r (rq_fam v6 false) (rq_strictly_covers q).
Proof. intros H. unfold rq_store_more. apply rq_select_ext. exact H. Qed.

Lemma model_more_exact_partial r tbl reg v6 q qu e :
  rq_store_more_ok r v6 q ->
  i_more (q_inc qu) = true ->
  (exists l, a_more (rq_answer_of r tbl reg v6 q qu) = Some l /\
     (e ∈ l <-> rq_stored r (rq_fam v6 false) e /\ rq_strictly_covers q (rq_bits (e_pfx e)) = true /\
                rq_keep (q_filters qu) tbl reg e = true)).
Proof.
  intros Hok Hi. unfold rq_answer_of, rq_answer_gen. cbn [a_more]. rewrite Hi. eexists. split; [reflexivity|].
  rewrite (store_more_ok_eq _ _ _ Hok), elem_of_filter_bool, elem_of_rq_select. tauto.
Qed.

(* whatever the store does: a reported more-specific is a stored unicast entry that passes the filter *)
Lemma model_more_stored r tbl reg v6 q qu l e :
  a_more (rq_answer_of r tbl reg v6 q qu) = Some l -> e ∈ l ->
  rq_stored r (rq_fam v6 false) e /\ rq_keep (q_filters qu) tbl reg e = true.
Proof.
  unfold rq_answer_of, rq_answer_gen. cbn [a_more]. destruct (i_more (q_inc qu)); [|discriminate].
  intros [= <-]. unfold rq_store_more. rewrite elem_of_filter_bool, elem_of_rq_select. tauto.
Qed.

(* sufficient for exactness: below the tree node the query lives in, nothing
   is stored that is longer than the node's stride reaches *)
Lemma store_more_ok_in_node (r : rib) (v6 : bool) (q : rq_pfx) (start stride : N) :
  (rq_len q < (if v6 then 128 else 32 : N))%N ->
  rq_node_for (rq_strides v6) 0 (rq_len q) = Some (start, stride) ->
  (forall p, p ∈ rq_tree r (rq_fam v6 false) ->
     rq_covers (firstn (N.to_nat start) q) p = true -> rq_len p <= start + stride) ->
  rq_store_more_ok r v6 q.
Proof.
  intros Hlen Hnode Hshallow k rc Hin Hf. unfold rq_store_more_sel. rewrite Hnode.
  destruct (_ <=? rq_len q) eqn:Hb; [apply N.leb_le in Hb; lia|].
  destruct (rq_len (rq_bits (k_pfx k)) <=? start + stride) eqn:Hl; [reflexivity|].
  apply N.leb_gt in Hl.
  assert (Hp : rq_bits (k_pfx k) ∈ rq_tree r (rq_fam v6 false))
    by (apply elem_of_rq_tree; exists k, rc; tauto).
  destruct (rq_covers (firstn (N.to_nat start) q) (rq_bits (k_pfx k))) eqn:Hc.
  - specialize (Hshallow _ Hp Hc). lia.
  - rewrite andb_false_r. cbn [andb]. symmetry.
    destruct (rq_strictly_covers q (rq_bits (k_pfx k))) eqn:Hs; [|reflexivity].
    apply rq_strictly_covers_covers in Hs. apply (rq_covers_firstn (N.to_nat start)) in Hs. congruence.
Qed.

(* ---------------------------------------------------------------- code = property, under the two recorded exclusions *)
Theorem answer_exact_partial r tbl reg v6 q qu :
  rq_no_family r (rq_fam v6 true) ->
  (i_more (q_inc qu) = true -> rq_store_more_ok r v6 q) ->
  rq_answer_of r tbl reg v6 q qu = rq_answer_spec r tbl reg v6 q qu.
Proof.
  intros Hnm Hok. unfold rq_answer_of, rq_answer_gen, rq_answer_spec, rq_both, rq_store_data, rq_store_less.
  rewrite !(rq_select_no_family _ _ _ Hnm), !app_nil_r.
  f_equal.
  - destruct (rq_select r (rq_fam v6 false) (rq_pfx_eqb q)) eqn:E; cbn [rq_is_nil andb]; [|reflexivity].
    destruct (negb (i_less (q_inc qu)) && negb (i_more (q_inc qu))); reflexivity.
  - destruct (i_more (q_inc qu)); [|reflexivity]. rewrite (store_more_ok_eq _ _ _ (Hok eq_refl)). reflexivity.
Qed.

Theorem handle_exact_partial lim r tbl reg rq :
  rq_no_family r (rq_fam (rq_v6 rq) true) ->
  (forall q, rq_prefix_of rq = Some q -> rq_store_more_ok r (rq_v6 rq) q) ->
  rq_handle lim r tbl reg rq = rq_handle_spec lim r tbl reg rq.
Proof.
  intros Hnm Hok. unfold rq_handle, rq_handle_spec, rq_handle_with.
  destruct (rq_prefix_of rq) as [q|] eqn:Eq; [|reflexivity].
  destruct (rq_parse_query _ _ _ _) as [qu|]; [|reflexivity].
  destruct (q_format qu); try reflexivity.
  rewrite answer_exact_partial; [reflexivity|exact Hnm|intros _; apply Hok; reflexivity].
Qed.

(* no phantom in data and lessSpecifics, unconditionally; in moreSpecifics a
   phantom is a stored entry of another prefix (see the refutation) *)
Theorem no_phantom r tbl reg v6 q qu e :
  (e ∈ a_data (rq_answer_of r tbl reg v6 q qu) ->
     rq_stored_any r v6 e /\ rq_bits (e_pfx e) = q /\ rq_keep (q_filters qu) tbl reg e = true) /\
  (forall l, a_less (rq_answer_of r tbl reg v6 q qu) = Some l -> e ∈ l ->
     rq_stored_any r v6 e /\ rq_strictly_covers (rq_bits (e_pfx e)) q = true /\ rq_keep (q_filters qu) tbl reg e = true) /\
  (forall l, a_more (rq_answer_of r tbl reg v6 q qu) = Some l -> e ∈ l ->
     rq_stored_any r v6 e /\ rq_keep (q_filters qu) tbl reg e = true).
Proof.
  unfold rq_stored_any. repeat split.
  - apply model_data_exact in H. tauto.
  - apply model_data_exact in H. tauto.
  - apply model_data_exact in H. tauto.
  - revert H H0. unfold rq_answer_of, rq_answer_gen. cbn [a_less]. destruct (i_less (q_inc qu)); [|discriminate].
    intros [= <-]. unfold rq_store_less. rewrite elem_of_filter_bool, elem_of_rq_select. tauto.
  - revert H H0. unfold rq_answer_of, rq_answer_gen. cbn [a_less]. destruct (i_less (q_inc qu)); [|discriminate].
    intros [= <-]. unfold rq_store_less. rewrite elem_of_filter_bool, elem_of_rq_select. tauto.
  - revert H H0. unfold rq_answer_of, rq_answer_gen. cbn [a_less]. destruct (i_less (q_inc qu)); [|discriminate].
    intros [= <-]. unfold rq_store_less. rewrite elem_of_filter_bool, elem_of_rq_select. tauto.
  - left. eapply model_more_stored; eassumption.
  - eapply model_more_stored; eassumption.
Qed.

(* ---------------------------------------------------------------- the limit *)
Theorem limit_refuses lim r tbl reg rq q inc :
  rq_prefix_of rq = Some q ->
  rq_parse_include (rq_params (rq_raw rq)) = Some inc -> i_more inc = true ->
  rq_len q < rq_limit lim (rq_v6 rq) ->
  rq_handle lim r tbl reg rq = RBad /\ rq_handle_spec lim r tbl reg rq = RBad.
Proof.
  intros Hq Hinc Hm Hlt. unfold rq_handle, rq_handle_spec, rq_handle_with. rewrite Hq.
  unfold rq_parse_query. rewrite Hinc, Hm. apply N.ltb_lt in Hlt. rewrite Hlt. cbn [andb]. tauto.
Qed.

(* ... and only then: a query that asks for more specifics at or beyond the
   limit is not refused for its length *)
Theorem limit_only_shorter lim v6 qlen raw :
  rq_limit lim v6 <= qlen ->
  rq_parse_query lim v6 qlen raw = rq_parse_query (MkLim 0 0) v6 qlen raw.
Proof.
  intros Hle. unfold rq_parse_query. destruct (rq_parse_include (rq_params raw)) as [inc|]; [|reflexivity].
  assert (qlen <? rq_limit lim v6 = false) as -> by (apply N.ltb_ge; exact Hle).
  assert (qlen <? rq_limit (MkLim 0 0) v6 = false) as -> by (apply N.ltb_ge; destruct v6; cbn; lia).
  reflexivity.
Qed.

(* ---------------------------------------------------------------- parameters *)
Lemma rq_unused_keeps_unknown ps : forall seen p,
  In p ps ->
  pc_bytes_eqb (p_key p) kw_select = false -> pc_bytes_eqb (p_key p) kw_discard = false ->
  existsb (pc_bytes_eqb (p_key p)) kw_single = false ->
  In p (rq_unused seen ps).
Proof.
  induction ps as [|x ps IH]; intros seen p Hin Hs Hd Hk; [inversion Hin|].
  cbn [rq_unused]. destruct Hin as [->|Hin].
  - rewrite Hs, Hd, Hk. cbn [orb andb]. left. reflexivity.
  - destruct (_ || _); [apply IH; assumption|].
    destruct (_ && _); [apply IH; assumption|right; apply IH; assumption].
Qed.

(* a parameter whose name is none of the seven documented ones makes the request a 400 *)
Theorem unknown_param_refused lim v6 qlen raw p :
  In p (rq_params raw) ->
  pc_bytes_eqb (p_key p) kw_select = false -> pc_bytes_eqb (p_key p) kw_discard = false ->
  existsb (pc_bytes_eqb (p_key p)) kw_single = false ->
  rq_parse_query lim v6 qlen raw = None.
Proof.
  intros Hin Hs Hd Hk. unfold rq_parse_query.
  destruct (rq_parse_include _); [|reflexivity].
  destruct (_ && _); [reflexivity|].
  destruct (negb _); [reflexivity|].
  destruct (rq_parse_filters _); [|reflexivity].
  pose proof (rq_unused_keeps_unknown _ [] _ Hin Hs Hd Hk) as H.
  destruct (rq_unused [] (rq_params raw)); [inversion H|reflexivity].
Qed.


(* ---------------------------------------------------------------- the include parameter *)
Lemma include_vals_spec vs : forall acc inc,
  rq_parse_include_vals vs acc = Some inc <->
  (forall v, In v vs -> v = kw_less_specifics \/ v = kw_more_specifics) /\
  (i_less inc = true <-> i_less acc = true \/ In kw_less_specifics vs) /\
  (i_more inc = true <-> i_more acc = true \/ In kw_more_specifics vs).
Proof.
  assert (Hne : kw_less_specifics <> kw_more_specifics) by (vm_compute; discriminate).
  induction vs as [|v vs IH]; intros acc inc; cbn [rq_parse_include_vals].
  - split.
    + intros [= <-]. split; [intros v []|]. cbn [In]. tauto.
    + intros (_ & Hl & Hm). cbn [In] in Hl, Hm. destruct inc as [a b], acc as [c d]. cbn [i_less i_more] in *.
      f_equal; f_equal; apply RibProofs.bool_ext_iff; tauto.
  - destruct (pc_bytes_eqb v kw_less_specifics) eqn:El.
    + apply PathConfProofs.pc_bytes_eqb_eq in El. subst v. rewrite IH. cbn [i_less i_more In]. split.
      * intros (Hall & Hl & Hm). split; [intros v [<-|Hv]; [tauto|apply Hall, Hv]|]. split; [tauto|].
        rewrite Hm. split; [tauto|]. intros [H|[H|H]]; [tauto|congruence|tauto].
      * intros (Hall & Hl & Hm). split; [intros v Hv; apply Hall; tauto|]. split; [tauto|].
        rewrite Hm. split; [tauto|]. intros [H|H]; tauto.
    + destruct (pc_bytes_eqb v kw_more_specifics) eqn:Em.
      * apply PathConfProofs.pc_bytes_eqb_eq in Em. subst v. rewrite IH. cbn [i_less i_more In]. split.
        -- intros (Hall & Hl & Hm). split; [intros v [<-|Hv]; [tauto|apply Hall, Hv]|]. split; [|tauto].
           rewrite Hl. split; [tauto|]. intros [H|[H|H]]; [tauto|congruence|tauto].
        -- intros (Hall & Hl & Hm). split; [intros v Hv; apply Hall; tauto|]. split; [|tauto].
           rewrite Hl. split; [intros [H|[H|H]]; [tauto|congruence|tauto]|]. intros [H|H]; tauto.
      * split; [discriminate|]. intros (Hall & _). exfalso.
        destruct (Hall v (or_introl eq_refl)) as [->| ->].
        -- assert (pc_bytes_eqb kw_less_specifics kw_less_specifics = true) by (apply PathConfProofs.pc_bytes_eqb_eq; reflexivity). congruence.
        -- assert (pc_bytes_eqb kw_more_specifics kw_more_specifics = true) by (apply PathConfProofs.pc_bytes_eqb_eq; reflexivity). congruence.
Qed.

(* include=<v1>,<v2>,...: accepted iff every value is lessSpecifics or
   moreSpecifics; a section is requested iff its name occurs *)
Theorem include_param_spec ps inc :
  rq_parse_include ps = Some inc <->
  match rq_get ps kw_include with
  | None => inc = MkInc false false
  | Some p =>
    (forall v, In v (pc_split 44 (p_val p)) -> v = kw_less_specifics \/ v = kw_more_specifics) /\
    (i_less inc = true <-> In kw_less_specifics (pc_split 44 (p_val p))) /\
    (i_more inc = true <-> In kw_more_specifics (pc_split 44 (p_val p)))
  end.
Proof.
  unfold rq_parse_include. destruct (rq_get ps kw_include) as [p|].
  - rewrite include_vals_spec. cbn [i_less i_more]. split; intros (H1 & H2 & H3); (split; [exact H1|]); split.
    + rewrite H2. split; [intros [H|H]; [discriminate|exact H]|tauto].
    + rewrite H3. split; [intros [H|H]; [discriminate|exact H]|tauto].
    + rewrite H2. intuition discriminate.
    + rewrite H3. intuition discriminate.
  - split; [intros [= <-]; reflexivity|intros ->; reflexivity].
Qed.

(* ---------------------------------------------------------------- refutations (concrete witnesses) *)
Definition w_bits (n : N) (len : nat) : rq_pfx :=
  rev (map (fun i => N.testbit n (N.of_nat i)) (seq 0 len)).
(* the first [len] bits of the 32-bit address [a] *)
Definition w_v4 (a : N) (len : nat) : rq_pfx := firstn len (w_bits a 32).

Definition w_attrs : rq_tbl := fun _ => MkAttrs [HAsn 65001] [].
Definition w_reg : rq_reg := fun _ => Some (Some 65001).
Definition w_query (less more : bool) : rq_query := MkQuery (MkInc less more) (MkFilters OpAny [] []) FmtJson.
Definition w_rib (l : list (N * rq_pfx)) : rib :=
  rib_apply rib_empty (UBulk (map (fun fp => MkPay (fst fp, rq_code (snd fp), 1) true 7) l)).

(* 10.1.0.0/16 is stored (unicast); the more specifics of 10.0.0.0/8 come back empty *)
Lemma more_specifics_omits_refuted :
  let r := w_rib [(0, w_v4 167837696 16)] in
  let q := w_v4 167772160 8 in
  a_more (rq_answer_of r w_attrs w_reg false q (w_query false true)) = Some [] /\
  a_more (rq_answer_spec r w_attrs w_reg false q (w_query false true)) = Some [MkEntry (rq_code (w_v4 167837696 16)) 1 true 7].
Proof. vm_compute. split; reflexivity. Qed.

(* 10.64.1.0/24 is stored; it is reported as a more specific of 10.0.0.0/10, which does not cover it *)
Lemma more_specifics_phantom_refuted :
  let r := w_rib [(0, w_v4 171966720 24)] in
  let q := w_v4 167772160 10 in
  a_more (rq_answer_of r w_attrs w_reg false q (w_query false true)) = Some [MkEntry (rq_code (w_v4 171966720 24)) 1 true 7] /\
  rq_strictly_covers q (w_v4 171966720 24) = false /\
  a_more (rq_answer_spec r w_attrs w_reg false q (w_query false true)) = Some [].
Proof. vm_compute. repeat split; reflexivity. Qed.

(* a multicast route for 10.0.0.0/8 is shown alone, hidden by a unicast route of
   the same prefix, and hidden as soon as anything is included *)
Lemma multicast_hidden_refuted :
  let q := w_v4 167772160 8 in
  let m := MkEntry (rq_code q) 1 true 7 in
  let r1 := w_rib [(2, q)] in
  let r2 := w_rib [(2, q); (0, q)] in
  a_data (rq_answer_of r1 w_attrs w_reg false q (w_query false false)) = [m] /\
  a_data (rq_answer_of r1 w_attrs w_reg false q (w_query true false)) = [] /\
  a_data (rq_answer_spec r1 w_attrs w_reg false q (w_query true false)) = [m] /\
  a_data (rq_answer_of r2 w_attrs w_reg false q (w_query false false)) = [m] /\
  a_data (rq_answer_spec r2 w_attrs w_reg false q (w_query false false)) = [m; m].
Proof. vm_compute. repeat split; reflexivity. Qed.

(* ---------------------------------------------------------------- boolean checkers for the two hypotheses *)
Definition rq_no_family_b (r : rib) (fam : N) : bool :=
  forallb (fun kv : rkey * rrec => negb (k_fam kv.1 =? fam)) (map_to_list (recs r)).

Lemma rq_no_family_b_sound r fam : rq_no_family_b r fam = true -> rq_no_family r fam.
Proof.
  unfold rq_no_family_b, rq_no_family. rewrite forallb_forall. intros H k rc Hin.
  specialize (H (k, rc)). cbn [fst] in H.
  assert (Hx : In (k, rc) (map_to_list (recs r))) by (apply elem_of_list_In, elem_of_map_to_list; exact Hin).
  apply H in Hx. apply negb_true_iff, N.eqb_neq in Hx. exact Hx.
Qed.

Definition rq_store_more_ok_b (r : rib) (v6 : bool) (q : rq_pfx) : bool :=
  forallb (fun kv : rkey * rrec =>
             if k_fam kv.1 =? rq_fam v6 false
             then Bool.eqb (rq_store_more_sel v6 (rq_tree r (rq_fam v6 false)) q (rq_bits (k_pfx kv.1)))
                           (rq_strictly_covers q (rq_bits (k_pfx kv.1)))
             else true)
          (map_to_list (recs r)).

Lemma rq_store_more_ok_b_sound r v6 q : rq_store_more_ok_b r v6 q = true -> rq_store_more_ok r v6 q.
Proof.
  unfold rq_store_more_ok_b, rq_store_more_ok. rewrite forallb_forall. intros H k rc Hin Hf.
  specialize (H (k, rc)). cbn [fst] in H.
  assert (Hx : In (k, rc) (map_to_list (recs r))) by (apply elem_of_list_In, elem_of_map_to_list; exact Hin).
  apply H in Hx. rewrite Hf, N.eqb_refl in Hx. apply Bool.eqb_prop in Hx. exact Hx.
Qed.

(* ---------------------------------------------------------------- a worked example *)
(* "include=lessSpecifics,moreSpecifics&select[peer_as]=AS65001&filter_op=all" *)
Definition w_raw : list N := [105; 110; 99; 108; 117; 100; 101; 61; 108; 101; 115; 115; 83; 112; 101; 99; 105; 102; 105; 99; 115; 44; 109; 111; 114; 101; 83; 112; 101; 99; 105; 102; 105; 99; 115; 38; 115; 101; 108; 101; 99; 116; 91; 112; 101; 101; 114; 95; 97; 115; 93; 61; 65; 83; 54; 53; 48; 48; 49; 38; 102; 105; 108; 116; 101; 114; 95; 111; 112; 61; 97; 108; 108].

Lemma example_ok :
  let r := w_rib [(0, w_v4 167772160 8); (0, w_v4 167772160 9); (0, w_v4 167772160 7); (0, w_v4 176160768 8)] in
  let q := w_v4 167772160 8 in
  let rq := MkRequest false (w_bits 167772160 32) 8 (Some w_raw) in
  rq_no_family r (rq_fam false true) /\ rq_store_more_ok r false q /\ rq_prefix_of rq = Some q /\
  exists a, rq_handle (MkLim 8 19) r w_attrs w_reg rq = RJson a /\
    a_data a = [MkEntry (rq_code q) 1 true 7] /\
    a_less a = Some [MkEntry (rq_code (w_v4 167772160 7)) 1 true 7] /\
    a_more a = Some [MkEntry (rq_code (w_v4 167772160 9)) 1 true 7] /\
    rq_handle_spec (MkLim 8 19) r w_attrs w_reg rq = RJson a /\
    rq_handle (MkLim 9 19) r w_attrs w_reg rq = RBad.
Proof.
  cbv zeta. split; [apply rq_no_family_b_sound; vm_compute; reflexivity|].
  split; [apply rq_store_more_ok_b_sound; vm_compute; reflexivity|].
  split; [vm_compute; reflexivity|].
  eexists. vm_compute. repeat split; reflexivity.
Qed.

(* ---------------------------------------------------------------- the unit over time: the limit in force *)
(* the state a history leaves behind (no answer function involved) *)
Definition rq_state_after (s : rq_state) (ops : list rq_op) : rq_state :=
  fold_left (fun s o => match o with
                        | OLimits l => MkSt l (st_rib s)
                        | OUpdate u => MkSt (st_lim s) (rib_apply (st_rib s) u)
                        | ORequest _ => s
                        end) ops s.

Lemma rq_run_app answer tbl reg xs : forall s ys,
  rq_run_with answer tbl reg s (xs ++ ys) =
  rq_run_with answer tbl reg s xs ++ rq_run_with answer tbl reg (rq_state_after s xs) ys.
Proof.
  induction xs as [|o xs IH]; intros s ys; [reflexivity|].
  destruct o as [l|u|rq]; cbn [app rq_run_with rq_step_with rq_state_after fold_left].
  - apply IH.
  - apply IH.
  - rewrite IH. reflexivity.
Qed.

Lemma rq_run_length answer tbl reg xs : forall s,
  length (rq_run_with answer tbl reg s xs) = rq_count_requests xs.
Proof.
  unfold rq_count_requests.
  induction xs as [|o xs IH]; intros s; [reflexivity|].
  destruct o as [l|u|rq]; cbn [rq_run_with rq_step_with filter rq_is_request length]; rewrite IH; reflexivity.
Qed.

Lemma rq_state_after_rib xs : forall s, st_rib (rq_state_after s xs) = rq_rib_after (st_rib s) xs.
Proof.
  unfold rq_state_after, rq_rib_after.
  induction xs as [|o xs IH]; intros s; [reflexivity|].
  destruct o as [l|u|rq]; cbn [fold_left]; rewrite IH; reflexivity.
Qed.

Lemma rq_state_after_lim_keep xs : forall s,
  forallb (fun o => negb (rq_is_limits o)) xs = true -> st_lim (rq_state_after s xs) = st_lim s.
Proof.
  unfold rq_state_after.
  induction xs as [|o xs IH]; intros s Hno; [reflexivity|].
  cbn [forallb] in Hno. apply andb_true_iff in Hno as [Ho Hno].
  destruct o as [l|u|rq]; cbn [fold_left]; [discriminate Ho| |]; rewrite (IH _ Hno); reflexivity.
Qed.

Lemma rq_state_after_app s xs ys : rq_state_after s (xs ++ ys) = rq_state_after (rq_state_after s xs) ys.
Proof. unfold rq_state_after. apply fold_left_app. Qed.

Lemma rq_count_requests_app xs ys : rq_count_requests (xs ++ ys) = (rq_count_requests xs + rq_count_requests ys)%nat.
Proof. unfold rq_count_requests. rewrite filter_app, app_length. reflexivity. Qed.

Lemma rq_rib_after_app r xs ys : rq_rib_after r (xs ++ ys) = rq_rib_after (rq_rib_after r xs) ys.
Proof. unfold rq_rib_after. apply fold_left_app. Qed.

(* the request that follows a history is answered from the state the history left *)
Lemma rq_run_nth answer tbl reg s xs rq post :
  nth_error (rq_run_with answer tbl reg s (xs ++ ORequest rq :: post)) (rq_count_requests xs) =
  Some (rq_handle_with answer (st_lim (rq_state_after s xs)) (rq_rib_after (st_rib s) xs) tbl reg rq).
Proof.
  rewrite rq_run_app, nth_error_app2; rewrite rq_run_length; [|apply Nat.le_refl].
  rewrite Nat.sub_diag. cbn [rq_run_with rq_step_with nth_error]. rewrite rq_state_after_rib. reflexivity.
Qed.

(* THE LIMIT IN FORCE IS THE CURRENT ONE. In any history, a request that comes
   after the limits were set to [l] (and before they are set again) is answered
   exactly as a unit configured with [l] from the start would answer it on the
   RIB content of that moment - whatever the limits were when the API object
   was created or at any earlier time; with no (re)configuration before it, by
   the initial limits. For every answer function (code, exact store, property). *)
Theorem limit_is_current answer tbl reg s rq post :
  (forall pre l mid,
     forallb (fun o => negb (rq_is_limits o)) mid = true ->
     nth_error (rq_run_with answer tbl reg s (pre ++ OLimits l :: mid ++ ORequest rq :: post))
               (rq_count_requests (pre ++ mid)) =
     Some (rq_handle_with answer l (rq_rib_after (st_rib s) (pre ++ mid)) tbl reg rq)) /\
  (forall pre,
     forallb (fun o => negb (rq_is_limits o)) pre = true ->
     nth_error (rq_run_with answer tbl reg s (pre ++ ORequest rq :: post)) (rq_count_requests pre) =
     Some (rq_handle_with answer (st_lim s) (rq_rib_after (st_rib s) pre) tbl reg rq)).
Proof.
  split.
  - intros pre l mid Hmid.
    replace (pre ++ OLimits l :: mid ++ ORequest rq :: post)
      with ((pre ++ OLimits l :: mid) ++ ORequest rq :: post)
      by (rewrite <- app_assoc; reflexivity).
    assert (Hc : rq_count_requests (pre ++ mid) = rq_count_requests (pre ++ OLimits l :: mid)).
    { rewrite !rq_count_requests_app. unfold rq_count_requests at 4. cbn [filter rq_is_request]. reflexivity. }
    assert (Hr : rq_rib_after (st_rib s) (pre ++ mid) = rq_rib_after (st_rib s) (pre ++ OLimits l :: mid)).
    { rewrite !rq_rib_after_app. unfold rq_rib_after at 4. cbn [fold_left]. reflexivity. }
    rewrite Hc, Hr, rq_run_nth. do 3 f_equal.
    rewrite rq_state_after_app.
    change (rq_state_after (rq_state_after s pre) (OLimits l :: mid))
      with (rq_state_after (MkSt l (st_rib (rq_state_after s pre))) mid).
    rewrite (rq_state_after_lim_keep mid _ Hmid). reflexivity.
  - intros pre Hpre. rewrite rq_run_nth, (rq_state_after_lim_keep pre _ Hpre). reflexivity.
Qed.

(* consequence at the level a user sees: once the limit of the family was
   raised above the length of the queried prefix, a more-specifics query for it
   is refused - even if it was permitted when the API was created - and once it
   was lowered to (or below) that length the limit plays no role any more *)
Theorem reconfigured_limit_decides tbl reg s pre l mid rq post q inc :
  forallb (fun o => negb (rq_is_limits o)) mid = true ->
  rq_prefix_of rq = Some q ->
  rq_parse_include (rq_params (rq_raw rq)) = Some inc -> i_more inc = true ->
  let resp := nth_error (rq_run tbl reg s (pre ++ OLimits l :: mid ++ ORequest rq :: post)) (rq_count_requests (pre ++ mid)) in
  (rq_len q < rq_limit l (rq_v6 rq) -> resp = Some RBad) /\
  (rq_limit l (rq_v6 rq) <= rq_len q ->
   resp = Some (rq_handle (MkLim 0 0) (rq_rib_after (st_rib s) (pre ++ mid)) tbl reg rq)).
Proof.
  intros Hmid Hq Hinc Hm resp. subst resp. unfold rq_run.
  rewrite (proj1 (limit_is_current rq_answer_of tbl reg s rq post) pre l mid Hmid).
  split; intros Hl.
  - f_equal. exact (proj1 (limit_refuses l _ tbl reg rq q inc Hq Hinc Hm Hl)).
  - f_equal. unfold rq_handle, rq_handle_with. rewrite Hq, (limit_only_shorter l _ _ _ Hl). reflexivity.
Qed.

(* a concrete history: created with the default limits (/8), 10.0.0.0/8 and a
   /9 below it stored; moreSpecifics of 10.0.0.0/8 is answered; the unit is
   reconfigured to /16: the same request is refused; reconfigured to /4: it is
   answered again (the hypotheses of limit_is_current hold on it) *)
Definition w_raw_more : list N := [105; 110; 99; 108; 117; 100; 101; 61; 109; 111; 114; 101; 83; 112; 101; 99; 105; 102; 105; 99; 115].

Lemma limit_history_example :
  let r := w_rib [(0, w_v4 167772160 8); (0, w_v4 167772160 9)] in
  let rq := MkRequest false (w_bits 167772160 32) 8 (Some w_raw_more) in
  let mid := [OUpdate (UWithdraw 9 None)] in
  forallb (fun o => negb (rq_is_limits o)) mid = true /\
  exists a,
    rq_run w_attrs w_reg (MkSt (MkLim 8 19) r)
           ([ORequest rq] ++ OLimits (MkLim 16 19) :: mid ++ ORequest rq :: [OLimits (MkLim 4 19); ORequest rq])
    = [RJson a; RBad; RJson a] /\
    a_more a = Some [MkEntry (rq_code (w_v4 167772160 9)) 1 true 7].
Proof.
  cbv zeta. split; [reflexivity|]. eexists. vm_compute. split; reflexivity.
Qed.
