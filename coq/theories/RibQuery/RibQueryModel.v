(* Model of the RIB HTTP query API:
     src/units/rib_unit/http/request.rs   handle_prefix_query, parse_*_param(s), extract_filter_kind
     src/units/rib_unit/http/response.rs  mk_json_response, include_item_in_results, match_*
     src/units/rib_unit/http/types.rs     Filters::new (select / discard partition)
     src/units/rib_unit/rib.rs            Rib::match_prefix (unicast store, multicast fallback)
     src/units/rib_unit/unit.rs           QueryLimits / MoreSpecifics::shortest_prefix_permitted
     src/http.rs                          extract_params, get_param, get_all_params, MatchedParam::parse
   and of what rotonda-store 0.4.1 answers for an exact-match query with
   less / more specifics (match_prefix_by_store_direct), INCLUDING the
   behaviour of its NodeMoreSpecificChildIter (local_array/node.rs), whose
   start position is the query's bit span taken unshifted.

   The RIB content is RibModel.rib; a prefix is a bit list (most significant
   bit first, length = prefix length); RibModel's prefix number of a bit list is
   [rq_code] (a leading 1 followed by the bits), decoded by [rq_bits].
   Bytes are N. Definitions only; proofs are in RibQueryProofs.v. *)
From stdpp Require Import gmap.
From Coq Require Import NArith List Bool.
From RV Require Import Rib.RibModel PathConf.PathConfModel.
Import ListNotations.
Local Open Scope N_scope.

(* ---------------------------------------------------------------- prefixes as bit lists *)
Definition rq_pfx := list bool.

Fixpoint rq_code_pos (acc : positive) (bs : rq_pfx) : positive :=
  match bs with
  | [] => acc
  | b :: r => rq_code_pos (if b then xI acc else xO acc) r
  end.
Definition rq_code (bs : rq_pfx) : N := Npos (rq_code_pos xH bs).

Fixpoint rq_bits_pos (p : positive) : rq_pfx :=
  match p with
  | xH => []
  | xO p' => rq_bits_pos p' ++ [false]
  | xI p' => rq_bits_pos p' ++ [true]
  end.
Definition rq_bits (n : N) : rq_pfx := match n with N0 => [] | Npos p => rq_bits_pos p end.

Fixpoint rq_covers (p q : rq_pfx) : bool :=       (* p is a (non-strict) initial segment of q *)
  match p, q with
  | [], _ => true
  | a :: p', b :: q' => Bool.eqb a b && rq_covers p' q'
  | _ :: _, [] => false
  end.
Fixpoint rq_pfx_eqb (p q : rq_pfx) : bool :=
  match p, q with
  | [], [] => true
  | a :: p', b :: q' => Bool.eqb a b && rq_pfx_eqb p' q'
  | _, _ => false
  end.
Definition rq_strictly_covers (p q : rq_pfx) : bool := rq_covers p q && negb (rq_pfx_eqb p q).
Definition rq_len (p : rq_pfx) : N := N.of_nat (length p).

(* the number written by a bit list *)
Definition rq_num (bs : rq_pfx) : N := fold_left (fun acc (b : bool) => 2 * acc + (if b then 1 else 0)) bs 0.

(* ---------------------------------------------------------------- routes, peers, filters *)
(* a hop of an AS path as HopPath::iter() yields it: an AS number of an
   AS_SEQUENCE, or a whole other segment (AS_SET, confederation) *)
Inductive rq_hop := HAsn (a : N) | HSeg.
(* the AS_PATH attribute is a list of segments; to_hop_path() turns every AS number of an
   AS_SEQUENCE into a hop of its own and any other segment into one hop, so the cut of a
   sequence into segments is not visible in the hops *)
Inductive rq_seg := SegSeq (l : list N) | SegOther.
Definition rq_hops (segs : list rq_seg) : list rq_hop :=
  flat_map (fun s => match s with SegSeq l => map HAsn l | SegOther => [HSeg] end) segs.

(* The communities of a route live in up to four path attributes: COMMUNITIES (8),
   EXTENDED COMMUNITIES (16), LARGE_COMMUNITY (32) and the IPv6 address specific
   extended communities (25). routecore's Community enum keeps the kind next to the
   octets (Standard [u8;4] / Extended [u8;8] / Large [u8;12] / Ipv6Extended [u8;20],
   derived equality), so a community is (kind, octets); the octets are written as the
   number they spell, most significant octet first (the size is fixed by the kind). *)
Inductive rq_ckind := CStd | CExt | CLarge | CIp6.
Definition rq_ckind_eqb (a b : rq_ckind) : bool :=
  match a, b with
  | CStd, CStd | CExt, CExt | CLarge, CLarge | CIp6, CIp6 => true
  | _, _ => false
  end.
Definition rq_comm := (rq_ckind * N)%type.
Definition rq_comm_eqb (a b : rq_comm) : bool := rq_ckind_eqb (fst a) (fst b) && (snd a =? snd b).
(* one community-carrying attribute of a route: its kind and its members, in order *)
Definition rq_cattr := (rq_ckind * list N)%type.

(* what a filter can see of a route's attribute map (RotondaPaMap = the raw attribute
   octets of the UPDATE): the AS path, and the community-carrying attributes in the
   order in which they stand in the map (the order of the UPDATE, which need not be
   the order of the type codes) *)
Record rq_attrs := MkAttrs { pa_path : list rq_hop; pa_cattrs : list rq_cattr }.

(* the communities of a route: the members of all its community-carrying attributes,
   in attribute order (what Serialize for RotondaPaMap collects in its one list) *)
Definition rq_attr_comms (a : rq_cattr) : list rq_comm := map (pair (fst a)) (snd a).
Definition rq_route_comms (l : list rq_cattr) : list rq_comm := flat_map rq_attr_comms l.

(* the ingress register seen by the API: id -> registered? -> remote AS? *)
Definition rq_reg := N -> option (option N).
(* attribute table: RibModel keeps one number per route; this is what it stands for *)
Definition rq_tbl := N -> rq_attrs.

Inductive rq_fkind :=
| FAsPath (l : list N)
| FPeerAs (a : N)
| FCommunity (c : rq_comm).
Inductive rq_fop := OpAny | OpAll.
Record rq_filters := MkFilters { f_op : rq_fop; f_selects : list rq_fkind; f_discards : list rq_fkind }.

Fixpoint rq_match_as_path (actual : list rq_hop) (wanted : list N) : bool :=
  match actual, wanted with
  | [], [] => true
  | HAsn a :: actual', w :: wanted' => (a =? w) && rq_match_as_path actual' wanted'
  | _, _ => false
  end.

(* match_community: item.0.iter().flatten().any(|pa| match pa { <one of the four> (list)
   => list.communities().iter().any(|c| Community::from(c) == wanted), _ => false }):
   every attribute is looked at, none ends the walk *)
Definition rq_match_community (cattrs : list rq_cattr) (c : rq_comm) : bool :=
  existsb (fun a : rq_cattr => existsb (fun v => rq_comm_eqb c (fst a, v)) (snd a)) cattrs.

Definition rq_match_peer_as (info : option (option N)) (a : N) : bool :=
  match info with
  | Some (Some x) => x =? a
  | _ => false
  end.

Definition rq_matches (at_ : rq_attrs) (info : option (option N)) (f : rq_fkind) : bool :=
  match f with
  | FAsPath l => rq_match_as_path (pa_path at_) l
  | FCommunity c => rq_match_community (pa_cattrs at_) c
  | FPeerAs a => rq_match_peer_as info a
  end.

Definition rq_is_nil {A} (l : list A) : bool := match l with [] => true | _ => false end.

(* include_item_in_results *)
Definition rq_pass (f : rq_filters) (at_ : rq_attrs) (info : option (option N)) : bool :=
  let no_sel := rq_is_nil (f_selects f) in
  let no_dis := rq_is_nil (f_discards f) in
  if no_sel && no_dis then true
  else match f_op f with
       | OpAny => (no_sel || existsb (rq_matches at_ info) (f_selects f))
                  && (no_dis || negb (existsb (rq_matches at_ info) (f_discards f)))
       | OpAll => (no_sel || forallb (rq_matches at_ info) (f_selects f))
                  && (no_dis || negb (forallb (rq_matches at_ info) (f_discards f)))
       end.

(* ---------------------------------------------------------------- text *)
Definition rq_is_digit (c : N) : bool := (48 <=? c) && (c <=? 57).

Fixpoint rq_dec_digits (acc : N) (s : list N) : option N :=
  match s with
  | [] => Some acc
  | c :: r => if rq_is_digit c then rq_dec_digits (10 * acc + (c - 48)) r else None
  end.

(* <unsigned>::from_str: an optional '+', at least one decimal digit, value <= max *)
Definition rq_parse_uint (max : N) (s : list N) : option N :=
  let body := match s with 43 :: r => r | _ => s end in
  match body with
  | [] => None
  | _ => match rq_dec_digits 0 body with
         | Some v => if v <=? max then Some v else None
         | None => None
         end
  end.

Fixpoint rq_hex_digits (acc : N) (s : list N) : option N :=
  match s with
  | [] => Some acc
  | c :: r => match pc_hexval c with Some d => rq_hex_digits (16 * acc + d) r | None => None end
  end.

(* <unsigned>::from_str_radix(_, 16) *)
Definition rq_parse_hex (max : N) (s : list N) : option N :=
  let body := match s with 43 :: r => r | _ => s end in
  match body with
  | [] => None
  | _ => match rq_hex_digits 0 body with
         | Some v => if v <=? max then Some v else None
         | None => None
         end
  end.

Definition rq_u16 : N := 65535.
Definition rq_u32 : N := 4294967295.
Definition rq_u64 : N := 18446744073709551615.

Definition rq_lower (c : N) : N := if (65 <=? c) && (c <=? 90) then c + 32 else c.

(* inetnum Asn::from_str: an "AS" prefix in any case is dropped when more than
   two bytes long, then u32::from_str *)
Definition rq_parse_asn (s : list N) : option N :=
  match s with
  | a :: b :: (_ :: _) as r =>
    if (rq_lower a =? 97) && (rq_lower b =? 115) then rq_parse_uint rq_u32 r else rq_parse_uint rq_u32 s
  | _ => rq_parse_uint rq_u32 s
  end.

(* routecore strip_as: an "AS" prefix in any case is dropped (whatever follows) *)
Definition rq_strip_as (s : list N) : list N :=
  match s with
  | a :: b :: r => if (rq_lower a =? 97) && (rq_lower b =? 115) then r else s
  | _ => s
  end.

(* the well-known standard communities and every spelling Wellknown::from_str
   accepts (compared after lower-casing) *)
Definition rq_wellknown : list (list N * N) :=
  [ ([103; 114; 97; 99; 101; 102; 117; 108; 95; 115; 104; 117; 116; 100; 111; 119; 110] (* "graceful_shutdown" *), 4294901760); ([103; 114; 97; 99; 101; 102; 117; 108; 115; 104; 117; 116; 100; 111; 119; 110] (* "gracefulshutdown" *), 4294901760);
    ([97; 99; 99; 101; 112; 116; 95; 111; 119; 110] (* "accept_own" *), 4294901761); ([97; 99; 99; 101; 112; 116; 111; 119; 110] (* "acceptown" *), 4294901761);
    ([114; 111; 117; 116; 101; 95; 102; 105; 108; 116; 101; 114; 95; 116; 114; 97; 110; 115; 108; 97; 116; 101; 100; 95; 118; 52] (* "route_filter_translated_v4" *), 4294901762); ([114; 111; 117; 116; 101; 102; 105; 108; 116; 101; 114; 116; 114; 97; 110; 115; 108; 97; 116; 101; 100; 118; 52] (* "routefiltertranslatedv4" *), 4294901762);
    ([114; 111; 117; 116; 101; 95; 102; 105; 108; 116; 101; 114; 95; 118; 52] (* "route_filter_v4" *), 4294901763); ([114; 111; 117; 116; 101; 102; 105; 108; 116; 101; 114; 118; 52] (* "routefilterv4" *), 4294901763);
    ([114; 111; 117; 116; 101; 95; 102; 105; 108; 116; 101; 114; 95; 116; 114; 97; 110; 115; 108; 97; 116; 101; 100; 95; 118; 54] (* "route_filter_translated_v6" *), 4294901764); ([114; 111; 117; 116; 101; 102; 105; 108; 116; 101; 114; 116; 114; 97; 110; 115; 108; 97; 116; 101; 100; 118; 54] (* "routefiltertranslatedv6" *), 4294901764);
    ([114; 111; 117; 116; 101; 95; 102; 105; 108; 116; 101; 114; 95; 118; 54] (* "route_filter_v6" *), 4294901765); ([114; 111; 117; 116; 101; 102; 105; 108; 116; 101; 114; 118; 54] (* "routefilterv6" *), 4294901765);
    ([108; 108; 103; 114; 95; 115; 116; 97; 108; 101] (* "llgr_stale" *), 4294901766); ([108; 108; 103; 114; 115; 116; 97; 108; 101] (* "llgrstale" *), 4294901766);
    ([110; 111; 95; 108; 108; 103; 114] (* "no_llgr" *), 4294901767); ([110; 111; 108; 108; 103; 114] (* "nollgr" *), 4294901767);
    ([97; 99; 99; 101; 112; 116; 45; 111; 119; 110; 45; 110; 101; 120; 116; 104; 111; 112] (* "accept-own-nexthop" *), 4294901768); ([97; 99; 99; 101; 112; 116; 95; 111; 119; 110; 95; 110; 101; 120; 116; 104; 111; 112] (* "accept_own_nexthop" *), 4294901768); ([97; 99; 99; 101; 112; 116; 111; 119; 110; 110; 101; 120; 116; 104; 111; 112] (* "acceptownnexthop" *), 4294901768);
    ([115; 116; 97; 110; 100; 98; 121; 32; 112; 101] (* "standby pe" *), 4294901769); ([115; 116; 97; 110; 100; 98; 121; 45; 112; 101] (* "standby-pe" *), 4294901769); ([115; 116; 97; 110; 100; 98; 121; 112; 101] (* "standbype" *), 4294901769);
    ([110; 111; 95; 101; 120; 112; 111; 114; 116] (* "no_export" *), 4294967041); ([110; 111; 101; 120; 112; 111; 114; 116] (* "noexport" *), 4294967041);
    ([110; 111; 95; 97; 100; 118; 101; 114; 116; 105; 115; 101] (* "no_advertise" *), 4294967042); ([110; 111; 97; 100; 118; 101; 114; 116; 105; 115; 101] (* "noadvertise" *), 4294967042);
    ([110; 111; 95; 101; 120; 112; 111; 114; 116; 95; 115; 117; 98; 99; 111; 110; 102; 101; 100] (* "no_export_subconfed" *), 4294967043); ([110; 111; 101; 120; 112; 111; 114; 116; 115; 117; 98; 99; 111; 110; 102; 101; 100] (* "noexportsubconfed" *), 4294967043);
    ([110; 111; 112; 101; 101; 114] (* "nopeer" *), 4294967044); ([110; 111; 95; 112; 101; 101; 114] (* "no_peer" *), 4294967044);
    ([98; 108; 97; 99; 107; 104; 111; 108; 101] (* "blackhole" *), 4294902426) ].

Fixpoint rq_assoc_str (k : list N) (l : list (list N * N)) : option N :=
  match l with
  | [] => None
  | (s, v) :: r => if pc_bytes_eqb s k then Some v else rq_assoc_str k r
  end.

Definition rq_colon (c : N) : bool := c =? 58.

Definition rq_starts_0x (s : list N) : option (list N) :=
  match s with 48 :: 120 :: r => Some r | _ => None end.

(* StandardCommunity::from_str *)
Definition rq_parse_standard (s : list N) : option N :=
  match rq_assoc_str (map rq_lower s) rq_wellknown with
  | Some v => Some v
  | None =>
    match pc_cut rq_colon s with
    | (a, true, t) =>
      match rq_parse_uint rq_u16 (rq_strip_as a), rq_parse_uint rq_u16 t with
      | Some x, Some y => Some (x * 65536 + y)
      | _, _ => None
      end
    | (_, false, _) =>
      match rq_starts_0x s with
      | Some h => rq_parse_hex rq_u32 h
      | None => None
      end
    end
  end.

(* LargeCommunity::from_str: splitn(3, ':'); the value is global:local1:local2, 4 octets each *)
Definition rq_parse_large (s : list N) : option N :=
  match pc_cut rq_colon s with
  | (ga, true, r1) =>
    match pc_cut rq_colon r1 with
    | (l1, true, l2) =>
      match rq_parse_uint rq_u32 (rq_strip_as ga), rq_parse_uint rq_u32 l1, rq_parse_uint rq_u32 l2 with
      | Some g, Some a, Some b => Some ((g * 4294967296 + a) * 4294967296 + b)
      | _, _, _ => None
      end
    | _ => None
    end
  | _ => None
  end.

(* the octets of an extended community "transitive two-octet AS specific" (type 0x00) /
   "transitive four-octet AS specific" (type 0x02) with sub-type [sub] (route target 2,
   route origin 3): 00 sub as2(2) an(4)  /  02 sub as4(4) an(2) *)
Definition rq_ext_as2 (sub a an : N) : N := sub * 281474976710656 + a * 4294967296 + an.
Definition rq_ext_as4 (sub a an : N) : N := 2 * 72057594037927936 + sub * 281474976710656 + a * 65536 + an.

(* ExtendedCommunity::from_str, without the dotted-quad global administrator
   form (not modelled; the generator does not produce it) *)
Definition rq_parse_extended (s : list N) : option N :=
  match pc_cut rq_colon s with
  | (tag, true, tail) =>
    let sub := if pc_bytes_eqb tag ([114; 116] (* "rt" *)) then Some 2
               else if pc_bytes_eqb tag ([114; 111] (* "ro" *)) then Some 3 else None in
    match sub with
    | Some sub =>
      match pc_cut rq_colon tail with
      | (ga, true, an) =>
        let ga := rq_strip_as ga in
        match rq_parse_uint rq_u16 ga with
        | Some a => match rq_parse_uint rq_u32 an with Some n => Some (rq_ext_as2 sub a n) | None => None end
        | None =>
          match rq_parse_uint rq_u32 ga with
          | Some a => match rq_parse_uint rq_u16 an with Some n => Some (rq_ext_as4 sub a n) | None => None end
          | None => None
          end
        end
      | _ => None
      end
    | None => None
    end
  | (_, false, _) =>
    match rq_starts_0x s with
    | Some h => rq_parse_hex rq_u64 h
    | None => None
    end
  end.

(* Ipv6ExtendedCommunity::from_str: "0x" and exactly 40 hex digits read as 16 + 16 + 8 *)
Definition rq_parse_ipv6ext (s : list N) : option N :=
  match rq_starts_0x s with
  | Some h =>
    if N.of_nat (length h) =? 40 then
      match rq_parse_hex rq_u64 (firstn 16 h), rq_parse_hex rq_u64 (firstn 16 (skipn 16 h)), rq_parse_hex rq_u32 (skipn 32 h) with
      | Some a, Some b, Some c => Some ((a * 18446744073709551616 + b) * 4294967296 + c)
      | _, _, _ => None
      end
    else None
  | None => None
  end.

(* Community::from_str: the first of standard, large, extended, IPv6 extended that
   accepts the text; None = error *)
Definition rq_parse_community (s : list N) : option rq_comm :=
  match rq_parse_standard s with
  | Some c => Some (CStd, c)
  | None =>
    match rq_parse_large s with
    | Some c => Some (CLarge, c)
    | None =>
      match rq_parse_extended s with
      | Some c => Some (CExt, c)
      | None =>
        match rq_parse_ipv6ext s with
        | Some c => Some (CIp6, c)
        | None => None
        end
      end
    end
  end.

(* ---------------------------------------------------------------- query parameters *)
Record rq_param := MkParam { p_key : list N; p_fam : option (list N); p_val : list N }.

Definition rq_bracket (c : N) : bool := (c =? 91) || (c =? 93).

(* MatchedParam::parse: the name is split at '[' and ']': first piece = key,
   second piece (if any) = family *)
Definition rq_mk_param (name value : list N) : rq_param :=
  match pc_cut rq_bracket name with
  | (k, false, _) => MkParam k None value
  | (k, true, rest) => match pc_cut rq_bracket rest with (fam, _, _) => MkParam k (Some fam) value end
  end.

(* extract_params: form_urlencoded::parse of the raw query *)
Definition rq_params (q : option (list N)) : list rq_param :=
  match q with
  | None => []
  | Some q =>
    map (fun piece => match pc_cut (N.eqb 61) piece with
                      | (n, _, v) => rq_mk_param (pc_form_decode n) (pc_form_decode v)
                      end)
        (filter pc_nonempty (pc_split 38 q))
  end.

Definition rq_has_key (k : list N) (p : rq_param) : bool := pc_bytes_eqb (p_key p) k.

(* get_param: the first parameter with that key (it alone is marked used) *)
Definition rq_get (ps : list rq_param) (k : list N) : option rq_param := find (rq_has_key k) ps.
(* get_all_params *)
Definition rq_get_all (ps : list rq_param) (k : list N) : list rq_param := filter (rq_has_key k) ps.

Definition kw_include := [105; 110; 99; 108; 117; 100; 101] (* "include" *).
Definition kw_details := [100; 101; 116; 97; 105; 108; 115] (* "details" *).
Definition kw_select := [115; 101; 108; 101; 99; 116] (* "select" *).
Definition kw_discard := [100; 105; 115; 99; 97; 114; 100] (* "discard" *).
Definition kw_filter_op := [102; 105; 108; 116; 101; 114; 95; 111; 112] (* "filter_op" *).
Definition kw_sort := [115; 111; 114; 116] (* "sort" *).
Definition kw_format := [102; 111; 114; 109; 97; 116] (* "format" *).
Definition kw_single : list (list N) := [kw_include; kw_details; kw_filter_op; kw_sort; kw_format].

(* parameters nobody looked at: not select/discard, and not the first of one
   of the single-valued names *)
Fixpoint rq_unused (seen : list (list N)) (ps : list rq_param) : list rq_param :=
  match ps with
  | [] => []
  | p :: r =>
    let k := p_key p in
    if pc_bytes_eqb k kw_select || pc_bytes_eqb k kw_discard then rq_unused seen r
    else if existsb (pc_bytes_eqb k) kw_single && negb (existsb (pc_bytes_eqb k) seen)
         then rq_unused (k :: seen) r
         else p :: rq_unused seen r
  end.

Definition kw_less_specifics : list N := [108; 101; 115; 115; 83; 112; 101; 99; 105; 102; 105; 99; 115] (* "lessSpecifics" *).
Definition kw_more_specifics : list N := [109; 111; 114; 101; 83; 112; 101; 99; 105; 102; 105; 99; 115] (* "moreSpecifics" *).

Record rq_includes := MkInc { i_less : bool; i_more : bool }.

Fixpoint rq_parse_include_vals (vs : list (list N)) (acc : rq_includes) : option rq_includes :=
  match vs with
  | [] => Some acc
  | v :: r =>
    if pc_bytes_eqb v kw_less_specifics then rq_parse_include_vals r (MkInc true (i_more acc))
    else if pc_bytes_eqb v kw_more_specifics then rq_parse_include_vals r (MkInc (i_less acc) true)
    else None
  end.

Definition rq_parse_include (ps : list rq_param) : option rq_includes :=
  match rq_get ps kw_include with
  | None => Some (MkInc false false)
  | Some p => rq_parse_include_vals (pc_split 44 (p_val p)) (MkInc false false)
  end.

Definition rq_parse_details (ps : list rq_param) : bool :=      (* true = ok *)
  match rq_get ps kw_details with
  | None => true
  | Some p => forallb (fun v => pc_bytes_eqb v ([99; 111; 109; 109; 117; 110; 105; 116; 105; 101; 115] (* "communities" *))) (pc_split 44 (p_val p))
  end.

Fixpoint rq_all_some {A} (l : list (option A)) : option (list A) :=
  match l with
  | [] => Some []
  | None :: _ => None
  | Some x :: r => match rq_all_some r with Some r' => Some (x :: r') | None => None end
  end.

(* extract_filter_kind *)
Definition rq_filter_kind (p : rq_param) : option rq_fkind :=
  match p_fam p with
  | None => None
  | Some fam =>
    if pc_bytes_eqb fam ([97; 115; 95; 112; 97; 116; 104] (* "as_path" *)) then
      match rq_all_some (map rq_parse_asn (pc_split 44 (p_val p))) with
      | Some l => Some (FAsPath l)
      | None => None
      end
    else if pc_bytes_eqb fam ([112; 101; 101; 114; 95; 97; 115] (* "peer_as" *)) then
      match rq_parse_asn (p_val p) with Some a => Some (FPeerAs a) | None => None end
    else if pc_bytes_eqb fam ([99; 111; 109; 109; 117; 110; 105; 116; 121] (* "community" *)) then
      match rq_parse_community (p_val p) with Some c => Some (FCommunity c) | None => None end
    else None
  end.

Definition rq_parse_filters (ps : list rq_param) : option rq_filters :=
  match rq_all_some (map rq_filter_kind (rq_get_all ps kw_select)) with
  | None => None
  | Some sel =>
    match rq_all_some (map rq_filter_kind (rq_get_all ps kw_discard)) with
    | None => None
    | Some dis =>
      match rq_get ps kw_filter_op with
      | None => Some (MkFilters OpAny sel dis)
      | Some p =>
        if pc_bytes_eqb (p_val p) ([97; 110; 121] (* "any" *)) then Some (MkFilters OpAny sel dis)
        else if pc_bytes_eqb (p_val p) ([97; 108; 108] (* "all" *)) then Some (MkFilters OpAll sel dis)
        else None
      end
    end
  end.

Inductive rq_format := FmtJson | FmtDump | FmtBad.
Definition rq_parse_format (ps : list rq_param) : rq_format :=
  match rq_get ps kw_format with
  | None => FmtJson
  | Some p => if pc_bytes_eqb (p_val p) ([100; 117; 109; 112] (* "dump" *)) then FmtDump else FmtBad
  end.

(* the unit's QueryLimits.more_specifics *)
Record rq_limits := MkLim { lim_v4 : N; lim_v6 : N }.
Definition rq_limit (lim : rq_limits) (v6 : bool) : N := if v6 then lim_v6 lim else lim_v4 lim.

Record rq_query := MkQuery { q_inc : rq_includes; q_filters : rq_filters; q_format : rq_format }.

(* the parameter stage of handle_prefix_query, in the order of the code:
   include (+ limit), details, select, discard, filter_op, sort, format,
   then the unused-parameter check. None = 400 Bad Request. *)
Definition rq_parse_query (lim : rq_limits) (v6 : bool) (qlen : N) (raw : option (list N)) : option rq_query :=
  let ps := rq_params raw in
  match rq_parse_include ps with
  | None => None
  | Some inc =>
    if i_more inc && (qlen <? rq_limit lim v6) then None
    else if negb (rq_parse_details ps) then None
    else match rq_parse_filters ps with
         | None => None
         | Some f =>
           match rq_unused [] ps with
           | [] => Some (MkQuery inc f (rq_parse_format ps))
           | _ => None
           end
         end
  end.

(* ---------------------------------------------------------------- the store *)
Record rq_entry := MkEntry { e_pfx : N; e_mui : N; e_active : bool; e_attrs : N }.

(* every visible record of family [fam] whose prefix satisfies [sel] *)
Definition rq_select (r : rib) (fam : N) (sel : rq_pfx -> bool) : list rq_entry :=
  omap (fun kv : rkey * rrec =>
          let k := kv.1 in
          if bool_decide (k_fam k = fam) && sel (rq_bits (k_pfx k))
          then match rib_lookup r k with
               | Some (s, a) => Some (MkEntry (k_pfx k) (k_mui k) s a)
               | None => None
               end
          else None)
       (map_to_list (recs r)).

(* prefixes that were ever inserted in the tree of family [fam] (records are never removed) *)
Definition rq_tree (r : rib) (fam : N) : list rq_pfx :=
  omap (fun kv : rkey * rrec => if bool_decide (k_fam kv.1 = fam) then Some (rq_bits (k_pfx kv.1)) else None)
       (map_to_list (recs r)).

Definition rq_strides (v6 : bool) : list N :=
  if v6 then repeat 4 32 else [5; 5; 4; 3; 3; 3; 3; 3; 3; 3].

(* get_node_id_for_prefix: (start, stride) of the node whose stride first reaches the length *)
Fixpoint rq_node_for (strides : list N) (acc len : N) : option (N * N) :=
  match strides with
  | [] => None
  | s :: r => if len <=? acc + s then Some (acc, s) else rq_node_for r (acc + s) len
  end.

Definition rq_slice (p : rq_pfx) (from len : N) : rq_pfx := firstn (N.to_nat len) (skipn (N.to_nat from) p).

(* first occupied slot among [start, start + n) *)
Fixpoint rq_first_occ (occ : N -> bool) (start : N) (n : nat) : option N :=
  match n with
  | O => None
  | S n' => if occ start then Some start else rq_first_occ occ (start + 1) n'
  end.

(* NodeMoreSpecificChildIter: the child slots of the start node that are visited *)
Fixpoint rq_child_iter (fuel : nat) (occ : N -> bool) (stride l b : N) (cursor : option N) : list N :=
  match fuel with
  | O => []
  | S fuel' =>
    let w := 2 ^ (stride - l) in
    if match cursor with Some c => w <=? c | None => false end then []
    else
      let start := match cursor with Some c => c | None => b end in
      let stop := N.min (w + start) (2 ^ stride - 1) in
      match rq_first_occ occ start (N.to_nat (stop + 1 - start)) with
      | Some c => c :: rq_child_iter fuel' occ stride l b (Some (c + 1))
      | None => []
      end
  end.

(* which prefixes the store reports as more specific than q:
   - those hosted by q's own node: longer than q, covered by q, not longer than the node's end
   - everything below the child slots the iterator visits *)
Definition rq_store_more_sel (v6 : bool) (tree : list rq_pfx) (q : rq_pfx) : rq_pfx -> bool :=
  let bits := if v6 then 128 else 32 in
  if bits <=? rq_len q then (fun _ => false)
  else match rq_node_for (rq_strides v6) 0 (rq_len q) with
       | None => (fun _ => false)
       | Some (start, stride) =>
         let l := rq_len q - start in
         let b := rq_num (rq_slice q start l) in
         let base := firstn (N.to_nat start) q in
         let below (p : rq_pfx) : bool := (start + stride <? rq_len p) && rq_covers base p in
         let slot (p : rq_pfx) : N := rq_num (rq_slice p start stride) in
         let occ (c : N) : bool := existsb (fun p => below p && (slot p =? c)) tree in
         let visited := rq_child_iter 40 occ stride l b None in
         fun p => if rq_len p <=? start + stride
                  then rq_strictly_covers q p
                  else below p && existsb (N.eqb (slot p)) visited
       end.

(* one store (unicast: fam = 0/1, multicast: fam = 2/3) *)
Definition rq_store_data (r : rib) (fam : N) (q : rq_pfx) : list rq_entry := rq_select r fam (rq_pfx_eqb q).
Definition rq_store_less (r : rib) (fam : N) (q : rq_pfx) : list rq_entry := rq_select r fam (fun p => rq_strictly_covers p q).
Definition rq_store_more (r : rib) (fam : N) (v6 : bool) (q : rq_pfx) : list rq_entry :=
  rq_select r fam (rq_store_more_sel v6 (rq_tree r fam) q).

(* ---------------------------------------------------------------- the answer *)
Record rq_answer := MkAns { a_data : list rq_entry; a_less : option (list rq_entry); a_more : option (list rq_entry) }.

Definition rq_fam (v6 multicast : bool) : N := (if v6 then 1 else 0) + (if multicast then 2 else 0).

Definition rq_keep (f : rq_filters) (tbl : rq_tbl) (reg : rq_reg) (e : rq_entry) : bool :=
  rq_pass f (tbl (e_attrs e)) (reg (e_mui e)).

(* Rib::match_prefix + mk_json_response. The multicast store is asked only
   when the unicast answer has no entry for the prefix and neither less nor
   more specifics were requested. *)
Definition rq_answer_gen (exact_store : bool) (r : rib) (tbl : rq_tbl) (reg : rq_reg) (v6 : bool) (q : rq_pfx) (qu : rq_query) : rq_answer :=
  let inc := q_inc qu in
  let keep := filter (rq_keep (q_filters qu) tbl reg) in
  let uni := rq_store_data r (rq_fam v6 false) q in
  let data := if rq_is_nil uni && negb (i_less inc) && negb (i_more inc)
              then rq_store_data r (rq_fam v6 true) q else uni in
  MkAns (keep data)
        (if i_less inc then Some (keep (rq_store_less r (rq_fam v6 false) q)) else None)
        (if i_more inc then Some (keep (if exact_store then rq_select r (rq_fam v6 false) (rq_strictly_covers q)
                                        else rq_store_more r (rq_fam v6 false) v6 q)) else None).

(* the code as it is, over the store as it is *)
Definition rq_answer_of := rq_answer_gen false.
(* the code as it is, over a store whose more-specifics iterator is exact
   (used by the driver to tell the two recorded findings apart) *)
Definition rq_answer_mid := rq_answer_gen true.

(* what the PROPERTY demands: every stored entry of the address family, from
   either store, related to q as the section says *)
Definition rq_both (r : rib) (v6 : bool) (sel : rq_pfx -> bool) : list rq_entry :=
  rq_select r (rq_fam v6 false) sel ++ rq_select r (rq_fam v6 true) sel.

Definition rq_answer_spec (r : rib) (tbl : rq_tbl) (reg : rq_reg) (v6 : bool) (q : rq_pfx) (qu : rq_query) : rq_answer :=
  let inc := q_inc qu in
  let keep := filter (rq_keep (q_filters qu) tbl reg) in
  MkAns (keep (rq_both r v6 (rq_pfx_eqb q)))
        (if i_less inc then Some (keep (rq_both r v6 (fun p => rq_strictly_covers p q))) else None)
        (if i_more inc then Some (keep (rq_both r v6 (rq_strictly_covers q))) else None).

(* ---------------------------------------------------------------- the request *)
Inductive rq_response :=
| RNotMine                       (* process_request returns None *)
| RBad                           (* 400 *)
| RDump                          (* 200, diagnostic dump *)
| RJson (a : rq_answer).         (* 200 *)

(* A request for GET <api path><prefix>?<raw query>. The textual form of the
   prefix is not modelled: the request carries the address bits [addr] (32 or
   128 of them) and the length; Prefix::from_str rejects a length beyond the
   family's and non-zero host bits. *)
Record rq_request := MkRequest { rq_v6 : bool; rq_addr : rq_pfx; rq_plen : N; rq_raw : option (list N) }.

Definition rq_prefix_of (rq : rq_request) : option rq_pfx :=
  let bits := if rq_v6 rq then 128 else 32 in
  if (rq_plen rq <=? bits) && forallb negb (skipn (N.to_nat (rq_plen rq)) (rq_addr rq))
  then Some (firstn (N.to_nat (rq_plen rq)) (rq_addr rq)) else None.

Definition rq_handle_with (answer : rib -> rq_tbl -> rq_reg -> bool -> rq_pfx -> rq_query -> rq_answer)
           (lim : rq_limits) (r : rib) (tbl : rq_tbl) (reg : rq_reg) (rq : rq_request) : rq_response :=
  match rq_prefix_of rq with
  | None => RBad
  | Some q =>
    match rq_parse_query lim (rq_v6 rq) (rq_len q) (rq_raw rq) with
    | None => RBad
    | Some qu =>
      match q_format qu with
      | FmtJson => RJson (answer r tbl reg (rq_v6 rq) q qu)
      | FmtDump => RDump
      | FmtBad => RBad
      end
    end
  end.

Definition rq_handle := rq_handle_with rq_answer_of.
Definition rq_handle_spec := rq_handle_with rq_answer_spec.

Definition rq_handle_mid := rq_handle_with rq_answer_mid.

(* ---------------------------------------------------------------- the unit over time
   The query limits are not a constant of the API object: PrefixesApi holds the
   Arc<ArcSwap<QueryLimits>> it shares with RibUnitRunner and loads it for every
   request (request.rs parse_include_param: query_limits.load()); the unit's
   reconfigure path stores the new limits into that cell
   (unit.rs run(), GateStatus::Reconfiguring: arc_self.query_limits.store(..)).
   So the limits are part of the STATE, next to the RIB content, and a request
   is answered from the state at the moment it is handled. *)
Record rq_state := MkSt { st_lim : rq_limits; st_rib : rib }.

Inductive rq_op :=
| OLimits (lim : rq_limits)      (* (re)configuration: query_limits.store(Arc::new(new_query_limits)) *)
| OUpdate (u : update)           (* RibUnitRunner::process_update *)
| ORequest (rq : rq_request).    (* PrefixesApi::process_request *)

Definition rq_step_with (answer : rib -> rq_tbl -> rq_reg -> bool -> rq_pfx -> rq_query -> rq_answer)
           (tbl : rq_tbl) (reg : rq_reg) (s : rq_state) (o : rq_op) : rq_state * option rq_response :=
  match o with
  | OLimits l => (MkSt l (st_rib s), None)
  | OUpdate u => (MkSt (st_lim s) (rib_apply (st_rib s) u), None)
  | ORequest rq => (s, Some (rq_handle_with answer (st_lim s) (st_rib s) tbl reg rq))
  end.

(* the responses a history of operations produces, in order *)
Fixpoint rq_run_with (answer : rib -> rq_tbl -> rq_reg -> bool -> rq_pfx -> rq_query -> rq_answer)
         (tbl : rq_tbl) (reg : rq_reg) (s : rq_state) (ops : list rq_op) : list rq_response :=
  match ops with
  | [] => []
  | o :: rest =>
    let '(s', out) := rq_step_with answer tbl reg s o in
    match out with
    | Some resp => resp :: rq_run_with answer tbl reg s' rest
    | None => rq_run_with answer tbl reg s' rest
    end
  end.

Definition rq_step := rq_step_with rq_answer_of.
Definition rq_step_spec := rq_step_with rq_answer_spec.
Definition rq_step_mid := rq_step_with rq_answer_mid.
Definition rq_run := rq_run_with rq_answer_of.

(* vocabulary of the history theorems *)
Definition rq_is_limits (o : rq_op) : bool := match o with OLimits _ => true | _ => false end.
Definition rq_is_request (o : rq_op) : bool := match o with ORequest _ => true | _ => false end.
Definition rq_count_requests (ops : list rq_op) : nat := length (filter rq_is_request ops).
(* the RIB content after the updates of a history (limits and requests do not touch it) *)
Definition rq_rib_after (r : rib) (ops : list rq_op) : rib :=
  fold_left (fun r o => match o with OUpdate u => rib_apply r u | _ => r end) ops r.
