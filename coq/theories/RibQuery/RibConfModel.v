(* Model of the RIB unit's CONFIGURATION SURFACE as far as C11 depends on it:
     src/units/rib_unit/unit.rs   struct RibUnit      (serde: http_api_path, query_limits; field defaults)
                                  struct QueryLimits  (more_specifics: required once the table is there)
                                  struct MoreSpecifics (shortest_prefix_ipv4 / _ipv6: u8, field defaults
                                                        default_shortest_prefix_ipv4 = 8 / _ipv6 = 19)
                                  RibUnitRunner::new  (http_api_path_for_rib_type: trailing '/' normalised;
                                                       the limits go into the cell PrefixesApi reads)
                                  RibUnitRunner::run, GateStatus::Reconfiguring
                                                      (new limits stored; a changed http_api_path is ignored)
     src/main.rs                  start-up and SIGHUP: a file the loader refuses changes nothing
   "What the TOML file says is what the unit enforces": a function from an
   abstract `[units.<rib>]` table to the effective limits / API path, and the
   unit over a history of loads (start-up, reloads) and requests, on top of
   RibQueryModel's request handler.  The abstract table records, per key, whether
   it is there and what kind of value it has; how the table is written down
   (headers, dotted keys, inline tables, key order) is the generator's business.
   Definitions only; proofs are in RibConfProofs.v. *)
From stdpp Require Import gmap.
From Coq Require Import NArith ZArith List Bool.
From RV Require Import Rib.RibModel PathConf.PathConfModel RibQuery.RibQueryModel.
Import ListNotations.
Local Open Scope N_scope.

(* ---------------------------------------------------------------- the abstract table *)
(* the value a file gives to an integer-typed key *)
Inductive rc_val :=
| VInt (z : Z)        (* a TOML integer *)
| VOther.             (* a value of another TOML type (string, boolean, float, ...) *)

(* `[query_limits.more_specifics]`: each key unset or set; other keys may be there too *)
Record rc_more := MkMore { ms_v4 : option rc_val; ms_v6 : option rc_val; ms_unknown : bool }.

(* the `query_limits` key of the unit *)
Inductive rc_ql :=
| QlAbsent                       (* no such key *)
| QlEmpty                        (* a table without `more_specifics` *)
| QlMore (m : rc_more).          (* a table with a `more_specifics` table *)

(* the unit's table: query_limits and http_api_path (text, if set) *)
Record rc_unit := MkUnit { u_ql : rc_ql; u_path : option (list N) }.

(* ---------------------------------------------------------------- what the deserialiser makes of it *)
(* the documented defaults: MoreSpecifics::default_shortest_prefix_ipv4 / _ipv6 *)
Definition rc_default_v4 : N := 8.
Definition rc_default_v6 : N := 19.
Definition rc_default_limit (v6 : bool) : N := if v6 then rc_default_v6 else rc_default_v4.
(* RibUnit::default_http_api_path: "/prefixes/" *)
Definition rc_default_path : list N := [47; 112; 114; 101; 102; 105; 120; 101; 115; 47].

(* a u8 field with a field-level default: unset = the default, an integer in 0..255 = itself,
   anything else makes the deserialiser refuse the file *)
Definition rc_u8 (dflt : N) (v : option rc_val) : option N :=
  match v with
  | None => Some dflt
  | Some (VInt z) => if ((0 <=? z) && (z <=? 255))%Z then Some (Z.to_N z) else None
  | Some VOther => None
  end.

(* the values such a field takes *)
Definition rc_val_ok (v : option rc_val) : Prop :=
  match v with None => True | Some (VInt z) => (0 <= z <= 255)%Z | Some VOther => False end.

Definition rc_more_limits (m : rc_more) : option rq_limits :=
  match rc_u8 rc_default_v4 (ms_v4 m), rc_u8 rc_default_v6 (ms_v6 m) with
  | Some a, Some b => Some (MkLim a b)
  | _, _ => None
  end.

(* None = the file is refused.  `query_limits` absent: QueryLimits::default() = the two
   documented defaults; a `query_limits` table without `more_specifics`: serde's
   "missing field `more_specifics`" (the field has no default attribute) *)
Definition rc_limits (q : rc_ql) : option rq_limits :=
  match q with
  | QlAbsent => Some (MkLim rc_default_v4 rc_default_v6)
  | QlEmpty => None
  | QlMore m => rc_more_limits m
  end.

(* http_api_path_for_rib_type (physical RIB): trim_end_matches('/') + "/" *)
Fixpoint rc_drop_slashes (rev_p : list N) : list N :=
  match rev_p with
  | c :: r => if c =? 47 then rc_drop_slashes r else rev_p
  | [] => []
  end.
Definition rc_norm_path (p : list N) : list N := rev (rc_drop_slashes (rev p)) ++ [47].
Definition rc_path_of (u : rc_unit) : list N :=
  rc_norm_path (match u_path u with Some p => p | None => rc_default_path end).

(* ---------------------------------------------------------------- the unit over time *)
(* nothing runs (None) until a file is accepted; then: the path it answers at (fixed
   when the unit is created) and RibQueryModel's state (limits in force + RIB content) *)
Record rc_state := MkK { k_path : list N; k_st : rq_state }.

Inductive rc_op :=
| KLoad (u : rc_unit)                      (* start-up / SIGHUP with a file whose rib table is u *)
| KUpdate (u : update)                     (* RibUnitRunner::process_update *)
| KRequest (base : list N) (rq : rq_request).   (* GET <base><prefix>?<raw> *)

Inductive rc_resp :=
| KDown                          (* nothing runs *)
| KNoUnit                        (* no unit answers below that path: 404 *)
| KResp (r : rq_response).

Definition rc_step_with (answer : rib -> rq_tbl -> rq_reg -> bool -> rq_pfx -> rq_query -> rq_answer)
           (tbl : rq_tbl) (reg : rq_reg) (s : option rc_state) (o : rc_op) : option rc_state * option rc_resp :=
  match o, s with
  | KLoad u, None =>
    match rc_limits (u_ql u) with
    | Some l => (Some (MkK (rc_path_of u) (MkSt l rib_empty)), None)
    | None => (None, None)
    end
  | KLoad u, Some k =>
    match rc_limits (u_ql u) with
    | Some l => (Some (MkK (k_path k) (fst (rq_step_with answer tbl reg (k_st k) (OLimits l)))), None)
    | None => (Some k, None)
    end
  | KUpdate u, None => (None, None)
  | KUpdate u, Some k => (Some (MkK (k_path k) (fst (rq_step_with answer tbl reg (k_st k) (OUpdate u)))), None)
  | KRequest _ _, None => (None, Some KDown)
  | KRequest base rq, Some k =>
    if pc_bytes_eqb base (k_path k)
    then (Some k, option_map KResp (snd (rq_step_with answer tbl reg (k_st k) (ORequest rq))))
    else (Some k, Some KNoUnit)
  end.

Fixpoint rc_run_with (answer : rib -> rq_tbl -> rq_reg -> bool -> rq_pfx -> rq_query -> rq_answer)
         (tbl : rq_tbl) (reg : rq_reg) (s : option rc_state) (ops : list rc_op) : list rc_resp :=
  match ops with
  | [] => []
  | o :: rest =>
    let '(s', out) := rc_step_with answer tbl reg s o in
    match out with
    | Some resp => resp :: rc_run_with answer tbl reg s' rest
    | None => rc_run_with answer tbl reg s' rest
    end
  end.

Definition rc_step := rc_step_with rq_answer_of.
Definition rc_step_spec := rc_step_with rq_answer_spec.
Definition rc_run := rc_run_with rq_answer_of.

(* ---------------------------------------------------------------- vocabulary of the theorems *)
(* what a history of the unit is at the level of RibQueryModel, for a unit answering at [path]:
   an accepted file = OLimits of its limits, a refused file = nothing, a request elsewhere = nothing *)
Definition rc_lower_op (path : list N) (o : rc_op) : list rq_op :=
  match o with
  | KLoad u => match rc_limits (u_ql u) with Some l => [OLimits l] | None => [] end
  | KUpdate u => [OUpdate u]
  | KRequest base rq => if pc_bytes_eqb base path then [ORequest rq] else []
  end.
Definition rc_lower (path : list N) (h : list rc_op) : list rq_op := flat_map (rc_lower_op path) h.

(* the responses of the unit itself *)
Definition rc_hits (rs : list rc_resp) : list rq_response :=
  flat_map (fun r => match r with KResp x => [x] | _ => [] end) rs.

(* the limit of a family as the file states it: the key's value if set (and a u8), its default if not *)
Definition rc_stated (v6 : bool) (m : rc_more) : option rc_val := if v6 then ms_v6 m else ms_v4 m.
