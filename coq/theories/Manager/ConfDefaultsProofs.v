(* Proofs about ConfDefaultsModel: an unset key means its documented default, a set key its value. *)
From stdpp Require Import gmap.
From Coq Require Import NArith ZArith List Bool Lia.
From RV Require Import Manager.ConfDefaultsModel.
Import ListNotations.
Local Open Scope N_scope.

(* which tables are accepted: every field on its own is unset or has a fitting value *)
Theorem effective_accepts t fs :
  cd_effective t fs <> None <->
  forall f, In f fs -> match t (f_key f) with None => True | Some v => cd_fits (f_kind f) v = true end.
Proof.
  induction fs as [|f fs IH]; cbn [cd_effective].
  - split; [intros _ f []|discriminate].
  - unfold cd_field_eff at 1. split.
    + intros H g [<-|Hg].
      * destruct (t (f_key f)) as [v|]; [|exact I]. destruct (cd_fits (f_kind f) v); [reflexivity|]. contradiction H. reflexivity.
      * apply IH; [|exact Hg]. intros E. apply H. rewrite E.
        destruct (t (f_key f)) as [v|]; [destruct (cd_fits (f_kind f) v)|]; reflexivity.
    + intros H. pose proof (H f (or_introl eq_refl)) as Hf.
      assert (Hr : cd_effective t fs <> None) by (apply IH; intros g Hg; apply H; right; exact Hg).
      destruct (cd_effective t fs) as [e|]; [|contradiction Hr; reflexivity].
      destruct (t (f_key f)) as [v|]; [rewrite Hf|]; discriminate.
Qed.

(* THE KEY SEMANTICS: in the settings of an accepted table every field of the schema has
   the file's value if the key is set and the documented default if it is not - whatever
   the table says about the other keys *)
Theorem effective_key_semantics t fs e :
  NoDup (cd_keys fs) -> cd_effective t fs = Some e ->
  forall f, In f fs ->
    cd_lookup (f_key f) e = Some (match t (f_key f) with Some v => v | None => f_default f end).
Proof.
  revert e. induction fs as [|g fs IH]; intros e Hnd He f Hin; [inversion Hin|].
  cbn [cd_effective] in He.
  destruct (cd_field_eff t g) as [v|] eqn:Ev; [|discriminate].
  destruct (cd_effective t fs) as [e'|] eqn:Ee; [|discriminate].
  injection He as <-. cbn [cd_keys map] in Hnd. apply NoDup_cons_iff in Hnd as [Hnot Hnd].
  cbn [cd_lookup]. destruct Hin as [->|Hin].
  - rewrite N.eqb_refl. f_equal. unfold cd_field_eff in Ev.
    destruct (t (f_key f)) as [w|]; [destruct (cd_fits (f_kind f) w); [|discriminate]|]; injection Ev as <-; reflexivity.
  - destruct (f_key f =? f_key g) eqn:E.
    + apply N.eqb_eq in E. exfalso. apply Hnot. rewrite <- E. apply in_map. exact Hin.
    + apply (IH e' Hnd eq_refl f Hin).
Qed.

(* independence: two accepted tables that agree on a key give that field the same setting *)
Theorem effective_keys_independent t t' fs e e' f :
  NoDup (cd_keys fs) -> cd_effective t fs = Some e -> cd_effective t' fs = Some e' -> In f fs ->
  t (f_key f) = t' (f_key f) -> cd_lookup (f_key f) e = cd_lookup (f_key f) e'.
Proof.
  intros Hnd He He' Hin Ht.
  rewrite (effective_key_semantics t fs e Hnd He f Hin), (effective_key_semantics t' fs e' Hnd He' f Hin), Ht. reflexivity.
Qed.

(* the schemas of the pinned code: distinct keys, and the empty table gives the documented values *)
Theorem schemas_documented :
  NoDup (cd_keys cd_bmp_schema) /\ NoDup (cd_keys cd_rib_schema) /\ NoDup (cd_keys cd_mqtt_schema) /\
  cd_effective (fun _ => None) cd_bmp_schema = Some [(0, DStr s_routers); (1, DStr s_sys_name)] /\
  cd_effective (fun _ => None) cd_rib_schema = Some [(0, DStr s_prefixes)] /\
  cd_effective (fun _ => None) cd_mqtt_schema = Some [(0, DInt 2); (1, DStr s_topic); (2, DInt 60); (3, DInt 5); (4, DInt 1000)].
Proof.
  repeat split; try reflexivity; cbn [cd_keys map cd_bmp_schema cd_rib_schema cd_mqtt_schema f_key];
    repeat (apply NoDup_cons; [cbn [In]; intros H; repeat (destruct H as [H|H]; [discriminate H|]); exact H|]); apply NoDup_nil.
Qed.

(* a partial mqtt-out table: only qos and queue_size set - the other three at their documented
   values; a queue_size beyond u16 / a string where seconds are expected: refused *)
Lemma defaults_example :
  let t := fun k => if k =? 0 then Some (DInt 1) else if k =? 4 then Some (DInt 10) else None in
  cd_effective t cd_mqtt_schema = Some [(0, DInt 1); (1, DStr s_topic); (2, DInt 60); (3, DInt 5); (4, DInt 10)] /\
  cd_effective (fun k => if k =? 4 then Some (DInt 65536) else None) cd_mqtt_schema = None /\
  cd_effective (fun k => if k =? 2 then Some (DStr [54; 48]) else None) cd_mqtt_schema = None.
Proof. vm_compute. repeat split. Qed.
