(* Field-level configuration defaults of the units and targets that C13 anchors:
   the settings a component is started (or reconfigured) with, as a function of
   the keys its TOML table sets.
     src/units/bmp_tcp_in/unit.rs   BmpTcpIn  http_api_path ("/routers/"), router_id_template ("{sys_name}")
     src/units/rib_unit/unit.rs     RibUnit   http_api_path ("/prefixes/")          (query_limits: RibQuery/RibConfModel.v)
     src/targets/mqtt/config.rs     Config    qos (2), topic_template ("rotonda/{id}"), connect_retry_secs (60),
                                              publish_max_secs (5), queue_size (1000)
   Each of these fields has `#[serde(default = "<fn>")]` with a value that is NOT the
   default of the field's type (and, for mqtt-out, not what the derived `Config::default()`
   gives either): a key the file leaves out must come out as the documented value.
   A schema lists the fields of a table (key, kind, documented default); a table maps a key
   to the value the file gives it, if any.  Definitions only. *)
From stdpp Require Import gmap.
From Coq Require Import NArith ZArith List Bool.
Import ListNotations.
Local Open Scope N_scope.

(* the value a file gives to a key *)
Inductive cd_val :=
| DInt (z : Z)              (* a TOML integer *)
| DStr (s : list N)         (* a TOML string (bytes) *)
| DOther.                   (* a value of another type *)

Inductive cd_kind :=
| KStr                      (* String *)
| KI32                      (* i32 *)
| KU16                      (* u16 *)
| KSecs.                    (* Duration through serde_with::DurationSeconds<u64> (strict: integers only) *)

Record cd_field := MkField { f_key : N; f_kind : cd_kind; f_default : cd_val }.
Definition cd_table := N -> option cd_val.

(* the values the deserialiser takes for a field of that kind (TOML integers are i64) *)
Definition cd_fits (k : cd_kind) (v : cd_val) : bool :=
  match k, v with
  | KStr, DStr _ => true
  | KI32, DInt z => ((-2147483648 <=? z) && (z <=? 2147483647))%Z
  | KU16, DInt z => ((0 <=? z) && (z <=? 65535))%Z
  | KSecs, DInt z => ((0 <=? z) && (z <=? 9223372036854775807))%Z
  | _, _ => false
  end.

(* one field: unset = the documented default; set to a fitting value = that value; otherwise the file is refused *)
Definition cd_field_eff (t : cd_table) (f : cd_field) : option cd_val :=
  match t (f_key f) with
  | None => Some (f_default f)
  | Some v => if cd_fits (f_kind f) v then Some v else None
  end.

(* the settings the component gets: every field of the schema, or nothing (file refused) *)
Fixpoint cd_effective (t : cd_table) (fs : list cd_field) : option (list (N * cd_val)) :=
  match fs with
  | [] => Some []
  | f :: rest =>
    match cd_field_eff t f, cd_effective t rest with
    | Some v, Some e => Some ((f_key f, v) :: e)
    | _, _ => None
    end
  end.

Fixpoint cd_lookup (k : N) (e : list (N * cd_val)) : option cd_val :=
  match e with
  | [] => None
  | (k', v) :: r => if k =? k' then Some v else cd_lookup k r
  end.

(* ---------------------------------------------------------------- the schemas (keys numbered per table) *)
Definition s_routers : list N := [47; 114; 111; 117; 116; 101; 114; 115; 47].                      (* "/routers/" *)
Definition s_sys_name : list N := [123; 115; 121; 115; 95; 110; 97; 109; 101; 125].                 (* "{sys_name}" *)
Definition s_prefixes : list N := [47; 112; 114; 101; 102; 105; 120; 101; 115; 47].                 (* "/prefixes/" *)
Definition s_topic : list N := [114; 111; 116; 111; 110; 100; 97; 47; 123; 105; 100; 125].          (* "rotonda/{id}" *)

(* bmp-tcp-in: 0 http_api_path, 1 router_id_template *)
Definition cd_bmp_schema : list cd_field := [MkField 0 KStr (DStr s_routers); MkField 1 KStr (DStr s_sys_name)].
(* rib: 0 http_api_path *)
Definition cd_rib_schema : list cd_field := [MkField 0 KStr (DStr s_prefixes)].
(* mqtt-out: 0 qos, 1 topic_template, 2 connect_retry_secs, 3 publish_max_secs, 4 queue_size *)
Definition cd_mqtt_schema : list cd_field :=
  [MkField 0 KI32 (DInt 2); MkField 1 KStr (DStr s_topic); MkField 2 KSecs (DInt 60); MkField 3 KSecs (DInt 5); MkField 4 KU16 (DInt 1000)].

Definition cd_keys (fs : list cd_field) : list N := map f_key fs.
