(* Model of rotonda's configuration (re)load path. Definitions only; proofs
   are in ReloadProofs.v.

   Mirrors
     src/config.rs   ConfigFile::new (TOML pre-processing: shorthand vRIB
                     expansion, remap_sources)
     src/manager.rs  Manager::load (serde deserialisation; every Link that is
                     deserialised calls load_link, which fills the
                     thread-local GATES table), Manager::prepare (drains
                     GATES, rejects unresolved links, fills pending_gates),
                     Manager::spawn_internal (diff of the new configuration
                     against running_units / running_targets by name and type
                     discriminant; Coordinator::track)
     src/main.rs     the SIGHUP sequence ConfigFile::load ->
                     Config::from_config_file -> Manager::spawn.

   Three variants of the same functions:
     Legacy  the code at the pinned commit (e224a89)
     Fixed   the code with the three `fix:` commits of the C13 work
             (remap_sources leaves non-string values to serde; load starts
             from an empty GATES table; prepare commits pending_gates only on
             success and replaces the old content)
     Ideal   Fixed without the Coordinator::track panic for a unit and a
             target of the same name that are started in the same spawn
             (known finding) -- this is what the property demands.

   Maps are association lists (first match wins); every list that the code
   keeps in a HashMap is only ever compared up to order. *)
From Coq Require Import NArith List Bool.
Import ListNotations.
Local Open Scope N_scope.

Inductive variant := Legacy | Fixed | Ideal.
Definition is_legacy (v : variant) : bool := match v with Legacy => true | _ => false end.
Definition track_panics (v : variant) : bool := match v with Ideal => false | _ => true end.

(* ---------- names ---------- *)
(* (k, None) is the user-chosen name number k; (k, Some i) is the generated
   name "<k>-vRIB-<i>" of the shorthand expansion. *)
Definition name := (N * option N)%type.

Definition optN_eqb (a b : option N) : bool :=
  match a, b with Some x, Some y => N.eqb x y | None, None => true | _, _ => false end.
Definition name_eqb (a b : name) : bool := N.eqb (fst a) (fst b) && optN_eqb (snd a) (snd b).
(* the order of the keys of the re-serialised TOML document (BTreeMap):
   "n03" < "n03-vRIB-0" < "n03-vRIB-1" < "n04" *)
Definition name_leb (a b : name) : bool :=
  if N.ltb (fst a) (fst b) then true
  else if N.eqb (fst a) (fst b) then
    match snd a, snd b with
    | None, _ => true
    | Some _, None => false
    | Some x, Some y => N.leb x y
    end
  else false.

Definition mem (n : name) (l : list name) : bool := existsb (name_eqb n) l.
Fixpoint nodupb (l : list name) : bool :=
  match l with [] => true | x :: r => negb (mem x r) && nodupb r end.

Fixpoint alookup {A} (n : name) (l : list (name * A)) : option A :=
  match l with
  | [] => None
  | (k, x) :: r => if name_eqb k n then Some x else alookup n r
  end.
Definition names {A} (l : list (name * A)) : list name := map fst l.

(* ---------- abstract TOML document ---------- *)
Inductive kind := KUnit | KTarget.

(* the value of the `sources` key *)
Inductive srcs :=
| SNone                              (* key absent *)
| SOne (n : name)                    (* a string *)
| SMany (l : list (option name))     (* an array; None = an element that is not a string *)
| SBad.                              (* any other value, e.g. an integer *)

(* unit types: 0 bgp-tcp-in, 1 bmp-tcp-in, 2 filter, 3 rib, 4 mrt-file-in, >= 5 unknown
   target types: 0 file-out, 1 mqtt-out, 2 null-out, >= 3 unknown *)
Record comp := MkComp {
  c_ty : N;
  c_src : srcs;
  c_ok : bool;            (* the other settings of the section are well-formed *)
  c_vribs : N;            (* rib only: length of `filter_names` (0 = key absent) *)
  c_cfg : N;              (* a settings value (listen address, filter name, path, ...) *)
  c_up : option name }.   (* rib only: `vrib_upstream`, written by the expansion *)

Record doc := MkDoc {
  d_syntax : bool;        (* the text is TOML *)
  d_top : bool;           (* the top-level keys are those of Config *)
  d_units : list (name * comp);
  d_targets : list (name * comp) }.

(* ---------- ConfigFile::new ---------- *)
Definition expands (c : comp) : bool := N.eqb (c_ty c) 3 && N.leb 2 (c_vribs c).

(* the chain <k>-vRIB-0 .. <k>-vRIB-(count-1): copies of the physical rib's
   section with sources = [previous], vrib_upstream = <k> *)
Fixpoint vrib_chain (k : N) (c : comp) (prev : name) (i : N) (count : nat) : list (name * comp) :=
  match count with
  | O => []
  | S count' =>
      let nm : name := (k, Some i) in
      (nm, MkComp 3 (SMany [Some prev]) (c_ok c) 0 (c_cfg c) (Some (k, None)))
        :: vrib_chain k c nm (i + 1) count'
  end.

Definition extra_of (p : name * comp) : list (name * comp) :=
  let '(n, c) := p in
  if expands c then vrib_chain (fst n) c n 0 (N.to_nat (c_vribs c - 1)) else [].

(* source_remappings: the physical rib is replaced as a source by its last vRIB *)
Definition remap_of (p : name * comp) : list (name * name) :=
  let '(n, c) := p in
  if expands c then [(n, (fst n, Some (c_vribs c - 2)))] else [].

Definition remap_name (rm : list (name * name)) (s : name) : name :=
  match alookup s rm with Some t => t | None => s end.

Definition remap_srcs (rm : list (name * name)) (s : srcs) : srcs :=
  match s with
  | SOne n => SOne (remap_name rm n)
  | SMany l => SMany (map (option_map (remap_name rm)) l)
  | _ => s
  end.

Definition remap_comp (rm : list (name * name)) (p : name * comp) : name * comp :=
  let '(n, c) := p in
  (n, MkComp (c_ty c) (remap_srcs rm (c_src c)) (c_ok c) (c_vribs c) (c_cfg c) (c_up c)).

(* the values on which remap_sources runs into `unreachable!()` *)
Definition bad_src (s : srcs) : bool :=
  match s with
  | SBad => true
  | SMany l => existsb (fun o => match o with None => true | Some _ => false end) l
  | _ => false
  end.

Definition expand (d : doc) : doc :=
  let rm := flat_map remap_of (d_units d) in
  MkDoc (d_syntax d) (d_top d)
        (map (remap_comp rm) (d_units d) ++ flat_map extra_of (d_units d))
        (map (remap_comp rm) (d_targets d)).

Inductive cfres := CfErr | CfPanic | CfOk (d : doc).

Definition cf_new (v : variant) (d : doc) : cfres :=
  if negb (d_syntax d) || negb (nodupb (names (d_units d))) || negb (nodupb (names (d_targets d)))
  then CfErr                                   (* toml parse error (duplicate keys included) *)
  else if is_legacy v && existsb (fun p => bad_src (c_src (snd p))) (d_units d ++ d_targets d)
  then CfPanic
  else CfOk (expand d).

(* ---------- Manager::load: deserialisation, load_link ---------- *)
(* GATES / pending_gates: name -> identity of the gate. A gate is identified
   by the number of the load that created it. *)
Definition gates := list (name * N).

Definition all_some (l : list (option name)) : option (list name) :=
  fold_right (fun o acc => match o, acc with Some x, Some r => Some (x :: r) | _, _ => None end) (Some []) l.

(* which `sources` values the serde definitions of the eight component types
   accept, and the links they create *)
Definition src_accept (k : kind) (ty : N) (s : srcs) : option (list name) :=
  match k with
  | KUnit =>
      if N.eqb ty 2 || N.eqb ty 3 then                  (* NonEmpty<DirectLink> *)
        match s with
        | SMany (x :: r) => all_some (x :: r)
        | _ => None
        end
      else Some []                                      (* no such field: ignored *)
  | KTarget =>
      if N.eqb ty 0 then                                (* Link *)
        match s with SOne n => Some [n] | _ => None end
      else if N.eqb ty 1 then                           (* NonEmpty<DirectLink> *)
        match s with
        | SMany (x :: r) => all_some (x :: r)
        | _ => None
        end
      else                                              (* null-out: OneOrMany *)
        match s with
        | SOne n => Some [n]
        | SMany l => all_some l
        | _ => None
        end
  end.

Definition known_type (k : kind) (ty : N) : bool :=
  match k with KUnit => N.ltb ty 5 | KTarget => N.ltb ty 3 end.
(* null-out has no setting besides its sources *)
Definition has_settings (k : kind) (ty : N) : bool :=
  match k with KUnit => true | KTarget => negb (N.eqb ty 2) end.

(* the names a section links to, or None when its deserialisation fails *)
Definition comp_links (k : kind) (c : comp) : option (list name) :=
  if negb (known_type k (c_ty c)) then None
  else if has_settings k (c_ty c) && negb (c_ok c) then None
  else match src_accept k (c_ty c) (c_src c) with
       | None => None
       | Some l => Some (l ++ match c_up c with Some u => [u] | None => [] end)
       end.

(* load_link: GATES.entry(name).or_insert_with(new gate) *)
Definition load_link (gen : N) (g : gates) (n : name) : (name * N) * gates :=
  match alookup n g with
  | Some k => ((n, k), g)
  | None => ((n, gen), (n, gen) :: g)
  end.

Fixpoint load_links (gen : N) (g : gates) (l : list name) : list (name * N) * gates :=
  match l with
  | [] => ([], g)
  | n :: r =>
      let '(x, g1) := load_link gen g n in
      let '(xs, g2) := load_links gen g1 r in
      (x :: xs, g2)
  end.

(* a deserialised component: type, settings, links (name of the upstream
   unit, identity of the gate the link belongs to) *)
Record lcomp := MkL { lc_ty : N; lc_cfg : N; lc_links : list (name * N) }.

Fixpoint load_comps (k : kind) (gen : N) (g : gates) (l : list (name * comp))
  : option (list (name * lcomp)) * gates :=
  match l with
  | [] => (Some [], g)
  | (n, c) :: r =>
      match comp_links k c with
      | None => (None, g)
      | Some ns =>
          let '(lk, g1) := load_links gen g ns in
          let '(res, g2) := load_comps k gen g1 r in
          (option_map (cons (n, MkL (c_ty c) (c_cfg c) lk)) res, g2)
      end
  end.

Fixpoint insert_sorted {A} (p : name * A) (l : list (name * A)) : list (name * A) :=
  match l with
  | [] => [p]
  | q :: r => if name_leb (fst p) (fst q) then p :: q :: r else q :: insert_sorted p r
  end.
Definition sort_by_name {A} (l : list (name * A)) : list (name * A) := fold_right insert_sorted [] l.

Record lconfig := MkLC { l_units : list (name * lcomp); l_targets : list (name * lcomp) }.

Record rcomp := MkR { r_ty : N; r_gate : N; r_cfg : N; r_links : list (name * N) }.

Record mgr := MkM {
  m_units : list (name * rcomp);     (* running_units  (+ what each was last told) *)
  m_targets : list (name * rcomp);   (* running_targets *)
  m_pending : gates;                 (* pending_gates *)
  m_gates : gates;                   (* thread-local GATES *)
  m_gen : N }.                       (* number of loads so far *)

Definition mgr_new : mgr := MkM [] [] [] [] 0.

(* Config::from_bytes on the re-serialised document: keys in sorted order,
   `targets` before `units`; stops at the first error. Returns the new GATES
   table as well. *)
Definition mgr_load (v : variant) (m : mgr) (d : doc) : option lconfig * gates :=
  let gen := m_gen m + 1 in
  let g0 := if is_legacy v then m_gates m else [] in
  let '(ts, g1) := load_comps KTarget gen g0 (sort_by_name (d_targets d)) in
  match ts with
  | None => (None, g1)
  | Some ts =>
      let '(us, g2) := load_comps KUnit gen g1 (sort_by_name (d_units d)) in
      match us with
      | None => (None, g2)
      | Some us =>
          (* unknown top-level keys are rejected (deny_unknown_fields) once
             `targets` and `units` have been deserialised *)
          if d_top d then (Some (MkLC us ts), g2) else (None, g2)
      end
  end.

(* ---------- Manager::prepare ---------- *)
(* Legacy: gates are moved to pending_gates one by one until the first
   unresolved one is met (the code iterates a HashMap; the model takes the
   name order, one of the possible orders). *)
Fixpoint prepare_legacy (unit_names : list name) (g : gates) (pending : gates) : bool * gates :=
  match g with
  | [] => (true, pending)
  | (n, k) :: r =>
      if mem n unit_names then prepare_legacy unit_names r ((n, k) :: pending)
      else (false, pending)
  end.

Definition prepare (v : variant) (m : mgr) (lc : lconfig) (g : gates) : bool * mgr :=
  let un := names (l_units lc) in
  if is_legacy v then
    let '(ok, p) := prepare_legacy un (sort_by_name g) (m_pending m) in
    (ok, MkM (m_units m) (m_targets m) p [] (m_gen m))
  else if forallb (fun p => mem (fst p) un) g
  then (true, MkM (m_units m) (m_targets m) g [] (m_gen m))
  else (false, MkM (m_units m) (m_targets m) (m_pending m) [] (m_gen m)).

(* ---------- Manager::spawn_internal ---------- *)
Inductive action :=
| ASpawn (k : kind) (n : name)
| AReconf (k : kind) (n : name)
| ATerm (k : kind) (n : name).

(* the gate a component of the new configuration is started with: a unit
   needs a pending gate (some section links to it), a target needs none *)
Definition gate_for (k : kind) (pending : gates) (n : name) : option N :=
  match k with KUnit => alookup n pending | KTarget => Some 0 end.

(* one iteration of the loops over config.targets / config.units *)
Definition comp_actions (k : kind) (running : list (name * rcomp)) (pending : gates) (p : name * lcomp) : list action :=
  let '(n, lc) := p in
  match gate_for k pending n with
  | None => match alookup n running with Some _ => [ATerm k n] | None => [] end   (* unused unit *)
  | Some _ =>
      match alookup n running with
      | Some r => if N.eqb (r_ty r) (lc_ty lc) then [AReconf k n] else [ATerm k n; ASpawn k n]
      | None => [ASpawn k n]
      end
  end.

Definition started (k : kind) (pending : gates) (p : name * lcomp) : list (name * rcomp) :=
  let '(n, lc) := p in
  match gate_for k pending n with
  | Some g => [(n, MkR (lc_ty lc) g (lc_cfg lc) (lc_links lc))]
  | None => []
  end.

Definition gone (k : kind) (new_names : list name) (running : list (name * rcomp)) : list action :=
  map (fun p => ATerm k (fst p)) (filter (fun p => negb (mem (fst p) new_names)) running).

Definition spawned (k : kind) (acts : list action) : list name :=
  flat_map (fun a => match a with
                     | ASpawn k' n => match k, k' with KUnit, KUnit | KTarget, KTarget => [n] | _, _ => [] end
                     | _ => [] end) acts.

(* Coordinator::track is called once per started component, keyed by name
   only: a second call with the same name hits `unreachable!()` *)
Definition track_clash (acts : list action) : bool :=
  existsb (fun n => mem n (spawned KTarget acts)) (spawned KUnit acts).

Definition kind_actions (k : kind) (running : list (name * rcomp)) (pending : gates) (l : list (name * lcomp)) : list action :=
  flat_map (comp_actions k running pending) l ++ gone k (names l) running.

Definition spawn (m : mgr) (lc : lconfig) : list action * mgr :=
  let acts :=
    kind_actions KTarget (m_targets m) (m_pending m) (l_targets lc)
    ++ kind_actions KUnit (m_units m) (m_pending m) (l_units lc) in
  (acts,
   MkM (flat_map (started KUnit (m_pending m)) (l_units lc))
       (flat_map (started KTarget (m_pending m)) (l_targets lc))
       (filter (fun p => negb (mem (fst p) (names (l_units lc)))) (m_pending m))
       (m_gates m) (m_gen m)).

(* ---------- one (re)load, as main.rs drives it ---------- *)
Inductive rres := RPanic | RErr | ROk (acts : list action).

Definition reload (v : variant) (m : mgr) (d : doc) : rres * mgr :=
  match cf_new v d with
  | CfErr => (RErr, m)
  | CfPanic => (RPanic, m)
  | CfOk xd =>
      let '(olc, g) := mgr_load v m xd in
      let m1 := MkM (m_units m) (m_targets m) (m_pending m) g (m_gen m + 1) in
      match olc with
      | None => (RErr, m1)
      | Some lc =>
          let '(ok, m2) := prepare v m1 lc g in
          if ok then
            let '(acts, m3) := spawn m2 lc in
            if track_panics v && track_clash acts then (RPanic, m3) else (ROk acts, m3)
          else (RErr, m2)
      end
  end.

(* a history of loads; None = the process panicked *)
Fixpoint run_from (v : variant) (m : mgr) (h : list doc) : option mgr :=
  match h with
  | [] => Some m
  | d :: h' =>
      match reload v m d with
      | (RPanic, _) => None
      | (_, m') => run_from v m' h'
      end
  end.
Definition run (v : variant) (h : list doc) : option mgr := run_from v mgr_new h.

(* ---------- what can be seen of a manager ---------- *)
(* a link reaches the unit of its name if that unit runs and its gate is the
   one the link was made for (a unit that is reconfigured takes over the new
   gate: comms.rs, GateCommand::Reconfigure) *)
Definition resolve (m : mgr) (l : name * N) : option name :=
  match alookup (fst l) (m_units m) with
  | Some u => if N.eqb (r_gate u) (snd l) then Some (fst l) else None
  | None => None
  end.
Definition wiring (m : mgr) (r : rcomp) : list (option name) := map (resolve m) (r_links r).

(* ---------- what the property asks for (spec side) ---------- *)
(* validity of a document does not depend on the manager's state *)
Definition all_links (d : doc) : list name :=
  flat_map (fun p => match comp_links KTarget (snd p) with Some l => l | None => [] end) (d_targets d)
  ++ flat_map (fun p => match comp_links KUnit (snd p) with Some l => l | None => [] end) (d_units d).

Definition doc_ok (d : doc) : bool :=
  d_syntax d && nodupb (names (d_units d)) && nodupb (names (d_targets d)) && d_top d
  && forallb (fun p => match comp_links KTarget (snd p) with Some _ => true | None => false end) (d_targets (expand d))
  && forallb (fun p => match comp_links KUnit (snd p) with Some _ => true | None => false end) (d_units (expand d))
  && forallb (fun n => mem n (names (d_units (expand d)))) (all_links (expand d)).

(* a unit is used when some section of the file links to it *)
Definition used (xd : doc) (n : name) : bool := mem n (all_links xd).

(* the running components and their wiring are those of the (expanded) file *)
Definition reflects (xd : doc) (m : mgr) : Prop :=
  (forall n, In n (names (m_units m)) <-> In n (names (d_units xd)) /\ used xd n = true) /\
  (forall n, In n (names (m_targets m)) <-> In n (names (d_targets xd))) /\
  (forall n r, In (n, r) (m_units m) ->
     exists c l, In (n, c) (d_units xd) /\ comp_links KUnit c = Some l /\
       r_ty r = c_ty c /\ r_cfg r = c_cfg c /\ wiring m r = map Some l) /\
  (forall n r, In (n, r) (m_targets m) ->
     exists c l, In (n, c) (d_targets xd) /\ comp_links KTarget c = Some l /\
       r_ty r = c_ty c /\ r_cfg r = c_cfg c /\ wiring m r = map Some l).

Definition nothing_runs (m : mgr) : Prop := m_units m = [] /\ m_targets m = [].

Fixpoint last_good_from (o : option doc) (h : list doc) : option doc :=
  match h with
  | [] => o
  | d :: h' => last_good_from (if doc_ok d then Some d else o) h'
  end.
Definition last_good (h : list doc) : option doc := last_good_from None h.

Definition settled (o : option doc) (m : mgr) : Prop :=
  match o with None => nothing_runs m | Some d => reflects (expand d) m end.

Definition running_type (l : list (name * rcomp)) (n : name) : option N := option_map r_ty (alookup n l).

(* no generated or user-chosen unit name is also a target name *)
Definition names_apart (d : doc) : bool :=
  forallb (fun n => negb (mem n (names (d_targets (expand d))))) (names (d_units (expand d))).

(* the actions of one kind are exactly the difference between what ran
   before and what runs after *)
Definition exact_actions (k : kind) (before after : list (name * rcomp)) (acts : list action) : Prop :=
  forall n,
    (In (ASpawn k n) acts <-> exists r, In (n, r) after /\ running_type before n <> Some (r_ty r)) /\
    (In (AReconf k n) acts <-> exists r, In (n, r) after /\ running_type before n = Some (r_ty r)) /\
    (In (ATerm k n) acts <->
       In n (names before) /\
       (~ In n (names after) \/ exists r, In (n, r) after /\ running_type before n <> Some (r_ty r))).

(* ---------- witnesses used by the refutation lemmas ---------- *)
Definition u (k : N) : name := (k, None).
Definition src_unit (ty : N) : comp := MkComp ty SNone true 0 7 None.
Definition null_out (s : srcs) : comp := MkComp 2 s true 0 0 None.

(* sources = 3 in a filter unit *)
Definition wit_bad_sources : doc :=
  MkDoc true true [(u 1, src_unit 1); (u 2, MkComp 2 SBad true 0 7 None)] [(u 11, null_out (SOne (u 1)))].
(* a rib unit whose source does not exist, followed by a unit of unknown type *)
Definition wit_fails_in_deser : doc :=
  MkDoc true true [(u 1, src_unit 1); (u 2, MkComp 3 (SMany [Some (u 9)]) true 0 1 None); (u 3, src_unit 9)]
        [(u 11, null_out (SOne (u 1)))].
Definition wit_small_valid : doc :=
  MkDoc true true [(u 1, src_unit 1)] [(u 11, null_out (SOne (u 1)))].
(* a target with one unresolved source among resolved ones *)
Definition wit_unresolved : doc :=
  MkDoc true true [(u 1, src_unit 1); (u 2, src_unit 1); (u 3, src_unit 1)]
        [(u 11, null_out (SMany [Some (u 1); Some (u 2); Some (u 3); Some (u 9)]))].
Definition wit_two_unused : doc :=
  MkDoc true true [(u 1, src_unit 1); (u 2, src_unit 1); (u 3, src_unit 1)]
        [(u 11, null_out (SMany [Some (u 1)]))].
(* a unit and a target both called 1 *)
Definition wit_same_name : doc :=
  MkDoc true true [(u 1, src_unit 1)] [(u 1, null_out (SOne (u 1)))].
(* unit 1 is consumed only by filter 2, which nothing consumes *)
Definition wit_chain_unused : doc :=
  MkDoc true true [(u 1, src_unit 1); (u 2, MkComp 2 (SMany [Some (u 1)]) true 0 1 None); (u 3, src_unit 1)]
        [(u 11, null_out (SOne (u 3)))].
(* a pipeline with a shorthand rib: bmp -> rib with 3 filters -> filter -> null / file / mqtt *)
Definition wit_pipeline : doc :=
  MkDoc true true
        [(u 1, src_unit 1); (u 2, MkComp 3 (SMany [Some (u 1)]) true 3 4 None);
         (u 3, MkComp 2 (SMany [Some (u 2)]) true 0 1 None); (u 4, src_unit 4)]
        [(u 11, null_out (SOne (u 2))); (u 12, MkComp 0 (SOne (u 3)) true 0 5 None);
         (u 13, MkComp 1 (SMany [Some (u 2); Some (u 3)]) true 0 6 None)].
