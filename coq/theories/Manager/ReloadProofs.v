(* Proofs about the configuration (re)load model. *)
From Coq Require Import NArith List Bool Lia Btauto.
From RV Require Import Manager.ReloadModel.
Import ListNotations.
Local Open Scope N_scope.

(* ---------- names, association lists ---------- *)
Lemma optN_eqb_eq a b : optN_eqb a b = true <-> a = b.
Proof.
  destruct a, b; cbn; try (split; congruence).
  rewrite N.eqb_eq. split; congruence.
Qed.

Lemma name_eqb_eq (a b : name) : name_eqb a b = true <-> a = b.
Proof.
  destruct a as [a1 a2], b as [b1 b2]; unfold name_eqb; cbn.
  rewrite andb_true_iff, N.eqb_eq, optN_eqb_eq.
  split; [intros [-> ->]; reflexivity | intros [= -> ->]; auto].
Qed.

Lemma name_eqb_refl a : name_eqb a a = true.
Proof. apply name_eqb_eq; reflexivity. Qed.

Lemma mem_In n l : mem n l = true <-> In n l.
Proof.
  unfold mem. rewrite existsb_exists. split.
  - intros (x & Hx & He). apply name_eqb_eq in He. subst. exact Hx.
  - intros H. exists n. split; [exact H | apply name_eqb_refl].
Qed.

Lemma mem_false n l : mem n l = false <-> ~ In n l.
Proof. rewrite <- mem_In. destruct (mem n l); intuition congruence. Qed.

Lemma alookup_Some_In {A} n (l : list (name * A)) x : alookup n l = Some x -> In (n, x) l.
Proof.
  induction l as [|[k y] l IH]; cbn; [discriminate|].
  destruct (name_eqb k n) eqn:E.
  - intros [= ->]. apply name_eqb_eq in E. subst. left; reflexivity.
  - intros H. right. apply IH, H.
Qed.

Lemma alookup_None {A} n (l : list (name * A)) : alookup n l = None <-> ~ In n (names l).
Proof.
  induction l as [|[k y] l IH]; cbn; [intuition|].
  destruct (name_eqb k n) eqn:E.
  - apply name_eqb_eq in E. subst. split; [discriminate | intros H; exfalso; apply H; left; reflexivity].
  - rewrite IH. split.
    + intros H [H1|H1]; [subst; rewrite name_eqb_refl in E; discriminate | auto].
    + intros H H1; apply H; right; exact H1.
Qed.

Lemma in_names {A} n (x : A) l : In (n, x) l -> In n (names l).
Proof. intros H. unfold names. apply in_map_iff. exists (n, x). auto. Qed.

Lemma in_names_ex {A} n (l : list (name * A)) : In n (names l) -> exists x, In (n, x) l.
Proof. unfold names. rewrite in_map_iff. intros ([k x] & <- & H). exists x; exact H. Qed.

Lemma alookup_in_names {A} n (l : list (name * A)) :
  In n (names l) -> exists x, alookup n l = Some x /\ In (n, x) l.
Proof.
  intros H. destruct (alookup n l) as [x|] eqn:E.
  - exists x; split; [reflexivity | apply alookup_Some_In, E].
  - apply alookup_None in E; contradiction.
Qed.

Lemma alookup_Some_names {A} n (l : list (name * A)) x : alookup n l = Some x -> In n (names l).
Proof. intros H. eapply in_names, alookup_Some_In, H. Qed.

Lemma insert_sorted_In {A} (p q : name * A) l : In q (insert_sorted p l) <-> p = q \/ In q l.
Proof.
  induction l as [|r l IH]; cbn; [intuition|].
  destruct (name_leb (fst p) (fst r)); cbn; [intuition | rewrite IH; intuition].
Qed.

Lemma sort_In {A} (q : name * A) l : In q (sort_by_name l) <-> In q l.
Proof.
  unfold sort_by_name. induction l as [|p l IH]; cbn; [reflexivity|].
  rewrite insert_sorted_In, IH. reflexivity.
Qed.

(* ---------- deserialisation ---------- *)
Definition all_gen (gen : N) (g : gates) : Prop := forall s k, In (s, k) g -> k = gen.
Definition lcomp_of (gen : N) (c : comp) (ns : list name) : lcomp :=
  MkL (c_ty c) (c_cfg c) (map (fun s => (s, gen)) ns).
Definition comps_ok (k : kind) (l : list (name * comp)) : bool :=
  forallb (fun p => match comp_links k (snd p) with Some _ => true | None => false end) l.

Lemma load_link_spec gen g n x g' :
  all_gen gen g -> load_link gen g n = (x, g') ->
  x = (n, gen) /\ all_gen gen g' /\ (forall s, In s (names g') <-> In s (names g) \/ s = n).
Proof.
  unfold load_link. intros Hg. destruct (alookup n g) as [k|] eqn:E.
  - intros [= <- <-]. pose proof (alookup_Some_In _ _ _ E) as Hin. rewrite (Hg _ _ Hin).
    split; [reflexivity|]. split; [exact Hg|]. intros s. split; [auto|].
    intros [H| ->]; [exact H | eapply in_names, Hin].
  - intros [= <- <-]. split; [reflexivity|]. split.
    + intros s k [[= <- <-]|H]; [reflexivity | eapply Hg, H].
    + intros s. cbn. split; [intros [<-|H]; auto | intros [H| ->]; auto].
Qed.

Lemma load_links_spec gen ns : forall g lk g',
  all_gen gen g -> load_links gen g ns = (lk, g') ->
  lk = map (fun s => (s, gen)) ns /\ all_gen gen g' /\
  (forall s, In s (names g') <-> In s (names g) \/ In s ns).
Proof.
  induction ns as [|n ns IH]; cbn; intros g lk g' Hg.
  - intros [= <- <-]. split; [reflexivity|]. split; [exact Hg|]. intuition.
  - destruct (load_link gen g n) as [x g1] eqn:E1.
    destruct (load_links gen g1 ns) as [xs g2] eqn:E2. intros [= <- <-].
    destruct (load_link_spec _ _ _ _ _ Hg E1) as (-> & Hg1 & Hn1).
    destruct (IH _ _ _ Hg1 E2) as (-> & Hg2 & Hn2).
    split; [reflexivity|]. split; [exact Hg2|]. intros s. rewrite Hn2, Hn1.
    intuition (subst; auto).
Qed.

Lemma load_comps_some k gen l : forall g res g',
  all_gen gen g -> load_comps k gen g l = (Some res, g') ->
  all_gen gen g' /\
  (forall s, In s (names g') <->
     In s (names g) \/ exists n c ns, In (n, c) l /\ comp_links k c = Some ns /\ In s ns) /\
  (forall n lc, In (n, lc) res <->
     exists c ns, In (n, c) l /\ comp_links k c = Some ns /\ lc = lcomp_of gen c ns).
Proof.
  induction l as [|[n c] l IH]; cbn [load_comps]; intros g res g' Hg.
  - intros [= <- <-]. split; [exact Hg|]. split.
    + intros s. split; [auto|]. intros [H|(n & c & ns & [] & _)]; exact H.
    + intros n lc. split; [intros [] | intros (c & ns & [] & _)].
  - destruct (comp_links k c) as [ns|] eqn:Ec; [|discriminate].
    destruct (load_links gen g ns) as [lk g1] eqn:E1.
    destruct (load_comps k gen g1 l) as [res0 g2] eqn:E2.
    destruct res0 as [r0|]; cbn [option_map]; [|discriminate]. intros [= <- <-].
    destruct (load_links_spec _ _ _ _ _ Hg E1) as (-> & Hg1 & Hn1).
    destruct (IH _ _ _ Hg1 E2) as (Hg2 & Hn2 & Hr).
    split; [exact Hg2|]. split.
    + intros s. rewrite Hn2, Hn1. split.
      * intros [[H|H]|(n' & c' & ns' & Hin & Hc & Hs)].
        -- left; exact H.
        -- right. exists n, c, ns. split; [left; reflexivity|]. split; assumption.
        -- right. exists n', c', ns'. split; [right; exact Hin|]. split; assumption.
      * intros [H|(n' & c' & ns' & [Heq|Hin] & Hc & Hs)].
        -- left; left; exact H.
        -- injection Heq as <- <-. rewrite Ec in Hc. injection Hc as <-. left; right; exact Hs.
        -- right. exists n', c', ns'. split; [exact Hin|]. split; assumption.
    + intros n' lc. cbn [In]. rewrite Hr. split.
      * intros [Heq|(c' & ns' & Hin & Hc & ->)].
        -- injection Heq as <- <-. exists c, ns. split; [left; reflexivity|]. split; [exact Ec | reflexivity].
        -- exists c', ns'. split; [right; exact Hin|]. split; [exact Hc | reflexivity].
      * intros (c' & ns' & [Heq|Hin] & Hc & ->).
        -- injection Heq as <- <-. rewrite Ec in Hc. injection Hc as <-. left; reflexivity.
        -- right. exists c', ns'. split; [exact Hin|]. split; [exact Hc | reflexivity].
Qed.

Lemma load_comps_ok k gen l : forall g,
  comps_ok k l = true -> exists res g', load_comps k gen g l = (Some res, g').
Proof.
  induction l as [|[n c] l IH]; cbn [load_comps comps_ok forallb snd]; intros g H.
  - eauto.
  - apply andb_true_iff in H as [Hc Hl]. destruct (comp_links k c) as [ns|]; [|discriminate].
    destruct (load_links gen g ns) as [lk g1].
    destruct (IH g1 Hl) as (res & g' & ->). cbn. eauto.
Qed.

Lemma load_comps_bad k gen l : forall g,
  comps_ok k l = false -> fst (load_comps k gen g l) = None.
Proof.
  induction l as [|[n c] l IH]; cbn [load_comps comps_ok forallb snd]; intros g H; [discriminate|].
  destruct (comp_links k c) as [ns|]; [|reflexivity]. cbn in H.
  destruct (load_links gen g ns) as [lk g1]. specialize (IH g1 H).
  destruct (load_comps k gen g1 l) as [res g2]. cbn in IH. subst. reflexivity.
Qed.

Lemma forallb_same {A} (f : A -> bool) (l1 l2 : list A) :
  (forall x, In x l1 <-> In x l2) -> forallb f l1 = forallb f l2.
Proof.
  intros H. destruct (forallb f l2) eqn:E2.
  - apply forallb_forall. intros x Hx. apply H in Hx. rewrite forallb_forall in E2. auto.
  - destruct (forallb f l1) eqn:E1; [|reflexivity]. rewrite <- E2. symmetry.
    apply forallb_forall. intros x Hx. apply H in Hx. rewrite forallb_forall in E1. auto.
Qed.

Lemma comps_ok_sort k l : comps_ok k (sort_by_name l) = comps_ok k l.
Proof. unfold comps_ok. apply forallb_same. intros x. apply sort_In. Qed.

Lemma comps_ok_links k l n c : comps_ok k l = true -> In (n, c) l -> exists ns, comp_links k c = Some ns.
Proof.
  unfold comps_ok. rewrite forallb_forall. intros H Hin. specialize (H _ Hin). cbn in H.
  destruct (comp_links k c) as [ns|]; [eauto | discriminate].
Qed.

Lemma in_all_links xd s :
  In s (all_links xd) <->
  (exists n c ns, In (n, c) (d_targets xd) /\ comp_links KTarget c = Some ns /\ In s ns) \/
  (exists n c ns, In (n, c) (d_units xd) /\ comp_links KUnit c = Some ns /\ In s ns).
Proof.
  unfold all_links. rewrite in_app_iff, !in_flat_map. split.
  - intros [([n c] & Hin & Hs)|([n c] & Hin & Hs)]; cbn [snd] in Hs.
    + left. destruct (comp_links KTarget c) as [ns|] eqn:E; [|destruct Hs]. exists n, c, ns. auto.
    + right. destruct (comp_links KUnit c) as [ns|] eqn:E; [|destruct Hs]. exists n, c, ns. auto.
  - intros [(n & c & ns & Hin & Hc & Hs)|(n & c & ns & Hin & Hc & Hs)].
    + left. exists (n, c). split; [exact Hin|]. cbn [snd]. rewrite Hc. exact Hs.
    + right. exists (n, c). split; [exact Hin|]. cbn [snd]. rewrite Hc. exact Hs.
Qed.

(* what a successful Manager::load yields when it starts from an empty GATES table *)
Record loaded (gen : N) (xd : doc) (lc : lconfig) (g : gates) : Prop := MkLoaded {
  ld_gen : all_gen gen g;
  ld_gates : forall s, In s (names g) <-> In s (all_links xd);
  ld_units : forall n lc0, In (n, lc0) (l_units lc) <->
     exists c ns, In (n, c) (d_units xd) /\ comp_links KUnit c = Some ns /\ lc0 = lcomp_of gen c ns;
  ld_targets : forall n lc0, In (n, lc0) (l_targets lc) <->
     exists c ns, In (n, c) (d_targets xd) /\ comp_links KTarget c = Some ns /\ lc0 = lcomp_of gen c ns;
  ld_units_ok : comps_ok KUnit (d_units xd) = true;
  ld_targets_ok : comps_ok KTarget (d_targets xd) = true }.

Lemma all_gen_nil gen : all_gen gen [].
Proof. intros s k []. Qed.

Lemma mgr_load_cases v m xd : is_legacy v = false ->
  (comps_ok KTarget (d_targets xd) && comps_ok KUnit (d_units xd) && d_top xd = false /\
   fst (mgr_load v m xd) = None) \/
  (comps_ok KTarget (d_targets xd) && comps_ok KUnit (d_units xd) && d_top xd = true /\
   exists lc g, mgr_load v m xd = (Some lc, g) /\ loaded (m_gen m + 1) xd lc g).
Proof.
  intros Hv. unfold mgr_load. rewrite Hv.
  destruct (comps_ok KTarget (d_targets xd)) eqn:Et.
  2:{ left. split; [reflexivity|]. rewrite <- comps_ok_sort in Et.
      pose proof (load_comps_bad KTarget (m_gen m + 1) _ [] Et) as H.
      destruct (load_comps KTarget _ _ _) as [ts g1]. cbn in H. subst. reflexivity. }
  pose proof Et as Et'. rewrite <- comps_ok_sort in Et'.
  destruct (load_comps_ok KTarget (m_gen m + 1) _ [] Et') as (ts & g1 & E1). rewrite E1.
  destruct (load_comps_some _ _ _ _ _ _ (all_gen_nil _) E1) as (Hg1 & Hn1 & Hr1).
  destruct (comps_ok KUnit (d_units xd)) eqn:Eu.
  2:{ left. split; [reflexivity|]. rewrite <- comps_ok_sort in Eu.
      pose proof (load_comps_bad KUnit (m_gen m + 1) _ g1 Eu) as H.
      destruct (load_comps KUnit _ _ _) as [us g2]. cbn in H. subst. reflexivity. }
  pose proof Eu as Eu'. rewrite <- comps_ok_sort in Eu'.
  destruct (load_comps_ok KUnit (m_gen m + 1) _ g1 Eu') as (us & g2 & E2). rewrite E2.
  destruct (load_comps_some _ _ _ _ _ _ Hg1 E2) as (Hg2 & Hn2 & Hr2).
  destruct (d_top xd); [|left; split; reflexivity].
  right. split; [reflexivity|]. exists (MkLC us ts), g2. split; [reflexivity|].
  constructor; cbn [l_units l_targets]; try assumption.
  - intros s. rewrite Hn2, Hn1, in_all_links. cbn [names map In]. split.
    + intros [[[]|(n & c & ns & Hin & Hc & Hs)]|(n & c & ns & Hin & Hc & Hs)].
      * left. exists n, c, ns. apply (proj1 (sort_In _ _)) in Hin. repeat split; assumption.
      * right. exists n, c, ns. apply (proj1 (sort_In _ _)) in Hin. repeat split; assumption.
    + intros [(n & c & ns & Hin & Hc & Hs)|(n & c & ns & Hin & Hc & Hs)].
      * left. right. exists n, c, ns. split; [apply (proj2 (sort_In _ _)), Hin|]. split; assumption.
      * right. exists n, c, ns. split; [apply (proj2 (sort_In _ _)), Hin|]. split; assumption.
  - intros n lc0. rewrite Hr2. split; intros (c & ns & Hin & H); exists c, ns; (split; [|exact H]).
    + apply (proj1 (sort_In _ _)) in Hin; exact Hin.
    + apply (proj2 (sort_In _ _)); exact Hin.
  - intros n lc0. rewrite Hr1. split; intros (c & ns & Hin & H); exists c, ns; (split; [|exact H]).
    + apply (proj1 (sort_In _ _)) in Hin; exact Hin.
    + apply (proj2 (sort_In _ _)); exact Hin.
Qed.

Lemma loaded_unit_names gen xd lc g n : loaded gen xd lc g ->
  In n (names (l_units lc)) <-> In n (names (d_units xd)).
Proof.
  intros L. split; intros H.
  - apply in_names_ex in H as (lc0 & H). apply (ld_units _ _ _ _ L) in H as (c & ns & Hin & _).
    eapply in_names, Hin.
  - apply in_names_ex in H as (c & H).
    destruct (comps_ok_links _ _ _ _ (ld_units_ok _ _ _ _ L) H) as (ns & Hc).
    eapply in_names. apply (ld_units _ _ _ _ L). exists c, ns. split; [exact H|]. split; [exact Hc | reflexivity].
Qed.

Lemma loaded_target_names gen xd lc g n : loaded gen xd lc g ->
  In n (names (l_targets lc)) <-> In n (names (d_targets xd)).
Proof.
  intros L. split; intros H.
  - apply in_names_ex in H as (lc0 & H). apply (ld_targets _ _ _ _ L) in H as (c & ns & Hin & _).
    eapply in_names, Hin.
  - apply in_names_ex in H as (c & H).
    destruct (comps_ok_links _ _ _ _ (ld_targets_ok _ _ _ _ L) H) as (ns & Hc).
    eapply in_names. apply (ld_targets _ _ _ _ L). exists c, ns. split; [exact H|]. split; [exact Hc | reflexivity].
Qed.

(* prepare's check is the unresolved-link conjunct of doc_ok *)
Lemma prepare_check gen xd lc g : loaded gen xd lc g ->
  forallb (fun p => mem (fst p) (names (l_units lc))) g =
  forallb (fun n => mem n (names (d_units xd))) (all_links xd).
Proof.
  intros L.
  destruct (forallb (fun n => mem n (names (d_units xd))) (all_links xd)) eqn:E.
  - apply forallb_forall. intros [s k] Hin. cbn [fst]. apply mem_In.
    apply (loaded_unit_names _ _ _ _ _ L). apply mem_In.
    rewrite forallb_forall in E. apply E. apply (ld_gates _ _ _ _ L). eapply in_names, Hin.
  - destruct (forallb _ g) eqn:E2; [|reflexivity]. rewrite <- E. symmetry.
    apply forallb_forall. intros s Hs. apply mem_In. apply (loaded_unit_names _ _ _ _ _ L).
    apply (ld_gates _ _ _ _ L) in Hs. apply in_names_ex in Hs as (k & Hk).
    rewrite forallb_forall in E2. specialize (E2 _ Hk). cbn [fst] in E2. apply mem_In, E2.
Qed.

(* ---------- spawn: what runs afterwards ---------- *)
Lemma started_In k p l n r :
  In (n, r) (flat_map (started k p) l) <->
  exists lc0 gt, In (n, lc0) l /\ gate_for k p n = Some gt /\ r = MkR (lc_ty lc0) gt (lc_cfg lc0) (lc_links lc0).
Proof.
  rewrite in_flat_map. split.
  - intros ([n' lc0] & Hin & Hs). unfold started in Hs.
    destruct (gate_for k p n') as [gt|] eqn:Eg; [|destruct Hs].
    destruct Hs as [[= <- <-]|[]]. exists lc0, gt. auto.
  - intros (lc0 & gt & Hin & Hg & ->). exists (n, lc0). split; [exact Hin|].
    unfold started. rewrite Hg. left; reflexivity.
Qed.

Lemma started_names k p l n : In n (names (flat_map (started k p) l)) -> In n (names l).
Proof.
  intros H. apply in_names_ex in H as (r & H). apply started_In in H as (lc0 & gt & Hin & _).
  eapply in_names, Hin.
Qed.

(* the situation after load + prepare succeeded in a non-legacy variant *)
Definition after_spawn (gen : N) (lc : lconfig) (g : gates) (mu mt : list (name * rcomp)) : mgr :=
  snd (spawn (MkM mu mt g [] gen) lc).

Lemma gate_is_gen gen xd lc g s k : loaded gen xd lc g -> alookup s g = Some k -> k = gen.
Proof. intros L H. apply alookup_Some_In in H. eapply (ld_gen _ _ _ _ L), H. Qed.

Lemma resolve_started gen xd lc g mu mt s :
  loaded gen xd lc g ->
  forallb (fun n => mem n (names (d_units xd))) (all_links xd) = true ->
  In s (all_links xd) -> resolve (after_spawn gen lc g mu mt) (s, gen) = Some s.
Proof.
  intros L P Hs. unfold resolve, after_spawn. cbn [fst snd spawn m_units m_pending].
  assert (Hu : In s (names (d_units xd))).
  { rewrite forallb_forall in P. apply mem_In, P, Hs. }
  apply (loaded_unit_names _ _ _ _ _ L) in Hu. apply in_names_ex in Hu as (lcs & Hlcs).
  apply (ld_gates _ _ _ _ L) in Hs. apply alookup_in_names in Hs as (k & Hk & _).
  assert (Hin : In s (names (flat_map (started KUnit g) (l_units lc)))).
  { eapply in_names. apply started_In. exists lcs, k. split; [exact Hlcs|]. split; [exact Hk | reflexivity]. }
  apply alookup_in_names in Hin as (u & Hu & Hin). rewrite Hu.
  apply started_In in Hin as (lc1 & gt & _ & Hg & ->). cbn [gate_for] in Hg. cbn [r_gate].
  rewrite (gate_is_gen _ _ _ _ _ _ L Hg), N.eqb_refl. reflexivity.
Qed.

Lemma wiring_started gen xd lc g mu mt c ns kk :
  loaded gen xd lc g ->
  forallb (fun n => mem n (names (d_units xd))) (all_links xd) = true ->
  (forall s, In s ns -> In s (all_links xd)) ->
  wiring (after_spawn gen lc g mu mt)
         (MkR (lc_ty (lcomp_of gen c ns)) kk (lc_cfg (lcomp_of gen c ns)) (lc_links (lcomp_of gen c ns)))
  = map Some ns.
Proof.
  intros L P H. unfold wiring. cbn [r_links lcomp_of lc_links]. rewrite map_map.
  apply map_ext_in. intros s Hs. eapply resolve_started; eauto.
Qed.

Lemma spawn_reflects gen xd lc g mu mt :
  loaded gen xd lc g ->
  forallb (fun n => mem n (names (d_units xd))) (all_links xd) = true ->
  reflects xd (after_spawn gen lc g mu mt).
Proof.
  intros L P. unfold reflects.
  change (m_units (after_spawn gen lc g mu mt)) with (flat_map (started KUnit g) (l_units lc)).
  change (m_targets (after_spawn gen lc g mu mt)) with (flat_map (started KTarget g) (l_targets lc)).
  split; [|split; [|split]].
  - intros n. split.
    + intros H. split.
      * apply started_names in H. apply (loaded_unit_names _ _ _ _ _ L), H.
      * apply in_names_ex in H as (r & H). apply started_In in H as (lc0 & gt & _ & Hg & _).
        cbn [gate_for] in Hg. unfold used. apply mem_In. apply (ld_gates _ _ _ _ L).
        eapply alookup_Some_names, Hg.
    + intros [Hn Hu]. apply (loaded_unit_names _ _ _ _ _ L) in Hn. apply in_names_ex in Hn as (lc0 & Hlc0).
      unfold used in Hu. apply mem_In in Hu. apply (ld_gates _ _ _ _ L) in Hu.
      apply alookup_in_names in Hu as (k & Hk & _).
      eapply in_names. apply started_In. exists lc0, k. split; [exact Hlc0|]. split; [exact Hk | reflexivity].
  - intros n. split.
    + intros H. apply started_names in H. apply (loaded_target_names _ _ _ _ _ L), H.
    + intros Hn. apply (loaded_target_names _ _ _ _ _ L) in Hn. apply in_names_ex in Hn as (lc0 & Hlc0).
      eapply in_names. apply started_In. exists lc0, 0. split; [exact Hlc0|]. split; reflexivity.
  - intros n r H. apply started_In in H as (lc0 & gt & Hin & _ & ->).
    apply (ld_units _ _ _ _ L) in Hin as (c & ns & Hin & Hc & ->).
    exists c, ns. split; [exact Hin|]. split; [exact Hc|]. split; [reflexivity|]. split; [reflexivity|].
    eapply wiring_started; eauto. intros s Hs. apply in_all_links. right. exists n, c, ns. auto.
  - intros n r H. apply started_In in H as (lc0 & gt & Hin & _ & ->).
    apply (ld_targets _ _ _ _ L) in Hin as (c & ns & Hin & Hc & ->).
    exists c, ns. split; [exact Hin|]. split; [exact Hc|]. split; [reflexivity|]. split; [reflexivity|].
    eapply wiring_started; eauto. intros s Hs. apply in_all_links. left. exists n, c, ns. auto.
Qed.

(* ---------- spawn: the actions ---------- *)
Lemma comp_actions_spec k R p n lc0 a :
  In a (comp_actions k R p (n, lc0)) <->
  (a = ASpawn k n /\ gate_for k p n <> None /\ running_type R n <> Some (lc_ty lc0)) \/
  (a = AReconf k n /\ gate_for k p n <> None /\ running_type R n = Some (lc_ty lc0)) \/
  (a = ATerm k n /\ alookup n R <> None /\ (gate_for k p n = None \/ running_type R n <> Some (lc_ty lc0))).
Proof.
  unfold comp_actions, running_type.
  destruct (gate_for k p n) as [gt|]; destruct (alookup n R) as [r|]; cbn [option_map].
  - destruct (N.eqb_spec (r_ty r) (lc_ty lc0)) as [E|E]; cbn [In].
    + rewrite E. split.
      * intros [<-|[]]. right; left. split; [reflexivity|]. split; congruence.
      * intros [(-> & _ & H)|[(-> & _)|(-> & _ & [H|H])]]; try congruence. left; reflexivity.
    + split.
      * intros [<-|[<-|[]]].
        -- right; right. split; [reflexivity|]. split; [congruence|]. right. congruence.
        -- left. split; [reflexivity|]. split; congruence.
      * intros [(-> & _)|[(-> & _ & H)|(-> & _)]]; try (injection H as H; contradiction); auto.
  - cbn [In]. split.
    + intros [<-|[]]. left. split; [reflexivity|]. split; congruence.
    + intros [(-> & _)|[(-> & _ & H)|(-> & H & _)]]; try congruence. left; reflexivity.
  - cbn [In]. split.
    + intros [<-|[]]. right; right. split; [reflexivity|]. split; [congruence|]. left; reflexivity.
    + intros [(-> & H & _)|[(-> & H & _)|(-> & _)]]; try congruence. left; reflexivity.
  - cbn [In]. split; [intros []|].
    intros [(-> & H & _)|[(-> & H & _)|(-> & H & _)]]; congruence.
Qed.

Lemma gone_spec k new R a :
  In a (gone k new R) <-> exists n r, a = ATerm k n /\ In (n, r) R /\ ~ In n new.
Proof.
  unfold gone. rewrite in_map_iff. split.
  - intros ([n r] & <- & H). apply filter_In in H as [Hin Hm]. cbn [fst] in *.
    exists n, r. split; [reflexivity|]. split; [exact Hin|]. apply mem_false. destruct (mem n new); [discriminate|reflexivity].
  - intros (n & r & -> & Hin & Hn). exists (n, r). split; [reflexivity|]. apply filter_In. split; [exact Hin|].
    cbn [fst]. apply mem_false in Hn. rewrite Hn. reflexivity.
Qed.

Definition akind (a : action) : kind := match a with ASpawn k _ | AReconf k _ | ATerm k _ => k end.

Lemma kind_actions_kind k R p l a : In a (kind_actions k R p l) -> akind a = k.
Proof.
  unfold kind_actions. rewrite in_app_iff, in_flat_map. intros [([n lc0] & _ & H)|H].
  - apply comp_actions_spec in H as [(-> & _)|[(-> & _)|(-> & _)]]; reflexivity.
  - apply gone_spec in H as (n & r & -> & _). reflexivity.
Qed.

  Lemma spawn_action k R p l n :
    In (ASpawn k n) (kind_actions k R p l) <->
    exists r, In (n, r) (flat_map (started k p) l) /\ running_type R n <> Some (r_ty r).
  Proof.
    unfold kind_actions. rewrite in_app_iff, in_flat_map. split.
    - intros [([n' lc0] & Hin & H)|H].
      + apply comp_actions_spec in H as [(Heq & Hg & Ht)|[(Heq & _)|(Heq & _)]]; try discriminate.
        injection Heq as <-. destruct (gate_for k p n) as [gt|] eqn:Eg; [|congruence].
        exists (MkR (lc_ty lc0) gt (lc_cfg lc0) (lc_links lc0)). split; [|exact Ht].
        apply started_In. exists lc0, gt. auto.
      + apply gone_spec in H as (n' & r & Heq & _). discriminate.
    - intros (r & Hin & Ht). apply started_In in Hin as (lc0 & gt & Hin & Hg & ->). cbn [r_ty] in Ht.
      left. exists (n, lc0). split; [exact Hin|]. apply comp_actions_spec. left.
      split; [reflexivity|]. split; [congruence | exact Ht].
  Qed.

  Lemma reconf_action k R p l n :
    In (AReconf k n) (kind_actions k R p l) <->
    exists r, In (n, r) (flat_map (started k p) l) /\ running_type R n = Some (r_ty r).
  Proof.
    unfold kind_actions. rewrite in_app_iff, in_flat_map. split.
    - intros [([n' lc0] & Hin & H)|H].
      + apply comp_actions_spec in H as [(Heq & _)|[(Heq & Hg & Ht)|(Heq & _)]]; try discriminate.
        injection Heq as <-. destruct (gate_for k p n) as [gt|] eqn:Eg; [|congruence].
        exists (MkR (lc_ty lc0) gt (lc_cfg lc0) (lc_links lc0)). split; [|exact Ht].
        apply started_In. exists lc0, gt. auto.
      + apply gone_spec in H as (n' & r & Heq & _). discriminate.
    - intros (r & Hin & Ht). apply started_In in Hin as (lc0 & gt & Hin & Hg & ->). cbn [r_ty] in Ht.
      left. exists (n, lc0). split; [exact Hin|]. apply comp_actions_spec. right; left.
      split; [reflexivity|]. split; [congruence | exact Ht].
  Qed.

  Lemma term_action k R p l n :
    In (ATerm k n) (kind_actions k R p l) <->
    In n (names R) /\ (~ In n (names (flat_map (started k p) l)) \/
                       exists r, In (n, r) (flat_map (started k p) l) /\ running_type R n <> Some (r_ty r)).
  Proof.
    unfold kind_actions. rewrite in_app_iff, in_flat_map. split.
    - intros [([n' lc0] & Hin & H)|H].
      + apply comp_actions_spec in H as [(Heq & _)|[(Heq & _)|(Heq & Hr & Hd)]]; try discriminate.
        injection Heq as <-. split.
        * destruct (alookup n R) as [r|] eqn:E; [|congruence]. eapply alookup_Some_names, E.
        * destruct (gate_for k p n) as [gt|] eqn:Eg.
          -- destruct Hd as [Hd|Hd]; [discriminate|]. right.
             exists (MkR (lc_ty lc0) gt (lc_cfg lc0) (lc_links lc0)). split; [|exact Hd].
             apply started_In. exists lc0, gt. auto.
          -- left. intros Hc. apply in_names_ex in Hc as (r & Hc).
             apply started_In in Hc as (lc1 & gt & _ & Hg & _). congruence.
      + apply gone_spec in H as (n' & r & Heq & Hin & Hn). injection Heq as <-. split.
        * eapply in_names, Hin.
        * left. intros Hc. apply started_names in Hc. contradiction.
    - intros [HR Hd]. destruct (mem n (names l)) eqn:Em.
      + apply mem_In in Em. destruct Hd as [Hd|(r & Hin & Ht)].
        * apply in_names_ex in Em as (lc0 & Hlc0). left. exists (n, lc0). split; [exact Hlc0|].
          apply comp_actions_spec. right; right. split; [reflexivity|]. split.
          -- intros Hc. apply alookup_None in Hc. contradiction.
          -- left. destruct (gate_for k p n) as [gt|] eqn:Eg; [|reflexivity]. exfalso. apply Hd.
             eapply in_names. apply started_In. exists lc0, gt. eauto.
        * apply started_In in Hin as (lc0 & gt & Hin & Hg & ->). cbn [r_ty] in Ht.
          left. exists (n, lc0). split; [exact Hin|].
          apply comp_actions_spec. right; right. split; [reflexivity|]. split.
          -- intros Hc. apply alookup_None in Hc. contradiction.
          -- right. exact Ht.
      + apply mem_false in Em. right. apply gone_spec. apply in_names_ex in HR as (r & Hr).
        exists n, r. auto.
  Qed.

Lemma spawned_In k acts n : In n (spawned k acts) <-> In (ASpawn k n) acts.
Proof.
  unfold spawned. rewrite in_flat_map. split.
  - intros (a & Hin & H). destruct a as [k' n'|k' n'|k' n']; cbn in H; try contradiction.
    destruct k, k'; cbn in H; try contradiction; destruct H as [<-|[]]; exact Hin.
  - intros H. exists (ASpawn k n). split; [exact H|]. destruct k; left; reflexivity.
Qed.

(* ---------- one reload, non-legacy ---------- *)
Lemma doc_ok_unfold d :
  doc_ok d =
  (d_syntax d && nodupb (names (d_units d)) && nodupb (names (d_targets d))) &&
  (comps_ok KTarget (d_targets (expand d)) && comps_ok KUnit (d_units (expand d)) && d_top (expand d)) &&
  forallb (fun n => mem n (names (d_units (expand d)))) (all_links (expand d)).
Proof.
  unfold doc_ok, comps_ok. cbn [expand d_top]. btauto.
Qed.

Inductive reload_shape (v : variant) (m : mgr) (d : doc) : rres * mgr -> Prop :=
| RS_err m' :
    doc_ok d = false ->
    m_units m' = m_units m -> m_targets m' = m_targets m -> m_pending m' = m_pending m ->
    reload_shape v m d (RErr, m')
| RS_ok lc g acts m' :
    doc_ok d = true ->
    loaded (m_gen m + 1) (expand d) lc g ->
    forallb (fun n => mem n (names (d_units (expand d)))) (all_links (expand d)) = true ->
    (acts, m') = spawn (MkM (m_units m) (m_targets m) g [] (m_gen m + 1)) lc ->
    reload_shape v m d (if track_panics v && track_clash acts then (RPanic, m') else (ROk acts, m')).

Lemma reload_cases v m d : is_legacy v = false -> reload_shape v m d (reload v m d).
Proof.
  intros Hv. unfold reload, cf_new. rewrite Hv. cbn [andb].
  pose proof (doc_ok_unfold d) as Hd.
  assert (Hc : negb (d_syntax d) || negb (nodupb (names (d_units d))) || negb (nodupb (names (d_targets d)))
               = negb (d_syntax d && nodupb (names (d_units d)) && nodupb (names (d_targets d)))) by btauto.
  rewrite Hc. clear Hc.
  destruct (d_syntax d && nodupb (names (d_units d)) && nodupb (names (d_targets d))) eqn:E1; cbn [negb].
  2:{ apply RS_err; try reflexivity. rewrite Hd. reflexivity. }
  destruct (mgr_load_cases v m (expand d) Hv) as [(Hb & Hn)|(Hb & lc & g & El & L)].
  - destruct (mgr_load v m (expand d)) as [olc g]. cbn [fst] in Hn. subst olc.
    apply RS_err; try reflexivity. rewrite Hd, Hb. reflexivity.
  - rewrite El. unfold prepare. rewrite Hv. rewrite (prepare_check _ _ _ _ L).
    destruct (forallb (fun n => mem n (names (d_units (expand d)))) (all_links (expand d))) eqn:P.
    + cbn [m_units m_targets m_pending m_gen].
      destruct (spawn (MkM (m_units m) (m_targets m) g [] (m_gen m + 1)) lc) as [acts m3] eqn:Es.
      eapply RS_ok; [rewrite Hd, Hb; reflexivity | exact L | exact P | symmetry; exact Es].
    + apply RS_err; try reflexivity. rewrite Hd, Hb. reflexivity.
Qed.

(* ---------- the property, one reload ---------- *)
Lemma accepts_exactly_valid v m d :
  is_legacy v = false -> (fst (reload v m d) = RErr <-> doc_ok d = false).
Proof.
  intros Hv. destruct (reload_cases v m d Hv) as [m' Hd|lc g acts m' Hd]; cbn [fst].
  - split; auto.
  - destruct (track_panics v && track_clash acts); cbn [fst]; split; intros; congruence.
Qed.

Lemma failed_load_is_noop v m d :
  is_legacy v = false -> fst (reload v m d) = RErr ->
  m_units (snd (reload v m d)) = m_units m /\
  m_targets (snd (reload v m d)) = m_targets m /\
  m_pending (snd (reload v m d)) = m_pending m.
Proof.
  intros Hv. destruct (reload_cases v m d Hv) as [m' Hd Hu Ht Hp|lc g acts m' Hd]; cbn [fst snd].
  - auto.
  - destruct (track_panics v && track_clash acts); cbn [fst]; discriminate.
Qed.

Lemma in_acts_kind a R1 p1 l1 R2 p2 l2 :
  In a (kind_actions KTarget R1 p1 l1 ++ kind_actions KUnit R2 p2 l2) <->
  match akind a with
  | KTarget => In a (kind_actions KTarget R1 p1 l1)
  | KUnit => In a (kind_actions KUnit R2 p2 l2)
  end.
Proof.
  rewrite in_app_iff. split.
  - intros [H|H]; pose proof (kind_actions_kind _ _ _ _ _ H) as Hk; rewrite Hk; exact H.
  - destruct (akind a); auto.
Qed.

Lemma kind_exact k R p l : exact_actions k R (flat_map (started k p) l) (kind_actions k R p l).
Proof.
  intros n. split; [apply spawn_action|]. split; [apply reconf_action | apply term_action].
Qed.

Lemma spawn_exact m lc :
  exact_actions KUnit (m_units m) (m_units (snd (spawn m lc))) (fst (spawn m lc)) /\
  exact_actions KTarget (m_targets m) (m_targets (snd (spawn m lc))) (fst (spawn m lc)).
Proof.
  cbn [spawn fst snd m_units m_targets]. split; intros n.
  - destruct (kind_exact KUnit (m_units m) (m_pending m) (l_units lc) n) as (H1 & H2 & H3).
    rewrite !in_acts_kind. cbn [akind]. auto.
  - destruct (kind_exact KTarget (m_targets m) (m_pending m) (l_targets lc) n) as (H1 & H2 & H3).
    rewrite !in_acts_kind. cbn [akind]. auto.
Qed.

Lemma diff_exact v m d acts m' :
  is_legacy v = false -> reload v m d = (ROk acts, m') ->
  reflects (expand d) m' /\
  exact_actions KUnit (m_units m) (m_units m') acts /\
  exact_actions KTarget (m_targets m) (m_targets m') acts.
Proof.
  intros Hv. destruct (reload_cases v m d Hv) as [m1 Hd|lc g acts1 m1 Hd L P Es]; [discriminate|].
  destruct (track_panics v && track_clash acts1); [discriminate|]. intros [= <- <-].
  pose proof (f_equal fst Es) as Ea. pose proof (f_equal snd Es) as Em. cbn [fst snd] in Ea, Em.
  split.
  - rewrite Em. apply (spawn_reflects _ _ _ _ (m_units m) (m_targets m) L P).
  - rewrite Ea, Em. apply (spawn_exact (MkM (m_units m) (m_targets m) g [] (m_gen m + 1)) lc).
Qed.

(* a component whose name and type are unchanged is sent Reconfigure and is
   neither terminated nor started again *)
Lemma spares_unchanged k before after acts n ty :
  exact_actions k before after acts ->
  running_type before n = Some ty -> In n (names after) ->
  (forall r, In (n, r) after -> r_ty r = ty) ->
  In (AReconf k n) acts /\ ~ In (ASpawn k n) acts /\ ~ In (ATerm k n) acts.
Proof.
  intros E Hb Ha Hty. destruct (E n) as (Hs & Hr & Ht). split; [|split].
  - apply Hr. apply in_names_ex in Ha as (r & Hin). exists r. split; [exact Hin|].
    rewrite Hb, (Hty _ Hin). reflexivity.
  - intros H. apply Hs in H as (r & Hin & Hne). apply Hne. rewrite Hb, (Hty _ Hin). reflexivity.
  - intros H. apply Ht in H as (_ & [H|(r & Hin & Hne)]); [contradiction|].
    apply Hne. rewrite Hb, (Hty _ Hin). reflexivity.
Qed.

(* ---------- histories ---------- *)
Lemma settled_ext o m m' :
  m_units m' = m_units m -> m_targets m' = m_targets m -> settled o m -> settled o m'.
Proof.
  intros Hu Ht. destruct o as [d|]; cbn [settled].
  - unfold reflects, wiring, resolve. rewrite Hu, Ht. auto.
  - unfold nothing_runs. rewrite Hu, Ht. auto.
Qed.

Lemma settled_step v o m d r m' :
  is_legacy v = false -> settled o m -> reload v m d = (r, m') -> r <> RPanic ->
  settled (if doc_ok d then Some d else o) m'.
Proof.
  intros Hv Hs E Hr. destruct r as [|  |acts]; [contradiction| |].
  - pose proof (accepts_exactly_valid v m d Hv) as Hd. rewrite E in Hd. cbn [fst] in Hd.
    rewrite (proj1 Hd eq_refl).
    destruct (failed_load_is_noop v m d Hv) as (Hu & Ht & _); [rewrite E; reflexivity|].
    rewrite E in Hu, Ht. cbn [snd] in Hu, Ht. eapply settled_ext; eauto.
  - pose proof (accepts_exactly_valid v m d Hv) as Hd. rewrite E in Hd. cbn [fst] in Hd.
    destruct (doc_ok d); [|destruct Hd as [_ Hd]; specialize (Hd eq_refl); discriminate].
    cbn [settled]. apply (diff_exact v m d acts m' Hv E).
Qed.

Lemma last_good_from_settled v h : is_legacy v = false -> forall o m m',
  settled o m -> run_from v m h = Some m' -> settled (last_good_from o h) m'.
Proof.
  intros Hv. induction h as [|d h IH]; cbn [run_from last_good_from]; intros o m m' Hs.
  - intros [= <-]. exact Hs.
  - destruct (reload v m d) as [r m1] eqn:E. intros Hrun.
    assert (Hr : r <> RPanic) by (intros ->; discriminate).
    apply (IH _ m1); [eapply settled_step; eauto|]. destruct r; [contradiction| |]; exact Hrun.
Qed.

Lemma last_good_wins v h m :
  is_legacy v = false -> run v h = Some m -> settled (last_good h) m.
Proof.
  intros Hv H. eapply last_good_from_settled; eauto. cbn. split; reflexivity.
Qed.

(* ---------- panics ---------- *)
Lemma no_panic_when_names_apart v m d :
  is_legacy v = false -> names_apart d = true -> fst (reload v m d) <> RPanic.
Proof.
  intros Hv Hn. destruct (reload_cases v m d Hv) as [m1 Hd|lc g acts m1 Hd L P Es]; cbn [fst]; [discriminate|].
  assert (Hc : track_clash acts = false).
  { destruct (track_clash acts) eqn:Ec; [|reflexivity]. exfalso.
    unfold track_clash in Ec. apply existsb_exists in Ec as (n & Hu & Ht).
    apply mem_In in Ht. apply spawned_In in Hu, Ht.
    pose proof (f_equal fst Es) as Ea. cbn [fst spawn] in Ea. subst acts.
    apply in_acts_kind in Hu, Ht. cbn [akind m_units m_targets m_pending] in Hu, Ht.
    apply spawn_action in Hu as (ru & Hu & _). apply spawn_action in Ht as (rt & Ht & _).
    apply in_names, started_names in Hu, Ht.
    apply (loaded_unit_names _ _ _ _ _ L) in Hu. apply (loaded_target_names _ _ _ _ _ L) in Ht.
    unfold names_apart in Hn. rewrite forallb_forall in Hn. specialize (Hn _ Hu).
    apply mem_In in Ht. rewrite Ht in Hn. discriminate. }
  rewrite Hc, andb_false_r. cbn [fst]. discriminate.
Qed.

Lemma ideal_never_panics m d : fst (reload Ideal m d) <> RPanic.
Proof.
  destruct (reload_cases Ideal m d eq_refl) as [m1 Hd|lc g acts m1 Hd L P Es]; cbn; discriminate.
Qed.

Lemma ideal_total h : run Ideal h <> None.
Proof.
  unfold run. generalize mgr_new. induction h as [|d h IH]; intros m; cbn [run_from]; [discriminate|].
  pose proof (ideal_never_panics m d) as Hp. destruct (reload Ideal m d) as [r m1]. cbn [fst] in Hp.
  destruct r; [contradiction| |]; apply IH.
Qed.

(* the code with the fixes does what the property asks for unless it panics *)
Lemma fixed_is_ideal_unless_panic m d :
  fst (reload Fixed m d) <> RPanic -> reload Fixed m d = reload Ideal m d.
Proof.
  unfold reload. change (cf_new Ideal d) with (cf_new Fixed d).
  destruct (cf_new Fixed d) as [| |xd]; try reflexivity.
  change (mgr_load Ideal m xd) with (mgr_load Fixed m xd).
  destruct (mgr_load Fixed m xd) as [olc g]. destruct olc as [lc|]; try reflexivity.
  change (prepare Ideal) with (prepare Fixed).
  destruct (prepare Fixed _ lc g) as [ok m2]. destruct ok; try reflexivity.
  destruct (spawn m2 lc) as [acts m3]. cbn [track_panics andb].
  destruct (track_clash acts); cbn [fst]; intros H; [exfalso; apply H; reflexivity | reflexivity].
Qed.

(* ---------- witnesses ---------- *)
Lemma same_name_panics :
  doc_ok wit_same_name = true /\ fst (reload Fixed mgr_new wit_same_name) = RPanic /\
  (exists acts m, reload Ideal mgr_new wit_same_name = (ROk acts, m)).
Proof. vm_compute. split; [reflexivity|]. split; [reflexivity|]. eauto. Qed.

(* ... although the same configuration is accepted when it is reached in two steps *)
Lemma same_name_in_two_steps :
  exists m acts m', run Fixed [wit_small_valid] = Some m /\
    reload Fixed m (MkDoc true true (d_units wit_same_name) (d_targets wit_small_valid ++ d_targets wit_same_name))
    = (ROk acts, m').
Proof. vm_compute. eauto. Qed.

Lemma legacy_bad_sources_panics :
  d_syntax wit_bad_sources = true /\ fst (reload Legacy mgr_new wit_bad_sources) = RPanic /\
  fst (reload Fixed mgr_new wit_bad_sources) = RErr.
Proof. vm_compute. auto. Qed.

Lemma legacy_stale_gates :
  exists m, run Legacy [wit_fails_in_deser] = Some m /\
    doc_ok wit_small_valid = true /\ fst (reload Legacy m wit_small_valid) = RErr.
Proof. vm_compute. eauto. Qed.

Lemma legacy_stale_pending :
  exists m acts m', run Legacy [wit_unresolved] = Some m /\
    doc_ok wit_two_unused = true /\ reload Legacy m wit_two_unused = (ROk acts, m') /\
    In (u 2) (names (m_units m')) /\ used (expand wit_two_unused) (u 2) = false.
Proof. vm_compute. do 3 eexists. repeat split; try reflexivity. right; left; reflexivity. Qed.

(* "consumed" is judged on the file: a unit linked to only by an unused unit is started *)
Lemma consumer_need_not_run :
  exists acts m, reload Fixed mgr_new wit_chain_unused = (ROk acts, m) /\
    In (u 1) (names (m_units m)) /\ ~ In (u 2) (names (m_units m)) /\
    all_links (expand wit_chain_unused) = [u 3; u 1].
Proof.
  vm_compute. do 2 eexists. split; [reflexivity|]. split; [left; reflexivity|]. split; [|reflexivity].
  intros [H|[H|[]]]; discriminate.
Qed.
