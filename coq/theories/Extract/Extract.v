(* Extraction of the executable models for the correspondence oracle.
   ExtrOcamlBasic only: bool, option, list, prod, unit, sumbool map to OCaml's;
   N, positive, nat stay as extracted inductives. *)
From Coq Require Import ExtrOcamlBasic.
From stdpp Require Import gmap.
From RV Require Import Ingress.IngressModel.
(* keeps [nat] in the extracted Datatypes module for the driver's converters *)
Definition keep_nat (n : nat) : nat := S n.
Separate Extraction keep_nat
  IngressModel.run IngressModel.fresh_ids IngressModel.reg_new IngressModel.run_from.
