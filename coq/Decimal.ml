
type uint =
| Nil
| D0 of uint
| D1 of uint
| D2 of uint
| D3 of uint
| D4 of uint
| D5 of uint
| D6 of uint
| D7 of uint
| D8 of uint
| D9 of uint

(** val revapp : uint -> uint -> uint **)

let rec revapp d d' =
  match d with
  | Nil -> d'
  | D0 d0 -> revapp d0 (D0 d')
  | D1 d0 -> revapp d0 (D1 d')
  | D2 d0 -> revapp d0 (D2 d')
  | D3 d0 -> revapp d0 (D3 d')
  | D4 d0 -> revapp d0 (D4 d')
  | D5 d0 -> revapp d0 (D5 d')
  | D6 d0 -> revapp d0 (D6 d')
  | D7 d0 -> revapp d0 (D7 d')
  | D8 d0 -> revapp d0 (D8 d')
  | D9 d0 -> revapp d0 (D9 d')

(** val rev : uint -> uint **)

let rev d =
  revapp d Nil

module Little =
 struct
  (** val double : uint -> uint **)

  let rec double = function
  | Nil -> Nil
  | D0 d0 -> D0 (double d0)
  | D1 d0 -> D2 (double d0)
  | D2 d0 -> D4 (double d0)
  | D3 d0 -> D6 (double d0)
  | D4 d0 -> D8 (double d0)
  | D5 d0 -> D0 (succ_double d0)
  | D6 d0 -> D2 (succ_double d0)
  | D7 d0 -> D4 (succ_double d0)
  | D8 d0 -> D6 (succ_double d0)
  | D9 d0 -> D8 (succ_double d0)

  (** val succ_double : uint -> uint **)

  and succ_double = function
  | Nil -> D1 Nil
  | D0 d0 -> D1 (double d0)
  | D1 d0 -> D3 (double d0)
  | D2 d0 -> D5 (double d0)
  | D3 d0 -> D7 (double d0)
  | D4 d0 -> D9 (double d0)
  | D5 d0 -> D1 (succ_double d0)
  | D6 d0 -> D3 (succ_double d0)
  | D7 d0 -> D5 (succ_double d0)
  | D8 d0 -> D7 (succ_double d0)
  | D9 d0 -> D9 (succ_double d0)
 end
