
type __ = Obj.t
let __ = let rec f _ = Obj.repr f in Obj.repr f

type coq_Decision = bool

(** val decide : coq_Decision -> bool **)

let decide decision =
  decision

type ('a, 'b) coq_RelDecision = 'a -> 'b -> coq_Decision

(** val decide_rel :
    ('a1, 'a2) coq_RelDecision -> 'a1 -> 'a2 -> coq_Decision **)

let decide_rel relDecision =
  relDecision

type 'a coq_Empty = 'a

(** val empty : 'a1 coq_Empty -> 'a1 **)

let empty empty0 =
  empty0

type ('a, 'b) coq_Filter = __ -> ('a -> coq_Decision) -> 'b -> 'b

(** val filter :
    ('a1, 'a2) coq_Filter -> ('a1 -> coq_Decision) -> 'a2 -> 'a2 **)

let filter filter0 h x =
  filter0 __ h x

type 'm coq_FMap = __ -> __ -> (__ -> __) -> 'm -> 'm

(** val fmap : 'a1 coq_FMap -> ('a2 -> 'a3) -> 'a1 -> 'a1 **)

let fmap fMap x x0 =
  Obj.magic fMap __ __ x x0

type 'm coq_OMap = __ -> __ -> (__ -> __ option) -> 'm -> 'm

(** val omap : 'a1 coq_OMap -> ('a2 -> 'a3 option) -> 'a1 -> 'a1 **)

let omap oMap x x0 =
  Obj.magic oMap __ __ x x0

type ('k, 'a, 'm) coq_Lookup = 'k -> 'm -> 'a option

(** val lookup : ('a1, 'a2, 'a3) coq_Lookup -> 'a1 -> 'a3 -> 'a2 option **)

let lookup lookup0 =
  lookup0

type ('k, 'a, 'm) coq_Insert = 'k -> 'a -> 'm -> 'm

(** val insert : ('a1, 'a2, 'a3) coq_Insert -> 'a1 -> 'a2 -> 'a3 -> 'a3 **)

let insert insert0 =
  insert0

type ('k, 'a, 'm) coq_PartialAlter =
  ('a option -> 'a option) -> 'k -> 'm -> 'm

(** val partial_alter :
    ('a1, 'a2, 'a3) coq_PartialAlter -> ('a2 option -> 'a2 option) -> 'a1 ->
    'a3 -> 'a3 **)

let partial_alter partialAlter =
  partialAlter
