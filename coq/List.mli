
val map : ('a1 -> 'a2) -> 'a1 list -> 'a2 list
