open Datatypes

val last : 'a1 list -> 'a1 -> 'a1

val map : ('a1 -> 'a2) -> 'a1 list -> 'a2 list

val flat_map : ('a1 -> 'a2 list) -> 'a1 list -> 'a2 list

val forallb : ('a1 -> bool) -> 'a1 list -> bool

val filter : ('a1 -> bool) -> 'a1 list -> 'a1 list

val combine : 'a1 list -> 'a2 list -> ('a1 * 'a2) list

val firstn : nat -> 'a1 list -> 'a1 list

val skipn : nat -> 'a1 list -> 'a1 list

val repeat : 'a1 -> nat -> 'a1 list
