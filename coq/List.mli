open Datatypes

val map : ('a1 -> 'a2) -> 'a1 list -> 'a2 list

val forallb : ('a1 -> bool) -> 'a1 list -> bool

val filter : ('a1 -> bool) -> 'a1 list -> 'a1 list

val find : ('a1 -> bool) -> 'a1 list -> 'a1 option

val seq : nat -> nat -> nat list
