open Datatypes

val rev : 'a1 list -> 'a1 list

val map : ('a1 -> 'a2) -> 'a1 list -> 'a2 list

val flat_map : ('a1 -> 'a2 list) -> 'a1 list -> 'a2 list

val fold_right : ('a2 -> 'a1 -> 'a1) -> 'a1 -> 'a2 list -> 'a1

val filter : ('a1 -> bool) -> 'a1 list -> 'a1 list

val firstn : nat -> 'a1 list -> 'a1 list

val skipn : nat -> 'a1 list -> 'a1 list
