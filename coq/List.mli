open Datatypes

val map : ('a1 -> 'a2) -> 'a1 list -> 'a2 list

val flat_map : ('a1 -> 'a2 list) -> 'a1 list -> 'a2 list

val fold_right : ('a2 -> 'a1 -> 'a1) -> 'a1 -> 'a2 list -> 'a1

val existsb : ('a1 -> bool) -> 'a1 list -> bool

val forallb : ('a1 -> bool) -> 'a1 list -> bool

val filter : ('a1 -> bool) -> 'a1 list -> 'a1 list
