open BinNat
open BinNums
open BinPos
open Base

module Pos :
 sig
  val eq_dec : (positive, positive) coq_RelDecision

  val reverse_go : positive -> positive -> positive

  val reverse : positive -> positive
 end

val coq_N_eq_dec : (coq_N, coq_N) coq_RelDecision
