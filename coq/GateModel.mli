open BinNat
open BinNums
open Bool
open Datatypes
open List
open Nat

type entry = coq_N * coq_N

type cmd =
| CSub of coq_N
| CUnsub of coq_N
| CSusp of coq_N * bool
| CAttach of coq_N
| CDetach of coq_N
| CTerm

type ccmd =
| FSub of entry
| FUnsub of coq_N
| FTerm

type pstate =
| PIdle of coq_N
| PSending of coq_N * entry list * entry list * bool

type lstate =
| LIdle
| LPending
| LConn of coq_N * bool

type clone = { c_alive : bool; c_att : bool; c_term : bool; c_q : ccmd list }

type chan = { ch_q : (coq_N * coq_N) list; ch_rx : bool }

type cfg = { cf_cap : coq_N; cf_follow : bool }

type st = { upd : entry list; sus : entry list; nslot : coq_N;
            rootq : cmd list; root_term : bool; root_dropped : bool;
            nclone : coq_N; clones : (coq_N -> clone);
            pubs : (coq_N -> pstate); links : (coq_N -> lstate);
            chans : (coq_N -> chan);
            delivered : (((coq_N * coq_N) * coq_N) * coq_N) list;
            received : ((coq_N * coq_N) * coq_N) list;
            completed : (((coq_N * coq_N) * entry list) * bool) list }

val set_upd : entry list -> st -> st

val set_sus : entry list -> st -> st

val set_nslot : coq_N -> st -> st

val set_rootq : cmd list -> st -> st

val set_root_term : bool -> st -> st

val set_root_dropped : bool -> st -> st

val set_nclone : coq_N -> st -> st

val set_clones : (coq_N -> clone) -> st -> st

val set_pubs : (coq_N -> pstate) -> st -> st

val set_links : (coq_N -> lstate) -> st -> st

val set_chans : (coq_N -> chan) -> st -> st

val set_delivered : (((coq_N * coq_N) * coq_N) * coq_N) list -> st -> st

val set_received : ((coq_N * coq_N) * coq_N) list -> st -> st

val set_completed : (((coq_N * coq_N) * entry list) * bool) list -> st -> st

val fupd : (coq_N -> 'a1) -> coq_N -> 'a1 -> coq_N -> 'a1

val is_direct : coq_N -> bool

val key_neq : coq_N -> entry -> bool

val m_del : coq_N -> entry list -> entry list

val m_ins : entry -> entry list -> entry list

val m_find : coq_N -> entry list -> entry option

val notify : ccmd -> (coq_N -> clone) -> coq_N -> clone

val set_att : bool -> clone -> clone

val set_cterm : clone -> clone

val set_cq : ccmd list -> clone -> clone

val pub_alive : st -> coq_N -> bool

val pub_idle : st -> coq_N -> bool

val gate_dormant : st -> bool

val clone_dead : st -> coq_N -> bool

type action =
| ASendSub of coq_N
| ASendUnsub of coq_N
| ASendSusp of coq_N * bool
| ARecv of coq_N
| ASendTerm
| ARoot
| ARootDrop
| AClone
| ACloneStep of coq_N
| ACloneDrop of coq_N
| ABegin of coq_N
| ADeliver of coq_N
| AEnd of coq_N

val root_handle : st -> cmd -> st

val clone_handle : cfg -> st -> coq_N -> ccmd -> st

val step : cfg -> st -> action -> st

val init : st

val all_gone : st -> bool

val clone_drain : cfg -> nat -> st -> coq_N -> st
