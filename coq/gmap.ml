open Base
open Countable
open Fin_maps
open List0
open Option
open Pmap

type ('k, 'a) gmap =
  'a coq_Pmap
  (* singleton inductive, whose constructor was GMap *)

(** val gmap_lookup :
    ('a1, 'a1) coq_RelDecision -> 'a1 coq_Countable -> ('a1, 'a2, ('a1, 'a2)
    gmap) coq_Lookup **)

let gmap_lookup _ h i pat =
  lookup coq_Plookup (h.encode i) pat

(** val gmap_empty :
    ('a1, 'a1) coq_RelDecision -> 'a1 coq_Countable -> ('a1, 'a2) gmap
    coq_Empty **)

let gmap_empty _ _ =
  empty coq_Pempty

(** val gmap_partial_alter :
    ('a1, 'a1) coq_RelDecision -> 'a1 coq_Countable -> ('a1, 'a2, ('a1, 'a2)
    gmap) coq_PartialAlter **)

let gmap_partial_alter _ h f i pat =
  partial_alter coq_Ppartial_alter f (h.encode i) pat

(** val gmap_to_list :
    ('a1, 'a1) coq_RelDecision -> 'a1 coq_Countable -> ('a1, 'a2, ('a1, 'a2)
    gmap) coq_FinMapToList **)

let gmap_to_list _ h pat =
  omap (Obj.magic (fun _ _ -> list_omap)) (fun pat0 ->
    let (i, x) = pat0 in
    fmap (Obj.magic (fun _ _ -> option_fmap)) (fun x0 -> (x0, x)) (h.decode i))
    (map_to_list (Obj.magic coq_Pto_list) pat)
