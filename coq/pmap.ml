open BinNums
open Datatypes
open Base
open Fin_maps
open Numbers
open Option

type 'a coq_Pmap_raw =
| PLeaf
| PNode of 'a option * 'a coq_Pmap_raw * 'a coq_Pmap_raw

(** val coq_PNode' :
    'a1 option -> 'a1 coq_Pmap_raw -> 'a1 coq_Pmap_raw -> 'a1 coq_Pmap_raw **)

let coq_PNode' o l r =
  match l with
  | PLeaf ->
    (match o with
     | Some _ -> PNode (o, l, r)
     | None ->
       (match r with
        | PLeaf -> PLeaf
        | PNode (_, _, _) -> PNode (o, l, r)))
  | PNode (_, _, _) -> PNode (o, l, r)

(** val coq_Pempty_raw : 'a1 coq_Pmap_raw coq_Empty **)

let coq_Pempty_raw =
  PLeaf

(** val coq_Plookup_raw : (positive, 'a1, 'a1 coq_Pmap_raw) coq_Lookup **)

let rec coq_Plookup_raw i = function
| PLeaf -> None
| PNode (o, l, r) ->
  (match i with
   | Coq_xI i0 -> lookup coq_Plookup_raw i0 r
   | Coq_xO i0 -> lookup coq_Plookup_raw i0 l
   | Coq_xH -> o)

(** val coq_Psingleton_raw : positive -> 'a1 -> 'a1 coq_Pmap_raw **)

let rec coq_Psingleton_raw i x =
  match i with
  | Coq_xI i0 -> PNode (None, PLeaf, (coq_Psingleton_raw i0 x))
  | Coq_xO i0 -> PNode (None, (coq_Psingleton_raw i0 x), PLeaf)
  | Coq_xH -> PNode ((Some x), PLeaf, PLeaf)

(** val coq_Ppartial_alter_raw :
    ('a1 option -> 'a1 option) -> positive -> 'a1 coq_Pmap_raw -> 'a1
    coq_Pmap_raw **)

let rec coq_Ppartial_alter_raw f i = function
| PLeaf ->
  (match f None with
   | Some x -> coq_Psingleton_raw i x
   | None -> PLeaf)
| PNode (o, l, r) ->
  (match i with
   | Coq_xI i0 -> coq_PNode' o l (coq_Ppartial_alter_raw f i0 r)
   | Coq_xO i0 -> coq_PNode' o (coq_Ppartial_alter_raw f i0 l) r
   | Coq_xH -> coq_PNode' (f o) l r)

(** val coq_Pto_list_raw :
    positive -> 'a1 coq_Pmap_raw -> (positive * 'a1) list -> (positive * 'a1)
    list **)

let rec coq_Pto_list_raw j t acc =
  match t with
  | PLeaf -> acc
  | PNode (o, l, r) ->
    app (from_option (fun x -> ((Pos.reverse j), x) :: []) [] o)
      (coq_Pto_list_raw (Coq_xO j) l (coq_Pto_list_raw (Coq_xI j) r acc))

type 'a coq_Pmap =
  'a coq_Pmap_raw
  (* singleton inductive, whose constructor was PMap *)

(** val pmap_car : 'a1 coq_Pmap -> 'a1 coq_Pmap_raw **)

let pmap_car p =
  p

(** val coq_Pempty : 'a1 coq_Pmap coq_Empty **)

let coq_Pempty =
  empty coq_Pempty_raw

(** val coq_Plookup : (positive, 'a1, 'a1 coq_Pmap) coq_Lookup **)

let coq_Plookup i m =
  lookup coq_Plookup_raw i (pmap_car m)

(** val coq_Ppartial_alter :
    (positive, 'a1, 'a1 coq_Pmap) coq_PartialAlter **)

let coq_Ppartial_alter f i m =
  partial_alter coq_Ppartial_alter_raw f i m

(** val coq_Pto_list : (positive, 'a1, 'a1 coq_Pmap) coq_FinMapToList **)

let coq_Pto_list m =
  coq_Pto_list_raw Coq_xH m []
