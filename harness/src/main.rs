//! vh <engine> : reads one case per line on stdin, runs the implementation
//! (rotonda built from /repo's working tree with feature verif-hooks) and
//! prints its canonical observation per case on stdout.
mod engines;
mod util;

use std::io::{BufRead, Write};

fn main() {
    let args: Vec<String> = std::env::args().collect();
    if args.len() < 2 {
        eprintln!("usage: vh <engine> [args]");
        std::process::exit(2);
    }
    // Panics are caught per case and reported as observations.
    std::panic::set_hook(Box::new(|info| {
        if std::env::var("VH_DEBUG").is_ok() {
            eprintln!("panic: {info}");
        }
    }));
    let engine = args[1].as_str();
    let rest = &args[2..];
    if engines::special(engine, rest) {
        return;
    }
    let f = match engines::lookup(engine) {
        Some(f) => f,
        None => {
            eprintln!("unknown engine {engine}");
            std::process::exit(2);
        }
    };
    let stdin = std::io::stdin();
    let stdout = std::io::stdout();
    let mut out = stdout.lock();
    for line in stdin.lock().lines() {
        let line = line.unwrap();
        let res = std::panic::catch_unwind(|| f(&line));
        let s = match res {
            Ok(s) => s,
            Err(e) => format!("PANIC {}", util::panic_msg(&e)),
        };
        writeln!(out, "{s}").unwrap();
    }
}
