//! vh <engine> : reads one case per line on stdin, runs the implementation
//! (rotonda built from /repo's working tree with feature verif-hooks) and
//! prints its canonical observation per case on stdout.
mod engines;
mod util;

use std::io::{BufRead, Write};

fn main() {
    let args: Vec<String> = std::env::args().collect();
    if args.len() < 2 {
        eprintln!("usage: vh <engine> [args]");
        std::process::exit(2);
    }
    // Panics are caught per case and reported as observations.
    std::panic::set_hook(Box::new(|info| {
        if std::env::var("VH_DEBUG").is_ok() {
            eprintln!("panic: {info}");
        }
    }));
    let engine = args[1].as_str();
    let rest = &args[2..];
    if engines::special(engine, rest) {
        return;
    }
    let f = match engines::lookup(engine) {
        Some(f) => f,
        None => {
            eprintln!("unknown engine {engine}");
            std::process::exit(2);
        }
    };
    // A case that never returns (a busy loop in the implementation cannot be interrupted from inside the process) must not
    // take its whole shard with it: a watchdog answers `HANG` for that case after VH_CASE_TIMEOUT seconds (default 90) and ends
    // the process; the driver (lib/vcommon.py _run_one) starts a new one for the cases behind it.
    let limit = std::env::var("VH_CASE_TIMEOUT").ok().and_then(|v| v.parse::<u64>().ok()).unwrap_or(90);
    let current: std::sync::Arc<std::sync::Mutex<Option<std::time::Instant>>> = Default::default();
    {
        let current = current.clone();
        std::thread::spawn(move || loop {
            std::thread::sleep(std::time::Duration::from_millis(500));
            let g = current.lock().unwrap();
            if let Some(t0) = *g {
                if t0.elapsed().as_secs() >= limit {
                    // the answer of the running case; the lock is held, so the main thread cannot print a second one
                    println!("HANG no answer within {limit} s");
                    let _ = std::io::stdout().flush();
                    std::process::exit(3);
                }
            }
        });
    }
    let stdin = std::io::stdin();
    for line in stdin.lock().lines() {
        let line = line.unwrap();
        *current.lock().unwrap() = Some(std::time::Instant::now());
        let res = std::panic::catch_unwind(|| f(&line));
        let s = match res {
            Ok(s) => s,
            Err(e) => format!("PANIC {}", util::panic_msg(&e)),
        };
        let mut g = current.lock().unwrap();
        *g = None;
        println!("{s}");
        let _ = std::io::stdout().flush();
        drop(g);
    }
}
