//! C08: Gate / Link / DirectLink (src/comms.rs). Same case grammar as
//! oracle/eng_c08.ml.
//!
//! A case is a *schedule*: a sequence of ops, each executed on a paused-clock
//! `current_thread` tokio runtime and followed by "settling" (all tasks run
//! until every one of them is blocked; detected by a 1 ms sleep on the paused
//! clock, which only fires when the runtime is otherwise idle). Publishers'
//! `update_data` calls are spawned tasks, so an update can be *in flight*
//! (blocked on a full queue link) while links subscribe / unsubscribe /
//! suspend and clones replay their `Follow*` commands late.
//!
//! ops (separated by ';'):
//!   Q k   queue capacity of the gate (first op only; default 2)
//!   c l   link l connects            (even l: queue link, odd l: direct link)
//!   d l   link l disconnects         s l  suspends      r l  resumes (hook)
//!   q l   queue link l: one query()
//!   k     clone the root gate        x c  drop clone c  (c >= 1)
//!   F c   clone c: ONE process() call (returns at a status change)
//!   D c   clone c: process() until its command queue is empty
//!   u p   publisher p (0 = root gate, c = clone c) starts update_data(next seq)
//!   T     agent.terminate(), root processes it and is dropped
//!   X     root gate dropped without Terminate (unit exits by itself)
//! After every link / clone / terminate op the root gate processes its
//! command queue until it is empty.
use crate::util::ops;
use rotonda::comms::{AnyDirectUpdate, DirectLink, DirectUpdate, Gate, GateAgent, Link, Terminated, UnitStatus};
use rotonda::payload::Update;
use std::future::Future;
use std::pin::Pin;
use std::sync::atomic::{AtomicBool, Ordering::SeqCst};
use std::sync::{Arc, Mutex};
use std::time::Duration;

pub const NLINKS: usize = 6;
const MAXCLONES: usize = 6;
const CLONE_LAG_LIMIT: usize = 12;

fn enc(p: u32, n: u32) -> Update { Update::Withdraw((p << 20) | n, None) }
fn dec(u: &Update) -> (u32, u32) {
    match u { Update::Withdraw(id, _) => (id >> 20, id & 0xfffff), _ => (999, 999) }
}

#[derive(Debug, Default)]
pub struct Tgt { pub log: Mutex<Vec<(u32, u32)>> }
impl DirectUpdate for Tgt {
    fn direct_update<'a, 'b>(&'a self, update: Update) -> Pin<Box<dyn Future<Output = ()> + Send + 'b>>
    where 'a: 'b, Self: 'b {
        Box::pin(async move { self.log.lock().unwrap().push(dec(&update)); })
    }
}
impl AnyDirectUpdate for Tgt {}

enum LK { Q(Link), D(DirectLink) }
struct L { lk: LK, tgt: Arc<Tgt>, conn: bool, susp: bool, gone: bool, log: Vec<(u32, u32)> }
struct P { gate: Option<Arc<Gate>>, next: u32, busy: Option<Arc<AtomicBool>>, term: bool, lag: usize }

struct St { root_term: Arc<AtomicBool>, root_task: Option<tokio::task::JoinHandle<()>>, agent: GateAgent, links: Vec<L>, pubs: Vec<P>, out: Vec<String> }

async fn settle() { tokio::time::sleep(Duration::from_millis(1)).await }

fn idle(p: &mut P) -> bool {
    if let Some(b) = &p.busy { if b.load(SeqCst) { p.busy = None; } }
    p.busy.is_none()
}

impl St {
    fn root(&self) -> Option<Arc<Gate>> { if self.root_term.load(SeqCst) { None } else { self.pubs[0].gate.clone() } }

    /// The root gate runs `process()` in a standing task (never cancelled mid-command), so it
    /// handles every command as soon as the runtime gets to it; draining = settling.
    async fn root_drain(&mut self) { settle().await }

    async fn clone_process(&mut self, c: usize, all: bool) -> &'static str {
        let g = match &self.pubs[c] { P { gate: Some(g), term: false, .. } => g.clone(), _ => return "skip" };
        loop {
            let r = tokio::select! { biased;
                r = g.process() => Some(r),
                _ = settle() => None,
            };
            match r {
                None => { if all { self.pubs[c].lag = 0; } return "idle" }
                Some(Err(Terminated)) => { self.pubs[c].term = true; return "term" }
                Some(Ok(_)) => { if !all { return "ok" } }
            }
        }
    }

    /// keeps every clone's command queue well below its capacity (16), so that the root never
    /// blocks inside notify_clones (both engines do the same bookkeeping)
    async fn lag_guard(&mut self) {
        for c in 1..self.pubs.len() {
            if self.pubs[c].gate.is_some() && !self.pubs[c].term && self.pubs[c].lag >= CLONE_LAG_LIMIT {
                self.clone_process(c, true).await;
            }
        }
    }
    fn notified(&mut self) {
        if self.root().is_none() { return }
        for c in 1..self.pubs.len() { if self.pubs[c].gate.is_some() { self.pubs[c].lag += 1; } }
    }

    async fn connect(&mut self, l: usize) -> &'static str {
        if self.links[l].conn { return "skip" }
        if self.links[l].gone { return "gone" }
        self.lag_guard().await;
        self.notified();
        let res = {
            let lk = &mut self.links[l];
            let tgt: Arc<dyn AnyDirectUpdate> = lk.tgt.clone();
            let fut: Pin<Box<dyn Future<Output = Result<(), UnitStatus>> + '_>> = match &mut lk.lk {
                LK::Q(link) => Box::pin(link.connect(false)),
                LK::D(dl) => Box::pin(dl.connect(tgt, false)),
            };
            tokio::pin!(fut);
            tokio::select! { biased; r = &mut fut => Some(r), _ = settle() => None }
        };
        let r = match res {
            Some(Ok(())) => { self.links[l].conn = true; self.links[l].susp = false; "ok" }
            Some(Err(_)) => { self.links[l].gone = true; "gone" }
            None => "hang",
        };
        self.root_drain().await;
        r
    }

    async fn link_cmd(&mut self, l: usize, what: &str) -> &'static str {
        if !self.links[l].conn { return "skip" }
        if what == "s" && self.links[l].susp { return "skip" }
        if what == "r" && !self.links[l].susp { return "skip" }
        self.lag_guard().await;
        if what == "d" { self.notified(); }
        let lk = &mut self.links[l];
        match what {
            "d" => {
                match &mut lk.lk { LK::Q(link) => link.disconnect().await, LK::D(dl) => dl.disconnect().await }
                lk.conn = false;
                lk.susp = false;
            }
            "s" => {
                match &mut lk.lk { LK::Q(link) => link.suspend().await, LK::D(dl) => dl.suspend().await }
                lk.susp = true;
            }
            _ => {
                match &mut lk.lk { LK::Q(link) => link.verif_resume().await, LK::D(dl) => dl.verif_resume().await }
                lk.susp = false;
            }
        }
        self.root_drain().await;
        "ok"
    }

    async fn query(&mut self, l: usize) -> String {
        let lk = &mut self.links[l];
        if !lk.conn || lk.gone { return "skip".into() }
        let r = match &mut lk.lk {
            LK::D(_) => return "skip".into(),
            LK::Q(link) => tokio::select! { biased; r = link.query() => Some(r), _ = settle() => None },
        };
        let s = match r {
            None => "-".to_string(),
            Some(Ok(u)) => { lk.log.push(dec(&u)); "item".to_string() }
            Some(Err(UnitStatus::Gone)) => { lk.gone = true; "gone".to_string() }
            Some(Err(_)) => "status".to_string(),
        };
        settle().await;
        s
    }

    async fn update(&mut self, p: usize) -> &'static str {
        if p >= self.pubs.len() || self.pubs[p].gate.is_none() || !idle(&mut self.pubs[p]) { return "skip" }
        let g = self.pubs[p].gate.clone().unwrap();
        let n = self.pubs[p].next;
        self.pubs[p].next += 1;
        let done = Arc::new(AtomicBool::new(false));
        self.pubs[p].busy = Some(done.clone());
        tokio::spawn(async move {
            g.update_data(enc(p as u32, n)).await;
            drop(g);
            done.store(true, SeqCst);
        });
        settle().await;
        if idle(&mut self.pubs[p]) { "done" } else { "blk" }
    }
}

fn show_log(log: &[(u32, u32)]) -> String {
    let mut ps: Vec<u32> = log.iter().map(|x| x.0).collect();
    ps.sort();
    ps.dedup();
    if ps.is_empty() { return "-".into() }
    ps.iter().map(|p| format!("{}:{}", p, log.iter().filter(|x| x.0 == *p).map(|x| x.1.to_string()).collect::<Vec<_>>().join(","))).collect::<Vec<_>>().join("/")
}

pub fn run_case(line: &str) -> String {
    let rt = tokio::runtime::Builder::new_current_thread().enable_time().start_paused(true).build().unwrap();
    let ops = ops(line);
    let cap = ops.first().filter(|o| o[0] == "Q").map(|o| o[1].parse::<usize>().unwrap().max(1)).unwrap_or(2);
    let (gate, mut agent) = Gate::new(cap);
    let metrics = gate.metrics();
    let links = (0..NLINKS).map(|l| {
        let link = agent.create_link();
        L { lk: if l % 2 == 0 { LK::Q(link) } else { LK::D(DirectLink::from(link)) }, tgt: Arc::new(Tgt::default()),
            conn: false, susp: false, gone: false, log: vec![] }
    }).collect();
    let gate = Arc::new(gate);
    let root_term = Arc::new(AtomicBool::new(false));
    let root_task = {
        let (g, flag) = (gate.clone(), root_term.clone());
        let _e = rt.enter();
        // "run" the gate like a unit does; the unit exits when process() says Terminated
        tokio::spawn(async move {
            while g.process().await.is_ok() {}
            drop(g);
            flag.store(true, SeqCst);
        })
    };
    let mut st = St { root_term, root_task: Some(root_task), agent, links, out: vec![],
                      pubs: vec![P { gate: Some(gate), next: 0, busy: None, term: false, lag: 0 }] };
    let num = |o: &Vec<&str>| o.get(1).and_then(|t| t.parse::<usize>().ok()).unwrap_or(0);
    for o in &ops {
        let tok: String = match o[0] {
            "Q" => "Q".into(),
            "c" if num(o) < NLINKS => format!("c:{}", rt.block_on(st.connect(num(o)))),
            "d" | "s" | "r" if num(o) < NLINKS => format!("{}:{}", o[0], rt.block_on(st.link_cmd(num(o), o[0]))),
            "q" if num(o) < NLINKS => format!("q:{}", rt.block_on(st.query(num(o)))),
            "u" => format!("u:{}", rt.block_on(st.update(num(o)))),
            "k" => {
                if st.root().is_none() || st.pubs.len() > MAXCLONES { "k:skip".into() } else {
                    let g = rt.block_on(async { let g = st.pubs[0].gate.as_ref().unwrap().as_ref().clone(); settle().await; g });
                    st.pubs.push(P { gate: Some(Arc::new(g)), next: 0, busy: None, term: false, lag: 0 });
                    format!("k:{}", st.pubs.len() - 1)
                }
            }
            "x" => {
                let c = num(o);
                if c == 0 || c >= st.pubs.len() || st.pubs[c].gate.is_none() || !idle(&mut st.pubs[c]) { "x:skip".into() } else {
                    // outside the runtime context: Drop for a cloned Gate uses block_in_place inside one
                    let g = st.pubs[c].gate.take().unwrap();
                    drop(Arc::try_unwrap(g).expect("clone still shared"));
                    rt.block_on(st.root_drain());
                    "x:ok".into()
                }
            }
            "F" | "D" => {
                let c = num(o);
                if c == 0 || c >= st.pubs.len() { format!("{}:skip", o[0]) } else { format!("{}:{}", o[0], rt.block_on(st.clone_process(c, o[0] == "D"))) }
            }
            "T" | "X" => {
                if st.root().is_none() || !idle(&mut st.pubs[0]) { format!("{}:skip", o[0]) } else { format!("{}:{}", o[0], stop_root(&rt, &mut st, o[0] == "T")) }
            }
            _ => "?".into(),
        };
        st.out.push(tok);
    }
    // ---- final phase: let every update in flight finish, then terminate everything
    loop {
        let mut progress = false;
        for l in (0..NLINKS).step_by(2) {
            while rt.block_on(st.query(l)) == "item" { progress = true; }
        }
        if !progress { break }
    }
    let busy: Vec<String> = (0..st.pubs.len()).filter(|p| !idle(&mut st.pubs[*p])).map(|p| p.to_string()).collect();
    if st.root().is_some() && busy.is_empty() { stop_root(&rt, &mut st, true); }
    let mut terms = vec![];
    for c in 1..st.pubs.len() {
        if st.pubs[c].gate.is_some() && busy.is_empty() {
            let r = if st.pubs[c].term { "term" } else { rt.block_on(st.clone_process(c, true)) };
            terms.push(format!("{}:{}", c, if r == "term" { 1 } else { 0 }));
            if let Some(g) = st.pubs[c].gate.take() { drop(g); }
        }
    }
    let mut gones = vec![];
    for l in (0..NLINKS).step_by(2) {
        if st.links[l].conn && busy.is_empty() {
            let mut r = rt.block_on(st.query(l));
            while r == "item" { r = rt.block_on(st.query(l)); }
            gones.push(format!("{}:{}", l, if st.links[l].gone { 1 } else { 0 }));
        }
    }
    let mut out = st.out.clone();
    out.push("|".into());
    for l in 0..NLINKS {
        let log = if l % 2 == 0 { st.links[l].log.clone() } else { st.links[l].tgt.log.lock().unwrap().clone() };
        out.push(format!("L{}={}", l, show_log(&log)));
    }
    out.push(format!("m={}/{}", metrics.num_updates.load(SeqCst), metrics.num_dropped_updates.load(SeqCst)));
    out.push(format!("busy={}", if busy.is_empty() { "-".into() } else { busy.join(",") }));
    out.push(format!("t={}", if terms.is_empty() { "-".into() } else { terms.join(",") }));
    out.push(format!("g={}", if gones.is_empty() { "-".into() } else { gones.join(",") }));
    // links are dropped inside the runtime context (Drop for a connected Link spawns a task)
    let _g = rt.enter();
    drop(st);
    out.join(" ")
}

/// T: agent.terminate(); the unit task sees Terminated and exits (dropping the gate).
/// X: the unit task is stopped without a Terminate command.
fn stop_root(rt: &tokio::runtime::Runtime, st: &mut St, terminate: bool) -> &'static str {
    rt.block_on(async {
        if terminate {
            st.lag_guard().await;
            st.notified();
            st.agent.terminate().await;
        } else if let Some(t) = &st.root_task { t.abort(); }
        settle().await;
    });
    let seen = st.root_term.load(SeqCst);
    st.root_term.store(true, SeqCst);
    st.root_task = None;
    st.pubs[0].gate = None;
    rt.block_on(settle());
    if terminate && !seen { "lost" } else if st.agent.is_terminated() { "ok" } else { "open" }
}

pub fn special(_name: &str, _args: &[String]) -> bool { false }
