//! C08: Gate / Link / DirectLink (src/comms.rs). Same case grammar as
//! oracle/eng_c08.ml. Also the gate part of C15 (GateMetrics num_updates /
//! num_dropped_updates: the `M` op and the final `m=` token).
//!
//! A case is a *schedule*: a sequence of ops, each executed on a paused-clock
//! `current_thread` tokio runtime and followed by "settling" (all tasks run
//! until every one of them is blocked; detected by a 1 ms sleep on the paused
//! clock, which only fires when the runtime is otherwise idle). Publishers'
//! `update_data` calls are spawned tasks, so an update can be *in flight*
//! (blocked on a full queue link) while links subscribe / unsubscribe /
//! suspend and clones replay their `Follow*` commands late. The root gate runs
//! `process()` in a standing task; when a clone that does not run `process()`
//! has 16 commands pending (COMMAND_QUEUE_LEN) the root WAITS inside
//! `notify_clones` and gets to nothing else until that clone takes a command
//! off its queue or is dropped (back-pressure): a `connect()` stays in flight
//! (`c:blk`), a Terminate is acted on late (`T:blk` / `Z:blk`).
//!
//! ops (separated by ';'):
//!   Q k   queue capacity of the gate (first op only; default 2)
//!   c l   link l connects            (even l: queue link, odd l: direct link)
//!   d l   link l disconnects         s l  suspends      r l  resumes (hook)
//!   t l   direct link l: the component drops its direct-update target, the link stays subscribed
//!   a l   link l: an ABANDONED connect, early. The future (queue link: `query()`, which connects first; direct link:
//!         `connect(target)`) is polled ONCE - Subscribe is queued - and dropped before the gate gets to the command;
//!         then the gate runs. If a `c l` is in flight (`c:blk`, the gate lags) its task is cancelled instead.
//!   b l   link l: an abandoned connect, late. `connect()` is polled once, the gate runs and ANSWERS (the answer sits
//!         in the oneshot), the future is dropped without being polled again; then the gate runs.
//!   q l   queue link l: one query()
//!   k     clone the root gate        x c  drop clone c  (c >= 1)
//!   F c   clone c: ONE process() call (returns at a status change)
//!   D c   clone c: process() until its command queue is empty
//!   u p   publisher p (0 = root gate, c = clone c) starts update_data(next seq)
//!   M     read GateMetrics now: M:<num_updates>/<num_dropped_updates>
//!   T     agent.terminate(); the harness lets go of the root gate (it is dropped when process() has returned)
//!   Z     agent.terminate(), the gate object stays alive (unit busy exiting);
//!         link ops are skipped until the gate is dropped
//!   X     the unit's task is cancelled and the root gate dropped (without Terminate, or after Z)
//!   H     the unit is busy with something else than its gate: the pending process() call is cancelled (as
//!         process_until does) and process() is not polled until `R`; commands pile up in the root's command
//!         channel (16 places; a sender that finds it full waits). k / x / T / Z / X / b are skipped meanwhile,
//!         d / s / r (which await their send) are skipped when the channel is full
//!   R     the unit gets back to its gate: process() runs again and works off the commands
//!   o l   the connected link l is DROPPED (`impl Drop for Link`: the Unsubscribe is sent by a spawned task that
//!         waits for room); the component keeps its direct-update target and gets a fresh link to the same gate
//! Link ops and `k` are skipped while commands are waiting in the root's queue
//! (`GateAgent::verif_pending_commands`, read after settling): the root is not
//! getting to them, and the queue (16) must not fill up.
use crate::util::ops;
use rotonda::comms::{AnyDirectUpdate, DirectLink, DirectUpdate, Gate, GateAgent, Link, Terminated, UnitStatus};
use rotonda::payload::Update;
use std::future::Future;
use std::pin::Pin;
use std::sync::atomic::{AtomicBool, Ordering::SeqCst};
use std::sync::{Arc, Mutex};
use std::time::Duration;

pub const NLINKS: usize = 6;
const MAXCLONES: usize = 6;

// an update carries (publisher, sequence number)
fn enc(p: u32, n: u32) -> Update { Update::WithdrawBulk([p, n].into_iter().collect()) }
fn dec(u: &Update) -> (u32, u32) {
    match u { Update::WithdrawBulk(v) if v.len() == 2 => (v[0], v[1]), _ => (u32::MAX, u32::MAX) }
}

type Log = Arc<Mutex<Vec<(u32, u32)>>>;

/// a direct-update target; its log outlives it (the target can be dropped, op `t`)
#[derive(Debug, Default)]
pub struct Tgt { pub log: Log }
impl DirectUpdate for Tgt {
    fn direct_update<'a, 'b>(&'a self, update: Update) -> Pin<Box<dyn Future<Output = ()> + Send + 'b>>
    where 'a: 'b, Self: 'b {
        Box::pin(async move { self.log.lock().unwrap().push(dec(&update)); })
    }
}
impl AnyDirectUpdate for Tgt {}

enum LK { Q(Link), D(DirectLink) }
type ConnTask = tokio::task::JoinHandle<(LK, Result<(), UnitStatus>)>;
struct L { lk: Option<LK>, direct: bool, tgt: Option<Arc<Tgt>>, dlog: Log, pending: Option<ConnTask>,
           conn: bool, susp: bool, gone: bool, log: Vec<(u32, u32)> }
struct P { gate: Option<Arc<Gate>>, next: u32, busy: Option<Arc<AtomicBool>>, term: bool }

/// op H / R: whether the unit polls process() of the root gate
#[derive(Default)]
struct Hold { held: AtomicBool, wake: tokio::sync::Notify }

struct St { hold: Arc<Hold>, root_done: Arc<AtomicBool>, root_task: Option<tokio::task::JoinHandle<()>>, term_req: bool, aborted: bool,
            agent: GateAgent, links: Vec<L>, pubs: Vec<P>, out: Vec<String> }

async fn settle() { tokio::time::sleep(Duration::from_millis(1)).await }

fn idle(p: &mut P) -> bool {
    if let Some(b) = &p.busy { if b.load(SeqCst) { p.busy = None; } }
    p.busy.is_none()
}

impl St {
    /// the harness still holds the root Gate object
    fn root_handle(&self) -> bool { self.pubs[0].gate.is_some() }

    /// the root Gate object is gone: the harness let go of it and the unit's task is over
    fn root_gone(&self) -> bool { !self.root_handle() && (self.aborted || self.root_done.load(SeqCst)) }

    /// Terminate was requested and the gate object still exists
    fn closing(&self) -> bool { self.term_req && !self.root_gone() }

    /// commands the root has not got to
    fn stuck(&self) -> bool { !self.held() && !self.root_gone() && self.agent.verif_pending_commands() > 0 }

    fn held(&self) -> bool { self.hold.held.load(SeqCst) }

    /// the unit is busy elsewhere and every place of the command channel is taken: a sender would wait
    fn full(&self) -> bool { self.held() && self.agent.verif_pending_commands() >= 16 }

    async fn hold_root(&mut self) -> &'static str {
        if self.held() || !self.root_handle() || self.term_req || self.stuck() || self.root_done.load(SeqCst) || self.aborted { return "skip" }
        self.hold.held.store(true, SeqCst);
        self.hold.wake.notify_one();
        settle().await;
        "ok"
    }

    async fn release_root(&mut self) -> &'static str {
        if !self.held() { return "skip" }
        self.hold.held.store(false, SeqCst);
        self.hold.wake.notify_one();
        self.root_drain().await;
        "ok"
    }

    /// Drop for Link: the link object goes, the component keeps its target and gets a new link to the gate
    async fn drop_link(&mut self, l: usize) -> &'static str {
        if !self.links[l].conn || self.links[l].pending.is_some() || self.closing() || self.stuck() { return "skip" }
        let lk = self.links[l].lk.take().unwrap();
        drop(lk);
        self.links[l].conn = false;
        self.links[l].susp = false;
        let link = self.agent.create_link();
        self.links[l].lk = Some(if self.links[l].direct { LK::D(DirectLink::from(link)) } else { LK::Q(link) });
        self.root_drain().await;
        "ok"
    }

    /// Settling; then pick up every connect() that has come back meanwhile.
    async fn root_drain(&mut self) {
        settle().await;
        for l in 0..NLINKS {
            if self.links[l].pending.as_ref().map(|t| t.is_finished()).unwrap_or(false) {
                let t = self.links[l].pending.take().unwrap();
                let (lk, r) = t.await.expect("connect task");
                self.links[l].lk = Some(lk);
                match r {
                    Ok(()) => { self.links[l].conn = true; self.links[l].susp = false; }
                    Err(_) => { self.links[l].gone = true; }
                }
            }
        }
    }

    async fn clone_process(&mut self, c: usize, all: bool) -> &'static str {
        let g = match &self.pubs[c] { P { gate: Some(g), term: false, .. } => g.clone(), _ => return "skip" };
        let res = loop {
            let r = tokio::select! { biased;
                r = g.process() => Some(r),
                _ = settle() => None,
            };
            match r {
                None => break "idle",
                Some(Err(Terminated)) => { self.pubs[c].term = true; break "term" }
                Some(Ok(_)) => { if !all { break "ok" } }
            }
        };
        drop(g);
        self.root_drain().await;
        res
    }

    async fn connect(&mut self, l: usize) -> &'static str {
        if self.links[l].conn || self.links[l].pending.is_some() || self.closing() || self.stuck() { return "skip" }
        if self.links[l].gone { return "gone" }
        let lk = self.links[l].lk.take().unwrap();
        if self.links[l].direct && self.links[l].tgt.is_none() {
            self.links[l].tgt = Some(Arc::new(Tgt { log: self.links[l].dlog.clone() }));
        }
        let tgt: Option<Arc<dyn AnyDirectUpdate>> = self.links[l].tgt.clone().map(|t| t as Arc<dyn AnyDirectUpdate>);
        // the connect() call lives in a task of its own: it stays in flight while the gate does not answer
        self.links[l].pending = Some(tokio::spawn(async move {
            match lk {
                LK::Q(mut link) => { let r = link.connect(false).await; (LK::Q(link), r) }
                LK::D(mut dl) => { let r = dl.connect(tgt.unwrap(), false).await; (LK::D(dl), r) }
            }
        }));
        self.root_drain().await;
        if self.links[l].pending.is_some() { "blk" } else if self.links[l].conn { "ok" } else { "gone" }
    }

    /// an abandoned connect: the requester goes away between queueing Subscribe and picking up the answer
    async fn abandon(&mut self, l: usize, late: bool) -> &'static str {
        if self.links[l].conn || self.closing() { return "skip" }
        if let Some(t) = self.links[l].pending.take() {
            // a connect() in flight (the gate lags): the task is cancelled, the link it owned goes with it; the
            // component gets a new link to the same gate (same direct-update target)
            if late { self.links[l].pending = Some(t); return "skip" }
            t.abort();
            let _ = t.await;
            let link = self.agent.create_link();
            self.links[l].lk = Some(if self.links[l].direct { LK::D(DirectLink::from(link)) } else { LK::Q(link) });
            self.root_drain().await;
            return "cut";
        }
        if self.stuck() || (late && self.held()) { return "skip" }
        if self.links[l].gone { return "gone" }
        let mut lk = self.links[l].lk.take().unwrap();
        if self.links[l].direct && self.links[l].tgt.is_none() {
            self.links[l].tgt = Some(Arc::new(Tgt { log: self.links[l].dlog.clone() }));
        }
        let tgt: Option<Arc<dyn AnyDirectUpdate>> = self.links[l].tgt.clone().map(|t| t as Arc<dyn AnyDirectUpdate>);
        let ready = {
            let mut fut: Pin<Box<dyn Future<Output = Result<(), UnitStatus>> + Send + '_>> = match &mut lk {
                LK::Q(link) if late => Box::pin(link.connect(false)),
                LK::Q(link) => Box::pin(async move { link.query().await.map(|_| ()) }),
                LK::D(dl) => Box::pin(dl.connect(tgt.unwrap(), false)),
            };
            let first = std::future::poll_fn(|cx| std::task::Poll::Ready(fut.as_mut().poll(cx))).await;
            // late: the gate handles Subscribe and answers; nobody polls the future meanwhile
            if first.is_pending() && late { settle().await; }
            drop(fut);
            first
        };
        self.links[l].lk = Some(lk);
        self.root_drain().await;
        match ready {
            std::task::Poll::Pending => "ok",
            std::task::Poll::Ready(Err(_)) => { self.links[l].gone = true; "gone" }
            std::task::Poll::Ready(Ok(())) => "?",
        }
    }

    async fn link_cmd(&mut self, l: usize, what: &str) -> &'static str {
        if !self.links[l].conn || self.closing() || self.stuck() || self.full() { return "skip" }
        if what == "s" && self.links[l].susp { return "skip" }
        if what == "r" && !self.links[l].susp { return "skip" }
        let lk = &mut self.links[l];
        match what {
            "d" => {
                match lk.lk.as_mut().unwrap() { LK::Q(link) => link.disconnect().await, LK::D(dl) => dl.disconnect().await }
                lk.conn = false;
                lk.susp = false;
            }
            "s" => {
                match lk.lk.as_mut().unwrap() { LK::Q(link) => link.suspend().await, LK::D(dl) => dl.suspend().await }
                lk.susp = true;
            }
            _ => {
                match lk.lk.as_mut().unwrap() { LK::Q(link) => link.verif_resume().await, LK::D(dl) => dl.verif_resume().await }
                lk.susp = false;
            }
        }
        self.root_drain().await;
        "ok"
    }

    async fn target_drop(&mut self, l: usize) -> &'static str {
        let lk = &mut self.links[l];
        if !lk.direct || lk.tgt.is_none() || lk.pending.is_some() { return "skip" }
        let t = lk.tgt.take().unwrap();
        drop(Arc::try_unwrap(t).expect("direct-update target still shared"));
        settle().await;
        "ok"
    }

    async fn query(&mut self, l: usize) -> String {
        let lk = &mut self.links[l];
        if !lk.conn || lk.gone { return "skip".into() }
        let r = match lk.lk.as_mut().unwrap() {
            LK::D(_) => return "skip".into(),
            LK::Q(link) => tokio::select! { biased; r = link.query() => Some(r), _ = settle() => None },
        };
        let s = match r {
            None => "-".to_string(),
            Some(Ok(u)) => { lk.log.push(dec(&u)); "item".to_string() }
            Some(Err(UnitStatus::Gone)) => { lk.gone = true; "gone".to_string() }
            Some(Err(_)) => "status".to_string(),
        };
        settle().await;
        s
    }

    async fn update(&mut self, p: usize) -> &'static str {
        if p >= self.pubs.len() || self.pubs[p].gate.is_none() || !idle(&mut self.pubs[p]) { return "skip" }
        let g = self.pubs[p].gate.clone().unwrap();
        let n = self.pubs[p].next;
        self.pubs[p].next += 1;
        let done = Arc::new(AtomicBool::new(false));
        self.pubs[p].busy = Some(done.clone());
        tokio::spawn(async move {
            g.update_data(enc(p as u32, n)).await;
            drop(g);
            done.store(true, SeqCst);
        });
        settle().await;
        if idle(&mut self.pubs[p]) { "done" } else { "blk" }
    }
}

fn show_log(log: &[(u32, u32)]) -> String {
    let mut ps: Vec<u32> = log.iter().map(|x| x.0).collect();
    ps.sort();
    ps.dedup();
    if ps.is_empty() { return "-".into() }
    ps.iter().map(|p| format!("{}:{}", p, log.iter().filter(|x| x.0 == *p).map(|x| x.1.to_string()).collect::<Vec<_>>().join(","))).collect::<Vec<_>>().join("/")
}

pub fn run_case(line: &str) -> String {
    let rt = tokio::runtime::Builder::new_current_thread().enable_time().start_paused(true).build().unwrap();
    let ops = ops(line);
    let cap = ops.first().filter(|o| o[0] == "Q").map(|o| o[1].parse::<usize>().unwrap().max(1)).unwrap_or(2);
    let (gate, mut agent) = Gate::new(cap);
    let metrics = gate.metrics();
    let links = (0..NLINKS).map(|l| {
        let link = agent.create_link();
        let direct = l % 2 == 1;
        L { lk: Some(if direct { LK::D(DirectLink::from(link)) } else { LK::Q(link) }), direct, tgt: None, dlog: Log::default(),
            pending: None, conn: false, susp: false, gone: false, log: vec![] }
    }).collect();
    let gate = Arc::new(gate);
    let root_done = Arc::new(AtomicBool::new(false));
    let hold = Arc::new(Hold::default());
    let root_task = {
        let (g, flag) = (gate.clone(), root_done.clone());
        let _e = rt.enter();
        // "run" the gate like a unit does; the unit exits when process() says Terminated
        let hold = hold.clone();
        tokio::spawn(async move {
            loop {
                if hold.held.load(SeqCst) { hold.wake.notified().await; continue; }
                let r = tokio::select! { biased;
                    _ = hold.wake.notified() => None,
                    r = g.process() => Some(r),
                };
                if let Some(Err(_)) = r { break }
            }
            drop(g);
            flag.store(true, SeqCst);
        })
    };
    let mut st = St { hold, root_done, root_task: Some(root_task), term_req: false, aborted: false, agent, links, out: vec![],
                      pubs: vec![P { gate: Some(gate), next: 0, busy: None, term: false }] };
    let num = |o: &Vec<&str>| o.get(1).and_then(|t| t.parse::<usize>().ok()).unwrap_or(0);
    for o in &ops {
        let tok: String = match o[0] {
            "Q" => "Q".into(),
            "c" if num(o) < NLINKS => format!("c:{}", rt.block_on(st.connect(num(o)))),
            "d" | "s" | "r" if num(o) < NLINKS => format!("{}:{}", o[0], rt.block_on(st.link_cmd(num(o), o[0]))),
            "t" if num(o) < NLINKS => format!("t:{}", rt.block_on(st.target_drop(num(o)))),
            "o" if num(o) < NLINKS => format!("o:{}", rt.block_on(st.drop_link(num(o)))),
            "H" => format!("H:{}", rt.block_on(st.hold_root())),
            "R" => format!("R:{}", rt.block_on(st.release_root())),
            "a" | "b" if num(o) < NLINKS => format!("{}:{}", o[0], rt.block_on(st.abandon(num(o), o[0] == "b"))),
            "q" if num(o) < NLINKS => format!("q:{}", rt.block_on(st.query(num(o)))),
            "u" => format!("u:{}", rt.block_on(st.update(num(o)))),
            "M" => format!("M:{}/{}", metrics.num_updates.load(SeqCst), metrics.num_dropped_updates.load(SeqCst)),
            "k" => {
                if !st.root_handle() || st.term_req || st.stuck() || st.held() || st.pubs.len() > MAXCLONES { "k:skip".into() } else {
                    let g = rt.block_on(async { let g = st.pubs[0].gate.as_ref().unwrap().as_ref().clone(); st.root_drain().await; g });
                    st.pubs.push(P { gate: Some(Arc::new(g)), next: 0, busy: None, term: false });
                    format!("k:{}", st.pubs.len() - 1)
                }
            }
            "x" => {
                let c = num(o);
                if c == 0 || c >= st.pubs.len() || st.pubs[c].gate.is_none() || !idle(&mut st.pubs[c]) || st.held() { "x:skip".into() } else {
                    drop_clone(&rt, &mut st, c);
                    "x:ok".into()
                }
            }
            "F" | "D" => {
                let c = num(o);
                if c == 0 || c >= st.pubs.len() { format!("{}:skip", o[0]) } else { format!("{}:{}", o[0], rt.block_on(st.clone_process(c, o[0] == "D"))) }
            }
            "T" | "Z" => {
                if !st.root_handle() || st.term_req || !idle(&mut st.pubs[0]) || st.held() { format!("{}:skip", o[0]) } else { format!("{}:{}", o[0], terminate(&rt, &mut st, o[0] == "T")) }
            }
            "X" => {
                if !st.root_handle() || !idle(&mut st.pubs[0]) || st.held() { "X:skip".into() } else { format!("X:{}", drop_root(&rt, &mut st)) }
            }
            _ => "?".into(),
        };
        st.out.push(tok);
    }
    // ---- final phase: the unit gets back to its gate; let every update in flight finish, then terminate everything
    rt.block_on(st.release_root());
    loop {
        let mut progress = false;
        for l in (0..NLINKS).step_by(2) {
            while rt.block_on(st.query(l)) == "item" { progress = true; }
        }
        if !progress { break }
    }
    let busy: Vec<String> = (0..st.pubs.len()).filter(|p| !idle(&mut st.pubs[*p])).map(|p| p.to_string()).collect();
    if busy.is_empty() {
        if st.root_handle() && !st.term_req { terminate(&rt, &mut st, true); }
        // every clone runs its process() until nothing moves any more
        for _ in 0..st.pubs.len() {
            for c in 1..st.pubs.len() { rt.block_on(st.clone_process(c, true)); }
        }
    }
    let mut terms = vec![];
    for c in 1..st.pubs.len() {
        if st.pubs[c].gate.is_some() && busy.is_empty() {
            terms.push(format!("{}:{}", c, if st.pubs[c].term { 1 } else { 0 }));
            drop_clone(&rt, &mut st, c);
        }
    }
    let rterm = if st.root_done.load(SeqCst) { 1 } else { 0 };
    if st.root_handle() && busy.is_empty() { drop_root(&rt, &mut st); }
    let mut gones = vec![];
    for l in (0..NLINKS).step_by(2) {
        if st.links[l].conn && busy.is_empty() {
            let mut r = rt.block_on(st.query(l));
            while r == "item" { r = rt.block_on(st.query(l)); }
            gones.push(format!("{}:{}", l, if st.links[l].gone { 1 } else { 0 }));
        }
    }
    let mut out = st.out.clone();
    out.push("|".into());
    for l in 0..NLINKS {
        let log = if l % 2 == 0 { st.links[l].log.clone() } else { st.links[l].dlog.lock().unwrap().clone() };
        out.push(format!("L{}={}", l, show_log(&log)));
    }
    out.push(format!("m={}/{}", metrics.num_updates.load(SeqCst), metrics.num_dropped_updates.load(SeqCst)));
    out.push(format!("busy={}", if busy.is_empty() { "-".into() } else { busy.join(",") }));
    out.push(format!("t={}", if terms.is_empty() { "-".into() } else { terms.join(",") }));
    out.push(format!("r={}", rterm));
    out.push(format!("g={}", if gones.is_empty() { "-".into() } else { gones.join(",") }));
    // links are dropped inside the runtime context (Drop for a connected Link spawns a task)
    let _g = rt.enter();
    drop(st);
    out.join(" ")
}

/// outside the runtime context: Drop for a cloned Gate uses block_in_place inside one
fn drop_clone(rt: &tokio::runtime::Runtime, st: &mut St, c: usize) {
    let g = st.pubs[c].gate.take().unwrap();
    drop(Arc::try_unwrap(g).expect("clone still shared"));
    rt.block_on(st.root_drain());
}

/// agent.terminate(); the unit task sees Terminated - at once ("ok"), or later because the root is
/// waiting inside notify_clones ("blk"). drop_gate: the harness lets go of the root Gate object
/// (the unit's task holds it until process() has returned).
fn terminate(rt: &tokio::runtime::Runtime, st: &mut St, drop_gate: bool) -> &'static str {
    st.term_req = true;
    rt.block_on(async {
        st.agent.terminate().await;
        st.root_drain().await;
    });
    let seen = st.root_done.load(SeqCst);
    if drop_gate {
        st.pubs[0].gate = None;
        rt.block_on(st.root_drain());
    }
    if !seen { "blk" } else if !drop_gate || st.agent.is_terminated() { "ok" } else { "open" }
}

/// the unit's task is cancelled (if it still runs) and the root Gate object dropped
fn drop_root(rt: &tokio::runtime::Runtime, st: &mut St) -> &'static str {
    rt.block_on(async {
        if let Some(t) = st.root_task.take() { t.abort(); }
        settle().await;
    });
    st.aborted = true;
    st.pubs[0].gate = None;
    rt.block_on(st.root_drain());
    if st.agent.is_terminated() { "ok" } else { "open" }
}

pub fn special(name: &str, args: &[String]) -> bool {
    if name == "c08-soak" { soak(args); true } else { false }
}

// ---------------------------------------------------------------------------
// c08-soak <millis> <seed>: real threads. Root gate + clones publish concurrently while queue
// and direct links connect (half of the attempts are abandoned after 0-30 us and repeated) / suspend /
// disconnect, clones are created and dropped, then the
// gate is terminated. Everything is stamped with one logical clock; the recorded per-link
// sequences are judged:
//   (a) per (link, publisher): strictly increasing sequence numbers (at most once, in order);
//   (b) nothing missing while connected: an update whose update_data() started after the link's
//       connect() returned and finished before the link began to leave (direct links), resp.
//       before the update of the last item the link received in that period started (queue
//       links, FIFO), must have been received in that period;
//   (c) after Terminate every clone's process() returned Terminated and every queue link that is
//       still connected sees Gone.
// Prints "ok <stats>" or "bad <what>".
use std::sync::atomic::AtomicU64;

static CLOCK: AtomicU64 = AtomicU64::new(1);
fn tick() -> u64 { CLOCK.fetch_add(1, SeqCst) }

#[derive(Debug, Default)]
struct STgt { log: Mutex<Vec<(u32, u32, u64)>> }
impl DirectUpdate for STgt {
    fn direct_update<'a, 'b>(&'a self, update: Update) -> Pin<Box<dyn Future<Output = ()> + Send + 'b>>
    where 'a: 'b, Self: 'b {
        Box::pin(async move { let (p, n) = dec(&update); self.log.lock().unwrap().push((p, n, tick())); })
    }
}
impl AnyDirectUpdate for STgt {}

struct Rng(u64);
impl Rng {
    fn next(&mut self) -> u64 {
        self.0 = self.0.wrapping_add(0x9E3779B97F4A7C15);
        let mut z = self.0;
        z = (z ^ (z >> 30)).wrapping_mul(0xBF58476D1CE4E5B9);
        z = (z ^ (z >> 27)).wrapping_mul(0x94D049BB133111EB);
        z ^ (z >> 31)
    }
    fn below(&mut self, n: u64) -> u64 { self.next() % n.max(1) }
}

type PubLog = Vec<(u32, u64, u64)>; // (seq, start, end)
struct Period { t1: u64, t2: u64, items: Vec<(u32, u32)> }

async fn publisher(g: Arc<Gate>, p: u32, stop: Arc<AtomicBool>, max: u32) -> (u32, PubLog) {
    let mut log = vec![];
    let mut n = 0;
    while !stop.load(SeqCst) && n < max {
        let start = tick();
        g.update_data(enc(p, n)).await;
        log.push((n, start, tick()));
        n += 1;
        if n % 4 == 0 { tokio::time::sleep(Duration::from_micros(50)).await; } else { tokio::task::yield_now().await; }
    }
    (p, log)
}

async fn process_loop(g: Arc<Gate>) -> bool {
    loop { if g.process().await.is_err() { return true } }
}

pub fn soak(args: &[String]) {
    let millis: u64 = args.first().and_then(|s| s.parse().ok()).unwrap_or(1500);
    let seed: u64 = args.get(1).and_then(|s| s.parse().ok()).unwrap_or(1);
    static PANICS: Mutex<Vec<String>> = Mutex::new(Vec::new());
    std::panic::set_hook(Box::new(|info| {
        let mut v = PANICS.lock().unwrap();
        if v.len() < 5 { v.push(info.to_string().replace('\n', " ")); }
        if std::env::var("C08_SOAK_DEBUG").is_ok() { eprintln!("PANIC {info}"); }
    }));
    // watchdog: a panicking task (e.g. the root gate's) or a deadlock must not hang the check
    std::thread::spawn(move || {
        let t0 = std::time::Instant::now();
        loop {
            std::thread::sleep(Duration::from_millis(50));
            if let Some(p) = PANICS.lock().unwrap().first() {
                println!("bad a task panicked: {p}");
                std::process::exit(0);
            }
            if t0.elapsed() > Duration::from_millis(millis + 30_000) {
                println!("bad soak did not finish (deadlock?)");
                std::process::exit(0);
            }
        }
    });
    let rt = tokio::runtime::Builder::new_multi_thread().worker_threads(6).enable_time().build().unwrap();
    let verdict: Result<String, String> = rt.block_on(async move {
        let (gate, mut agent) = Gate::new(3);
        let gate = Arc::new(gate);
        let pubs_stop = Arc::new(AtomicBool::new(false));
        let links_stop = Arc::new(AtomicBool::new(false));
        let root_task = tokio::spawn(process_loop(gate.clone()));
        // publishers: the root gate and two long-lived clones
        let mut pub_tasks = vec![tokio::spawn(publisher(gate.clone(), 0, pubs_stop.clone(), u32::MAX))];
        let mut clone_proc = vec![];
        for p in 1..=2u32 {
            let c = Arc::new(gate.as_ref().clone());
            clone_proc.push(tokio::spawn(process_loop(c.clone())));
            pub_tasks.push(tokio::spawn(publisher(c, p, pubs_stop.clone(), u32::MAX)));
        }
        // clone churn: short-lived clones, each a fresh publisher id
        let churn = {
            let (g, stop) = (gate.clone(), pubs_stop.clone());
            tokio::spawn(async move {
                let mut logs = vec![];
                let mut p = 10u32;
                while !stop.load(SeqCst) {
                    // the idiomatic way: run the clone's machine while publishing, then drop it at once
                    let c = Arc::new(g.as_ref().clone());
                    match c.process_until(publisher(c.clone(), p, stop.clone(), 5)).await {
                        Ok(l) => logs.push(l),
                        Err(_) => break,
                    }
                    drop(Arc::try_unwrap(c).expect("churn clone still shared"));
                    p += 1;
                    tokio::time::sleep(Duration::from_micros(300)).await;
                }
                logs
            })
        };
        // clone churn of the other kind (as in mrt-file-in): clones that only publish and never run
        // process(), so their command queue fills up while they live, then they are dropped
        let churn_np = {
            let (g, stop) = (gate.clone(), pubs_stop.clone());
            tokio::spawn(async move {
                let mut logs = vec![];
                let mut p = 1_000_000u32;
                while !stop.load(SeqCst) {
                    let c = Arc::new(g.as_ref().clone());
                    logs.push(publisher(c.clone(), p, stop.clone(), 24).await);
                    drop(Arc::try_unwrap(c).expect("churn clone still shared"));
                    p += 1;
                    tokio::time::sleep(Duration::from_micros(500)).await;
                }
                logs
            })
        };
        // links
        let mut qtasks = vec![];
        let mut dtasks = vec![];
        for l in 0..4u64 {
            let link = agent.create_link();
            let stop = links_stop.clone();
            let mut rng = Rng(seed.wrapping_mul(1000).wrapping_add(l));
            if l % 2 == 0 {
                qtasks.push(tokio::spawn(async move {
                    let mut link = link;
                    let mut periods: Vec<Period> = vec![];
                    let mut gone = false;
                    'outer: loop {
                        // every other attempt gives up on connect() after 0-30 us: before the gate got to the
                        // Subscribe, or after it answered - whichever the schedule makes of it - and tries again
                        if rng.below(2) == 0 {
                            match tokio::time::timeout(Duration::from_micros(rng.below(30)), link.connect(false)).await {
                                Ok(Ok(())) => {}
                                Ok(Err(_)) => { gone = true; break; }
                                Err(_) => continue,
                            }
                        }
                        if link.connect(false).await.is_err() { gone = true; break; }
                        let mut per = Period { t1: tick(), t2: 0, items: vec![] };
                        let k = 1 + rng.below(30);
                        let leave = stop.load(SeqCst);
                        for i in 0..k {
                            if i == k / 2 && rng.below(4) == 0 { link.suspend().await; }
                            match tokio::time::timeout(Duration::from_millis(3), link.query()).await {
                                Ok(Ok(u)) => per.items.push(dec(&u)),
                                Ok(Err(_)) => { gone = true; periods.push(per); break 'outer; }
                                Err(_) => {}
                            }
                        }
                        per.t2 = tick();
                        if leave {
                            // last round: stay connected and drain until the gate is gone
                            loop {
                                match tokio::time::timeout(Duration::from_millis(2000), link.query()).await {
                                    Ok(Ok(u)) => per.items.push(dec(&u)),
                                    Ok(Err(_)) => { gone = true; break; }
                                    Err(_) => break,
                                }
                            }
                            periods.push(per);
                            break;
                        }
                        link.disconnect().await;
                        periods.push(per);
                        tokio::time::sleep(Duration::from_micros(rng.below(1500))).await;
                    }
                    (l, periods, gone)
                }));
            } else {
                let tgt = Arc::new(STgt::default());
                dtasks.push(tokio::spawn(async move {
                    let mut dl = DirectLink::from(link);
                    let mut periods: Vec<(u64, u64)> = vec![];
                    while !stop.load(SeqCst) {
                        // abandoned connects, as for the queue links; the target stays the same
                        if rng.below(2) == 0 {
                            match tokio::time::timeout(Duration::from_micros(rng.below(30)), dl.connect(tgt.clone(), false)).await {
                                Ok(Ok(())) => {}
                                Ok(Err(_)) => break,
                                Err(_) => continue,
                            }
                        }
                        if dl.connect(tgt.clone(), false).await.is_err() { break; }
                        let t1 = tick();
                        tokio::time::sleep(Duration::from_micros(rng.below(3000))).await;
                        let t2 = tick();
                        if rng.below(4) == 0 { dl.suspend().await; }
                        dl.disconnect().await;
                        periods.push((t1, t2));
                        tokio::time::sleep(Duration::from_micros(rng.below(800))).await;
                    }
                    let log = tgt.log.lock().unwrap().clone();
                    (l, periods, log)
                }));
            }
        }
        tokio::time::sleep(Duration::from_millis(millis)).await;
        // stop publishing (links keep consuming so that nobody stays blocked), then the links
        let dbg = std::env::var("C08_SOAK_DEBUG").is_ok();
        if dbg { eprintln!("stopping publishers"); }
        pubs_stop.store(true, SeqCst);
        let mut plogs: Vec<(u32, PubLog)> = vec![];
        for (i, t) in pub_tasks.into_iter().enumerate() {
            match tokio::time::timeout(Duration::from_secs(5), t).await {
                Ok(r) => plogs.push(r.unwrap()),
                Err(_) => return Err(format!("publisher {i} is stuck inside update_data")),
            }
        }
        if dbg { eprintln!("publishers joined"); }
        plogs.extend(churn.await.unwrap());
        match tokio::time::timeout(Duration::from_secs(5), churn_np).await {
            Ok(r) => plogs.extend(r.unwrap()),
            Err(_) => return Err("dropping a clone that never ran process() is stuck".into()),
        }
        if dbg { eprintln!("churn joined"); }
        links_stop.store(true, SeqCst);
        let mut dres = vec![];
        for t in dtasks { dres.push(t.await.unwrap()); }
        tokio::time::sleep(Duration::from_millis(20)).await;
        if dbg { eprintln!("direct links joined"); }
        agent.terminate().await;
        let root_term = tokio::time::timeout(Duration::from_secs(5), root_task).await.map(|r| r.unwrap_or(false)).unwrap_or(false);
        drop(gate);
        let mut clones_term = true;
        for t in clone_proc {
            clones_term &= tokio::time::timeout(Duration::from_secs(5), t).await.map(|r| r.unwrap_or(false)).unwrap_or(false);
        }
        if dbg { eprintln!("terminated root={root_term} clones={clones_term}"); }
        let mut qres = vec![];
        if dbg { eprintln!("waiting for queue links"); }
        for (i, t) in qtasks.into_iter().enumerate() {
            if dbg { eprintln!("waiting for queue link task {i}"); }
            match tokio::time::timeout(Duration::from_secs(10), t).await {
                Ok(r) => qres.push(r.unwrap()),
                Err(_) => return Err(format!("queue link {} is stuck after termination (neither an update nor Gone)", 2 * i)),
            }
        }

        // ---- judge
        if dbg { eprintln!("judging"); }
        use std::collections::HashMap;
        let mut when: HashMap<(u32, u32), (u64, u64)> = HashMap::new();
        let mut published = 0usize;
        for (p, log) in &plogs { for (n, s, e) in log { when.insert((*p, *n), (*s, *e)); published += 1; } }
        let in_order = |seq: &[(u32, u32)], who: String| -> Result<(), String> {
            let mut last: HashMap<u32, u32> = HashMap::new();
            for (p, n) in seq {
                if let Some(m) = last.get(p) { if n <= m { return Err(format!("{who}: publisher {p} seq {n} after {m} (duplicate or out of order)")); } }
                last.insert(*p, *n);
            }
            Ok(())
        };
        let mut received = 0usize;
        let mut nperiods = 0usize;
        let mut checked = 0usize;
        // updates sorted by start stamp: (start, end, p, n)
        let mut by_start: Vec<(u64, u64, u32, u32)> = when.iter().map(|((p, n), (s, e))| (*s, *e, *p, *n)).collect();
        by_start.sort();
        let missing = |t1: u64, bound: u64, have: &std::collections::HashSet<(u32, u32)>, checked: &mut usize| -> Option<(u32, u32)> {
            let from = by_start.partition_point(|u| u.0 <= t1);
            for u in &by_start[from..] {
                if u.0 >= bound { break }
                if u.1 < bound {
                    *checked += 1;
                    if !have.contains(&(u.2, u.3)) { return Some((u.2, u.3)) }
                }
            }
            None
        };
        for (l, periods, gone) in &qres {
            let all: Vec<(u32, u32)> = periods.iter().flat_map(|p| p.items.iter().copied()).collect();
            received += all.len();
            in_order(&all, format!("queue link {l}"))?;
            for per in periods {
                nperiods += 1;
                let Some(last) = per.items.last() else { continue };
                let Some((s_last, _)) = when.get(last) else { return Err(format!("queue link {l} received unpublished {last:?}")) };
                let have: std::collections::HashSet<(u32, u32)> = per.items.iter().copied().collect();
                if let Some((p, n)) = missing(per.t1, *s_last, &have, &mut checked) {
                    return Err(format!("queue link {l}: update {p}.{n} published while connected is missing"));
                }
            }
            if !gone { return Err(format!("queue link {l} did not observe Gone after termination")); }
        }
        for (l, periods, log) in &dres {
            let all: Vec<(u32, u32)> = log.iter().map(|x| (x.0, x.1)).collect();
            received += all.len();
            in_order(&all, format!("direct link {l}"))?;
            let have: std::collections::HashSet<(u32, u32)> = all.iter().copied().collect();
            for (t1, t2) in periods {
                nperiods += 1;
                if let Some((p, n)) = missing(*t1, *t2, &have, &mut checked) {
                    return Err(format!("direct link {l}: update {p}.{n} published while connected is missing"));
                }
            }
        }
        if !root_term { return Err("root gate did not terminate".into()); }
        if !clones_term { return Err("a clone did not observe the termination".into()); }
        Ok::<String, String>(format!("published={published} received={received} periods={nperiods} connected-checks={checked} publishers={}", plogs.len()))
    });
    let panics = PANICS.lock().unwrap().clone();
    match verdict {
        _ if !panics.is_empty() => println!("bad a task panicked: {}", panics[0]),
        Ok(s) => println!("ok {s}"),
        Err(e) => println!("bad {e}"),
    }
    rt.shutdown_timeout(Duration::from_secs(1));
}
